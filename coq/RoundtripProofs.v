(* RoundtripProofs.v — decoding the encoding of a well-formed value gives the value back (C01):
   parse_jsonb (enc v) = Ok (normalise v), for every nesting shape, under the size bounds of wf. *)
From Coq Require Import List NArith ZArith Bool Lia ZifyBool ZifyNat ZifyN.
Import ListNotations.
From JB Require Import Constants Bytes Utf8 Num NumProofs Value Codec Order OrderProofs CodecProofs.
Open Scope N_scope.
Set Default Timeout 120.

Ltac Zify.zify_post_hook ::= Z.div_mod_to_equations.
Lemma rd32_be32 w rest : w < 4294967296 -> rd32 (be32 w ++ rest) = Some (w, rest).
Proof. intros H. unfold be32, rd32. cbn [app]. f_equal. f_equal. lia. Qed.
Ltac Zify.zify_post_hook ::= idtac.

Arguments N.lor : simpl never.
Arguments N.land : simpl never.
Arguments N.eqb : simpl never.
Arguments N.ltb : simpl never.
Arguments N.leb : simpl never.
Arguments N.mul : simpl never.
Arguments N.add : simpl never.
Arguments be32 : simpl never.
Arguments rd32 : simpl never.
Arguments u32 : simpl never.

(* ---- words ---- *)
Lemma lor_bound a b k : a < 2 ^ k -> b < 2 ^ k -> N.lor a b < 2 ^ k.
Proof.
  intros Ha Hb. destruct (N.eq_dec k 0) as [->|Hk].
  - rewrite N.pow_0_r in *. assert (a = 0) by lia. assert (b = 0) by lia. subst. change (N.lor 0 0) with 0. lia.
  - destruct (N.eq_dec (N.lor a b) 0) as [E|E]; [rewrite E; apply N.neq_0_lt_0; apply N.pow_nonzero; lia|].
    apply N.log2_lt_pow2; [lia|]. rewrite N.log2_lor. apply N.max_lub_lt.
    + destruct (N.eq_dec a 0) as [->|Na]; [change (N.log2 0) with 0; lia|]. apply N.log2_lt_pow2; lia.
    + destruct (N.eq_dec b 0) as [->|Nb]; [change (N.log2 0) with 0; lia|]. apply N.log2_lt_pow2; lia.
Qed.

(* a field below 2^k does not meet a mask made of bits >= k *)
Lemma land_low_high len k m : len < 2 ^ k -> N.land len (N.shiftl m k) = 0.
Proof.
  intros H. apply N.bits_inj_0. intros n. rewrite N.land_spec.
  destruct (N.lt_ge_cases n k) as [Hn|Hn].
  - rewrite N.shiftl_spec_low by exact Hn. apply andb_false_r.
  - replace (N.testbit len n) with false; [reflexivity|]. symmetry.
    destruct (N.eq_dec len 0) as [->|Hz]; [apply N.bits_0|]. apply N.bits_above_log2.
    apply N.log2_lt_pow2; [lia|]. apply N.lt_le_trans with (2 ^ k); [exact H|]. apply N.pow_le_mono_r; lia.
Qed.

Lemma je_type_word t len : len < 268435456 -> N.land t JENTRY_OFF_LEN_MASK = 0 -> N.land t JENTRY_TYPE_MASK = t ->
  je_type (N.lor t len) = t.
Proof.
  intros Hl Ht1 Ht2. unfold je_type. rewrite N.land_lor_distr_l.
  change JENTRY_TYPE_MASK with (N.shiftl 7 28). rewrite (land_low_high len 28 7) by exact Hl.
  rewrite N.lor_0_r. exact Ht2.
Qed.
Lemma je_len_word t len : len < 268435456 -> N.land t JENTRY_OFF_LEN_MASK = 0 -> je_len (N.lor t len) = len.
Proof.
  intros Hl Ht. unfold je_len. rewrite N.land_lor_distr_l, Ht, N.lor_0_l.
  change JENTRY_OFF_LEN_MASK with (N.ones 28). rewrite N.land_ones. apply N.mod_small. exact Hl.
Qed.
Lemma hdr_type_word t n : n < 536870912 -> N.land t CONTAINER_HEADER_LEN_MASK = 0 -> N.land t CONTAINER_HEADER_TYPE_MASK = t ->
  hdr_type (N.lor t n) = t.
Proof.
  intros Hl Ht1 Ht2. unfold hdr_type. rewrite N.land_lor_distr_l.
  change CONTAINER_HEADER_TYPE_MASK with (N.shiftl 7 29). rewrite (land_low_high n 29 7) by exact Hl.
  rewrite N.lor_0_r. exact Ht2.
Qed.
Lemma hdr_len_word t n : n < 536870912 -> N.land t CONTAINER_HEADER_LEN_MASK = 0 -> hdr_len (N.lor t n) = n.
Proof.
  intros Hl Ht. unfold hdr_len. rewrite N.land_lor_distr_l, Ht, N.lor_0_l.
  change CONTAINER_HEADER_LEN_MASK with (N.ones 29). rewrite N.land_ones. apply N.mod_small. exact Hl.
Qed.

(* the payload length of every well-formed value is below 2^28 *)
Lemma payload_small v : wf_size v = true -> lenN (payload v) < 268435456.
Proof.
  intros H. destruct v as [|[]|s|n|l|o]; unfold payload; cbn [enc_item snd].
  - reflexivity.
  - reflexivity.
  - reflexivity.
  - cbn [wf_size] in H. apply N.ltb_lt in H. exact H.
  - pose proof (compact_encode_len n). unfold lenN. lia.
  - cbn [wf_size] in H. apply andb_true_iff in H. destruct H as [H _]. apply andb_true_iff in H. destruct H as [_ H].
    apply N.ltb_lt in H. exact H.
  - cbn [wf_size] in H. apply andb_true_iff in H. destruct H as [H _]. apply andb_true_iff in H. destruct H as [_ H].
    apply N.ltb_lt in H. exact H.
Qed.

Definition word (v : value) : N := fst (enc_item v).
Lemma word_eq v : wf_size v = true -> word v = N.lor (tag_of v) (lenN (payload v)).
Proof.
  intros H. unfold word. rewrite <- ent_word. unfold je_encoded, ent. cbn [fst snd].
  rewrite u32_small; [reflexivity|]. pose proof (payload_small v H). lia.
Qed.
Lemma tag_facts v : N.land (tag_of v) JENTRY_OFF_LEN_MASK = 0 /\ N.land (tag_of v) JENTRY_TYPE_MASK = tag_of v /\ tag_of v < 4294967296.
Proof. destruct v as [|[]| | | |]; cbn [tag_of]; repeat split; vm_compute; reflexivity. Qed.
Lemma word_type v : wf_size v = true -> je_type (word v) = tag_of v.
Proof. intros H. rewrite (word_eq v H). destruct (tag_facts v) as (A & B & _). apply je_type_word; auto. apply payload_small; exact H. Qed.
Lemma word_len v : wf_size v = true -> je_len (word v) = lenN (payload v).
Proof. intros H. rewrite (word_eq v H). destruct (tag_facts v) as (A & _ & _). apply je_len_word; auto. apply payload_small; exact H. Qed.
Lemma word_bound v : wf_size v = true -> word v < 4294967296.
Proof.
  intros H. rewrite (word_eq v H). destruct (tag_facts v) as (_ & _ & C). change 4294967296 with (2 ^ 32).
  apply lor_bound; [exact C|]. pose proof (payload_small v H). change (2 ^ 32) with 4294967296. lia.
Qed.
Definition key_word (k : list N) : N := jentry_word STRING_TAG (lenN k).
Lemma key_word_eq k : lenN k < 268435456 -> key_word k = N.lor STRING_TAG (lenN k).
Proof. intros H. unfold key_word, jentry_word. rewrite u32_small by lia. reflexivity. Qed.
Lemma key_word_type k : lenN k < 268435456 -> je_type (key_word k) = STRING_TAG.
Proof. intros H. rewrite key_word_eq by exact H. apply je_type_word; auto; vm_compute; reflexivity. Qed.
Lemma key_word_len k : lenN k < 268435456 -> je_len (key_word k) = lenN k.
Proof. intros H. rewrite key_word_eq by exact H. apply je_len_word; auto; vm_compute; reflexivity. Qed.
Lemma key_word_bound k : lenN k < 268435456 -> key_word k < 4294967296.
Proof.
  intros H. rewrite key_word_eq by exact H. change 4294967296 with (2 ^ 32). apply lor_bound; [vm_compute; reflexivity|].
  change (2 ^ 32) with 4294967296. lia.
Qed.

Lemma rd_jentries_flat (ws : list N) rest :
  Forall (fun w => w < 4294967296) ws -> rd_jentries (length ws) (flat_map be32 ws ++ rest) = Some (ws, rest).
Proof.
  induction ws as [|w ws IH]; intros HF; cbn [length rd_jentries flat_map]; [reflexivity|].
  inversion HF; subst. rewrite <- app_assoc, rd32_be32 by assumption. rewrite IH by assumption. reflexivity.
Qed.

Lemma take_app s rest : take (lenN s) (s ++ rest) = Some (s, rest).
Proof.
  unfold take. rewrite lenN_app. replace (lenN s <=? lenN s + lenN rest) with true by (symmetry; apply N.leb_le; lia).
  unfold lenN. rewrite Nat2N.id. rewrite firstn_app, Nat.sub_diag, firstn_all. cbn [firstn]. rewrite app_nil_r.
  rewrite skipn_app, Nat.sub_diag, skipn_all. reflexivity.
Qed.

(* ---- children ---- *)
Lemma dec_list_children f (l : list value) rest :
  Forall (fun v => forall rest, f (word v) (payload v ++ rest) = Ok (normalise v, rest)) l ->
  dec_list f (map word l) (flat_map payload l ++ rest) = Ok (map normalise l, rest).
Proof.
  induction l as [|v l IH]; intros HF; cbn [map flat_map dec_list]; [reflexivity|].
  inversion HF as [|? ? Hv HF']; subst. rewrite <- app_assoc, Hv. cbn [bind]. rewrite IH by assumption. reflexivity.
Qed.

Lemma dec_list_keys f (o : list (list N * value)) rest :
  Forall (fun kv => forall rest, f (key_word (fst kv)) (fst kv ++ rest) = Ok (VStr (fst kv), rest)) o ->
  dec_list f (map (fun kv => key_word (fst kv)) o) (flat_map fst o ++ rest) = Ok (map (fun kv => VStr (fst kv)) o, rest).
Proof.
  induction o as [|kv o IH]; intros HF; cbn [map flat_map dec_list]; [reflexivity|].
  inversion HF as [|? ? Hv HF']; subst. rewrite <- app_assoc, Hv. cbn [bind]. rewrite IH by assumption. reflexivity.
Qed.

(* inserting a key greater than every key present appends it *)
Lemma assoc_insert_append {V} k (v : V) acc :
  Forall (fun kv => bytes_cmp k (fst kv) = Gt) acc -> assoc_insert k v acc = acc ++ [(k, v)].
Proof.
  induction acc as [|[k' v'] acc IH]; intros H; cbn [assoc_insert app]; [reflexivity|].
  inversion H as [|? ? Hk H']; subst. cbn [fst] in Hk. rewrite Hk. f_equal. apply IH. exact H'.
Qed.

(* strictly sorted keys: every key is below all later ones *)
Fixpoint strongly_sorted {V} (l : list (list N * V)) : Prop :=
  match l with
  | [] => True
  | (k, _) :: r => Forall (fun kv => bytes_cmp k (fst kv) = Lt) r /\ strongly_sorted r
  end.
Lemma keys_sorted_strong {V} (l : list (list N * V)) : keys_sorted l = true -> strongly_sorted l.
Proof.
  induction l as [|[k v] r IH]; intros H; cbn [strongly_sorted]; [exact I|].
  destruct r as [|[k2 v2] r2]; [split; [constructor|exact I]|].
  cbn [keys_sorted] in H. apply andb_true_iff in H. destruct H as [H1 H2].
  specialize (IH H2). split; [|exact IH].
  unfold bytes_ltb in H1. destruct (bytes_cmp k k2) eqn:E; try discriminate.
  constructor; [exact E|]. cbn [strongly_sorted] in IH. destruct IH as [IH1 _].
  eapply Forall_impl; [|exact IH1]. intros kv Hkv. cbn beta in *.
  eapply (proj1 (bytes_trio k)); eauto.
Qed.

Lemma dec_members_sorted f (o : list (list N * value)) : forall acc rest,
  Forall (fun kv => forall rest, f (word (snd kv)) (payload (snd kv) ++ rest) = Ok (normalise (snd kv), rest)) o ->
  strongly_sorted o ->
  Forall (fun a => Forall (fun kv => bytes_cmp (fst a) (fst kv) = Lt) o) acc ->
  dec_members f (map (fun kv => VStr (fst kv)) o) (map (fun kv => word (snd kv)) o)
              (flat_map (fun kv => payload (snd kv)) o ++ rest) acc
  = Ok (acc ++ map (fun kv => (fst kv, normalise (snd kv))) o, rest).
Proof.
  induction o as [|[k v] o IH]; intros acc rest HF HS HA; cbn [map flat_map dec_members].
  - rewrite app_nil_r. reflexivity.
  - inversion HF as [|? ? Hv HF']; subst. cbn [fst snd] in *. rewrite <- app_assoc, Hv. cbn [bind].
    destruct HS as [HS1 HS2].
    rewrite assoc_insert_append.
    + rewrite IH; [rewrite <- app_assoc; reflexivity|exact HF'|exact HS2|].
      apply Forall_app. split.
      * eapply Forall_impl; [|exact HA]. intros a Ha. inversion Ha; subst. assumption.
      * constructor; [exact HS1|constructor].
    + eapply Forall_impl; [|exact HA]. intros a Ha. inversion Ha as [|? ? Hak _]; subst. cbn [fst] in Hak.
      rewrite bytes_antisym, Hak. reflexivity.
Qed.

Lemma firstn_map_app {A B} (f g : A -> B) (l : list A) : firstn (length l) (map f l ++ map g l) = map f l.
Proof. rewrite firstn_app, map_length, Nat.sub_diag. cbn [firstn]. rewrite app_nil_r. rewrite <- (map_length f l). apply firstn_all. Qed.
Lemma skipn_map_app {A B} (f g : A -> B) (l : list A) : skipn (length l) (map f l ++ map g l) = map g l.
Proof. rewrite skipn_app, map_length, Nat.sub_diag. cbn [skipn]. rewrite <- (map_length f l). rewrite skipn_all. reflexivity. Qed.

(* depth bound: the fuel handed over by parse_jsonb is enough *)
Lemma fold_max_le (l : list value) x : In x l -> (depth x <= fold_right (fun x acc => Nat.max (depth x) acc) 0 l)%nat.
Proof. induction l as [|y l IH]; [intros []|]. cbn [fold_right]. intros [->|H]; [lia|]. specialize (IH H). lia. Qed.
Lemma fold_max_le_obj (o : list (list N * value)) kv : In kv o ->
  (depth (snd kv) <= fold_right (fun kv acc => Nat.max (depth (snd kv)) acc) 0 o)%nat.
Proof. induction o as [|y l IH]; [intros []|]. cbn [fold_right]. intros [->|H]; [lia|]. specialize (IH H). lia. Qed.

(* ---- decoding one entry ---- *)
Definition dec_ok (fuel : nat) (v : value) : Prop :=
  forall rest, decode_scalar fuel (word v) (payload v ++ rest) = Ok (normalise v, rest).

Lemma tag_tests v :
  (tag_of v =? NULL_TAG) = match v with VNull => true | _ => false end /\
  (tag_of v =? TRUE_TAG) = match v with VBool true => true | _ => false end /\
  (tag_of v =? FALSE_TAG) = match v with VBool false => true | _ => false end /\
  (tag_of v =? STRING_TAG) = match v with VStr _ => true | _ => false end /\
  (tag_of v =? NUMBER_TAG) = match v with VNum _ => true | _ => false end /\
  (tag_of v =? CONTAINER_TAG) = match v with VArr _ | VObj _ => true | _ => false end.
Proof. destruct v as [|[]| | | |]; cbn [tag_of]; repeat split; vm_compute; reflexivity. Qed.

Lemma header_facts tag : In tag [ARRAY_CONTAINER_TAG; OBJECT_CONTAINER_TAG] ->
  N.land tag CONTAINER_HEADER_LEN_MASK = 0 /\ N.land tag CONTAINER_HEADER_TYPE_MASK = tag /\ tag < 4294967296.
Proof. cbn [In]. intros [<-|[<-|[]]]; repeat split; vm_compute; reflexivity. Qed.

Lemma flat_be32_map {A} (f : A -> N) (l : list A) : flat_map (fun x => be32 (f x)) l = flat_map be32 (map f l).
Proof. induction l as [|x l IH]; cbn [flat_map map]; [reflexivity|]. rewrite IH. reflexivity. Qed.

Lemma wf_arr l : wfb (VArr l) = true -> Forall (fun v => wfb v = true) l /\ lenN l < 536870912.
Proof.
  unfold wfb. cbn [wf_shape wf_size]. intros H. apply andb_true_iff in H. destruct H as [H1 H2].
  apply andb_true_iff in H2. destruct H2 as [H2 H3]. apply andb_true_iff in H2. destruct H2 as [H2 _].
  split; [|apply N.ltb_lt; exact H2].
  rewrite forallb_forall in H1, H3. apply Forall_forall. intros x Hx. rewrite (H1 x Hx), (H3 x Hx). reflexivity.
Qed.
Lemma wf_obj o : wfb (VObj o) = true ->
  Forall (fun kv => wfb (snd kv) = true /\ utf8_valid (fst kv) = true /\ lenN (fst kv) < 268435456) o /\
  lenN o < 536870912 /\ keys_sorted o = true.
Proof.
  unfold wfb. cbn [wf_shape wf_size]. intros H. apply andb_true_iff in H. destruct H as [H1 H2].
  apply andb_true_iff in H1. destruct H1 as [Hs H1].
  apply andb_true_iff in H2. destruct H2 as [H2 H3]. apply andb_true_iff in H2. destruct H2 as [H2 _].
  split; [|split; [apply N.ltb_lt; exact H2|exact Hs]].
  rewrite forallb_forall in H1, H3. apply Forall_forall. intros x Hx. specialize (H1 x Hx). specialize (H3 x Hx).
  apply andb_true_iff in H1. destruct H1 as [H1 H1c]. apply andb_true_iff in H1. destruct H1 as [_ H1b].
  apply andb_true_iff in H3. destruct H3 as [H3a H3b].
  rewrite H1c, H3b. repeat split; auto. apply N.ltb_lt. exact H3a.
Qed.

Lemma header_word_small tag n : n < 536870912 -> header_word tag n = N.lor tag n.
Proof. intros H. unfold header_word. rewrite u32_small by lia. reflexivity. Qed.

(* the encoding of a well-formed value decodes to the value (up to the representation change of `normalise`) *)
Theorem decode_entry v : wfb v = true -> forall fuel, (2 * depth v <= fuel)%nat -> dec_ok fuel v.
Proof.
  induction v as [|b|s|n|l IH|o IH] using value_ind2; intros Hwf fuel Hf rest;
    (destruct fuel as [|fuel]; [cbn [depth] in Hf; lia|]);
    assert (Hsz : wf_size _ = true) by (unfold wfb in Hwf; apply andb_true_iff in Hwf; apply Hwf);
    cbn [decode_scalar]; rewrite (word_type _ Hsz), (word_len _ Hsz); cbn [tag_of].
  - change (NULL_TAG =? NULL_TAG) with true. reflexivity.
  - destruct b.
    + change (TRUE_TAG =? NULL_TAG) with false. change (TRUE_TAG =? TRUE_TAG) with true. reflexivity.
    + change (FALSE_TAG =? NULL_TAG) with false. change (FALSE_TAG =? TRUE_TAG) with false. change (FALSE_TAG =? FALSE_TAG) with true. reflexivity.
  - change (STRING_TAG =? NULL_TAG) with false. change (STRING_TAG =? TRUE_TAG) with false.
    change (STRING_TAG =? FALSE_TAG) with false. change (STRING_TAG =? STRING_TAG) with true. cbv iota.
    unfold payload. cbn [enc_item snd]. rewrite take_app.
    unfold wfb in Hwf. cbn [wf_shape] in Hwf. apply andb_true_iff in Hwf. destruct Hwf as [Hs _].
    apply andb_true_iff in Hs. destruct Hs as [_ Hu]. rewrite Hu. reflexivity.
  - change (NUMBER_TAG =? NULL_TAG) with false. change (NUMBER_TAG =? TRUE_TAG) with false.
    change (NUMBER_TAG =? FALSE_TAG) with false. change (NUMBER_TAG =? STRING_TAG) with false.
    change (NUMBER_TAG =? NUMBER_TAG) with true. cbv iota.
    unfold payload. cbn [enc_item snd]. rewrite take_app.
    unfold wfb in Hwf. cbn [wf_shape] in Hwf. apply andb_true_iff in Hwf. destruct Hwf as [Hr _].
    rewrite (num_roundtrip n Hr). reflexivity.
  - (* arrays *)
    change (CONTAINER_TAG =? NULL_TAG) with false. change (CONTAINER_TAG =? TRUE_TAG) with false.
    change (CONTAINER_TAG =? FALSE_TAG) with false. change (CONTAINER_TAG =? STRING_TAG) with false.
    change (CONTAINER_TAG =? NUMBER_TAG) with false. change (CONTAINER_TAG =? CONTAINER_TAG) with true. cbv iota.
    destruct fuel as [|fuel]; [cbn [depth] in Hf; lia|]. cbn [decode_jsonb].
    destruct (wf_arr l Hwf) as [Hall Hcnt].
    unfold payload. cbn [enc_item snd]. rewrite (header_word_small _ _ Hcnt). rewrite <- !app_assoc.
    destruct (header_facts ARRAY_CONTAINER_TAG) as (A & B & C); [cbn; auto|].
    rewrite rd32_be32 by (change 4294967296 with (2 ^ 32); apply lor_bound; [exact C|change (2 ^ 32) with 4294967296; lia]).
    rewrite (hdr_type_word _ _ Hcnt A B), (hdr_len_word _ _ Hcnt A).
    change (ARRAY_CONTAINER_TAG =? SCALAR_CONTAINER_TAG) with false. change (ARRAY_CONTAINER_TAG =? ARRAY_CONTAINER_TAG) with true. cbv iota.
    rewrite !flat_map_map. change (fun x : value => be32 (fst (enc_item x))) with (fun x : value => be32 (word x)).
    rewrite (flat_be32_map word l).
    assert (Hlen : lenN (flat_map be32 (map word l) ++ flat_map (fun x : value => snd (enc_item x)) l ++ rest) <? 4 * lenN l = false).
    { apply N.ltb_ge. rewrite lenN_app. rewrite <- (flat_be32_map word l), len_flat_be32. lia. }
    rewrite Hlen. unfold lenN at 1. rewrite Nat2N.id. rewrite <- (map_length word l).
    rewrite rd_jentries_flat.
    2:{ apply Forall_forall. intros w Hw. apply in_map_iff in Hw. destruct Hw as (x & <- & Hx).
        rewrite Forall_forall in Hall. specialize (Hall x Hx). unfold wfb in Hall. apply andb_true_iff in Hall.
        apply word_bound. apply Hall. }
    change (fun x : value => snd (enc_item x)) with payload.
    rewrite dec_list_children; [reflexivity|].
    rewrite Forall_forall in *. intros x Hx rest'. apply IH; [exact Hx|apply Hall; exact Hx|].
    cbn [depth] in Hf. pose proof (fold_max_le l x Hx). lia.
  - (* objects *)
    change (CONTAINER_TAG =? NULL_TAG) with false. change (CONTAINER_TAG =? TRUE_TAG) with false.
    change (CONTAINER_TAG =? FALSE_TAG) with false. change (CONTAINER_TAG =? STRING_TAG) with false.
    change (CONTAINER_TAG =? NUMBER_TAG) with false. change (CONTAINER_TAG =? CONTAINER_TAG) with true. cbv iota.
    destruct fuel as [|fuel]; [cbn [depth] in Hf; lia|]. cbn [decode_jsonb].
    destruct (wf_obj o Hwf) as (Hall & Hcnt & Hsorted).
    unfold payload. cbn [enc_item snd]. rewrite (header_word_small _ _ Hcnt). rewrite <- !app_assoc.
    destruct (header_facts OBJECT_CONTAINER_TAG) as (A & B & C); [cbn; auto|].
    rewrite rd32_be32 by (change 4294967296 with (2 ^ 32); apply lor_bound; [exact C|change (2 ^ 32) with 4294967296; lia]).
    rewrite (hdr_type_word _ _ Hcnt A B), (hdr_len_word _ _ Hcnt A).
    change (OBJECT_CONTAINER_TAG =? SCALAR_CONTAINER_TAG) with false. change (OBJECT_CONTAINER_TAG =? ARRAY_CONTAINER_TAG) with false.
    change (OBJECT_CONTAINER_TAG =? OBJECT_CONTAINER_TAG) with true. cbv iota.
    rewrite !flat_map_map.
    change (fun kv : list N * value => be32 (jentry_word STRING_TAG (lenN (fst kv)))) with (fun kv : list N * value => be32 (key_word (fst kv))).
    change (fun x : list N * value => be32 (fst (enc_item (snd x)))) with (fun x : list N * value => be32 (word (snd x))).
    rewrite (flat_be32_map (fun kv : list N * value => key_word (fst kv)) o).
    rewrite (flat_be32_map (fun kv : list N * value => word (snd kv)) o).
    set (kws := map (fun kv : list N * value => key_word (fst kv)) o).
    set (vws := map (fun kv : list N * value => word (snd kv)) o).
    assert (Hlen : lenN (flat_map be32 kws ++ flat_map be32 vws ++ flat_map (fun kv : list N * value => fst kv) o ++
                         flat_map (fun x : list N * value => snd (enc_item (snd x))) o ++ rest) <? 8 * lenN o = false).
    { apply N.ltb_ge. rewrite !lenN_app. unfold kws, vws. rewrite <- !flat_be32_map, !len_flat_be32. lia. }
    rewrite Hlen. assert (EN : N.to_nat (lenN o) = length o) by (unfold lenN; apply Nat2N.id). rewrite !EN.
    replace (2 * length o)%nat with (length (kws ++ vws)) by (unfold kws, vws; rewrite app_length, !map_length; lia).
    replace (flat_map be32 kws ++ flat_map be32 vws ++ flat_map (fun kv : list N * value => fst kv) o ++
             flat_map (fun x : list N * value => snd (enc_item (snd x))) o ++ rest)
      with (flat_map be32 (kws ++ vws) ++ flat_map (fun kv : list N * value => fst kv) o ++
            flat_map (fun x : list N * value => snd (enc_item (snd x))) o ++ rest)
      by (rewrite flat_map_app, <- app_assoc; reflexivity).
    rewrite rd_jentries_flat.
    2:{ apply Forall_app. rewrite Forall_forall in Hall. split; apply Forall_forall; intros w Hw; apply in_map_iff in Hw;
        destruct Hw as (x & <- & Hx); destruct (Hall x Hx) as (W & U & K).
        - apply key_word_bound. exact K.
        - apply word_bound. unfold wfb in W. apply andb_true_iff in W. apply W. }
    unfold kws, vws. rewrite firstn_map_app, skipn_map_app.
    rewrite dec_list_keys.
    2:{ rewrite Forall_forall in *. intros kv Hkv rest'. destruct (Hall kv Hkv) as (W & U & K).
        assert (Hd : (1 <= depth (snd kv))%nat) by (destruct (snd kv); cbn [depth]; lia).
        destruct fuel as [|fuel]; [cbn [depth] in Hf; pose proof (fold_max_le_obj o kv Hkv); lia|].
        cbn [decode_scalar]. rewrite (key_word_type _ K), (key_word_len _ K).
        change (STRING_TAG =? NULL_TAG) with false. change (STRING_TAG =? TRUE_TAG) with false.
        change (STRING_TAG =? FALSE_TAG) with false. change (STRING_TAG =? STRING_TAG) with true. cbv iota.
        rewrite take_app, U. reflexivity. }
    cbn [bind].
    change (fun x : list N * value => snd (enc_item (snd x))) with (fun kv : list N * value => payload (snd kv)).
    rewrite dec_members_sorted.
    + reflexivity.
    + rewrite Forall_forall in *. intros kv Hkv rest'. apply IH; [exact Hkv|apply (Hall kv Hkv)|].
      cbn [depth] in Hf. pose proof (fold_max_le_obj o kv Hkv). lia.
    + apply keys_sorted_strong. exact Hsorted.
    + constructor.
Qed.

(* ---- top level ---- *)
Lemma fold_max_bound_arr (l : list value) (S : nat) :
  (forall x, In x l -> (2 * depth x <= S + 2)%nat) ->
  (2 * fold_right (fun x acc => Nat.max (depth x) acc) 0 l <= S + 2)%nat.
Proof. induction l as [|y l IH]; intros H; cbn [fold_right]; [lia|]. pose proof (H y (or_introl eq_refl)). assert (forall x, In x l -> (2 * depth x <= S + 2)%nat) by (intros; apply H; right; assumption). specialize (IH H1). lia. Qed.
Lemma fold_max_bound_obj (o : list (list N * value)) (S : nat) :
  (forall kv, In kv o -> (2 * depth (snd kv) <= S + 2)%nat) ->
  (2 * fold_right (fun kv acc => Nat.max (depth (snd kv)) acc) 0 o <= S + 2)%nat.
Proof. induction o as [|y l IH]; intros H; cbn [fold_right]; [lia|]. pose proof (H y (or_introl eq_refl)). assert (forall x, In x l -> (2 * depth (snd x) <= S + 2)%nat) by (intros; apply H; right; assumption). specialize (IH H1). lia. Qed.
Lemma payload_in_sum (l : list value) x : In x l -> (length (payload x) <= length (flat_map payload l))%nat.
Proof. induction l as [|y l IH]; [intros []|]. cbn [flat_map]. rewrite app_length. intros [->|H]; [lia|]. specialize (IH H). lia. Qed.
Lemma payload_in_sum_obj (o : list (list N * value)) kv : In kv o ->
  (length (payload (snd kv)) <= length (flat_map (fun kv => payload (snd kv)) o))%nat.
Proof. induction o as [|y l IH]; [intros []|]. cbn [flat_map]. rewrite app_length. intros [->|H]; [lia|]. specialize (IH H). lia. Qed.

Lemma depth_bound v : (2 * depth v <= length (payload v) + 2)%nat.
Proof.
  induction v as [|b|s|n|l IH|o IH] using value_ind2; try (cbn [depth]; lia).
  - cbn [depth]. unfold payload. cbn [enc_item snd]. rewrite !app_length, be32_len, !flat_map_map.
    change (fun x : value => snd (enc_item x)) with payload.
    pose proof (fold_max_bound_arr l (length (flat_map payload l))) as B.
    assert (forall x, In x l -> (2 * depth x <= length (flat_map payload l) + 2)%nat).
    { intros x Hx. rewrite Forall_forall in IH. pose proof (IH x Hx). pose proof (payload_in_sum l x Hx). lia. }
    specialize (B H). lia.
  - cbn [depth]. unfold payload. cbn [enc_item snd]. rewrite !app_length, be32_len, !flat_map_map.
    change (fun x : list N * value => snd (enc_item (snd x))) with (fun kv : list N * value => payload (snd kv)).
    pose proof (fold_max_bound_obj o (length (flat_map (fun kv : list N * value => payload (snd kv)) o))) as B.
    assert (forall kv, In kv o -> (2 * depth (snd kv) <= length (flat_map (fun kv : list N * value => payload (snd kv)) o) + 2)%nat).
    { intros x Hx. rewrite Forall_forall in IH. pose proof (IH x Hx). pose proof (payload_in_sum_obj o x Hx). lia. }
    specialize (B H). lia.
Qed.

Lemma container_entry v f rest : is_container v = true -> wf_size v = true ->
  decode_scalar (S f) (word v) (payload v ++ rest) = decode_jsonb f (payload v ++ rest).
Proof.
  intros Hc Hsz. cbn [decode_scalar]. rewrite (word_type _ Hsz).
  destruct v as [|[]| | | |]; try discriminate Hc; cbn [tag_of];
    change (CONTAINER_TAG =? NULL_TAG) with false; change (CONTAINER_TAG =? TRUE_TAG) with false;
    change (CONTAINER_TAG =? FALSE_TAG) with false; change (CONTAINER_TAG =? STRING_TAG) with false;
    change (CONTAINER_TAG =? NUMBER_TAG) with false; change (CONTAINER_TAG =? CONTAINER_TAG) with true; reflexivity.
Qed.

Lemma payload_container_len v : is_container v = true -> (4 <= length (payload v))%nat.
Proof. destruct v; try discriminate; intros _; unfold payload; cbn [enc_item snd]; rewrite app_length, be32_len; lia. Qed.

Theorem parse_jsonb_enc v : wfb v = true -> parse_jsonb (enc v) = Ok (normalise v).
Proof.
  intros Hwf. assert (Hsz : wf_size v = true) by (unfold wfb in Hwf; apply andb_true_iff in Hwf; apply Hwf).
  destruct (is_container v) eqn:Hc.
  - assert (E : enc v = payload v) by (destruct v; try discriminate Hc; reflexivity). rewrite E.
    unfold parse_jsonb. pose proof (payload_container_len v Hc) as L4.
    replace (lenN (payload v) <? 4) with false by (symmetry; apply N.ltb_ge; unfold lenN; lia).
    pose proof (decode_entry v Hwf (S (S (length (payload v))))) as D.
    assert (Hf : (2 * depth v <= S (S (length (payload v))))%nat) by (pose proof (depth_bound v); lia).
    specialize (D Hf []). rewrite (container_entry v _ [] Hc Hsz) in D. rewrite app_nil_r in D. rewrite D. reflexivity.
  - assert (E : enc v = be32 SCALAR_CONTAINER_TAG ++ be32 (word v) ++ payload v) by (destruct v; try discriminate Hc; reflexivity).
    rewrite E. unfold parse_jsonb.
    replace (lenN (be32 SCALAR_CONTAINER_TAG ++ be32 (word v) ++ payload v) <? 4) with false
      by (symmetry; apply N.ltb_ge; rewrite lenN_app, lenN_be32; lia).
    cbn [decode_jsonb]. rewrite rd32_be32 by (vm_compute; reflexivity).
    change (hdr_type SCALAR_CONTAINER_TAG =? SCALAR_CONTAINER_TAG) with true. cbv iota.
    change (negb (SCALAR_CONTAINER_TAG =? SCALAR_CONTAINER_TAG)) with false. cbv iota.
    rewrite rd32_be32 by (apply word_bound; exact Hsz).
    pose proof (decode_entry v Hwf (length (be32 SCALAR_CONTAINER_TAG ++ be32 (word v) ++ payload v))) as D.
    assert (Hf : (2 * depth v <= length (be32 SCALAR_CONTAINER_TAG ++ be32 (word v) ++ payload v))%nat).
    { rewrite !app_length, !be32_len. destruct v; try discriminate Hc; cbn [depth]; lia. }
    specialize (D Hf []). rewrite app_nil_r in D. rewrite D. reflexivity.
Qed.

(* ---- the representation change is invisible: same bytes, equal value ---- *)
Lemma compact_encode_normalise n : compact_encode (normalise_num n) = compact_encode n.
Proof.
  destruct n as [z|u|b]; cbn [normalise_num]; try reflexivity.
  - destruct (z =? 0)%Z eqn:E; [|reflexivity]. cbn [compact_encode]. unfold CE_INT_ZERO, CE_UINT_ZERO. rewrite E. reflexivity.
  - destruct (f_is_nan b) eqn:E; [|reflexivity]. cbn [compact_encode]. rewrite E.
    change (f_is_nan F_NAN) with true. reflexivity.
Qed.
Lemma lenN_map {A B} (f : A -> B) l : lenN (map f l) = lenN l.
Proof. unfold lenN. rewrite map_length. reflexivity. Qed.
Theorem enc_item_normalise v : enc_item (normalise v) = enc_item v.
Proof.
  induction v as [|b|s|n|l IH|o IH] using value_ind2; cbn [normalise]; try reflexivity.
  - cbn [enc_item]. rewrite compact_encode_normalise. reflexivity.
  - cbn [enc_item]. rewrite !lenN_map.
    assert (E : map enc_item (map normalise l) = map enc_item l).
    { rewrite map_map. apply map_ext_in. intros x Hx. rewrite Forall_forall in IH. apply IH. exact Hx. }
    rewrite E. reflexivity.
  - cbn [enc_item]. rewrite !lenN_map.
    assert (E : map (fun kv : list N * value => enc_item (snd kv)) (map (fun kv => (fst kv, normalise (snd kv))) o)
                = map (fun kv : list N * value => enc_item (snd kv)) o).
    { rewrite map_map. apply map_ext_in. intros x Hx. cbn [snd]. rewrite Forall_forall in IH. apply IH. exact Hx. }
    rewrite E.
    assert (K1 : flat_map (fun kv : list N * value => be32 (jentry_word STRING_TAG (lenN (fst kv)))) (map (fun kv => (fst kv, normalise (snd kv))) o)
                 = flat_map (fun kv : list N * value => be32 (jentry_word STRING_TAG (lenN (fst kv)))) o).
    { rewrite flat_map_map. reflexivity. }
    assert (K2 : flat_map (fun kv : list N * value => fst kv) (map (fun kv => (fst kv, normalise (snd kv))) o)
                 = flat_map (fun kv : list N * value => fst kv) o).
    { rewrite flat_map_map. reflexivity. }
    rewrite K1, K2. reflexivity.
Qed.
Theorem enc_normalise v : enc (normalise v) = enc v.
Proof. unfold enc. rewrite enc_item_normalise. destruct v; reflexivity. Qed.

Lemma normalise_num_eq n : num_cmp (normalise_num n) n = Eq.
Proof.
  destruct n as [z|u|b]; cbn [normalise_num]; try apply num_cmp_refl.
  - destruct (z =? 0)%Z eqn:E; [|apply num_cmp_refl]. apply Z.eqb_eq in E. subst z. reflexivity.
  - destruct (f_is_nan b) eqn:E; [|apply num_cmp_refl]. unfold num_cmp. cbn [scaled]. unfold f_ext. rewrite E.
    change (f_is_nan F_NAN) with true. reflexivity.
Qed.
Theorem normalise_equal v : cmp_value (normalise v) v = Eq.
Proof.
  induction v as [|b|s|n|l IH|o IH] using value_ind2; cbn [normalise]; try apply cmp_value_refl.
  - cbn [cmp_value]. apply normalise_num_eq.
  - rewrite cmp_arr. induction IH as [|x xs Hx _ IHl]; cbn [map lex]; [reflexivity|]. rewrite Hx. exact IHl.
  - rewrite cmp_obj. induction IH as [|[k x] xs Hx _ IHl]; cbn [map lex]; [reflexivity|].
    unfold pair_cmp at 1. cbn [fst snd] in *. rewrite bytes_refl, Hx. exact IHl.
Qed.

(* re-encoding the decoded value reproduces the identical bytes *)
Theorem reencode_identical v d : wfb v = true -> parse_jsonb (enc v) = Ok d -> enc d = enc v /\ cmp_value d v = Eq.
Proof.
  intros Hwf H. rewrite (parse_jsonb_enc v Hwf) in H. inversion H; subst.
  split; [apply enc_normalise|apply normalise_equal].
Qed.
