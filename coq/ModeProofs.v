(* ModeProofs.v — consistency of the selection modes (C15) and the buffer frame of the result builders (C17),
   over an arbitrary list of selected items. *)
From Coq Require Import List NArith ZArith Bool Lia.
Import ListNotations.
From JB Require Import Constants Bytes Num Value Codec TreeOps Path PathSem.
Open Scope N_scope.
Set Default Timeout 60.

Lemma build_values_data items : forall buf offs,
  fst (build_values buf items offs) = buf ++ flat_map enc items.
Proof.
  induction items as [|x r IH]; intros buf offs; cbn [build_values flat_map fst].
  - rewrite app_nil_r. reflexivity.
  - rewrite IH. rewrite <- app_assoc. reflexivity.
Qed.

(* running ends: the k-th offset is the length of the buffer after the k-th item *)
Fixpoint running_ends (start : N) (items : list value) : list N :=
  match items with
  | [] => []
  | x :: r => let e := start + lenN (enc x) in e :: running_ends e r
  end.
Lemma lenN_app {A} (a b : list A) : lenN (a ++ b) = lenN a + lenN b.
Proof. unfold lenN. rewrite app_length. lia. Qed.
Lemma build_values_offsets items : forall buf offs,
  snd (build_values buf items offs) = offs ++ running_ends (lenN buf) items.
Proof.
  induction items as [|x r IH]; intros buf offs; cbn [build_values running_ends snd].
  - rewrite app_nil_r. reflexivity.
  - rewrite IH. rewrite <- app_assoc. cbn [app]. rewrite lenN_app. reflexivity.
Qed.

(* the offsets delimit the items one by one: cutting the appended data at the offsets gives the encodings *)
Fixpoint cut (data : list N) (prev : N) (offs : list N) : list (list N) :=
  match offs with
  | [] => []
  | o :: r => firstn (N.to_nat (o - prev)) data :: cut (skipn (N.to_nat (o - prev)) data) o r
  end.
Lemma cut_running_ends items : forall start,
  cut (flat_map enc items) start (running_ends start items) = map enc items.
Proof.
  induction items as [|x r IH]; intros start; cbn [flat_map running_ends cut map]; [reflexivity|].
  replace (start + lenN (enc x) - start) with (lenN (enc x)) by lia.
  unfold lenN at 1 2. rewrite !Nat2N.id.
  rewrite firstn_app, Nat.sub_diag, firstn_all. cbn [firstn]. rewrite app_nil_r.
  rewrite skipn_app, Nat.sub_diag, skipn_all. cbn [skipn app]. rewrite IH. reflexivity.
Qed.

Section Modes.
  Variables (root : value) (ps : list path) (items : list value).
  Hypothesis Hsel : find_positions root None ps = Ok items.
  Hypothesis Hnp : is_predicate ps = false.

  Lemma all_mode buf : select_t root ps MAll buf = Ok (buf ++ flat_map enc items, running_ends (lenN buf) items).
  Proof.
    unfold select_t. rewrite Hsel. cbn [bind]. rewrite Hnp.
    rewrite (surjective_pairing (build_values buf items [])), build_values_data, build_values_offsets. reflexivity.
  Qed.
  (* first-mode returns the first item of all-mode or nothing *)
  Lemma first_is_head buf :
    select_t root ps MFirst buf =
    Ok (match items with [] => (buf, []) | x :: _ => (buf ++ enc x, [lenN buf + lenN (enc x)]) end).
  Proof.
    unfold select_t. rewrite Hsel. cbn [bind]. rewrite Hnp. destruct items as [|x r]; cbn [firstn build_values].
    - reflexivity.
    - rewrite lenN_app. reflexivity.
  Qed.
  (* array-mode returns one array holding exactly the all-mode items, with one offset *)
  Lemma array_holds_all buf :
    select_t root ps MArray buf = Ok (buf ++ enc (VArr items), [lenN buf + lenN (enc (VArr items))]).
  Proof. unfold select_t. rewrite Hsel. cbn [bind]. rewrite Hnp. unfold build_array_items. rewrite lenN_app. reflexivity. Qed.
  (* mixed-mode equals array-mode for two or more items and all-mode otherwise *)
  Lemma mixed_def buf :
    select_t root ps MMixed buf = if (1 <? length items)%nat then select_t root ps MArray buf else select_t root ps MAll buf.
  Proof. unfold select_t. rewrite Hsel. cbn [bind]. rewrite Hnp. destruct (1 <? length items)%nat; reflexivity. Qed.
  (* existence is true exactly when all-mode returns something *)
  Lemma exists_iff_nonempty : exists_t root ps = Ok (negb (match items with [] => true | _ => false end)).
  Proof. unfold exists_t. rewrite Hnp, Hsel. cbn [bind]. destruct items; reflexivity. Qed.
  (* the offsets reported alongside the data delimit the returned items one by one *)
  Lemma offsets_delimit :
    exists data offs, select_t root ps MAll [] = Ok (data, offs) /\ cut data 0 offs = map enc items.
  Proof.
    eexists _, _. split; [apply all_mode|]. cbn [app]. change (lenN (@nil N)) with 0. apply cut_running_ends.
  Qed.
End Modes.

Section Predicate.
  Variables (root : value) (e : expr) (items : list value).
  Hypothesis Hsel : find_positions root None [PPredicate e] = Ok items.
  Definition pred_bool := match items with [] => false | _ => true end.
  (* for a predicate path every mode returns the single boolean that path_match reports; existence is true *)
  Lemma predicate_all_modes m buf : select_t root [PPredicate e] m buf = Ok (buf ++ enc (VBool pred_bool), []).
  Proof. unfold select_t. rewrite Hsel. reflexivity. Qed.
  Lemma predicate_match_value : predicate_match_t root [PPredicate e] = Ok pred_bool.
  Proof. unfold predicate_match_t. cbn [is_predicate negb]. rewrite Hsel. reflexivity. Qed.
  Lemma predicate_exists_true : exists_t root [PPredicate e] = Ok true.
  Proof. reflexivity. Qed.
End Predicate.

(* ---- frame: what is appended does not depend on what the buffer already holds (C17) ---- *)
Lemma running_ends_shift items : forall start k,
  running_ends (k + start) items = map (fun o => k + o) (running_ends start items).
Proof.
  induction items as [|x r IH]; intros start k; cbn [running_ends map]; [reflexivity|].
  rewrite <- N.add_assoc. rewrite IH. reflexivity.
Qed.
Lemma build_values_frame pre its :
  build_values pre its [] =
  (pre ++ fst (build_values [] its []), map (fun o => lenN pre + o) (snd (build_values [] its []))).
Proof.
  rewrite (surjective_pairing (build_values pre its [])), !build_values_data, !build_values_offsets.
  cbn [app]. change (lenN (@nil N)) with 0. rewrite <- (N.add_0_r (lenN pre)) at 1. rewrite running_ends_shift. reflexivity.
Qed.
Lemma build_array_frame pre its :
  build_array_items pre its =
  (pre ++ fst (build_array_items [] its), map (fun o => lenN pre + o) (snd (build_array_items [] its))).
Proof. unfold build_array_items. cbn [fst snd app map]. rewrite lenN_app. reflexivity. Qed.

Definition shift_result (pre : list N) (r : res (list N * list N)) : res (list N * list N) :=
  match r with
  | Ok (data, offs) => Ok (pre ++ data, map (fun o => lenN pre + o) offs)
  | Err e => Err e
  | Panic => Panic
  end.
(* what a selection appends does not depend on the buffer it is given, and offsets are positions in that buffer *)
Lemma select_frame root ps m pre : select_t root ps m pre = shift_result pre (select_t root ps m []).
Proof.
  unfold select_t. destruct (find_positions root None ps) as [items| |]; cbn [bind shift_result]; try reflexivity.
  destruct (is_predicate ps); [reflexivity|].
  destruct m; [| | |destruct (1 <? length items)%nat].
  - rewrite build_values_frame. destruct (build_values [] (firstn 1 items) []); reflexivity.
  - rewrite build_array_frame. destruct (build_array_items [] items); reflexivity.
  - rewrite build_values_frame. destruct (build_values [] items []); reflexivity.
  - rewrite build_array_frame. destruct (build_array_items [] items); reflexivity.
  - rewrite build_values_frame. destruct (build_values [] items []); reflexivity.
Qed.
