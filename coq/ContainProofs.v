(* ContainProofs.v — containment is reflexive (on values with unique keys) and transitive (C12). *)
From Coq Require Import List NArith ZArith Bool Lia.
Import ListNotations.
From JB Require Import Constants Bytes Num Value Order Contain OrderProofs MiscProofs RoundtripProofs.
Open Scope N_scope.
Set Default Timeout 120.

Lemma value_eqb_trans a b c : value_eqb a b = true -> value_eqb b c = true -> value_eqb a c = true.
Proof.
  intros H1 H2. apply cmp_value_eq_iff in H1. apply cmp_value_eq_iff in H2. apply cmp_value_eq_iff.
  apply (cmp_value_trans a b c Eq H1 H2).
Qed.

Lemma same_variant_refl a : same_variant a a = true. Proof. destruct a; reflexivity. Qed.
Lemma same_variant_trans a b c : same_variant a b = true -> same_variant b c = true -> same_variant a c = true.
Proof. destruct a, b, c; cbn; intros; congruence. Qed.
Lemma same_variant_scalar a b : same_variant a b = true -> is_scalar a = is_scalar b.
Proof. destruct a, b; cbn; intros; congruence. Qed.
Lemma value_eqb_variant a b : value_eqb a b = true -> same_variant a b = true.
Proof. destruct a, b; cbn [value_eqb same_variant]; intros; congruence. Qed.

(* the function, one layer at a time *)
Lemma contained_scalar b a : is_scalar b = true ->
  contained_in b a = match a with VArr la => existsb (fun x => value_eqb x b) la | _ => same_variant a b && value_eqb a b end.
Proof.
  intros Hb. destruct a as [|x|s|n|la|oa]; destruct b as [|y|t|m|lb|ob]; try discriminate Hb; cbn [contained_in is_scalar same_variant negb andb]; reflexivity.
Qed.
Lemma contained_arr rb a :
  contained_in (VArr rb) a = match a with
    | VArr la => forallb (fun rv => if is_scalar rv then existsb (fun x => value_eqb x rv) la
                                    else existsb (fun lv => is_container lv && contained_in rv lv) la) rb
    | _ => false end.
Proof. destruct a; reflexivity. Qed.
Lemma contained_obj rb a :
  contained_in (VObj rb) a = match a with
    | VObj la => (length rb <=? length la)%nat &&
        forallb (fun kv => match assoc_lookup (fst kv) la with
                           | Some lv => same_variant lv (snd kv) && (if is_scalar lv then value_eqb lv (snd kv) else contained_in (snd kv) lv)
                           | None => false end) rb
    | _ => false end.
Proof. destruct a; reflexivity. Qed.

(* ---- reflexivity ---- *)
Lemma lookup_self {V} (l : list (list N * V)) : strongly_sorted l -> forall k v, In (k, v) l -> assoc_lookup k l = Some v.
Proof.
  induction l as [|[k' v'] l IH]; intros Hs k v Hin; [destruct Hin|]. cbn [assoc_lookup].
  cbn [strongly_sorted] in Hs. destruct Hs as [Hall Hs].
  destruct Hin as [E|Hin].
  - injection E as -> ->. rewrite bytes_eqb_cmp, bytes_refl. reflexivity.
  - assert (Hlt : bytes_cmp k' k = Lt) by (rewrite Forall_forall in Hall; apply (Hall (k, v) Hin)).
    rewrite bytes_eqb_cmp. rewrite bytes_antisym, Hlt. cbn [CompOpp].
    apply IH; assumption.
Qed.

Theorem contains_refl v : wf_shape v = true -> contains_t v v = true.
Proof.
  unfold contains_t. induction v as [|b|s|n|l IH|o IH] using value_ind2; intros Hwf;
    try (rewrite contained_scalar by reflexivity; cbn [same_variant andb]; apply value_eqb_refl).
  - rewrite contained_arr. apply forallb_forall. intros rv Hin.
    cbn [wf_shape] in Hwf. rewrite forallb_forall in Hwf. rewrite Forall_forall in IH.
    destruct (is_scalar rv) eqn:Es; apply existsb_exists; exists rv; (split; [exact Hin|]).
    + apply value_eqb_refl.
    + unfold is_container. rewrite Es. cbn [negb andb]. apply IH; [exact Hin|apply Hwf; exact Hin].
  - rewrite contained_obj. rewrite Nat.leb_refl. cbn [andb]. apply forallb_forall. intros [k x] Hin. cbn [fst snd].
    cbn [wf_shape] in Hwf. apply andb_true_iff in Hwf. destruct Hwf as [Hs Hall].
    rewrite (lookup_self o (keys_sorted_strong o Hs) k x Hin). rewrite same_variant_refl. cbn [andb].
    destruct (is_scalar x) eqn:Es; [apply value_eqb_refl|].
    rewrite Forall_forall in IH. apply (IH (k, x) Hin). rewrite forallb_forall in Hall. specialize (Hall (k, x) Hin). cbn [fst snd] in Hall.
    apply andb_true_iff in Hall. apply Hall.
Qed.

(* ---- transitivity ---- *)
Lemma lookup_In {V} (l : list (list N * V)) k v : assoc_lookup k l = Some v -> In (k, v) l.
Proof.
  induction l as [|[k' v'] l IH]; cbn [assoc_lookup]; [discriminate|].
  destruct (bytes_eqb k k') eqn:E.
  - intros H. injection H as ->. left. rewrite bytes_eqb_cmp in E. destruct (bytes_cmp k k') eqn:C; try discriminate E.
    apply bytes_cmp_eq in C. subst. reflexivity.
  - intros H. right. apply IH. exact H.
Qed.

Lemma trans_from_scalar_b c b a : is_scalar c = true -> is_scalar b = true ->
  same_variant b c && value_eqb b c = true -> contained_in b a = true -> contained_in c a = true.
Proof.
  intros Hc Hb Hcb Hba. apply andb_true_iff in Hcb. destruct Hcb as [Hv Hcb].
  rewrite (contained_scalar c a Hc). rewrite (contained_scalar b a Hb) in Hba.
  destruct a as [|z|u|k|la|oa];
    try (apply andb_true_iff in Hba; destruct Hba as [Hv2 Hba]; rewrite (same_variant_trans _ _ _ Hv2 Hv); cbn [andb];
         eapply value_eqb_trans; eassumption).
  apply existsb_exists in Hba. destruct Hba as (w & Hin & Hw). apply existsb_exists. exists w. split; [exact Hin|].
  eapply value_eqb_trans; eassumption.
Qed.

Lemma trans_scalar c b a : is_scalar c = true -> contained_in c b = true -> contained_in b a = true -> contained_in c a = true.
Proof.
  intros Hc Hcb Hba. rewrite (contained_scalar c b Hc) in Hcb.
  destruct b as [|y|t|m|lb|ob].
  - apply (trans_from_scalar_b c VNull a Hc eq_refl Hcb Hba).
  - apply (trans_from_scalar_b c (VBool y) a Hc eq_refl Hcb Hba).
  - apply (trans_from_scalar_b c (VStr t) a Hc eq_refl Hcb Hba).
  - apply (trans_from_scalar_b c (VNum m) a Hc eq_refl Hcb Hba).
  - apply existsb_exists in Hcb. destruct Hcb as (w & Hin & Hw).
    rewrite contained_arr in Hba. destruct a as [|z|u|k|la|oa]; try discriminate Hba.
    rewrite forallb_forall in Hba. specialize (Hba w Hin).
    assert (Hws : is_scalar w = true) by (apply value_eqb_variant in Hw; apply same_variant_scalar in Hw; rewrite Hw; exact Hc).
    rewrite Hws in Hba. apply existsb_exists in Hba. destruct Hba as (w2 & Hin2 & Hw2).
    rewrite (contained_scalar c _ Hc). apply existsb_exists. exists w2. split; [exact Hin2|]. eapply value_eqb_trans; eassumption.
  - apply andb_true_iff in Hcb. destruct Hcb as [Hv _]. destruct c; try discriminate Hc; discriminate Hv.
Qed.

Theorem contains_trans : forall c b a, contains_t b c = true -> contains_t a b = true -> contains_t a c = true.
Proof.
  unfold contains_t. induction c as [|x|s|n|lc IH|oc IH] using value_ind2; intros b a Hcb Hba.
  - apply (trans_scalar VNull b a eq_refl Hcb Hba).
  - apply (trans_scalar (VBool x) b a eq_refl Hcb Hba).
  - apply (trans_scalar (VStr s) b a eq_refl Hcb Hba).
  - apply (trans_scalar (VNum n) b a eq_refl Hcb Hba).
  - (* arrays *)
    rewrite contained_arr in Hcb. destruct b as [|y|t|m|lb|ob]; try discriminate Hcb.
    rewrite contained_arr in Hba. destruct a as [|z|u|k|la|oa]; try discriminate Hba.
    rewrite contained_arr. rewrite forallb_forall in *. intros rv Hin. specialize (Hcb rv Hin).
    destruct (is_scalar rv) eqn:Es.
    + apply existsb_exists in Hcb. destruct Hcb as (w & Hinw & Hw).
      assert (Hws : is_scalar w = true) by (apply value_eqb_variant in Hw; apply same_variant_scalar in Hw; rewrite Hw; exact Es).
      specialize (Hba w Hinw). rewrite Hws in Hba. apply existsb_exists in Hba. destruct Hba as (w2 & Hin2 & Hw2).
      apply existsb_exists. exists w2. split; [exact Hin2|]. eapply value_eqb_trans; eassumption.
    + apply existsb_exists in Hcb. destruct Hcb as (w & Hinw & Hw). apply andb_true_iff in Hw. destruct Hw as [Hwc Hw].
      specialize (Hba w Hinw). assert (Hws : is_scalar w = false) by (unfold is_container in Hwc; destruct (is_scalar w); [discriminate Hwc|reflexivity]).
      rewrite Hws in Hba. apply existsb_exists in Hba. destruct Hba as (w2 & Hin2 & Hw2). apply andb_true_iff in Hw2. destruct Hw2 as [Hw2c Hw2].
      apply existsb_exists. exists w2. split; [exact Hin2|]. rewrite Hw2c. cbn [andb].
      rewrite Forall_forall in IH. apply (IH rv Hin w w2 Hw Hw2).
  - (* objects *)
    rewrite contained_obj in Hcb. destruct b as [|y|t|m|lb|ob]; try discriminate Hcb.
    rewrite contained_obj in Hba. destruct a as [|z|u|k|la|oa]; try discriminate Hba.
    rewrite contained_obj. apply andb_true_iff in Hcb. destruct Hcb as [L1 Hcb]. apply andb_true_iff in Hba. destruct Hba as [L2 Hba].
    apply andb_true_iff. split; [apply Nat.leb_le in L1; apply Nat.leb_le in L2; apply Nat.leb_le; lia|].
    rewrite forallb_forall in *. intros [kk cv] Hin. cbn [fst snd]. specialize (Hcb (kk, cv) Hin). cbn [fst snd] in Hcb.
    destruct (assoc_lookup kk ob) as [bv|] eqn:Lb; [|discriminate Hcb].
    apply andb_true_iff in Hcb. destruct Hcb as [V1 Hcb].
    specialize (Hba (kk, bv) (lookup_In ob kk bv Lb)). cbn [fst snd] in Hba.
    destruct (assoc_lookup kk oa) as [av|] eqn:La; [|discriminate Hba].
    apply andb_true_iff in Hba. destruct Hba as [V2 Hba].
    rewrite (same_variant_trans av bv cv V2 V1). cbn [andb].
    pose proof (same_variant_scalar av bv V2) as S2.
    destruct (is_scalar av) eqn:Ea; rewrite <- S2 in Hcb.
    + eapply value_eqb_trans; eassumption.
    + rewrite Forall_forall in IH. apply (IH (kk, cv) Hin bv av Hcb Hba).
Qed.
