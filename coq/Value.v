(* Value.v — the value tree (model of src/value.rs), ordered-map operations, shape well-formedness *)
From Coq Require Import List NArith ZArith Bool Lia.
Import ListNotations.
From JB Require Import Constants Bytes Utf8 Num.
Open Scope N_scope.

Inductive value :=
| VNull
| VBool (b : bool)
| VStr (s : list N)
| VNum (n : num)
| VArr (l : list value)
| VObj (l : list (list N * value)).   (* BTreeMap<String, Value>: strictly sorted by key bytes *)

Section value_ind2.
  Variable P : value -> Prop.
  Hypothesis Hnull : P VNull.
  Hypothesis Hbool : forall b, P (VBool b).
  Hypothesis Hstr : forall s, P (VStr s).
  Hypothesis Hnum : forall n, P (VNum n).
  Hypothesis Harr : forall l, Forall P l -> P (VArr l).
  Hypothesis Hobj : forall l, Forall (fun kv => P (snd kv)) l -> P (VObj l).
  Fixpoint value_ind2 (v : value) : P v :=
    match v with
    | VNull => Hnull | VBool b => Hbool b | VStr s => Hstr s | VNum n => Hnum n
    | VArr l => Harr l ((fix go (l : list value) : Forall P l :=
                           match l with [] => Forall_nil _ | x :: xs => Forall_cons _ (value_ind2 x) (go xs) end) l)
    | VObj l => Hobj l ((fix go (l : list (list N * value)) : Forall (fun kv => P (snd kv)) l :=
                           match l with [] => Forall_nil _ | kv :: xs => Forall_cons kv (value_ind2 (snd kv)) (go xs) end) l)
    end.
End value_ind2.

(* ---- BTreeMap<String, V> as a key-sorted association list ---- *)
Section Assoc.
  Context {V : Type}.
  Fixpoint assoc_insert (k : list N) (v : V) (l : list (list N * V)) : list (list N * V) :=
    match l with
    | [] => [(k, v)]
    | (k', v') :: r =>
        match bytes_cmp k k' with
        | Lt => (k, v) :: l
        | Eq => (k, v) :: r
        | Gt => (k', v') :: assoc_insert k v r
        end
    end.
  Fixpoint assoc_lookup (k : list N) (l : list (list N * V)) : option V :=
    match l with
    | [] => None
    | (k', v') :: r => if bytes_eqb k k' then Some v' else assoc_lookup k r
    end.
  Definition assoc_remove (k : list N) (l : list (list N * V)) : list (list N * V) :=
    filter (fun kv => negb (bytes_eqb k (fst kv))) l.
  Definition assoc_of_list (l : list (list N * V)) : list (list N * V) :=
    fold_left (fun acc kv => assoc_insert (fst kv) (snd kv) acc) l [].
  Fixpoint keys_sorted (l : list (list N * V)) : bool :=
    match l with
    | [] => true
    | (k, _) :: r => match r with [] => true | (k', _) :: _ => bytes_ltb k k' && keys_sorted r end
    end.
End Assoc.

Definition is_scalar (v : value) : bool := match v with VArr _ | VObj _ => false | _ => true end.
Definition is_container (v : value) : bool := negb (is_scalar v).

(* shape well-formedness: what every Rust `Value` satisfies by construction *)
Fixpoint wf_shape (v : value) : bool :=
  match v with
  | VNull | VBool _ => true
  | VStr s => bytes_okb s && utf8_valid s
  | VNum n => num_in_range n
  | VArr l => forallb wf_shape l
  | VObj l => keys_sorted l && forallb (fun kv => bytes_okb (fst kv) && utf8_valid (fst kv) && wf_shape (snd kv)) l
  end.

(* equality of JSON values with numbers compared by value (Value: PartialEq, via Number::eq) *)
Fixpoint value_eqb (a b : value) {struct a} : bool :=
  match a, b with
  | VNull, VNull => true
  | VBool x, VBool y => Bool.eqb x y
  | VStr x, VStr y => bytes_eqb x y
  | VNum x, VNum y => num_eqb x y
  | VArr l1, VArr l2 =>
      (fix go (l1 l2 : list value) : bool :=
         match l1, l2 with
         | [], [] => true
         | x :: xs, y :: ys => value_eqb x y && go xs ys
         | _, _ => false
         end) l1 l2
  | VObj l1, VObj l2 =>
      (fix go (l1 l2 : list (list N * value)) : bool :=
         match l1, l2 with
         | [], [] => true
         | (k1, x) :: xs, (k2, y) :: ys => bytes_eqb k1 k2 && value_eqb x y && go xs ys
         | _, _ => false
         end) l1 l2
  | _, _ => false
  end.

(* the representation change of a decode/encode round trip *)
Fixpoint normalise (v : value) : value :=
  match v with
  | VNum n => VNum (normalise_num n)
  | VArr l => VArr (map normalise l)
  | VObj l => VObj (map (fun kv => (fst kv, normalise (snd kv))) l)
  | _ => v
  end.

Fixpoint depth (v : value) : nat :=
  match v with
  | VArr l => S (fold_right (fun x acc => Nat.max (depth x) acc) 0%nat l)
  | VObj l => S (fold_right (fun kv acc => Nat.max (depth (snd kv)) acc) 0%nat l)
  | _ => 1%nat
  end.

Fixpoint vsize (v : value) : nat :=
  match v with
  | VArr l => S (fold_right (fun x acc => vsize x + acc)%nat 0%nat l)
  | VObj l => S (fold_right (fun kv acc => vsize (snd kv) + acc)%nat 0%nat l)
  | _ => 1%nat
  end.
