(* NumCodecProofs.v — the compact number codec of src/number.rs beyond the round trip (NumProofs.num_roundtrip):
   * exactly which byte strings Number::decode accepts and what it returns (num_wire), every other byte string is
     Err(InvalidJsonbNumber); accepted numbers are in range; the decoder does accept non-shortest encodings;
   * compact_encode emits the SHORTEST byte string that decodes to the same number (same representation), for every number;
   * the integer views as_i64 / as_u64 are exact or absent.
   Proofs only. *)
From Coq Require Import List NArith ZArith Bool Lia ZifyBool ZifyNat ZifyN.
Import ListNotations.
From JB Require Import Constants Bytes Num NumProofs.
Open Scope N_scope.
Set Default Timeout 60.

Arguments N.pow : simpl never.
Arguments Z.pow : simpl never.

(* ---------- G4: the language of Number::decode ---------- *)
Inductive num_wire : list N -> num -> Prop :=
| W_zero : num_wire [NUMBER_ZERO] (NUInt 0)
| W_nan : num_wire [NUMBER_NAN] (NFloat F_NAN)
| W_inf : num_wire [NUMBER_INF] (NFloat F_INF)
| W_neg_inf : num_wire [NUMBER_NEG_INF] (NFloat F_NEG_INF)
| W_int rest : In (length rest) [1; 2; 4; 8]%nat ->
    num_wire (NUMBER_INT :: rest) (NInt (sext (length rest) (rd_be rest 0)))
| W_uint rest : In (length rest) [1; 2; 4; 8]%nat ->
    num_wire (NUMBER_UINT :: rest) (NUInt (rd_be rest 0))
| W_float rest : length rest = 8%nat ->
    num_wire (NUMBER_FLOAT :: rest) (NFloat (rd_be rest 0)).

Lemma width_ok_inv k : width_ok k = true -> In k [1; 2; 4; 8]%nat.
Proof.
  do 9 (destruct k as [|k]; [cbn; try discriminate; intros _; auto 10|]). cbn. discriminate.
Qed.

(* evaluate the comparisons between the (closed) tag constants *)
Ltac tagred :=
  repeat match goal with
  | |- context [N.eqb ?a ?b] =>
      let v := eval vm_compute in (N.eqb a b) in
      match v with
      | true => change (N.eqb a b) with true
      | false => change (N.eqb a b) with false
      end
  end; cbv iota.

Theorem num_decode_accepts_iff bs n : num_decode bs = Ok n <-> num_wire bs n.
Proof.
  split.
  - destruct bs as [|ty rest]; [discriminate|]. unfold num_decode.
    destruct (ty =? NUMBER_ZERO) eqn:E0.
    { apply N.eqb_eq in E0. subst ty. destruct rest; [|discriminate]. intros H. inversion H. constructor. }
    destruct (ty =? NUMBER_NAN) eqn:E1.
    { apply N.eqb_eq in E1. subst ty. destruct rest; [|discriminate]. intros H. inversion H. constructor. }
    destruct (ty =? NUMBER_INF) eqn:E2.
    { apply N.eqb_eq in E2. subst ty. destruct rest; [|discriminate]. intros H. inversion H. constructor. }
    destruct (ty =? NUMBER_NEG_INF) eqn:E3.
    { apply N.eqb_eq in E3. subst ty. destruct rest; [|discriminate]. intros H. inversion H. constructor. }
    destruct (ty =? NUMBER_INT) eqn:E4.
    { apply N.eqb_eq in E4. subst ty. destruct (width_ok (length rest)) eqn:Ew; [|discriminate].
      intros H. inversion H. constructor. apply width_ok_inv. exact Ew. }
    destruct (ty =? NUMBER_UINT) eqn:E5.
    { apply N.eqb_eq in E5. subst ty. destruct (width_ok (length rest)) eqn:Ew; [|discriminate].
      intros H. inversion H. constructor. apply width_ok_inv. exact Ew. }
    destruct (ty =? NUMBER_FLOAT) eqn:E6; [|discriminate].
    apply N.eqb_eq in E6. subst ty.
    destruct (Nat.eq_dec (length rest) 8) as [E8|E8].
    + rewrite E8. intros H. inversion H. constructor. exact E8.
    + do 9 (destruct rest as [|? rest]; [cbn [length]; try discriminate; cbn [length] in E8; lia|]). cbn [length]. discriminate.
  - intros H. destruct H; try reflexivity.
    + unfold num_decode. tagred. rewrite (width_ok_cases _ H). reflexivity.
    + unfold num_decode. tagred. rewrite (width_ok_cases _ H). reflexivity.
    + unfold num_decode. tagred. rewrite H. reflexivity.
Qed.

(* every other byte string is rejected with an error (never a panic, never a number) *)
Theorem num_decode_rejects_iff bs : num_decode bs = Err EOther <-> (forall n, ~ num_wire bs n).
Proof.
  split.
  - intros H n W. apply num_decode_accepts_iff in W. congruence.
  - intros H. destruct (num_decode bs) as [n|e|] eqn:E.
    + exfalso. apply (H n). apply num_decode_accepts_iff. exact E.
    + destruct bs as [|ty rest]; [cbn in E; congruence|]. revert E. unfold num_decode.
      repeat match goal with
             | |- context [if ?c then _ else _] => destruct c
             | |- context [match ?l with O => _ | S _ => _ end] => destruct l
             end; congruence.
    + exfalso. exact (num_decode_total bs E).
Qed.

(* the shape in plain terms: total length 1, 2, 3, 5 or 9 and the first byte is the tag of that form *)
Definition num_shape (bs : list N) : Prop :=
  match bs with
  | [] => False
  | ty :: rest =>
      (In ty [NUMBER_ZERO; NUMBER_NAN; NUMBER_INF; NUMBER_NEG_INF] /\ length bs = 1%nat) \/
      (In ty [NUMBER_INT; NUMBER_UINT] /\ In (length bs) [2; 3; 5; 9]%nat) \/
      (ty = NUMBER_FLOAT /\ length bs = 9%nat)
  end.

Theorem num_decode_ok_iff_shape bs : (exists n, num_decode bs = Ok n) <-> num_shape bs.
Proof.
  split.
  - intros [n H]. apply num_decode_accepts_iff in H.
    destruct H as [| | | |rest H|rest H|rest H]; cbn [num_shape length In].
    + left. auto 10.
    + left. auto 10.
    + left. auto 10.
    + left. auto 10.
    + right. left. split; [auto|]. cbn [In] in H. destruct H as [<-|[<-|[<-|[<-|[]]]]]; auto 10.
    + right. left. split; [auto|]. cbn [In] in H. destruct H as [<-|[<-|[<-|[<-|[]]]]]; auto 10.
    + right. right. split; [reflexivity|]. rewrite H. reflexivity.
  - destruct bs as [|ty rest]; [intros []|]. cbn [num_shape length In].
    intros [[Ht Hl]|[[Ht Hl]|[Ht Hl]]].
    + assert (rest = []) by (destruct rest; [reflexivity|discriminate]). subst rest.
      destruct Ht as [<-|[<-|[<-|[<-|[]]]]]; eexists; apply num_decode_accepts_iff; constructor.
    + assert (Hr : In (length rest) [1; 2; 4; 8]%nat).
      { cbn [In]. destruct Hl as [E|[E|[E|[E|[]]]]]; injection E as <-; auto 10. }
      destruct Ht as [<-|[<-|[]]]; eexists; apply num_decode_accepts_iff; constructor; exact Hr.
    + subst ty. eexists. apply num_decode_accepts_iff. constructor. lia.
Qed.

Corollary num_decode_bad_shape_is_error bs : ~ num_shape bs -> num_decode bs = Err EOther.
Proof.
  intros H. apply num_decode_rejects_iff. intros n W. apply H. apply num_decode_ok_iff_shape.
  exists n. apply num_decode_accepts_iff. exact W.
Qed.

(* accepted numbers are i64 / u64 / 64-bit patterns *)
Lemma rd_be_bound bs : bytes_ok bs -> forall acc, rd_be bs acc < (acc + 1) * 256 ^ N.of_nat (length bs).
Proof.
  induction 1 as [|b r Hb Hr IH]; intros acc; cbn [rd_be length].
  - change (N.of_nat 0) with 0. rewrite N.pow_0_r. lia.
  - specialize (IH (acc * 256 + b)). rewrite Nat2N.inj_succ, N.pow_succ_r'.
    set (P := 256 ^ N.of_nat (length r)) in *. nia.
Qed.

Lemma pow256_Z k : Z.of_N (256 ^ N.of_nat k) = (2 ^ (8 * Z.of_nat k))%Z.
Proof.
  change 256 with (2 ^ 8). rewrite <- N.pow_mul_r, N2Z.inj_pow. f_equal. lia.
Qed.

Lemma sext_range k n : (0 < k)%nat -> n < 256 ^ N.of_nat k ->
  (- 2 ^ (8 * Z.of_nat k - 1) <= sext k n < 2 ^ (8 * Z.of_nat k - 1))%Z.
Proof.
  intros Hk Hn. unfold sext. apply N2Z.inj_lt in Hn. rewrite pow256_Z in Hn.
  set (m := (2 ^ (8 * Z.of_nat k))%Z) in *.
  assert (Hm : (m = 2 * 2 ^ (8 * Z.of_nat k - 1))%Z).
  { unfold m. replace (8 * Z.of_nat k)%Z with (1 + (8 * Z.of_nat k - 1))%Z at 1 by lia.
    rewrite Z.pow_add_r by lia. reflexivity. }
  assert (Hpos : (0 < 2 ^ (8 * Z.of_nat k - 1))%Z) by (apply Z.pow_pos_nonneg; lia).
  assert (Hhalf : (m / 2 = 2 ^ (8 * Z.of_nat k - 1))%Z).
  { rewrite Hm. rewrite (Z.mul_comm 2). apply Z.div_mul. lia. }
  rewrite Hhalf. destruct (Z.ltb_spec (Z.of_N n) (2 ^ (8 * Z.of_nat k - 1))); lia.
Qed.

Lemma widths_pow k : In k [1; 2; 4; 8]%nat ->
  (0 < k)%nat /\ (2 ^ (8 * Z.of_nat k - 1) <= two63)%Z /\ 256 ^ N.of_nat k <= two64.
Proof.
  cbn [In]. intros [<-|[<-|[<-|[<-|[]]]]]; (split; [lia|]); split; vm_compute; congruence.
Qed.

Theorem num_decode_in_range bs n : bytes_ok bs -> num_decode bs = Ok n -> num_in_range n = true.
Proof.
  intros Hb H. apply num_decode_accepts_iff in H. destruct H; try reflexivity.
  - inversion Hb as [|? ? _ Hr]. subst. destruct (widths_pow _ H) as (Hk & H63 & _).
    pose proof (rd_be_bound rest Hr 0) as Hlt. rewrite N.add_0_l, N.mul_1_l in Hlt.
    pose proof (sext_range _ _ Hk Hlt). cbn [num_in_range]. lia.
  - inversion Hb as [|? ? _ Hr]. subst. destruct (widths_pow _ H) as (_ & _ & H64).
    pose proof (rd_be_bound rest Hr 0) as Hlt. rewrite N.add_0_l, N.mul_1_l in Hlt. cbn [num_in_range]. lia.
  - inversion Hb as [|? ? _ Hr]. subst.
    pose proof (rd_be_bound rest Hr 0) as Hlt. rewrite N.add_0_l, N.mul_1_l, H in Hlt. cbn [num_in_range].
    change (256 ^ N.of_nat 8) with two64 in Hlt. lia.
Qed.

(* the decoder does not insist on the shortest form: 5 in nine bytes, and a signed zero-valued Int64 *)
Example num_decode_accepts_non_shortest :
  num_decode [NUMBER_INT; 0; 0; 0; 0; 0; 0; 0; 5] = Ok (NInt 5) /\ compact_encode (NInt 5) = [NUMBER_INT; 5] /\
  num_decode [NUMBER_UINT; 0; 5] = Ok (NUInt 5) /\ num_decode [NUMBER_INT; 0] = Ok (NInt 0) /\
  num_decode [NUMBER_FLOAT; 127; 240; 0; 0; 0; 0; 0; 0] = Ok (NFloat F_INF) /\ compact_encode (NFloat F_INF) = [NUMBER_INF].
Proof. vm_compute. repeat split. Qed.
Example num_decode_rejects_examples :
  num_decode [] = Err EOther /\ num_decode [NUMBER_ZERO; 0] = Err EOther /\ num_decode [NUMBER_INT] = Err EOther /\
  num_decode [NUMBER_INT; 1; 2; 3] = Err EOther /\ num_decode [NUMBER_FLOAT; 0; 0; 0; 0] = Err EOther /\
  num_decode [112; 0] = Err EOther /\ num_decode [NUMBER_UINT; 0; 0; 0; 0; 0; 0; 0; 0; 0] = Err EOther.
Proof. vm_compute. repeat split. Qed.

(* ---------- G2: compact_encode emits the shortest form, for every number ---------- *)
Lemma compact_encode_length n :
  length (compact_encode n) =
  match n with
  | NInt z => if (z =? 0)%Z then 1%nat else S (int_width z)
  | NUInt u => if u =? 0 then 1%nat else S (uint_width u)
  | NFloat b => if f_is_nan b || f_is_inf b then 1%nat else 9%nat
  end.
Proof.
  destruct n as [z|u|b]; cbn [compact_encode]; unfold CE_INT_ZERO, CE_UINT_ZERO.
  - destruct (z =? 0)%Z; [reflexivity|]. cbn [length]. rewrite be_bytes_length. reflexivity.
  - destruct (u =? 0); [reflexivity|]. cbn [length]. rewrite be_bytes_length. reflexivity.
  - destruct (f_is_nan b); [reflexivity|]. destruct (f_is_inf b); [destruct (f_sign b); reflexivity|].
    cbn [length orb]. rewrite be_bytes_length. reflexivity.
Qed.

Lemma compact_encode_length_cases n : In (length (compact_encode n)) [1; 2; 3; 5; 9]%nat.
Proof.
  rewrite compact_encode_length. destruct n as [z|u|b].
  - destruct (z =? 0)%Z; [cbn; auto|]. destruct (int_width_range z) as [H _]. cbn [In] in H |- *.
    destruct H as [<-|[<-|[<-|[<-|[]]]]]; auto 10.
  - destruct (u =? 0); [cbn; auto|]. destruct (uint_width_range u) as [H _]. cbn [In] in H |- *.
    destruct H as [<-|[<-|[<-|[<-|[]]]]]; auto 10.
  - destruct (f_is_nan b || f_is_inf b); cbn; auto 10.
Qed.

(* int_width / uint_width are the least of the widths 1, 2, 4, 8 that hold the value *)
Lemma int_width_min z k : In k [1; 2; 4; 8]%nat ->
  (- 2 ^ (8 * Z.of_nat k - 1) <= z < 2 ^ (8 * Z.of_nat k - 1))%Z -> (int_width z <= k)%nat.
Proof.
  intros Hk Hz. cbn [In] in Hk.
  assert (Hcases : (k = 1%nat /\ (-128 <= z < 128)%Z) \/ (k = 2%nat /\ (-32768 <= z < 32768)%Z) \/
                   (k = 4%nat /\ (-2147483648 <= z < 2147483648)%Z) \/ k = 8%nat).
  { destruct Hk as [<-|[<-|[<-|[<-|[]]]]].
    - left. split; [reflexivity|]. change (2 ^ (8 * Z.of_nat 1 - 1))%Z with 128%Z in Hz. lia.
    - right. left. split; [reflexivity|]. change (2 ^ (8 * Z.of_nat 2 - 1))%Z with 32768%Z in Hz. lia.
    - right. right. left. split; [reflexivity|]. change (2 ^ (8 * Z.of_nat 4 - 1))%Z with 2147483648%Z in Hz. lia.
    - right. right. right. reflexivity. }
  destruct (int_width_range z) as [Hin _]. cbn [In] in Hin.
  unfold int_width, CE_INT_FITS1, CE_INT_FITS2, CE_INT_FITS3, CE_INT_W1, CE_INT_W2, CE_INT_W3, CE_INT_W4 in *.
  repeat match goal with |- context [if ?c then _ else _] => destruct c eqn:? end; lia.
Qed.

Lemma uint_width_min u k : In k [1; 2; 4; 8]%nat -> u < 256 ^ N.of_nat k -> (uint_width u <= k)%nat.
Proof.
  intros Hk Hu. cbn [In] in Hk.
  assert (Hcases : (k = 1%nat /\ u < 256) \/ (k = 2%nat /\ u < 65536) \/ (k = 4%nat /\ u < 4294967296) \/ k = 8%nat).
  { destruct Hk as [<-|[<-|[<-|[<-|[]]]]].
    - left. split; [reflexivity|]. change (256 ^ N.of_nat 1) with 256 in Hu. lia.
    - right. left. split; [reflexivity|]. change (256 ^ N.of_nat 2) with 65536 in Hu. lia.
    - right. right. left. split; [reflexivity|]. change (256 ^ N.of_nat 4) with 4294967296 in Hu. lia.
    - right. right. right. reflexivity. }
  destruct (uint_width_range u) as [Hin _]. cbn [In] in Hin.
  unfold uint_width, CE_UINT_FITS1, CE_UINT_FITS2, CE_UINT_FITS3, CE_UINT_W1, CE_UINT_W2, CE_UINT_W3, CE_UINT_W4 in *.
  repeat match goal with |- context [if ?c then _ else _] => destruct c eqn:? end; lia.
Qed.

Lemma normalise_num_nan_inv m b : normalise_num m = NFloat b -> f_is_nan b = false -> m = NFloat b.
Proof.
  destruct m as [z|u|c]; cbn [normalise_num].
  - destruct (z =? 0)%Z; discriminate.
  - discriminate.
  - destruct (f_is_nan c) eqn:E; intros H Hb; inversion H; subst; [vm_compute in Hb; discriminate|reflexivity].
Qed.

(* Every byte string that Number::decode reads as the same number (the same representation, as the round trip returns it)
   is at least as long as what compact_encode writes. *)
Theorem compact_encode_shortest n bs m :
  num_in_range n = true -> bytes_ok bs -> num_decode bs = Ok m -> normalise_num m = normalise_num n ->
  (length (compact_encode n) <= length bs)%nat.
Proof.
  intros Hr Hb Hd Hn. rewrite compact_encode_length.
  apply num_decode_accepts_iff in Hd.
  assert (H1 : (1 <= length bs)%nat) by (destruct Hd; cbn [length]; lia).
  destruct n as [z|u|b]; cbn [normalise_num] in Hn.
  - destruct (z =? 0)%Z eqn:Ez; [exact H1|].
    (* m = NInt z, read from a NUMBER_INT form *)
    assert (Hm : m = NInt z).
    { destruct m as [z'|u'|c]; cbn [normalise_num] in Hn.
      - destruct (z' =? 0)%Z; [discriminate|exact Hn].
      - discriminate.
      - destruct (f_is_nan c); discriminate. }
    subst m. inversion Hd as [| | | |rest Hw| |]. subst.
    inversion Hb as [|? ? _ Hrest]. subst.
    destruct (widths_pow _ Hw) as (Hk & _ & _).
    pose proof (rd_be_bound rest Hrest 0) as Hlt. rewrite N.add_0_l, N.mul_1_l in Hlt.
    pose proof (sext_range _ _ Hk Hlt) as Hs.
    cbn [length]. apply le_n_S. apply int_width_min; assumption.
  - destruct (u =? 0) eqn:Eu; [exact H1|].
    assert (Hm : m = NUInt u).
    { destruct m as [z'|u'|c]; cbn [normalise_num] in Hn.
      - destruct (z' =? 0)%Z; [inversion Hn; subst; discriminate|discriminate].
      - exact Hn.
      - destruct (f_is_nan c); discriminate. }
    subst m. inversion Hd as [Hz| | | | |rest Hw|]; subst; [discriminate|].
    inversion Hb as [|? ? _ Hrest]. subst.
    pose proof (rd_be_bound rest Hrest 0) as Hlt. rewrite N.add_0_l, N.mul_1_l in Hlt.
    cbn [length]. apply le_n_S. apply uint_width_min; assumption.
  - destruct (f_is_nan b) eqn:En; [exact H1|]. cbn [orb].
    destruct (f_is_inf b) eqn:Ei; [exact H1|].
    apply normalise_num_nan_inv in Hn; [|exact En]. subst m.
    inversion Hd as [| | | | | |rest Hl]; subst; try (vm_compute in Ei; discriminate); try (vm_compute in En; discriminate).
    cbn [length]. lia.
Qed.

(* ... and the bound is attained by compact_encode itself: it is THE minimum *)
Corollary compact_encode_is_minimum n : num_in_range n = true ->
  num_decode (compact_encode n) = Ok (normalise_num n) /\
  forall bs m, bytes_ok bs -> num_decode bs = Ok m -> normalise_num m = normalise_num n ->
               (length (compact_encode n) <= length bs)%nat.
Proof.
  intros Hr. split; [apply num_roundtrip; exact Hr|]. intros bs m. apply compact_encode_shortest. exact Hr.
Qed.

(* "shortest" is per representation: the same VALUE can have a shorter form in another representation (the encoder never
   changes the representation): 200 takes 3 bytes as Int64 and 2 as UInt64, 5.0 takes 9 bytes as Float64 *)
Example shortest_is_per_representation :
  num_cmp (NInt 200) (NUInt 200) = Eq /\ length (compact_encode (NInt 200)) = 3%nat /\
  length (compact_encode (NUInt 200)) = 2%nat /\
  num_cmp (NFloat 4617315517961601024) (NUInt 5) = Eq /\ length (compact_encode (NFloat 4617315517961601024)) = 9%nat.
Proof. vm_compute. repeat split. Qed.

(* the five lengths all occur *)
Example compact_encode_lengths :
  map (fun n => length (compact_encode n))
      [NInt 0; NUInt 0; NFloat F_NAN; NFloat F_INF; NFloat F_NEG_INF; NFloat 9223372036854775808;
       NInt (-128); NInt 128; NInt (-32769); NInt 2147483648; NUInt 255; NUInt 256; NUInt 65536; NUInt 4294967296;
       NFloat 4607182418800017408] =
  [1; 1; 1; 1; 1; 9; 2; 3; 5; 9; 2; 3; 5; 9; 9]%nat.
Proof. vm_compute. reflexivity. Qed.

(* ---------- G3: the integer views are exact or absent ---------- *)
Theorem as_i64_exact n z : num_in_range n = true -> as_i64 n = Some z ->
  scaled n = EFin (z * two1074) /\ (- two63 <= z < two63)%Z.
Proof.
  destruct n as [x|u|b]; cbn [num_in_range as_i64 scaled]; intros Hr H.
  - inversion H. subst. split; [reflexivity|lia].
  - destruct (Z.of_N u <? two63)%Z eqn:E; [|discriminate]. inversion H. subst. split; [reflexivity|unfold two63 in *; lia].
  - discriminate.
Qed.

Theorem as_u64_exact n u : num_in_range n = true -> as_u64 n = Some u ->
  scaled n = EFin (Z.of_N u * two1074) /\ u < two64.
Proof.
  destruct n as [x|v|b]; cbn [num_in_range as_u64 scaled]; intros Hr H.
  - destruct (0 <=? x)%Z eqn:E; [|discriminate]. inversion H. subst. rewrite Z2N.id by lia.
    split; [reflexivity|unfold two63, two64 in *; lia].
  - inversion H. subst. split; [reflexivity|lia].
  - discriminate.
Qed.

Lemma scale_inj x y : (x * two1074 = y * two1074)%Z -> x = y.
Proof. pose proof two1074_pos as HT. intros H. apply Z.mul_reg_r in H; [exact H|lia]. Qed.

(* None exactly when the number is a Float64 (Rust: `Number::Float64(_) => None`, whatever its value) or an integer outside
   the target type *)
Theorem as_i64_none_iff n : num_in_range n = true ->
  (as_i64 n = None <->
   (exists b, n = NFloat b) \/ (exists v, scaled n = EFin (v * two1074) /\ ~ (- two63 <= v < two63)%Z)).
Proof.
  destruct n as [x|u|b]; cbn [num_in_range as_i64 scaled]; intros Hr.
  - split; [discriminate|]. intros [[b Hb]|[v [Hv Hn]]]; [discriminate|].
    inversion Hv as [Hs]. apply scale_inj in Hs. subst v. lia.
  - destruct (Z.of_N u <? two63)%Z eqn:E; split.
    + discriminate.
    + intros [[b Hb]|[v [Hv Hn]]]; [discriminate|]. inversion Hv as [Hs]. apply scale_inj in Hs. subst v.
      unfold two63 in *. lia.
    + intros _. right. exists (Z.of_N u). split; [reflexivity|unfold two63 in *; lia].
    + reflexivity.
  - split; [|reflexivity]. intros _. left. exists b. reflexivity.
Qed.

Theorem as_u64_none_iff n : num_in_range n = true ->
  (as_u64 n = None <->
   (exists b, n = NFloat b) \/ (exists v, scaled n = EFin (v * two1074) /\ ~ (0 <= v < Z.of_N two64)%Z)).
Proof.
  destruct n as [x|u|b]; cbn [num_in_range as_u64 scaled]; intros Hr.
  - destruct (0 <=? x)%Z eqn:E; split.
    + discriminate.
    + intros [[b Hb]|[v [Hv Hn]]]; [discriminate|]. inversion Hv as [Hs]. apply scale_inj in Hs. subst v.
      unfold two63, two64 in *. lia.
    + intros _. right. exists x. split; [reflexivity|lia].
    + reflexivity.
  - split; [discriminate|]. intros [[b Hb]|[v [Hv Hn]]]; [discriminate|].
    inversion Hv as [Hs]. apply scale_inj in Hs. subst v. lia.
  - split; [|reflexivity]. intros _. left. exists b. reflexivity.
Qed.

(* the view, put back into a Number, is equal to the original under the order of the crate *)
Corollary as_i64_same_number n z : num_in_range n = true -> as_i64 n = Some z -> num_cmp n (NInt z) = Eq.
Proof. intros Hr H. apply num_cmp_eq_iff. destruct (as_i64_exact n z Hr H) as [-> _]. reflexivity. Qed.
Corollary as_u64_same_number n u : num_in_range n = true -> as_u64 n = Some u -> num_cmp n (NUInt u) = Eq.
Proof. intros Hr H. apply num_cmp_eq_iff. destruct (as_u64_exact n u Hr H) as [-> _]. reflexivity. Qed.

Example integer_views_examples :
  as_i64 (NUInt 9223372036854775807) = Some 9223372036854775807%Z /\ as_i64 (NUInt 9223372036854775808) = None /\
  as_u64 (NInt (-1)) = None /\ as_u64 (NInt 9223372036854775807) = Some 9223372036854775807 /\
  as_i64 (NFloat 4617315517961601024) = None /\ as_u64 (NFloat 4617315517961601024) = None.
Proof. vm_compute. repeat split. Qed.

(* ---------- L5: an independent reading of the integers on the wire ----------
   num_wire states the accepted values with the decoder's own helpers (rd_be: Horner accumulation, sext: compare with half the
   modulus).  Written out from the format instead: the bytes are the big-endian digits of a number in base 256,
        be_sum [b_1; ..; b_k] = b_1 * 256^(k-1) + ... + b_k * 256^0,
   and a signed integer is that number in two's complement: 2^(8k) is subtracted exactly when the top bit of the FIRST byte is
   set.  Both readings agree on every byte string. *)
Fixpoint be_sum (bs : list N) : Z :=
  match bs with [] => 0%Z | b :: r => (Z.of_N b * 256 ^ Z.of_nat (length r) + be_sum r)%Z end.
Definition twos_value (bs : list N) : Z :=
  match bs with
  | [] => 0%Z
  | b :: _ => if 128 <=? b then (be_sum bs - 256 ^ Z.of_nat (length bs))%Z else be_sum bs
  end.

Lemma rd_be_sum bs : forall acc, Z.of_N (rd_be bs acc) = (Z.of_N acc * 256 ^ Z.of_nat (length bs) + be_sum bs)%Z.
Proof.
  induction bs as [|b r IH]; intros acc; cbn [rd_be be_sum length].
  - change (Z.of_nat 0) with 0%Z. rewrite Z.pow_0_r. lia.
  - rewrite IH, Nat2Z.inj_succ, Z.pow_succ_r by lia. set (P := (256 ^ Z.of_nat (length r))%Z). lia.
Qed.
Theorem rd_be_is_be_sum bs : Z.of_N (rd_be bs 0) = be_sum bs.
Proof. rewrite rd_be_sum. change (Z.of_N 0) with 0%Z. lia. Qed.
Lemma be_sum_bound bs : bytes_ok bs -> (0 <= be_sum bs < 256 ^ Z.of_nat (length bs))%Z.
Proof.
  induction 1 as [|b r Hb Hr IH]; cbn [be_sum length].
  - change (Z.of_nat 0) with 0%Z. rewrite Z.pow_0_r. lia.
  - rewrite Nat2Z.inj_succ, Z.pow_succ_r by lia. set (P := (256 ^ Z.of_nat (length r))%Z) in *. nia.
Qed.
Theorem sext_is_twos_value bs : bytes_ok bs -> bs <> [] -> sext (length bs) (rd_be bs 0) = twos_value bs.
Proof.
  intros Hb Hne. destruct bs as [|b r]; [contradiction Hne; reflexivity|]. inversion Hb as [|? ? Hb0 Hr]; subst.
  unfold sext, twos_value. rewrite rd_be_is_be_sum. cbv zeta.
  assert (E2 : forall k, (2 ^ (8 * Z.of_nat k) = 256 ^ Z.of_nat k)%Z) by (intros k; rewrite Z.pow_mul_r by lia; reflexivity).
  rewrite E2.
  cbn [be_sum length]. pose proof (be_sum_bound r Hr) as Br.
  rewrite Nat2Z.inj_succ, Z.pow_succ_r by lia. set (P := (256 ^ Z.of_nat (length r))%Z) in *.
  assert (HP : (0 < P)%Z) by (unfold P; apply Z.pow_pos_nonneg; lia).

  replace (256 * P / 2)%Z with (128 * P)%Z by (apply Z.div_unique_exact; lia).
  destruct (128 <=? b) eqn:E.
  - apply N.leb_le in E. replace (_ <? _)%Z with false by (symmetry; apply Z.ltb_ge; nia). reflexivity.
  - apply N.leb_gt in E. replace (_ <? _)%Z with true by (symmetry; apply Z.ltb_lt; nia). reflexivity.
Qed.
(* num_wire, read with these: what Number::decode returns for an integer is the value of its bytes *)
Theorem num_wire_by_value bs n : bytes_ok bs -> num_wire bs n ->
  match bs with
  | t :: rest =>
      (t = NUMBER_INT -> n = NInt (twos_value rest)) /\
      (t = NUMBER_UINT -> exists u, n = NUInt u /\ Z.of_N u = be_sum rest) /\
      (t = NUMBER_FLOAT -> exists b, n = NFloat b /\ Z.of_N b = be_sum rest)
  | [] => False
  end.
Proof.
  intros Hb H. inversion H as [| | | |rest Hl|rest Hl|rest Hl]; subst;
    try (repeat split; intros E; vm_compute in E; discriminate E).
  - inversion Hb as [|? ? _ Hr]; subst. split; [|split]; intros E; try (vm_compute in E; discriminate E).
    rewrite sext_is_twos_value; [reflexivity|exact Hr|]. destruct rest; [cbn in Hl; intuition lia|discriminate].
  - split; [|split]; intros E; try (vm_compute in E; discriminate E). eexists; split; [reflexivity|apply rd_be_is_be_sum].
  - split; [|split]; intros E; try (vm_compute in E; discriminate E). eexists; split; [reflexivity|apply rd_be_is_be_sum].
Qed.
Example twos_value_examples :
  twos_value [255] = (-1)%Z /\ twos_value [128; 0] = (-32768)%Z /\ twos_value [127; 255] = 32767%Z /\
  twos_value [255; 255; 255; 254] = (-2)%Z /\ be_sum [1; 0] = 256%Z.
Proof. vm_compute. repeat split. Qed.
