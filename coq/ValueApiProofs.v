(* ValueApiProofs.v — the tree-level API of ValueApi.v tied to what is already modelled: the Value helpers equal the
   byte-level functions on the encoding; the From<primitive> conversions land in the right variant; LazyValue's two
   variants serialise / decode / measure alike; Display agrees with to_string where neither escapes differently. *)
From Coq Require Import List NArith ZArith Bool Lia.
From Coq Require Import ZifyBool ZifyNat ZifyN.
Import ListNotations.
From JB Require Import Constants Bytes Utf8 Num NumProofs Value Codec CodecProofs Decimal TreeOps Render OrderProofs RoundtripProofs Dispatch DispatchProofs
  TextBinProofs Walk WalkProofs CastWalk CastWalkProofs RenderWalk RenderWalkProofs MiscProofs DebugTable ValueApi.
Open Scope N_scope.
Set Default Timeout 60.
Arguments N.land : simpl never. Arguments N.lor : simpl never. Arguments N.eqb : simpl never. Arguments N.ltb : simpl never.
Arguments N.leb : simpl never. Arguments N.add : simpl never. Arguments N.mul : simpl never. Arguments N.sub : simpl never.

(* ================================================================================================================ *)
(* 2. the Value helpers are the tree functions of TreeOps.v ...                                                      *)
Lemma value_array_length_is_t v : value_array_length v = array_length_t v.
Proof. reflexivity. Qed.
Lemma value_object_keys_is_t v : value_object_keys v = object_keys_t v.
Proof. reflexivity. Qed.
Lemma value_as_i64_is_t v : value_as_i64 v = as_i64_t v. Proof. reflexivity. Qed.
Lemma value_as_u64_is_t v : value_as_u64 v = as_u64_t v. Proof. reflexivity. Qed.
Lemma value_as_f64_is_t v : value_as_f64 v = as_f64_t v. Proof. reflexivity. Qed.
Lemma value_as_bool_is_t v : value_as_bool v = as_bool_t v. Proof. reflexivity. Qed.
Lemma value_as_str_is_t v : value_as_str v = as_str_t v. Proof. reflexivity. Qed.
Lemma value_as_number_is_t v : value_as_number v = as_number_t v. Proof. reflexivity. Qed.
Lemma value_eq_variant_is_type_of a b : value_eq_variant a b = (type_of_t a =? type_of_t b).
Proof. destruct a, b; reflexivity. Qed.
Lemma value_is_scalar_is v : value_is_scalar v = is_scalar v.
Proof. destruct v; reflexivity. Qed.

Lemma bytes_eqb_refl' a : bytes_eqb a a = true.
Proof. unfold bytes_eqb. rewrite (proj2 (bytes_cmp_eq a a) eq_refl). reflexivity. Qed.
Lemma bytes_eqb_true a b : bytes_eqb a b = true -> a = b.
Proof. unfold bytes_eqb. destruct (bytes_cmp a b) eqn:E; try discriminate. intros _. apply bytes_cmp_eq. exact E. Qed.

(* get_by_name_ignore_case looks the matching KEY up again; the tree function of TreeOps.v takes the member it found *)
Lemma lookup_first_key_ci name o :
  match first_key_ci name o with Some k => assoc_lookup k o | None => None end = first_ci name o.
Proof.
  induction o as [|[k x] r IH]; [reflexivity|]. cbn [first_key_ci first_ci].
  destruct (eq_ignore_ascii_case name k) eqn:E.
  - cbn [assoc_lookup]. rewrite bytes_eqb_refl'. reflexivity.
  - rewrite <- IH. destruct (first_key_ci name r) as [k'|] eqn:F; [|reflexivity].
    cbn [assoc_lookup]. destruct (bytes_eqb k' k) eqn:B; [|reflexivity].
    exfalso. apply bytes_eqb_true in B. subst k'.
    assert (H : eq_ignore_ascii_case name k = true).
    { clear -F. induction r as [|[k2 x2] r IHr]; [discriminate F|]. cbn [first_key_ci] in F.
      destruct (eq_ignore_ascii_case name k2) eqn:E2; [injection F as <-; exact E2|exact (IHr F)]. }
    congruence.
Qed.
Theorem value_get_by_name_ignore_case_is_t v name : value_get_by_name_ignore_case v name = get_by_name_t v name true.
Proof.
  destruct v as [| | | | |o]; try reflexivity. cbn [value_get_by_name_ignore_case get_by_name_t].
  destruct (assoc_lookup name o); [reflexivity|]. apply lookup_first_key_ci.
Qed.

(* the integer views do not see the representation change of an encode / decode round trip *)
Lemma as_i64_normalise n : as_i64 (normalise_num n) = as_i64 n.
Proof.
  destruct n as [z|u|b]; cbn [normalise_num]; [|reflexivity|destruct (f_is_nan b); reflexivity].
  destruct (z =? 0)%Z eqn:E; [|reflexivity]. apply Z.eqb_eq in E. subst z. reflexivity.
Qed.
Lemma as_u64_normalise n : as_u64 (normalise_num n) = as_u64 n.
Proof.
  destruct n as [z|u|b]; cbn [normalise_num]; [|reflexivity|destruct (f_is_nan b); reflexivity].
  destruct (z =? 0)%Z eqn:E; [|reflexivity]. apply Z.eqb_eq in E. subst z. reflexivity.
Qed.
Lemma as_i64_t_normalise v : as_i64_t (normalise v) = as_i64_t v.
Proof. destruct v; try reflexivity. cbn [normalise as_i64_t]. apply as_i64_normalise. Qed.
Lemma as_u64_t_normalise v : as_u64_t (normalise v) = as_u64_t v.
Proof. destruct v; try reflexivity. cbn [normalise as_u64_t]. apply as_u64_normalise. Qed.
Lemma as_bool_t_normalise v : as_bool_t (normalise v) = as_bool_t v.
Proof. destruct v; reflexivity. Qed.
Lemma as_str_t_normalise v : as_str_t (normalise v) = as_str_t v.
Proof. destruct v; reflexivity. Qed.
Lemma discriminant_normalise v : discriminant (normalise v) = discriminant v.
Proof. destruct v; reflexivity. Qed.

(* ... and each one equals the byte-level function of the crate on the encoding *)
Section HelpersOnEncodings.
  Variable v : value.
  Hypothesis Hwf : wfb v = true.
  Hypothesis Htop : top_ok v.

  Theorem value_array_length_bytes : array_length_w (enc v) = Ok (value_array_length v).
  Proof. exact (array_length_w_enc v Hwf Htop). Qed.
  Theorem value_object_keys_bytes : object_keys_w (enc v) = Ok (option_map enc (value_object_keys v)).
  Proof. exact (object_keys_w_enc v Hwf Htop). Qed.
  Theorem value_get_by_name_ignore_case_bytes name :
    get_by_name_w (enc v) name true = Ok (option_map enc (value_get_by_name_ignore_case v name)).
  Proof. rewrite value_get_by_name_ignore_case_is_t. exact (get_by_name_w_enc v name true Hwf Htop). Qed.
  Theorem value_as_i64_bytes : as_i64_w (enc v) = Ok (value_as_i64 v).
  Proof. rewrite (as_i64_w_enc v Hwf Htop), as_i64_t_normalise. reflexivity. Qed.
  Theorem value_as_u64_bytes : as_u64_w (enc v) = Ok (value_as_u64 v).
  Proof. rewrite (as_u64_w_enc v Hwf Htop), as_u64_t_normalise. reflexivity. Qed.
  Theorem value_as_bool_bytes : as_bool_w (enc v) = Ok (value_as_bool v).
  Proof. rewrite (as_bool_w_enc v Hwf Htop), as_bool_t_normalise. reflexivity. Qed.
  Theorem value_as_str_bytes : as_str_w (enc v) = Ok (value_as_str v).
  Proof. rewrite (as_str_w_enc v Hwf Htop), as_str_t_normalise. reflexivity. Qed.
  (* as_number / as_f64 see the representation: Int64 0 is read back as UInt64 0, a NaN as the canonical NaN *)
  Theorem value_as_number_bytes : as_number_w (enc v) = Ok (value_as_number (normalise v)).
  Proof. exact (as_number_w_enc v Hwf Htop). Qed.
  Theorem value_as_f64_bytes : as_f64_w (enc v) = Ok (value_as_f64 (normalise v)).
  Proof. exact (as_f64_w_enc v Hwf Htop). Qed.
  Theorem value_is_bytes :
    as_null_w (enc v) = Ok (value_is_null v) /\ is_array_w (enc v) = Ok (value_is_array v) /\
    is_object_w (enc v) = Ok (value_is_object v) /\
    type_of_w (enc v) = Ok (match discriminant v with 2 => 3 | 3 => 2 | d => d end).
  Proof.
    rewrite (as_null_w_enc v Hwf Htop), (is_array_w_enc v Hwf Htop), (is_object_w_enc v Hwf Htop), (type_of_w_enc v Hwf Htop).
    destruct v; repeat split; reflexivity.
  Qed.
End HelpersOnEncodings.

(* eq_variant of two values is decided by type_of on their encodings *)
Theorem value_eq_variant_bytes a b : wfb a = true -> top_ok a -> wfb b = true -> top_ok b ->
  exists ta tb, type_of_w (enc a) = Ok ta /\ type_of_w (enc b) = Ok tb /\ value_eq_variant a b = (ta =? tb).
Proof.
  intros Wa Ta Wb Tb. exists (type_of_t (normalise a)), (type_of_t (normalise b)).
  split; [exact (type_of_w_enc a Wa Ta)|]. split; [exact (type_of_w_enc b Wb Tb)|].
  rewrite value_eq_variant_is_type_of. destruct a, b; reflexivity.
Qed.

(* ================================================================================================================ *)
(* 3. From<primitive>                                                                                                *)
Theorem from_i64_views z :
  value_as_i64 (from_i64 z) = Some z /\
  value_as_u64 (from_i64 z) = (if (0 <=? z)%Z then Some (Z.to_N z) else None) /\
  value_is_number (from_i64 z) = true /\ value_is_f64 (from_i64 z) = true /\
  wf_shape (from_i64 z) = ((- two63 <=? z) && (z <? two63))%Z.
Proof. repeat split. Qed.
Theorem from_u64_views n :
  value_as_u64 (from_u64 n) = Some n /\
  value_as_i64 (from_u64 n) = (if (Z.of_N n <? two63)%Z then Some (Z.of_N n) else None) /\
  value_is_number (from_u64 n) = true /\ wf_shape (from_u64 n) = (n <? two64).
Proof. repeat split. Qed.
Theorem from_f64_views b :
  value_as_f64 (from_f64 b) = Some b /\ value_as_i64 (from_f64 b) = None /\ value_as_u64 (from_f64 b) = None /\
  value_is_number (from_f64 b) = true.
Proof. repeat split. Qed.
(* every signed / unsigned primitive is in range, so the value built is a document and encodes; what comes back from the
   bytes is the same number (a non-negative Int64 stays Int64 on the wire, except 0 which is stored as the shared zero) *)
Theorem from_i64_roundtrip z : (- two63 <= z < two63)%Z ->
  from_slice (to_vec (from_i64 z)) = Ok (if (z =? 0)%Z then from_u64 0 else from_i64 z).
Proof.
  intros Hz. assert (W : wfb (from_i64 z) = true).
  { unfold wfb, from_i64. cbn [wf_shape wf_size num_in_range]. lia. }
  rewrite (to_vec_is_layout _ (proj2 (proj1 (andb_true_iff _ _) W))). rewrite (from_slice_enc _ W).
  unfold from_i64, from_u64. cbn [normalise normalise_num]. destruct (z =? 0)%Z; reflexivity.
Qed.
Theorem from_u64_roundtrip n : n < two64 -> from_slice (to_vec (from_u64 n)) = Ok (from_u64 n).
Proof.
  intros Hn. assert (W : wfb (from_u64 n) = true).
  { unfold wfb, from_u64. cbn [wf_shape wf_size num_in_range]. lia. }
  rewrite (to_vec_is_layout _ (proj2 (proj1 (andb_true_iff _ _) W))). rewrite (from_slice_enc _ W). reflexivity.
Qed.
Theorem from_scalars :
  (forall b, value_as_bool (from_bool b) = Some b) /\ (forall s, value_as_str (from_string s) = Some s) /\
  value_is_null from_unit = true /\
  (forall A (f : A -> value) l, value_array_length (from_vec f l) = Some (lenN l)) /\
  (forall o, value_as_object (from_object o) = Some o).
Proof. repeat split. intros A f l. unfold from_vec, value_array_length, lenN. rewrite map_length. reflexivity. Qed.

(* f32 -> f64 is exact: value of a finite f32 pattern as a multiple of 2^-149 *)
Definition f32_scaled (b : N) : Z :=
  let m := f32_man b in let e := f32_exp b in
  let mag := if e =? 0 then Z.of_N m else (Z.of_N (two23 + m) * 2 ^ (Z.of_N e - 1))%Z in
  if f32_sign b then (- mag)%Z else mag.

(* ================================================================================================================ *)
(* 4. LazyValue                                                                                                      *)
Theorem lazy_write_to_vec_appends l : (forall v, l = LValue v -> wf_size v = true) ->
  forall buf, lazy_write_to_vec buf l = buf ++ lazy_to_vec l.
Proof.
  intros H buf. destruct l as [v|bs]; cbn [lazy_write_to_vec lazy_to_vec]; [|reflexivity].
  rewrite (write_to_vec_spec v (H v eq_refl) buf), (to_vec_is_layout v (H v eq_refl)). reflexivity.
Qed.
Theorem lazy_write_to_vec_keeps_prefix l : (forall v, l = LValue v -> wf_size v = true) ->
  forall buf, exists suffix, lazy_write_to_vec buf l = buf ++ suffix /\ lazy_write_to_vec [] l = suffix.
Proof.
  intros H buf. exists (lazy_to_vec l). split; [exact (lazy_write_to_vec_appends l H buf)|].
  exact (lazy_write_to_vec_appends l H []).
Qed.
Theorem lazy_to_vec_both v : wf_size v = true ->
  lazy_to_vec (LRaw (enc v)) = enc v /\ lazy_to_vec (lazy_of_value v) = enc v.
Proof. intros H. split; [reflexivity|]. exact (to_vec_is_layout v H). Qed.
Theorem lazy_to_value_both v : wfb v = true ->
  lazy_to_value (LRaw (enc v)) = Ok (normalise v) /\ lazy_to_value (lazy_of_value v) = Ok v.
Proof. intros H. split; [|reflexivity]. cbn [lazy_to_value]. rewrite (from_slice_enc v H). reflexivity. Qed.
Theorem lazy_array_length_both v : wfb v = true -> top_ok v ->
  lazy_array_length_w (LRaw (enc v)) = Ok (value_array_length v) /\
  lazy_array_length_w (lazy_of_value v) = Ok (value_array_length v).
Proof.
  intros Hw Ht. split; [exact (array_length_w_enc v Hw Ht)|]. destruct v as [| | | |l|o]; reflexivity.
Qed.
(* parse_lazy_value keeps an encoding as it is *)
Theorem parse_lazy_value_enc v : wfb v = true -> top_ok v -> parse_lazy_value (enc v) = Ok (LRaw (enc v)).
Proof. intros Hw Ht. unfold parse_lazy_value. rewrite (is_jsonb_enc v Hw Ht). reflexivity. Qed.
