(* ValueApiProofs.v — the tree-level API of ValueApi.v tied to what is already modelled: the Value helpers equal the
   byte-level functions on the encoding; the From<primitive> conversions land in the right variant; LazyValue's two
   variants serialise / decode / measure alike; Display agrees with to_string where neither escapes differently. *)
From Coq Require Import List NArith ZArith Bool Lia.
From Coq Require Import ZifyBool ZifyNat ZifyN.
Import ListNotations.
From JB Require Import Constants Bytes Utf8 Num NumProofs Value Codec CodecProofs Decimal TreeOps Render OrderProofs RoundtripProofs Dispatch DispatchProofs
  TextBinProofs Walk WalkProofs CastWalk CastWalkProofs RenderWalk RenderWalkProofs MiscProofs DebugTable ValueApi.
Open Scope N_scope.
Set Default Timeout 60.
Arguments N.land : simpl never. Arguments N.lor : simpl never. Arguments N.eqb : simpl never. Arguments N.ltb : simpl never.
Arguments N.leb : simpl never. Arguments N.add : simpl never. Arguments N.mul : simpl never. Arguments N.sub : simpl never.

(* ================================================================================================================ *)
(* 2. the Value helpers are the tree functions of TreeOps.v ...                                                      *)
Lemma value_array_length_is_t v : value_array_length v = array_length_t v.
Proof. reflexivity. Qed.
Lemma value_object_keys_is_t v : value_object_keys v = object_keys_t v.
Proof. reflexivity. Qed.
Lemma value_as_i64_is_t v : value_as_i64 v = as_i64_t v. Proof. reflexivity. Qed.
Lemma value_as_u64_is_t v : value_as_u64 v = as_u64_t v. Proof. reflexivity. Qed.
Lemma value_as_f64_is_t v : value_as_f64 v = as_f64_t v. Proof. reflexivity. Qed.
Lemma value_as_bool_is_t v : value_as_bool v = as_bool_t v. Proof. reflexivity. Qed.
Lemma value_as_str_is_t v : value_as_str v = as_str_t v. Proof. reflexivity. Qed.
Lemma value_as_number_is_t v : value_as_number v = as_number_t v. Proof. reflexivity. Qed.
Lemma value_eq_variant_is_type_of a b : value_eq_variant a b = (type_of_t a =? type_of_t b).
Proof. destruct a, b; reflexivity. Qed.
Lemma value_is_scalar_is v : value_is_scalar v = is_scalar v.
Proof. destruct v; reflexivity. Qed.

Lemma bytes_eqb_refl' a : bytes_eqb a a = true.
Proof. unfold bytes_eqb. rewrite (proj2 (bytes_cmp_eq a a) eq_refl). reflexivity. Qed.
Lemma bytes_eqb_true a b : bytes_eqb a b = true -> a = b.
Proof. unfold bytes_eqb. destruct (bytes_cmp a b) eqn:E; try discriminate. intros _. apply bytes_cmp_eq. exact E. Qed.

(* get_by_name_ignore_case looks the matching KEY up again; the tree function of TreeOps.v takes the member it found *)
Lemma lookup_first_key_ci name o :
  match first_key_ci name o with Some k => assoc_lookup k o | None => None end = first_ci name o.
Proof.
  induction o as [|[k x] r IH]; [reflexivity|]. cbn [first_key_ci first_ci].
  destruct (eq_ignore_ascii_case name k) eqn:E.
  - cbn [assoc_lookup]. rewrite bytes_eqb_refl'. reflexivity.
  - rewrite <- IH. destruct (first_key_ci name r) as [k'|] eqn:F; [|reflexivity].
    cbn [assoc_lookup]. destruct (bytes_eqb k' k) eqn:B; [|reflexivity].
    exfalso. apply bytes_eqb_true in B. subst k'.
    assert (H : eq_ignore_ascii_case name k = true).
    { clear -F. induction r as [|[k2 x2] r IHr]; [discriminate F|]. cbn [first_key_ci] in F.
      destruct (eq_ignore_ascii_case name k2) eqn:E2; [injection F as <-; exact E2|exact (IHr F)]. }
    congruence.
Qed.
Theorem value_get_by_name_ignore_case_is_t v name : value_get_by_name_ignore_case v name = get_by_name_t v name true.
Proof.
  destruct v as [| | | | |o]; try reflexivity. cbn [value_get_by_name_ignore_case get_by_name_t].
  destruct (assoc_lookup name o); [reflexivity|]. apply lookup_first_key_ci.
Qed.

(* the integer views do not see the representation change of an encode / decode round trip *)
Lemma as_i64_normalise n : as_i64 (normalise_num n) = as_i64 n.
Proof.
  destruct n as [z|u|b]; cbn [normalise_num]; [|reflexivity|destruct (f_is_nan b); reflexivity].
  destruct (z =? 0)%Z eqn:E; [|reflexivity]. apply Z.eqb_eq in E. subst z. reflexivity.
Qed.
Lemma as_u64_normalise n : as_u64 (normalise_num n) = as_u64 n.
Proof.
  destruct n as [z|u|b]; cbn [normalise_num]; [|reflexivity|destruct (f_is_nan b); reflexivity].
  destruct (z =? 0)%Z eqn:E; [|reflexivity]. apply Z.eqb_eq in E. subst z. reflexivity.
Qed.
Lemma as_i64_t_normalise v : as_i64_t (normalise v) = as_i64_t v.
Proof. destruct v; try reflexivity. cbn [normalise as_i64_t]. apply as_i64_normalise. Qed.
Lemma as_u64_t_normalise v : as_u64_t (normalise v) = as_u64_t v.
Proof. destruct v; try reflexivity. cbn [normalise as_u64_t]. apply as_u64_normalise. Qed.
Lemma as_bool_t_normalise v : as_bool_t (normalise v) = as_bool_t v.
Proof. destruct v; reflexivity. Qed.
Lemma as_str_t_normalise v : as_str_t (normalise v) = as_str_t v.
Proof. destruct v; reflexivity. Qed.
Lemma discriminant_normalise v : discriminant (normalise v) = discriminant v.
Proof. destruct v; reflexivity. Qed.

(* ... and each one equals the byte-level function of the crate on the encoding *)
Section HelpersOnEncodings.
  Variable v : value.
  Hypothesis Hwf : wfb v = true.
  Hypothesis Htop : top_ok v.

  Theorem value_array_length_bytes : array_length_w (enc v) = Ok (value_array_length v).
  Proof. exact (array_length_w_enc v Hwf Htop). Qed.
  Theorem value_object_keys_bytes : object_keys_w (enc v) = Ok (option_map enc (value_object_keys v)).
  Proof. exact (object_keys_w_enc v Hwf Htop). Qed.
  Theorem value_get_by_name_ignore_case_bytes name :
    get_by_name_w (enc v) name true = Ok (option_map enc (value_get_by_name_ignore_case v name)).
  Proof. rewrite value_get_by_name_ignore_case_is_t. exact (get_by_name_w_enc v name true Hwf Htop). Qed.
  Theorem value_as_i64_bytes : as_i64_w (enc v) = Ok (value_as_i64 v).
  Proof. rewrite (as_i64_w_enc v Hwf Htop), as_i64_t_normalise. reflexivity. Qed.
  Theorem value_as_u64_bytes : as_u64_w (enc v) = Ok (value_as_u64 v).
  Proof. rewrite (as_u64_w_enc v Hwf Htop), as_u64_t_normalise. reflexivity. Qed.
  Theorem value_as_bool_bytes : as_bool_w (enc v) = Ok (value_as_bool v).
  Proof. rewrite (as_bool_w_enc v Hwf Htop), as_bool_t_normalise. reflexivity. Qed.
  Theorem value_as_str_bytes : as_str_w (enc v) = Ok (value_as_str v).
  Proof. rewrite (as_str_w_enc v Hwf Htop), as_str_t_normalise. reflexivity. Qed.
  (* as_number / as_f64 see the representation: Int64 0 is read back as UInt64 0, a NaN as the canonical NaN *)
  Theorem value_as_number_bytes : as_number_w (enc v) = Ok (value_as_number (normalise v)).
  Proof. exact (as_number_w_enc v Hwf Htop). Qed.
  Theorem value_as_f64_bytes : as_f64_w (enc v) = Ok (value_as_f64 (normalise v)).
  Proof. exact (as_f64_w_enc v Hwf Htop). Qed.
  Theorem value_is_bytes :
    as_null_w (enc v) = Ok (value_is_null v) /\ is_array_w (enc v) = Ok (value_is_array v) /\
    is_object_w (enc v) = Ok (value_is_object v) /\
    type_of_w (enc v) = Ok (match discriminant v with 2 => 3 | 3 => 2 | d => d end).
  Proof.
    rewrite (as_null_w_enc v Hwf Htop), (is_array_w_enc v Hwf Htop), (is_object_w_enc v Hwf Htop), (type_of_w_enc v Hwf Htop).
    destruct v; repeat split; reflexivity.
  Qed.
End HelpersOnEncodings.

(* eq_variant of two values is decided by type_of on their encodings *)
Theorem value_eq_variant_bytes a b : wfb a = true -> top_ok a -> wfb b = true -> top_ok b ->
  exists ta tb, type_of_w (enc a) = Ok ta /\ type_of_w (enc b) = Ok tb /\ value_eq_variant a b = (ta =? tb).
Proof.
  intros Wa Ta Wb Tb. exists (type_of_t (normalise a)), (type_of_t (normalise b)).
  split; [exact (type_of_w_enc a Wa Ta)|]. split; [exact (type_of_w_enc b Wb Tb)|].
  rewrite value_eq_variant_is_type_of. destruct a, b; reflexivity.
Qed.

(* ================================================================================================================ *)
(* 3. From<primitive>                                                                                                *)
Theorem from_i64_views z :
  value_as_i64 (from_i64 z) = Some z /\
  value_as_u64 (from_i64 z) = (if (0 <=? z)%Z then Some (Z.to_N z) else None) /\
  value_is_number (from_i64 z) = true /\ value_is_f64 (from_i64 z) = true /\
  wf_shape (from_i64 z) = ((- two63 <=? z) && (z <? two63))%Z.
Proof. repeat split. Qed.
Theorem from_u64_views n :
  value_as_u64 (from_u64 n) = Some n /\
  value_as_i64 (from_u64 n) = (if (Z.of_N n <? two63)%Z then Some (Z.of_N n) else None) /\
  value_is_number (from_u64 n) = true /\ wf_shape (from_u64 n) = (n <? two64).
Proof. repeat split. Qed.
Theorem from_f64_views b :
  value_as_f64 (from_f64 b) = Some b /\ value_as_i64 (from_f64 b) = None /\ value_as_u64 (from_f64 b) = None /\
  value_is_number (from_f64 b) = true.
Proof. repeat split. Qed.
(* every signed / unsigned primitive is in range, so the value built is a document and encodes; what comes back from the
   bytes is the same number (a non-negative Int64 stays Int64 on the wire, except 0 which is stored as the shared zero) *)
Theorem from_i64_roundtrip z : (- two63 <= z < two63)%Z ->
  from_slice (to_vec (from_i64 z)) = Ok (if (z =? 0)%Z then from_u64 0 else from_i64 z).
Proof.
  intros Hz. assert (W : wfb (from_i64 z) = true).
  { unfold wfb, from_i64. cbn [wf_shape wf_size num_in_range]. lia. }
  rewrite (to_vec_is_layout _ (proj2 (proj1 (andb_true_iff _ _) W))). rewrite (from_slice_enc _ W).
  unfold from_i64, from_u64. cbn [normalise normalise_num]. destruct (z =? 0)%Z; reflexivity.
Qed.
Theorem from_u64_roundtrip n : n < two64 -> from_slice (to_vec (from_u64 n)) = Ok (from_u64 n).
Proof.
  intros Hn. assert (W : wfb (from_u64 n) = true).
  { unfold wfb, from_u64. cbn [wf_shape wf_size num_in_range]. lia. }
  rewrite (to_vec_is_layout _ (proj2 (proj1 (andb_true_iff _ _) W))). rewrite (from_slice_enc _ W). reflexivity.
Qed.
Theorem from_scalars :
  (forall b, value_as_bool (from_bool b) = Some b) /\ (forall s, value_as_str (from_string s) = Some s) /\
  value_is_null from_unit = true /\
  (forall A (f : A -> value) l, value_array_length (from_vec f l) = Some (lenN l)) /\
  (forall o, value_as_object (from_object o) = Some o).
Proof. repeat split. intros A f l. unfold from_vec, value_array_length, lenN. rewrite map_length. reflexivity. Qed.

(* f32 -> f64 is exact: value of a finite f32 pattern as a multiple of 2^-149 *)
Definition f32_scaled (b : N) : Z :=
  let m := f32_man b in let e := f32_exp b in
  let mag := if e =? 0 then Z.of_N m else (Z.of_N (two23 + m) * 2 ^ (Z.of_N e - 1))%Z in
  if f32_sign b then (- mag)%Z else mag.

(* ================================================================================================================ *)
(* 4. LazyValue                                                                                                      *)
Theorem lazy_write_to_vec_appends l : (forall v, l = LValue v -> wf_size v = true) ->
  forall buf, lazy_write_to_vec buf l = buf ++ lazy_to_vec l.
Proof.
  intros H buf. destruct l as [v|bs]; cbn [lazy_write_to_vec lazy_to_vec]; [|reflexivity].
  rewrite (write_to_vec_spec v (H v eq_refl) buf), (to_vec_is_layout v (H v eq_refl)). reflexivity.
Qed.
Theorem lazy_write_to_vec_keeps_prefix l : (forall v, l = LValue v -> wf_size v = true) ->
  forall buf, exists suffix, lazy_write_to_vec buf l = buf ++ suffix /\ lazy_write_to_vec [] l = suffix.
Proof.
  intros H buf. exists (lazy_to_vec l). split; [exact (lazy_write_to_vec_appends l H buf)|].
  exact (lazy_write_to_vec_appends l H []).
Qed.
Theorem lazy_to_vec_both v : wf_size v = true ->
  lazy_to_vec (LRaw (enc v)) = enc v /\ lazy_to_vec (lazy_of_value v) = enc v.
Proof. intros H. split; [reflexivity|]. exact (to_vec_is_layout v H). Qed.
Theorem lazy_to_value_both v : wfb v = true ->
  lazy_to_value (LRaw (enc v)) = Ok (normalise v) /\ lazy_to_value (lazy_of_value v) = Ok v.
Proof. intros H. split; [|reflexivity]. cbn [lazy_to_value]. rewrite (from_slice_enc v H). reflexivity. Qed.
Theorem lazy_array_length_both v : wfb v = true -> top_ok v ->
  lazy_array_length_w (LRaw (enc v)) = Ok (value_array_length v) /\
  lazy_array_length_w (lazy_of_value v) = Ok (value_array_length v).
Proof.
  intros Hw Ht. split; [exact (array_length_w_enc v Hw Ht)|]. destruct v as [| | | |l|o]; reflexivity.
Qed.
(* parse_lazy_value keeps an encoding as it is *)
Theorem parse_lazy_value_enc v : wfb v = true -> top_ok v -> parse_lazy_value (enc v) = Ok (LRaw (enc v)).
Proof. intros Hw Ht. unfold parse_lazy_value. rewrite (is_jsonb_enc v Hw Ht). reflexivity. Qed.

(* ================================================================================================================ *)
(* 1. Display for Value against to_string                                                                            *)
Lemma escape_byte_high b : 128 <= b -> b < 256 -> escape_byte b = [b].
Proof.
  intros H1 H2. apply other_bytes_copied; [|lia|lia].
  apply (TextRoundtrip.in_seq_N b 32 224); [lia|]. change (N.of_nat (32 + 224)) with 256. exact H2.
Qed.
Definition ascii_str_safe (b : N) : bool := ((32 <=? b) && (b <? 127)) || (b =? 9) || (b =? 10) || (b =? 13).
Lemma debug_ascii_agrees b : b < 128 -> ascii_str_safe b = true -> debug_ascii b = escape_byte b.
Proof.
  assert (H : forallb (fun b => implb (ascii_str_safe b) (bytes_eqb (debug_ascii b) (escape_byte b)))
                      (map N.of_nat (seq 0 128)) = true) by (vm_compute; reflexivity).
  intros Hb Hs. rewrite forallb_forall in H.
  assert (Hin : In b (map N.of_nat (seq 0 128))).
  { apply (TextRoundtrip.in_seq_N b 0 128); [lia|]. change (N.of_nat (0 + 128)) with 128. exact Hb. }
  specialize (H b Hin). rewrite Hs in H. cbn [implb] in H. apply bytes_eqb_true. exact H.
Qed.

Lemma debug_chars_safe : forall n s, (length s <= n)%nat -> display_safe_str s = true -> debug_chars s = flat_map escape_byte s.
Proof.
  induction n as [|n IH]; intros s Hl Hs.
  - destruct s; [reflexivity|cbn [length] in Hl; lia].
  - destruct s as [|b0 r]; [reflexivity|]. cbn [length] in Hl.
    cbn [display_safe_str] in Hs. cbn [debug_chars flat_map].
    destruct (b0 <? 128) eqn:E0.
    + apply andb_true_iff in Hs. destruct Hs as [Ha Hr].
      rewrite (debug_ascii_agrees b0) by (exact Ha || lia). rewrite (IH r) by (exact Hr || lia). reflexivity.
    + destruct (b0 <? 224) eqn:E1.
      * destruct r as [|b1 r1]; [discriminate Hs|]. cbn [length] in Hl.
        repeat (apply andb_true_iff in Hs; destruct Hs as [Hs ?]).
        unfold debug_multi. destruct (debug_escaped _); [discriminate|].
        cbn [flat_map]. rewrite (escape_byte_high b0), (escape_byte_high b1) by lia.
        rewrite (IH r1) by (assumption || lia). reflexivity.
      * destruct (b0 <? 240) eqn:E2.
        -- destruct r as [|b1 [|b2 r2]]; [discriminate Hs|discriminate Hs|]. cbn [length] in Hl.
           repeat (apply andb_true_iff in Hs; destruct Hs as [Hs ?]).
           unfold debug_multi. destruct (debug_escaped _); [discriminate|].
           cbn [flat_map]. rewrite (escape_byte_high b0), (escape_byte_high b1), (escape_byte_high b2) by lia.
           rewrite (IH r2) by (assumption || lia). reflexivity.
        -- destruct r as [|b1 [|b2 [|b3 r3]]]; [discriminate Hs|discriminate Hs|discriminate Hs|]. cbn [length] in Hl.
           repeat (apply andb_true_iff in Hs; destruct Hs as [Hs ?]).
           unfold debug_multi. destruct (debug_escaped _); [discriminate|].
           cbn [flat_map]. rewrite (escape_byte_high b0), (escape_byte_high b1), (escape_byte_high b2), (escape_byte_high b3) by lia.
           rewrite (IH r3) by (assumption || lia). reflexivity.
Qed.
Lemma debug_str_safe s : display_safe_str s = true -> debug_str s = escape_string s.
Proof. intros H. unfold debug_str, escape_string. rewrite (debug_chars_safe (length s) s (le_n _) H). reflexivity. Qed.

Lemma raw_key_safe k : display_safe_key k = true -> raw_key k = escape_string k.
Proof.
  intros H. unfold raw_key, escape_string. f_equal. f_equal.
  induction k as [|b r IH]; [reflexivity|]. cbn [display_safe_key forallb] in H. apply andb_true_iff in H. destruct H as [Hb Hr].
  cbn [flat_map]. unfold display_safe_key_byte in Hb.
  assert (E : escape_byte b = [b]).
  { apply other_bytes_copied; [|lia|lia]. apply (TextRoundtrip.in_seq_N b 32 224); [lia|]. change (N.of_nat (32 + 224)) with 256. lia. }
  rewrite E. cbn [app]. f_equal. apply IH. exact Hr.
Qed.

Section DisplayAgrees.
  Variable pf : N -> list N.
  Definition ditems : bool -> list value -> list N :=
    fix go (first : bool) (l : list value) : list N :=
      match l with
      | [] => []
      | x :: r => (if first then [] else [44]) ++ display pf x ++ go false r
      end.
  Definition dmembers : bool -> list (list N * value) -> list N :=
    fix go (first : bool) (o : list (list N * value)) : list N :=
      match o with
      | [] => []
      | (k, x) :: r => (if first then [] else [44]) ++ raw_key k ++ [58] ++ display pf x ++ go false r
      end.
  Lemma display_arr l : display pf (VArr l) = [91] ++ ditems true l ++ [93].
  Proof. reflexivity. Qed.
  Lemma display_obj o : display pf (VObj o) = [123] ++ dmembers true o ++ [125].
  Proof. reflexivity. Qed.

  Lemma display_is_render : forall v, display_safe v = true -> forall ind, display pf v = render pf false ind v.
  Proof.
    induction v as [|b|s|n|l IH|o IH] using value_ind2; intros Hs ind.
    - reflexivity.
    - destruct b; reflexivity.
    - cbn [display render]. apply debug_str_safe. exact Hs.
    - reflexivity.
    - rewrite display_arr, (TextRoundtrip.render_arr pf false ind l). unfold TextRoundtrip.opening, TextRoundtrip.closing.
      cbn [app]. f_equal. f_equal.
      cbn [display_safe] in Hs. rewrite forallb_forall in Hs. rewrite Forall_forall in IH.
      generalize true. induction l as [|x r IHr]; intros first; [reflexivity|].
      cbn [ditems]. fold ditems. rewrite TextRoundtrip.ritems_cons. unfold TextRoundtrip.sep, TextRoundtrip.pad. cbn [app].
      rewrite (IH x (or_introl eq_refl) (Hs x (or_introl eq_refl)) (ind + 2)%nat).
      rewrite (IHr (fun y Hy => IH y (or_intror Hy)) (fun y Hy => Hs y (or_intror Hy)) false). reflexivity.
    - rewrite display_obj, (TextRoundtrip.render_obj pf false ind o). unfold TextRoundtrip.opening, TextRoundtrip.closing.
      cbn [app]. f_equal. f_equal.
      cbn [display_safe] in Hs. rewrite forallb_forall in Hs. rewrite Forall_forall in IH.
      generalize true. induction o as [|[k x] r IHr]; intros first; [reflexivity|].
      cbn [dmembers]. fold dmembers. rewrite TextRoundtrip.rmembers_cons. unfold TextRoundtrip.sep, TextRoundtrip.pad, TextRoundtrip.colon. cbn [app].
      pose proof (Hs (k, x) (or_introl eq_refl)) as Hkx. cbn [fst snd] in Hkx. apply andb_true_iff in Hkx. destruct Hkx as [Hk Hx].
      rewrite (raw_key_safe k Hk).
      pose proof (IH (k, x) (or_introl eq_refl) Hx (ind + 2)%nat) as IHx. cbn [snd] in IHx. rewrite IHx.
      rewrite (IHr (fun y Hy => IH y (or_intror Hy)) (fun y Hy => Hs y (or_intror Hy)) false). reflexivity.
  Qed.
End DisplayAgrees.

(* (a) the two renderers of the crate agree on values whose strings and keys need no escape that they spell differently *)
Theorem display_agrees_with_to_string pf v : display_safe v = true -> display pf v = to_string_t pf v.
Proof. intros H. exact (display_is_render pf v H 0%nat). Qed.

(* the simple class is inside the class of the theorem *)
Lemma plain_str_safe s : forallb plain_byte s = true -> display_safe_str s = true.
Proof.
  induction s as [|b r IH]; [reflexivity|]. cbn [forallb]. intros H. apply andb_true_iff in H. destruct H as [Hb Hr].
  cbn [display_safe_str]. unfold plain_byte in Hb.
  assert (E : b <? 128 = true) by lia. rewrite E. rewrite (IH Hr).
  assert (E2 : (32 <=? b) && (b <? 127) = true) by lia. rewrite E2. reflexivity.
Qed.
Lemma plain_key_safe k : forallb plain_byte k = true -> display_safe_key k = true.
Proof.
  unfold display_safe_key. intros H. rewrite forallb_forall in *. intros b Hb. specialize (H b Hb).
  unfold plain_byte in H. unfold display_safe_key_byte. lia.
Qed.
Lemma plain_value_safe : forall v, plain_value v = true -> display_safe v = true.
Proof.
  induction v as [|b|s|n|l IH|o IH] using value_ind2; intros H; try reflexivity.
  - apply plain_str_safe. exact H.
  - cbn [plain_value display_safe] in *. rewrite forallb_forall in *. rewrite Forall_forall in IH.
    intros x Hx. exact (IH x Hx (H x Hx)).
  - cbn [plain_value display_safe] in *. rewrite forallb_forall in *. rewrite Forall_forall in IH.
    intros kv Hkv. specialize (H kv Hkv). apply andb_true_iff in H. destruct H as [Hk Hx].
    rewrite (plain_key_safe _ Hk), (IH kv Hkv Hx). reflexivity.
Qed.
Theorem display_agrees_with_to_string_on_plain pf v : plain_value v = true -> display pf v = to_string_t pf v.
Proof. intros H. apply display_agrees_with_to_string. apply plain_value_safe. exact H. Qed.

(* through the byte walker: what to_string prints for the encoding is what Display prints for the decoded tree *)
Lemma display_safe_normalise : forall v, display_safe (normalise v) = display_safe v.
Proof.
  induction v as [|b|s|n|l IH|o IH] using value_ind2; try reflexivity.
  - cbn [normalise display_safe]. induction IH as [|x r Hx Hr IHr]; [reflexivity|]. cbn [map forallb]. rewrite Hx, IHr. reflexivity.
  - cbn [normalise display_safe]. induction IH as [|kv r Hx Hr IHr]; [reflexivity|]. cbn [map forallb fst snd]. rewrite Hx, IHr. reflexivity.
Qed.
Theorem display_is_to_string_of_the_encoding pf v : wfb v = true -> top_ok v -> display_safe v = true ->
  to_string_w' pf (enc v) = Ok (display pf (normalise v)).
Proof.
  intros Hw Ht Hs. rewrite (to_string_w_enc pf v Hw Ht). f_equal. symmetry. apply display_agrees_with_to_string.
  rewrite display_safe_normalise. exact Hs.
Qed.
(* with the placeholder float printer of the correspondence (and with any printer that spells every NaN alike) the decoded
   tree prints like the tree itself *)
Lemma number_text_placeholder_normalise n : number_text float_placeholder (normalise_num n) = number_text float_placeholder n.
Proof.
  destruct n as [z|u|b]; cbn [normalise_num]; [|reflexivity|].
  - destruct (z =? 0)%Z eqn:E; [|reflexivity]. apply Z.eqb_eq in E. subst z. reflexivity.
  - destruct (f_is_nan b) eqn:E; [|reflexivity]. cbn [number_text]. unfold float_placeholder. rewrite E. reflexivity.
Qed.
Lemma display_t_normalise : forall v, display_t (normalise v) = display_t v.
Proof.
  unfold display_t. induction v as [|b|s|n|l IH|o IH] using value_ind2; try reflexivity.
  - cbn [normalise display]. apply number_text_placeholder_normalise.
  - cbn [normalise]. rewrite !display_arr. f_equal. f_equal. generalize true.
    induction IH as [|x r Hx Hr IHr]; intros first; [reflexivity|]. cbn [map ditems]. fold (ditems float_placeholder).
    rewrite Hx, IHr. reflexivity.
  - cbn [normalise]. rewrite !display_obj. f_equal. f_equal. generalize true.
    induction IH as [|[k x] r Hx Hr IHr]; intros first; [reflexivity|]. cbn [map dmembers fst snd]. fold (dmembers float_placeholder).
    cbn [snd] in Hx. rewrite Hx, IHr. reflexivity.
Qed.
Theorem display_t_is_to_string_w v : wfb v = true -> top_ok v -> display_safe v = true ->
  to_string_w (enc v) = Ok (display_t v).
Proof.
  intros Hw Ht Hs. unfold to_string_w. rewrite (display_is_to_string_of_the_encoding float_placeholder v Hw Ht Hs).
  f_equal. apply display_t_normalise.
Qed.

(* (b) where they differ.  A key is written raw: a quote in a key ends the literal early and the text is not JSON; a control
   character, DEL or a non-printable / combining char in a string gets Rust's escape, which JSON does not have. *)
Example display_differs_key_with_quote :
  let v := VObj [([97; 34; 98], VNum (NUInt 1))] in
  wfb v = true /\
  display_t v = [123; 34; 97; 34; 98; 34; 58; 49; 125] /\                    (* { QUOTE a QUOTE b QUOTE : 1 }: the key literal ends after a *)
  to_string_t float_placeholder v = [123; 34; 97; 92; 34; 98; 34; 58; 49; 125] /\   (* the quote of the key escaped with a backslash *)
  JsonText.parse_value (display_t v) <> Ok v /\ JsonText.parse_value (to_string_t float_placeholder v) = Ok v.
Proof. vm_compute. repeat split; discriminate. Qed.
Example display_differs_string_escapes :
  let v := VStr [0; 1; 8; 12; 127; 194; 133; 204; 128; 226; 130; 172] in      (* NUL, U+0001, BS, FF, DEL, U+0085, U+0300, U+20AC *)
  wfb v = true /\
  display_t v = [34; 92; 48; 92; 117; 123; 49; 125; 92; 117; 123; 56; 125; 92; 117; 123; 99; 125; 92; 117; 123; 55; 102; 125;
                 92; 117; 123; 56; 53; 125; 92; 117; 123; 51; 48; 48; 125; 226; 130; 172; 34] /\
  to_string_t float_placeholder v = [34; 92; 117; 48; 48; 48; 48; 92; 117; 48; 48; 48; 49; 92; 98; 92; 102; 127; 194; 133; 204; 128; 226; 130; 172; 34].
Proof. vm_compute. repeat split. Qed.
Example display_agrees_example :
  let v := VObj [([107; 127; 195; 169], VArr [VStr [97; 34; 92; 10; 9; 226; 130; 172]; VNum (NInt (-5)); VBool true; VNull])] in
  wfb v = true /\ display_safe v = true /\ plain_value v = false /\ display_t v = to_string_t float_placeholder v /\
  to_string_w (enc v) = Ok (display_t v).
Proof. vm_compute. repeat split. Qed.

(* ================================================================================================================ *)
(* From<f32>: the widening `x as f64` is exact.  f32_scaled (section 3) is the value of a finite f32 pattern in units of
   2^-149, Num.f_scaled that of a finite f64 pattern in units of 2^-1074; 1074 - 149 = 925. *)

Lemma f_fields (sg : bool) A B : A < 2048 -> B < two52 ->
  let R := (if sg then 9223372036854775808 else 0) + A * two52 + B in
  f_sign R = sg /\ f_exp R = A /\ f_man R = B.
Proof.
  intros HA HB R. subst R. unfold f_sign, f_exp, f_man, two52 in *.
  Ltac Zify.zify_post_hook ::= Z.div_mod_to_equations.
  destruct sg; repeat split; lia.
Qed.
Ltac Zify.zify_post_hook ::= idtac.

Lemma f_scaled_fields (sg : bool) A B : A < 2048 -> B < two52 ->
  f_scaled ((if sg then 9223372036854775808 else 0) + A * two52 + B)
  = (let mag := if A =? 0 then Z.of_N B else (Z.of_N (two52 + B) * 2 ^ (Z.of_N A - 1))%Z in if sg then (- mag)%Z else mag).
Proof.
  intros HA HB. destruct (f_fields sg A B HA HB) as (E1 & E2 & E3). unfold f_scaled. rewrite E1, E2, E3. reflexivity.
Qed.

Lemma f32_fields b : f32_exp b < 256 /\ f32_man b < two23.
Proof.
  unfold f32_exp, f32_man, two23. split; apply N.mod_lt; discriminate.
Qed.

Theorem f32_to_f64_exact b : f32_exp b <> 255 ->
  f_scaled (f32_to_f64 b) = (f32_scaled b * 2 ^ 925)%Z /\ f_is_nan (f32_to_f64 b) = false /\ f_is_inf (f32_to_f64 b) = false.
Proof.
  intros He. destruct (f32_fields b) as [HE HM]. unfold f32_to_f64, f32_scaled.
  set (e := f32_exp b) in *. set (m := f32_man b) in *. set (sg := f32_sign b).
  apply N.eqb_neq in He. rewrite He.
  destruct (e =? 0) eqn:E0.
  - apply N.eqb_eq in E0. destruct (m =? 0) eqn:M0.
    + apply N.eqb_eq in M0. rewrite M0.
      replace (if sg then 9223372036854775808 else 0) with ((if sg then 9223372036854775808 else 0) + 0 * two52 + 0) by lia.
      assert (H0 : 0 < 2048) by lia. assert (H1 : 0 < two52) by (unfold two52; lia).
      destruct (f_fields sg 0 0 H0 H1) as (F1 & F2 & F3).
      unfold f_is_nan, f_is_inf. rewrite (f_scaled_fields sg 0 0 H0 H1), F2, F3. cbn [N.eqb]. 
      split; [destruct sg; reflexivity|split; reflexivity].
    + apply N.eqb_neq in M0. set (p := N.log2 m).
      assert (Hp : 2 ^ p <= m < 2 ^ N.succ p) by (apply N.log2_spec; lia).
      assert (Hp22 : p <= 22).
      { destruct (N.le_gt_cases p 22) as [H|H]; [exact H|]. exfalso.
        assert (2 ^ 23 <= 2 ^ p) by (apply N.pow_le_mono_r; lia). change (2 ^ 23) with two23 in H0. lia. }
      assert (Hpow : 2 ^ p * 2 ^ (52 - p) = two52).
      { rewrite <- N.pow_add_r. replace (p + (52 - p)) with 52 by lia. reflexivity. }
      set (P := 2 ^ p) in *. set (Q := 2 ^ (52 - p)) in *.
      assert (HQ : 0 < Q) by (apply N.neq_0_lt_0; apply N.pow_nonzero; discriminate).
      assert (Hsucc : 2 ^ N.succ p = 2 * P) by (rewrite N.pow_succ_r'; reflexivity).
      assert (HB : (m - P) * Q < two52).
      { rewrite <- Hpow. apply N.mul_lt_mono_pos_r; [exact HQ|lia]. }
      assert (HA : p + 874 < 2048) by lia.
      destruct (f_fields sg (p + 874) ((m - P) * Q) HA HB) as (F1 & F2 & F3).
      unfold f_is_nan, f_is_inf. rewrite (f_scaled_fields sg (p + 874) ((m - P) * Q) HA HB), F2.
      assert (Ne : (p + 874 =? 0) = false) by lia. rewrite Ne.
      assert (Ne2 : (p + 874 =? 2047) = false) by lia. rewrite Ne2. cbn [andb].
      split; [|split; reflexivity].
      assert (Hm : two52 + (m - P) * Q = m * Q).
      { rewrite <- Hpow. rewrite N.mul_sub_distr_r. assert (P * Q <= m * Q) by (apply N.mul_le_mono_r; lia). lia. }
      rewrite Hm. rewrite N2Z.inj_mul. unfold Q. rewrite N2Z.inj_pow.
      replace (Z.of_N (p + 874) - 1)%Z with (Z.of_N p + 873)%Z by lia.
      replace (Z.of_N (52 - p)) with (52 - Z.of_N p)%Z by lia.
      assert (X : (2 ^ (52 - Z.of_N p) * 2 ^ (Z.of_N p + 873) = 2 ^ 925)%Z).
      { rewrite <- Z.pow_add_r by lia. f_equal. lia. }
      change (Z.of_N 2) with 2%Z.
      destruct sg.
      * rewrite <- Z.mul_assoc, X. lia.
      * rewrite <- Z.mul_assoc, X. reflexivity.
  - apply N.eqb_neq in E0.
    assert (HA : e + 896 < 2048) by lia.
    assert (HB : m * 536870912 < two52) by (unfold two52, two23 in *; lia).
    destruct (f_fields sg (e + 896) (m * 536870912) HA HB) as (F1 & F2 & F3).
    unfold f_is_nan, f_is_inf. rewrite (f_scaled_fields sg (e + 896) (m * 536870912) HA HB), F2.
    assert (Ne : (e + 896 =? 0) = false) by lia. rewrite Ne.
    assert (Ne2 : (e + 896 =? 2047) = false) by lia. rewrite Ne2. cbn [andb].
    split; [|split; reflexivity].
    assert (Hm : two52 + m * 536870912 = (two23 + m) * 536870912) by (unfold two52, two23; lia).
    rewrite Hm. rewrite N2Z.inj_mul.
    replace (Z.of_N (e + 896) - 1)%Z with ((Z.of_N e - 1) + 896)%Z by lia.
    rewrite Z.pow_add_r by lia.
    change (Z.of_N 536870912) with (2 ^ 29)%Z.
    assert (X : (2 ^ 29 * 2 ^ 896 = 2 ^ 925)%Z) by (rewrite <- Z.pow_add_r by lia; reflexivity).
    destruct sg.
    + transitivity (- (Z.of_N (two23 + m) * 2 ^ (Z.of_N e - 1) * (2 ^ 29 * 2 ^ 896)))%Z; [ring|rewrite X; ring].
    + transitivity (Z.of_N (two23 + m) * 2 ^ (Z.of_N e - 1) * (2 ^ 29 * 2 ^ 896))%Z; [ring|rewrite X; ring].
Qed.

Theorem f32_to_f64_nonfinite b : f32_exp b = 255 ->
  (f32_man b = 0 -> f32_to_f64 b = if f32_sign b then F_NEG_INF else F_INF) /\
  (f32_man b <> 0 -> f_is_nan (f32_to_f64 b) = true /\ f_sign (f32_to_f64 b) = f32_sign b).
Proof.
  intros He. destruct (f32_fields b) as [_ HM]. unfold f32_to_f64. rewrite He. change (255 =? 255) with true. cbv iota.
  set (m := f32_man b) in *. set (sg := f32_sign b). split.
  - intros ->. change (0 =? 0) with true. cbv iota. destruct sg; reflexivity.
  - intros Hm. apply N.eqb_neq in Hm. rewrite Hm.
    set (L := N.lor (m * 536870912) 2251799813685248).
    assert (HL : L < two52).
    { change two52 with (2 ^ 52). apply lor_bound; [|reflexivity]. change (2 ^ 52) with two52. unfold two52, two23 in *. lia. }
    assert (HL0 : L <> 0).
    { intros H0. unfold L in H0. apply N.lor_eq_0_iff in H0. destruct H0 as [_ H0]. discriminate H0. }
    assert (HA : 2047 < 2048) by lia.
    destruct (f_fields sg 2047 L HA HL) as (F1 & F2 & F3).
    unfold f_is_nan. rewrite F1, F2, F3. apply N.eqb_neq in HL0. rewrite HL0. split; reflexivity.
Qed.

Example f32_to_f64_examples :
  f32_to_f64 1036831949 = 4591870180174331904 /\      (* 0.1f32 = 0x3DCCCCCD -> 0x3FB99999A0000000 *)
  f32_to_f64 1 = 3936146074321813504 /\               (* the least subnormal 2^-149 -> 0x36A0000000000000 *)
  f32_to_f64 8388607 = 4039728864677593088 /\         (* the greatest subnormal 0x007FFFFF -> 0x380FFFFFC0000000 *)
  f32_to_f64 4286578688 = F_NEG_INF /\ f32_to_f64 2143289344 = F_NAN /\ f32_to_f64 2147483648 = 9223372036854775808.
Proof. vm_compute. repeat split. Qed.

(* ================================================================================================================ *)
(* the Encoder only appends, WITHOUT any size hypothesis: reserve_jentries appends, encode_value appends, and every
   replace_jentry patches an index at or behind the position where the call started.  So Value::write_to_vec and
   LazyValue::write_to_vec keep the caller's bytes for every value (the layout theorem write_to_vec_spec needs wf_size). *)

Lemma patch_frame pre : forall b i w, patch (pre ++ b) (length pre + i) w = pre ++ patch b i w.
Proof. induction pre as [|p pre IH]; intros b i w; cbn [app length patch Nat.add]; [reflexivity|]. f_equal. apply IH. Qed.

Definition framed (v : value) : Prop :=
  forall pre b, encode_value (pre ++ b) v = (pre ++ fst (encode_value b v), snd (encode_value b v)).

Lemma enc_values_frame (l : list value) : Forall framed l -> forall pre b i acc,
  enc_values encode_value (pre ++ b) (length pre + i) acc l
  = (pre ++ fst (fst (enc_values encode_value b i acc l)), (length pre + snd (fst (enc_values encode_value b i acc l)))%nat,
     snd (enc_values encode_value b i acc l)).
Proof.
  induction l as [|x r IH]; intros HF pre b i acc; [reflexivity|].
  inversion HF as [|? ? Hx Hr]; subst. cbn [enc_values]. rewrite (Hx pre b).
  destruct (encode_value b x) as [b1 j]. cbn [fst snd]. unfold replace_jentry.
  rewrite patch_frame. replace (length pre + i + 4)%nat with (length pre + (i + 4))%nat by lia.
  apply IH. exact Hr.
Qed.
Lemma enc_members_frame (o : list (list N * value)) : Forall (fun kv => framed (snd kv)) o -> forall pre b i acc,
  enc_members encode_value (pre ++ b) (length pre + i) acc o
  = (pre ++ fst (fst (enc_members encode_value b i acc o)), (length pre + snd (fst (enc_members encode_value b i acc o)))%nat,
     snd (enc_members encode_value b i acc o)).
Proof.
  induction o as [|[k x] r IH]; intros HF pre b i acc; [reflexivity|].
  inversion HF as [|? ? Hx Hr]; subst. cbn [snd] in Hx. cbn [enc_members]. rewrite (Hx pre b).
  destruct (encode_value b x) as [b1 j]. cbn [fst snd]. unfold replace_jentry.
  rewrite patch_frame. replace (length pre + i + 4)%nat with (length pre + (i + 4))%nat by lia.
  apply IH. exact Hr.
Qed.
Lemma enc_keys_frame (o : list (list N * value)) : forall pre b i acc,
  enc_keys (pre ++ b) (length pre + i) acc o
  = (pre ++ fst (fst (enc_keys b i acc o)), (length pre + snd (fst (enc_keys b i acc o)))%nat, snd (enc_keys b i acc o)).
Proof.
  induction o as [|[k x] r IH]; intros pre b i acc; [reflexivity|].
  cbn [enc_keys]. unfold replace_jentry. rewrite <- app_assoc.
  rewrite patch_frame. replace (length pre + i + 4)%nat with (length pre + (i + 4))%nat by lia.
  apply IH.
Qed.

Theorem encode_value_framed : forall v, framed v.
Proof.
  induction v as [|b0|s|n|l IH|o IH] using value_ind2; intros pre b.
  - reflexivity.
  - destruct b0; reflexivity.
  - cbn [encode_value fst snd]. rewrite app_assoc. reflexivity.
  - cbn [encode_value fst snd]. rewrite app_assoc. reflexivity.
  - cbn [encode_value]. unfold reserve_jentries.
    set (h := be32 (header_word ARRAY_CONTAINER_TAG (lenN l))). set (n := (length l * 4)%nat).
    set (B := (b ++ h) ++ repeat 0 n). set (I := length (b ++ h)).
    replace (((pre ++ b) ++ h) ++ repeat 0 n) with (pre ++ B) by (unfold B; rewrite <- !app_assoc; reflexivity).
    replace (length ((pre ++ b) ++ h)) with (length pre + I)%nat by (unfold I; rewrite !app_length; lia).
    rewrite (enc_values_frame l IH pre B I).
    destruct (enc_values encode_value B I (4 + lenN l * 4) l) as [[b3 i3] len]. reflexivity.
  - cbn [encode_value]. unfold reserve_jentries.
    set (h := be32 (header_word OBJECT_CONTAINER_TAG (lenN o))). set (n := (length o * 8)%nat).
    set (B := (b ++ h) ++ repeat 0 n). set (I := length (b ++ h)).
    replace (((pre ++ b) ++ h) ++ repeat 0 n) with (pre ++ B) by (unfold B; rewrite <- !app_assoc; reflexivity).
    replace (length ((pre ++ b) ++ h)) with (length pre + I)%nat by (unfold I; rewrite !app_length; lia).
    rewrite (enc_keys_frame o pre B I).
    destruct (enc_keys B I (4 + lenN o * 8) o) as [[b3 i3] len]. cbn [fst snd].
    rewrite (enc_members_frame o IH pre b3 i3).
    destruct (enc_members encode_value b3 i3 len o) as [[b4 i4] len']. reflexivity.
Qed.

Theorem write_to_vec_frame v pre b : write_to_vec (pre ++ b) v = pre ++ write_to_vec b v.
Proof.
  unfold write_to_vec.
  destruct v as [|b0|s|n|l|o];
    try (rewrite (encode_value_framed _ pre b); reflexivity).
  all: unfold reserve_jentries; cbv beta iota zeta.
  all: set (h := be32 SCALAR_CONTAINER_TAG).
  all: replace (((pre ++ b) ++ h) ++ repeat 0 4) with (pre ++ ((b ++ h) ++ repeat 0 4)) by (rewrite <- !app_assoc; reflexivity).
  all: replace (length ((pre ++ b) ++ h)) with (length pre + length (b ++ h))%nat by (rewrite !app_length; lia).
  all: rewrite (encode_value_framed _ pre ((b ++ h) ++ repeat 0 4)).
  all: match goal with |- context [encode_value ?B ?V] => destruct (encode_value B V) as [b3 j] end.
  all: cbn [fst snd]; unfold replace_jentry; cbn [fst]; apply patch_frame.
Qed.

Theorem write_to_vec_only_appends v buf : write_to_vec buf v = buf ++ write_to_vec [] v.
Proof. rewrite <- (app_nil_r buf) at 1. apply write_to_vec_frame. Qed.
Theorem lazy_write_to_vec_frame l pre b : lazy_write_to_vec (pre ++ b) l = pre ++ lazy_write_to_vec b l.
Proof. destruct l as [v|bs]; cbn [lazy_write_to_vec]; [apply write_to_vec_frame|rewrite app_assoc; reflexivity]. Qed.
Theorem lazy_write_to_vec_only_appends l buf : lazy_write_to_vec buf l = buf ++ lazy_write_to_vec [] l.
Proof. rewrite <- (app_nil_r buf) at 1. apply lazy_write_to_vec_frame. Qed.
