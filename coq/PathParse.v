(* PathParse.v — model of jsonpath/parser.rs and keypath.rs on top of the few nom 7 combinators they use.
   A parser maps the remaining input to POk rest value | PErr (nom::Err::Error) | PFail (nom::Err::Failure,
   produced only by the `cut` inside nom's float recogniser) | PPanic (a Rust panic). *)
From Coq Require Import List NArith ZArith Bool.
Import ListNotations.
From JB Require Import Constants Bytes Utf8 Num Value Decimal JsonText TreeOps Path.
Open Scope N_scope.

Inductive pres (A : Type) := POk (rest : list N) (a : A) | PErr | PFail | PPanic.
Arguments POk {A} rest a. Arguments PErr {A}. Arguments PFail {A}. Arguments PPanic {A}.

Definition pbind {A B} (p : pres A) (f : list N -> A -> pres B) : pres B :=
  match p with POk r a => f r a | PErr => PErr | PFail => PFail | PPanic => PPanic end.
Notation "'pdo' ( r , x ) <- e ; f" := (pbind e (fun r x => f)) (at level 200, r name, x name, e at level 100, f at level 200).
Definition pmap {A B} (g : A -> B) (p : pres A) : pres B := pbind p (fun r a => POk r (g a)).
(* alt: the next alternative is tried only after a recoverable error *)
Definition palt {A} (p : pres A) (q : unit -> pres A) : pres A := match p with PErr => q tt | other => other end.

(* ---- nom primitives ---- *)
Definition is_space (b : N) : bool := (b =? 32) || (b =? 9) || (b =? 13) || (b =? 10).
Fixpoint multispace0 (bs : list N) : list N :=
  match bs with b :: r => if is_space b then multispace0 r else bs | [] => [] end.
Definition pchar (c : N) (bs : list N) : pres unit :=
  match bs with b :: r => if b =? c then POk r tt else PErr | [] => PErr end.
Fixpoint ptag (lit : list N) (bs : list N) : pres unit :=
  match lit with
  | [] => POk bs tt
  | c :: l => match bs with b :: r => if b =? c then ptag l r else PErr | [] => PErr end
  end.
Fixpoint ptag_no_case (lit : list N) (bs : list N) : pres unit :=
  match lit with
  | [] => POk bs tt
  | c :: l => match bs with b :: r => if ascii_lower b =? ascii_lower c then ptag_no_case l r else PErr | [] => PErr end
  end.

(* character::complete::{i32,i64}: optional sign, at least one digit, checked arithmetic at every step *)
Fixpoint int_digits (neg : bool) (lo hi : Z) (bs : list N) (acc : Z) (any : bool) : pres Z :=
  match bs with
  | b :: r =>
      if is_digit b then
        let d := (Z.of_N b - 48)%Z in
        let acc' := if neg then (acc * 10 - d)%Z else (acc * 10 + d)%Z in
        if ((acc' <? lo) || (hi <? acc'))%Z then PErr else int_digits neg lo hi r acc' true
      else if any then POk bs acc else PErr
  | [] => if any then POk [] acc else PErr
  end.
Definition pint (lo hi : Z) (bs : list N) : pres Z :=
  match bs with
  | c :: r => if c =? 43 then int_digits false lo hi r 0 false
              else if c =? 45 then int_digits true lo hi r 0 false
              else int_digits false lo hi bs 0 false
  | [] => int_digits false lo hi bs 0 false
  end.
Definition pi32 := pint (-2147483648) 2147483647.
Definition pi64 := pint (- two63) (two63 - 1).
Definition pu64 (bs : list N) : pres Z := int_digits false 0 (Z.of_N two64 - 1) bs 0 false.

(* number::complete::recognize_float, then str::parse::<f64> on the recognised text *)
Definition float_parts (bs : list N) : pres (bool * list N * list N * option (bool * list N)) :=
  let '(neg, bs1) := match bs with 43 :: r => (false, r) | 45 :: r => (true, r) | _ => (false, bs) end in
  let '(ids, bs2) := take_digits bs1 [] in
  let mant : pres (list N * list N) :=
    match ids with
    | _ :: _ =>
        match bs2 with
        | 46 :: r => let '(fds, r') := take_digits r [] in POk r' (ids, fds)
        | _ => POk bs2 (ids, [])
        end
    | [] =>
        match bs2 with
        | 46 :: r => let '(fds, r') := take_digits r [] in
                     match fds with [] => PErr | _ => POk r' ([], fds) end
        | _ => PErr
        end
    end in
  pbind mant (fun bs3 m =>
    match bs3 with
    | c :: r =>
        if (c =? 101) || (c =? 69) then
          let '(eneg, r1) := match r with 43 :: r' => (false, r') | 45 :: r' => (true, r') | _ => (false, r) end in
          let '(eds, r2) := take_digits r1 [] in
          match eds with
          | [] => PFail                         (* cut(digit1) *)
          | _ => POk r2 (neg, fst m, snd m, Some (eneg, eds))
          end
        else POk bs3 (neg, fst m, snd m, None)
    | [] => POk [] (neg, fst m, snd m, None)
    end).
Definition float_of_parts (p : bool * list N * list N * option (bool * list N)) : N :=
  let '(neg, ids, fds, ex) := p in
  let m10 := digits_val fds (digits_val ids 0) in
  let e := match ex with Some (eneg, ds) => let x := digits_val ds 0 in if eneg then (- x)%Z else x | None => 0%Z end in
  round_dec neg m10 (e - Z.of_nat (length fds)).
Definition pdouble (bs : list N) : pres N :=
  palt (pmap float_of_parts (float_parts bs)) (fun _ =>
  palt (pmap (fun _ => F_NAN) (ptag_no_case [110; 97; 110] bs)) (fun _ =>
  palt (pmap (fun _ => F_INF) (ptag_no_case [105; 110; 102] bs)) (fun _ =>
        pmap (fun _ => F_INF) (ptag_no_case [105; 110; 102; 105; 110; 105; 116; 121] bs)))).

(* ---- check_escaped / raw_string / string ---- *)
(* skip one escape starting at the backslash; None = check_escaped returned false *)
Definition check_escaped (bs : list N) : option (list N * list N) :=   (* (consumed, rest) *)
  match bs with
  | b0 :: b1 :: r =>
      if b1 =? 117 then
        match r with
        | c2 :: _ :: _ :: _ :: _ =>        (* i + 5 < len *)
            if c2 =? 123 then
              (if (6 <=? length r)%nat then Some (b0 :: b1 :: firstn 6 r, skipn 6 r) else None)
            else Some (b0 :: b1 :: firstn 4 r, skipn 4 r)
        | _ => None
        end
      else Some ([b0; b1], r)
  | _ => None
  end.

Definition is_delim (b : N) : bool := existsb (N.eqb b) RAW_STRING_DELIMS.

(* scanning loop shared by raw_string (stop at a delimiter) and string (stop at the closing quote) *)
Fixpoint scan_name (fuel : nat) (stop : N -> bool) (bs : list N) (acc : list N) (esc : nat)
  : option (list N * nat * list N * bool) :=        (* (data, escapes, rest from the stop byte, stopped) *)
  match fuel with O => None | S f =>
  match bs with
  | [] => Some (rev acc, esc, [], false)
  | c :: r =>
      if c =? 92 then
        match check_escaped bs with
        | None => None
        | Some (consumed, rest) => scan_name f stop rest (rev consumed ++ acc) (S esc)
        end
      else if stop c then Some (rev acc, esc, bs, true)
      else scan_name f stop r (c :: acc) esc
  end end.

Definition res_to_pres {A} (rest : list N) (r : res A) : pres A :=
  match r with Ok a => POk rest a | Err _ => PErr | Panic => PPanic end.

Definition raw_string (bs : list N) : pres (list N) :=
  match scan_name (S (length bs)) is_delim bs [] 0 with
  | None => PErr
  | Some (data, esc, rest, _) =>
      match data with
      | [] => PErr
      | _ => match esc with
             | O => if utf8_valid data then POk rest data else PErr
             | _ => res_to_pres rest (parse_string data)
             end
      end
  end.

(* after the fix: an unterminated literal is an error (was a slice panic) and "" is accepted *)
Definition pstring (bs : list N) : pres (list N) :=
  match bs with
  | 34 :: body =>
      match scan_name (S (length body)) (fun c => c =? 34) body [] 0 with
      | None => PErr
      | Some (data, esc, rest, stopped) =>
          if negb stopped then PErr else
          match esc with
          | O => if utf8_valid data then POk (tl rest) data else PErr
          | _ => res_to_pres (tl rest) (parse_string data)
          end
      end
  | _ => PErr
  end.

(* ---- many0 / separated_list1 with nom's no-progress rules ---- *)
Section Combinators.
  Context {A : Type}.
  Variable f : list N -> pres A.
  Fixpoint many0 (fuel : nat) (bs : list N) (acc : list A) : pres (list A) :=
    match fuel with O => PErr | S k =>
    match f bs with
    | PErr => POk bs (rev acc)
    | PFail => PFail
    | PPanic => PPanic
    | POk r a => if (length r =? length bs)%nat then PErr else many0 k r (a :: acc)
    end end.
  Variable sep : list N -> pres unit.
  Fixpoint sep_loop (fuel : nat) (bs : list N) (acc : list A) : pres (list A) :=
    match fuel with O => PErr | S k =>
    match sep bs with
    | PErr => POk bs (rev acc)
    | PFail => PFail
    | PPanic => PPanic
    | POk r1 _ =>
        if (length r1 =? length bs)%nat then PErr else
        match f r1 with
        | PErr => POk bs (rev acc)
        | PFail => PFail
        | PPanic => PPanic
        | POk r2 a => sep_loop k r2 (a :: acc)
        end
    end end.
  Definition separated_list1 (bs : list N) : pres (list A) :=
    pbind (f bs) (fun r a => sep_loop (S (length r)) r [a]).
End Combinators.

Definition ws_then {A} (p : list N -> pres A) (bs : list N) : pres A := p (multispace0 bs).
(* delimited(multispace0, p, multispace0) *)
Definition ws_around {A} (p : list N -> pres A) (bs : list N) : pres A :=
  pbind (p (multispace0 bs)) (fun r a => POk (multispace0 r) a).

(* ---- jsonpath/parser.rs ---- *)
Definition bracket_wildcard (bs : list N) : pres unit :=
  pdo (r1, _) <- pchar 91 bs;
  pdo (r2, _) <- pchar 42 (multispace0 r1);
  pchar 93 (multispace0 r2).

Definition field_after (c : N) (bs : list N) : pres (list N) :=
  palt (pdo (r, _) <- pchar c bs; pstring r) (fun _ => pdo (r, _) <- pchar c bs; raw_string r).
Definition colon_field := field_after 58.
Definition dot_field := field_after 46.
Definition object_field (bs : list N) : pres (list N) :=
  pdo (r1, _) <- pchar 91 bs;
  pdo (r2, s) <- pstring (multispace0 r1);
  pdo (r3, _) <- pchar 93 (multispace0 r2);
  POk r3 s.

Definition LAST : list N := [108; 97; 115; 116].
(* after the fix: `last - n` reads n as an i64 and the offset is -n if that is an i32 (checked_neg, i32::try_from),
   otherwise this alternative fails; it was an i32 with saturating_neg, which rejected `last-2147483648` *)
Definition saturating_neg (v : Z) : Z := if (v =? -2147483648)%Z then 2147483647%Z else (- v)%Z.
Definition last_minus (v : Z) : option Z :=
  if (v =? - two63)%Z then None
  else if ((-2147483648 <=? - v) && (- v <=? 2147483647))%Z then Some (- v)%Z else None.
Definition pindex (bs : list N) : pres index :=
  palt (pmap IIndex (pi32 bs)) (fun _ =>
  palt (pdo (r1, _) <- ptag_no_case LAST bs;
        pdo (r2, _) <- pchar 45 (multispace0 r1);
        pdo (r3, v) <- pi64 (multispace0 r2);
        match last_minus v with Some n => POk r3 (ILast n) | None => PErr end) (fun _ =>
  palt (pdo (r1, _) <- ptag_no_case LAST bs;
        pdo (r2, _) <- pchar 43 (multispace0 r1);
        pdo (r3, v) <- pi32 (multispace0 r2);
        POk r3 (ILast v)) (fun _ =>
        pmap (fun _ => ILast 0) (ptag_no_case LAST bs)))).
Definition parray_index (bs : list N) : pres array_index :=
  palt (pdo (r1, s) <- pindex bs;
        pdo (r2, _) <- ptag_no_case [116; 111] (multispace0 r1);
        pdo (r3, e) <- pindex (multispace0 r2);
        POk r3 (ASlice s e)) (fun _ =>
        pmap AIndex (pindex bs)).
Definition array_indices (bs : list N) : pres (list array_index) :=
  pdo (r1, _) <- pchar 91 bs;
  pdo (r2, l) <- separated_list1 (ws_around parray_index) (pchar 44) r1;
  pdo (r3, _) <- pchar 93 r2;
  POk r3 l.

Definition inner_path (bs : list N) : pres path :=
  palt (pmap (fun _ => PDotWild) (ptag [46; 42] bs)) (fun _ =>
  palt (pmap (fun _ => PBracketWild) (bracket_wildcard bs)) (fun _ =>
  palt (pmap PColonField (colon_field bs)) (fun _ =>
  palt (pmap PDotField (dot_field bs)) (fun _ =>
  palt (pmap PIndices (array_indices bs)) (fun _ =>
        pmap PObjectField (object_field bs)))))).

Definition pop (bs : list N) : pres binop :=
  palt (pmap (fun _ => OEq) (ptag [61; 61] bs)) (fun _ =>
  palt (pmap (fun _ => ONe) (ptag [33; 61] bs)) (fun _ =>
  palt (pmap (fun _ => ONe) (ptag [60; 62] bs)) (fun _ =>
  palt (pmap (fun _ => OLe) (ptag [60; 61] bs)) (fun _ =>
  palt (pmap (fun _ => OLt) (pchar 60 bs)) (fun _ =>
  palt (pmap (fun _ => OGe) (ptag [62; 61] bs)) (fun _ =>
        pmap (fun _ => OGt) (pchar 62 bs))))))).
Definition punary (bs : list N) : pres uarith :=
  palt (pmap (fun _ => UAdd) (pchar 43 bs)) (fun _ => pmap (fun _ => USub) (pchar 45 bs)).
Definition pbarith (bs : list N) : pres barith :=
  palt (pmap (fun _ => BAdd) (pchar 43 bs)) (fun _ =>
  palt (pmap (fun _ => BSub) (pchar 45 bs)) (fun _ =>
  palt (pmap (fun _ => BMul) (pchar 42 bs)) (fun _ =>
  palt (pmap (fun _ => BDiv) (pchar 47 bs)) (fun _ =>
        pmap (fun _ => BMod) (pchar 37 bs))))).

(* after the fix: an integer literal followed by '.', 'e' or 'E' is left to the float alternative *)
Definition not_float_tail (r : list N) : bool :=
  match r with c :: _ => negb ((c =? 46) || (c =? 101) || (c =? 69)) | [] => true end.
Definition path_value (bs : list N) : pres pvalue :=
  palt (pmap (fun _ => PVNull) (ptag [110; 117; 108; 108] bs)) (fun _ =>
  palt (pmap (fun _ => PVBool true) (ptag [116; 114; 117; 101] bs)) (fun _ =>
  palt (pmap (fun _ => PVBool false) (ptag [102; 97; 108; 115; 101] bs)) (fun _ =>
  palt (pdo (r, v) <- pu64 bs; if not_float_tail r then POk r (PVNum (NUInt (Z.to_N v))) else PErr) (fun _ =>
  palt (pdo (r, v) <- pi64 bs; if not_float_tail r then POk r (PVNum (NInt v)) else PErr) (fun _ =>
  palt (pmap (fun b => PVNum (NFloat b)) (pdouble bs)) (fun _ =>
  (* after the fix: `double` reads `inf` only without a sign; `-inf` (what a literal overflowing to negative infinity
     prints as) is value(Float64(NEG_INFINITY), preceded(char('-'), tag_no_case("inf"))) *)
  palt (pmap (fun _ => PVNum (NFloat F_NEG_INF)) (pdo (r, _) <- pchar 45 bs; ptag_no_case [105; 110; 102] r)) (fun _ =>
        pmap PVStr (pstring bs)))))))).

Definition expr_paths (root_predicate : bool) (bs : list N) : pres (list path) :=
  pdo (r1, pre) <- palt (pmap (fun _ => PRoot) (pchar 36 bs))
                        (fun _ => if root_predicate then PErr else pmap (fun _ => PCurrent) (pchar 64 bs));
  pdo (r2, ps) <- many0 (ws_around inner_path) (S (length r1)) r1 [];
  POk r2 (pre :: ps).
Definition inner_expr (root_predicate : bool) (bs : list N) : pres expr :=
  palt (pmap EPaths (expr_paths root_predicate bs)) (fun _ => pmap EValue (path_value bs)).

Definition fold_bin (op : binop) (l : list expr) : expr :=
  match l with [] => EValue PVNull | x :: r => fold_left (fun acc y => EBin op acc y) r x end.

Section Exprs.
  Variable root_predicate : bool.
  Variable path_rec : list N -> pres path.       (* `path` at smaller fuel, for exists(...) *)
  Variable expr_or_rec : list N -> pres expr.    (* expr_or at smaller fuel, for parentheses *)

  Definition exists_paths (bs : list N) : pres (list path) :=
    pdo (r1, pre) <- palt (pmap (fun _ => PRoot) (pchar 36 bs)) (fun _ => pmap (fun _ => PCurrent) (pchar 64 bs));
    pdo (r2, ps) <- many0 path_rec (S (length r1)) r1 [];
    POk r2 (pre :: ps).
  Definition pexists (bs : list N) : pres expr :=
    pdo (r1, _) <- ptag [101; 120; 105; 115; 116; 115] bs;
    pdo (r2, _) <- pchar 40 (multispace0 r1);
    pdo (r3, ps) <- exists_paths (multispace0 r2);
    pdo (r4, _) <- pchar 41 (multispace0 r3);
    POk r4 (EExists ps).

  (* after the fix the comparison alternative is tried before the unary-arithmetic one *)
  Definition expr_atom (bs : list N) : pres expr :=
    palt (pdo (r1, l) <- ws_around (inner_expr root_predicate) bs;
          pdo (r2, o) <- pbarith r1;
          pdo (r3, r) <- ws_around (inner_expr root_predicate) r2;
          POk r3 (EArithB o l r)) (fun _ =>
    palt (pdo (r1, l) <- ws_around (inner_expr root_predicate) bs;
          pdo (r2, o) <- pop r1;
          pdo (r3, r) <- ws_around (inner_expr root_predicate) r2;
          POk r3 (EBin o l r)) (fun _ =>
    palt (pdo (r1, o) <- punary bs;
          pdo (r2, x) <- ws_around (inner_expr root_predicate) r1;
          POk r2 (EArithU o x)) (fun _ =>
    palt (pdo (r1, _) <- pchar 40 bs;
          pdo (r2, e) <- expr_or_rec (multispace0 r1);
          pdo (r3, _) <- pchar 41 (multispace0 r2);
          POk r3 e) (fun _ =>
          pexists bs)))).
  Definition expr_and (bs : list N) : pres expr :=
    pmap (fold_bin OAnd)
         (separated_list1 expr_atom (fun b => pdo (r, _) <- ptag [38; 38] (multispace0 b); POk (multispace0 r) tt) bs).
  Definition expr_or (bs : list N) : pres expr :=
    pmap (fold_bin OOr)
         (separated_list1 expr_and (fun b => pdo (r, _) <- ptag [124; 124] (multispace0 b); POk (multispace0 r) tt) bs).
End Exprs.

Fixpoint expr_or_fuel (fuel : nat) (root_predicate : bool) (bs : list N) : pres expr :=
  match fuel with O => PErr | S f =>
  expr_or root_predicate (path_fuel f) (expr_or_fuel f root_predicate) bs end
with path_fuel (fuel : nat) (bs : list N) : pres path :=
  match fuel with O => PErr | S f =>
  palt (ws_around inner_path bs) (fun _ =>
        ws_around (fun b =>
          pdo (r1, _) <- pchar 63 b;
          pdo (r2, _) <- pchar 40 (multispace0 r1);
          pdo (r3, e) <- expr_or_fuel f false (multispace0 r2);
          pdo (r4, _) <- pchar 41 (multispace0 r3);
          POk r4 (PFilter e)) bs)
  end.

Definition pre_path (bs : list N) : pres path :=
  palt (pmap (fun _ => PRoot) (pchar 36 bs)) (fun _ => pmap PDotField (ws_around raw_string bs)).

Definition json_path_fuel (fuel : nat) (bs : list N) : pres (list path) :=
  let bs0 := multispace0 bs in
  let body :=
    palt (pmap (fun e => [PPredicate e]) (ws_around (expr_or_fuel fuel true) bs0)) (fun _ =>
          (* paths: opt(pre_path) then many0(path) *)
          let '(pre, r1) := match pre_path bs0 with POk r p => (Some (Ok p), r) | PErr => (None, bs0)
                                              | PFail => (Some (Err EOther), bs0) | PPanic => (Some Panic, bs0) end in
          match pre with
          | Some (Err _) => PFail
          | Some Panic => PPanic
          | _ =>
              pdo (r2, ps) <- many0 (path_fuel fuel) (S (length r1)) r1 [];
              POk r2 (match pre with Some (Ok p) => p :: ps | _ => ps end)
          end) in
  pbind body (fun r ps => POk (multispace0 r) ps).

(* parse_json_path: Ok only when nothing is left over *)
Definition parse_json_path (bs : list N) : res (list path) :=
  match json_path_fuel (S (length bs)) bs with
  | POk [] ps => Ok ps
  | POk _ _ => Err EOther
  | PErr | PFail => Err EOther
  | PPanic => Panic
  end.

(* ---- keypath.rs ---- *)
Definition key_path (bs : list N) : pres keypath :=
  palt (pmap KIndex (pi32 bs)) (fun _ =>
  palt (pmap KQuoted (pstring bs)) (fun _ =>
        (* after the fix: a plain name does not start with a digit *)
        match bs with
        | c :: _ => if is_digit c then PErr else pmap KName (raw_string bs)
        | [] => pmap KName (raw_string bs)
        end)).
Definition key_paths (bs : list N) : pres (list keypath) :=
  palt (pdo (r1, _) <- pchar 123 (multispace0 bs);
        pdo (r2, l) <- separated_list1 (ws_around key_path) (pchar 44) r1;
        pdo (r3, _) <- pchar 125 r2;
        POk (multispace0 r3) l) (fun _ =>
        pdo (r1, _) <- pchar 123 (multispace0 bs);
        pdo (r2, _) <- pchar 125 (multispace0 r1);
        POk (multispace0 r2) []).
Definition parse_key_paths (bs : list N) : res (list keypath) :=
  match key_paths bs with
  | POk [] ks => Ok ks
  | POk _ _ => Err EOther
  | PErr | PFail => Err EOther
  | PPanic => Panic
  end.
