(* DecodeMore.v — the two remaining sentences of C10.
   A1  every proper prefix of a valid encoding is rejected with an error, by parse_jsonb and by from_slice
       (the text fallback fails on such a prefix too);
   A2  bytes that are valid JSON text are never accepted by the binary decoder, so from_slice hands them to the text
       parser and returns the value the text denotes (for inputs below 3.6 GB; the hypothesis "does not begin with a
       space" of the property text turns out not to be needed after fix df4d8c4). *)
From Coq Require Import List NArith ZArith Bool Lia ZifyBool ZifyNat ZifyN.
Import ListNotations.
From JB Require Import Constants Bytes Utf8 Num NumProofs Value Codec JsonText Dispatch CodecProofs DecodeProofs
  RoundtripProofs TextProofs MiscProofs.
Open Scope N_scope.
Set Default Timeout 120.

Arguments N.lor : simpl never.
Arguments N.land : simpl never.
Arguments N.eqb : simpl never.
Arguments N.ltb : simpl never.
Arguments N.leb : simpl never.
Arguments N.mul : simpl never.
Arguments N.add : simpl never.
Arguments N.sub : simpl never.
Arguments be32 : simpl never.
Arguments rd32 : simpl never.
Arguments u32 : simpl never.

Definition proper_prefix {A} (p b : list A) : Prop := exists x, x <> [] /\ b = p ++ x.

(* ------------------------------------------------------------------------------------------------ *)
(* monotonicity: a decode that succeeds on a buffer succeeds identically on every extension of it    *)
Lemma rd32_mono p w r x : rd32 p = Some (w, r) -> rd32 (p ++ x) = Some (w, r ++ x).
Proof.
  unfold rd32. destruct p as [|a [|b [|c [|d rest]]]]; try discriminate. intros H. inversion H; subst. reflexivity.
Qed.

Lemma rd_jentries_mono n : forall p ws r x, rd_jentries n p = Some (ws, r) -> rd_jentries n (p ++ x) = Some (ws, r ++ x).
Proof.
  induction n as [|n IH]; intros p ws r x H; cbn [rd_jentries] in *.
  - inversion H; subst. reflexivity.
  - destruct (rd32 p) as [[w rest]|] eqn:E; [|discriminate]. rewrite (rd32_mono _ _ _ x E).
    destruct (rd_jentries n rest) as [[ws' r']|] eqn:E2; [|discriminate]. rewrite (IH _ _ _ x E2).
    inversion H; subst. reflexivity.
Qed.

Lemma take_mono len p s r x : take len p = Some (s, r) -> take len (p ++ x) = Some (s, r ++ x).
Proof.
  unfold take. destruct (len <=? lenN p) eqn:E; [|discriminate]. intros H. inversion H; subst.
  apply N.leb_le in E. rewrite lenN_app. replace (len <=? lenN p + lenN x) with true by (symmetry; apply N.leb_le; lia).
  assert (L : (N.to_nat len <= length p)%nat) by (unfold lenN in E; lia).
  rewrite firstn_app, skipn_app. replace (N.to_nat len - length p)%nat with 0%nat by lia.
  cbn [firstn skipn]. rewrite app_nil_r. reflexivity.
Qed.

Section Mono.
  Context {A : Type} (f f' : N -> list N -> res (A * list N)).
  Hypothesis Hf : forall w p v r x, f w p = Ok (v, r) -> f' w (p ++ x) = Ok (v, r ++ x).
  Lemma dec_list_mono jes : forall p vs r x, dec_list f jes p = Ok (vs, r) -> dec_list f' jes (p ++ x) = Ok (vs, r ++ x).
  Proof.
    induction jes as [|j jes IH]; intros p vs r x H; cbn [dec_list] in *.
    - inversion H; subst. reflexivity.
    - destruct (f j p) as [[v p']| |] eqn:E; cbn [bind] in H; try discriminate.
      rewrite (Hf _ _ _ _ x E). cbn [bind].
      destruct (dec_list f jes p') as [[vs' p'']| |] eqn:E2; cbn [bind] in H; try discriminate.
      rewrite (IH _ _ _ x E2). cbn [bind]. inversion H; subst. reflexivity.
  Qed.
End Mono.

Lemma dec_members_mono (f f' : N -> list N -> res (value * list N)) :
  (forall w p v r x, f w p = Ok (v, r) -> f' w (p ++ x) = Ok (v, r ++ x)) ->
  forall keys jes p acc ms r x, dec_members f keys jes p acc = Ok (ms, r) -> dec_members f' keys jes (p ++ x) acc = Ok (ms, r ++ x).
Proof.
  intros Hf. induction keys as [|k keys IH]; intros jes p acc ms r x H; cbn [dec_members] in *.
  - inversion H; subst. reflexivity.
  - destruct jes as [|j jes]; [discriminate|]. destruct k; try discriminate.
    destruct (f j p) as [[v p']| |] eqn:E; cbn [bind] in H; try discriminate.
    rewrite (Hf _ _ _ _ x E). cbn [bind]. apply IH. exact H.
Qed.

Definition mono_s (fuel fuel' : nat) : Prop :=
  forall w p v r x, decode_scalar fuel w p = Ok (v, r) -> decode_scalar fuel' w (p ++ x) = Ok (v, r ++ x).
Definition mono_j (fuel fuel' : nat) : Prop :=
  forall p v r x, decode_jsonb fuel p = Ok (v, r) -> decode_jsonb fuel' (p ++ x) = Ok (v, r ++ x).

Lemma mono_scalar_step fuel fuel' : mono_j fuel fuel' -> mono_s (S fuel) (S fuel').
Proof.
  intros IHj w p v r x. cbn [decode_scalar].
  destruct (je_type w =? NULL_TAG); [intros H; inversion H; subst; reflexivity|].
  destruct (je_type w =? TRUE_TAG); [intros H; inversion H; subst; reflexivity|].
  destruct (je_type w =? FALSE_TAG); [intros H; inversion H; subst; reflexivity|].
  destruct (je_type w =? STRING_TAG).
  { destruct (take (je_len w) p) as [[s rest]|] eqn:E; [|discriminate]. rewrite (take_mono _ _ _ _ x E).
    destruct (utf8_valid s); [|discriminate]. intros H; inversion H; subst. reflexivity. }
  destruct (je_type w =? NUMBER_TAG).
  { destruct (take (je_len w) p) as [[s rest]|] eqn:E; [|discriminate]. rewrite (take_mono _ _ _ _ x E).
    destruct (num_decode s); cbn [bind]; try discriminate. intros H; inversion H; subst. reflexivity. }
  destruct (je_type w =? CONTAINER_TAG); [|discriminate]. apply IHj.
Qed.

Lemma mono_jsonb_step fuel fuel' : mono_s fuel fuel' -> mono_j (S fuel) (S fuel').
Proof.
  intros IHs p v r x. cbn [decode_jsonb].
  destruct (rd32 p) as [[hdr rest]|] eqn:E; [|discriminate]. rewrite (rd32_mono _ _ _ x E).
  destruct (hdr_type hdr =? SCALAR_CONTAINER_TAG).
  { destruct (negb (hdr =? SCALAR_CONTAINER_TAG)); [discriminate|].
    destruct (rd32 rest) as [[w rest']|] eqn:E2; [|discriminate]. rewrite (rd32_mono _ _ _ x E2). apply IHs. }
  destruct (hdr_type hdr =? ARRAY_CONTAINER_TAG).
  { destruct (lenN rest <? 4 * hdr_len hdr) eqn:L; [discriminate|].
    replace (lenN (rest ++ x) <? 4 * hdr_len hdr) with false by (symmetry; rewrite lenN_app; apply N.ltb_ge; apply N.ltb_ge in L; lia).
    destruct (rd_jentries (N.to_nat (hdr_len hdr)) rest) as [[jes rest']|] eqn:EJ; [|discriminate].
    rewrite (rd_jentries_mono _ _ _ _ x EJ).
    destruct (dec_list (decode_scalar fuel) jes rest') as [[vs r0]| |] eqn:ED; cbn [bind]; try discriminate.
    rewrite (dec_list_mono _ _ IHs _ _ _ _ x ED). cbn [bind]. intros H; inversion H; subst. reflexivity. }
  destruct (hdr_type hdr =? OBJECT_CONTAINER_TAG); [|discriminate].
  destruct (lenN rest <? 8 * hdr_len hdr) eqn:L; [discriminate|].
  replace (lenN (rest ++ x) <? 8 * hdr_len hdr) with false by (symmetry; rewrite lenN_app; apply N.ltb_ge; apply N.ltb_ge in L; lia).
  destruct (rd_jentries (2 * N.to_nat (hdr_len hdr)) rest) as [[jes rest']|] eqn:EJ; [|discriminate].
  rewrite (rd_jentries_mono _ _ _ _ x EJ).
  destruct (dec_list (decode_scalar fuel) (firstn (N.to_nat (hdr_len hdr)) jes) rest') as [[keys r0]| |] eqn:ED; cbn [bind]; try discriminate.
  rewrite (dec_list_mono _ _ IHs _ _ _ _ x ED). cbn [bind].
  destruct (dec_members (decode_scalar fuel) keys (skipn (N.to_nat (hdr_len hdr)) jes) r0 []) as [[ms r1]| |] eqn:EM; cbn [bind]; try discriminate.
  rewrite (dec_members_mono _ _ IHs _ _ _ _ _ _ x EM). cbn [bind]. intros H; inversion H; subst. reflexivity.
Qed.

(* more fuel and more input never change a successful decode *)
Theorem decode_mono fuel : forall fuel', (fuel <= fuel')%nat -> mono_s fuel fuel' /\ mono_j fuel fuel'.
Proof.
  induction fuel as [|fuel IH]; intros fuel' Hle.
  - split; intros until x; cbn [decode_scalar decode_jsonb]; discriminate.
  - destruct fuel' as [|fuel']; [lia|]. destruct (IH fuel' ltac:(lia)) as [IHs IHj].
    split; [apply mono_scalar_step; exact IHj|apply mono_jsonb_step; exact IHs].
Qed.

(* ------------------------------------------------------------------------------------------------ *)
(* exact consumption: the cursor decoder, on a valid encoding followed by anything, stops exactly at its end *)
Theorem decode_jsonb_enc v rest : wfb v = true ->
  decode_jsonb (S (length (enc v))) (enc v ++ rest) = Ok (normalise v, rest).
Proof.
  intros Hwf. assert (Hsz : wf_size v = true) by (unfold wfb in Hwf; apply andb_true_iff in Hwf; apply Hwf).
  destruct (is_container v) eqn:Hc.
  - assert (E : enc v = payload v) by (destruct v; try discriminate Hc; reflexivity). rewrite E.
    pose proof (decode_entry v Hwf (S (S (length (payload v))))) as D.
    assert (Hf : (2 * depth v <= S (S (length (payload v))))%nat) by (pose proof (depth_bound v); lia).
    specialize (D Hf rest). rewrite (container_entry v _ rest Hc Hsz) in D. exact D.
  - assert (E : enc v = be32 SCALAR_CONTAINER_TAG ++ be32 (word v) ++ payload v) by (destruct v; try discriminate Hc; reflexivity).
    rewrite E. cbn [decode_jsonb]. rewrite <- !app_assoc. rewrite rd32_be32 by (vm_compute; reflexivity).
    change (hdr_type SCALAR_CONTAINER_TAG =? SCALAR_CONTAINER_TAG) with true. cbv iota.
    change (negb (SCALAR_CONTAINER_TAG =? SCALAR_CONTAINER_TAG)) with false. cbv iota.
    rewrite rd32_be32 by (apply word_bound; exact Hsz).
    apply (decode_entry v Hwf). rewrite !app_length, !be32_len. destruct v; try discriminate Hc; cbn [depth]; lia.
Qed.

(* ------------------------------------------------------------------------------------------------ *)
(* A1, binary decoder *)
Theorem parse_jsonb_prefix_rejected v p : wfb v = true -> proper_prefix p (enc v) -> exists e, parse_jsonb p = Err e.
Proof.
  intros Hwf (x & Hx & E).
  destruct (parse_jsonb p) as [d|e|] eqn:P; [|exists e; reflexivity|exfalso; exact (parse_jsonb_total p P)].
  exfalso. unfold parse_jsonb in P. destruct (lenN p <? 4); [discriminate|].
  destruct (decode_jsonb (S (length p)) p) as [[d' r]| |] eqn:D; cbn [bind] in P; try discriminate.
  assert (Hle : (S (length p) <= S (length (enc v)))%nat) by (rewrite E, app_length; lia).
  destruct (decode_mono _ _ Hle) as [_ M]. specialize (M p d' r x D). rewrite <- E in M.
  pose proof (decode_jsonb_enc v [] Hwf) as X. rewrite app_nil_r in X. rewrite X in M.
  inversion M as [[Hd Hr]]. symmetry in Hr. apply app_eq_nil in Hr. destruct Hr as [_ Hr]. exact (Hx Hr).
Qed.

(* ------------------------------------------------------------------------------------------------ *)
(* the text parser on first bytes *)
(* the bytes a text accepted by parse_value can begin with: the skipped bytes (white space, backslash of the
   two/four-character white-space forms) and the first byte of a value *)
Definition text_start (c : N) : bool :=
  is_ws c || (c =? 92) || (c =? 110) || (c =? 116) || (c =? 102) || is_digit c || (c =? 45) || (c =? 34) || (c =? 91) || (c =? 123).

Lemma parse_value_nil : parse_value [] = Err EOther.
Proof. reflexivity. Qed.

Lemma parse_value_first c r : text_start c = false -> parse_value (c :: r) = Err EOther.
Proof.
  unfold text_start. intros H.
  destruct (is_ws c) eqn:W; [discriminate H|]. cbn [orb] in H.
  destruct (c =? 92) eqn:E1; [discriminate H|]. cbn [orb] in H.
  destruct (c =? 110) eqn:E2; [discriminate H|]. cbn [orb] in H.
  destruct (c =? 116) eqn:E3; [discriminate H|]. cbn [orb] in H.
  destruct (c =? 102) eqn:E4; [discriminate H|]. cbn [orb] in H.
  destruct (is_digit c) eqn:E5; [discriminate H|]. cbn [orb] in H.
  destruct (c =? 45) eqn:E6; [discriminate H|]. cbn [orb] in H.
  destruct (c =? 34) eqn:E7; [discriminate H|]. cbn [orb] in H.
  destruct (c =? 91) eqn:E8; [discriminate H|]. cbn [orb] in H.
  unfold parse_value. cbn [parse_json_value]. unfold skip_unused. cbn [length skip_unused_fuel].
  rewrite W, E1, E2, E3, E4, E5, E6, E7, E8, H. reflexivity.
Qed.

Lemma parse_value_space_only : parse_value [32] = Err EOther.
Proof. vm_compute. reflexivity. Qed.

(* a space followed by a NUL byte: what every prefix (of two bytes or more) of a scalar document looks like *)
Lemma parse_value_space_nul r : parse_value (32 :: 0 :: r) = Err EOther.
Proof.
  unfold parse_value. cbn [parse_json_value]. unfold skip_unused. cbn [length skip_unused_fuel].
  change (is_ws 32) with true. change (is_ws 0) with false. change (0 =? 92) with false. cbv iota.
  change (0 =? 110) with false. change (0 =? 116) with false. change (0 =? 102) with false.
  change (is_digit 0) with false. change (0 =? 45) with false. change (0 =? 34) with false.
  change (0 =? 91) with false. change (0 =? 123) with false. reflexivity.
Qed.

(* ------------------------------------------------------------------------------------------------ *)
(* the first bytes of an encoding *)
Lemma lor_disjoint_add m k n : n < 2 ^ k -> N.lor (N.shiftl m k) n = N.shiftl m k + n.
Proof.
  intros H. rewrite N.add_nocarry_lxor, N.lxor_lor; try reflexivity; rewrite N.land_comm; apply land_low_high; exact H.
Qed.

Ltac Zify.zify_post_hook ::= Z.div_mod_to_equations.
Lemma first_byte_arr n : n < 536870912 -> text_start (((2147483648 + n) / 16777216) mod 256) = false.
Proof.
  intros H. assert (R : 128 <= ((2147483648 + n) / 16777216) mod 256 <= 159) by lia.
  revert R. generalize (((2147483648 + n) / 16777216) mod 256). intros c R. unfold text_start, is_ws, is_digit. lia.
Qed.
Lemma first_byte_obj n : n < 33554432 -> text_start (((1073741824 + n) / 16777216) mod 256) = false.
Proof.
  intros H. assert (R : 64 <= ((1073741824 + n) / 16777216) mod 256 <= 65) by lia.
  revert R. generalize (((1073741824 + n) / 16777216) mod 256). intros c R. unfold text_start, is_ws, is_digit. lia.
Qed.
Ltac Zify.zify_post_hook ::= idtac.

Lemma obj_count_small o : wf_size (VObj o) = true -> lenN o < 33554432.
Proof.
  intros H. pose proof (payload_small _ H) as P. unfold payload in P. cbn [enc_item snd] in P.
  rewrite !lenN_app, lenN_be32, !len_flat_be32, lenN_map in P. lia.
Qed.

(* an encoding starts with a byte no JSON text starts with, or with the two bytes space, NUL *)
Lemma enc_first v : wfb v = true ->
  exists c tl, enc v = c :: tl /\ ((c = 32 /\ exists tl', tl = 0 :: tl') \/ text_start c = false).
Proof.
  intros Hwf. assert (Hsz : wf_size v = true) by (unfold wfb in Hwf; apply andb_true_iff in Hwf; apply Hwf).
  destruct v as [|b|s|n|l|o];
    try (eexists; eexists; split; [unfold enc; change (be32 SCALAR_CONTAINER_TAG) with [32; 0; 0; 0]; cbn [app]; reflexivity|];
         left; split; [reflexivity|eexists; reflexivity]).
  - destruct (wf_arr l Hwf) as [_ Hcnt]. unfold enc. cbn [enc_item snd].
    rewrite (header_word_small _ _ Hcnt). change ARRAY_CONTAINER_TAG with (N.shiftl 4 29).
    rewrite lor_disjoint_add by exact Hcnt. change (N.shiftl 4 29) with 2147483648.
    unfold be32 at 1. cbn [app]. eexists; eexists; split; [reflexivity|]. right. apply first_byte_arr. exact Hcnt.
  - destruct (wf_obj o Hwf) as (_ & Hcnt & _). pose proof (obj_count_small o Hsz) as Hsm. unfold enc. cbn [enc_item snd].
    rewrite (header_word_small _ _ Hcnt). change OBJECT_CONTAINER_TAG with (N.shiftl 2 29).
    rewrite lor_disjoint_add by exact Hcnt. change (N.shiftl 2 29) with 1073741824.
    unfold be32 at 1. cbn [app]. eexists; eexists; split; [reflexivity|]. right. apply first_byte_obj. exact Hsm.
Qed.

(* A1, text fallback: no prefix of an encoding (proper or not) is JSON text *)
Theorem parse_value_prefix_rejected v p x : wfb v = true -> enc v = p ++ x -> parse_value p = Err EOther.
Proof.
  intros Hwf E. destruct (enc_first v Hwf) as (c & tl & Ev & Hc). rewrite Ev in E.
  destruct p as [|c' p]; [apply parse_value_nil|]. cbn [app] in E. inversion E as [[Hcc Htl]]. subst c'.
  destruct Hc as [[-> (tl' & ->)]|Hc]; [|apply parse_value_first; exact Hc].
  destruct p as [|c2 p]; [apply parse_value_space_only|]. cbn [app] in Htl. inversion Htl; subst.
  apply parse_value_space_nul.
Qed.

Theorem from_slice_prefix_rejected v p : wfb v = true -> proper_prefix p (enc v) -> exists e, from_slice p = Err e.
Proof.
  intros Hwf Hp. destruct (parse_jsonb_prefix_rejected v p Hwf Hp) as [e He]. destruct Hp as (x & _ & E).
  unfold from_slice. rewrite He. exists EOther. eapply parse_value_prefix_rejected; eauto.
Qed.

(* ------------------------------------------------------------------------------------------------ *)
(* A2: JSON text is never accepted by the binary decoder *)
(* how the header word splits: the top three bits are the type, the low 29 bits the count *)
Lemma hdr_split hdr : hdr < 4294967296 -> hdr_len hdr = hdr mod 536870912 /\ hdr_type hdr + hdr_len hdr = hdr.
Proof.
  intros H. assert (L : hdr_len hdr = hdr mod 536870912).
  { unfold hdr_len. change CONTAINER_HEADER_LEN_MASK with (N.ones 29). rewrite N.land_ones. reflexivity. }
  split; [exact L|].
  assert (E : hdr = N.land hdr (N.lor CONTAINER_HEADER_TYPE_MASK CONTAINER_HEADER_LEN_MASK)).
  { change (N.lor CONTAINER_HEADER_TYPE_MASK CONTAINER_HEADER_LEN_MASK) with (N.ones 32).
    rewrite N.land_ones. symmetry. apply N.mod_small. exact H. }
  rewrite N.land_lor_distr_r in E. fold (hdr_type hdr) in E. fold (hdr_len hdr) in E.
  rewrite N.add_nocarry_lxor, N.lxor_lor; [symmetry; exact E| |].
  all: rewrite N.land_comm; unfold hdr_type; change CONTAINER_HEADER_TYPE_MASK with (N.shiftl 7 29);
    rewrite (N.land_comm hdr), N.land_assoc, (land_low_high (hdr_len hdr) 29 7); [reflexivity|];
    rewrite L; apply N.mod_lt; discriminate.
Qed.

Lemma text_start_of_ok c r v : parse_value (c :: r) = Ok v -> text_start c = true.
Proof. intros H. destruct (text_start c) eqn:E; [reflexivity|]. rewrite (parse_value_first c r E) in H. discriminate. Qed.

Ltac Zify.zify_post_hook ::= Z.div_mod_to_equations.
Lemma first_word_cases a b c d hdr : a < 256 -> b < 256 -> c < 256 -> d < 256 ->
  hdr = a * 16777216 + b * 65536 + c * 256 + d ->
  hdr < 4294967296 /\
  (hdr = 536870912 -> a = 32 /\ b = 0 /\ c = 0 /\ d = 0) /\
  (hdr - hdr mod 536870912 = 2147483648 -> 128 <= a) /\
  (hdr - hdr mod 536870912 = 1073741824 -> 64 <= a < 96 /\ (a - 64) * 16777216 <= hdr mod 536870912).
Proof. intros. lia. Qed.
Ltac Zify.zify_post_hook ::= idtac.

Lemma text_start_high a : text_start a = true -> a < 128.
Proof. unfold text_start, is_ws, is_digit. lia. Qed.
Lemma text_start_mid a : text_start a = true -> 64 <= a < 96 -> a = 91 \/ a = 92.
Proof. unfold text_start, is_ws, is_digit. lia. Qed.

(* 3623878660 = 4 + 8 * 27 * 2^24: the first byte '[' (0x5B), read as an object header, announces at least 27 * 2^24 members,
   whose 8-byte entry pairs alone would need 3.6 GB after the header word.  The count check of decode_object
   (lenN rest <? 8 * hdr_len hdr, the decode_jentries read failing at the end of input) rejects every shorter input. *)
Definition TEXT_MISREAD_BOUND : N := 3623878660.

Theorem text_rejected_by_binary t v : bytes_ok t -> lenN t < TEXT_MISREAD_BOUND -> parse_value t = Ok v ->
  exists e, parse_jsonb t = Err e.
Proof.
  unfold TEXT_MISREAD_BOUND. intros Hb Hlen Hv.
  destruct (parse_jsonb t) as [x|e|] eqn:P; [|exists e; reflexivity|exfalso; exact (parse_jsonb_total t P)].
  exfalso. unfold parse_jsonb in P. destruct (lenN t <? 4); [discriminate|].
  destruct (decode_jsonb (S (length t)) t) as [[x' r]| |] eqn:D; cbn [bind] in P; try discriminate. clear P.
  cbn [decode_jsonb] in D. unfold rd32 in D.
  destruct t as [|a [|b [|c [|d rest]]]]; try discriminate D.
  unfold bytes_ok in Hb. inversion Hb as [|? ? Ha Hb1]; subst. inversion Hb1 as [|? ? Hb' Hb2]; subst.
  inversion Hb2 as [|? ? Hc Hb3]; subst. inversion Hb3 as [|? ? Hd _]; subst.
  pose proof (text_start_of_ok _ _ _ Hv) as Hs.
  remember (a * 16777216 + b * 65536 + c * 256 + d) as hdr eqn:Ehdr.
  destruct (first_word_cases a b c d hdr Ha Hb' Hc Hd Ehdr) as (Hw & Cs & Ca & Co).
  destruct (hdr_split hdr Hw) as [HL HT].
  destruct (hdr_type hdr =? SCALAR_CONTAINER_TAG) eqn:T1.
  { destruct (hdr =? SCALAR_CONTAINER_TAG) eqn:T1'; cbn [negb] in D; [|discriminate D].
    apply N.eqb_eq in T1'. unfold SCALAR_CONTAINER_TAG in T1'. destruct (Cs T1') as (-> & -> & -> & ->).
    rewrite parse_value_space_nul in Hv. discriminate Hv. }
  destruct (hdr_type hdr =? ARRAY_CONTAINER_TAG) eqn:T2.
  { apply N.eqb_eq in T2. unfold ARRAY_CONTAINER_TAG in T2. pose proof (text_start_high a Hs).
    assert (128 <= a) by (apply Ca; lia). lia. }
  destruct (hdr_type hdr =? OBJECT_CONTAINER_TAG) eqn:T3; [|discriminate D].
  apply N.eqb_eq in T3. unfold OBJECT_CONTAINER_TAG in T3.
  destruct Co as [Hr Hcnt]; [lia|]. destruct (text_start_mid a Hs Hr) as [->| ->].
  - destruct (lenN rest <? 8 * hdr_len hdr) eqn:L; [discriminate D|]. apply N.ltb_ge in L.
    unfold lenN in Hlen, L. cbn [length] in Hlen. lia.
  - destruct (lenN rest <? 8 * hdr_len hdr) eqn:L; [discriminate D|]. apply N.ltb_ge in L.
    unfold lenN in Hlen, L. cbn [length] in Hlen. lia.
Qed.

(* ... so from_slice decodes it by the text fallback, to the value the text denotes *)
Theorem from_slice_text t v : bytes_ok t -> lenN t < TEXT_MISREAD_BOUND -> parse_value t = Ok v -> from_slice t = Ok v.
Proof.
  intros Hb Hlen Hv. destruct (text_rejected_by_binary t v Hb Hlen Hv) as [e He]. unfold from_slice. rewrite He. exact Hv.
Qed.

(* the form asked for by the property text ("not beginning with a space", any input below 2 GiB) *)
Corollary from_slice_text_no_space t v : bytes_ok t -> (forall r, t <> 32 :: r) -> lenN t < 2147483648 ->
  parse_value t = Ok v -> from_slice t = Ok v.
Proof. intros Hb _ Hlen Hv. apply from_slice_text; auto. unfold TEXT_MISREAD_BOUND. lia. Qed.

(* ---- non-vacuity ---- *)
Definition sample_doc : value :=
  VObj [([97], VArr [VNum (NUInt 1); VStr [120; 121]; VNull]); ([98], VObj [([107], VBool true)])].
Example prefixes_example :
  wfb sample_doc = true /\ length (enc sample_doc) = 55%nat /\
  forallb (fun k => match parse_jsonb (firstn k (enc sample_doc)), from_slice (firstn k (enc sample_doc)) with
                    | Err _, Err _ => true | _, _ => false end) (seq 0 55) = true /\
  from_slice (enc sample_doc) = Ok sample_doc.
Proof. vm_compute. repeat split; reflexivity. Qed.
(* the texts  [1]  and  \n[1]  (backslash, n: the escaped white space the parser skips) begin with bytes that carry the
   object-header bits; a tab-initial and a space-initial text *)
Example text_example :
  from_slice [91; 49; 93] = Ok (VArr [VNum (NUInt 1)]) /\
  from_slice [91; 49; 44; 50; 44; 51; 44; 52; 44; 53; 44; 54; 44; 55; 44; 56; 44; 57; 93] = Ok (VArr (map (fun n => VNum (NUInt n)) [1; 2; 3; 4; 5; 6; 7; 8; 9])) /\
  from_slice [92; 110; 91; 49; 93; 32; 32; 32; 32; 32] = Ok (VArr [VNum (NUInt 1)]) /\
  from_slice [9; 110; 117; 108; 108] = Ok VNull /\
  from_slice [32; 34; 97; 98; 99; 34] = Ok (VStr [97; 98; 99]).
Proof. vm_compute. repeat split; reflexivity. Qed.
