(* RenderWalkProofs.v — the offset-faithful renderer of RenderWalk.v prints, on the encoding of a well-formed value,
   exactly the text the tree renderer of Render.v gives for the decoded tree (C03): no error, no panic. *)
From Coq Require Import List NArith ZArith Bool Lia.
Import ListNotations.
From JB Require Import Constants Bytes Utf8 Num Value Codec Order Render NumProofs CodecProofs RoundtripProofs DispatchProofs
  Walk WalkProofs CompareWalk CompareWalkProofs RenderWalk.
Open Scope N_scope.
Set Default Timeout 300.
Arguments N.ltb : simpl never. Arguments N.leb : simpl never. Arguments N.eqb : simpl never.
Arguments N.land : simpl never. Arguments N.lor : simpl never. Arguments N.add : simpl never. Arguments N.mul : simpl never.
Arguments N.sub : simpl never. Arguments be32 : simpl never. Arguments read_u32 : simpl never.

(* ---------------------------------------------------------------- from_utf8_lossy on valid UTF-8 *)
Lemma cont_ascii b : b < 128 -> cont b = false.
Proof. intros H. unfold cont, in_rng. destruct (128 <=? b) eqn:E; [apply N.leb_le in E; lia|reflexivity]. Qed.

Lemma in_rng_ascii lo hi b : 128 <= lo -> b < 128 -> in_rng lo hi b = false.
Proof. intros H1 H2. unfold in_rng. destruct (lo <=? b) eqn:E; [apply N.leb_le in E; lia|reflexivity]. Qed.
Ltac low b Hb Hv := unfold cont, in_rng in Hv; repeat (destruct (_ =? _) in Hv);
  repeat match type of Hv with context [?k <=? b] => replace (k <=? b) with false in Hv by (symmetry; apply N.leb_gt; lia) end;
  cbn [andb] in Hv; try discriminate Hv.

Lemma lossy_valid_n : forall n s, (length s <= n)%nat -> utf8_valid s = true -> lossy s = s.
Proof.
  induction n as [|n IH]; intros s Hl Hv.
  - destruct s; [reflexivity|cbn [length] in Hl; lia].
  - destruct s as [|b0 r]; [reflexivity|]. cbn [utf8_valid lossy] in *. cbn [length] in Hl.
    destruct (b0 <? 128). { f_equal. apply IH; [lia|exact Hv]. }
    destruct (in_rng 194 223 b0).
    { destruct r as [|b1 r1]; [discriminate|]. apply andb_true_iff in Hv. destruct Hv as [H1 H2]. rewrite H1.
      cbn [length] in Hl. do 2 f_equal. apply IH; [lia|exact H2]. }
    destruct (in_rng 224 239 b0).
    { destruct r as [|b1 [|b2 r2]]; try discriminate. cbn [length] in Hl.
      apply andb_true_iff in Hv. destruct Hv as [Hv H3]. apply andb_true_iff in Hv. destruct Hv as [H1 H2].
      unfold second3. rewrite H1, H2. do 3 f_equal. apply IH; [lia|exact H3]. }
    destruct (in_rng 240 244 b0); [|discriminate].
    destruct r as [|b1 [|b2 [|b3 r3]]]; try discriminate. cbn [length] in Hl.
    apply andb_true_iff in Hv. destruct Hv as [Hv H4]. apply andb_true_iff in Hv. destruct Hv as [Hv H3]. apply andb_true_iff in Hv. destruct Hv as [H1 H2].
    unfold second4. rewrite H1, H2, H3. do 4 f_equal. apply IH; [lia|exact H4].
Qed.
Lemma lossy_valid s : utf8_valid s = true -> lossy s = s.
Proof. apply (lossy_valid_n (length s)). lia. Qed.

Lemma utf8_split_n : forall n seg b r, (length seg <= n)%nat -> b < 128 -> utf8_valid (seg ++ b :: r) = true ->
  utf8_valid seg = true /\ utf8_valid r = true.
Proof.
  induction n as [|n IH]; intros seg b r Hl Hb Hv.
  - destruct seg; [|cbn [length] in Hl; lia]. cbn [app utf8_valid] in Hv.
    replace (b <? 128) with true in Hv by (symmetry; apply N.ltb_lt; exact Hb). split; [reflexivity|exact Hv].
  - destruct seg as [|b0 s0].
    { cbn [app utf8_valid] in Hv. replace (b <? 128) with true in Hv by (symmetry; apply N.ltb_lt; exact Hb). split; [reflexivity|exact Hv]. }
    pose proof (cont_ascii b Hb) as Cb.
    cbn [length] in Hl. cbn [app utf8_valid] in Hv |- *.
    destruct (b0 <? 128). { apply (IH s0 b r); [lia|exact Hb|exact Hv]. }
    destruct (in_rng 194 223 b0).
    { destruct s0 as [|b1 s1]; cbn [app] in Hv.
      - rewrite Cb in Hv. discriminate.
      - cbn [length] in Hl. apply andb_true_iff in Hv. destruct Hv as [H1 H2]. rewrite H1. cbn [andb].
        apply (IH s1 b r); [lia|exact Hb|exact H2]. }
    destruct (in_rng 224 239 b0).
    { destruct s0 as [|b1 [|b2 s2]]; cbn [app] in Hv.
      - destruct r; [discriminate|]. low b Hb Hv.
      - rewrite Cb, andb_false_r in Hv. cbn [andb] in Hv. discriminate.
      - cbn [length] in Hl. apply andb_true_iff in Hv. destruct Hv as [Hv H3]. rewrite Hv. cbn [andb].
        apply (IH s2 b r); [lia|exact Hb|exact H3]. }
    destruct (in_rng 240 244 b0); [|discriminate].
    destruct s0 as [|b1 [|b2 [|b3 s3]]]; cbn [app] in Hv.
    + destruct r as [|? [|? ?]]; try discriminate. low b Hb Hv.
    + destruct r; [discriminate|]. rewrite Cb, andb_false_r in Hv. cbn [andb] in Hv. discriminate.
    + rewrite Cb, andb_false_r in Hv. cbn [andb] in Hv. discriminate.
    + cbn [length] in Hl. apply andb_true_iff in Hv. destruct Hv as [Hv H4]. rewrite Hv. cbn [andb].
      apply (IH s3 b r); [lia|exact Hb|exact H4].
Qed.

(* ---------------------------------------------------------------- escape_scalar_string on a valid string *)
Lemma escapes_false b : escapes b = false -> escape_byte b = [b].
Proof. unfold escapes, escape_byte. destruct (find _ ESCAPE_TABLE); [discriminate|]. intros ->. reflexivity. Qed.
Lemma escapes_ascii b : escapes b = true -> b < 128.
Proof.
  unfold escapes. destruct (find (fun p => fst p =? b) ESCAPE_TABLE) as [p|] eqn:F.
  - intros _. apply find_some in F. destruct F as [Hin Hb]. apply N.eqb_eq in Hb. subst b.
    assert (H : forallb (fun p => fst p <? 128) ESCAPE_TABLE = true) by reflexivity.
    rewrite forallb_forall in H. apply N.ltb_lt, H, Hin.
  - intros H. apply andb_true_iff in H. destruct H as [_ H]. apply N.ltb_lt in H. lia.
Qed.

Lemma esc_pieces_valid : forall s seg_rev, utf8_valid (rev seg_rev ++ s) = true ->
  esc_pieces s seg_rev = rev seg_rev ++ flat_map escape_byte s.
Proof.
  induction s as [|b r IH]; intros seg_rev Hv; cbn [esc_pieces flat_map].
  - rewrite app_nil_r in Hv |- *. apply lossy_valid. exact Hv.
  - destruct (escapes b) eqn:Eb.
    + destruct (utf8_split_n (length (rev seg_rev)) (rev seg_rev) b r (le_n _) (escapes_ascii b Eb) Hv) as [H1 H2].
      rewrite (lossy_valid _ H1), (IH [] H2). reflexivity.
    + rewrite (escapes_false b Eb). rewrite (IH (b :: seg_rev)); cbn [rev]; rewrite <- app_assoc; [reflexivity|exact Hv].
Qed.

Lemma escape_range_in V A s B off : V = A ++ s ++ B -> off = lenN A -> utf8_valid s = true ->
  escape_range_w V off (off + lenN s) = Ok (escape_string s).
Proof.
  intros -> -> Hv. unfold escape_range_w. destruct (lenN A <? lenN A + lenN s) eqn:E.
  - rewrite slice_p_in by lia. cbn [bind]. rewrite (esc_pieces_valid s []) by exact Hv. reflexivity.
  - apply N.ltb_ge in E. destruct s as [|b r]; [reflexivity|]. rewrite lenN_cons in E. lia.
Qed.

(* ---------------------------------------------------------------- the index-by-index loop is escape_range_w *)
Lemma slice_split V off len s : slice V off len = Some s -> exists A B, V = A ++ s ++ B /\ off = lenN A /\ len = lenN s.
Proof.
  unfold slice. destruct (off + len <=? lenN V) eqn:E; [|discriminate]. apply N.leb_le in E. intros H. injection H as <-.
  exists (firstn (N.to_nat off) V), (skipn (N.to_nat len) (skipn (N.to_nat off) V)). unfold lenN in *.
  split; [rewrite (firstn_skipn (N.to_nat len)), firstn_skipn; reflexivity|].
  split; [rewrite firstn_length_le by lia; lia|]. rewrite firstn_length_le by (rewrite skipn_length; lia). lia.
Qed.
Lemma slice_in_bounds V off len : off + len <= lenN V -> exists s, slice V off len = Some s.
Proof. intros H. unfold slice. replace (off + len <=? lenN V) with true by (symmetry; apply N.leb_le; exact H). eexists. reflexivity. Qed.
Lemma slice_byte A b B : slice (A ++ b :: B) (lenN A) 1 = Some [b].
Proof. apply (slice_mid' A [b] B); reflexivity. Qed.

Lemma lossy_seg V A seg_rev B last i : V = A ++ rev seg_rev ++ B -> last = lenN A -> i = lenN A + lenN seg_rev ->
  (if last <? i then lossy_slice V last i else Ok []) = Ok (lossy (rev seg_rev)).
Proof.
  intros -> -> ->. destruct (lenN A <? lenN A + lenN seg_rev) eqn:E.
  - unfold lossy_slice. rewrite slice_p_in by (try reflexivity; unfold lenN; rewrite rev_length; lia). reflexivity.
  - apply N.ltb_ge in E. destruct seg_rev as [|x r]; [reflexivity|]. rewrite lenN_cons in E. lia.
Qed.

Lemma esc_loop_ok V : forall rest A seg_rev B fuel, V = A ++ rev seg_rev ++ rest ++ B -> (length rest < fuel)%nat ->
  esc_index_loop fuel V (lenN A + lenN seg_rev) (lenN A + lenN seg_rev + lenN rest) (lenN A) = Ok (esc_pieces rest seg_rev).
Proof.
  induction rest as [|b r IH]; intros A seg_rev B fuel E Hf; (destruct fuel as [|f]; [cbn [length] in Hf; lia|]); cbn [esc_index_loop esc_pieces].
  - rewrite lenN_nil, N.add_0_r, N.ltb_irrefl. apply (lossy_seg V A seg_rev B); [exact E|reflexivity|reflexivity].
  - rewrite lenN_cons. replace (lenN A + lenN seg_rev <? lenN A + lenN seg_rev + (1 + lenN r)) with true by (symmetry; apply N.ltb_lt; lia).
    assert (SB : slice V (lenN A + lenN seg_rev) 1 = Some [b]).
    { rewrite E. replace (A ++ rev seg_rev ++ (b :: r) ++ B) with ((A ++ rev seg_rev) ++ b :: (r ++ B)) by (rewrite <- !app_assoc; reflexivity).
      replace (lenN A + lenN seg_rev) with (lenN (A ++ rev seg_rev)) by (rewrite lenN_app; unfold lenN; rewrite rev_length; reflexivity).
      apply slice_byte. }
    rewrite SB. cbn [length] in Hf. destruct (escapes b) eqn:Eb.
    + rewrite (lossy_seg V A seg_rev ((b :: r) ++ B) _ _ E eq_refl eq_refl). cbn [bind].
      assert (LA : lenN (A ++ rev seg_rev ++ [b]) = lenN A + lenN seg_rev + 1).
      { rewrite !lenN_app, lenN_cons, lenN_nil. unfold lenN. rewrite rev_length. lia. }
      specialize (IH (A ++ rev seg_rev ++ [b]) [] B f). cbn [rev app] in IH. rewrite lenN_nil, !N.add_0_r, LA in IH.
      replace (lenN A + lenN seg_rev + (1 + lenN r)) with (lenN A + lenN seg_rev + 1 + lenN r) by lia.
      rewrite IH by (try (rewrite E, <- !app_assoc; reflexivity); lia). reflexivity.
    + specialize (IH A (b :: seg_rev) B f). cbn [rev] in IH. rewrite lenN_cons in IH.
      replace (lenN A + lenN seg_rev + 1) with (lenN A + (1 + lenN seg_rev)) by lia.
      replace (lenN A + lenN seg_rev + (1 + lenN r)) with (lenN A + (1 + lenN seg_rev) + lenN r) by lia.
      apply IH; [rewrite E, <- !app_assoc; reflexivity|lia].
Qed.

Lemma esc_loop_panic V stop : lenN V < stop -> forall rest A fuel last, V = A ++ rest -> (length rest < fuel)%nat -> last <= lenN A ->
  esc_index_loop fuel V (lenN A) stop last = Panic.
Proof.
  intros Hs. induction rest as [|b r IH]; intros A fuel last E Hf Hl; (destruct fuel as [|f]; [cbn [length] in Hf; lia|]); cbn [esc_index_loop].
  - rewrite app_nil_r in E. subst A. replace (lenN V <? stop) with true by (symmetry; apply N.ltb_lt; exact Hs).
    unfold slice. replace (lenN V + 1 <=? lenN V) with false by (symmetry; apply N.leb_gt; lia). reflexivity.
  - assert (HA : lenN A < lenN V) by (rewrite E, lenN_app, lenN_cons; lia).
    replace (lenN A <? stop) with true by (symmetry; apply N.ltb_lt; lia).
    rewrite E at 1. rewrite slice_byte. cbn [length] in Hf.
    assert (R : esc_index_loop f V (lenN A + 1) stop (lenN A + 1) = Panic /\ esc_index_loop f V (lenN A + 1) stop last = Panic).
    { replace (lenN A + 1) with (lenN (A ++ [b])) by (rewrite lenN_app, lenN_cons, lenN_nil; lia).
      split; apply IH; try (rewrite E, <- app_assoc; reflexivity); try lia. rewrite lenN_app. lia. }
    destruct R as [R1 R2]. destruct (escapes b); [|exact R2]. rewrite R1.
    destruct (last <? lenN A); [|reflexivity]. unfold lossy_slice, slice_p.
    destruct (slice_in_bounds V last (lenN A - last) ltac:(lia)) as [s Hs']. rewrite Hs'. reflexivity.
Qed.

Theorem escape_range_lit_eq V start stop : escape_range_lit V start stop = escape_range_w V start stop.
Proof.
  unfold escape_range_lit, escape_range_w. destruct (start <? stop) eqn:E.
  - apply N.ltb_lt in E. unfold slice_p. destruct (slice V start (stop - start)) as [s|] eqn:Es; cbn [or_panic bind].
    + destruct (slice_split V start (stop - start) s Es) as (A & B & EV & -> & Hl).
      pose proof (esc_loop_ok V s A [] B (S (length V)) EV) as H. cbn [rev app] in H. rewrite lenN_nil, N.add_0_r in H.
      replace stop with (lenN A + lenN s) by lia. rewrite H by (rewrite EV, !app_length; lia). reflexivity.
    + assert (Hs : lenN V < stop).
      { unfold slice in Es. destruct (start + (stop - start) <=? lenN V) eqn:E2; [discriminate|]. apply N.leb_gt in E2. lia. }
      destruct (start <=? lenN V) eqn:E3.
      * apply N.leb_le in E3.
        assert (LA : lenN (firstn (N.to_nat start) V) = start) by (unfold lenN in *; rewrite firstn_length_le by lia; lia).
        pose proof (esc_loop_panic V stop Hs (skipn (N.to_nat start) V) (firstn (N.to_nat start) V) (S (length V)) start) as P.
        rewrite LA in P. rewrite P; [reflexivity|rewrite firstn_skipn; reflexivity|rewrite skipn_length; lia|lia].
      * apply N.leb_gt in E3. cbn [esc_index_loop]. replace (start <? stop) with true by (symmetry; apply N.ltb_lt; exact E).
        unfold slice. replace (start + 1 <=? lenN V) with false by (symmetry; apply N.leb_gt; lia). reflexivity.
  - cbn [esc_index_loop]. rewrite E. reflexivity.
Qed.

(* ---------------------------------------------------------------- the member loops of Render.v, named *)
Definition goRf (pretty : bool) (ind : nat) (rf : value -> list N) : bool -> list value -> list N :=
  fix go (first : bool) (l : list value) : list N :=
    match l with
    | [] => []
    | x :: r => (if first then [] else if pretty then [44; 10] else [44])
                  ++ (if pretty then indent (ind + 2) else []) ++ rf x ++ go false r
    end.
Definition goROf (pretty : bool) (ind : nat) (rf : value -> list N) : bool -> list (list N * value) -> list N :=
  fix go (first : bool) (l : list (list N * value)) : list N :=
    match l with
    | [] => []
    | (k, x) :: r => (if first then [] else if pretty then [44; 10] else [44])
                       ++ (if pretty then indent (ind + 2) else [])
                       ++ escape_string k ++ (if pretty then [58; 32] else [58]) ++ rf x ++ go false r
    end.
Lemma render_arr pf pretty ind l : render pf pretty ind (VArr l)
  = (if pretty then [91; 10] else [91]) ++ goRf pretty ind (render pf pretty (ind + 2)) true l
      ++ (if pretty then 10 :: indent ind else []) ++ [93].
Proof. reflexivity. Qed.
Lemma render_obj pf pretty ind o : render pf pretty ind (VObj o)
  = (if pretty then [123; 10] else [123]) ++ goROf pretty ind (render pf pretty (ind + 2)) true o
      ++ (if pretty then 10 :: indent ind else []) ++ [125].
Proof. reflexivity. Qed.
Lemma goRf_norm pretty ind rf l : forall first,
  goRf pretty ind (fun x => rf (normalise x)) first l = goRf pretty ind rf first (map normalise l).
Proof. induction l as [|x l IH]; intros first; [reflexivity|]. cbn [goRf map]. rewrite IH. reflexivity. Qed.
Lemma goROf_norm pretty ind rf o : forall first,
  goROf pretty ind (fun x => rf (normalise x)) first o = goROf pretty ind rf first (map (fun kv => (fst kv, normalise (snd kv))) o).
Proof. induction o as [|[k x] o IH]; intros first; [reflexivity|]. cbn [goROf map fst snd]. rewrite IH. reflexivity. Qed.

Lemma first_flag_snoc {A} (done : list A) x : negb (0 <? lenN (done ++ [x])) = false.
Proof. unfold lenN. rewrite app_length. cbn [length]. replace (0 <? N.of_nat (length done + 1)) with true by (symmetry; apply N.ltb_lt; lia). reflexivity. Qed.

Section Loops.
  Variable V : list N.
  Variable pretty : bool.
  Variable sc : nat -> N -> N -> res (list N * N).
  Variable rf : value -> list N.
  Variable ind : nat.

  (* the array loop from element number |done| on *)
  Lemma arr_str_entry l lo : placed V (VArr l) lo -> Forall (fun v => wf_size v = true) l ->
    (forall x, In x l -> forall joff lo', read_u32 V joff = Some (word x) -> placed V x lo' ->
               sc (ind + 2)%nat joff lo' = Ok (rf x, lenN (payload x))) ->
    forall todo done fuel, l = done ++ todo -> (length todo < fuel)%nat ->
    arr_str_loop pretty sc fuel ind (lenN done) (lenN l) (4 + lo + 4 * lenN done) (4 + lo + 4 * lenN l + sum_len done)
    = Ok (goRf pretty ind rf (negb (0 <? lenN done)) todo).
  Proof.
    intros PL W Hsc. induction todo as [|x t IH]; intros done fuel E Hf; (destruct fuel as [|fuel]; [cbn [length] in Hf; lia|]); cbn [arr_str_loop]; unfold STS_JSTEP.
    - rewrite app_nil_r in E. subst done. rewrite N.ltb_irrefl. reflexivity.
    - assert (H1 : lenN l = lenN done + (1 + lenN t)) by (rewrite E, lenN_app, lenN_cons; reflexivity).
      replace (lenN done <? lenN l) with true by (symmetry; apply N.ltb_lt; lia).
      destruct PL as (A & B & EL & ELo).
      assert (RL : read_u32 V (4 + lo + 4 * lenN done) = Some (word x)).
      { rewrite EL, payload_arr.
        replace (A ++ (be32 (arr_hdr l) ++ flat_map be32 (map word l) ++ flat_map payload l) ++ B)
          with ((A ++ be32 (arr_hdr l)) ++ flat_map be32 (map word l) ++ (flat_map payload l ++ B)) by (rewrite <- !app_assoc; reflexivity).
        apply (read_word_at _ (map word l) _ (map word done) (word x) (map word t)).
        - apply words_of_values_ok. exact W.
        - rewrite E, map_app. reflexivity.
        - rewrite lenN_app, lenN_be32, lenN_map. lia. }
      assert (N1 : nth_opt l (length done) = Some x) by (rewrite E; clear; induction done as [|d0 done IHd]; cbn [nth_opt app length]; [reflexivity|exact IHd]).
      assert (F1 : firstn (length done) l = done) by (rewrite E, firstn_app, Nat.sub_diag, firstn_all; cbn [firstn]; apply app_nil_r).
      pose proof (placed_elem V l lo _ x (ex_intro _ A (ex_intro _ B (conj EL ELo))) N1) as P1. rewrite F1 in P1.
      replace (lo + 4 + 4 * lenN l + sum_len done) with (4 + lo + 4 * lenN l + sum_len done) in P1 by lia.
      rewrite (Hsc x ltac:(rewrite E; apply in_or_app; right; left; reflexivity) _ _ RL P1). cbn [bind].
      specialize (IH (done ++ [x]) fuel). rewrite first_flag_snoc, lenN_app, lenN_cons, lenN_nil, sum_len_app in IH. cbn [sum_len fold_right] in IH.
      replace (lenN done + 1) with (lenN done + (1 + 0)) by lia.
      replace (4 + lo + 4 * lenN done + 4) with (4 + lo + 4 * (lenN done + (1 + 0))) by lia.
      replace (4 + lo + 4 * lenN l + sum_len done + lenN (payload x)) with (4 + lo + 4 * lenN l + (sum_len done + (lenN (payload x) + 0))) by lia.
      rewrite IH by (try (rewrite E, <- app_assoc; reflexivity); cbn [length] in Hf; lia).
      cbn [bind goRf]. unfold sep_text, ind_text. destruct (0 <? lenN done); reflexivity.
  Qed.

  (* the member loop of an object from member number |done| on *)
  Lemma obj_str_entry o lo : placed V (VObj o) lo -> obj_ok o -> Forall (fun kv => utf8_valid (fst kv) = true) o ->
    (forall kv, In kv o -> forall joff lo', read_u32 V joff = Some (word (snd kv)) -> placed V (snd kv) lo' ->
                sc (ind + 2)%nat joff lo' = Ok (rf (snd kv), lenN (payload (snd kv)))) ->
    forall todo done, o = done ++ todo ->
    obj_str_loop V pretty sc (kws todo) ind (lenN done) (4 + lo + 4 * lenN o + 4 * lenN done) (4 + lo + 8 * lenN o + sum_keys done)
                 (4 + lo + 8 * lenN o + sum_keys o + sum_len (vals done))
    = Ok (goROf pretty ind rf (negb (0 <? lenN done)) todo).
  Proof.
    intros PL W U Hsc. induction todo as [|[k x] t IH]; intros done E; cbn [kws map obj_str_loop]; [reflexivity|]. unfold STS_JSTEP.
    fold (kws t). cbn [fst].
    assert (Hk : wf_size x = true /\ lenN k < 268435456).
    { unfold obj_ok in W. rewrite E in W. apply Forall_app in W. destruct W as [_ W]. inversion W as [|? ? Hh ?]. exact Hh. }
    destruct Hk as [Wx Hk].
    assert (Uk : utf8_valid k = true).
    { rewrite E in U. apply Forall_app in U. destruct U as [_ U]. inversion U as [|? ? Hh ?]. exact Hh. }
    destruct (placed_key V o lo done k x t PL E) as (Ak & Bk & EK & LK).
    rewrite (key_word_len k Hk).
    rewrite (escape_range_in V Ak k Bk (4 + lo + 8 * lenN o + sum_keys done) EK ltac:(lia) Uk). cbn [bind].
    destruct PL as (A & B & EL & ELo).
    assert (RL : read_u32 V (4 + lo + 4 * lenN o + 4 * lenN done) = Some (word x)).
    { rewrite EL, obj_regroup. apply (read_word_at _ (kws o ++ vws o) _ (kws o ++ vws done) (word x) (vws t)).
      - apply obj_words_ok. exact W.
      - rewrite <- app_assoc. f_equal. rewrite E at 1. unfold vws. rewrite map_app. reflexivity.
      - rewrite !lenN_app, lenN_be32, len_kws, len_vws. lia. }
    pose proof (placed_val V o lo done k x t (ex_intro _ A (ex_intro _ B (conj EL ELo))) E) as P1.
    replace (lo + 4 + 8 * lenN o + sum_keys o + sum_len (vals done)) with (4 + lo + 8 * lenN o + sum_keys o + sum_len (vals done)) in P1 by lia.
    pose proof (Hsc (k, x) ltac:(rewrite E; apply in_or_app; right; left; reflexivity) _ _ RL P1) as HS.
    cbn [snd] in HS. rewrite HS. cbn [bind].
    specialize (IH (done ++ [(k, x)])).
    rewrite first_flag_snoc, lenN_app, lenN_cons, lenN_nil, sum_keys_app in IH. unfold vals in IH. rewrite map_app, sum_len_app in IH.
    cbn [map snd fst sum_len sum_keys fold_right] in IH. fold (vals done) in IH.
    replace (lenN done + 1) with (lenN done + (1 + 0)) by lia.
    replace (4 + lo + 4 * lenN o + 4 * lenN done + 4) with (4 + lo + 4 * lenN o + 4 * (lenN done + (1 + 0))) by lia.
    replace (4 + lo + 8 * lenN o + sum_keys done + lenN k) with (4 + lo + 8 * lenN o + (sum_keys done + (lenN k + 0))) by lia.
    replace (4 + lo + 8 * lenN o + sum_keys o + sum_len (vals done) + lenN (payload x))
      with (4 + lo + 8 * lenN o + sum_keys o + (sum_len (vals done) + (lenN (payload x) + 0))) by lia.
    rewrite IH by (rewrite E, <- app_assoc; reflexivity).
    cbn [bind goROf]. unfold sep_text, ind_text. destruct (0 <? lenN done); reflexivity.
  Qed.
End Loops.

(* ---------------------------------------------------------------- container_to_string on a placed container *)
Section Containers.
  Variable pf : N -> list N.
  Variable V : list N.
  Variable pretty : bool.
  Variable sc : nat -> N -> N -> res (list N * N).

  Lemma container_arr_entry l lo ind : wfb (VArr l) = true -> placed V (VArr l) lo ->
    (forall x, In x l -> forall joff lo', read_u32 V joff = Some (word x) -> placed V x lo' ->
               sc (ind + 2)%nat joff lo' = Ok (render pf pretty (ind + 2) (normalise x), lenN (payload x))) ->
    container_str_w V pretty sc ind lo = Ok (render pf pretty ind (normalise (VArr l))).
  Proof.
    intros Wx PL Hsc. destruct (wf_arr l Wx) as [Hall Hn].
    assert (W : Forall (fun v => wf_size v = true) l) by (eapply Forall_impl; [|exact Hall]; intros v; apply wfb_size).
    unfold container_str_w, CTS_SC_JOFF, CTS_SC_VOFF, CTS_ARR_JOFF, CTS_ARR_VOFF, CTS_OBJ_JOFF, CTS_OBJ_KOFF, CTS_OBJ_JSTEP, CTS_OBJ_VOFF.
    assert (RH : read_u32 V lo = Some (arr_hdr l)) by (destruct PL as (A & B & EL & ELo); rewrite EL, ELo; apply (read_hdr_arr A l B Hn)).
    rewrite RH. destruct (arr_hdr_facts l Hn) as (_ & T & L'). rewrite T, L'.
    change (ARRAY_CONTAINER_TAG =? SCALAR_CONTAINER_TAG) with false. rewrite N.eqb_refl. cbv iota.
    pose proof (arr_str_entry V pretty sc (fun x => render pf pretty (ind + 2) (normalise x)) ind l lo PL W Hsc l [] (S (length V)) eq_refl) as AL.
    cbn [sum_len fold_right] in AL. rewrite lenN_nil, N.mul_0_r, !N.add_0_r in AL.
    rewrite AL by (pose proof (placed_len V _ lo PL); pose proof (payload_arr_len l); lia).
    cbn [bind normalise]. rewrite render_arr, <- goRf_norm. reflexivity.
  Qed.

  Lemma container_obj_entry o lo ind : wfb (VObj o) = true -> placed V (VObj o) lo ->
    (forall kv, In kv o -> forall joff lo', read_u32 V joff = Some (word (snd kv)) -> placed V (snd kv) lo' ->
                sc (ind + 2)%nat joff lo' = Ok (render pf pretty (ind + 2) (normalise (snd kv)), lenN (payload (snd kv)))) ->
    container_str_w V pretty sc ind lo = Ok (render pf pretty ind (normalise (VObj o))).
  Proof.
    intros Wx PL Hsc. destruct (obj_ok_of_wf o Wx) as [Ho Hn]. destruct (wf_obj o Wx) as (Hall & _ & _).
    assert (U : Forall (fun kv => utf8_valid (fst kv) = true) o) by (eapply Forall_impl; [|exact Hall]; intros kv (_ & H & _); exact H).
    unfold container_str_w, CTS_SC_JOFF, CTS_SC_VOFF, CTS_ARR_JOFF, CTS_ARR_VOFF, CTS_OBJ_JOFF, CTS_OBJ_KOFF, CTS_OBJ_JSTEP, CTS_OBJ_VOFF.
    assert (RH : read_u32 V lo = Some (obj_hdr o)) by (destruct PL as (A & B & EL & ELo); rewrite EL, ELo; apply (read_hdr_obj A o B Hn)).
    rewrite RH. destruct (obj_hdr_facts o Hn) as (_ & T & L'). rewrite T, L'.
    change (OBJECT_CONTAINER_TAG =? SCALAR_CONTAINER_TAG) with false. change (OBJECT_CONTAINER_TAG =? ARRAY_CONTAINER_TAG) with false.
    rewrite N.eqb_refl. cbv iota.
    assert (RK : rd_words (S (length V)) V 0 (lenN o) (4 + lo) = Some (kws o)).
    { destruct PL as (A & B & EL & ELo). rewrite EL, ELo. replace (4 + lenN A) with (lenN A + 4) by lia.
      apply (rd_key_words A o B _ Ho). rewrite !app_length. pose proof (payload_obj_len o). lia. }
    rewrite RK, (sum_je_len_kws o Ho).
    pose proof (obj_str_entry V pretty sc (fun x => render pf pretty (ind + 2) (normalise x)) ind o lo PL Ho U Hsc o [] eq_refl) as OL.
    cbn [vals map sum_len sum_keys fold_right] in OL. change (lenN (@nil (list N * value))) with 0 in OL. rewrite ?N.mul_0_r, ?N.add_0_r in OL.
    rewrite OL. cbn [bind normalise]. rewrite render_obj, <- goROf_norm. reflexivity.
  Qed.
End Containers.

(* ---------------------------------------------------------------- scalar_to_string on a placed value *)
Theorem scalar_str_entry pf V pretty : forall x, wfb x = true -> forall fuel ind joff lo, (depth x <= fuel)%nat ->
  read_u32 V joff = Some (word x) -> placed V x lo ->
  scalar_str_w pf V pretty fuel ind joff lo = Ok (render pf pretty ind (normalise x), lenN (payload x)).
Proof.
  induction x as [|bx|sx|nx|l IH|o IH] using value_ind2; intros Wx fuel ind joff lo Hf RW PL;
    (destruct fuel as [|f]; [cbn [depth] in Hf; lia|]);
    pose proof (wfb_size _ Wx) as Sx; cbn [scalar_str_w]; rewrite RW, (word_type _ Sx), (word_len _ Sx); cbn [tag_of normalise].
  - rewrite N.eqb_refl. reflexivity.
  - destruct bx; cbn [tag_of].
    + change (TRUE_TAG =? NULL_TAG) with false. rewrite N.eqb_refl. reflexivity.
    + change (FALSE_TAG =? NULL_TAG) with false. change (FALSE_TAG =? TRUE_TAG) with false. rewrite N.eqb_refl. reflexivity.
  - change (STRING_TAG =? NULL_TAG) with false. change (STRING_TAG =? TRUE_TAG) with false. change (STRING_TAG =? FALSE_TAG) with false.
    change (STRING_TAG =? NUMBER_TAG) with false. rewrite N.eqb_refl. cbv iota.
    assert (Ux : utf8_valid sx = true).
    { unfold wfb in Wx. apply andb_true_iff in Wx. destruct Wx as [Wx _]. cbn [wf_shape] in Wx. apply andb_true_iff in Wx. apply Wx. }
    destruct PL as (A & B & EL & ELo). change (payload (VStr sx)) with sx in *.
    rewrite (escape_range_in V A sx B lo EL ELo Ux). reflexivity.
  - change (NUMBER_TAG =? NULL_TAG) with false. change (NUMBER_TAG =? TRUE_TAG) with false. change (NUMBER_TAG =? FALSE_TAG) with false.
    rewrite N.eqb_refl. cbv iota.
    destruct PL as (A & B & -> & ->). rewrite slice_p_in by reflexivity. cbn [bind].
    change (payload (VNum nx)) with (compact_encode nx).
    assert (Rx : num_in_range nx = true) by (unfold wfb in Wx; apply andb_true_iff in Wx; apply Wx).
    rewrite (num_roundtrip nx Rx). reflexivity.
  - (* arrays *)
    change (CONTAINER_TAG =? NULL_TAG) with false. change (CONTAINER_TAG =? TRUE_TAG) with false. change (CONTAINER_TAG =? FALSE_TAG) with false.
    change (CONTAINER_TAG =? NUMBER_TAG) with false. change (CONTAINER_TAG =? STRING_TAG) with false. rewrite N.eqb_refl. cbv iota.
    destruct (wf_arr l Wx) as [Hall _].
    rewrite (container_arr_entry pf V pretty (scalar_str_w pf V pretty f) l lo ind Wx PL); [reflexivity|].
    intros x Hx joff' lo' R1 P1. rewrite Forall_forall in IH. apply (IH x Hx);
      [rewrite Forall_forall in Hall; apply Hall; exact Hx|cbn [depth] in Hf; pose proof (depth_elem l x Hx); lia|exact R1|exact P1].
  - (* objects *)
    change (CONTAINER_TAG =? NULL_TAG) with false. change (CONTAINER_TAG =? TRUE_TAG) with false. change (CONTAINER_TAG =? FALSE_TAG) with false.
    change (CONTAINER_TAG =? NUMBER_TAG) with false. change (CONTAINER_TAG =? STRING_TAG) with false. rewrite N.eqb_refl. cbv iota.
    destruct (wf_obj o Wx) as (Hall & _ & _).
    rewrite (container_obj_entry pf V pretty (scalar_str_w pf V pretty f) o lo ind Wx PL); [reflexivity|].
    intros kv Hx joff' lo' R1 P1. rewrite Forall_forall in IH. apply (IH kv Hx);
      [rewrite Forall_forall in Hall; apply (Hall kv Hx)|cbn [depth] in Hf; pose proof (fold_max_le_obj o kv Hx); lia|exact R1|exact P1].
Qed.

(* ---------------------------------------------------------------- the top level *)
Theorem render_w_enc pf pretty v : wfb v = true -> render_w pf (enc v) pretty = Ok (render pf pretty 0 (normalise v)).
Proof.
  intros Wv. pose proof (wfb_size _ Wv) as Sv. unfold render_w.
  assert (Hd : (depth v <= S (length (enc v)))%nat) by (pose proof (depth_le_len v); pose proof (enc_len_ge v); lia).
  destruct (is_container v) eqn:Cv.
  - pose proof (placed_container_doc v Cv) as PV.
    destruct v as [| | | |l|o]; try discriminate Cv.
    + destruct (wf_arr l Wv) as [Hall _].
      apply (container_arr_entry pf (enc (VArr l)) pretty _ l 0 0 Wv PV).
      intros x Hx joff lo' R1 P1. apply scalar_str_entry;
        [rewrite Forall_forall in Hall; apply Hall; exact Hx|cbn [depth] in Hd; pose proof (depth_elem l x Hx); lia|exact R1|exact P1].
    + destruct (wf_obj o Wv) as (Hall & _ & _).
      apply (container_obj_entry pf (enc (VObj o)) pretty _ o 0 0 Wv PV).
      intros kv Hx joff lo' R1 P1. apply scalar_str_entry;
        [rewrite Forall_forall in Hall; apply (Hall kv Hx)|cbn [depth] in Hd; pose proof (fold_max_le_obj o kv Hx); lia|exact R1|exact P1].
  - unfold container_str_w, CTS_SC_JOFF, CTS_SC_VOFF, CTS_ARR_JOFF, CTS_ARR_VOFF, CTS_OBJ_JOFF, CTS_OBJ_KOFF, CTS_OBJ_JSTEP, CTS_OBJ_VOFF. rewrite (scalar_hdr v Cv).
    change (hdr_type SCALAR_CONTAINER_TAG =? SCALAR_CONTAINER_TAG) with true. cbv iota.
    pose proof (rd_scalar_word v Cv Sv) as RW. unfold rd in RW. destruct (read_u32 (enc v) 4) as [w|] eqn:Er; [|discriminate RW].
    cbn [of_option] in RW. injection RW as ->.
    change (4 + 0) with 4. change (8 + 0) with 8.
    rewrite (scalar_str_entry pf (enc v) pretty v Wv (S (length (enc v))) 0 4 8 Hd Er (placed_scalar_doc v Cv)). reflexivity.
Qed.

Theorem to_string_w_enc pf v : wfb v = true -> top_ok v -> to_string_w' pf (enc v) = Ok (to_string_t pf (normalise v)).
Proof.
  intros Wv Tv. unfold to_string_w', to_text_w. rewrite (is_jsonb_enc v Wv Tv), (render_w_enc pf false v Wv). reflexivity.
Qed.
Theorem to_pretty_string_w_enc pf v : wfb v = true -> top_ok v -> to_pretty_string_w' pf (enc v) = Ok (to_pretty_string_t pf (normalise v)).
Proof.
  intros Wv Tv. unfold to_pretty_string_w', to_text_w. rewrite (is_jsonb_enc v Wv Tv), (render_w_enc pf true v Wv). reflexivity.
Qed.

(* the walker and the view-level model of Dispatch.v agree on every encoding *)
Theorem to_string_w_m_enc v : wfb v = true -> top_ok v -> to_string_w (enc v) = Dispatch.to_string_m (enc v).
Proof.
  intros Wv Tv. unfold to_string_w. rewrite (to_string_w_enc _ v Wv Tv). unfold Dispatch.to_string_m.
  rewrite (is_jsonb_enc v Wv Tv), (parse_jsonb_enc v Wv). reflexivity.
Qed.
Theorem to_pretty_string_w_m_enc v : wfb v = true -> top_ok v -> to_pretty_string_w (enc v) = Dispatch.to_pretty_string_m (enc v).
Proof.
  intros Wv Tv. unfold to_pretty_string_w. rewrite (to_pretty_string_w_enc _ v Wv Tv). unfold Dispatch.to_pretty_string_m.
  rewrite (is_jsonb_enc v Wv Tv), (parse_jsonb_enc v Wv). reflexivity.
Qed.

(* ---------------------------------------------------------------- the fuel is never used up, on ANY buffer *)
Lemma num_decode_not_fuel p : num_decode p <> Err EFuel.
Proof.
  unfold num_decode. destruct p as [|ty rest]; [discriminate|].
  repeat match goal with
         | |- context [if ?c then _ else _] => destruct c
         | |- context [match length rest with _ => _ end] => destruct (length rest)
         | |- context [match ?n with O => _ | S _ => _ end] => destruct n
         end; discriminate.
Qed.
Lemma escape_range_not_err V a b e : escape_range_w V a b <> Err e.
Proof. unfold escape_range_w, slice_p. destruct (a <? b); [|discriminate]. destruct (slice V a (b - a)); discriminate. Qed.
Lemma read_u32_bound bs j w : read_u32 bs j = Some w -> j + 4 <= lenN bs.
Proof. unfold read_u32, slice. destruct (j + 4 <=? lenN bs) eqn:E; [intros _; apply N.leb_le; exact E|discriminate]. Qed.
Lemma rd_words_len : forall fuel bs i len j ws, rd_words fuel bs i len j = Some ws -> lenN ws = len - i.
Proof.
  induction fuel as [|f IH]; intros bs i len j ws; cbn [rd_words]; [discriminate|].
  destruct (i <? len) eqn:E.
  - destruct (read_u32 bs j); [|discriminate]. destruct (rd_words f bs (i + 1) len (j + 4)) as [ws'|] eqn:R; [|discriminate].
    intros H. injection H as <-. rewrite lenN_cons, (IH _ _ _ _ _ R). apply N.ltb_lt in E. lia.
  - intros H. injection H as <-. apply N.ltb_ge in E. rewrite lenN_nil. lia.
Qed.

Definition not_fuel {A} (r : res A) : Prop := r <> Err EFuel.
Lemma not_fuel_err {A B} e : @not_fuel A (Err e) -> @not_fuel B (Err e).
Proof. intros H E. apply H. injection E as ->. reflexivity. Qed.

Section NoFuel.
  Variable V : list N.
  Variable pretty : bool.
  Variable sc : nat -> N -> N -> res (list N * N).
  Variable J : N.
  Hypothesis Hok : forall ind j v r, sc ind j v = Ok r -> j + 4 <= lenN V.
  Hypothesis Hnf : forall ind j v, J <= j -> j + 4 <= v -> not_fuel (sc ind j v).

  Lemma arr_loop_not_fuel : forall k ind i len j v, (1 <= k)%nat -> lenN V < j + 4 * N.of_nat k -> J <= j -> j + 4 * (len - i) <= v ->
    not_fuel (arr_str_loop pretty sc k ind i len j v).
  Proof.
    induction k as [|k IH]; intros ind i len j v Hk Hl Hj Hv; [lia|]. cbn [arr_str_loop]; unfold STS_JSTEP.
    destruct (i <? len) eqn:E; [|discriminate]. apply N.ltb_lt in E.
    pose proof (Hnf (ind + 2)%nat j v Hj ltac:(lia)) as S1.
    destruct (sc (ind + 2)%nat j v) as [[t l]|e|] eqn:Es; cbn [bind]; [|exact (not_fuel_err _ S1)|discriminate].
    pose proof (Hok _ _ _ _ Es) as B1.
    pose proof (IH ind (i + 1) len (j + 4) (v + l) ltac:(lia) ltac:(lia) ltac:(lia) ltac:(lia)) as S2.
    destruct (arr_str_loop pretty sc k ind (i + 1) len (j + 4) (v + l)); cbn [bind]; [discriminate|exact (not_fuel_err _ S2)|discriminate].
  Qed.

  Lemma obj_loop_not_fuel : forall kws ind i j koff v, J <= j -> j + 4 * lenN kws <= v ->
    not_fuel (obj_str_loop V pretty sc kws ind i j koff v).
  Proof.
    induction kws as [|kw r IH]; intros ind i j koff v Hj Hv; cbn [obj_str_loop]; [discriminate|]. unfold STS_JSTEP.
    rewrite lenN_cons in Hv.
    pose proof (escape_range_not_err V koff (koff + je_len kw)) as S0.
    destruct (escape_range_w V koff (koff + je_len kw)) as [k|e|]; cbn [bind]; [|exfalso; apply (S0 e); reflexivity|discriminate].
    pose proof (Hnf (ind + 2)%nat j v Hj ltac:(lia)) as S1.
    destruct (sc (ind + 2)%nat j v) as [[t l]|e|] eqn:Es; cbn [bind]; [|exact (not_fuel_err _ S1)|discriminate].
    pose proof (IH ind (i + 1) (j + 4) (koff + je_len kw) (v + l) ltac:(lia) ltac:(lia)) as S2.
    destruct (obj_str_loop V pretty sc r ind (i + 1) (j + 4) (koff + je_len kw) (v + l)); cbn [bind]; [discriminate|exact (not_fuel_err _ S2)|discriminate].
  Qed.
End NoFuel.

Lemma container_not_fuel V pretty sc ind off :
  (forall ind j v r, sc ind j v = Ok r -> j + 4 <= lenN V) ->
  (off + 4 <= lenN V -> forall ind j v, 4 + off <= j -> j + 4 <= v -> not_fuel (sc ind j v)) ->
  not_fuel (container_str_w V pretty sc ind off).
Proof.
  intros Hok Hnf. unfold container_str_w, CTS_SC_JOFF, CTS_SC_VOFF, CTS_ARR_JOFF, CTS_ARR_VOFF, CTS_OBJ_JOFF, CTS_OBJ_KOFF, CTS_OBJ_JSTEP, CTS_OBJ_VOFF. destruct (read_u32 V off) as [h|] eqn:RH; [|discriminate].
  specialize (Hnf (read_u32_bound _ _ _ RH)).
  destruct (hdr_type h =? SCALAR_CONTAINER_TAG).
  { pose proof (Hnf ind (4 + off) (8 + off) ltac:(lia) ltac:(lia)) as S1.
    destruct (sc ind (4 + off) (8 + off)) as [[t l]|e|]; cbn [bind]; [discriminate|exact (not_fuel_err _ S1)|discriminate]. }
  destruct (hdr_type h =? ARRAY_CONTAINER_TAG).
  { pose proof (arr_loop_not_fuel V pretty sc (4 + off) Hok Hnf (S (length V)) ind 0 (hdr_len h) (4 + off) (4 + off + 4 * hdr_len h)
                  ltac:(lia) ltac:(unfold lenN; lia) ltac:(lia) ltac:(lia)) as S1.
    destruct (arr_str_loop pretty sc (S (length V)) ind 0 (hdr_len h) (4 + off) (4 + off + 4 * hdr_len h)); cbn [bind]; [discriminate|exact (not_fuel_err _ S1)|discriminate]. }
  destruct (hdr_type h =? OBJECT_CONTAINER_TAG); [|discriminate].
  destruct (rd_words (S (length V)) V 0 (hdr_len h) (4 + off)) as [kws|] eqn:RK; [|discriminate].
  pose proof (rd_words_len _ _ _ _ _ _ RK) as LK.
  pose proof (obj_loop_not_fuel V pretty sc (4 + off) Hok Hnf kws ind 0 (4 + off + 4 * hdr_len h) (4 + off + 8 * hdr_len h)
                (4 + off + 8 * hdr_len h + sum_je_len kws) ltac:(lia) ltac:(lia)) as S1.
  destruct (obj_str_loop V pretty sc kws ind 0 (4 + off + 4 * hdr_len h) (4 + off + 8 * hdr_len h) (4 + off + 8 * hdr_len h + sum_je_len kws));
    cbn [bind]; [discriminate|exact (not_fuel_err _ S1)|discriminate].
Qed.

Lemma scalar_ok_read pf V pretty f ind j v r : scalar_str_w pf V pretty f ind j v = Ok r -> j + 4 <= lenN V.
Proof. destruct f as [|f]; cbn [scalar_str_w]; [discriminate|]. destruct (read_u32 V j) eqn:R; [intros _; exact (read_u32_bound _ _ _ R)|discriminate]. Qed.

Lemma scalar_not_fuel pf V pretty : forall f ind j v, (1 <= f)%nat -> lenN V < j + 4 * N.of_nat f -> j + 4 <= v ->
  not_fuel (scalar_str_w pf V pretty f ind j v).
Proof.
  induction f as [|f IH]; intros ind j v Hf Hl Hv; [lia|]. cbn [scalar_str_w].
  destruct (read_u32 V j) as [w|] eqn:RW; [|discriminate].
  assert (T : forall (r : res (list N)), not_fuel r -> not_fuel (do t <- r; Ok (t, je_len w))).
  { intros [t|e|] Hr; cbn [bind]; [discriminate|intros H; apply Hr; injection H as ->; reflexivity|discriminate]. }
  apply T.
  destruct (je_type w =? NULL_TAG); [discriminate|]. destruct (je_type w =? TRUE_TAG); [discriminate|].
  destruct (je_type w =? FALSE_TAG); [discriminate|].
  destruct (je_type w =? NUMBER_TAG).
  { unfold slice_p. destruct (slice V v (je_len w)) as [p|]; cbn [or_panic bind]; [|discriminate].
    pose proof (num_decode_not_fuel p) as S1. destruct (num_decode p); cbn [bind]; [discriminate|exact (not_fuel_err _ S1)|discriminate]. }
  destruct (je_type w =? STRING_TAG); [apply escape_range_not_err|].
  destruct (je_type w =? CONTAINER_TAG); [|discriminate].
  apply container_not_fuel.
  - intros ind' j' v' r. apply scalar_ok_read.
  - intros Hb ind' j' v' Hj' Hv'. apply IH; lia.
Qed.

Theorem render_w_not_fuel pf V pretty : render_w pf V pretty <> Err EFuel.
Proof.
  unfold render_w. apply container_not_fuel.
  - intros ind j v r. apply scalar_ok_read.
  - intros _ ind j v Hj Hv. apply scalar_not_fuel; [lia|unfold lenN; lia|exact Hv].
Qed.
