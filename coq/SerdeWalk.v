(* SerdeWalk.v — offset-faithful model of to_serde_json / to_serde_json_object / containter_to_serde_json /
   containter_to_serde_json_object / scalar_to_serde_json of src/functions.rs.
     read_u32(value, 0).unwrap_or_default()  -> header 0 on a short buffer (its type is none of the three: InvalidJsonb)
     read_u32(value, 4) failing              -> Err (InvalidJsonb)
     for .. in iterate_object_entries / iterate_array -> the folds of Iter.v (same reads, same slices, same panics)
     &value[..len], &value[8..]              -> Panic when out of bounds
     Number::decode(..)?                     -> Err;   from_f64 of a NaN / infinity is None -> Err (InvalidJson)
     String::from_utf8_unchecked             -> the bytes as they are (no check)
     serde_json::Map::insert                 -> a later member with the same key replaces the earlier one; the map is
                                               compared order-insensitively (kept key-sorted here, as assoc_insert does)
     an entry type / header type that is none of the known tags -> Err (InvalidJsonb)
   A nested container is converted by the same function on the payload SUB-SLICE the iterator handed out (a fresh
   buffer whose offsets start at 0).  That slice is strictly shorter than the buffer it was cut from (it starts at
   offset >= 4, resp. 8), so the recursion runs on fuel = S (length bs) and never runs out.
   The JSON-text branch is the one of Dispatch.v.  Executable definitions only; SerdeWalkProofs.v shows that on `enc v`
   the walker returns the tree conversion of Serde.v. *)
From Coq Require Import List NArith ZArith Bool.
Import ListNotations.
From JB Require Import Constants Bytes Utf8 Num Value Codec Serde Dispatch Walk Iter.
Open Scope N_scope.

(* serde_json::Number::from(i64) / from(u64) / from_f64 *)
Definition num_to_serde_w (n : num) : res sj :=
  match n with
  | NInt z => Ok (SNum (snum_of_i64 z))
  | NUInt u => Ok (SNum (SPos u))
  | NFloat b => match snum_of_f64 b with Some x => Ok (SNum x) | None => Err EOther end
  end.

(* scalar_to_serde_json; `rec` is containter_to_serde_json *)
Definition scalar_to_serde_w (rec : list N -> res sj) (j : je) (p : list N) : res sj :=
  let ty := fst j in let len := snd j in
  if ty =? NULL_TAG then Ok SNull
  else if ty =? TRUE_TAG then Ok (SBool true)
  else if ty =? FALSE_TAG then Ok (SBool false)
  else if ty =? NUMBER_TAG then
    match slice p 0 len with
    | None => Panic
    | Some b => do n <- num_decode b; num_to_serde_w n
    end
  else if ty =? STRING_TAG then
    match slice p 0 len with
    | None => Panic
    | Some s => Ok (SStr s)
    end
  else if ty =? CONTAINER_TAG then rec p
  else Err EOther.

(* the two loops, shared by both container functions *)
Definition members_to_serde_w (rec : list N -> res sj) (bs : list N) (hdr : N) : res (list (list N * sj)) :=
  iterate_object_entries bs hdr
    (fun acc k j p => do x <- scalar_to_serde_w rec j p; Ok (inl (assoc_insert k x acc)))
    (fun acc => Ok acc) [].
Definition elements_to_serde_w (rec : list N -> res sj) (bs : list N) (hdr : N) : res (list sj) :=
  iterate_array bs hdr
    (fun acc j p => do x <- scalar_to_serde_w rec j p; Ok (inl (acc ++ [x])))
    (fun acc => Ok acc) [].

Definition header_or_default (bs : list N) : N := match read_u32 bs 0 with Some h => h | None => 0 end.

(* containter_to_serde_json *)
Fixpoint container_to_serde_w (fuel : nat) (bs : list N) : res sj :=
  match fuel with O => Err EFuel | S f =>
  let hdr := header_or_default bs in
  let ty := hdr_type hdr in
  if ty =? OBJECT_CONTAINER_TAG then
    do o <- members_to_serde_w (container_to_serde_w f) bs hdr; Ok (SObj o)
  else if ty =? ARRAY_CONTAINER_TAG then
    do l <- elements_to_serde_w (container_to_serde_w f) bs hdr; Ok (SArr l)
  else if ty =? SCALAR_CONTAINER_TAG then
    match read_u32 bs 4 with
    | None => Err EOther
    | Some w =>
        match slice_from bs 8 with
        | None => Panic
        | Some p => scalar_to_serde_w (container_to_serde_w f) (decode_je w) p
        end
    end
  else Err EOther
  end.

(* containter_to_serde_json_object *)
Definition container_to_serde_object_w (bs : list N) : res (option sj) :=
  let hdr := header_or_default bs in
  let ty := hdr_type hdr in
  if ty =? OBJECT_CONTAINER_TAG then
    do o <- members_to_serde_w (container_to_serde_w (S (length bs))) bs hdr; Ok (Some (SObj o))
  else if (ty =? ARRAY_CONTAINER_TAG) || (ty =? SCALAR_CONTAINER_TAG) then Ok None
  else Err EOther.

(* ---- the public functions ---- *)
Definition to_serde_json_w (bs : list N) : res sj :=
  if is_jsonb bs then container_to_serde_w (S (length bs)) bs else to_serde_json_m bs.
Definition to_serde_json_object_w (bs : list N) : res (option sj) :=
  if is_jsonb bs then container_to_serde_object_w bs else to_serde_json_object_m bs.
