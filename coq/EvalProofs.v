(* EvalProofs.v — the path evaluator never panics on paths in the image of the parser (C08). *)
From Coq Require Import List NArith ZArith Bool Lia.
Import ListNotations.
From JB Require Import Constants Bytes Utf8 Num NumProofs Value Codec Order TreeOps Path PathSem.
Open Scope N_scope.
Set Default Timeout 120.

(* ---- evaluation never panics on paths in the image of the parser (C08) ---- *)
Definition inner_step (p : path) : bool :=
  match p with PRoot | PCurrent | PFilter _ | PPredicate _ => false | _ => true end.
Definition operand_ok (e : expr) : bool :=
  match e with
  | EValue _ => true
  | EPaths (PRoot :: r) | EPaths (PCurrent :: r) => forallb inner_step r
  | _ => false
  end.
(* expressions the parser produces: comparisons of operands, && / ||, exists(paths); arithmetic is parsed but is
   answered with an error by the evaluator *)
Fixpoint expr_ok (fuel : nat) (e : expr) : bool :=
  match fuel with O => false | S f =>
  match e with
  | EBin OAnd l r | EBin OOr l r => expr_ok f l && expr_ok f r
  | EBin _ l r => operand_ok l && operand_ok r
  | EExists ps => match ps with (PRoot :: r) | (PCurrent :: r) => forallb (step_ok f) r | _ => false end
  | EArithU _ _ | EArithB _ _ _ => true
  | _ => false
  end end
with step_ok (fuel : nat) (p : path) : bool :=
  match fuel with O => false | S f =>
  match p with
  | PRoot | PCurrent | PPredicate _ => false
  | PFilter e => expr_ok f e
  | _ => true
  end end.

Lemma select_step_np p v : inner_step p = true -> select_step p v <> Panic.
Proof. unfold select_step. destruct (is_container v); destruct p; cbn; intros H; try discriminate. Qed.
Lemma flat_map_res_np {A B} (f : A -> res (list B)) l : (forall x, f x <> Panic) -> flat_map_res f l <> Panic.
Proof.
  intros Hf. induction l as [|x l IH]; cbn [flat_map_res]; [discriminate|].
  pose proof (Hf x). destruct (f x); cbn [bind]; try discriminate; [|contradiction].
  destruct (flat_map_res f l); cbn [bind]; try discriminate. contradiction.
Qed.
Lemma filter_res_np {A} (f : A -> res bool) l : (forall x, f x <> Panic) -> filter_res f l <> Panic.
Proof.
  intros Hf. induction l as [|x l IH]; cbn [filter_res]; [discriminate|].
  pose proof (Hf x). destruct (f x); cbn [bind]; try discriminate; [|contradiction].
  destruct (filter_res f l); cbn [bind]; try discriminate. contradiction.
Qed.
Lemma exists_res_np {A} (f : A -> res bool) l : (forall x, f x <> Panic) -> exists_res f l <> Panic.
Proof.
  intros Hf. induction l as [|x l IH]; cbn [exists_res]; [discriminate|].
  pose proof (Hf x). destruct (f x) as [[]| |]; cbn [bind]; try discriminate; [exact IH|contradiction].
Qed.
Lemma compare_value_np op a b : op <> OAnd -> op <> OOr -> compare_value op a b <> Panic.
Proof. destruct op; cbn; intros; try discriminate; congruence. Qed.

Lemma walk_operand_np r : forall fr, forallb inner_step r = true -> walk_operand r fr <> Panic.
Proof.
  induction r as [|p r IH]; intros fr Hr; [discriminate|]. cbn [forallb] in Hr. apply andb_true_iff in Hr. destruct Hr as [H1 H2].
  pose proof (flat_map_res_np (select_step p) fr (fun x => select_step_np p x H1)) as F.
  destruct p; try discriminate H1; cbn [walk_operand];
    (destruct (flat_map_res _ fr); [cbn [bind]; apply IH; exact H2|cbn [bind]; discriminate|exfalso; apply F; reflexivity]).
Qed.
Lemma operand_values_np root pos e : operand_ok e = true -> expr_values root pos e <> Panic.
Proof.
  intros H. destruct e as [ps|v| | | |]; cbn [operand_ok] in H; try discriminate H; [|cbn [expr_values]; discriminate].
  cbn [expr_values]. destruct ps as [|p r]; [discriminate H|]. cbn [tl].
  destruct p; try discriminate H.
  - pose proof (walk_operand_np r [root] H) as F. destruct (walk_operand r [root]); cbn [bind]; try discriminate. contradiction.
  - pose proof (walk_operand_np r [pos] H) as F. destruct (walk_operand r [pos]); cbn [bind]; try discriminate. contradiction.
Qed.

(* the walk never panics when the filter function does not, on steps of the parser's image *)
Lemma walk_np fe k : (forall pos e k', (k' < k)%nat -> expr_ok k' e = true -> fe pos e <> Panic) ->
  forall r fr, forallb (step_ok k) r = true -> walk fe r fr <> Panic.
Proof.
  intros Hfe. induction r as [|p r IH]; intros fr Hr; [discriminate|].
  cbn [forallb] in Hr. apply andb_true_iff in Hr. destruct Hr as [H1 H2].
  destruct k as [|k']; [discriminate H1|]. cbn [step_ok] in H1.
  destruct p as [| | | |s|s|s|l|e|e]; try discriminate H1; cbn [walk].
  1-6: match goal with |- context [flat_map_res (select_step ?q) ?f0] =>
         pose proof (flat_map_res_np (select_step q) f0 (fun x => select_step_np q x eq_refl)) as F end;
       match goal with |- bind ?g _ <> _ => destruct g end;
       [cbn [bind]; apply IH; exact H2|cbn [bind]; discriminate|exfalso; apply F; reflexivity].
  pose proof (filter_res_np (fun pos => fe pos e) fr (fun x => Hfe x e k' (Nat.lt_succ_diag_r k') H1)) as F.
  destruct (filter_res _ fr); [cbn [bind]; apply IH; exact H2|cbn [bind]; discriminate|exfalso; apply F; reflexivity].
Qed.

Lemma expr_ok_mono k : forall e k2, (k <= k2)%nat -> expr_ok k e = true -> expr_ok k2 e = true
with step_ok_mono k : forall p k2, (k <= k2)%nat -> step_ok k p = true -> step_ok k2 p = true.
Proof.
  - destruct k as [|k]; intros e k2 L H; [discriminate H|]. destruct k2 as [|k2]; [lia|]. cbn [expr_ok] in *.
    destruct e as [ps|v|op l r|op x|op l r|ps]; try discriminate H; try reflexivity.
    + destruct op; try exact H; apply andb_true_iff in H; destruct H as [H1 H2];
        rewrite (expr_ok_mono k l k2), (expr_ok_mono k r k2) by (assumption || lia); reflexivity.
    + destruct ps as [|p r]; [discriminate H|].
      assert (G : forall r, forallb (step_ok k) r = true -> forallb (step_ok k2) r = true).
      { induction r0 as [|q r0 IHr]; intros Hr; [reflexivity|]. cbn [forallb] in *. apply andb_true_iff in Hr. destruct Hr as [A B].
        rewrite (step_ok_mono k q k2), IHr by (assumption || lia). reflexivity. }
      destruct p; try discriminate H; apply G; exact H.
  - destruct k as [|k]; intros p k2 L H; [discriminate H|]. destruct k2 as [|k2]; [lia|]. cbn [step_ok] in *.
    destruct p; try discriminate H; try reflexivity. apply (expr_ok_mono k e k2); [lia|exact H].
Qed.

(* a filter expression in the parser's image is evaluated to a boolean or an error; and so is a whole path *)
Theorem filter_expr_np fuel : forall root pos e k, expr_ok k e = true -> filter_expr fuel root pos e <> Panic
with find_positions_np fuel : forall root cur ps k,
  match ps with
  | PCurrent :: r => cur <> None /\ forallb (step_ok k) r = true
  | PRoot :: r => forallb (step_ok k) r = true
  | [PPredicate e] => expr_ok k e = true
  | r => forallb (step_ok k) r = true
  end -> find_positions fuel root cur ps <> Panic.
Proof.
  - destruct fuel as [|fuel]; intros root pos e k H; cbn [filter_expr]; [discriminate|].
    destruct k as [|k']; [discriminate H|]. cbn [expr_ok] in H.
    destruct e as [ps|v|op l r|op x|op l r|ps]; try discriminate H; try discriminate.
    + destruct op; try (apply andb_true_iff in H; destruct H as [H1 H2]).
      1-2: pose proof (filter_expr_np fuel root pos l k' H1); pose proof (filter_expr_np fuel root pos r k' H2);
           destruct (filter_expr fuel root pos l); cbn [bind]; try discriminate; [|contradiction];
           destruct (filter_expr fuel root pos r); cbn [bind]; try discriminate; contradiction.
      all: pose proof (operand_values_np root pos l H1) as Fl; pose proof (operand_values_np root pos r H2) as Fr;
        destruct (expr_values root pos l) as [a| |]; cbn [bind]; try discriminate; [|contradiction];
        destruct (expr_values root pos r) as [b| |]; cbn [bind]; try discriminate; [|contradiction];
        apply exists_res_np; intros x; apply exists_res_np; intros y; apply compare_value_np; discriminate.
    + destruct ps as [|p r]; [discriminate H|].
      assert (F : find_positions fuel root (Some pos) (p :: r) <> Panic).
      { apply (find_positions_np fuel root (Some pos) (p :: r) k').
        destruct p; try discriminate H; [exact H|split; [discriminate|exact H]]. }
      destruct (find_positions fuel root (Some pos) (p :: r)); cbn [bind]; try discriminate. contradiction.
  - destruct fuel as [|fuel]; intros root cur ps k H; cbn [find_positions]; [discriminate|].
    assert (W : forall r fr k0, forallb (step_ok k0) r = true -> walk (fun pos e => filter_expr fuel root pos e) r fr <> Panic).
    { intros r fr k0 Hr. apply (walk_np _ k0); [|exact Hr]. intros pos e k' _ He. apply (filter_expr_np fuel root pos e k' He). }
    destruct ps as [|p r]; [cbn [bind walk]; discriminate|].
    destruct p as [| | | |s|s|s|l|e|e].
    + cbn [bind walk]. apply (W r [root] k H).
    + destruct H as [Hc Hr]. destruct cur as [c|]; [|contradiction]. cbn [bind walk]. apply (W r [c] k Hr).
    + cbn [bind]. apply (W _ [root] k H).
    + cbn [bind]. apply (W _ [root] k H).
    + cbn [bind]. apply (W _ [root] k H).
    + cbn [bind]. apply (W _ [root] k H).
    + cbn [bind]. apply (W _ [root] k H).
    + cbn [bind]. apply (W _ [root] k H).
    + cbn [bind]. apply (W _ [root] k H).
    + destruct r as [|p2 r2].
      * cbn [bind walk]. pose proof (filter_expr_np fuel root root e k H) as F.
        cbn [filter_res]. destruct (filter_expr fuel root root e) as [[]| |]; cbn [bind]; try discriminate; contradiction.
      * destruct k as [|k']; cbn [forallb step_ok] in H; discriminate H.
Qed.
