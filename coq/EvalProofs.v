(* EvalProofs.v — the path evaluator never panics on paths in the image of the parser (C08). *)
From Coq Require Import List NArith ZArith Bool Lia.
Import ListNotations.
From JB Require Import Constants Bytes Utf8 Num NumProofs Value Codec Order TreeOps Path PathInd PathSem.
Open Scope N_scope.
Set Default Timeout 120.

(* ---- evaluation never panics on paths in the image of the parser (C08) ---- *)
Definition inner_step (p : path) : bool :=
  match p with PRoot | PCurrent | PFilter _ | PPredicate _ => false | _ => true end.
Definition operand_ok (e : expr) : bool :=
  match e with
  | EValue _ => true
  | EPaths (PRoot :: r) | EPaths (PCurrent :: r) => forallb inner_step r
  | _ => false
  end.
(* expressions the parser produces: comparisons of operands, && / ||, exists(paths); arithmetic is parsed but is
   answered with an error by the evaluator.  Structural (no depth bound). *)
Definition step_ok_with (eo : expr -> bool) (p : path) : bool :=
  match p with
  | PRoot | PCurrent | PPredicate _ => false
  | PFilter e => eo e
  | _ => true
  end.
Fixpoint expr_ok (e : expr) : bool :=
  match e with
  | EBin OAnd l r | EBin OOr l r => expr_ok l && expr_ok r
  | EBin _ l r => operand_ok l && operand_ok r
  | EExists ps => match ps with (PRoot :: r) | (PCurrent :: r) => forallb (step_ok_with expr_ok) r | _ => false end
  | EArithU _ _ | EArithB _ _ _ => true
  | _ => false
  end.
Definition step_ok (p : path) : bool := step_ok_with expr_ok p.
(* the paths find_positions is called on: the whole path, or the argument of exists() *)
Definition path_ok (cur : bool) (ps : list path) : Prop :=
  match ps with
  | PCurrent :: r => cur = true /\ forallb step_ok r = true
  | PRoot :: r => forallb step_ok r = true
  | [PPredicate e] => expr_ok e = true
  | r => forallb step_ok r = true
  end.

Lemma select_step_np p v : inner_step p = true -> select_step p v <> Panic.
Proof. unfold select_step. destruct (is_container v); destruct p; cbn; intros H; try discriminate. Qed.
Lemma flat_map_res_np {A B} (f : A -> res (list B)) l : (forall x, f x <> Panic) -> flat_map_res f l <> Panic.
Proof.
  intros Hf. induction l as [|x l IH]; cbn [flat_map_res]; [discriminate|].
  pose proof (Hf x). destruct (f x); cbn [bind]; try discriminate; [|contradiction].
  destruct (flat_map_res f l); cbn [bind]; try discriminate. contradiction.
Qed.
Lemma filter_res_np {A} (f : A -> res bool) l : (forall x, f x <> Panic) -> filter_res f l <> Panic.
Proof.
  intros Hf. induction l as [|x l IH]; cbn [filter_res]; [discriminate|].
  pose proof (Hf x). destruct (f x); cbn [bind]; try discriminate; [|contradiction].
  destruct (filter_res f l); cbn [bind]; try discriminate. contradiction.
Qed.
Lemma exists_res_np {A} (f : A -> res bool) l : (forall x, f x <> Panic) -> exists_res f l <> Panic.
Proof.
  intros Hf. induction l as [|x l IH]; cbn [exists_res]; [discriminate|].
  pose proof (Hf x). destruct (f x) as [[]| |]; cbn [bind]; try discriminate; [exact IH|contradiction].
Qed.
Lemma compare_value_np op a b : op <> OAnd -> op <> OOr -> compare_value op a b <> Panic.
Proof. destruct op; cbn; intros; try discriminate; congruence. Qed.

Lemma walk_operand_np r : forall fr, forallb inner_step r = true -> walk_operand r fr <> Panic.
Proof.
  induction r as [|p r IH]; intros fr Hr; [discriminate|]. cbn [forallb] in Hr. apply andb_true_iff in Hr. destruct Hr as [H1 H2].
  pose proof (flat_map_res_np (select_step p) fr (fun x => select_step_np p x H1)) as F.
  destruct p; try discriminate H1; cbn [walk_operand];
    (destruct (flat_map_res _ fr); [cbn [bind]; apply IH; exact H2|cbn [bind]; discriminate|exfalso; apply F; reflexivity]).
Qed.
Lemma operand_values_np root pos e : operand_ok e = true -> expr_values root pos e <> Panic.
Proof.
  intros H. destruct e as [ps|v| | | |]; cbn [operand_ok] in H; try discriminate H; [|cbn [expr_values]; discriminate].
  cbn [expr_values]. destruct ps as [|p r]; [discriminate H|]. cbn [tl].
  destruct p; try discriminate H.
  - pose proof (walk_operand_np r [root] H) as F. destruct (walk_operand r [root]); cbn [bind]; try discriminate. contradiction.
  - pose proof (walk_operand_np r [pos] H) as F. destruct (walk_operand r [pos]); cbn [bind]; try discriminate. contradiction.
Qed.

(* the walk never panics when the filter function does not on the filters of the path *)
Lemma walk_np fe : forall r fr, forallb step_ok r = true ->
  steps_all (fun e => expr_ok e = true -> forall pos, fe pos e <> Panic) r -> walk fe r fr <> Panic.
Proof.
  induction r as [|p r IH]; intros fr Hr Hfe; [discriminate|].
  cbn [forallb] in Hr. apply andb_true_iff in Hr. destruct Hr as [H1 H2].
  apply steps_all_cons in Hfe. destruct Hfe as [Hp Hfe].
  destruct p as [| | | |s|s|s|l|e|e]; try discriminate H1; cbn [walk].
  1-6: match goal with |- context [flat_map_res (select_step ?q) ?f0] =>
         pose proof (flat_map_res_np (select_step q) f0 (fun x => select_step_np q x eq_refl)) as F end;
       match goal with |- bind ?g _ <> _ => destruct g end;
       [cbn [bind]; apply IH; assumption|cbn [bind]; discriminate|exfalso; apply F; reflexivity].
  pose proof (filter_res_np (fun pos => fe pos e) fr (fun x => Hp e (or_introl eq_refl) H1 x)) as F.
  destruct (filter_res _ fr); [cbn [bind]; apply IH; assumption|cbn [bind]; discriminate|exfalso; apply F; reflexivity].
Qed.

Lemma find_positions_with_np fe root cur ps : path_ok (match cur with Some _ => true | None => false end) ps ->
  steps_all (fun e => expr_ok e = true -> forall pos, fe pos e <> Panic) ps ->
  find_positions_with fe root cur ps <> Panic.
Proof.
  intros H Hfe. unfold find_positions_with.
  assert (W : forall r fr, forallb step_ok r = true -> steps_all (fun e => expr_ok e = true -> forall pos, fe pos e <> Panic) r ->
                           walk fe r fr <> Panic) by (intros; apply walk_np; assumption).
  destruct ps as [|p r]; [cbn [bind walk]; discriminate|].
  pose proof (proj2 (proj1 (steps_all_cons _ _ _) Hfe)) as Hr.
  destruct p as [| | | |s|s|s|l|e|e]; cbn [path_ok] in H.
  - cbn [bind walk]. apply W; assumption.
  - destruct H as [Hc H]. destruct cur as [c|]; [|discriminate Hc]. cbn [bind walk]. apply W; assumption.
  - cbn [bind]. apply W; assumption.
  - cbn [bind]. apply W; assumption.
  - cbn [bind]. apply W; assumption.
  - cbn [bind]. apply W; assumption.
  - cbn [bind]. apply W; assumption.
  - cbn [bind]. apply W; assumption.
  - cbn [bind]. apply W; assumption.
  - destruct r as [|p2 r2].
    + cbn [bind walk filter_res]. apply steps_all_cons in Hfe. destruct Hfe as [He _].
      pose proof (He e (or_introl eq_refl) H root) as F.
      destruct (fe root e) as [[]| |]; cbn [bind]; try discriminate; contradiction.
    + cbn [forallb step_ok step_ok_with] in H. discriminate H.
Qed.

(* a filter expression in the parser's image is evaluated to a boolean or an error; and so is a whole path *)
Theorem filter_expr_np root : forall e, expr_ok e = true -> forall pos, filter_expr root pos e <> Panic.
Proof.
  induction e as [ps IH|v|op l r IHl IHr|op x IHx|op l r IHl IHr|ps IH] using expr_ind_steps; intros H pos;
    cbn [filter_expr]; try discriminate H; try discriminate.
  - cbn [expr_ok] in H. destruct op; try (apply andb_true_iff in H; destruct H as [H1 H2]).
    1-2: pose proof (IHl H1 pos); pose proof (IHr H2 pos);
         destruct (filter_expr root pos l); cbn [bind]; try discriminate; [|contradiction];
         destruct (filter_expr root pos r); cbn [bind]; try discriminate; contradiction.
    all: pose proof (operand_values_np root pos l H1) as Fl; pose proof (operand_values_np root pos r H2) as Fr;
      destruct (expr_values root pos l) as [a| |]; cbn [bind]; try discriminate; [|contradiction];
      destruct (expr_values root pos r) as [b| |]; cbn [bind]; try discriminate; [|contradiction];
      apply exists_res_np; intros x; apply exists_res_np; intros y; apply compare_value_np; discriminate.
  - cbn [expr_ok] in H. destruct ps as [|p r]; [discriminate H|].
    assert (F : find_positions_with (fun pos' e' => filter_expr root pos' e') root (Some pos) (p :: r) <> Panic).
    { apply find_positions_with_np; [|exact IH].
      destruct p; try discriminate H; cbn [path_ok]; [exact H|split; [reflexivity|exact H]]. }
    destruct (find_positions_with _ root (Some pos) (p :: r)); cbn [bind]; try discriminate. contradiction.
Qed.
Theorem find_positions_np root cur ps : path_ok (match cur with Some _ => true | None => false end) ps ->
  find_positions root cur ps <> Panic.
Proof.
  intros H. apply find_positions_with_np; [exact H|]. apply steps_all_intro. intros e He pos. apply filter_expr_np. exact He.
Qed.
