(* Builder.v — offset-faithful model of src/builder.rs: Entry, ArrayBuilder, ObjectBuilder (a BTreeMap keyed by
   name: a key-sorted association list, a second push under the same key replaces the first), build_into with
   reserve_jentries / replace_jentry back-patching on the growing output buffer, write_entry.
   `entry_item` is the layout a builder denotes, as a pure function (the analogue of Codec.enc_item);
   BuilderProofs.v shows build_into writes exactly that and only appends.  The initial lengths and reserved sizes are the
   expressions the translator reads from builder.rs into gen/Constants.v (names BLD_...).  Executable definitions only. *)
From Coq Require Import List NArith ZArith Bool.
Import ListNotations.
From JB Require Import Constants Bytes Value Codec.
Open Scope N_scope.

Inductive entry :=
| ERaw (j : je) (data : list N)                 (* Entry::Raw(jentry, data) *)
| EArr (es : list entry)                        (* Entry::ArrayBuilder *)
| EObj (kes : list (list N * entry)).           (* Entry::ObjectBuilder: BTreeMap<&str, Entry> *)

Section entry_ind2.
  Variable P : entry -> Prop.
  Hypothesis Hraw : forall j d, P (ERaw j d).
  Hypothesis Harr : forall es, Forall P es -> P (EArr es).
  Hypothesis Hobj : forall kes, Forall (fun ke => P (snd ke)) kes -> P (EObj kes).
  Fixpoint entry_ind2 (e : entry) : P e :=
    match e with
    | ERaw j d => Hraw j d
    | EArr es => Harr es ((fix go (l : list entry) : Forall P l :=
                             match l with [] => Forall_nil _ | x :: xs => Forall_cons _ (entry_ind2 x) (go xs) end) es)
    | EObj kes => Hobj kes ((fix go (l : list (list N * entry)) : Forall (fun ke => P (snd ke)) l :=
                               match l with [] => Forall_nil _ | ke :: xs => Forall_cons ke (entry_ind2 (snd ke)) (go xs) end) kes)
    end.
End entry_ind2.

(* ObjectBuilder::push_*: BTreeMap::insert *)
Definition obj_push (kes : list (list N * entry)) (k : list N) (e : entry) : list (list N * entry) :=
  assoc_insert k e kes.

Section Loops.
  Variable write_entry : list N -> entry -> list N * je.
  (* for entry in entries { write_entry; len += jentry.length; replace_jentry } *)
  Fixpoint bld_values (buf : list N) (idx : nat) (acc : N) (l : list entry) : list N * nat * N :=
    match l with
    | [] => (buf, idx, acc)
    | e :: r =>
        let '(buf1, j) := write_entry buf e in
        let '(buf2, idx') := replace_jentry buf1 j idx in
        bld_values buf2 idx' (acc + snd j) r
    end.
  Fixpoint bld_members (buf : list N) (idx : nat) (acc : N) (l : list (list N * entry)) : list N * nat * N :=
    match l with
    | [] => (buf, idx, acc)
    | (_, e) :: r =>
        let '(buf1, j) := write_entry buf e in
        let '(buf2, idx') := replace_jentry buf1 j idx in
        bld_members buf2 idx' (acc + snd j) r
    end.
End Loops.
(* for (key, _) in entries.iter() { len += key.len(); extend(key); replace_jentry(make_string_jentry(key_len)) } *)
Fixpoint bld_keys (buf : list N) (idx : nat) (acc : N) (l : list (list N * entry)) : list N * nat * N :=
  match l with
  | [] => (buf, idx, acc)
  | (k, _) :: r =>
      let buf1 := buf ++ k in
      let '(buf2, idx') := replace_jentry buf1 (STRING_TAG, u32 (lenN k)) idx in
      bld_keys buf2 idx' (acc + lenN k) r
  end.

Fixpoint write_entry (buf : list N) (e : entry) : list N * je :=
  match e with
  | ERaw j d => (buf ++ d, j)
  | EArr es =>
      let buf1 := buf ++ be32 (header_word ARRAY_CONTAINER_TAG (lenN es)) in
      let '(buf2, idx) := reserve_jentries buf1 (N.to_nat (BLD_ARR_RESERVE (lenN es))) in
      let '(buf3, _, len) := bld_values write_entry buf2 idx (BLD_ARR_LEN0 (lenN es)) es in
      (buf3, (CONTAINER_TAG, u32 len))
  | EObj kes =>
      let buf1 := buf ++ be32 (header_word OBJECT_CONTAINER_TAG (lenN kes)) in
      let '(buf2, idx) := reserve_jentries buf1 (N.to_nat (BLD_OBJ_RESERVE (lenN kes))) in
      let '(buf3, idx', len) := bld_keys buf2 idx (BLD_OBJ_LEN0 (lenN kes)) kes in
      let '(buf4, _, len') := bld_members write_entry buf3 idx' len kes in
      (buf4, (CONTAINER_TAG, u32 len'))
  end.

(* ArrayBuilder::build_into / ObjectBuilder::build_into: the buffer afterwards (the returned size is in the entry) *)
Definition build_arr_into (buf : list N) (es : list entry) : list N := fst (write_entry buf (EArr es)).
Definition build_obj_into (buf : list N) (kes : list (list N * entry)) : list N := fst (write_entry buf (EObj kes)).

(* ---- the layout an entry denotes ---- *)
Fixpoint entry_item (e : entry) : je * list N :=
  match e with
  | ERaw j d => (j, d)
  | EArr es =>
      let items := map entry_item es in
      let body := be32 (header_word ARRAY_CONTAINER_TAG (lenN es))
                    ++ flat_map (fun it => be32 (je_encoded (fst it))) items
                    ++ flat_map snd items in
      ((CONTAINER_TAG, u32 (lenN body)), body)
  | EObj kes =>
      let items := map (fun ke => entry_item (snd ke)) kes in
      let body := be32 (header_word OBJECT_CONTAINER_TAG (lenN kes))
                    ++ flat_map (fun ke => be32 (jentry_word STRING_TAG (lenN (fst ke)))) kes
                    ++ flat_map (fun it => be32 (je_encoded (fst it))) items
                    ++ flat_map (fun ke => fst ke) kes
                    ++ flat_map snd items in
      ((CONTAINER_TAG, u32 (lenN body)), body)
  end.

(* the length field of every entry is the length of what is written for it *)
Fixpoint entry_okb (e : entry) : bool :=
  match e with
  | ERaw j d => snd j =? lenN d
  | EArr es => (lenN (snd (entry_item e)) <? 4294967296) && forallb entry_okb es
  | EObj kes => (lenN (snd (entry_item e)) <? 4294967296) && forallb (fun ke => entry_okb (snd ke)) kes
  end.
