(* PathGrammarSound.v — soundness of the JSONPath parser model (PathParse.parse_json_path) against the grammar of
   PathGrammar.v: whatever the parser accepts is a text of the grammar, with the structure the grammar gives it.
   With the completeness results of PathGrammarProofs.v: the parser accepts exactly the grammar on the rooted forms, and
   every byte string outside the grammar is an error.
   Layout: inversion of the combinators, indices, index lists, steps, runs of steps, numbers and literals, operands,
   atoms, the && / || chains, the mutual block (expressions, filters, exists) by induction on the fuel, whole paths. *)
From Coq Require Import List NArith ZArith Bool Lia.
Import ListNotations.
From JB Require Import Constants Bytes Utf8 Num Value Decimal JsonText TreeOps Path PathParse TextProofs TextRoundtrip
  PathParseProofs KeyPathRoundtrip PathSafe PathRoundtrip JsonGrammar JsonGrammarProofs KeyPathGrammar KeyPathGrammarProofs
  PathGrammar PathGrammarProofs.
Open Scope N_scope.
Set Default Timeout 60.

(* ================================================================== inversion of the combinators *)
Lemma pbind_ok {A B} (p : pres A) (f : list N -> A -> pres B) r b : pbind p f = POk r b ->
  exists r1 a, p = POk r1 a /\ f r1 a = POk r b.
Proof. destruct p as [r1 a| | |]; cbn [pbind]; intros H; try discriminate H. exists r1, a. split; [reflexivity|exact H]. Qed.
Lemma pmap_ok {A B} (g : A -> B) (p : pres A) r b : pmap g p = POk r b -> exists a, p = POk r a /\ b = g a.
Proof. unfold pmap. intros H. apply pbind_ok in H. destruct H as (r1 & a & E & H). injection H as <- <-. exists a. split; [exact E|reflexivity]. Qed.
Lemma palt_ok {A} (p : pres A) (q : unit -> pres A) r a : palt p q = POk r a -> p = POk r a \/ (p = PErr /\ q tt = POk r a).
Proof. destruct p; cbn [palt]; intros H; try discriminate H; [left; exact H|right; split; [reflexivity|exact H]]. Qed.

Ltac pbind_in H r a E := apply pbind_ok in H; destruct H as (r & a & E & H).

Lemma ms_ok bs : exists w, bs = w ++ multispace0 bs /\ pws w.
Proof. destruct (multispace0_split bs) as (w & E & Hw & _). exists w. split; assumption. Qed.
Lemma pchar_ws_sound c bs r u : pchar c (multispace0 bs) = POk r u -> exists w, bs = w ++ c :: r /\ pws w.
Proof. intros H. apply pchar_sound in H. destruct (ms_ok bs) as (w & E & Hw). rewrite H in E. exists w. split; assumption. Qed.

(* ================================================================== one index *)
Lemma last_minus_inv v n : last_minus v = Some n -> n = (- v)%Z /\ in_i32 (- v).
Proof.
  unfold last_minus, in_i32. destruct (v =? - two63)%Z; [discriminate|].
  destruct ((-2147483648 <=? - v) && (- v <=? 2147483647))%Z eqn:E; [|discriminate]. intros H. injection H as <-.
  apply andb_true_iff in E. destruct E as [E1 E2]. apply Z.leb_le in E1. apply Z.leb_le in E2. split; [reflexivity|lia].
Qed.

Theorem pindex_sound bs r i : pindex bs = POk r i -> exists t, bs = t ++ r /\ index_text t i.
Proof.
  rewrite pindex_eq. intros H.
  apply palt_ok in H. destruct H as [H|[_ H]].
  { apply pmap_ok in H. destruct H as (a & E & ->). unfold pi32 in E.
    destruct (pint_sound (-2147483648) 2147483647 _ _ _ ltac:(lia) E) as (t & -> & Hs & Hr & _). exists t. split; [reflexivity|apply IX_position; assumption]. }
  apply palt_ok in H. destruct H as [H|[_ H]].
  { pbind_in H r1 u1 E1. pbind_in H r2 u2 E2. pbind_in H r3 v E3.
    destruct (ptag_nc_sound _ kw_last_ok _ _ _ E1) as (k & -> & Hk). destruct (pchar_ws_sound _ _ _ _ E2) as (w1 & -> & H1).
    destruct (ms_ok r2) as (w2 & Er2 & H2). unfold pi64 in E3.
    destruct (pint_sound (- two63) (two63 - 1) _ _ _ ltac:(unfold two63; lia) E3) as (t & Et & Hs & _ & _).
    destruct (last_minus v) as [n|] eqn:El; [|discriminate H]. injection H as <- <-. destruct (last_minus_inv v n El) as [-> Hv].
    exists (k ++ w1 ++ 45 :: w2 ++ t). split; [rewrite Er2, Et; norm; reflexivity|apply IX_last_minus; assumption]. }
  apply palt_ok in H. destruct H as [H|[_ H]].
  { pbind_in H r1 u1 E1. pbind_in H r2 u2 E2. pbind_in H r3 v E3. injection H as <- <-.
    destruct (ptag_nc_sound _ kw_last_ok _ _ _ E1) as (k & -> & Hk). destruct (pchar_ws_sound _ _ _ _ E2) as (w1 & -> & H1).
    destruct (ms_ok r2) as (w2 & Er2 & H2). unfold pi32 in E3.
    destruct (pint_sound (-2147483648) 2147483647 _ _ _ ltac:(lia) E3) as (t & Et & Hs & Hv & _).
    exists (k ++ w1 ++ 43 :: w2 ++ t). split; [rewrite Er2, Et; norm; reflexivity|apply X_IX_last_plus; assumption]. }
  apply pmap_ok in H. destruct H as (u & E & ->). destruct (ptag_nc_sound _ kw_last_ok _ _ _ E) as (k & -> & Hk).
  exists k. split; [reflexivity|apply IX_last; exact Hk].
Qed.

(* ================================================================== one array index, possibly a range *)
Theorem parray_index_sound bs r a : parray_index bs = POk r a -> exists t, bs = t ++ r /\ array_index_text t a.
Proof.
  rewrite parray_index_eq. intros H. apply palt_ok in H. destruct H as [H|[_ H]].
  - pbind_in H r1 s E1. pbind_in H r2 u2 E2. pbind_in H r3 e E3. injection H as <- <-.
    destruct (pindex_sound _ _ _ E1) as (t1 & -> & Hs). destruct (ms_ok r1) as (w1 & Er1 & H1).
    destruct (ptag_nc_sound _ kw_to_ok _ _ _ E2) as (k & Ek & Hk). destruct (ms_ok r2) as (w2 & Er2 & H2).
    destruct (pindex_sound _ _ _ E3) as (t2 & Et2 & He).
    exists (t1 ++ w1 ++ k ++ w2 ++ t2). split; [rewrite Er1, Ek, Er2, Et2; norm; reflexivity|apply AX_range; assumption].
  - apply pmap_ok in H. destruct H as (i & E & ->). destruct (pindex_sound _ _ _ E) as (t & -> & Hi).
    exists t. split; [reflexivity|apply AX_single; exact Hi].
Qed.

(* ================================================================== comma-separated lists *)
Section CommaSound.
  Context {A : Type}.
  Variable f : list N -> pres A.
  Variable item : list N -> A -> Prop.
  Hypothesis Hf : forall bs r a, f bs = POk r a -> exists t, bs = t ++ r /\ item t a.

  Lemma ws_item_sound bs r a : ws_around f bs = POk r a ->
    exists w1 t w2, bs = w1 ++ t ++ w2 ++ r /\ pws w1 /\ item t a /\ pws w2.
  Proof.
    unfold ws_around. intros H. pbind_in H r1 a1 E. injection H as <- <-.
    destruct (ms_ok bs) as (w1 & E1 & H1). destruct (Hf _ _ _ E) as (t & Et & Hi). destruct (ms_ok r1) as (w2 & E2 & H2).
    exists w1, t, w2. split; [rewrite <- E2, <- Et; exact E1|]. repeat split; assumption.
  Qed.

  (* the text after the first item, as the loop reads it *)
  Inductive ctail : list N -> list A -> Prop :=
  | CT_nil : ctail [] []
  | CT_cons w1 t a w2 ts l : pws w1 -> item t a -> pws w2 -> ctail ts l -> ctail (44 :: w1 ++ t ++ w2 ++ ts) (a :: l).

  Lemma comma_of_tail X l : ctail X l -> forall w1 t a w2, pws w1 -> item t a -> pws w2 -> comma_list item (w1 ++ t ++ w2 ++ X) (a :: l).
  Proof.
    induction 1 as [|v1 u j v2 ts l G1 Gk G2 Ht IH]; intros w1 t a w2 H1 Hk H2.
    - rewrite app_nil_r. apply CL_one; assumption.
    - apply CL_cons; try assumption. apply IH; assumption.
  Qed.

  Lemma comma_loop_sound fuel : forall bs acc r l, sep_loop (ws_around f) (pchar 44) fuel bs acc = POk r l ->
    exists ts l', l = rev acc ++ l' /\ bs = ts ++ r /\ ctail ts l'.
  Proof.
    induction fuel as [|fuel IH]; intros bs acc r l H; cbn [sep_loop] in H; [discriminate H|].
    destruct (pchar 44 bs) as [r1 u| | |] eqn:Ec; try discriminate H.
    - destruct (length r1 =? length bs)%nat; [discriminate H|]. apply pchar_sound in Ec.
      destruct (ws_around f r1) as [r2 k| | |] eqn:Ek; try discriminate H.
      + destruct (IH _ _ _ _ H) as (ts & l' & -> & -> & Ht). destruct (ws_item_sound _ _ _ Ek) as (w1 & t & w2 & -> & H1 & Hk & H2).
        exists (44 :: w1 ++ t ++ w2 ++ ts), (k :: l'). split; [cbn [rev]; rewrite <- app_assoc; reflexivity|].
        split; [rewrite Ec; cbn [app]; rewrite <- !app_assoc; reflexivity|]. apply CT_cons; assumption.
      + injection H as <- <-. exists [], []. rewrite app_nil_r. repeat split. constructor.
    - injection H as <- <-. exists [], []. rewrite app_nil_r. repeat split. constructor.
  Qed.

  Lemma comma_list_sound bs r l : separated_list1 (ws_around f) (pchar 44) bs = POk r l ->
    exists ts, bs = ts ++ r /\ comma_list item ts l.
  Proof.
    unfold separated_list1. intros H. pbind_in H r1 a E.
    destruct (comma_loop_sound _ _ _ _ _ H) as (ts & l' & -> & -> & Ht). destruct (ws_item_sound _ _ _ E) as (w1 & t & w2 & -> & H1 & Hk & H2).
    exists (w1 ++ t ++ w2 ++ ts). split; [rewrite <- !app_assoc; reflexivity|]. cbn [rev app]. apply comma_of_tail; assumption.
  Qed.
End CommaSound.

Theorem array_indices_sound bs r l : array_indices bs = POk r l -> exists ts, bs = 91 :: ts ++ 93 :: r /\ index_list_text ts l.
Proof.
  unfold array_indices. intros H. pbind_in H r1 u1 E1. pbind_in H r2 l2 E2. pbind_in H r3 u3 E3. injection H as <- <-.
  apply pchar_sound in E1. apply pchar_sound in E3.
  destruct (comma_list_sound parray_index array_index_text parray_index_sound _ _ _ E2) as (ts & -> & Hl).
  exists ts. split; [rewrite E1, E3; reflexivity|exact Hl].
Qed.

(* ================================================================== one step *)
Theorem inner_path_sound bs r p : inner_path bs = POk r p -> exists t, bs = t ++ r /\ step_text t p.
Proof.
  intros H. destruct p as [| | | |s|s|s|l|e|e]; try (apply inner_path_sound_partial; [exact H|discriminate]).
  unfold inner_path in H.
  apply palt_ok in H. destruct H as [H|[_ H]]; [apply pmap_ok in H; destruct H as (? & _ & H); discriminate H|].
  apply palt_ok in H. destruct H as [H|[_ H]]; [apply pmap_ok in H; destruct H as (? & _ & H); discriminate H|].
  apply palt_ok in H. destruct H as [H|[_ H]]; [apply pmap_ok in H; destruct H as (? & _ & H); discriminate H|].
  apply palt_ok in H. destruct H as [H|[_ H]]; [apply pmap_ok in H; destruct H as (? & _ & H); discriminate H|].
  apply palt_ok in H. destruct H as [H|[_ H]]; [|apply pmap_ok in H; destruct H as (? & _ & H); discriminate H].
  apply pmap_ok in H. destruct H as (l' & E & H). injection H as ->.
  destruct (array_indices_sound _ _ _ E) as (ts & -> & Hl). exists (91 :: ts ++ [93]). split; [norm; reflexivity|apply ST_indices; exact Hl].
Qed.

(* ================================================================== runs of items, each with spacing around it *)
(* many0 (ws_around f): every item is preceded by spacing; the spacing after the last item is consumed too *)
Section ManySound.
  Context {A : Type}.
  Variable f : list N -> pres A.
  Variable item : list N -> A -> Prop.
  (* f reads spacing, an item, spacing *)
  Hypothesis Hf : forall bs r a, f bs = POk r a -> exists w1 t w2, bs = w1 ++ t ++ w2 ++ r /\ pws w1 /\ item t a /\ pws w2.

  Lemma spaced_absorb w ts l : pws w -> spaced item ts l -> exists ts' w', w ++ ts = ts' ++ w' /\ spaced item ts' l /\ pws w'.
  Proof.
    intros Hw Hs. destruct Hs as [|v t a ts l Hv Ht Hs].
    - exists [], w. rewrite app_nil_r. repeat split; [constructor|exact Hw].
    - exists ((w ++ v) ++ t ++ ts), []. rewrite app_nil_r. split; [rewrite <- !app_assoc; reflexivity|]. split; [|constructor].
      apply SP_cons; [apply pws_app; assumption|exact Ht|exact Hs].
  Qed.

  Lemma many0_sound fuel : forall bs acc r l, many0 f fuel bs acc = POk r l ->
    exists ts w l', l = rev acc ++ l' /\ bs = ts ++ w ++ r /\ spaced item ts l' /\ pws w.
  Proof.
    induction fuel as [|fuel IH]; intros bs acc r l H; cbn [many0] in H; [discriminate H|].
    destruct (f bs) as [r1 a| | |] eqn:E; try discriminate H.
    - destruct (length r1 =? length bs)%nat; [discriminate H|].
      destruct (IH _ _ _ _ H) as (ts & w & l' & -> & -> & Hs & Hw). destruct (Hf _ _ _ E) as (w1 & t & w2 & -> & H1 & Ht & H2).
      destruct (spaced_absorb w2 ts l' H2 Hs) as (ts' & w' & E' & Hs' & Hw').
      exists (w1 ++ t ++ ts'), (w' ++ w), (a :: l'). split; [cbn [rev]; rewrite <- app_assoc; reflexivity|].
      split; [rewrite <- !app_assoc; rewrite (app_assoc w2 ts), E', <- !app_assoc; reflexivity|].
      split; [apply SP_cons; assumption|apply pws_app; assumption].
    - injection H as <- <-. exists [], [], []. rewrite app_nil_r. repeat split; constructor.
  Qed.
End ManySound.

Lemma ws_step_sound bs r p : ws_around inner_path bs = POk r p ->
  exists w1 t w2, bs = w1 ++ t ++ w2 ++ r /\ pws w1 /\ step_text t p /\ pws w2.
Proof. apply (ws_item_sound inner_path step_text inner_path_sound). Qed.

Theorem steps_sound fuel bs r ps : many0 (ws_around inner_path) fuel bs [] = POk r ps ->
  exists ts w, bs = ts ++ w ++ r /\ steps_text ts ps /\ pws w.
Proof.
  intros H. destruct (many0_sound (ws_around inner_path) step_text ws_step_sound _ _ _ _ _ H) as (ts & w & l' & -> & -> & Hs & Hw).
  exists ts, w. repeat split; assumption.
Qed.

(* ================================================================== numbers *)
Lemma fsign_sound bs neg bs1 : fsign bs = (neg, bs1) -> exists sg, bs = sg ++ bs1 /\ jsign sg neg.
Proof.
  destruct bs as [|c r]; [intros H; injection H as <- <-; exists []; split; [reflexivity|constructor]|].
  destruct (N.eq_dec c 43) as [->|N43]; [intros H; injection H as <- <-; exists [43]; split; [reflexivity|constructor]|].
  destruct (N.eq_dec c 45) as [->|N45]; [intros H; injection H as <- <-; exists [45]; split; [reflexivity|constructor]|].
  rewrite (fsign_other c r N43 N45). intros H; injection H as <- <-. exists []. split; [reflexivity|constructor].
Qed.

Definition not_dot_next (r : list N) : Prop := match r with c :: _ => c <> 46 | [] => True end.

Lemma fmant_sound bs1 bs3 ids fds : fmant bs1 = POk bs3 (ids, fds) ->
  exists m pt, bs1 = m ++ bs3 /\ mantissa m ids fds pt /\ (pt = false -> no_digit_next bs3 /\ not_dot_next bs3).
Proof.
  unfold fmant. destruct (take_digits bs1 []) as [ids0 bs2] eqn:Et. destruct (take_digits_from _ _ _ Et) as (-> & Hd & Hn).
  assert (Dot : forall r2, take_digits r2 [] = (fds, bs3) -> ids0 = ids -> (ids <> [] \/ fds <> []) ->
                exists m pt, ids0 ++ 46 :: r2 = m ++ bs3 /\ mantissa m ids fds pt /\ (pt = false -> no_digit_next bs3 /\ not_dot_next bs3)).
  { intros r2 Ef -> Hne. destruct (take_digits_from _ _ _ Ef) as (-> & Hf & Hnf).
    destruct ids as [|i ids]; [|destruct fds as [|f0 fds]].
    - destruct Hne as [Hne|Hne]; [contradiction Hne; reflexivity|]. exists (46 :: fds), true. split; [reflexivity|].
      split; [apply X_M_no_integer; assumption|discriminate].
    - exists ((i :: ids) ++ [46]), true. split; [rewrite <- app_assoc; reflexivity|]. split; [apply X_M_no_fraction; [discriminate|exact Hd]|discriminate].
    - exists ((i :: ids) ++ 46 :: f0 :: fds), true. split; [rewrite <- app_assoc; reflexivity|].
      split; [apply M_frac; [discriminate|exact Hd|discriminate|exact Hf]|discriminate]. }
  assert (NoDot : forall c r2, bs2 = c :: r2 \/ (bs2 = [] /\ r2 = []) -> (match bs2 with 46 :: _ => False | _ => True end) ->
                  ids0 <> [] -> POk bs2 (ids0, @nil N) = POk bs3 (ids, fds) ->
                  exists m pt, ids0 ++ bs2 = m ++ bs3 /\ mantissa m ids fds pt /\ (pt = false -> no_digit_next bs3 /\ not_dot_next bs3)).
  { intros c r2 _ Hnd Hne H. injection H as <- <- <-. exists ids0, false. split; [reflexivity|]. split; [apply M_int; assumption|].
    intros _. split; [exact Hn|]. destruct bs2 as [|c' r']; [exact I|]. cbn [not_dot_next]. intros ->. exact Hnd. }
  destruct ids0 as [|i0 ids0].
  - destruct bs2 as [|c r2]; [discriminate|]. destruct (N.eq_dec c 46) as [->|N46].
    + destruct (take_digits r2 []) as [fds0 r'] eqn:Ef. destruct fds0 as [|f0 fds0]; [discriminate|]. intros H. injection H as <- <- <-.
      apply (Dot r2 Ef eq_refl). right; discriminate.
    + match goal with |- ?X = _ -> _ => replace X with (@PErr (list N * list N)) by (symmetry; kill_lit c; exfalso; apply N46; reflexivity) end.
      discriminate.
  - destruct bs2 as [|c r2].
    + intros H. apply (NoDot 0 [] (or_intror (conj eq_refl eq_refl)) I ltac:(discriminate) H).
    + destruct (N.eq_dec c 46) as [->|N46].
      * destruct (take_digits r2 []) as [fds0 r'] eqn:Ef. intros H. injection H as <- <- <-. apply (Dot r2 Ef eq_refl). left; discriminate.
      * match goal with |- ?X = _ -> _ => replace X with (POk (c :: r2) (i0 :: ids0, @nil N)) by (symmetry; kill_lit c; exfalso; apply N46; reflexivity) end.
        intros H. apply (NoDot c r2 (or_introl eq_refl)); [|discriminate|exact H].
        kill_lit c; try exact I. apply N46. reflexivity.
Qed.

Definition not_exp_next (r : list N) : Prop := match r with c :: _ => c <> 101 /\ c <> 69 | [] => True end.

Lemma fexp_sound neg bs3 m r neg' ids fds ex : fexp neg bs3 m = POk r (neg', ids, fds, ex) ->
  neg' = neg /\ ids = fst m /\ fds = snd m /\ exists te, bs3 = te ++ r /\ jexp te (exp_value ex) /\ (te = [] -> r = bs3 /\ not_exp_next r).
Proof.
  unfold fexp. destruct bs3 as [|c r0].
  - intros H. injection H as <- <- <- <- <-. repeat split. exists []. repeat split. constructor.
  - destruct ((c =? 101) || (c =? 69)) eqn:Ec.
    + destruct (fsign r0) as [eneg r1] eqn:Es. destruct (take_digits r1 []) as [eds r2] eqn:Ed. destruct eds as [|d0 eds]; [discriminate|].
      intros H. injection H as <- <- <- <- <-. repeat split.
      destruct (fsign_sound _ _ _ Es) as (sg & -> & Hsg). destruct (take_digits_from _ _ _ Ed) as (-> & Hd & _).
      exists (c :: sg ++ d0 :: eds). split; [cbn [app]; rewrite <- app_assoc; reflexivity|]. split; [|discriminate].
      cbn [exp_value]. apply Exp_some; [|exact Hsg|discriminate|exact Hd].
      apply orb_true_iff in Ec. destruct Ec as [Ec|Ec]; apply N.eqb_eq in Ec; tauto.
    + intros H. injection H as <- <- <- <- <-. repeat split. exists []. repeat split; try constructor.
      * apply orb_false_iff in Ec. apply N.eqb_neq. tauto.
      * apply orb_false_iff in Ec. apply N.eqb_neq. tauto.
Qed.

Lemma float_parts_sound bs r neg ids fds ex : float_parts bs = POk r (neg, ids, fds, ex) ->
  exists sg m pt te, bs = sg ++ m ++ te ++ r /\ jsign sg neg /\ mantissa m ids fds pt /\ jexp te (exp_value ex) /\
    (pt = false -> te = [] -> no_digit_next r /\ not_float_tail r = true).
Proof.
  rewrite float_parts_eq. destruct (fsign bs) as [neg0 bs1] eqn:Es. intros H. pbind_in H bs3 m Em. destruct m as [ids0 fds0].
  destruct (fexp_sound _ _ _ _ _ _ _ _ H) as (En & Ei & Ef & te & Eb & He & Hte). cbn [fst snd] in *. subst neg0 ids0 fds0.
  destruct (fsign_sound _ _ _ Es) as (sg & Ebs & Hsg). destruct (fmant_sound _ _ _ _ Em) as (m & pt & Eb1 & Hm & Hpt).
  exists sg, m, pt, te. split; [rewrite Ebs, Eb1, Eb; reflexivity|]. split; [exact Hsg|]. split; [exact Hm|]. split; [exact He|]. intros H0 H1. split.
  - destruct (Hpt H0) as [Hn _]. destruct (Hte H1) as [<- _]. subst te. exact Hn.
  - destruct (Hpt H0) as [_ Hdot]. destruct (Hte H1) as [<- Hex]. subst te. cbn [app] in *.
    destruct r as [|c r']; [reflexivity|]. cbn [not_float_tail not_dot_next not_exp_next] in *. destruct Hex as [E1 E2].
    apply N.eqb_neq in Hdot. apply N.eqb_neq in E1. apply N.eqb_neq in E2. rewrite Hdot, E1, E2. reflexivity.
Qed.

Lemma ptag_nc_prefix a b : forall bs r u, ptag_no_case (a ++ b) bs = POk r u -> exists r', ptag_no_case a bs = POk r' tt.
Proof.
  induction a as [|c a IH]; intros bs r u H; [exists bs; reflexivity|]. cbn [app ptag_no_case] in *.
  destruct bs as [|x bs]; [discriminate H|]. destruct (ascii_lower x =? ascii_lower c); [|discriminate H]. apply (IH _ _ _ H).
Qed.

Lemma path_value_eq bs : path_value bs =
  palt (pmap (fun _ => PVNull) (ptag [110; 117; 108; 108] bs)) (fun _ =>
  palt (pmap (fun _ => PVBool true) (ptag [116; 114; 117; 101] bs)) (fun _ =>
  palt (pmap (fun _ => PVBool false) (ptag [102; 97; 108; 115; 101] bs)) (fun _ =>
  palt (int_reading (pu64 bs) (fun v => PVNum (NUInt (Z.to_N v)))) (fun _ =>
  palt (int_reading (pi64 bs) (fun v => PVNum (NInt v))) (fun _ =>
  palt (pmap (fun b => PVNum (NFloat b)) (pdouble bs)) (fun _ =>
  palt (neg_inf_reading bs) (fun _ => pmap PVStr (pstring bs)))))))).
Proof. reflexivity. Qed.

(* the alternative added by the fix of `-inf` reads a minus sign and the word inf in some letter case *)
Lemma neg_inf_reading_sound bs r v : neg_inf_reading bs = POk r v -> exists t, bs = 45 :: t ++ r /\ keyword KW_INF t /\ v = PVNum (NFloat F_NEG_INF).
Proof.
  unfold neg_inf_reading. intros H. apply pmap_ok in H. destruct H as (u & E & ->). pbind_in E r1 u1 E1. apply pchar_sound in E1. subst bs.
  destruct (ptag_nc_sound _ kw_inf_ok _ _ _ E) as (t & -> & Hk). exists t. repeat split. exact Hk.
Qed.

Lemma int_reading_ok p g r v : int_reading p g = POk r v -> exists z, p = POk r z /\ not_float_tail r = true /\ v = g z.
Proof.
  unfold int_reading. intros H. pbind_in H r1 z E. destruct (not_float_tail r1) eqn:En; [|discriminate H]. injection H as <- <-.
  exists z. repeat split; assumption.
Qed.

(* an unsigned run of digits that the signed reader accepts is accepted by the unsigned reader too *)
Lemma pu64_of_digits ds r : digit_list ds -> ds <> [] -> no_digit_next r -> (digits_val ds 0 < Z.of_N two64)%Z -> not_float_tail r = true ->
  int_reading (pu64 (ds ++ r)) (fun v => PVNum (NUInt (Z.to_N v))) <> PErr.
Proof.
  intros Hd Hne Hn Hv Hf. unfold int_reading, pu64.
  rewrite (int_digits_pos 0 (Z.of_N two64 - 1) ds r Hd Hn ltac:(lia) 0%Z false ltac:(lia) ltac:(lia) ltac:(left; exact Hne)).
  cbn [pbind]. rewrite Hf. discriminate.
Qed.
Lemma pi64_of_signed t v r : signed_int t v -> (- two63 <= v <= two63 - 1)%Z -> no_digit_next r -> not_float_tail r = true ->
  int_reading (pi64 (t ++ r)) (fun v => PVNum (NInt v)) <> PErr.
Proof.
  intros Hs Hv Hn Hf. unfold int_reading, pi64.
  rewrite (pint_complete (- two63) (two63 - 1) t v r ltac:(unfold two63; lia) Hs Hv Hn). cbn [pbind]. rewrite Hf. discriminate.
Qed.

Theorem pdouble_sound bs r b : pdouble bs = POk r b ->
  int_reading (pu64 bs) (fun v => PVNum (NUInt (Z.to_N v))) = PErr -> int_reading (pi64 bs) (fun v => PVNum (NInt v)) = PErr ->
  exists t, bs = t ++ r /\ number_text t (NFloat b).
Proof.
  unfold pdouble. intros H U I. apply palt_ok in H. destruct H as [H|[_ H]].
  { apply pmap_ok in H. destruct H as ([[[neg ids] fds] ex] & E & ->).
    destruct (float_parts_sound _ _ _ _ _ _ E) as (sg & m & pt & te & -> & Hsg & Hm & He & Hx).
    exists (sg ++ m ++ te). split; [rewrite <- !app_assoc; reflexivity|].
    change (NFloat (float_of_parts (neg, ids, fds, ex))) with (nearest neg ids fds (exp_value ex)).
    apply (N_double sg neg m ids fds pt te (exp_value ex) Hsg Hm He).
    intros (Ep & Ee & Hr). destruct (Hx Ep Ee) as [Hn Hf]. subst te pt. cbn [app] in *.
    inversion Hm as [ids0 Hne Hd| | |]; subst.
    destruct Hr as [[-> Hv]|[[-> Hv]|[-> Hv]]]; cbn [app] in *.
    - apply (pu64_of_digits ids r Hd Hne Hn Hv Hf U).
    - inversion Hsg; subst. pose proof (digits_val_ge ids Hd 0%Z ltac:(lia)).
      apply (pi64_of_signed (45 :: ids) _ r (SI_minus ids Hne Hd) ltac:(unfold two63 in *; lia) Hn Hf I).
    - inversion Hsg; subst. pose proof (digits_val_ge ids Hd 0%Z ltac:(lia)).
      apply (pi64_of_signed (43 :: ids) _ r (X_SI_plus ids Hne Hd) ltac:(unfold two63 in *; lia) Hn Hf I). }
  apply palt_ok in H. destruct H as [H|[_ H]].
  { apply pmap_ok in H. destruct H as (u & E & ->). destruct (ptag_nc_sound _ kw_nan_ok _ _ _ E) as (t & -> & Hk).
    exists t. split; [reflexivity|apply X_N_nan; exact Hk]. }
  apply palt_ok in H. destruct H as [H|[Hno H]].
  { apply pmap_ok in H. destruct H as (u & E & ->). destruct (ptag_nc_sound _ kw_inf_ok _ _ _ E) as (t & -> & Hk).
    exists t. split; [reflexivity|apply X_N_inf; exact Hk]. }
  (* `infinity` is never reached: `inf` has matched before *)
  exfalso. apply pmap_ok in H. destruct H as (u & E & _).
  destruct (ptag_nc_prefix [105; 110; 102] [105; 110; 105; 116; 121] _ _ _ E) as (r' & E'). rewrite E' in Hno. discriminate Hno.
Qed.

Theorem path_value_sound bs r v : path_value bs = POk r v -> exists t, bs = t ++ r /\ literal_text t v.
Proof.
  rewrite path_value_eq. intros H.
  apply palt_ok in H. destruct H as [H|[_ H]].
  { apply pmap_ok in H. destruct H as (u & E & ->). apply ptag_sound in E. eexists. split; [exact E|constructor]. }
  apply palt_ok in H. destruct H as [H|[_ H]].
  { apply pmap_ok in H. destruct H as (u & E & ->). apply ptag_sound in E. eexists. split; [exact E|constructor]. }
  apply palt_ok in H. destruct H as [H|[_ H]].
  { apply pmap_ok in H. destruct H as (u & E & ->). apply ptag_sound in E. eexists. split; [exact E|constructor]. }
  apply palt_ok in H. destruct H as [H|[U H]].
  { destruct (int_reading_ok _ _ _ _ H) as (z & E & _ & ->). unfold pu64 in E.
    destruct (int_digits_sound _ _ _ _ _ _ _ _ E) as (ds & -> & Hd & _ & [Hne|X] & Hz & Hr); [|discriminate X].
    exists ds. split; [reflexivity|]. apply L_number. subst z. apply N_unsigned; [exact Hne|exact Hd|]. specialize (Hr ltac:(unfold two64; lia)). lia. }
  apply palt_ok in H. destruct H as [H|[I H]].
  { destruct (int_reading_ok _ _ _ _ H) as (z & E & Hf & ->). unfold pi64 in E.
    destruct (pint_sound (- two63) (two63 - 1) _ _ _ ltac:(unfold two63; lia) E) as (t & -> & Hs & Hz & Hn).
    exists t. split; [reflexivity|]. apply L_number. destruct Hs as [ds Hne Hd|ds Hne Hd|ds Hne Hd].
    - exfalso. apply (pu64_of_digits ds r Hd Hne Hn ltac:(unfold two63, two64 in *; lia) Hf U).
    - apply N_negative; [exact Hne|exact Hd|lia].
    - apply X_N_plus; [exact Hne|exact Hd|lia]. }
  apply palt_ok in H. destruct H as [H|[_ H]].
  { apply pmap_ok in H. destruct H as (b & E & ->). destruct (pdouble_sound _ _ _ E U I) as (t & -> & Hn).
    exists t. split; [reflexivity|apply L_number; exact Hn]. }
  apply palt_ok in H. destruct H as [H|[_ H]].
  { destruct (neg_inf_reading_sound _ _ _ H) as (t & -> & Hk & ->).
    exists (45 :: t). split; [reflexivity|apply L_number; apply X_N_neg_inf; exact Hk]. }
  apply pmap_ok in H. destruct H as (s & E & ->). destruct (pstring_sound _ _ _ E) as (t & -> & Hq).
  exists t. split; [reflexivity|apply L_string; exact Hq].
Qed.

(* ================================================================== operands *)
Lemma expr_paths_sound rp bs r ps : expr_paths rp bs = POk r ps ->
  exists c p ts w l, bs = c :: ts ++ w ++ r /\ ps = p :: l /\ steps_text ts l /\ pws w /\
    (c = 36 /\ p = PRoot \/ c = 64 /\ p = PCurrent /\ rp = false).
Proof.
  unfold expr_paths. intros H. pbind_in H r1 pre E1. pbind_in H r2 l E2. injection H as <- <-.
  destruct (steps_sound _ _ _ _ E2) as (ts & w & -> & Hs & Hw).
  apply palt_ok in E1. destruct E1 as [E1|[_ E1]].
  - apply pmap_ok in E1. destruct E1 as (u & E1 & ->). apply pchar_sound in E1.
    exists 36, PRoot, ts, w, l. repeat split; try assumption. left; split; reflexivity.
  - destruct rp; [discriminate E1|]. apply pmap_ok in E1. destruct E1 as (u & E1 & ->). apply pchar_sound in E1.
    exists 64, PCurrent, ts, w, l. repeat split; try assumption. right; repeat split; reflexivity.
Qed.

Theorem operand_sound rp bs r e : inner_expr rp bs = POk r e ->
  exists t w, bs = t ++ w ++ r /\ operand_text (negb rp) t e /\ pws w.
Proof.
  unfold inner_expr. intros H. apply palt_ok in H. destruct H as [H|[_ H]].
  - apply pmap_ok in H. destruct H as (ps & E & ->).
    destruct (expr_paths_sound _ _ _ _ E) as (c & p & ts & w & l & -> & -> & Hs & Hw & [[-> ->]|[-> [-> ->]]]).
    + exists (36 :: ts), w. split; [reflexivity|]. split; [apply OP_root; exact Hs|exact Hw].
    + exists (64 :: ts), w. split; [reflexivity|]. split; [apply OP_current; [reflexivity|exact Hs]|exact Hw].
  - apply pmap_ok in H. destruct H as (v & E & ->). destruct (path_value_sound _ _ _ E) as (t & -> & Hl).
    exists t, []. split; [reflexivity|]. split; [apply OP_literal; exact Hl|constructor].
Qed.

Lemma ws_operand_sound rp bs r e : ws_around (inner_expr rp) bs = POk r e ->
  exists w0 t w1, bs = w0 ++ t ++ w1 ++ r /\ pws w0 /\ operand_text (negb rp) t e /\ pws w1.
Proof.
  unfold ws_around. intros H. pbind_in H r1 e1 E. injection H as <- <-.
  destruct (ms_ok bs) as (w0 & E0 & H0). destruct (operand_sound _ _ _ _ E) as (t & w & Et & Ho & Hw). destruct (ms_ok r1) as (w2 & E2 & H2).
  exists w0, t, (w ++ w2). split; [rewrite <- app_assoc, <- E2, <- Et; exact E0|]. repeat split; try assumption. apply pws_app; assumption.
Qed.

(* ================================================================== operators *)
Lemma pop_sound bs r op : pop bs = POk r op -> exists o, bs = o ++ r /\ compare_op o op.
Proof.
  unfold pop. intros H.
  repeat (apply palt_ok in H; destruct H as [H|[_ H]];
          [apply pmap_ok in H; destruct H as (u & E & ->);
           first [apply ptag_sound in E; eexists; split; [exact E|constructor]|apply pchar_sound in E; eexists [_]; split; [exact E|constructor]]|]).
  apply pmap_ok in H; destruct H as (u & E & ->). apply pchar_sound in E. exists [62]. split; [exact E|constructor].
Qed.
Lemma pbarith_sound bs r op : pbarith bs = POk r op -> exists o, bs = o ++ r /\ arith_op o op.
Proof.
  unfold pbarith. intros H.
  repeat (apply palt_ok in H; destruct H as [H|[_ H]];
          [apply pmap_ok in H; destruct H as (u & E & ->); apply pchar_sound in E; eexists [_]; split; [exact E|constructor]|]).
  apply pmap_ok in H; destruct H as (u & E & ->). apply pchar_sound in E. exists [37]. split; [exact E|constructor].
Qed.
Lemma punary_sound bs r op : punary bs = POk r op -> exists o, bs = o ++ r /\ sign_op o op.
Proof.
  unfold punary. intros H. apply palt_ok in H. destruct H as [H|[_ H]];
    apply pmap_ok in H; destruct H as (u & E & ->); apply pchar_sound in E; eexists [_]; (split; [exact E|constructor]).
Qed.

Lemma fsteps_of_spaced ts ps : spaced fstep_text ts ps -> fsteps_text ts ps.
Proof. induction 1; constructor; assumption. Qed.
Lemma spaced_of_fsteps ts ps : fsteps_text ts ps -> spaced fstep_text ts ps.
Proof. induction 1; constructor; assumption. Qed.

(* ================================================================== atoms *)
(* what a reader of "spacing, X, spacing" returns *)
Definition reads {A} (Q : list N -> A -> Prop) (f : list N -> pres A) : Prop :=
  forall bs r a, f bs = POk r a -> exists w0 t w1, bs = w0 ++ t ++ w1 ++ r /\ pws w0 /\ Q t a /\ pws w1.

Section AtomSound.
  Variable rp : bool.
  Variable prec : list N -> pres path.
  Variable orec : list N -> pres expr.
  Notation c := (negb rp).
  Hypothesis Hprec : reads fstep_text prec.
  Hypothesis Horec : reads (or_text c) orec.

  Lemma exists_paths_sound bs r ps : exists_paths prec bs = POk r ps ->
    exists a p ts w l, bs = a :: ts ++ w ++ r /\ ps = p :: l /\ fsteps_text ts l /\ pws w /\ (a = 36 /\ p = PRoot \/ a = 64 /\ p = PCurrent).
  Proof.
    unfold exists_paths. intros H. pbind_in H r1 pre E1. pbind_in H r2 l E2. injection H as <- <-.
    destruct (many0_sound prec fstep_text Hprec _ _ _ _ _ E2) as (ts & w & l' & -> & -> & Hs & Hw). cbn [rev app].
    apply fsteps_of_spaced in Hs.
    apply palt_ok in E1. destruct E1 as [E1|[_ E1]]; apply pmap_ok in E1; destruct E1 as (u & E1 & ->); apply pchar_sound in E1.
    - exists 36, PRoot, ts, w, l'. repeat split; try assumption. left; split; reflexivity.
    - exists 64, PCurrent, ts, w, l'. repeat split; try assumption. right; split; reflexivity.
  Qed.

  Lemma pexists_sound bs r e : pexists prec bs = POk r e -> exists t, bs = t ++ r /\ atom_text c t e.
  Proof.
    unfold pexists. intros H. pbind_in H r1 u1 E1. pbind_in H r2 u2 E2. pbind_in H r3 ps E3. pbind_in H r4 u4 E4. injection H as <- <-.
    apply ptag_sound in E1. destruct (pchar_ws_sound _ _ _ _ E2) as (w1 & -> & H1). destruct (ms_ok r2) as (w2 & Er2 & H2).
    destruct (exists_paths_sound _ _ _ E3) as (a & p & ts & w & l & Ea & -> & Hs & Hw & Hr).
    destruct (pchar_ws_sound _ _ _ _ E4) as (w3 & -> & H3).
    exists (KW_EXISTS ++ w1 ++ 40 :: w2 ++ a :: ts ++ (w ++ w3) ++ [41]).
    split; [rewrite E1, Er2, Ea; unfold KW_EXISTS; norm; reflexivity|]. apply AT_exists; try assumption. apply pws_app; assumption.
  Qed.

  Theorem atom_sound : reads (atom_text c) (expr_atom rp prec orec).
  Proof.
    intros bs r e H. unfold expr_atom in H.
    apply palt_ok in H. destruct H as [H|[_ H]].
    { pbind_in H r1 l E1. pbind_in H r2 o E2. pbind_in H r3 x E3. injection H as <- <-.
      destruct (ws_operand_sound _ _ _ _ E1) as (w0 & tl & w1 & -> & H0 & Hl & H1). destruct (pbarith_sound _ _ _ E2) as (ot & -> & Ho).
      destruct (ws_operand_sound _ _ _ _ E3) as (w2 & tr & w3 & -> & H2 & Hr & H3).
      exists w0, (tl ++ w1 ++ ot ++ w2 ++ tr), w3. split; [norm; reflexivity|]. repeat split; try assumption. apply AT_arith; assumption. }
    apply palt_ok in H. destruct H as [H|[_ H]].
    { pbind_in H r1 l E1. pbind_in H r2 o E2. pbind_in H r3 x E3. injection H as <- <-.
      destruct (ws_operand_sound _ _ _ _ E1) as (w0 & tl & w1 & -> & H0 & Hl & H1). destruct (pop_sound _ _ _ E2) as (ot & -> & Ho).
      destruct (ws_operand_sound _ _ _ _ E3) as (w2 & tr & w3 & -> & H2 & Hr & H3).
      exists w0, (tl ++ w1 ++ ot ++ w2 ++ tr), w3. split; [norm; reflexivity|]. repeat split; try assumption. apply AT_compare; assumption. }
    apply palt_ok in H. destruct H as [H|[_ H]].
    { pbind_in H r1 o E1. pbind_in H r2 x E2. injection H as <- <-.
      destruct (punary_sound _ _ _ E1) as (ot & -> & Ho). destruct (ws_operand_sound _ _ _ _ E2) as (w & tx & w1 & -> & Hw & Hx & H1).
      exists [], (ot ++ w ++ tx), w1. split; [norm; reflexivity|]. split; [constructor|]. split; [apply AT_signed; assumption|exact H1]. }
    apply palt_ok in H. destruct H as [H|[_ H]].
    { pbind_in H r1 u1 E1. pbind_in H r2 x E2. pbind_in H r3 u3 E3. injection H as <- <-.
      apply pchar_sound in E1. destruct (ms_ok r1) as (wa & Er1 & Ha). destruct (Horec _ _ _ E2) as (w0 & t & w1 & Et & H0 & Ht & H1).
      destruct (pchar_ws_sound _ _ _ _ E3) as (wb & -> & Hb).
      exists [], (40 :: (wa ++ w0) ++ t ++ (w1 ++ wb) ++ [41]), []. split; [rewrite E1, Er1, Et; norm; reflexivity|].
      split; [constructor|]. split; [|constructor]. apply AT_paren; [apply pws_app; assumption|exact Ht|apply pws_app; assumption]. }
    destruct (pexists_sound _ _ _ H) as (t & -> & Ht). exists [], t, []. split; [reflexivity|]. split; [constructor|]. split; [exact Ht|constructor].
  Qed.
End AtomSound.

(* ================================================================== lists separated by && or || *)
(* the text after the first element as the loop reads it: every element with the spacing that follows it *)
Inductive wtail' (lit : list N) (Q : list N -> expr -> Prop) : list N -> list expr -> Prop :=
| WT'_nil : wtail' lit Q [] []
| WT'_cons w1 w2 t x w3 ts l : pws w1 -> pws w2 -> Q t x -> pws w3 -> wtail' lit Q ts l ->
    wtail' lit Q (w1 ++ lit ++ w2 ++ t ++ w3 ++ ts) (x :: l).

(* the spacing after an element belongs to the separator that follows, or is left over at the end *)
Lemma wtail_of_wtail' lit Q ts l : wtail' lit Q ts l -> forall w, pws w ->
  exists ts' w', w ++ ts = ts' ++ w' /\ wtail lit Q ts' l /\ pws w'.
Proof.
  induction 1 as [|w1 w2 t x w3 ts l H1 H2 Hq H3 Ht IH]; intros w Hw.
  - exists [], w. rewrite app_nil_r. repeat split; [constructor|exact Hw].
  - destruct (IH w3 H3) as (ts' & w' & E & Ht' & Hw'). exists ((w ++ w1) ++ lit ++ w2 ++ t ++ ts'), w'.
    split; [rewrite <- !app_assoc; do 5 f_equal; exact E|]. split; [|exact Hw']. apply WT_cons; try assumption. apply pws_app; assumption.
Qed.

Section SepSound.
  Variable f : list N -> pres expr.
  Variable a1 a2 : N.
  Notation lit := [a1; a2].
  Variable Q : list N -> expr -> Prop.
  Hypothesis Hf : reads Q f.

  Lemma wsep_sound b r u : wsep a1 a2 b = POk r u -> exists w1 w2, b = w1 ++ lit ++ w2 ++ r /\ pws w1 /\ pws w2.
  Proof.
    unfold wsep. intros H. pbind_in H r1 u1 E. injection H as <-. apply ptag_sound in E.
    destruct (ms_ok b) as (w1 & E1 & H1). destruct (ms_ok r1) as (w2 & E2 & H2). exists w1, w2.
    split; [rewrite <- E2; rewrite E in E1; exact E1|]. split; assumption.
  Qed.

  Lemma sep_loop_ws_sound fuel : forall bs acc r l, sep_loop f (wsep a1 a2) fuel bs acc = POk r l ->
    exists ts l', l = rev acc ++ l' /\ bs = ts ++ r /\ wtail' lit Q ts l'.
  Proof.
    induction fuel as [|fuel IH]; intros bs acc r l H; cbn [sep_loop] in H; [discriminate H|].
    destruct (wsep a1 a2 bs) as [r1 u| | |] eqn:Ec; try discriminate H.
    - destruct (length r1 =? length bs)%nat; [discriminate H|].
      destruct (f r1) as [r2 x| | |] eqn:Ek; try discriminate H.
      + destruct (IH _ _ _ _ H) as (ts & l' & -> & -> & Ht). destruct (wsep_sound _ _ _ Ec) as (w1 & w2 & -> & H1 & H2).
        destruct (Hf _ _ _ Ek) as (w0 & t & w3 & -> & H0 & Hq & H3).
        exists (w1 ++ lit ++ (w2 ++ w0) ++ t ++ w3 ++ ts), (x :: l'). split; [cbn [rev]; rewrite <- app_assoc; reflexivity|].
        split; [rewrite <- !app_assoc; reflexivity|]. apply WT'_cons; try assumption. apply pws_app; assumption.
      + injection H as <- <-. exists [], []. rewrite app_nil_r. repeat split. constructor.
    - injection H as <- <-. exists [], []. rewrite app_nil_r. repeat split. constructor.
  Qed.

  Lemma seplist_ws_sound bs r l : separated_list1 f (wsep a1 a2) bs = POk r l ->
    exists w0 t x ts l' w1, l = x :: l' /\ bs = w0 ++ (t ++ ts) ++ w1 ++ r /\ pws w0 /\ Q t x /\ wtail lit Q ts l' /\ pws w1.
  Proof.
    unfold separated_list1. intros H. pbind_in H r1 x E.
    destruct (sep_loop_ws_sound _ _ _ _ _ H) as (ts & l' & -> & -> & Ht). destruct (Hf _ _ _ E) as (w0 & t & w3 & -> & H0 & Hq & H3).
    destruct (wtail_of_wtail' lit Q ts l' Ht w3 H3) as (ts' & w' & E' & Ht' & Hw').
    exists w0, t, x, ts', l', w'. split; [reflexivity|]. split; [rewrite <- !app_assoc; rewrite (app_assoc w3 ts), E', <- app_assoc; reflexivity|].
    repeat split; assumption.
  Qed.
End SepSound.

Lemma and_tail_of_wtail c ts l : wtail [38; 38] (atom_text c) ts l -> and_tail c ts l.
Proof. induction 1; [constructor|apply ANDT_cons; assumption]. Qed.
Lemma or_tail_of_wtail c ts l : wtail [124; 124] (and_text c) ts l -> or_tail c ts l.
Proof. induction 1; [constructor|apply ORT_cons; assumption]. Qed.

Section LevelsSound.
  Variable rp : bool.
  Variable prec : list N -> pres path.
  Variable orec : list N -> pres expr.
  Notation c := (negb rp).
  Hypothesis Hprec : reads fstep_text prec.
  Hypothesis Horec : reads (or_text c) orec.

  Theorem and_sound : reads (and_text c) (expr_and rp prec orec).
  Proof.
    intros bs r e H. unfold expr_and in H. apply pmap_ok in H. destruct H as (l & E & ->).
    destruct (seplist_ws_sound (expr_atom rp prec orec) 38 38 (atom_text c) (atom_sound rp prec orec Hprec Horec) _ _ _ E)
      as (w0 & t & x & ts & l' & w1 & -> & -> & H0 & Hq & Ht & H1).
    exists w0, (t ++ ts), w1. split; [reflexivity|]. split; [exact H0|]. split; [|exact H1].
    rewrite <- left_nested_fold. apply AND; [exact Hq|apply and_tail_of_wtail; exact Ht].
  Qed.

  Theorem or_sound : reads (or_text c) (expr_or rp prec orec).
  Proof.
    intros bs r e H. unfold expr_or in H. apply pmap_ok in H. destruct H as (l & E & ->).
    destruct (seplist_ws_sound (expr_and rp prec orec) 124 124 (and_text c) and_sound _ _ _ E)
      as (w0 & t & x & ts & l' & w1 & -> & -> & H0 & Hq & Ht & H1).
    exists w0, (t ++ ts), w1. split; [reflexivity|]. split; [exact H0|]. split; [|exact H1].
    rewrite <- left_nested_fold. apply OR; [exact Hq|apply or_tail_of_wtail; exact Ht].
  Qed.
End LevelsSound.

(* ================================================================== the mutual block: expressions and steps with filters *)
Theorem fuel_sound fuel : (forall rp, reads (or_text (negb rp)) (expr_or_fuel fuel rp)) /\ reads fstep_text (path_fuel fuel).
Proof.
  induction fuel as [|fuel [IHo IHp]]; [split; [intros rp|]; intros bs r a H; discriminate H|]. split.
  - intros rp bs r e H. rewrite expr_or_fuel_S in H. apply (or_sound rp (path_fuel fuel) (expr_or_fuel fuel rp) IHp (IHo rp) _ _ _ H).
  - intros bs r p H. rewrite path_fuel_S in H. apply palt_ok in H. destruct H as [H|[_ H]].
    + destruct (ws_step_sound _ _ _ H) as (w1 & t & w2 & -> & H1 & Ht & H2). exists w1, t, w2. split; [reflexivity|].
      repeat split; try assumption. apply FS_step. exact Ht.
    + unfold ws_around in H. pbind_in H r0 p0 E. injection H as <- <-.
      pbind_in E r1 u1 E1. pbind_in E r2 u2 E2. pbind_in E r3 e E3. pbind_in E r4 u4 E4. injection E as <- <-.
      destruct (ms_ok bs) as (w0 & E0 & H0). apply pchar_sound in E1. destruct (pchar_ws_sound _ _ _ _ E2) as (w1 & -> & H1).
      destruct (ms_ok r2) as (w2 & Er2 & H2). destruct (IHo false _ _ _ E3) as (wa & t & wb & Et & Ha & Ht & Hb).
      destruct (pchar_ws_sound _ _ _ _ E4) as (w3 & -> & H3). destruct (ms_ok r4) as (w4 & Er0 & H4).
      exists w0, (63 :: w1 ++ 40 :: (w2 ++ wa) ++ t ++ (wb ++ w3) ++ [41]), w4.
      split; [rewrite E0, E1, Er2, Et; norm; rewrite <- Er0; reflexivity|]. split; [exact H0|]. split; [|exact H4].
      apply FS_filter; try assumption; apply pws_app; assumption.
Qed.

Corollary expr_or_fuel_sound fuel rp : reads (or_text (negb rp)) (expr_or_fuel fuel rp).
Proof. apply fuel_sound. Qed.
Corollary path_fuel_sound fuel : reads fstep_text (path_fuel fuel).
Proof. apply fuel_sound. Qed.

Theorem fsteps_sound fuel m bs r ps : many0 (path_fuel m) fuel bs [] = POk r ps ->
  exists ts w, bs = ts ++ w ++ r /\ fsteps_text ts ps /\ pws w.
Proof.
  intros H. destruct (many0_sound (path_fuel m) fstep_text (path_fuel_sound m) _ _ _ _ _ H) as (ts & w & l' & -> & -> & Hs & Hw).
  exists ts, w. split; [reflexivity|]. split; [apply fsteps_of_spaced; exact Hs|exact Hw].
Qed.

(* ================================================================== whole paths *)
Lemma pre_path_sound bs r p : pre_path bs = POk r p ->
  (bs = 36 :: r /\ p = PRoot) \/ (exists w0 t s w1, bs = w0 ++ t ++ w1 ++ r /\ pws w0 /\ bare_name t s /\ pws w1 /\ p = PDotField s).
Proof.
  unfold pre_path. intros H. apply palt_ok in H. destruct H as [H|[_ H]].
  - apply pmap_ok in H. destruct H as (u & E & ->). apply pchar_sound in E. left. split; [exact E|reflexivity].
  - apply pmap_ok in H. destruct H as (s & E & ->). right.
    destruct (ws_item_sound raw_string bare_name ltac:(intros b r0 a Hb; destruct (raw_string_sound _ _ _ Hb) as (t & Et & Hn & _); exists t; split; assumption) _ _ _ E)
      as (w0 & t & w1 & -> & H0 & Hb & H1).
    exists w0, t, s, w1. split; [reflexivity|]. split; [exact H0|]. split; [exact Hb|]. split; [exact H1|reflexivity].
Qed.

Lemma fsteps_absorb w ts ps : pws w -> fsteps_text ts ps -> exists ts' w', w ++ ts = ts' ++ w' /\ fsteps_text ts' ps /\ pws w'.
Proof.
  intros Hw Hs. destruct (spaced_absorb fstep_text w ts ps Hw (spaced_of_fsteps ts ps Hs)) as (ts' & w' & E & Hs' & Hw').
  exists ts', w'. split; [exact E|]. split; [apply fsteps_of_spaced; exact Hs'|exact Hw'].
Qed.

Theorem grammar_sound t ps : parse_json_path t = Ok ps -> jp_text t ps.
Proof.
  unfold parse_json_path. intros H.
  destruct (json_path_fuel (S (length t)) t) as [rest l| | |] eqn:E; try discriminate H. destruct rest; [|discriminate H]. injection H as ->.
  unfold json_path_fuel in E. cbv zeta in E. pbind_in E r l E1. injection E as Er <-. apply multispace0_nil_pws in Er.
  destruct (ms_ok t) as (w0 & Et & H0). set (bs0 := multispace0 t) in *. set (fuel := S (length t)) in *. clearbody bs0 fuel.
  apply palt_ok in E1. destruct E1 as [E1|[_ E1]].
  { (* a predicate *)
    apply pmap_ok in E1. destruct E1 as (e & E1 & ->). unfold ws_around in E1. pbind_in E1 r1 e1 E2. injection E1 as Er1 <-.
    destruct (ms_ok bs0) as (wa & Ea & Ha). destruct (expr_or_fuel_sound fuel true _ _ _ E2) as (wb & tx & wc & Eb & Hb & Hx & Hc).
    destruct (ms_ok r1) as (wd & Ed & Hd). rewrite Er1 in Ed.
    left. rewrite Et, Ea, Eb, Ed. replace (w0 ++ wa ++ wb ++ tx ++ wc ++ wd ++ r) with ((w0 ++ wa ++ wb) ++ tx ++ (wc ++ wd ++ r)) by (norm; reflexivity).
    apply JP_predicate; [apply pws_app; [exact H0|apply pws_app; assumption]|exact Hx|apply pws_app; [exact Hc|apply pws_app; assumption]]. }
  destruct (pre_path bs0) as [r1 p| | |] eqn:Ep; cbv beta iota in E1; try discriminate E1.
  - pbind_in E1 r2 l2 E2. injection E1 as -> <-. destruct (fsteps_sound _ _ _ _ _ E2) as (ts & w & -> & Hs & Hw).
    destruct (pre_path_sound _ _ _ Ep) as [[Eb ->]|(wa & tn & s & wb & Eb & Ha & Hn & Hb & ->)].
    + left. rewrite Et, Eb. apply JP_path; [exact H0|exact Hs|apply pws_app; assumption].
    + right. destruct (fsteps_absorb wb ts l2 Hb Hs) as (ts' & w' & E' & Hs' & Hw').
      rewrite Et, Eb. replace (w0 ++ wa ++ tn ++ wb ++ ts ++ w ++ r) with ((w0 ++ wa) ++ tn ++ ts' ++ (w' ++ w ++ r))
        by (rewrite <- !app_assoc; rewrite (app_assoc wb ts), E', <- !app_assoc; reflexivity).
      apply JP_named; [apply pws_app; assumption|exact Hn|exact Hs'|apply pws_app; [exact Hw'|apply pws_app; assumption]].
  - pbind_in E1 r2 l2 E2. injection E1 as -> <-. destruct (fsteps_sound _ _ _ _ _ E2) as (ts & w & -> & Hs & Hw).
    right. rewrite Et. apply JP_steps; [exact H0|exact Hs|apply pws_app; assumption].
Qed.

(* ================================================================== consequences *)
(* everything outside the grammar is an error (never a panic: PathParseProofs.parse_json_path_total) *)
Corollary grammar_rejected t : (forall ps, ~ jp_text t ps) -> exists e, parse_json_path t = Err e.
Proof.
  intros H. destruct (parse_json_path t) as [ps|e|] eqn:E.
  - exfalso. apply (H ps). apply grammar_sound. exact E.
  - exists e. reflexivity.
  - exfalso. exact (parse_json_path_total t E).
Qed.

(* the steps of a path proper are never `$` or a predicate, so the two halves of the grammar yield different structures *)
Lemma fstep_not_head t p : fstep_text t p -> p <> PRoot /\ forall e, p <> PPredicate e.
Proof. intros [t0 p0 Hs|w1 w2 t0 e w3 _ _ _ _]; [destruct Hs|]; split; try intros ?; discriminate. Qed.
Definition rooted_structure (ps : list path) : Prop :=
  match ps with PRoot :: _ => True | [PPredicate _] => True | _ => False end.
Lemma unrooted_structure t ps : jp_unrooted_text t ps -> ~ rooted_structure ps.
Proof.
  intros [w0 ts ps0 w1 _ Hs _|w0 t0 s ts ps0 w1 _ _ _ _]; [|intros X; exact X].
  destruct Hs as [|w t0 p ts ps0 _ Hp _]; [intros X; exact X|]. destruct (fstep_not_head t0 p Hp) as [N1 N2].
  destruct p; try (intros X; exact X); [contradiction N1; reflexivity|]. destruct ps0; [exfalso; apply (N2 e); reflexivity|intros X; exact X].
Qed.
Lemma rooted_structure_of t ps : jp_rooted_text t ps -> rooted_structure ps.
Proof. intros []; exact I. Qed.

(* on the forms documented with a leading `$` and on standalone predicates the parser accepts exactly the grammar *)
Theorem rooted_exact t ps : rooted_structure ps -> (parse_json_path t = Ok ps <-> jp_rooted_text t ps).
Proof.
  intros Hr. split; [|apply rooted_complete]. intros H. destruct (grammar_sound t ps H) as [G|G]; [exact G|].
  exfalso. exact (unrooted_structure t ps G Hr).
Qed.

(* and on every text that does not start like an expression, whatever the form *)
Theorem grammar_exact_partial t ps : ~ starts_like_an_expression (multispace0 t) -> (parse_json_path t = Ok ps <-> jp_text t ps).
Proof.
  intros Hn. split; [apply grammar_sound|]. intros [G|G]; [apply rooted_complete; exact G|apply unrooted_complete_partial; assumption].
Qed.

Corollary jp_rooted_text_functional t p1 p2 : jp_rooted_text t p1 -> jp_rooted_text t p2 -> p1 = p2.
Proof. intros H1 H2. apply rooted_complete in H1. apply rooted_complete in H2. congruence. Qed.
Corollary jp_text_functional_partial t p1 p2 : ~ starts_like_an_expression (multispace0 t) -> jp_text t p1 -> jp_text t p2 -> p1 = p2.
Proof. intros Hn H1 H2. apply (grammar_exact_partial t p1 Hn) in H1. apply (grammar_exact_partial t p2 Hn) in H2. congruence. Qed.

(* a rejected text that does not start like an expression is outside the grammar *)
Corollary rejected_outside_partial t e : parse_json_path t = Err e -> ~ starts_like_an_expression (multispace0 t) -> forall ps, ~ jp_text t ps.
Proof. intros He Hn ps H. apply (grammar_exact_partial t ps Hn) in H. congruence. Qed.
Corollary rejected_not_rooted t e : parse_json_path t = Err e -> forall ps, ~ jp_rooted_text t ps.
Proof. intros He ps H. apply rooted_complete in H. congruence. Qed.

(* the test of starts_like_an_expression, computed *)
Definition starts_like_b (t : list N) : bool :=
  match t with
  | c :: r => is_digit c || existsb (N.eqb c) [110; 116; 102; 78; 105; 73; 101] ||
              ((c =? 46) && match r with d :: _ => is_digit d | [] => false end)
  | [] => false
  end.
Lemma starts_like_b_false t : starts_like_b t = false -> ~ starts_like_an_expression t.
Proof.
  destruct t as [|c r]; [intros _ X; exact X|]. cbn [starts_like_b starts_like_an_expression]. intros H.
  apply orb_false_iff in H. destruct H as [H H3]. apply orb_false_iff in H. destruct H as [H1 H2]. intros [X|[X|[-> X]]].
  - rewrite X in H1. discriminate H1.
  - assert (E : existsb (N.eqb c) [110; 116; 102; 78; 105; 73; 101] = true) by (apply existsb_exists; exists c; split; [exact X|apply N.eqb_refl]).
    rewrite E in H2. discriminate H2.
  - cbn [N.eqb andb] in H3. change (46 =? 46) with true in H3. cbn [andb] in H3. destruct r as [|d r']; [exact X|]. rewrite X in H3. discriminate H3.
Qed.

(* the grammar as a whole is NOT functional: `5.* .5` is both the unrooted path  5 .* .5  (field 5, wildcard, field 5) and
   the predicate 5. * .5; the parser tries the predicate first *)
Lemma name_char_5 : name_char 53.
Proof. split; [|discriminate]. unfold name_delimiter. intros H. vm_compute in H. repeat (destruct H as [H|H]; [discriminate H|]). exact H. Qed.
Lemma bare_5 : bare_name [53] [53].
Proof. apply Bare; [discriminate| |reflexivity]. apply NB_char; [exact name_char_5|constructor]. Qed.
Example jp_text_ambiguous :
  let t := [53; 46; 42; 32; 46; 53] in
  jp_unrooted_text t [PDotField [53]; PDotWild; PDotField [53]] /\
  jp_rooted_text t [PPredicate (EArithB BMul (EValue (PVNum (NFloat 4617315517961601024))) (EValue (PVNum (NFloat 4602678819172646912))))] /\
  parse_json_path t = Ok [PPredicate (EArithB BMul (EValue (PVNum (NFloat 4617315517961601024))) (EValue (PVNum (NFloat 4602678819172646912))))].
Proof.
  cbv zeta. assert (P : parse_json_path [53; 46; 42; 32; 46; 53] =
    Ok [PPredicate (EArithB BMul (EValue (PVNum (NFloat 4617315517961601024))) (EValue (PVNum (NFloat 4602678819172646912))))]) by (vm_compute; reflexivity).
  split; [|split; [apply rooted_exact; [exact I|exact P]|exact P]].
  apply (JP_named [] [53] [53] [46; 42; 32; 46; 53] [PDotWild; PDotField [53]] []); [constructor|exact bare_5| |constructor].
  apply (FSS_cons [] [46; 42] PDotWild [32; 46; 53] [PDotField [53]]); [constructor|apply FS_step; constructor|].
  apply (FSS_cons [32] [46; 53] (PDotField [53]) [] []); [apply RWS_char; [tauto|constructor]| |constructor].
  apply FS_step. apply ST_dot_name. exact bare_5.
Qed.

(* ================================================================== JSON numbers are number literals of the path language *)
Lemma jint_digits ids : jint ids -> ids <> [] /\ digits ids.
Proof. intros [|d ds Hd _ Hds]; split; try discriminate; repeat constructor; assumption. Qed.

Theorem jnumber_number_text t n : jnumber t n -> number_text t n.
Proof.
  intros [neg ids tf fd te e Hi Hf He]. destruct (jint_digits ids Hi) as [Hne Hd].
  set (sg := if neg then [45] else @nil N).
  assert (Hsg : jsign sg neg) by (subst sg; destruct neg; constructor).
  assert (Dbl : forall pt, mantissa (ids ++ tf) ids fd pt -> ~ exact_integer sg ids pt te ->
                number_text (sg ++ ids ++ tf ++ te) (nearest_double neg ids fd e)).
  { intros pt Hm Hx. unfold nearest_double. rewrite digits_val_app. rewrite (app_assoc ids tf te).
    apply (N_double sg neg (ids ++ tf) ids fd pt te e Hsg Hm He Hx). }
  destruct Hf as [|fd Hnf Hfd].
  - assert (Hm : mantissa (ids ++ []) ids [] false) by (rewrite app_nil_r; apply M_int; assumption).
    destruct He as [|ec sg' eneg ed Hec Hsg' Hned Hed].
    + unfold number_value. subst sg. destruct neg.
      * destruct (digits_val ids 0 <=? two63)%Z eqn:E.
        -- apply Z.leb_le in E. cbn [app]. rewrite !app_nil_r. apply N_negative; assumption.
        -- apply Z.leb_gt in E. apply (Dbl false Hm). intros (_ & _ & [[X _]|[[_ X]|[X _]]]); try discriminate X. lia.
      * destruct (digits_val ids 0 <? Z.of_N two64)%Z eqn:E.
        -- apply Z.ltb_lt in E. cbn [app]. rewrite !app_nil_r. apply N_unsigned; assumption.
        -- apply Z.ltb_ge in E. apply (Dbl false Hm). intros (_ & _ & [[_ X]|[[X _]|[X _]]]); try discriminate X. lia.
    + unfold number_value. apply (Dbl false Hm). intros (_ & X & _). discriminate X.
  - assert (Hm : mantissa (ids ++ 46 :: fd) ids fd true) by (apply M_frac; assumption).
    unfold number_value. apply (Dbl true Hm). intros (X & _). discriminate X.
Qed.
