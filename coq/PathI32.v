(* PathI32.v — the domain of indices (review items L2/L3).
   The model's ASTs carry indices as unbounded integers (keypath.KIndex z, Path.IIndex z, Path.ILast z : Z), and the
   theorems that quantify over key paths / JSONPaths hold for ALL Z.  The Rust types hold an i32 there (KeyPath::Index(i32),
   Index::Index(i32), Index::LastIndex(i32)): the part of the model's domain that has a counterpart in the code is the one
   where every index is an i32.  Both parsers only produce that part: `parsed_indices_are_i32`.  (The index arithmetic of the
   walkers on such indices stays inside the Rust integer types: I32.v, the generated *_SAFE conditions.) *)
From Coq Require Import List NArith ZArith Bool Lia.
Import ListNotations.
From JB Require Import Constants Bytes Utf8 Num Value Decimal JsonText TreeOps Path PathInd PathParse PathSafe PathRoundtrip PathImage Walk.
Open Scope N_scope.
Set Default Timeout 120.

Definition kp_in_i32 (k : keypath) : Prop := match k with KIndex z => in_i32 z = true | _ => True end.
Definition index_in_i32 (i : index) : Prop := match i with IIndex z | ILast z => in_i32 z = true end.
Definition aidx_in_i32 (a : array_index) : Prop :=
  match a with AIndex i => index_in_i32 i | ASlice s e => index_in_i32 s /\ index_in_i32 e end.
Definition no_index_step (p : path) : bool :=
  match p with PIndices _ | PFilter _ | PPredicate _ => false | _ => true end.
(* every index anywhere in a path (also inside filters, predicates and exists(...)) is an i32 *)
Inductive step_in_i32 : path -> Prop :=
| si_plain p : no_index_step p = true -> step_in_i32 p
| si_indices l : Forall aidx_in_i32 l -> step_in_i32 (PIndices l)
| si_filter e : expr_in_i32 e -> step_in_i32 (PFilter e)
| si_predicate e : expr_in_i32 e -> step_in_i32 (PPredicate e)
with expr_in_i32 : expr -> Prop :=
| ei_paths l : Forall step_in_i32 l -> expr_in_i32 (EPaths l)
| ei_value v : expr_in_i32 (EValue v)
| ei_bin op l r : expr_in_i32 l -> expr_in_i32 r -> expr_in_i32 (EBin op l r)
| ei_unary op x : expr_in_i32 x -> expr_in_i32 (EArithU op x)
| ei_arith op l r : expr_in_i32 l -> expr_in_i32 r -> expr_in_i32 (EArithB op l r)
| ei_exists l : Forall step_in_i32 l -> expr_in_i32 (EExists l).
Definition path_in_i32 (ps : list path) : Prop := Forall step_in_i32 ps.

(* ---------------------------------------------------------------- integers *)
Lemma int_digits_range neg lo hi : forall bs acc any, (any = true -> lo <= acc <= hi)%Z ->
  pall (fun z => lo <= z <= hi)%Z (int_digits neg lo hi bs acc any).
Proof.
  induction bs as [|b r IH]; intros acc any Ha; cbn [int_digits].
  - destruct any; [cbn [pall]; apply Ha; reflexivity|exact I].
  - destruct (is_digit b).
    + cbv zeta. destruct ((_ <? lo) || (hi <? _))%Z eqn:E; [exact I|]. apply IH. intros _.
      apply orb_false_iff in E. destruct E as [E1 E2]. apply Z.ltb_ge in E1. apply Z.ltb_ge in E2. lia.
    + destruct any; [cbn [pall]; apply Ha; reflexivity|exact I].
Qed.
Lemma pint_range lo hi bs : pall (fun z => lo <= z <= hi)%Z (pint lo hi bs).
Proof.
  unfold pint. destruct bs as [|c r]; [apply int_digits_range; discriminate|].
  destruct (c =? 43); [apply int_digits_range; discriminate|]. destruct (c =? 45); apply int_digits_range; discriminate.
Qed.
Lemma pi32_in_i32 bs : pall (fun z => in_i32 z = true) (pi32 bs).
Proof.
  apply (pall_mono (fun z => -2147483648 <= z <= 2147483647)%Z); [|apply pint_range].
  intros z H. unfold in_i32. apply andb_true_iff. split; apply Z.leb_le; lia.
Qed.
Lemma last_minus_in_i32 v n : last_minus v = Some n -> in_i32 n = true.
Proof.
  unfold last_minus. destruct (v =? - two63)%Z; [discriminate|].
  destruct ((-2147483648 <=? - v) && (- v <=? 2147483647))%Z eqn:E; [|discriminate]. intros H. injection H as <-. exact E.
Qed.

(* ---------------------------------------------------------------- key paths *)
Lemma key_path_in_i32 bs : pall kp_in_i32 (key_path bs).
Proof.
  unfold key_path. apply pall_alt; [apply pall_map; exact (pi32_in_i32 bs)|].
  apply pall_alt; [apply pall_map, pall_triv; intros; exact I|].
  destruct bs as [|c r]; [apply pall_map, pall_triv; intros; exact I|].
  destruct (is_digit c); [exact I|apply pall_map, pall_triv; intros; exact I].
Qed.
Theorem parsed_key_path_indices_are_i32 bs ks : parse_key_paths bs = Ok ks -> Forall kp_in_i32 ks.
Proof.
  unfold parse_key_paths.
  assert (H : pall (Forall kp_in_i32) (key_paths bs)).
  { unfold key_paths. apply pall_alt.
    - apply pall_bind0. intros r1 _.
      apply (pall_bind (fun l => Forall kp_in_i32 l /\ l <> [])).
      + apply separated_list1_all. intros b. apply ws_around_all. exact key_path_in_i32.
      + intros r2 l [Hl _]. apply pall_bind0. intros r3 _. exact Hl.
    - apply pall_bind0. intros r1 _. apply pall_bind0. intros r2 _. constructor. }
  destruct (key_paths bs) as [r l| | |]; try discriminate. destruct r; [|discriminate]. intros E. injection E as <-. exact H.
Qed.

(* ---------------------------------------------------------------- JSONPath *)
Lemma pindex_in_i32 bs : pall index_in_i32 (pindex bs).
Proof.
  unfold pindex. repeat apply pall_alt.
  - apply pall_map. exact (pi32_in_i32 bs).
  - do 2 (apply pall_bind0; intros ? _). apply pall_bind0. intros r3 v.
    destruct (last_minus v) as [n|] eqn:E; [|exact I]. cbn [pall index_in_i32]. apply (last_minus_in_i32 v n E).
  - do 2 (apply pall_bind0; intros ? _). apply (pall_bind (fun z => in_i32 z = true)); [apply pi32_in_i32|]. intros r3 v Hv. exact Hv.
  - apply pall_map, pall_triv. intros _. reflexivity.
Qed.
Lemma parray_index_in_i32 bs : pall aidx_in_i32 (parray_index bs).
Proof.
  unfold parray_index. apply pall_alt.
  - apply (pall_bind index_in_i32); [apply pindex_in_i32|]. intros r1 s Hs. apply pall_bind0. intros r2 _.
    apply (pall_bind index_in_i32); [apply pindex_in_i32|]. intros r3 e He. split; assumption.
  - apply pall_map. apply pindex_in_i32.
Qed.
Lemma array_indices_in_i32 bs : pall (Forall aidx_in_i32) (array_indices bs).
Proof.
  unfold array_indices. apply pall_bind0. intros r1 _.
  apply (pall_bind (fun l => Forall aidx_in_i32 l /\ l <> [])).
  - apply separated_list1_all. intros b. apply ws_around_all. exact parray_index_in_i32.
  - intros r2 l [Hl _]. apply pall_bind0. intros r3 _. exact Hl.
Qed.
Lemma inner_path_in_i32 bs : pall step_in_i32 (inner_path bs).
Proof.
  unfold inner_path. repeat apply pall_alt; apply pall_map; try (apply pall_triv; intros; apply si_plain; reflexivity).
  apply (pall_mono (Forall aidx_in_i32)); [intros l; apply si_indices|apply array_indices_in_i32].
Qed.
Lemma expr_paths_in_i32 rp bs : pall (Forall step_in_i32) (expr_paths rp bs).
Proof.
  unfold expr_paths. apply (pall_bind (fun pre => step_in_i32 pre)).
  - apply pall_alt; [apply pall_map, pall_triv; intros; apply si_plain; reflexivity|].
    destruct rp; [exact I|apply pall_map, pall_triv; intros; apply si_plain; reflexivity].
  - intros r1 pre Hpre. apply (pall_bind (Forall step_in_i32)).
    + apply many0_all; [|constructor]. intros b. apply ws_around_all. exact inner_path_in_i32.
    + intros r2 ps Hps. constructor; assumption.
Qed.
Lemma inner_expr_in_i32 rp bs : pall expr_in_i32 (inner_expr rp bs).
Proof.
  unfold inner_expr. apply pall_alt; apply pall_map.
  - apply (pall_mono (Forall step_in_i32)); [intros l; apply ei_paths|apply expr_paths_in_i32].
  - apply pall_triv. intros v. apply ei_value.
Qed.
Lemma fold_bin_in_i32 op l : Forall expr_in_i32 l -> expr_in_i32 (fold_bin op l).
Proof.
  intros HF. destruct l as [|x r]; [apply ei_value|]. cbn [fold_bin]. inversion HF as [|? ? Hx Hr]; subst. clear HF.
  revert x Hx. induction Hr as [|y r Hy _ IH]; intros x Hx; cbn [fold_left]; [exact Hx|]. apply IH. apply ei_bin; assumption.
Qed.

Section Exprs.
  Variable rp : bool.
  Variable path_rec : list N -> pres path.
  Variable expr_or_rec : list N -> pres expr.
  Hypothesis Hpath : forall bs, pall step_in_i32 (path_rec bs).
  Hypothesis Hor : forall bs, pall expr_in_i32 (expr_or_rec bs).
  Lemma pexists_in_i32 bs : pall expr_in_i32 (pexists path_rec bs).
  Proof.
    unfold pexists, exists_paths. do 2 (apply pall_bind0; intros ? _).
    apply (pall_bind (Forall step_in_i32)).
    - apply (pall_bind step_in_i32).
      + apply pall_alt; apply pall_map, pall_triv; intros; apply si_plain; reflexivity.
      + intros r1 pre Hpre. apply (pall_bind (Forall step_in_i32)); [apply many0_all; [exact Hpath|constructor]|].
        intros r2 ps Hps. constructor; assumption.
    - intros r3 ps Hps. apply pall_bind0. intros r4 _. apply ei_exists. exact Hps.
  Qed.
  Lemma expr_atom_in_i32 bs : pall expr_in_i32 (expr_atom rp path_rec expr_or_rec bs).
  Proof.
    unfold expr_atom. repeat apply pall_alt.
    - apply (pall_bind expr_in_i32); [apply ws_around_all, inner_expr_in_i32|]. intros r1 l Hl. apply pall_bind0. intros r2 o.
      apply (pall_bind expr_in_i32); [apply ws_around_all, inner_expr_in_i32|]. intros r3 r Hr. apply ei_arith; assumption.
    - apply (pall_bind expr_in_i32); [apply ws_around_all, inner_expr_in_i32|]. intros r1 l Hl. apply pall_bind0. intros r2 o.
      apply (pall_bind expr_in_i32); [apply ws_around_all, inner_expr_in_i32|]. intros r3 r Hr. apply ei_bin; assumption.
    - apply pall_bind0. intros r1 o. apply (pall_bind expr_in_i32); [apply ws_around_all, inner_expr_in_i32|]. intros r2 x Hx.
      apply ei_unary; assumption.
    - apply pall_bind0. intros r1 _. apply (pall_bind expr_in_i32); [apply Hor|]. intros r2 e He. apply pall_bind0. intros r3 _. exact He.
    - apply pexists_in_i32.
  Qed.
  Lemma expr_and_in_i32 bs : pall expr_in_i32 (expr_and rp path_rec expr_or_rec bs).
  Proof.
    unfold expr_and. apply pall_map.
    apply (pall_mono (fun l => Forall expr_in_i32 l /\ l <> [])); [|apply separated_list1_all; exact expr_atom_in_i32].
    intros l [H1 _]. apply fold_bin_in_i32. exact H1.
  Qed.
  Lemma expr_or_in_i32 bs : pall expr_in_i32 (expr_or rp path_rec expr_or_rec bs).
  Proof.
    unfold expr_or. apply pall_map.
    apply (pall_mono (fun l => Forall expr_in_i32 l /\ l <> [])); [|apply separated_list1_all; exact expr_and_in_i32].
    intros l [H1 _]. apply fold_bin_in_i32. exact H1.
  Qed.
End Exprs.

Lemma fuel_in_i32 fuel :
  (forall rp bs, pall expr_in_i32 (expr_or_fuel fuel rp bs)) /\ (forall bs, pall step_in_i32 (path_fuel fuel bs)).
Proof.
  induction fuel as [|f [IHe IHp]]; split; intros; cbn [expr_or_fuel path_fuel]; try exact I.
  - apply expr_or_in_i32; [exact IHp|apply IHe].
  - apply pall_alt.
    + apply ws_around_all. exact inner_path_in_i32.
    + apply ws_around_all. intros b. do 2 (apply pall_bind0; intros ? _).
      apply (pall_bind expr_in_i32); [apply IHe|]. intros r3 e He. apply pall_bind0. intros r4 _. apply si_filter. exact He.
Qed.
Lemma json_path_in_i32 fuel bs : pall path_in_i32 (json_path_fuel fuel bs).
Proof.
  unfold json_path_fuel. cbv zeta. apply (pall_bind path_in_i32); [|intros r ps Hps; exact Hps].
  apply pall_alt.
  - apply pall_map. apply ws_around_all. intros b.
    apply (pall_mono expr_in_i32); [|apply (proj1 (fuel_in_i32 fuel))]. intros e He. constructor; [apply si_predicate; exact He|constructor].
  - assert (Hpre : pall step_in_i32 (pre_path (multispace0 bs))).
    { unfold pre_path. apply pall_alt; apply pall_map, pall_triv; intros; apply si_plain; reflexivity. }
    assert (Hm : forall r1, pall (Forall step_in_i32) (many0 (path_fuel fuel) (S (length r1)) r1 []))
      by (intros r1; apply many0_all; [apply (proj2 (fuel_in_i32 fuel))|constructor]).
    destruct (pre_path (multispace0 bs)) as [r p| | |]; cbn [pall] in Hpre; try exact I.
    + apply (pall_bind (Forall step_in_i32)); [apply Hm|]. intros r2 ps Hps. constructor; assumption.
    + apply (pall_bind (Forall step_in_i32)); [apply Hm|]. intros r2 ps Hps. exact Hps.
Qed.
Theorem parsed_json_path_indices_are_i32 bs ps : parse_json_path bs = Ok ps -> path_in_i32 ps.
Proof.
  unfold parse_json_path. pose proof (json_path_in_i32 (S (length bs)) bs) as H.
  destruct (json_path_fuel (S (length bs)) bs) as [r l| | |]; try discriminate.
  destruct r; [|discriminate]. intros E. inversion E. subst. exact H.
Qed.
(* both parsers *)
Theorem parsed_indices_are_i32 :
  (forall bs ks, parse_key_paths bs = Ok ks -> Forall kp_in_i32 ks) /\
  (forall bs ps, parse_json_path bs = Ok ps -> path_in_i32 ps).
Proof. split; [exact parsed_key_path_indices_are_i32|exact parsed_json_path_indices_are_i32]. Qed.

(* not vacuous, and the bound is sharp *)
Example parsed_i32_examples :
  parse_key_paths [123; 50; 49; 52; 55; 52; 56; 51; 54; 52; 55; 125] = Ok [KIndex 2147483647] /\
  parse_key_paths [123; 50; 49; 52; 55; 52; 56; 51; 54; 52; 56; 125] = Err EOther /\
  parse_key_paths [123; 45; 50; 49; 52; 55; 52; 56; 51; 54; 52; 56; 125] = Ok [KIndex (-2147483648)].
Proof. vm_compute. repeat split. Qed.
