(* ComparableWalkProofs.v — the offset-faithful convert_to_comparable appends exactly the key of the tree (C14). *)
From Coq Require Import List NArith ZArith Bool Lia.
Import ListNotations.
From JB Require Import Constants Bytes Utf8 Num Value Codec Order CmpKey NumProofs OrderProofs CodecProofs RoundtripProofs DispatchProofs
  Walk WalkProofs CompareWalk CompareWalkProofs ComparableWalk.
Open Scope N_scope.
Set Default Timeout 300.

Definition goK (d : N) : list value -> res (list N) :=
  fix go (l : list value) : res (list N) :=
    match l with
    | [] => Ok []
    | x :: r => do a <- key_entry d x; do b <- go r; Ok (a ++ b)
    end.
Definition goKO (d : N) : list (list N * value) -> res (list N) :=
  fix go (l : list (list N * value)) : res (list N) :=
    match l with
    | [] => Ok []
    | (k, x) :: r => do a <- key_entry d x; do b <- go r; Ok ((d :: level_of_tag STRING_TAG :: k) ++ a ++ b)
    end.
Lemma key_arr depth l : key_entry depth (VArr l) = do body <- goK (sat1 depth) l; Ok (depth :: ARRAY_LEVEL :: body).
Proof. reflexivity. Qed.
Lemma key_obj depth o : key_entry depth (VObj o) = do body <- goKO (sat1 depth) o; Ok (depth :: OBJECT_LEVEL :: body).
Proof. reflexivity. Qed.

Definition appended (buf : list N) (r : res (list N)) : res (list N) := do k <- r; Ok (buf ++ k).

(* the same loops over an arbitrary per-value key function (instantiated below with the key of the normalised value) *)
Definition goKf (kf : value -> res (list N)) : list value -> res (list N) :=
  fix go (l : list value) : res (list N) :=
    match l with
    | [] => Ok []
    | x :: r => do a <- kf x; do b <- go r; Ok (a ++ b)
    end.
Definition goKOf (d : N) (kf : value -> res (list N)) : list (list N * value) -> res (list N) :=
  fix go (l : list (list N * value)) : res (list N) :=
    match l with
    | [] => Ok []
    | (k, x) :: r => do a <- kf x; do b <- go r; Ok ((d :: level_of_tag STRING_TAG :: k) ++ a ++ b)
    end.
Lemma goKf_norm d l : goKf (fun x => key_entry d (normalise x)) l = goK d (map normalise l).
Proof. induction l as [|x l IH]; [reflexivity|]. cbn [goKf goK map]. rewrite IH. reflexivity. Qed.
Lemma goKOf_norm d o : goKOf d (fun x => key_entry d (normalise x)) o = goKO d (map (fun kv => (fst kv, normalise (snd kv))) o).
Proof. induction o as [|[k x] o IH]; [reflexivity|]. cbn [goKOf goKO map fst snd]. rewrite IH. reflexivity. Qed.

Section Loops.
  Variable V : list N.
  Variable f : nat.
  Variable kf : value -> res (list N).
  Notation sc := (scalar_cmp_w f V).

  Lemma arr_cmp_entry l lo d : placed V (VArr l) lo -> Forall (fun v => wf_size v = true) l ->
    (forall x, In x l -> forall lo' buf, placed V x lo' -> sc d (word x) lo' buf = appended buf (kf x)) ->
    forall todo done buf fuel, l = done ++ todo -> (length todo < fuel)%nat ->
    arr_cmp_loop V sc fuel d (lenN done) (lenN l) (lo + 4) (4 * lenN done) (4 * lenN l + sum_len done) buf
    = appended buf (goKf kf todo).
  Proof.
    intros PL W Hsc. induction todo as [|x t IH]; intros done buf fuel E Hf; (destruct fuel as [|fuel]; [cbn [length] in Hf; lia|]); cbn [arr_cmp_loop]; unfold CVA_JSTEP.
    - rewrite app_nil_r in E. subst done. rewrite N.ltb_irrefl. cbn [goKf appended bind]. rewrite app_nil_r. reflexivity.
    - assert (H1 : lenN l = lenN done + (1 + lenN t)) by (rewrite E, lenN_app, lenN_cons; reflexivity).
      replace (lenN done <? lenN l) with true by (symmetry; apply N.ltb_lt; lia).
      destruct PL as (A & B & EL & ELo).
      assert (RL : read_u32 V (lo + 4 + 4 * lenN done) = Some (word x)).
      { rewrite EL, payload_arr.
        replace (A ++ (be32 (arr_hdr l) ++ flat_map be32 (map word l) ++ flat_map payload l) ++ B)
          with ((A ++ be32 (arr_hdr l)) ++ flat_map be32 (map word l) ++ (flat_map payload l ++ B)) by (rewrite <- !app_assoc; reflexivity).
        apply (read_word_at _ (map word l) _ (map word done) (word x) (map word t)).
        - apply words_of_values_ok. exact W.
        - rewrite E, map_app. reflexivity.
        - rewrite lenN_app, lenN_be32, lenN_map. lia. }
      rewrite RL.
      assert (N1 : nth_opt l (length done) = Some x) by (rewrite E; clear; induction done as [|d0 done IHd]; cbn [nth_opt app length]; [reflexivity|exact IHd]).
      assert (F1 : firstn (length done) l = done) by (rewrite E, firstn_app, Nat.sub_diag, firstn_all; cbn [firstn]; apply app_nil_r).
      pose proof (placed_elem V l lo _ x (ex_intro _ A (ex_intro _ B (conj EL ELo))) N1) as P1. rewrite F1 in P1.
      replace (lo + 4 + (4 * lenN l + sum_len done)) with (lo + 4 + 4 * lenN l + sum_len done) by lia.
      assert (FO : from_ok V (lo + 4 + 4 * lenN l + sum_len done) = Ok tt) by (destruct P1 as (A' & B' & E' & ->); rewrite E'; apply from_ok_in; reflexivity).
      rewrite FO. cbn [bind].
      rewrite (Hsc x ltac:(rewrite E; apply in_or_app; right; left; reflexivity) _ buf P1).
      cbn [goKf]. unfold appended.
      assert (Wx : wf_size x = true) by (rewrite Forall_forall in W; apply W; rewrite E; apply in_or_app; right; left; reflexivity).
      destruct (kf x) as [k| |]; cbn [bind]; try reflexivity.
      rewrite (word_len x Wx).
      specialize (IH (done ++ [x]) (buf ++ k) fuel). rewrite lenN_app, lenN_cons, lenN_nil, sum_len_app in IH. cbn [sum_len fold_right] in IH.
      replace (lenN done + 1) with (lenN done + (1 + 0)) by lia.
      replace (4 * lenN done + 4) with (4 * (lenN done + (1 + 0))) by lia.
      replace (4 * lenN l + sum_len done + lenN (payload x)) with (4 * lenN l + (sum_len done + (lenN (payload x) + 0))) by lia.
      rewrite IH by (try (rewrite E, <- app_assoc; reflexivity); cbn [length] in Hf; lia).
      unfold appended. destruct (goKf kf t) as [b| |]; cbn [bind]; try reflexivity. rewrite <- app_assoc. reflexivity.
  Qed.
End Loops.

Section LoopsObj.
  Variable V : list N.
  Variable f : nat.
  Variable kf : value -> res (list N).
  Notation sc := (scalar_cmp_w (S f) V).

  Lemma key_cmp d k A B buf : lenN k < 268435456 -> V = A ++ k ++ B ->
    sc d (key_word k) (lenN A) buf = Ok (buf ++ d :: level_of_tag STRING_TAG :: k).
  Proof.
    intros Hk ->. cbn [scalar_cmp_w]. rewrite (key_word_type k Hk), (key_word_len k Hk).
    change (STRING_TAG =? CONTAINER_TAG) with false. change (STRING_TAG =? STRING_TAG) with true. cbv iota.
    rewrite slice_p_in by reflexivity. cbn [bind]. rewrite <- !app_assoc. reflexivity.
  Qed.

  Lemma obj_cmp_entry o lo d : placed V (VObj o) lo -> obj_ok o ->
    (forall kv, In kv o -> forall lo' buf, placed V (snd kv) lo' -> sc d (word (snd kv)) lo' buf = appended buf (kf (snd kv))) ->
    forall todo done buf, o = done ++ todo ->
    obj_cmp_loop V sc (kws todo) d (lo + 4) (4 * lenN o + 4 * lenN done) (8 * lenN o + sum_keys done)
                 (8 * lenN o + sum_keys o + sum_len (vals done)) buf
    = appended buf (goKOf d kf todo).
  Proof.
    intros PL W Hsc. induction todo as [|[k x] t IH]; intros done buf E; cbn [kws map obj_cmp_loop]; unfold CVO_JSTEP2.
    - cbn [goKOf appended bind]. rewrite app_nil_r. reflexivity.
    - fold (kws t). cbn [fst].
      assert (Hk : wf_size x = true /\ lenN k < 268435456).
      { unfold obj_ok in W. rewrite E in W. apply Forall_app in W. destruct W as [_ W]. inversion W as [|? ? Hh ?]. exact Hh. }
      destruct Hk as [Wx Hk].
      destruct (placed_key V o lo done k x t PL E) as (Ak & Bk & EK & LK).
      replace (lo + 4 + (8 * lenN o + sum_keys done)) with (lenN Ak) by lia.
      assert (FK : from_ok V (lenN Ak) = Ok tt) by (rewrite EK; apply from_ok_in; reflexivity).
      rewrite FK. cbn [bind]. rewrite (key_cmp d k Ak Bk buf Hk EK). cbn [bind].
      destruct PL as (A & B & EL & ELo).
      assert (RL : read_u32 V (lo + 4 + (4 * lenN o + 4 * lenN done)) = Some (word x)).
      { rewrite EL, obj_regroup. apply (read_word_at _ (kws o ++ vws o) _ (kws o ++ vws done) (word x) (vws t)).
        - apply obj_words_ok. exact W.
        - rewrite <- app_assoc. f_equal. rewrite E at 1. unfold vws. rewrite map_app. reflexivity.
        - rewrite !lenN_app, lenN_be32, len_kws, len_vws. lia. }
      rewrite RL.
      pose proof (placed_val V o lo done k x t (ex_intro _ A (ex_intro _ B (conj EL ELo))) E) as P1.
      replace (lo + 4 + (8 * lenN o + sum_keys o + sum_len (vals done))) with (lo + 4 + 8 * lenN o + sum_keys o + sum_len (vals done)) by lia.
      assert (FO : from_ok V (lo + 4 + 8 * lenN o + sum_keys o + sum_len (vals done)) = Ok tt) by (destruct P1 as (A' & B' & E' & ->); rewrite E'; apply from_ok_in; reflexivity).
      rewrite FO. cbn [bind].
      pose proof (Hsc (k, x) ltac:(rewrite E; apply in_or_app; right; left; reflexivity) _ (buf ++ d :: level_of_tag STRING_TAG :: k) P1) as HS.
      cbn [snd] in HS. rewrite HS. cbn [goKOf]. unfold appended.
      destruct (kf x) as [kx| |]; cbn [bind]; try reflexivity.
      rewrite (word_len x Wx), (key_word_len k Hk).
      specialize (IH (done ++ [(k, x)]) ((buf ++ d :: level_of_tag STRING_TAG :: k) ++ kx)).
      rewrite lenN_app, lenN_cons, lenN_nil, sum_keys_app in IH. unfold vals in IH. rewrite map_app, sum_len_app in IH.
      cbn [map snd fst sum_len sum_keys fold_right] in IH. fold (vals done) in IH.
      replace (4 * lenN o + 4 * lenN done + 4) with (4 * lenN o + 4 * (lenN done + (1 + 0))) by lia.
      replace (8 * lenN o + sum_keys done + lenN k) with (8 * lenN o + (sum_keys done + (lenN k + 0))) by lia.
      replace (8 * lenN o + sum_keys o + sum_len (vals done) + lenN (payload x)) with (8 * lenN o + sum_keys o + (sum_len (vals done) + (lenN (payload x) + 0))) by lia.
      rewrite IH by (rewrite E, <- app_assoc; reflexivity).
      unfold appended. destruct (goKOf d kf t) as [b| |]; cbn [bind]; try reflexivity. cbn [app]. rewrite <- !app_assoc. reflexivity.
  Qed.
End LoopsObj.

Theorem scalar_cmp_entry V : forall x, wfb x = true -> forall fuel d lo buf, (depth x <= fuel)%nat -> placed V x lo ->
  scalar_cmp_w fuel V d (word x) lo buf = appended buf (key_entry d (normalise x)).
Proof.
  induction x as [|bx|sx|nx|l IH|o IH] using value_ind2; intros Wx fuel d lo buf Hf PL;
    (destruct fuel as [|f]; [cbn [depth] in Hf; lia|]);
    pose proof (wfb_size _ Wx) as Sx; cbn [scalar_cmp_w]; unfold CVC_ARR_SKIP, CVC_OBJ_SKIP; rewrite (word_type _ Sx); cbn [tag_of normalise].
  - change (NULL_TAG =? CONTAINER_TAG) with false. change (NULL_TAG =? STRING_TAG) with false. change (NULL_TAG =? NUMBER_TAG) with false.
    cbv iota. cbn [key_entry appended bind tag_of]. rewrite <- app_assoc. reflexivity.
  - destruct bx; cbn [tag_of];
      [change (TRUE_TAG =? CONTAINER_TAG) with false; change (TRUE_TAG =? STRING_TAG) with false; change (TRUE_TAG =? NUMBER_TAG) with false
      |change (FALSE_TAG =? CONTAINER_TAG) with false; change (FALSE_TAG =? STRING_TAG) with false; change (FALSE_TAG =? NUMBER_TAG) with false];
      cbv iota; cbn [key_entry appended bind tag_of]; rewrite <- app_assoc; reflexivity.
  - change (STRING_TAG =? CONTAINER_TAG) with false. change (STRING_TAG =? STRING_TAG) with true. cbv iota.
    rewrite (word_len _ Sx). destruct PL as (A & B & -> & ->). rewrite slice_p_in by reflexivity.
    cbn [bind key_entry appended]. change (payload (VStr sx)) with sx. rewrite <- !app_assoc. reflexivity.
  - change (NUMBER_TAG =? CONTAINER_TAG) with false. change (NUMBER_TAG =? STRING_TAG) with false. change (NUMBER_TAG =? NUMBER_TAG) with true. cbv iota.
    rewrite (word_len _ Sx). destruct PL as (A & B & -> & ->). rewrite slice_p_in by reflexivity. cbn [bind].
    change (payload (VNum nx)) with (compact_encode nx).
    assert (Rx : num_in_range nx = true) by (unfold wfb in Wx; apply andb_true_iff in Wx; apply Wx).
    rewrite (num_roundtrip nx Rx). cbn [key_entry appended bind]. rewrite <- !app_assoc. reflexivity.
  - (* arrays *)
    destruct (wf_arr l Wx) as [Hall Hn].
    assert (W : Forall (fun v => wf_size v = true) l) by (eapply Forall_impl; [|exact Hall]; intros v; apply wfb_size).
    change (CONTAINER_TAG =? CONTAINER_TAG) with true. cbv iota.
    destruct PL as (A & B & EL & ELo).
    assert (PL : placed V (VArr l) lo) by (exists A, B; split; assumption).
    assert (RH : read_u32 V lo = Some (arr_hdr l)) by (rewrite EL, ELo; apply (read_hdr_arr A l B Hn)).
    rewrite RH. destruct (arr_hdr_facts l Hn) as (_ & T & L'). rewrite T, L', N.eqb_refl.
    assert (FO : from_ok V (lo + 4) = Ok tt).
    { rewrite EL, ELo, payload_arr.
      replace (A ++ (be32 (arr_hdr l) ++ flat_map be32 (map word l) ++ flat_map payload l) ++ B)
        with ((A ++ be32 (arr_hdr l)) ++ [] ++ (flat_map be32 (map word l) ++ flat_map payload l ++ B)) by (cbn [app]; rewrite <- !app_assoc; reflexivity).
      apply from_ok_in. rewrite lenN_app, lenN_be32. reflexivity. }
    rewrite FO. cbn [bind]. unfold array_cmp_w, CVA_JOFF, CVA_VOFF.
    pose proof (arr_cmp_entry V f (fun x => key_entry (sat1 d) (normalise x)) l lo (sat1 d) PL W) as AL.
    specialize (AL ltac:(intros x Hx lo' buf' P1; rewrite Forall_forall in IH; apply (IH x Hx);
                         [rewrite Forall_forall in Hall; apply Hall; exact Hx|cbn [depth] in Hf; pose proof (depth_elem l x Hx); lia|exact P1])).
    specialize (AL l [] ((buf ++ [d]) ++ [ARRAY_LEVEL]) (S (length V)) eq_refl).
    cbn [sum_len fold_right] in AL. rewrite lenN_nil, N.mul_0_r, !N.add_0_r in AL.
    rewrite AL by (pose proof (placed_len V _ lo PL); pose proof (payload_arr_len l); lia).
    rewrite goKf_norm, key_arr. unfold appended. destruct (goK (sat1 d) (map normalise l)) as [b| |]; cbn [bind]; try reflexivity.
    rewrite <- !app_assoc. reflexivity.
  - (* objects *)
    destruct (obj_ok_of_wf o Wx) as [Ho Hn]. destruct (wf_obj o Wx) as (Hall & _ & _).
    change (CONTAINER_TAG =? CONTAINER_TAG) with true. cbv iota.
    destruct PL as (A & B & EL & ELo).
    assert (PL : placed V (VObj o) lo) by (exists A, B; split; assumption).
    assert (RH : read_u32 V lo = Some (obj_hdr o)) by (rewrite EL, ELo; apply (read_hdr_obj A o B Hn)).
    rewrite RH. destruct (obj_hdr_facts o Hn) as (_ & T & L'). rewrite T, L'.
    change (OBJECT_CONTAINER_TAG =? ARRAY_CONTAINER_TAG) with false. rewrite N.eqb_refl.
    assert (FO : from_ok V (lo + 4) = Ok tt).
    { rewrite EL, ELo, payload_obj.
      replace (A ++ (be32 (obj_hdr o) ++ flat_map be32 (kws o ++ vws o) ++ keys_bytes o ++ flat_map payload (vals o)) ++ B)
        with ((A ++ be32 (obj_hdr o)) ++ [] ++ (flat_map be32 (kws o ++ vws o) ++ keys_bytes o ++ flat_map payload (vals o) ++ B)) by (cbn [app]; rewrite <- !app_assoc; reflexivity).
      apply from_ok_in. rewrite lenN_app, lenN_be32. reflexivity. }
    rewrite FO. cbn [bind]. unfold object_cmp_w, CVO_JOFF, CVO_JSTEP1, CVO_KOFF, CVO_VOFF. rewrite ?N.add_0_r, ?N.add_0_l.
    assert (RK : rd_words (S (length V)) V 0 (lenN o) (lo + 4) = Some (kws o)).
    { rewrite EL, ELo. apply (rd_key_words A o B _ Ho). rewrite !app_length. pose proof (payload_obj_len o). lia. }
    rewrite RK. rewrite (sum_je_len_kws o Ho).
    destruct f as [|f'].
    + assert (o = []) by (destruct o as [|[k x] r]; [reflexivity|]; cbn [depth fold_right snd] in Hf; destruct x; cbn [depth] in Hf; lia).
      subst o. cbn [kws map obj_cmp_loop key_entry appended bind]. rewrite <- !app_assoc. reflexivity.
    + pose proof (obj_cmp_entry V f' (fun x => key_entry (sat1 d) (normalise x)) o lo (sat1 d) PL Ho) as OL.
      specialize (OL ltac:(intros kv Hx lo' buf' P1; rewrite Forall_forall in IH; apply (IH kv Hx);
                           [rewrite Forall_forall in Hall; apply (Hall kv Hx)|cbn [depth] in Hf; pose proof (fold_max_le_obj o kv Hx); lia|exact P1])).
      specialize (OL o [] ((buf ++ [d]) ++ [OBJECT_LEVEL]) eq_refl).
      cbn [vals map sum_len sum_keys fold_right] in OL. change (lenN (@nil (list N * value))) with 0 in OL. rewrite ?N.mul_0_r, ?N.add_0_r in OL.
      rewrite OL. rewrite goKOf_norm, key_obj. unfold appended.
      destruct (goKO (sat1 d) (map (fun kv => (fst kv, normalise (snd kv))) o)) as [b| |]; cbn [bind]; try reflexivity.
      rewrite <- !app_assoc. reflexivity.
Qed.

Theorem comparable_b_enc v buf : wfb v = true -> comparable_b (enc v) buf = appended buf (comparable_key (normalise v)).
Proof.
  intros Wv. pose proof (wfb_size _ Wv) as Sv. unfold comparable_b, comparable_key.
  destruct (is_container v) eqn:Cv.
  - pose proof (placed_container_doc v Cv) as PV.
    assert (Hd : (depth v <= S (length (enc v)))%nat) by (pose proof (depth_le_len v); pose proof (enc_len_ge v); lia).
    pose proof (scalar_cmp_entry (enc v) v Wv (S (S (length (enc v)))) 0 0 buf ltac:(lia) PV) as E.
    destruct v as [| | | |l|o]; try discriminate Cv.
    + destruct (wf_arr l Wv) as [Hall Hn].
      assert (RH : read_u32 (enc (VArr l)) 0 = Some (arr_hdr l)).
      { pose proof (read_hdr_arr [] l [] Hn) as RH0. cbn [app] in RH0. rewrite app_nil_r in RH0. exact RH0. }
      rewrite RH. destruct (arr_hdr_facts l Hn) as (_ & T & L'). rewrite T, L'.
      change (ARRAY_CONTAINER_TAG =? SCALAR_CONTAINER_TAG) with false. rewrite N.eqb_refl.
      cbn [scalar_cmp_w] in E. unfold CVC_ARR_SKIP, CVC_OBJ_SKIP in E. rewrite (word_type _ Sv) in E. cbn [tag_of] in E. change (CONTAINER_TAG =? CONTAINER_TAG) with true in E. cbv iota in E.
      rewrite RH, T, L', N.eqb_refl in E. change (0 + 4) with 4 in E.
      rewrite <- E. destruct (from_ok (enc (VArr l)) 4); cbn [bind]; try reflexivity. rewrite <- app_assoc. reflexivity.
    + destruct (obj_ok_of_wf o Wv) as [Ho Hn].
      assert (RH : read_u32 (enc (VObj o)) 0 = Some (obj_hdr o)).
      { pose proof (read_hdr_obj [] o [] Hn) as RH0. cbn [app] in RH0. rewrite app_nil_r in RH0. exact RH0. }
      rewrite RH. destruct (obj_hdr_facts o Hn) as (_ & T & L'). rewrite T, L'.
      change (OBJECT_CONTAINER_TAG =? SCALAR_CONTAINER_TAG) with false. change (OBJECT_CONTAINER_TAG =? ARRAY_CONTAINER_TAG) with false. rewrite N.eqb_refl.
      cbn [scalar_cmp_w] in E. unfold CVC_ARR_SKIP, CVC_OBJ_SKIP in E. rewrite (word_type _ Sv) in E. cbn [tag_of] in E. change (CONTAINER_TAG =? CONTAINER_TAG) with true in E. cbv iota in E.
      rewrite RH, T, L' in E. change (OBJECT_CONTAINER_TAG =? ARRAY_CONTAINER_TAG) with false in E. rewrite N.eqb_refl in E. change (0 + 4) with 4 in E.
      rewrite <- E. destruct (from_ok (enc (VObj o)) 4); cbn [bind]; try reflexivity. rewrite <- app_assoc. reflexivity.
  - rewrite (scalar_hdr v Cv). change (hdr_type SCALAR_CONTAINER_TAG =? SCALAR_CONTAINER_TAG) with true. cbv iota.
    pose proof (rd_scalar_word v Cv Sv) as RW. unfold rd in RW. destruct (read_u32 (enc v) 4) as [w|] eqn:Er; [|discriminate RW].
    cbn [of_option] in RW. injection RW as ->.
    pose proof (placed_scalar_doc v Cv) as PV.
    assert (F1 : from_ok (enc v) 8 = Ok tt) by (destruct PV as (A & B & E & L'); rewrite E at 1; rewrite L'; apply from_ok_in; reflexivity).
    rewrite F1. cbn [bind].
    apply (scalar_cmp_entry (enc v) v Wv _ 0 8 buf); [|exact PV]. destruct v; try discriminate Cv; cbn [depth]; lia.
Qed.

Theorem comparable_w_enc v buf : wfb v = true -> top_ok v -> comparable_w (enc v) buf = appended buf (comparable_key (normalise v)).
Proof. intros Wv Tv. unfold comparable_w. rewrite (is_jsonb_enc v Wv Tv). apply comparable_b_enc. exact Wv. Qed.
