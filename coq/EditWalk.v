(* EditWalk.v — offset-faithful models of the binary branches of the editors of src/functions.rs:
   build_array, build_object, concat / concat_jsonb, delete_by_name / delete_jsonb_by_name,
   delete_by_index / delete_jsonb_by_index, array_insert / array_insert_jsonb.
   The Rust code reads the header word(s) of its input(s), walks them with the iterators of iterator.rs (Iter.v),
   pushes the raw (jentry, payload slice) pairs into an ArrayBuilder / ObjectBuilder (Builder.v) and calls
   build_into on the caller's buffer; build_array / build_object write into the caller's buffer directly
   (header slot reserved at `start`, patched at the end).
     read_u32(..)?                 -> Err EOther (Error::InvalidEOF), nothing else happens
     &value[4..8], &value[8..]     -> Panic when out of bounds
     Error::InvalidJsonbHeader     -> Err EOther;  Error::InvalidJsonType -> Err EInvalidJsonType
   The `for` loops over the iterators have no early exit and a body without effects other than the push, so they are
   modelled on the collected items (arr_items / obj_items: a panic inside the iterator is a panic of the loop).
   Capacities (`ArrayBuilder::new(n)`, `VecDeque::with_capacity(n)`) have no observable effect and are not modelled.
   The JSON-text branches are those of Dispatch.v (tree level in the Rust code too), except array_insert, whose text
   branch re-encodes the parsed value and calls the binary walker.
   Every function takes the caller's `buf: &mut Vec<u8>` as STATE (BufSt.v): `f_st args buf` = (the buffer as the call
   leaves it, the outcome), so that "bytes pushed, then Err returned" is expressible (build_array / build_object do
   it); `f_w` / `f_b` are the views that keep the buffer of a successful call only.
   Executable definitions only; EditWalkProofs.v proves that on encodings each walker appends exactly the encoding of
   the tree-level answer (TreeOps.v); EditStProofs.v / EditFrame.v / EditStEnc.v what the buffer holds after an error. *)
From Coq Require Import List NArith ZArith Bool.
Import ListNotations.
From JB Require Import Constants Bytes Utf8 Num Value Codec TreeOps JsonText Dispatch Walk Iter Builder BufSt.
Open Scope N_scope.

(* read_u32(value, off)? *)
Definition rd (bs : list N) (off : N) : res N := of_option EOther (read_u32 bs off).

(* builder.push_raw(jentry, item) *)
Definition raw_entry (it : je * list N) : entry := ERaw (fst it) (snd it).

(* positions are numbers, never unary: split a list at position n / drop the element at position n *)
Fixpoint split_at {A} (l : list A) (n : N) : list A * list A :=
  match l with
  | [] => ([], [])
  | x :: r => if n =? 0 then ([], l) else let '(a, b) := split_at r (n - 1) in (x :: a, b)
  end.
Fixpoint remove_at {A} (l : list A) (n : N) : list A :=
  match l with
  | [] => []
  | x :: r => if n =? 0 then r else x :: remove_at r (n - 1)
  end.

(* ------------------------------------------------------------------------------------------ *)
(* build_array / build_object: one item = a complete JSONB document                             *)
(*   let header = read_u32(value, 0)?;
     match header & CONTAINER_HEADER_TYPE_MASK {
       SCALAR_CONTAINER_TAG => { let jentry = &value[4..8]; data.extend_from_slice(&value[8..]); jentry }
       ARRAY_CONTAINER_TAG | OBJECT_CONTAINER_TAG => { data.extend_from_slice(value); (CONTAINER_TAG | value.len() as u32).to_be_bytes() }
       _ => return Err(Error::InvalidJsonbHeader) }
   the result is (the four entry bytes, the bytes appended to `data`) *)
Definition item_pieces (value : list N) : res (list N * list N) :=
  do header <- rd value 0;
  let ty := hdr_type header in
  if ty =? SCALAR_CONTAINER_TAG then
    do j <- or_panic (slice value 4 4);
    do d <- or_panic (slice_from value 8);
    Ok (j, d)
  else if (ty =? ARRAY_CONTAINER_TAG) || (ty =? OBJECT_CONTAINER_TAG) then
    Ok (be32 (jentry_word CONTAINER_TAG (lenN value)), value)
  else Err EOther.

(* The state versions return the caller's buffer as the function leaves it together with the outcome: an error return
   in the middle of the loop leaves the reserved header slot (zeroes) and the entries written so far in the buffer. *)
Fixpoint ba_loop (items : list (list N)) (buf data : list N) (len : N) : list N * res (list N * N) :=
  match items with
  | [] => (buf, Ok (data, len))
  | value :: r =>
      match item_pieces value with
      | Ok (j, d) => ba_loop r (buf ++ j) (data ++ d) (len + 1)
      | Err e => (buf, Err e)
      | Panic => (buf, Panic)
      end
  end.
Definition build_array_st (items : list (list N)) (buf : list N) : list N * res unit :=
  let start := length buf in
  let buf1 := buf ++ repeat 0 4 in                       (* buf.resize(start + 4, 0) *)
  match ba_loop items buf1 [] 0 with
  | (buf2, Ok (data, len)) =>
      (patch buf2 start (be32 (header_word ARRAY_CONTAINER_TAG len)) ++ data, Ok tt)
  | (buf2, Err e) => (buf2, Err e)
  | (buf2, Panic) => (buf2, Panic)
  end.
Definition build_array_w (items : list (list N)) (buf : list N) : res (list N) :=
  let '(b, r) := build_array_st items buf in do _ <- r; Ok b.

(* build_object: members collected into a BTreeMap<&str, &[u8]> first (sorted, the last value of a key wins); per member
   the key entry is written to the buffer BEFORE the value's header is read *)
Fixpoint bo_loop (members : list (list N * list N)) (buf key_data val_data val_jentries : list N) (len : N)
  : list N * res (list N * list N * list N * N) :=
  match members with
  | [] => (buf, Ok (key_data, val_data, val_jentries, len))
  | (key, value) :: r =>
      let buf1 := buf ++ be32 (jentry_word STRING_TAG (lenN key)) in
      match item_pieces value with
      | Ok (j, d) => bo_loop r buf1 (key_data ++ key) (val_data ++ d) (val_jentries ++ j) (len + 1)
      | Err e => (buf1, Err e)
      | Panic => (buf1, Panic)
      end
  end.
Definition build_object_kv_st (kvs : list (list N * list N)) (buf : list N) : list N * res unit :=
  let members := assoc_of_list kvs in
  let start := length buf in
  let buf1 := buf ++ repeat 0 4 in
  match bo_loop members buf1 [] [] [] 0 with
  | (buf2, Ok (key_data, val_data, val_jentries, len)) =>
      (patch buf2 start (be32 (header_word OBJECT_CONTAINER_TAG len)) ++ val_jentries ++ key_data ++ val_data, Ok tt)
  | (buf2, Err e) => (buf2, Err e)
  | (buf2, Panic) => (buf2, Panic)
  end.
(* the harness zips a key list with an item list (the Rust function takes an iterator of pairs) *)
Definition build_object_st (keys items : list (list N)) (buf : list N) : list N * res unit :=
  build_object_kv_st (combine keys items) buf.
Definition build_object_w (keys items : list (list N)) (buf : list N) : res (list N) :=
  let '(b, r) := build_object_st keys items buf in do _ <- r; Ok b.

(* ------------------------------------------------------------------------------------------ *)
(* a whole document pushed as one array element:
     OBJECT_CONTAINER_TAG (and, where the code says so, ARRAY) => (make_container_jentry(v.len()), v)
     _ => (decode_jentry(read_u32(v, 4)?), &v[8..])                                                  *)
Definition container_item (bs : list N) : je * list N := ((CONTAINER_TAG, u32 (lenN bs)), bs).
Definition scalar_item (bs : list N) : res (je * list N) :=
  do w <- rd bs 4;
  do d <- or_panic (slice_from bs 8);
  Ok (decode_je w, d).
Definition single_item (bs : list N) (ty : N) : res (je * list N) :=
  if ty =? OBJECT_CONTAINER_TAG then Ok (container_item bs) else scalar_item bs.

(* for (key, jentry, item) in iterate_object_entries(..) { builder.push_raw(key, jentry, item) } *)
Definition push_members (kes : list (list N * entry)) (items : list (list N * (je * list N))) : list (list N * entry) :=
  fold_left (fun acc it => obj_push acc (fst it) (raw_entry (snd it))) items kes.

(* ------------------------------------------------------------------------------------------ *)
(* The editors, with the caller's buffer as state (BufSt.v): `spure` = a statement that does not mention `buf`,
   `swrite` = build_into(buf) / extend_from_slice / write_to_vec(buf).  `f_st args buf` = (the buffer as the call
   leaves it, the outcome); `f_b` / `f_w` = the buffer of a successful call (BufSt.view).  *)

(* concat_jsonb *)
Definition concat_b_st (l r : list N) : stm unit :=
  sdo lh <- spure (rd l 0);
  sdo rh <- spure (rd r 0);
  let lt := hdr_type lh in
  let rt := hdr_type rh in
  if (lt =? OBJECT_CONTAINER_TAG) && (rt =? OBJECT_CONTAINER_TAG) then
    sdo li <- spure (obj_items l lh);
    sdo ri <- spure (obj_items r rh);
    swrite (fun buf => build_obj_into buf (push_members (push_members [] li) ri))
  else if (lt =? ARRAY_CONTAINER_TAG) && (rt =? ARRAY_CONTAINER_TAG) then
    sdo li <- spure (arr_items l lh);
    sdo ri <- spure (arr_items r rh);
    swrite (fun buf => build_arr_into buf (map raw_entry (li ++ ri)))
  else if rt =? ARRAY_CONTAINER_TAG then
    sdo le <- spure (single_item l lt);
    sdo ri <- spure (arr_items r rh);
    swrite (fun buf => build_arr_into buf (map raw_entry (le :: ri)))
  else if lt =? ARRAY_CONTAINER_TAG then
    sdo li <- spure (arr_items l lh);
    sdo re <- spure (single_item r rt);
    swrite (fun buf => build_arr_into buf (map raw_entry (li ++ [re])))
  else
    sdo le <- spure (single_item l lt);
    sdo re <- spure (single_item r rt);
    swrite (fun buf => build_arr_into buf (map raw_entry [le; re])).
Definition concat_b (l r buf : list N) : res (list N) := view (concat_b_st l r buf).

(* concat: if either side is not JSONB both are read with from_slice (`?`), concatenated as trees, and the result is
   written with write_to_vec(buf) *)
Definition concat_st (l r : list N) : stm unit :=
  if negb (is_jsonb l) || negb (is_jsonb r) then
    sdo a <- spure (from_slice l);
    sdo b <- spure (from_slice r);
    write_value (concat_t a b)
  else concat_b_st l r.
Definition concat_w (l r buf : list N) : res (list N) := view (concat_st l r buf).

(* delete_jsonb_by_name *)
Definition name_matches (name : list N) (it : je * list N) : bool :=
  (fst (fst it) =? STRING_TAG) && bytes_eqb (snd it) name.
Definition delete_by_name_b_st (bs name : list N) : stm unit :=
  sdo hdr <- spure (rd bs 0);
  let ty := hdr_type hdr in
  if ty =? OBJECT_CONTAINER_TAG then
    sdo items <- spure (obj_items bs hdr);
    swrite (fun buf => build_obj_into buf (push_members [] (filter (fun it => negb (bytes_eqb (fst it) name)) items)))
  else if ty =? ARRAY_CONTAINER_TAG then
    sdo items <- spure (arr_items bs hdr);
    swrite (fun buf => build_arr_into buf (map raw_entry (filter (fun it => negb (name_matches name it)) items)))
  else spure (Err EInvalidJsonType).
Definition delete_by_name_b (bs name buf : list N) : res (list N) := view (delete_by_name_b_st bs name buf).
(* text: parse_value(value)?, the edit on the tree (`return Err(InvalidJsonType)` for a scalar), val.write_to_vec(buf) *)
Definition delete_by_name_st (bs name : list N) : stm unit :=
  if is_jsonb bs then delete_by_name_b_st bs name
  else
    sdo v <- spure (parse_value bs);
    sdo y <- spure (delete_by_name_t v name);
    write_value y.
Definition delete_by_name_w (bs name buf : list N) : res (list N) := view (delete_by_name_st bs name buf).

(* delete_jsonb_by_index: `len` and `index` are i32 (the count field has 29 bits; `len + index` is only computed for a
   negative index, I32.v); DBI_B_RESOLVE / DBI_B_SKIP are generated from the source (gen/Constants.v) *)
Definition delete_by_index_b_st (bs : list N) (i : Z) : stm unit :=
  sdo hdr <- spure (rd bs 0);
  if hdr_type hdr =? ARRAY_CONTAINER_TAG then
    let len := Z.of_N (hdr_len hdr) in
    let index := DBI_B_RESOLVE i len in                                (* generated from delete_jsonb_by_index *)
    if DBI_B_SKIP index len then swrite (fun buf => buf ++ bs)          (* buf.extend_from_slice(value) *)
    else
      sdo items <- spure (arr_items bs hdr);                            (* enumerate(): i != index *)
      swrite (fun buf => build_arr_into buf (map raw_entry (remove_at items (Z.to_N index))))
  else spure (Err EInvalidJsonType).
Definition delete_by_index_b (bs : list N) (i : Z) (buf : list N) : res (list N) := view (delete_by_index_b_st bs i buf).
Definition delete_by_index_st (bs : list N) (i : Z) : stm unit :=
  if is_jsonb bs then delete_by_index_b_st bs i
  else
    sdo v <- spure (parse_value bs);
    sdo y <- spure (delete_by_index_t v i);
    write_value y.
Definition delete_by_index_w (bs : list N) (i : Z) (buf : list N) : res (list N) := view (delete_by_index_st bs i buf).

(* array_insert_jsonb: AI_RESOLVE / AI_CLAMP / AI_NONARRAY_LEN are generated from the source (gen/Constants.v).
   The items are collected, the first idx of them pushed, THEN the header of new_value is read (`?` twice) -- still
   before anything is written: the only write is the build_into at the end *)
Definition array_insert_b_st (bs : list N) (pos : Z) (nv : list N) : stm unit :=
  sdo hdr <- spure (rd bs 0);
  let ty := hdr_type hdr in
  let len := if ty =? ARRAY_CONTAINER_TAG then Z.of_N (hdr_len hdr) else AI_NONARRAY_LEN in
  let idx := AI_CLAMP (AI_RESOLVE pos len) len in                      (* generated from array_insert_jsonb *)
  sdo items <- spure (if ty =? ARRAY_CONTAINER_TAG then arr_items bs hdr
                      else if ty =? OBJECT_CONTAINER_TAG then Ok [container_item bs]
                      else do it <- scalar_item bs; Ok [it]);
  (* the first idx items (fewer if the iterator gave fewer), the new value, the rest *)
  let '(before, after) := split_at items (Z.to_N idx) in
  sdo nh <- spure (rd nv 0);
  let nt := hdr_type nh in
  sdo ni <- spure (if (nt =? ARRAY_CONTAINER_TAG) || (nt =? OBJECT_CONTAINER_TAG) then Ok (container_item nv)
                   else scalar_item nv);
  swrite (fun buf => build_arr_into buf (map raw_entry (before ++ ni :: after))).
Definition array_insert_b (bs : list N) (pos : Z) (nv buf : list N) : res (list N) := view (array_insert_b_st bs pos nv buf).
(* array_insert: a text input is parsed and re-encoded (write_to_vec into a fresh local Vec), then the binary walker runs *)
Definition array_insert_st (bs : list N) (pos : Z) (nv : list N) : stm unit :=
  if is_jsonb bs then
    if is_jsonb nv then array_insert_b_st bs pos nv
    else sdo x <- spure (parse_value nv); array_insert_b_st bs pos (to_vec x)
  else
    sdo v <- spure (parse_value bs);
    if is_jsonb nv then array_insert_b_st (to_vec v) pos nv
    else sdo x <- spure (parse_value nv); array_insert_b_st (to_vec v) pos (to_vec x).
Definition array_insert_w (bs : list N) (pos : Z) (nv buf : list N) : res (list N) := view (array_insert_st bs pos nv buf).
