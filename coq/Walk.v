(* Walk.v — offset-faithful models of the read-only byte walkers of src/functions.rs:
   get_jentry_by_index, get_jentry_by_name, extract_by_jentry, array_length, get_by_index, get_by_name,
   get_by_keypath, object_keys, object_each, array_values.
   The buffer is a byte list, offsets are numbers, `read_u32` fails where the code returns None through `?`,
   and a slice that the code takes with an index expression is `Panic` when it is out of bounds.
   Loops that run `length` times (a count read from the buffer) recurse on fuel = S (length bs): every iteration
   reads an entry word at a strictly increasing offset, so the loop ends by a failed read long before the fuel does;
   no attacker-chosen count is ever turned into a unary number.
   The JSON-text branch of each function is the one of Dispatch.v.  Executable definitions only; WalkProofs.v proves
   that on `enc v` each walker returns the tree answer. *)
From Coq Require Import List NArith ZArith Bool.
Import ListNotations.
From JB Require Import Constants Bytes Utf8 Num Value Codec TreeOps JsonText Dispatch.
Open Scope N_scope.

(* value[offset .. offset + length].to_vec() *)
Definition slice_p (bs : list N) (off len : N) : res (list N) := or_panic (slice bs off len).

(* extract_by_jentry *)
Definition extract_by_jentry_w (encoded offset : N) (bs : list N) : res (list N) :=
  let len := je_len encoded in
  if je_type encoded =? CONTAINER_TAG then slice_p bs offset len
  else if 0 <? len then
    do p <- slice_p bs offset len;
    Ok (be32 SCALAR_CONTAINER_TAG ++ be32 encoded ++ p)
  else Ok (be32 SCALAR_CONTAINER_TAG ++ be32 encoded).

(* get_jentry_by_index: for i in 0..length { read; if i < index {advance; continue}; return } *)
Fixpoint jbi_loop (fuel : nat) (bs : list N) (i len index joff voff : N) : option (N * N) :=
  match fuel with O => None | S f =>
  if i <? len then
    match read_u32 bs joff with
    | None => None
    | Some encoded =>
        if JBI_ADVANCE i index then jbi_loop f bs (i + 1) len index (joff + JBI_JSTEP) (voff + je_len encoded)
        else Some (encoded, voff)
    end
  else None
  end.
Definition get_jentry_by_index_w (bs : list N) (offset hdr index : N) : option (N * N) :=
  let len := hdr_len hdr in
  (* guard, initial offsets and stride: generated from get_jentry_by_index (gen/Constants.v, JBI_...) *)
  if JBI_REJECT index len then None
  else jbi_loop (S (length bs)) bs 0 len index (JBI_JOFF offset) (JBI_VOFF offset len).

(* read `len` consecutive entry words starting at joff (the first loop of get_jentry_by_name, object_keys, object_each) *)
Fixpoint rd_words (fuel : nat) (bs : list N) (i len joff : N) : option (list N) :=
  match fuel with O => None | S f =>
  if i <? len then
    match read_u32 bs joff with
    | None => None
    | Some w => match rd_words f bs (i + 1) len (joff + 4) with
                | None => None
                | Some ws => Some (w :: ws)
                end
    end
  else Some []
  end.
Definition sum_je_len (ws : list N) : N := fold_right (fun w a => je_len w + a) 0 ws.

(* get_jentry_by_name, second loop: one key at a time, the value entry word read alongside.
   `result` is the first case-insensitive match so far; an exact match ends the loop. *)
Fixpoint name_loop (bs name : list N) (ic : bool) (kws : list N) (key_off joff voff : N) (result : option (N * N))
  : res (option (N * N)) :=
  match kws with
  | [] => Ok result
  | kw :: r =>
      match slice bs key_off (je_len kw) with
      | None => Panic                                   (* &value[prev_key_offset..key_offset] *)
      | Some key =>
          match read_u32 bs joff with
          | None => Ok None                             (* `?`: the function returns None *)
          | Some venc =>
              if bytes_eqb name key then Ok (Some (venc, voff))
              else
                let result' := match result with
                               | None => if ic && eq_ignore_ascii_case name key then Some (venc, voff) else None
                               | Some _ => result
                               end in
                name_loop bs name ic r (key_off + je_len kw) (joff + JBN_JSTEP2) (voff + je_len venc) result'
          end
      end
  end.
Definition get_jentry_by_name_w (bs : list N) (offset hdr : N) (name : list N) (ic : bool) : res (option (N * N)) :=
  let len := hdr_len hdr in
  (* initial offsets and strides: generated from get_jentry_by_name (JBN_...); the first loop advanced jentry_offset
     by JBN_JSTEP1 per key and val_offset by the key lengths *)
  match rd_words (S (length bs)) bs 0 len (JBN_JOFF offset) with
  | None => Ok None
  | Some kws =>
      name_loop bs name ic kws (JBN_KOFF offset len) (JBN_JOFF offset + JBN_JSTEP1 * len)
                (JBN_VOFF offset len + sum_je_len kws) None
  end.

Definition opt_extract (bs : list N) (r : option (N * N)) : res (option (list N)) :=
  match r with
  | None => Ok None
  | Some (encoded, off) => do x <- extract_by_jentry_w encoded off bs; Ok (Some x)
  end.

(* ---- the binary branches ---- *)
Definition array_length_b (bs : list N) : res (option N) :=
  match read_u32 bs 0 with
  | None => Ok None
  | Some hdr => if hdr_type hdr =? ARRAY_CONTAINER_TAG then Ok (Some (hdr_len hdr)) else Ok None
  end.

Definition get_by_index_b (bs : list N) (index : N) : res (option (list N)) :=
  match read_u32 bs 0 with
  | None => Ok None
  | Some hdr =>
      if hdr_type hdr =? ARRAY_CONTAINER_TAG then opt_extract bs (get_jentry_by_index_w bs 0 hdr index)
      else Ok None
  end.

Definition get_by_name_b (bs name : list N) (ic : bool) : res (option (list N)) :=
  match read_u32 bs 0 with
  | None => Ok None
  | Some hdr =>
      if hdr_type hdr =? OBJECT_CONTAINER_TAG then
        do r <- get_jentry_by_name_w bs 0 hdr name ic; opt_extract bs r
      else Ok None
  end.

(* get_by_keypath: (curr_val_offset, curr_jentry_encoded, curr_jentry) threaded through the path elements *)
Definition in_i32 (z : Z) : bool := ((-2147483648 <=? z) && (z <=? 2147483647))%Z.
Fixpoint keypath_loop (bs : list N) (ks : list keypath) (off : N) (cur : option N) : res (option (N * option N)) :=
  match ks with
  | [] => Ok (Some (off, cur))
  | k :: r =>
      if match cur with Some e => negb (je_type e =? CONTAINER_TAG) | None => false end then Ok None else
      match read_u32 bs off with
      | None => Ok None
      | Some hdr =>
          let len := Z.of_N (hdr_len hdr) in
          match k with
          | KName n | KQuoted n =>
              if hdr_type hdr =? OBJECT_CONTAINER_TAG then
                do j <- get_jentry_by_name_w bs off hdr n false;
                match j with
                | Some (e, voff) => keypath_loop bs r voff (Some e)
                | None => Ok None
                end
              else Ok None
          | KIndex i =>
              if hdr_type hdr =? ARRAY_CONTAINER_TAG then
                (* length + idx stays inside i32: length < 2^29 *)
                if GBK_B_REJECT i len then Ok None           (* generated from the byte branch of get_by_keypath *)
                else
                  let idx := Z.to_N (GBK_B_INDEX i len) in
                  match get_jentry_by_index_w bs off hdr idx with
                  | Some (e, voff) => keypath_loop bs r voff (Some e)
                  | None => Ok None
                  end
              else Ok None
          end
      end
  end.
Definition get_by_keypath_b (bs : list N) (ks : list keypath) : res (option (list N)) :=
  do st <- keypath_loop bs ks 0 None;
  match st with
  | None => Ok None
  | Some (off, cur) =>
      if off =? 0 then Ok (Some bs)
      else match cur with
           | None => Ok None
           | Some e => do x <- extract_by_jentry_w e off bs; Ok (Some x)
           end
  end.

(* object_keys: header, the key entry words copied, then each non-empty key copied *)
Fixpoint copy_keys (bs : list N) (kws : list N) (prev : N) (acc : list N) : res (list N) :=
  match kws with
  | [] => Ok acc
  | kw :: r =>
      let off := prev + je_len kw in
      if prev <? off then
        match slice bs prev (je_len kw) with
        | None => Panic
        | Some k => copy_keys bs r off (acc ++ k)
        end
      else copy_keys bs r off acc
  end.
Definition object_keys_b (bs : list N) : res (option (list N)) :=
  match read_u32 bs 0 with
  | None => Ok None
  | Some hdr =>
      if hdr_type hdr =? OBJECT_CONTAINER_TAG then
        let len := hdr_len hdr in
        match rd_words (S (length bs)) bs 0 len OKS_JOFF with       (* generated from object_keys (OKS_...) *)
        | None => Ok None
        | Some kws =>
            do out <- copy_keys bs kws (OKS_PREV_KOFF len)
                        (be32 (N.lor ARRAY_CONTAINER_TAG (u32 len)) ++ flat_map be32 kws);
            Ok (Some out)
        end
      else Ok None
  end.

(* array_values: one pass, entry word and payload offset side by side *)
Fixpoint values_loop (fuel : nat) (bs : list N) (i len joff voff : N) : res (option (list (list N))) :=
  match fuel with O => Ok None | S f =>
  if i <? len then
    match read_u32 bs joff with
    | None => Ok None
    | Some e =>
        do x <- extract_by_jentry_w e voff bs;
        do rest <- values_loop f bs (i + 1) len (joff + AVS_JSTEP) (voff + je_len e);
        Ok (option_map (cons x) rest)
    end
  else Ok (Some [])
  end.
Definition array_values_b (bs : list N) : res (option (list (list N))) :=
  match read_u32 bs 0 with
  | None => Ok None
  | Some hdr =>
      if hdr_type hdr =? ARRAY_CONTAINER_TAG then
        let len := hdr_len hdr in values_loop (S (length bs)) bs 0 len AVS_JOFF (AVS_VOFF len)   (* generated: AVS_... *)
      else Ok None
  end.

(* object_each: 2*length entry words, then the keys, then the values *)
Fixpoint each_keys (bs : list N) (kws : list N) (off : N) : res (list (list N) * N) :=
  match kws with
  | [] => Ok ([], off)
  | kw :: r =>
      do k <- slice_p bs off (je_len kw);
      do (ks, off') <- each_keys bs r (off + je_len kw);
      Ok (k :: ks, off')
  end.
Fixpoint each_vals (bs : list N) (keys : list (list N)) (vws : list N) (off : N) : res (list (list N * list N)) :=
  match keys, vws with
  | k :: keys', e :: vws' =>
      do x <- extract_by_jentry_w e off bs;
      do rest <- each_vals bs keys' vws' (off + je_len e);
      Ok ((k, x) :: rest)
  | _, _ => Ok []
  end.
Definition object_each_b (bs : list N) : res (option (list (list N * list N))) :=
  match read_u32 bs 0 with
  | None => Ok None
  | Some hdr =>
      if hdr_type hdr =? OBJECT_CONTAINER_TAG then
        let len := hdr_len hdr in
        match rd_words (S (length bs)) bs 0 (OEA_WORDS len) OEA_OFF0 with      (* generated from object_each (OEA_...) *)
        | None => Ok None
        | Some ws =>
            (* the words were read, so 8 * len <= length bs and the conversion below is small *)
            let n := N.to_nat len in
            do (keys, off) <- each_keys bs (firstn n ws) (OEA_OFF0 + OEA_STEP * OEA_WORDS len);
            do items <- each_vals bs keys (skipn n ws) off;
            Ok (Some items)
        end
      else Ok None
  end.

(* ---- the public functions: is_jsonb, then the binary walker or the text branch of Dispatch.v ---- *)
Definition array_length_w (bs : list N) : res (option N) :=
  if is_jsonb bs then array_length_b bs else array_length_m bs.
Definition get_by_index_w (bs : list N) (i : N) : res (option (list N)) :=
  if is_jsonb bs then get_by_index_b bs i else get_by_index_m bs i.
Definition get_by_name_w (bs name : list N) (ic : bool) : res (option (list N)) :=
  if is_jsonb bs then get_by_name_b bs name ic else get_by_name_m bs name ic.
Definition get_by_keypath_w (bs : list N) (ks : list keypath) : res (option (list N)) :=
  if is_jsonb bs then get_by_keypath_b bs ks else get_by_keypath_m bs ks.
Definition object_keys_w (bs : list N) : res (option (list N)) :=
  if is_jsonb bs then object_keys_b bs else object_keys_m bs.
Definition array_values_w (bs : list N) : res (option (list (list N))) :=
  if is_jsonb bs then array_values_b bs else array_values_m bs.
Definition object_each_w (bs : list N) : res (option (list (list N * list N))) :=
  if is_jsonb bs then object_each_b bs else object_each_m bs.
