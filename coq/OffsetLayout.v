(* OffsetLayout.v — the generated offset families of OffsetTies.v, tied to the LAYOUT (review item L7).
   OffsetTies.v shows that the offset expressions read from the walkers agree WITH EACH OTHER (each family is stated relative to
   its first member: JBI_VOFF, JBI_JOFF / JBN_JOFF, JBN_KOFF, CTS_SC_VOFF, BLD_JSTEP).  Here each of those first members is shown to
   be the offset at which the documented layout (Codec.enc_item, as split by WalkProofs.payload_arr / payload_obj) puts the
   thing the family is named after, for a container found at ANY offset |A| of a buffer A ++ payload .. ++ B.  Together: every
   generated offset of every walker and of the builder is the layout offset. *)
From Coq Require Import List NArith ZArith Bool Lia.
Import ListNotations.
From JB Require Import Constants Bytes Num Value Codec CodecProofs RoundtripProofs WalkProofs OffsetTies.
Open Scope N_scope.
Set Default Timeout 60.
Arguments be32 : simpl never.

(* ---- family "entry words start" (JBI_JOFF / JBN_JOFF): the first entry word stands just after the header word ---- *)
Lemma arr_entry_words_at_JOFF A l B :
  exists pre, A ++ payload (VArr l) ++ B = pre ++ flat_map be32 (map word l) ++ flat_map payload l ++ B /\
              lenN pre = JBI_JOFF (lenN A) /\ pre = A ++ be32 (arr_hdr l).
Proof.
  exists (A ++ be32 (arr_hdr l)). rewrite payload_arr, <- !app_assoc. split; [reflexivity|]. split; [|reflexivity].
  rewrite lenN_app, lenN_be32. unfold JBI_JOFF. reflexivity.
Qed.
Lemma obj_entry_words_at_JOFF A o B :
  exists pre, A ++ payload (VObj o) ++ B = pre ++ flat_map be32 (kws o ++ vws o) ++ keys_bytes o ++ flat_map payload (vals o) ++ B /\
              lenN pre = JBN_JOFF (lenN A) /\ pre = A ++ be32 (obj_hdr o).
Proof.
  exists (A ++ be32 (obj_hdr o)). rewrite payload_obj, <- !app_assoc. split; [reflexivity|]. split; [|reflexivity].
  rewrite lenN_app, lenN_be32. unfold JBN_JOFF. reflexivity.
Qed.
(* ---- the stride (BLD_JSTEP and the 20 strides equal to it): entry word i stands at JOFF + BLD_JSTEP * i ---- *)
Lemma entry_word_i_at_stride (ws : list N) i w : nth_opt ws i = Some w ->
  exists pre post, flat_map be32 ws = pre ++ be32 w ++ post /\ lenN pre = BLD_JSTEP * N.of_nat i.
Proof.
  revert i. induction ws as [|x r IH]; intros [|i] H; cbn [nth_opt] in H; try discriminate.
  - injection H as ->. exists [], (flat_map be32 r). split; [reflexivity|]. reflexivity.
  - destruct (IH i H) as (pre & post & E & L). exists (be32 x ++ pre), post. cbn [flat_map]. rewrite E, <- app_assoc.
    split; [reflexivity|]. rewrite lenN_app, lenN_be32, L. unfold BLD_JSTEP. lia.
Qed.
(* ---- family "array payloads start" (JBI_VOFF and the 11 expressions equal to it): header + n entry words ---- *)
Lemma arr_payloads_at_VOFF A l B :
  exists pre, A ++ payload (VArr l) ++ B = pre ++ flat_map payload l ++ B /\ lenN pre = JBI_VOFF (lenN A) (lenN l).
Proof.
  exists (A ++ be32 (arr_hdr l) ++ flat_map be32 (map word l)). rewrite payload_arr, <- !app_assoc. split; [reflexivity|].
  rewrite !lenN_app, lenN_be32, len_flat_words, lenN_map. unfold JBI_VOFF. lia.
Qed.
(* element 0 of a non-empty array starts exactly there (WalkProofs.arr_elem_loc for n = 0, restated with the generated name) *)
Lemma arr_first_payload_at_VOFF A x r B :
  exists pre post, A ++ payload (VArr (x :: r)) ++ B = pre ++ payload x ++ post /\ lenN pre = JBI_VOFF (lenN A) (lenN (x :: r)).
Proof.
  destruct (arr_payloads_at_VOFF A (x :: r) B) as (pre & E & L). exists pre, (flat_map payload r ++ B).
  rewrite E. cbn [flat_map]. rewrite <- app_assoc. split; [reflexivity|exact L].
Qed.
(* ---- family "object keys start" (JBN_KOFF = JBN_VOFF and the 20 expressions equal to it): header + 2n entry words; the
        value payloads start there plus the key bytes (what the first loops add up: sum_je_len of the key words) ---- *)
Lemma obj_keys_at_KOFF A o B :
  exists pre, A ++ payload (VObj o) ++ B = pre ++ keys_bytes o ++ flat_map payload (vals o) ++ B /\
              lenN pre = JBN_KOFF (lenN A) (lenN o).
Proof.
  exists (A ++ be32 (obj_hdr o) ++ flat_map be32 (kws o ++ vws o)). rewrite payload_obj, <- !app_assoc. split; [reflexivity|].
  rewrite !lenN_app, lenN_be32, len_flat_words, lenN_app. unfold kws, vws. rewrite !lenN_map. unfold JBN_KOFF. lia.
Qed.
Lemma obj_value_payloads_after_keys A o B :
  exists pre, A ++ payload (VObj o) ++ B = pre ++ flat_map payload (vals o) ++ B /\
              lenN pre = JBN_VOFF (lenN A) (lenN o) + lenN (keys_bytes o).
Proof.
  destruct (obj_keys_at_KOFF A o B) as (pre & E & L). exists (pre ++ keys_bytes o). rewrite E, <- app_assoc. split; [reflexivity|].
  rewrite lenN_app, L. destruct (obj_keys_start_agree (lenN A) (lenN o)) as (_ & _ & _ & -> & _). reflexivity.
Qed.
(* the value words of an object stand n strides after its key words (JBN_JOFF + JSTEP1 * n: where the second loops start) *)
Lemma obj_value_words_after_key_words A o B :
  exists pre, A ++ payload (VObj o) ++ B = pre ++ flat_map be32 (vws o) ++ keys_bytes o ++ flat_map payload (vals o) ++ B /\
              lenN pre = JBN_JOFF (lenN A) + JBN_JSTEP1 * lenN o.
Proof.
  exists (A ++ be32 (obj_hdr o) ++ flat_map be32 (kws o)). rewrite payload_obj, flat_map_app, <- !app_assoc. split; [reflexivity|].
  rewrite !lenN_app, lenN_be32, len_flat_words. unfold kws. rewrite lenN_map. unfold JBN_JOFF, JBN_JSTEP1. lia.
Qed.
(* ---- family "scalar document" (CTS_SC_JOFF / CTS_SC_VOFF and the CPR_SC_ skips): header, entry word, payload ---- *)
Lemma scalar_doc_at_SC_offsets v : (match v with VArr _ | VObj _ => False | _ => True end) ->
  enc v = be32 SCALAR_CONTAINER_TAG ++ be32 (word v) ++ payload v /\
  lenN (be32 SCALAR_CONTAINER_TAG) = CTS_SC_JOFF 0 /\ lenN (be32 SCALAR_CONTAINER_TAG ++ be32 (word v)) = CTS_SC_VOFF 0.
Proof.
  intros H. destruct v; try contradiction; (split; [reflexivity|split; reflexivity]).
Qed.
