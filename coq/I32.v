(* I32.v — the index arithmetic of every position-taking call site, with the machine range made explicit.
   C20 Part A: no intermediate value leaves the range of its machine type.

   The formulas are NOT written here: they are the definitions DBI_*, AI_*, GBK_*, DKP_*, CI_*, CS_* of gen/Constants.v, which
   the translator regenerates from functions.rs / selector.rs on every run (table ANCHORS of tools/translate_consts.py), and the
   models (TreeOps, PathSem, Walk, EditWalk, EditWalk2, SelWalk) call those definitions.  For every expression E the translator
   also emits E_SAFE : Prop, the conjunction of "this + - * / this `as T` stays inside the machine type", one conjunct per
   operation of the source expression, under the path condition under which the code evaluates it.  This file proves
     1. E_SAFE for all i32 arguments and all lengths that fit the 29-bit count field;
     2. that cooperating sites (text branch / byte branch of the same function) compute the same function (`*_text_eq_bytes`);
     3. that each generated definition is the reference formula the refinement proofs are written against (`*_spec`).
   A change of the source expression changes the definition, and the lemmas here (and the refinement proofs) are re-checked. *)
From Coq Require Import ZArith NArith Lia Bool.
From JB Require Import Constants TreeOps Path PathSem.
From JB Require PathParse.
Local Open Scope Z_scope.
Set Default Timeout 30.

Definition i32 (z : Z) : Prop := IN_i32 z.
Definition i64 (z : Z) : Prop := IN_i64 z.
(* a container holds at most 2^29 - 1 entries: the count is `header & CONTAINER_HEADER_LEN_MASK` (generated constant) *)
Definition len_ok (len : Z) : Prop := 0 <= len <= Z.of_N CONTAINER_HEADER_LEN_MASK.
Lemma len_ok_bound len : len_ok len <-> 0 <= len < 536870912.
Proof. unfold len_ok, CONTAINER_HEADER_LEN_MASK. lia. Qed.
Lemma i32_bound z : i32 z <-> -2147483648 <= z <= 2147483647.
Proof. unfold i32, IN_i32. lia. Qed.
Lemma i64_bound z : i64 z <-> -9223372036854775808 <= z <= 9223372036854775807.
Proof. unfold i64, IN_i64. lia. Qed.

Ltac ranges := unfold i32, i64, IN_i32, IN_i64, IN_usize, IN_u32, len_ok, CONTAINER_HEADER_LEN_MASK in *.
(* decide every comparison of the goal, then arithmetic *)
Ltac cases :=
  repeat match goal with
         | |- context [Z.ltb ?a ?b] => destruct (Z.ltb_spec a b)
         | |- context [Z.leb ?a ?b] => destruct (Z.leb_spec a b)
         | |- context [Z.eqb ?a ?b] => destruct (Z.eqb_spec a b)
         end;
  cbn [andb orb negb]; try reflexivity; try lia; try (exfalso; lia).

(* ------------------------------------------------------------------------------------------------------------------
   delete_by_index (text) / delete_jsonb_by_index (bytes) *)
Lemma DBI_RESOLVE_text_eq_bytes index len : DBI_T_RESOLVE index len = DBI_B_RESOLVE index len.
Proof. unfold DBI_T_RESOLVE, DBI_B_RESOLVE. cases. Qed.
Lemma DBI_KEEP_text_eq_bytes index len : DBI_T_KEEP index len = negb (DBI_B_SKIP index len).
Proof. unfold DBI_T_KEEP, DBI_B_SKIP. cases. Qed.
Lemma DBI_T_RESOLVE_spec index len : DBI_T_RESOLVE index len = resolve index len.
Proof. unfold DBI_T_RESOLVE, resolve. cases. Qed.
Lemma DBI_B_RESOLVE_spec index len : DBI_B_RESOLVE index len = resolve index len.
Proof. unfold DBI_B_RESOLVE, resolve. cases. Qed.
Lemma DBI_T_KEEP_spec index len : DBI_T_KEEP index len = ((0 <=? index) && (index <? len)).
Proof. unfold DBI_T_KEEP. cases. Qed.
Lemma DBI_B_SKIP_spec index len : DBI_B_SKIP index len = ((index <? 0) || (len <=? index)).
Proof. unfold DBI_B_SKIP. cases. Qed.

Lemma DBI_T_RESOLVE_safe index len : i32 index -> len_ok len -> DBI_T_RESOLVE_SAFE index len /\ i32 (DBI_T_RESOLVE index len).
Proof. unfold DBI_T_RESOLVE_SAFE, DBI_T_RESOLVE. ranges. intros. split; [intros|]; cases. Qed.
Lemma DBI_B_RESOLVE_safe index len : i32 index -> len_ok len -> DBI_B_RESOLVE_SAFE index len /\ i32 (DBI_B_RESOLVE index len).
Proof. unfold DBI_B_RESOLVE_SAFE, DBI_B_RESOLVE. ranges. intros. split; [intros|]; cases. Qed.
Lemma DBI_guards_safe index len : DBI_T_KEEP_SAFE index len /\ DBI_B_SKIP_SAFE index len.
Proof. unfold DBI_T_KEEP_SAFE, DBI_B_SKIP_SAFE. split; exact I. Qed.
(* the element that is removed exists: `arr.remove(index as usize)` does not panic, the byte walker skips exactly one entry *)
Lemma DBI_T_KEEP_in_bounds index len : DBI_T_KEEP index len = true -> 0 <= index < len.
Proof. unfold DBI_T_KEEP. intros H. lia. Qed.
Lemma DBI_B_SKIP_in_bounds index len : DBI_B_SKIP index len = false -> 0 <= index < len.
Proof. unfold DBI_B_SKIP. intros H. lia. Qed.

(* ------------------------------------------------------------------------------------------------------------------
   array_insert_jsonb *)
Lemma AI_RESOLVE_spec pos len : AI_RESOLVE pos len = resolve pos len.
Proof. unfold AI_RESOLVE, resolve. cases. Qed.
Lemma AI_CLAMP_spec idx len : AI_CLAMP idx len = clamp 0 len idx.
Proof. unfold AI_CLAMP, clamp. cases. Qed.
Lemma AI_NONARRAY_LEN_spec : AI_NONARRAY_LEN = 1.
Proof. reflexivity. Qed.
Lemma AI_RESOLVE_safe pos len : i32 pos -> len_ok len -> AI_RESOLVE_SAFE pos len /\ i32 (AI_RESOLVE pos len).
Proof. unfold AI_RESOLVE_SAFE, AI_RESOLVE. ranges. intros. split; [intros|]; cases. Qed.
(* the clamped position is cast to usize: it is never negative, and it lies inside 0..=len *)
Lemma AI_CLAMP_safe idx len : i32 idx -> len_ok len -> AI_CLAMP_SAFE idx len /\ 0 <= AI_CLAMP idx len <= len.
Proof. unfold AI_CLAMP_SAFE, AI_CLAMP. ranges. intros. split; cases. Qed.
Lemma AI_NONARRAY_LEN_safe : AI_NONARRAY_LEN_SAFE /\ len_ok AI_NONARRAY_LEN.
Proof. unfold AI_NONARRAY_LEN_SAFE, AI_NONARRAY_LEN. ranges. split; [exact I|lia]. Qed.
Lemma insert_position_safe pos len :
  i32 pos -> len_ok len ->
  AI_RESOLVE_SAFE pos len /\ AI_CLAMP_SAFE (AI_RESOLVE pos len) len /\ 0 <= AI_CLAMP (AI_RESOLVE pos len) len <= len.
Proof.
  intros Hp Hl. destruct (AI_RESOLVE_safe pos len Hp Hl) as [S R]. destruct (AI_CLAMP_safe _ len R Hl) as [S2 B]. auto.
Qed.

(* ------------------------------------------------------------------------------------------------------------------
   get_by_keypath: Value branch (T) / byte branch (B).  `*idx > length || length + *idx < 0` is evaluated left to right: the
   sum is only computed when idx <= length; the index expression is only evaluated when the guard said false *)
Lemma GBK_REJECT_text_eq_bytes idx length : GBK_T_REJECT idx length = GBK_B_REJECT idx length.
Proof. unfold GBK_T_REJECT, GBK_B_REJECT. cases. Qed.
Lemma GBK_INDEX_text_eq_bytes idx length : GBK_T_INDEX idx length = GBK_B_INDEX idx length.
Proof. unfold GBK_T_INDEX, GBK_B_INDEX. cases. Qed.
Lemma GBK_T_REJECT_spec idx length : GBK_T_REJECT idx length = ((length <? idx) || (length + idx <? 0)).
Proof. unfold GBK_T_REJECT. cases. Qed.
Lemma GBK_B_REJECT_spec idx length : GBK_B_REJECT idx length = ((length <? idx) || (length + idx <? 0)).
Proof. unfold GBK_B_REJECT. cases. Qed.
Lemma GBK_T_INDEX_spec idx length : GBK_T_INDEX idx length = (if 0 <=? idx then idx else length + idx).
Proof. unfold GBK_T_INDEX. cases. Qed.
Lemma GBK_B_INDEX_spec idx length : GBK_B_INDEX idx length = (if 0 <=? idx then idx else length + idx).
Proof. unfold GBK_B_INDEX. cases. Qed.
Lemma GBK_T_safe idx length :
  i32 idx -> len_ok length ->
  GBK_T_REJECT_SAFE idx length /\
  (GBK_T_REJECT idx length = false -> GBK_T_INDEX_SAFE idx length /\ 0 <= GBK_T_INDEX idx length <= length).
Proof.
  unfold GBK_T_REJECT_SAFE, GBK_T_REJECT, GBK_T_INDEX_SAFE, GBK_T_INDEX. ranges. intros Hi Hl. split; [intros; lia|].
  intros H. repeat split; intros; cases.
Qed.
Lemma GBK_B_safe idx length :
  i32 idx -> len_ok length ->
  GBK_B_REJECT_SAFE idx length /\
  (GBK_B_REJECT idx length = false -> GBK_B_INDEX_SAFE idx length /\ 0 <= GBK_B_INDEX idx length <= length).
Proof.
  unfold GBK_B_REJECT_SAFE, GBK_B_REJECT, GBK_B_INDEX_SAFE, GBK_B_INDEX. ranges. intros Hi Hl. split; [intros; lia|].
  intros H. repeat split; intros; cases.
Qed.

(* ------------------------------------------------------------------------------------------------------------------
   delete_by_keypath: delete_value_array_by_keypath (T) / delete_jsonb_array_by_keypath (B) *)
Lemma DKP_RESOLVE_text_eq_bytes idx len : DKP_T_RESOLVE idx len = DKP_B_RESOLVE idx len.
Proof. unfold DKP_T_RESOLVE, DKP_B_RESOLVE. cases. Qed.
Lemma DKP_SKIP_text_eq_bytes idx len : DKP_T_SKIP idx len = DKP_B_SKIP idx len.
Proof. unfold DKP_T_SKIP, DKP_B_SKIP. cases. Qed.
Lemma DKP_T_RESOLVE_spec idx len : DKP_T_RESOLVE idx len = resolve idx len.
Proof. unfold DKP_T_RESOLVE, resolve. cases. Qed.
Lemma DKP_B_RESOLVE_spec idx len : DKP_B_RESOLVE idx len = resolve idx len.
Proof. unfold DKP_B_RESOLVE, resolve. cases. Qed.
Lemma DKP_T_SKIP_spec idx len : DKP_T_SKIP idx len = ((idx <? 0) || (len <=? idx)).
Proof. unfold DKP_T_SKIP. cases. Qed.
Lemma DKP_B_SKIP_spec idx len : DKP_B_SKIP idx len = ((idx <? 0) || (len <=? idx)).
Proof. unfold DKP_B_SKIP. cases. Qed.
Lemma DKP_T_RESOLVE_safe idx len : i32 idx -> len_ok len -> DKP_T_RESOLVE_SAFE idx len /\ i32 (DKP_T_RESOLVE idx len).
Proof. unfold DKP_T_RESOLVE_SAFE, DKP_T_RESOLVE. ranges. intros. split; [intros|]; cases. Qed.
Lemma DKP_B_RESOLVE_safe idx len : i32 idx -> len_ok len -> DKP_B_RESOLVE_SAFE idx len /\ i32 (DKP_B_RESOLVE idx len).
Proof. unfold DKP_B_RESOLVE_SAFE, DKP_B_RESOLVE. ranges. intros. split; [intros|]; cases. Qed.
Lemma DKP_guards_safe idx len : DKP_T_SKIP_SAFE idx len /\ DKP_B_SKIP_SAFE idx len.
Proof. unfold DKP_T_SKIP_SAFE, DKP_B_SKIP_SAFE. split; exact I. Qed.
(* `arr.remove(idx as usize)` / `arr[idx as usize]` do not panic *)
Lemma DKP_T_SKIP_in_bounds idx len : DKP_T_SKIP idx len = false -> 0 <= idx < len.
Proof. unfold DKP_T_SKIP. intros H. lia. Qed.
Lemma DKP_B_SKIP_in_bounds idx len : DKP_B_SKIP idx len = false -> 0 <= idx < len.
Proof. unfold DKP_B_SKIP. intros H. lia. Qed.

(* every `if idx < 0 { len + idx } else { idx }` of the crate, at once (the statement C20 had for the hand-written formula) *)
Lemma resolve_in_range idx len :
  i32 idx -> len_ok len ->
  i32 (DBI_T_RESOLVE idx len) /\ i32 (DBI_B_RESOLVE idx len) /\ i32 (AI_RESOLVE idx len) /\
  i32 (DKP_T_RESOLVE idx len) /\ i32 (DKP_B_RESOLVE idx len).
Proof.
  intros Hi Hl.
  pose proof (proj2 (DBI_T_RESOLVE_safe idx len Hi Hl)). pose proof (proj2 (DBI_B_RESOLVE_safe idx len Hi Hl)).
  pose proof (proj2 (AI_RESOLVE_safe idx len Hi Hl)). pose proof (proj2 (DKP_T_RESOLVE_safe idx len Hi Hl)).
  pose proof (proj2 (DKP_B_RESOLVE_safe idx len Hi Hl)). auto 10.
Qed.

(* the code before the fix computed `len - idx.abs()`: i32::abs overflows at i32::MIN *)
Lemma abs_overflow_refuted : exists idx, i32 idx /\ ~ i32 (Z.abs idx).
Proof. exists (-2147483648). ranges. split; simpl; lia. Qed.

(* ------------------------------------------------------------------------------------------------------------------
   selector.rs convert_index / convert_slice after the fix: `length + idx - 1` in i64 *)
Lemma CS_START_LAST_eq_CI_LAST idx length : CS_START_LAST idx length = CI_LAST idx length.
Proof. unfold CS_START_LAST, CI_LAST. lia. Qed.
Lemma CS_END_LAST_eq_CI_LAST idx length : CS_END_LAST idx length = CI_LAST idx length.
Proof. unfold CS_END_LAST, CI_LAST. lia. Qed.
Lemma CI_LAST_spec idx length : CI_LAST idx length = length + idx - 1.
Proof. unfold CI_LAST. lia. Qed.
Lemma resolve_start_eq i len : resolve_start i len = resolve_index i len.
Proof. destruct i; [reflexivity|apply CS_START_LAST_eq_CI_LAST]. Qed.
Lemma resolve_end_eq i len : resolve_end i len = resolve_index i len.
Proof. destruct i; [reflexivity|apply CS_END_LAST_eq_CI_LAST]. Qed.
Lemma resolve_index_spec i len : resolve_index i len = match i with IIndex z => z | ILast z => len + z - 1 end.
Proof. destruct i; [reflexivity|apply CI_LAST_spec]. Qed.
Lemma CI_INRANGE_spec idx length : CI_INRANGE idx length = ((0 <=? idx) && (idx <? length)).
Proof. unfold CI_INRANGE. cases. Qed.
Lemma CS_EMPTY_spec start stop length : CS_EMPTY start stop length = ((stop <? start) || (length <=? start) || (stop <? 0)).
Proof. unfold CS_EMPTY. cases. Qed.
Lemma CS_LO_spec start : CS_LO start = Z.max 0 start.
Proof. unfold CS_LO. cases. Qed.
Lemma CS_HI_spec stop length : CS_HI stop length = Z.min (length - 1) stop.
Proof. unfold CS_HI. cases. Qed.

Lemma CI_LAST_safe idx length : i32 idx -> len_ok length -> CI_LAST_SAFE idx length /\ i64 (CI_LAST idx length).
Proof. unfold CI_LAST_SAFE, CI_LAST. ranges. intros. repeat split; lia. Qed.
Lemma CS_START_LAST_safe idx length : i32 idx -> len_ok length -> CS_START_LAST_SAFE idx length /\ i64 (CS_START_LAST idx length).
Proof. unfold CS_START_LAST_SAFE, CS_START_LAST. ranges. intros. repeat split; lia. Qed.
Lemma CS_END_LAST_safe idx length : i32 idx -> len_ok length -> CS_END_LAST_SAFE idx length /\ i64 (CS_END_LAST idx length).
Proof. unfold CS_END_LAST_SAFE, CS_END_LAST. ranges. intros. repeat split; lia. Qed.
Lemma selector_guards_safe idx start stop length : CI_INRANGE_SAFE idx length /\ CS_EMPTY_SAFE start stop length.
Proof. unfold CI_INRANGE_SAFE, CS_EMPTY_SAFE. split; exact I. Qed.
(* `Some(idx as usize)`: the accepted index lies inside the array *)
Lemma CI_INRANGE_in_bounds idx length : CI_INRANGE idx length = true -> 0 <= idx < length.
Proof. unfold CI_INRANGE. intros H. lia. Qed.
(* slices: the clamped bounds are cast to usize only when non-negative, `length - 1` does not wrap, and the produced range
   lies inside the array.  0 < length: select_by_indices returns before the conversion when length == 0 (the translator
   checks that this guard is still in the source: row SBI_NONEMPTY) *)
Lemma CS_bounds_safe start stop length :
  i64 start -> i64 stop -> len_ok length -> 0 < length -> CS_EMPTY start stop length = false ->
  CS_LO_SAFE start /\ CS_HI_SAFE stop length /\ 0 <= CS_LO start <= CS_HI stop length /\ CS_HI stop length < length.
Proof.
  unfold CS_EMPTY, CS_LO_SAFE, CS_HI_SAFE, CS_LO, CS_HI. ranges. intros Hs He Hl Hpos H.
  repeat split; intros; cases.
Qed.
(* the same bounds without the machine ranges (what the refinement proof of select_by_indices uses) *)
Lemma CS_in_bounds start stop length :
  0 < length -> CS_EMPTY start stop length = false -> 0 <= CS_LO start <= CS_HI stop length /\ CS_HI stop length < length.
Proof. unfold CS_EMPTY, CS_LO, CS_HI. intros Hpos H. split; [split|]; cases. Qed.
(* before the fix the same sum was computed in i32 *)
Lemma last_index_i32_refuted : exists idx len, i32 idx /\ len_ok len /\ ~ i32 (CI_LAST idx len).
Proof. exists 2147483647, 2. unfold CI_LAST. ranges. repeat split; lia. Qed.

(* the parser's `last - v` (after the fix): v is read as an i64, negated with checked_neg (None exactly at i64::MIN, so the
   negation itself never overflows) and kept only if it fits an i32 *)
Definition last_minus (v : Z) : option Z :=
  if v =? -9223372036854775808 then None
  else if (-2147483648 <=? - v) && (- v <=? 2147483647) then Some (- v) else None.
Lemma last_minus_in_range v n : i64 v -> last_minus v = Some n -> n = - v /\ i32 n /\ i64 (- v).
Proof.
  unfold last_minus. ranges. intros H. destruct (v =? -9223372036854775808) eqn:E; [discriminate|].
  destruct ((-2147483648 <=? - v) && (- v <=? 2147483647)) eqn:R; [|discriminate]. intros [= <-]. lia.
Qed.
(* the definition above is a copy, written with literals: it IS the function the parser model applies (PathParse.pindex) *)
Lemma last_minus_is_the_parsers v : last_minus v = PathParse.last_minus v.
Proof. reflexivity. Qed.
Lemma parser_last_minus_in_range v n : i64 v -> PathParse.last_minus v = Some n -> n = - v /\ i32 n /\ i64 (- v).
Proof. rewrite <- last_minus_is_the_parsers. apply last_minus_in_range. Qed.
(* before that fix `last - v` read an i32 and used saturating_neg: in range, but `last-2147483648` (what the offset
   i32::MIN prints as) was rejected and `last - -2147483648` silently became last+2147483647 *)
Definition saturating_neg32 (v : Z) : Z := if v =? -2147483648 then 2147483647 else - v.
Lemma saturating_neg_not_neg : exists v, i32 v /\ saturating_neg32 v <> - v.
Proof. exists (-2147483648). unfold saturating_neg32. ranges. cbn. split; lia. Qed.

(* ------------------------------------------------------------------------------------------------------------------
   the statements Props/C20.v exports *)
Lemma delete_by_index_safe index len :
  i32 index -> len_ok len ->
  DBI_T_RESOLVE_SAFE index len /\ DBI_T_KEEP_SAFE (DBI_T_RESOLVE index len) len /\
  DBI_B_RESOLVE_SAFE index len /\ DBI_B_SKIP_SAFE (DBI_B_RESOLVE index len) len.
Proof.
  intros Hi Hl. pose proof (proj1 (DBI_T_RESOLVE_safe index len Hi Hl)). pose proof (proj1 (DBI_B_RESOLVE_safe index len Hi Hl)).
  pose proof (proj1 (DBI_guards_safe (DBI_T_RESOLVE index len) len)). pose proof (proj2 (DBI_guards_safe (DBI_B_RESOLVE index len) len)). auto.
Qed.
Lemma delete_by_keypath_safe idx len :
  i32 idx -> len_ok len ->
  DKP_T_RESOLVE_SAFE idx len /\ DKP_T_SKIP_SAFE (DKP_T_RESOLVE idx len) len /\
  DKP_B_RESOLVE_SAFE idx len /\ DKP_B_SKIP_SAFE (DKP_B_RESOLVE idx len) len.
Proof.
  intros Hi Hl. pose proof (proj1 (DKP_T_RESOLVE_safe idx len Hi Hl)). pose proof (proj1 (DKP_B_RESOLVE_safe idx len Hi Hl)).
  pose proof (proj1 (DKP_guards_safe (DKP_T_RESOLVE idx len) len)). pose proof (proj2 (DKP_guards_safe (DKP_B_RESOLVE idx len) len)). auto.
Qed.
Lemma get_by_keypath_safe idx length :
  i32 idx -> len_ok length ->
  (GBK_T_REJECT_SAFE idx length /\
   (GBK_T_REJECT idx length = false -> GBK_T_INDEX_SAFE idx length /\ 0 <= GBK_T_INDEX idx length <= length)) /\
  (GBK_B_REJECT_SAFE idx length /\
   (GBK_B_REJECT idx length = false -> GBK_B_INDEX_SAFE idx length /\ 0 <= GBK_B_INDEX idx length <= length)).
Proof. intros Hi Hl. split; [apply GBK_T_safe|apply GBK_B_safe]; assumption. Qed.
Lemma last_index_safe idx length :
  i32 idx -> len_ok length ->
  (CI_LAST_SAFE idx length /\ i64 (CI_LAST idx length)) /\
  (CS_START_LAST_SAFE idx length /\ i64 (CS_START_LAST idx length)) /\
  (CS_END_LAST_SAFE idx length /\ i64 (CS_END_LAST idx length)).
Proof. intros Hi Hl. split; [|split]; [apply CI_LAST_safe|apply CS_START_LAST_safe|apply CS_END_LAST_safe]; assumption. Qed.
(* the two branches of each function (JSON text input / JSONB input) resolve positions by the same function *)
Lemma text_eq_bytes :
  (forall i len, DBI_T_RESOLVE i len = DBI_B_RESOLVE i len) /\ (forall j len, DBI_T_KEEP j len = negb (DBI_B_SKIP j len)) /\
  (forall i len, GBK_T_REJECT i len = GBK_B_REJECT i len) /\ (forall i len, GBK_T_INDEX i len = GBK_B_INDEX i len) /\
  (forall i len, DKP_T_RESOLVE i len = DKP_B_RESOLVE i len) /\ (forall j len, DKP_T_SKIP j len = DKP_B_SKIP j len) /\
  (forall i len, CS_START_LAST i len = CI_LAST i len) /\ (forall i len, CS_END_LAST i len = CI_LAST i len).
Proof.
  repeat split; intros;
    first [apply DBI_RESOLVE_text_eq_bytes|apply DBI_KEEP_text_eq_bytes|apply GBK_REJECT_text_eq_bytes|apply GBK_INDEX_text_eq_bytes
          |apply DKP_RESOLVE_text_eq_bytes|apply DKP_SKIP_text_eq_bytes|apply CS_START_LAST_eq_CI_LAST|apply CS_END_LAST_eq_CI_LAST].
Qed.
