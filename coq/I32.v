(* I32.v — the index arithmetic of every position-taking call site, as functions of (index, length), with the
   machine range made explicit.  C20 Part A: no intermediate value leaves the range of its machine type. *)
From Coq Require Import ZArith Lia Bool.
Open Scope Z_scope.
Set Default Timeout 30.

Definition i32 (z : Z) : Prop := -2147483648 <= z <= 2147483647.
Definition i64 (z : Z) : Prop := -9223372036854775808 <= z <= 9223372036854775807.
(* a container holds at most 2^29 - 1 entries (29-bit count field) *)
Definition len_ok (len : Z) : Prop := 0 <= len < 536870912.

(* delete_by_index / array_insert / delete_by_keypath after the fix: `if idx < 0 { len + idx } else { idx }` *)
Definition resolve_i32 (idx len : Z) : Z := if idx <? 0 then len + idx else idx.
Lemma resolve_in_range idx len : i32 idx -> len_ok len -> i32 (resolve_i32 idx len).
Proof. unfold i32, len_ok, resolve_i32. intros. destruct (idx <? 0) eqn:E; lia. Qed.
(* array_insert additionally treats a non-array as length 1 and clamps *)
Lemma insert_clamp_in_range idx len :
  i32 idx -> len_ok len ->
  let j := resolve_i32 idx len in 0 <= (if j <? 0 then 0 else if len <? j then len else j) <= len.
Proof.
  unfold i32, len_ok, resolve_i32. intros. cbv zeta.
  repeat match goal with |- context [?a <? ?b] => destruct (Z.ltb_spec a b) end; lia.
Qed.

(* the code before the fix computed `len - idx.abs()`: i32::abs overflows at i32::MIN *)
Lemma abs_overflow_refuted : exists idx, i32 idx /\ ~ i32 (Z.abs idx).
Proof. exists (-2147483648). unfold i32. split; simpl; lia. Qed.

(* get_by_keypath: `*idx > length || length + *idx < 0`, evaluated left to right: the sum is only computed
   when idx <= length *)
Lemma keypath_sum_in_range idx len : i32 idx -> len_ok len -> idx <= len -> i32 (len + idx).
Proof. unfold i32, len_ok. lia. Qed.

(* selector.rs convert_index / convert_slice after the fix: `length + idx - 1` in i64 *)
Lemma last_index_in_range idx len : i32 idx -> len_ok len -> i64 (len + idx - 1).
Proof. unfold i32, i64, len_ok. lia. Qed.
(* before the fix the same sum was computed in i32 *)
Lemma last_index_i32_refuted : exists idx len, i32 idx /\ len_ok len /\ ~ i32 (len + idx - 1).
Proof. exists 2147483647, 2. unfold i32, len_ok. repeat split; lia. Qed.
(* the parser's `last - v` used saturating_neg: always in range (after the fix it is PathParse.last_minus: i64, checked_neg,
   i32::try_from — in range by PathRoundtrip.last_minus_i32) *)
Definition saturating_neg32 (v : Z) : Z := if v =? -2147483648 then 2147483647 else - v.
Lemma saturating_neg_in_range v : i32 v -> i32 (saturating_neg32 v).
Proof. unfold i32, saturating_neg32. intros. destruct (v =? -2147483648) eqn:E; lia. Qed.

(* slices: after clamping, the produced range lies inside the array *)
Lemma slice_bounds s e len :
  i64 s -> i64 e -> len_ok len -> 0 < len -> s <= e -> s < len -> 0 <= e ->
  0 <= Z.max 0 s <= Z.min (len - 1) e /\ Z.min (len - 1) e < len.
Proof. unfold i64, len_ok. intros. destruct (Z.max_spec 0 s), (Z.min_spec (len - 1) e); lia. Qed.
