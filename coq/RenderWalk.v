(* RenderWalk.v — offset-faithful model of to_string / to_pretty_string / container_to_string / scalar_to_string /
   escape_scalar_string of src/functions.rs: one buffer, absolute offsets (`*offset`, `jentry_offset`,
   `value_offset`, the (key_start, key_end) ranges of the VecDeque), the same reads in the same order.
   `read_u32(..)?` failing and `Number::decode(..)?` failing are `Err` (to_string then clears the text and answers
   "null"), an index or slice expression out of bounds (`value[i]`, `&value[a..b]`) is `Panic`.
   The text is returned instead of being pushed onto a `&mut String`: what a call had pushed before it failed is
   never observable (the caller clears it, or the panic unwinds), so only the order of the effects matters, and that
   is the order of the binds below.  PrettyOpts is (pretty, indent).  The float printer is a parameter, as in
   Render.v.  Executable definitions only; RenderWalkProofs.v shows that on `enc v` the walker prints the tree. *)
From Coq Require Import List NArith ZArith Bool.
Import ListNotations.
From JB Require Import Constants Bytes Utf8 Num Value Codec Render Walk.
Open Scope N_scope.

(* String::from_utf8_lossy is Utf8.lossy (REPLACEMENT, second3, second4, lossy): it is shared with the text branch of
   Dispatch.to_string_m *)

(* ---- escape_scalar_string(value, start, end, json) ----
   `for i in start..end { match value[i] {..} }`: the index expression panics exactly when start < end and
   end > value.len() (the slices value[last_start..i] and value[last_start..end] lie inside start..end, which has
   been walked by then).  The bytes of the range are then cut at the escaped bytes; each piece in between goes
   through from_utf8_lossy on its own, as in the code. *)
Definition escapes (b : N) : bool :=
  match find (fun p => fst p =? b) ESCAPE_TABLE with
  | Some _ => true
  | None => ESCAPE_GENERIC_CONTROL && (b <? 32)
  end.
(* seg_rev: value[last_start..i], reversed *)
Fixpoint esc_pieces (s seg_rev : list N) : list N :=
  match s with
  | [] => lossy (rev seg_rev)
  | b :: r => if escapes b then lossy (rev seg_rev) ++ escape_byte b ++ esc_pieces r []
              else esc_pieces r (b :: seg_rev)
  end.
Definition escape_range_w (V : list N) (start stop : N) : res (list N) :=
  if start <? stop then
    do s <- slice_p V start (stop - start);
    Ok (34 :: esc_pieces s [] ++ [34])
  else Ok [34; 34].

(* the same function written out index by index, as the code has it: `value[i]` for i in start..end,
   `String::from_utf8_lossy(&value[last_start..i])` when i > last_start before each escaped byte, and
   `&value[last_start..end]` when last_start < end after the loop.  RenderWalkProofs.v (escape_range_lit_eq) proves
   that it is escape_range_w on every buffer and every range, valid or not; the walker uses escape_range_w, which
   does not re-slice the buffer once per byte. *)
Definition lossy_slice (V : list N) (a b : N) : res (list N) := do s <- slice_p V a (b - a); Ok (lossy s).
Fixpoint esc_index_loop (fuel : nat) (V : list N) (i stop last_start : N) : res (list N) :=
  match fuel with O => Err EFuel | S f =>
  if i <? stop then
    match slice V i 1 with
    | Some (b :: _) =>
        if escapes b then
          do seg <- (if last_start <? i then lossy_slice V last_start i else Ok []);
          do rest <- esc_index_loop f V (i + 1) stop (i + 1);
          Ok (seg ++ escape_byte b ++ rest)
        else esc_index_loop f V (i + 1) stop last_start
    | _ => Panic
    end
  else if last_start <? stop then lossy_slice V last_start stop else Ok []
  end.
Definition escape_range_lit (V : list N) (start stop : N) : res (list N) :=
  do t <- esc_index_loop (S (length V)) V start stop start; Ok (34 :: t ++ [34]).

Definition NULL_TEXT : list N := [110; 117; 108; 108].
Definition TRUE_TEXT : list N := [116; 114; 117; 101].
Definition FALSE_TEXT : list N := [102; 97; 108; 115; 101].

Section RenderWalk.
  Variable print_float : N -> list N.
  Variable V : list N.          (* value: &[u8] *)
  Variable pretty : bool.       (* pretty_opts.enabled *)

  Definition sep_text : list N := if pretty then [44; 10] else [44].
  Definition ind_text (ind : nat) : list N := if pretty then indent ind else [].

  Section Inner.
    (* scalar_to_string at smaller fuel: pretty_opts.indent, *jentry_offset, *value_offset
       -> (text pushed, jentry.length); the caller adds 4 and the length to its two offsets *)
    Variable sc : nat -> N -> N -> res (list N * N).

    (* ARRAY_CONTAINER_TAG: for i in 0..length *)
    Fixpoint arr_str_loop (fuel : nat) (ind : nat) (i len joff voff : N) : res (list N) :=
      match fuel with O => Err EFuel | S f =>
      if i <? len then
        do (t, l) <- sc (ind + 2)%nat joff voff;
        do rest <- arr_str_loop f ind (i + 1) len (joff + STS_JSTEP) (voff + l);      (* scalar_to_string: *jentry_offset += .. *)
        Ok ((if 0 <? i then sep_text else []) ++ ind_text (ind + 2) ++ t ++ rest)
      else Ok []
      end.

    (* OBJECT_CONTAINER_TAG, second loop: keys.pop_front() gives (koff, koff + length of the key entry) *)
    Fixpoint obj_str_loop (kws : list N) (ind : nat) (i joff koff voff : N) : res (list N) :=
      match kws with
      | [] => Ok []
      | kw :: r =>
          do k <- escape_range_w V koff (koff + je_len kw);
          do (t, l) <- sc (ind + 2)%nat joff voff;
          do rest <- obj_str_loop r ind (i + 1) (joff + STS_JSTEP) (koff + je_len kw) (voff + l);
          Ok ((if 0 <? i then sep_text else []) ++ ind_text (ind + 2) ++ k ++ (if pretty then [58; 32] else [58]) ++ t ++ rest)
      end.

    (* container_to_string(value, &mut off, json, pretty_opts) *)
    Definition container_str_w (ind : nat) (off : N) : res (list N) :=
      match read_u32 V off with
      | None => Err EOther
      | Some h =>
          if hdr_type h =? SCALAR_CONTAINER_TAG then
            (* all offsets of this function: generated from container_to_string (gen/Constants.v, CTS_...) *)
            do (t, _) <- sc ind (CTS_SC_JOFF off) (CTS_SC_VOFF off); Ok t
          else if hdr_type h =? ARRAY_CONTAINER_TAG then
            let len := hdr_len h in
            do body <- arr_str_loop (S (length V)) ind 0 len (CTS_ARR_JOFF off) (CTS_ARR_VOFF off len);
            Ok ((if pretty then [91; 10] else [91]) ++ body ++ (if pretty then 10 :: indent ind else []) ++ [93])
          else if hdr_type h =? OBJECT_CONTAINER_TAG then
            let len := hdr_len h in
            (* first loop: `length` key entry words from 4 + off on (a failed read is the `?`) *)
            match rd_words (S (length V)) V 0 len (CTS_OBJ_JOFF off) with
            | None => Err EOther
            | Some kws =>
                let koff := CTS_OBJ_KOFF off len in
                do body <- obj_str_loop kws ind 0 (CTS_OBJ_JOFF off + CTS_OBJ_JSTEP * len) koff (CTS_OBJ_VOFF (koff + sum_je_len kws));
                Ok ((if pretty then [123; 10] else [123]) ++ body ++ (if pretty then 10 :: indent ind else []) ++ [125])
            end
          else Ok []
      end.
  End Inner.

  (* scalar_to_string(value, &mut joff, &mut voff, json, pretty_opts) *)
  Fixpoint scalar_str_w (fuel : nat) (ind : nat) (joff voff : N) : res (list N * N) :=
    match fuel with O => Err EFuel | S f =>
    match read_u32 V joff with
    | None => Err EOther
    | Some w =>
        let ty := je_type w in
        let len := je_len w in
        do t <- (if ty =? NULL_TAG then Ok NULL_TEXT
                 else if ty =? TRUE_TAG then Ok TRUE_TEXT
                 else if ty =? FALSE_TAG then Ok FALSE_TEXT
                 else if ty =? NUMBER_TAG then
                   do p <- slice_p V voff len;
                   do n <- num_decode p;
                   Ok (number_text print_float n)
                 else if ty =? STRING_TAG then escape_range_w V voff (voff + len)
                 else if ty =? CONTAINER_TAG then container_str_w (scalar_str_w f) ind voff
                 else Ok []);
        Ok (t, len)
    end
    end.

  (* the call made by to_string / to_pretty_string: container_to_string(value, &mut 0, ..); every nested header
     lies at least 4 bytes after the one of its parent and every loop iteration reads an entry word 4 bytes further,
     so neither the S (length V) levels nor the S (length V) iterations are ever used up, on any buffer
     (RenderWalkProofs.render_w_not_fuel) *)
  Definition render_w : res (list N) := container_str_w (scalar_str_w (S (length V))) 0 0.
End RenderWalk.

(* to_string / to_pretty_string: `if container_to_string(..).is_err() { json.clear(); json.push_str("null") }`.
   An input that is not JSONB (first byte none of 0x80 / 0x40 / 0x20): `if value.is_empty() { "null" } else
   { String::from_utf8_lossy(value) }`, in this order: every ill-formed UTF-8 sequence of the argument becomes U+FFFD
   (to_string 22ff22 = 22efbfbd22); valid UTF-8 -- in particular every text that parses, TextBinProofs.parsed_text_is_utf8
   -- is returned as it is (RenderWalkProofs.lossy_valid). *)
Definition to_text_w (pf : N -> list N) (pretty : bool) (bs : list N) : res (list N) :=
  if is_jsonb bs then
    match render_w pf bs pretty with
    | Ok t => Ok t
    | Err _ => Ok NULL_TEXT
    | Panic => Panic
    end
  else match bs with [] => Ok NULL_TEXT | _ => Ok (lossy bs) end.

Definition to_string_w' (pf : N -> list N) : list N -> res (list N) := to_text_w pf false.
Definition to_pretty_string_w' (pf : N -> list N) : list N -> res (list N) := to_text_w pf true.
(* with the placeholder printer of the correspondence runs (as to_string_m / to_pretty_string_m) *)
Definition to_string_w : list N -> res (list N) := to_string_w' float_placeholder.
Definition to_pretty_string_w : list N -> res (list N) := to_pretty_string_w' float_placeholder.
