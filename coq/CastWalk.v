(* CastWalk.v — offset-faithful models of the scalar accessors and casts of src/functions.rs
   (type_of, as_null, as_bool, as_number, as_i64, as_u64, as_f64, as_str, is_array, is_object, to_bool, to_i64, to_u64,
   to_f64, to_str) and of traverse_check_string.
   The binary branch of each reads the header word at offset 0, the entry word at offset 4 and the payload
   `value[8 .. 8 + length]`, exactly like the code: `read_u32(..).ok()?` failing is the early `None`, `read_u32(..)?` the
   early `Err`, `read_u32(..).unwrap_or_default()` the word 0, and the index expression `&value[8..8 + length]` is `Panic`
   when it is out of bounds.  The to_* casts call the as_* functions one after the other the way the code does, so the
   first one that panics decides.  as_str hands the payload bytes back unchecked (from_utf8_unchecked): bytes are bytes.
   The JSON-text branch of every function is the one of Dispatch.v.
   Executable definitions only; CastWalkProofs.v proves that on `enc v` each one returns the tree answer. *)
From Coq Require Import List NArith ZArith Bool.
Import ListNotations.
From JB Require Import Constants Bytes Utf8 Num Value Codec Decimal TreeOps JsonText Dispatch.
Open Scope N_scope.

(* let header = read_u32(value, 0).ok()?;
   match header & CONTAINER_HEADER_TYPE_MASK { SCALAR_CONTAINER_TAG => { let jentry = read_u32(value, 4).ok()?; .. } _ => None }
   : the entry word of a scalar document, None on every early return *)
Definition scalar_entry (bs : list N) : option N :=
  match read_u32 bs 0 with
  | None => None
  | Some hdr => if hdr_type hdr =? SCALAR_CONTAINER_TAG then read_u32 bs 4 else None
  end.

(* as_null / as_bool compare the whole entry word with the tag (match jentry { NULL_TAG => .. }) *)
Definition as_null_b (bs : list N) : res bool :=
  Ok (match scalar_entry bs with Some j => j =? NULL_TAG | None => false end).

Definition as_bool_b (bs : list N) : res (option bool) :=
  Ok (match scalar_entry bs with
      | Some j => if j =? FALSE_TAG then Some false else if j =? TRUE_TAG then Some true else None
      | None => None
      end).

(* as_number: Number::decode(&value[8..8 + length]).ok() *)
Definition as_number_b (bs : list N) : res (option num) :=
  match scalar_entry bs with
  | Some j =>
      if je_type j =? NUMBER_TAG then
        match slice bs 8 (je_len j) with
        | None => Panic
        | Some p => match num_decode p with Ok n => Ok (Some n) | Err _ => Ok None | Panic => Panic end
        end
      else Ok None
  | None => Ok None
  end.

(* as_str: from_utf8_unchecked(&value[8..8 + length]) *)
Definition as_str_b (bs : list N) : res (option (list N)) :=
  match scalar_entry bs with
  | Some j =>
      if je_type j =? STRING_TAG then
        match slice bs 8 (je_len j) with
        | None => Panic
        | Some p => Ok (Some p)
        end
      else Ok None
  | None => Ok None
  end.

Definition as_i64_b (bs : list N) : res (option Z) :=
  do o <- as_number_b bs; Ok (match o with Some n => as_i64 n | None => None end).
Definition as_u64_b (bs : list N) : res (option N) :=
  do o <- as_number_b bs; Ok (match o with Some n => as_u64 n | None => None end).
Definition as_f64_b (bs : list N) : res (option N) :=
  do o <- as_number_b bs; Ok (match o with Some n => Some (as_f64 n) | None => None end).

(* is_array / is_object: read_u32(value, 0).unwrap_or_default() *)
Definition hdr_or_default (bs : list N) : N := match read_u32 bs 0 with Some h => h | None => 0 end.
Definition is_array_b (bs : list N) : res bool := Ok (hdr_type (hdr_or_default bs) =? ARRAY_CONTAINER_TAG).
Definition is_object_b (bs : list N) : res bool := Ok (hdr_type (hdr_or_default bs) =? OBJECT_CONTAINER_TAG).

(* what the to_* casts do with the text of a string document is the tree function on that string *)
Definition of_cast {A} (o : option A) : res A := match o with Some a => Ok a | None => Err EOther end.

(* to_bool: as_bool, else as_str (lower-cased "true" / "false"), else InvalidCast *)
Definition to_bool_b (bs : list N) : res bool :=
  do ob <- as_bool_b bs;
  match ob with
  | Some b => Ok b
  | None =>
      do os <- as_str_b bs;
      match os with
      | Some s => of_cast (to_bool_t (VStr s))
      | None => Err EOther
      end
  end.

(* to_i64 / to_u64 / to_f64: as_x, else as_bool (1 / 0), else as_str parsed, else InvalidCast *)
Definition to_i64_b (bs : list N) : res Z :=
  do oi <- as_i64_b bs;
  match oi with
  | Some z => Ok z
  | None =>
      do ob <- as_bool_b bs;
      match ob with
      | Some b => Ok (if b then 1 else 0)%Z
      | None =>
          do os <- as_str_b bs;
          match os with
          | Some s => of_cast (to_i64_t (VStr s))
          | None => Err EOther
          end
      end
  end.
Definition to_u64_b (bs : list N) : res N :=
  do ou <- as_u64_b bs;
  match ou with
  | Some n => Ok n
  | None =>
      do ob <- as_bool_b bs;
      match ob with
      | Some b => Ok (if b then 1 else 0)
      | None =>
          do os <- as_str_b bs;
          match os with
          | Some s => of_cast (to_u64_t (VStr s))
          | None => Err EOther
          end
      end
  end.
Definition to_f64_b (bs : list N) : res N :=
  do ofl <- as_f64_b bs;
  match ofl with
  | Some x => Ok x
  | None =>
      do ob <- as_bool_b bs;
      match ob with
      | Some b => of_cast (to_f64_t (VBool b))
      | None =>
          do os <- as_str_b bs;
          match os with
          | Some s => of_cast (to_f64_t (VStr s))
          | None => Err EOther
          end
      end
  end.
(* to_str: as_str, else as_bool ("true" / "false"), else as_number (Display), else InvalidCast *)
Definition to_str_b (bs : list N) : res (list N) :=
  do os <- as_str_b bs;
  match os with
  | Some s => Ok s
  | None =>
      do ob <- as_bool_b bs;
      match ob with
      | Some b => of_cast (to_str_t (VBool b))
      | None =>
          do onum <- as_number_b bs;
          match onum with
          | Some n => of_cast (to_str_t (VNum n))
          | None => Err EOther
          end
      end
  end.

(* type_of: both reads are `?` (an error); the entry is looked at through its type code *)
Definition type_of_b (bs : list N) : res N :=
  match read_u32 bs 0 with
  | None => Err EOther
  | Some hdr =>
      let t := hdr_type hdr in
      if t =? SCALAR_CONTAINER_TAG then
        match read_u32 bs 4 with
        | None => Err EOther
        | Some e =>
            let ty := je_type e in
            if ty =? NULL_TAG then Ok 0
            else if (ty =? TRUE_TAG) || (ty =? FALSE_TAG) then Ok 1
            else if ty =? NUMBER_TAG then Ok 2
            else if ty =? STRING_TAG then Ok 3
            else Err EOther
        end
      else if t =? ARRAY_CONTAINER_TAG then Ok 4
      else if t =? OBJECT_CONTAINER_TAG then Ok 5
      else Err EOther
  end.

(* ---- traverse_check_string ----
   The VecDeque of container offsets is a pair (front, back): `pop_front` takes from `front`, `push_back` puts on
   `back` (kept newest first), and when `front` is used up the reversed `back` takes its place — the same sequence of
   offsets as the code's single queue.
   Every offset pushed is at least 8 above the offset of the container it was found in, so after k such swaps every
   queued offset is >= 8k and the first header read fails once that is beyond the buffer: S (length bs) swaps are more
   than can happen.  The `for _ in 0..size` loop runs on fuel S (length bs) like the loops of Walk.v (each iteration
   reads an entry word 4 bytes further on).  EFuel is never produced with these fuels.
   `inl b` = the function returns b now; `inr back` = carry on with this back list. *)
Fixpoint tcs_entries (fuel : nat) (func : list N -> bool) (bs : list N) (i size joff voff : N) (back : list N)
  : res (bool + list N) :=
  match fuel with O => Err EFuel | S f =>
  if i <? size then
    match read_u32 bs joff with
    | None => Ok (inl false)
    | Some e =>
        let ty := je_type e in
        let len := je_len e in
        if ty =? CONTAINER_TAG then tcs_entries f func bs (i + 1) size (joff + 4) (voff + len) (voff :: back)
        else if ty =? STRING_TAG then
          match slice bs voff len with
          | None => Panic                                 (* &value[val_offset..val_offset + val_length] *)
          | Some s => if func s then Ok (inl true)
                      else tcs_entries f func bs (i + 1) size (joff + 4) (voff + len) back
          end
        else tcs_entries f func bs (i + 1) size (joff + 4) (voff + len) back
    end
  else Ok (inr back)
  end.

(* the number of entry words behind a header; any other header kind is unreachable!() *)
Definition tcs_size (hdr : N) : res N :=
  let t := hdr_type hdr in
  let len := hdr_len hdr in
  if t =? SCALAR_CONTAINER_TAG then Ok 1
  else if t =? ARRAY_CONTAINER_TAG then Ok len
  else if t =? OBJECT_CONTAINER_TAG then Ok (len * 2)
  else Panic.

Fixpoint tcs_front (func : list N -> bool) (bs : list N) (front back : list N) : res (bool + list N) :=
  match front with
  | [] => Ok (inr back)
  | offset :: front' =>
      match read_u32 bs offset with
      | None => Ok (inl false)
      | Some hdr =>
          do size <- tcs_size hdr;
          do r <- tcs_entries (S (length bs)) func bs 0 size (offset + 4) (offset + 4 + 4 * size) back;
          match r with
          | inl b => Ok (inl b)
          | inr back' => tcs_front func bs front' back'
          end
      end
  end.

Fixpoint tcs_run (fuel : nat) (func : list N -> bool) (bs : list N) (front : list N) : res bool :=
  match fuel with O => Err EFuel | S f =>
  match front with
  | [] => Ok false
  | _ :: _ =>
      do r <- tcs_front func bs front [];
      match r with
      | inl b => Ok b
      | inr back => tcs_run f func bs (rev_append back [])      (* = rev back, in linear time *)
      end
  end end.

Definition traverse_check_string_b (bs : list N) (func : list N -> bool) : res bool :=
  tcs_run (S (S (length bs))) func bs [0].

(* the tree-level answer: some key or some string value satisfies the callback *)
Definition traverse_check_string_t' (v : value) (func : list N -> bool) : bool := existsb func (all_strings v).

(* ---- the public functions: is_jsonb, then the byte walker or the text branch of Dispatch.v ---- *)
Definition type_of_w (bs : list N) : res N := if is_jsonb bs then type_of_b bs else type_of_m bs.
Definition as_null_w (bs : list N) : res bool := if is_jsonb bs then as_null_b bs else as_null_m bs.
Definition as_bool_w (bs : list N) : res (option bool) := if is_jsonb bs then as_bool_b bs else as_bool_m bs.
Definition as_number_w (bs : list N) : res (option num) := if is_jsonb bs then as_number_b bs else as_number_m bs.
Definition as_i64_w (bs : list N) : res (option Z) := if is_jsonb bs then as_i64_b bs else as_i64_m bs.
Definition as_u64_w (bs : list N) : res (option N) := if is_jsonb bs then as_u64_b bs else as_u64_m bs.
Definition as_f64_w (bs : list N) : res (option N) := if is_jsonb bs then as_f64_b bs else as_f64_m bs.
Definition as_str_w (bs : list N) : res (option (list N)) := if is_jsonb bs then as_str_b bs else as_str_m bs.
Definition is_array_w (bs : list N) : res bool := if is_jsonb bs then is_array_b bs else is_array_m bs.
Definition is_object_w (bs : list N) : res bool := if is_jsonb bs then is_object_b bs else is_object_m bs.
Definition to_bool_w (bs : list N) : res bool := if is_jsonb bs then to_bool_b bs else to_bool_m bs.
Definition to_i64_w (bs : list N) : res Z := if is_jsonb bs then to_i64_b bs else to_i64_m bs.
Definition to_u64_w (bs : list N) : res N := if is_jsonb bs then to_u64_b bs else to_u64_m bs.
Definition to_f64_w (bs : list N) : res N := if is_jsonb bs then to_f64_b bs else to_f64_m bs.
Definition to_str_w (bs : list N) : res (list N) := if is_jsonb bs then to_str_b bs else to_str_m bs.
(* the callback the harness passes is `|s| s.starts_with(needle)` *)
Definition traverse_check_string_w (bs : list N) (needle : list N) : res bool :=
  if is_jsonb bs then traverse_check_string_b bs (is_prefix needle) else traverse_check_string_m bs needle.
