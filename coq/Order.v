(* Order.v — the document order: cmp_value is written from the property statement (literal ranking);
   compare_m mirrors functions.rs compare / compare_scalar / compare_container / compare_array / compare_object
   at view level (entry tags and the generated level table, hard-wired answers where the Rust hard-wires them). *)
From Coq Require Import List NArith ZArith Bool Lia.
Import ListNotations.
From JB Require Import Constants Bytes Num Value.
Open Scope N_scope.

(* ---- specification: Null > Array > Object > String > Number > true > false ---- *)
Definition rank (v : value) : N :=
  match v with
  | VNull => 7 | VArr _ => 6 | VObj _ => 5 | VStr _ => 4 | VNum _ => 3 | VBool true => 2 | VBool false => 1
  end.

Fixpoint cmp_value (a b : value) {struct a} : comparison :=
  match a, b with
  | VStr x, VStr y => bytes_cmp x y
  | VNum x, VNum y => num_cmp x y
  | VArr l1, VArr l2 =>
      (fix go (l1 l2 : list value) : comparison :=
         match l1, l2 with
         | [], [] => Eq | [], _ => Lt | _, [] => Gt
         | x :: xs, y :: ys => match cmp_value x y with Eq => go xs ys | o => o end
         end) l1 l2
  | VObj l1, VObj l2 =>
      (fix go (l1 l2 : list (list N * value)) : comparison :=
         match l1, l2 with
         | [], [] => Eq | [], _ => Lt | _, [] => Gt
         | (k1, x) :: xs, (k2, y) :: ys =>
             match bytes_cmp k1 k2 with
             | Eq => match cmp_value x y with Eq => go xs ys | o => o end
             | o => o
             end
         end) l1 l2
  | _, _ => N.compare (rank a) (rank b)
  end.

(* ---- mirror of the code ---- *)
Definition tag_of (v : value) : N :=
  match v with
  | VNull => NULL_TAG | VBool true => TRUE_TAG | VBool false => FALSE_TAG
  | VStr _ => STRING_TAG | VNum _ => NUMBER_TAG | VArr _ | VObj _ => CONTAINER_TAG
  end.
Definition level_of_tag (t : N) : N :=
  match find (fun p => fst p =? t) LEVEL_TABLE with Some p => snd p | None => LEVEL_DEFAULT end.

Definition ok_then (r : res comparison) (k : unit -> res comparison) : res comparison :=
  match r with Ok Eq => k tt | other => other end.

(* compare_scalar on two entries (any kind, containers go through compare_container) *)
Fixpoint compare_entry (a b : value) {struct a} : res comparison :=
  let la := level_of_tag (tag_of a) in let lb := level_of_tag (tag_of b) in
  if negb (la =? lb) then Ok (N.compare la lb)
  else
    match a, b with
    | VNull, VNull => Ok Eq
    | VBool true, VBool true => Ok Eq
    | VBool false, VBool false => Ok Eq
    | VStr x, VStr y => Ok (bytes_cmp x y)
    | VNum x, VNum y => Ok (num_cmp x y)
    | VArr l1, VArr l2 =>
        (fix go (l1 l2 : list value) : res comparison :=
           match l1, l2 with
           | [], [] => Ok Eq | [], _ => Ok Lt | _, [] => Ok Gt
           | x :: xs, y :: ys => ok_then (compare_entry x y) (fun _ => go xs ys)
           end) l1 l2
    | VObj l1, VObj l2 =>
        (fix go (l1 l2 : list (list N * value)) : res comparison :=
           match l1, l2 with
           | [], [] => Ok Eq | [], _ => Ok Lt | _, [] => Ok Gt
           | (k1, x) :: xs, (k2, y) :: ys =>
               (* keys are compared as string entries *)
               match bytes_cmp k1 k2 with
               | Eq => ok_then (compare_entry x y) (fun _ => go xs ys)
               | o => Ok o
               end
           end) l1 l2
    | VArr _, VObj _ => Ok Gt
    | VObj _, VArr _ => Ok Lt
    | _, _ => Err EOther          (* equal levels, different tags: InvalidJsonbJEntry *)
    end.

(* top-level compare on two binary documents *)
Definition compare_m (a b : value) : res comparison :=
  match is_scalar a, is_scalar b with
  | true, true => compare_entry a b
  | false, false => compare_entry a b        (* array/array, object/object, array/object hard-wired: same answers *)
  | true, false => Ok (match a with VNull => Gt | _ => Lt end)
  | false, true => Ok (match b with VNull => Lt | _ => Gt end)
  end.
