(* BuilderProofs.v — builder.rs: build_into (header, reserved entry slots, write_entry per child, back-patching)
   appends exactly the layout the builder denotes (entry_item) and nothing else; the layout of a builder whose
   entries are the raw (entry word, payload) pairs of values is the encoding of the array / object of those values.
   (C06, C07, C17) *)
From Coq Require Import List NArith ZArith Bool Lia.
Import ListNotations.
From JB Require Import Constants Bytes Utf8 Num Value Codec Order CodecProofs Builder.
Open Scope N_scope.
Set Default Timeout 120.

Arguments N.lor : simpl never.
Arguments N.land : simpl never.
Arguments be32 : simpl never.
Arguments u32 : simpl never.

(* Codec.replace_jentry advances the entry index by 4, as replace_jentry does in builder.rs *)
Lemma replace_jentry_stride : BLD_JSTEP = 4. Proof. reflexivity. Qed.

Definition epl (e : entry) : list N := snd (entry_item e).
Definition eje (e : entry) : je := fst (entry_item e).
Definition esum (l : list entry) : N := fold_right (fun e a => lenN (epl e) + a) 0 l.
Definition espec_ok (e : entry) : Prop := forall b, write_entry b e = (b ++ epl e, eje e).
Definition elen_ok (e : entry) : Prop := snd (eje e) = lenN (epl e).

Lemma len_flat_epl (l : list entry) : lenN (flat_map epl l) = esum l.
Proof. induction l as [|x r IH]; cbn [flat_map esum fold_right]; [reflexivity|]. rewrite lenN_app, IH. reflexivity. Qed.

Lemma bld_values_spec (todo : list entry) :
  Forall espec_ok todo -> Forall elen_ok todo ->
  forall pre done_je done_pl acc,
    bld_values write_entry (pre ++ done_je ++ repeat 0 (4 * length todo) ++ done_pl) (length (pre ++ done_je)) acc todo
    = (pre ++ done_je ++ flat_map (fun e => be32 (je_encoded (eje e))) todo ++ done_pl ++ flat_map epl todo,
       (length (pre ++ done_je) + 4 * length todo)%nat, acc + esum todo).
Proof.
  induction todo as [|x todo IH]; intros Hs Hw pre done_je done_pl acc.
  - cbn [bld_values flat_map length repeat esum fold_right app]. rewrite !app_nil_r, Nat.mul_0_r, Nat.add_0_r, N.add_0_r. reflexivity.
  - inversion Hs as [|? ? Hx Hs']; subst. inversion Hw as [|? ? Wx Hw']; subst.
    cbn [bld_values]. rewrite Hx. unfold replace_jentry.
    replace (4 * length (x :: todo))%nat with (4 + 4 * length todo)%nat by (cbn [length]; lia).
    rewrite repeat_app.
    replace ((pre ++ done_je ++ (repeat 0 4 ++ repeat 0 (4 * length todo)) ++ done_pl) ++ epl x)
      with ((pre ++ done_je) ++ repeat 0 4 ++ (repeat 0 (4 * length todo) ++ done_pl ++ epl x))
      by (repeat rewrite <- app_assoc; reflexivity).
    rewrite patch_app by reflexivity.
    rewrite Wx.
    specialize (IH Hs' Hw' pre (done_je ++ be32 (je_encoded (eje x))) (done_pl ++ epl x) (acc + lenN (epl x))).
    replace ((pre ++ done_je) ++ be32 (je_encoded (eje x)) ++ repeat 0 (4 * length todo) ++ done_pl ++ epl x)
      with (pre ++ (done_je ++ be32 (je_encoded (eje x))) ++ repeat 0 (4 * length todo) ++ done_pl ++ epl x)
      by (repeat rewrite <- app_assoc; reflexivity).
    replace (length (pre ++ done_je) + 4)%nat with (length (pre ++ done_je ++ be32 (je_encoded (eje x))))
      by (rewrite !app_length, be32_len; lia).
    rewrite IH. cbn [flat_map esum fold_right]. f_equal; [f_equal|].
    + repeat rewrite <- app_assoc. reflexivity.
    + rewrite !app_length, be32_len. cbn [length]. lia.
    + unfold esum. cbn [fold_right]. lia.
Qed.

Lemma bld_members_spec (todo : list (list N * entry)) :
  Forall (fun ke => espec_ok (snd ke)) todo -> Forall (fun ke => elen_ok (snd ke)) todo ->
  forall pre done_je done_pl acc,
    bld_members write_entry (pre ++ done_je ++ repeat 0 (4 * length todo) ++ done_pl) (length (pre ++ done_je)) acc todo
    = (pre ++ done_je ++ flat_map (fun ke => be32 (je_encoded (eje (snd ke)))) todo ++ done_pl ++ flat_map (fun ke => epl (snd ke)) todo,
       (length (pre ++ done_je) + 4 * length todo)%nat, acc + esum (map snd todo)).
Proof.
  induction todo as [|[k x] todo IH]; intros Hs Hw pre done_je done_pl acc.
  - cbn [bld_members flat_map length repeat esum fold_right app map]. rewrite !app_nil_r, Nat.mul_0_r, Nat.add_0_r, N.add_0_r. reflexivity.
  - inversion Hs as [|? ? Hx Hs']; subst. inversion Hw as [|? ? Wx Hw']; subst. cbn [snd] in Hx, Wx.
    cbn [bld_members]. rewrite Hx. unfold replace_jentry.
    replace (4 * length ((k, x) :: todo))%nat with (4 + 4 * length todo)%nat by (cbn [length]; lia).
    rewrite repeat_app.
    replace ((pre ++ done_je ++ (repeat 0 4 ++ repeat 0 (4 * length todo)) ++ done_pl) ++ epl x)
      with ((pre ++ done_je) ++ repeat 0 4 ++ (repeat 0 (4 * length todo) ++ done_pl ++ epl x))
      by (repeat rewrite <- app_assoc; reflexivity).
    rewrite patch_app by reflexivity.
    rewrite Wx.
    specialize (IH Hs' Hw' pre (done_je ++ be32 (je_encoded (eje x))) (done_pl ++ epl x) (acc + lenN (epl x))).
    replace ((pre ++ done_je) ++ be32 (je_encoded (eje x)) ++ repeat 0 (4 * length todo) ++ done_pl ++ epl x)
      with (pre ++ (done_je ++ be32 (je_encoded (eje x))) ++ repeat 0 (4 * length todo) ++ done_pl ++ epl x)
      by (repeat rewrite <- app_assoc; reflexivity).
    replace (length (pre ++ done_je) + 4)%nat with (length (pre ++ done_je ++ be32 (je_encoded (eje x))))
      by (rewrite !app_length, be32_len; lia).
    rewrite IH. cbn [flat_map esum fold_right map snd]. f_equal; [f_equal|].
    + repeat rewrite <- app_assoc. reflexivity.
    + rewrite !app_length, be32_len. cbn [length]. lia.
    + unfold esum. cbn [fold_right map snd]. lia.
Qed.

Definition ksum (l : list (list N * entry)) : N := fold_right (fun ke a => lenN (fst ke) + a) 0 l.
Lemma bld_keys_spec (todo : list (list N * entry)) :
  forall pre done_je tail done_keys acc,
    bld_keys (pre ++ done_je ++ repeat 0 (4 * length todo) ++ tail ++ done_keys) (length (pre ++ done_je)) acc todo
    = (pre ++ done_je ++ flat_map (fun ke => be32 (jentry_word STRING_TAG (lenN (fst ke)))) todo ++ tail ++ done_keys ++ flat_map fst todo,
       (length (pre ++ done_je) + 4 * length todo)%nat, acc + ksum todo).
Proof.
  induction todo as [|[k x] todo IH]; intros pre done_je tail done_keys acc.
  - cbn [bld_keys flat_map length repeat ksum fold_right app]. rewrite !app_nil_r, Nat.mul_0_r, Nat.add_0_r, N.add_0_r. reflexivity.
  - cbn [bld_keys]. unfold replace_jentry.
    replace (4 * length ((k, x) :: todo))%nat with (4 + 4 * length todo)%nat by (cbn [length]; lia).
    rewrite repeat_app.
    replace ((pre ++ done_je ++ (repeat 0 4 ++ repeat 0 (4 * length todo)) ++ tail ++ done_keys) ++ k)
      with ((pre ++ done_je) ++ repeat 0 4 ++ (repeat 0 (4 * length todo) ++ tail ++ done_keys ++ k))
      by (repeat rewrite <- app_assoc; reflexivity).
    rewrite patch_app by reflexivity.
    change (je_encoded (STRING_TAG, u32 (lenN k))) with (jentry_word STRING_TAG (lenN k)).
    specialize (IH pre (done_je ++ be32 (jentry_word STRING_TAG (lenN k))) tail (done_keys ++ k) (acc + lenN k)).
    replace ((pre ++ done_je) ++ be32 (jentry_word STRING_TAG (lenN k)) ++ repeat 0 (4 * length todo) ++ tail ++ done_keys ++ k)
      with (pre ++ (done_je ++ be32 (jentry_word STRING_TAG (lenN k))) ++ repeat 0 (4 * length todo) ++ tail ++ (done_keys ++ k))
      by (repeat rewrite <- app_assoc; reflexivity).
    replace (length (pre ++ done_je) + 4)%nat with (length (pre ++ done_je ++ be32 (jentry_word STRING_TAG (lenN k))))
      by (rewrite !app_length, be32_len; lia).
    rewrite IH. cbn [flat_map ksum fold_right fst]. f_equal; [f_equal|].
    + repeat rewrite <- app_assoc. reflexivity.
    + rewrite !app_length, be32_len. cbn [length]. lia.
    + unfold ksum. cbn [fold_right fst]. lia.
Qed.

Lemma entry_ok_len e : entry_okb e = true -> elen_ok e.
Proof.
  unfold elen_ok, eje, epl. destruct e as [j d|es|kes]; cbn [entry_okb]; intros H.
  - cbn [entry_item fst snd]. apply N.eqb_eq. exact H.
  - apply andb_true_iff in H. destruct H as [H _]. apply N.ltb_lt in H.
    cbn [entry_item fst snd] in *. apply u32_small. exact H.
  - apply andb_true_iff in H. destruct H as [H _]. apply N.ltb_lt in H.
    cbn [entry_item fst snd] in *. apply u32_small. exact H.
Qed.

(* ---- build_into writes the layout and only appends ---- *)
(* the layout equations, folded *)
Lemma epl_arr es : epl (EArr es) = be32 (header_word ARRAY_CONTAINER_TAG (lenN es)) ++
   flat_map (fun it : je * list N => be32 (je_encoded (fst it))) (map entry_item es) ++ flat_map snd (map entry_item es).
Proof. reflexivity. Qed.
Lemma eje_arr es : eje (EArr es) = (CONTAINER_TAG, u32 (lenN (epl (EArr es)))).
Proof. reflexivity. Qed.
Lemma epl_obj kes : epl (EObj kes) = be32 (header_word OBJECT_CONTAINER_TAG (lenN kes))
   ++ flat_map (fun ke : list N * entry => be32 (jentry_word STRING_TAG (lenN (fst ke)))) kes
   ++ flat_map (fun it : je * list N => be32 (je_encoded (fst it))) (map (fun ke : list N * entry => entry_item (snd ke)) kes)
   ++ flat_map (fun ke : list N * entry => fst ke) kes
   ++ flat_map snd (map (fun ke : list N * entry => entry_item (snd ke)) kes).
Proof. reflexivity. Qed.
Lemma eje_obj kes : eje (EObj kes) = (CONTAINER_TAG, u32 (lenN (epl (EObj kes)))).
Proof. reflexivity. Qed.

Lemma write_arr_step es buf : Forall espec_ok es -> Forall elen_ok es ->
  write_entry buf (EArr es) =
  ((buf ++ be32 (header_word ARRAY_CONTAINER_TAG (lenN es))) ++
   flat_map (fun e : entry => be32 (je_encoded (eje e))) es ++ flat_map epl es,
   (CONTAINER_TAG, u32 (4 + lenN es * 4 + esum es))).
Proof.
  intros Hs Hl. cbn [write_entry]. unfold reserve_jentries, BLD_ARR_RESERVE, BLD_ARR_LEN0.
  pose proof (bld_values_spec es Hs Hl (buf ++ be32 (header_word ARRAY_CONTAINER_TAG (lenN es))) [] [] (4 + lenN es * 4)) as E.
  cbn [app] in E. rewrite !app_nil_r in E.
  replace (N.to_nat (lenN es * 4)) with (4 * length es)%nat by (unfold lenN; lia).
  rewrite E. reflexivity.
Qed.
Lemma arr_layout_eq es buf :
  ((buf ++ be32 (header_word ARRAY_CONTAINER_TAG (lenN es))) ++
   flat_map (fun e : entry => be32 (je_encoded (eje e))) es ++ flat_map epl es,
   (CONTAINER_TAG, u32 (4 + lenN es * 4 + esum es))) = (buf ++ epl (EArr es), eje (EArr es)).
Proof.
  rewrite eje_arr, epl_arr. rewrite !flat_map_map. unfold eje. f_equal.
  - rewrite <- !app_assoc. reflexivity.
  - f_equal. f_equal. rewrite !lenN_app, lenN_be32.
    rewrite (len_flat_be32 (fun x => je_encoded (fst (entry_item x))) es).
    change (fun x : entry => snd (entry_item x)) with epl.
    rewrite len_flat_epl. lia.
Qed.

Lemma write_obj_step kes buf : Forall (fun ke => espec_ok (snd ke)) kes -> Forall (fun ke => elen_ok (snd ke)) kes ->
  write_entry buf (EObj kes) =
  (((buf ++ be32 (header_word OBJECT_CONTAINER_TAG (lenN kes))) ++
    flat_map (fun ke => be32 (jentry_word STRING_TAG (lenN (fst ke)))) kes) ++
   flat_map (fun ke => be32 (je_encoded (eje (snd ke)))) kes ++ flat_map fst kes ++ flat_map (fun ke => epl (snd ke)) kes,
   (CONTAINER_TAG, u32 (4 + lenN kes * 8 + ksum kes + esum (map snd kes)))).
Proof.
  intros Hs Hl. cbn [write_entry]. unfold reserve_jentries, BLD_OBJ_RESERVE, BLD_OBJ_LEN0.
  set (pre := buf ++ be32 (header_word OBJECT_CONTAINER_TAG (lenN kes))).
  replace (N.to_nat (lenN kes * 8)) with (4 * length kes + 4 * length kes)%nat by (unfold lenN; lia).
  rewrite repeat_app.
  pose proof (bld_keys_spec kes pre [] (repeat 0 (4 * length kes)) [] (4 + lenN kes * 8)) as EK.
  cbn [app] in EK. rewrite !app_nil_r in EK. rewrite EK. clear EK.
  set (kj := flat_map (fun ke => be32 (jentry_word STRING_TAG (lenN (fst ke)))) kes).
  pose proof (bld_members_spec kes Hs Hl (pre ++ kj) [] (flat_map fst kes) (4 + lenN kes * 8 + ksum kes)) as EM.
  cbn [app] in EM. rewrite !app_nil_r in EM.
  replace (length pre + 4 * length kes)%nat with (length (pre ++ kj)).
  2:{ unfold kj. rewrite app_length. f_equal.
      apply (length_flat_be32 (fun ke : list N * entry => jentry_word STRING_TAG (lenN (fst ke))) kes). }
  replace (pre ++ kj ++ repeat 0 (4 * length kes) ++ flat_map fst kes) with ((pre ++ kj) ++ repeat 0 (4 * length kes) ++ flat_map fst kes)
    by (rewrite <- app_assoc; reflexivity).
  rewrite EM. reflexivity.
Qed.
Lemma obj_layout_eq kes buf :
  (((buf ++ be32 (header_word OBJECT_CONTAINER_TAG (lenN kes))) ++
    flat_map (fun ke => be32 (jentry_word STRING_TAG (lenN (fst ke)))) kes) ++
   flat_map (fun ke => be32 (je_encoded (eje (snd ke)))) kes ++ flat_map fst kes ++ flat_map (fun ke => epl (snd ke)) kes,
   (CONTAINER_TAG, u32 (4 + lenN kes * 8 + ksum kes + esum (map snd kes)))) = (buf ++ epl (EObj kes), eje (EObj kes)).
Proof.
  rewrite eje_obj, epl_obj. rewrite !flat_map_map. unfold eje, epl. f_equal.
  - rewrite <- !app_assoc. reflexivity.
  - f_equal. f_equal. rewrite !lenN_app, lenN_be32.
    rewrite (len_flat_be32 (fun ke : list N * entry => jentry_word STRING_TAG (lenN (fst ke))) kes).
    rewrite (len_flat_be32 (fun x : list N * entry => je_encoded (fst (entry_item (snd x)))) kes).
    assert (K : lenN (flat_map (fun ke : list N * entry => fst ke) kes) = ksum kes).
    { clear. induction kes as [|[k x] o IHo]; cbn [flat_map ksum fold_right fst]; [reflexivity|]. rewrite lenN_app, IHo. reflexivity. }
    rewrite K.
    assert (P : lenN (flat_map (fun x : list N * entry => snd (entry_item (snd x))) kes) = esum (map snd kes)).
    { clear. induction kes as [|[k x] o IHo]; cbn [flat_map esum fold_right map snd]; [reflexivity|].
      rewrite lenN_app, IHo. reflexivity. }
    rewrite P. lia.
Qed.

Lemma okb_arr es : entry_okb (EArr es) = true -> Forall (fun e => entry_okb e = true) es.
Proof.
  cbn [entry_okb]. intros Hw. apply andb_true_iff in Hw. destruct Hw as [_ Hw]. rewrite forallb_forall in Hw.
  apply Forall_forall. exact Hw.
Qed.
Lemma okb_obj kes : entry_okb (EObj kes) = true -> Forall (fun ke => entry_okb (snd ke) = true) kes.
Proof.
  cbn [entry_okb]. intros Hw. apply andb_true_iff in Hw. destruct Hw as [_ Hw]. rewrite forallb_forall in Hw.
  apply Forall_forall. exact Hw.
Qed.

Theorem write_entry_spec e : entry_okb e = true -> forall buf, write_entry buf e = (buf ++ epl e, eje e).
Proof.
  induction e as [j d|es IH|kes IH] using entry_ind2; intros Hw buf.
  - reflexivity.
  - pose proof (okb_arr es Hw) as Hall.
    assert (Hs : Forall espec_ok es).
    { rewrite Forall_forall in *. intros x Hx b. apply IH; auto. }
    assert (Hl : Forall elen_ok es).
    { rewrite Forall_forall in *. intros x Hx. apply entry_ok_len. auto. }
    rewrite (write_arr_step es buf Hs Hl). apply arr_layout_eq.
  - pose proof (okb_obj kes Hw) as Hall.
    assert (Hs : Forall (fun ke => espec_ok (snd ke)) kes).
    { rewrite Forall_forall in *. intros x Hx b. apply IH; auto. }
    assert (Hl : Forall (fun ke => elen_ok (snd ke)) kes).
    { rewrite Forall_forall in *. intros x Hx. apply entry_ok_len. auto. }
    rewrite (write_obj_step kes buf Hs Hl). apply obj_layout_eq.
Qed.

Corollary build_arr_into_spec es buf : entry_okb (EArr es) = true -> build_arr_into buf es = buf ++ epl (EArr es).
Proof. intros H. unfold build_arr_into. rewrite (write_entry_spec _ H). reflexivity. Qed.
Corollary build_obj_into_spec kes buf : entry_okb (EObj kes) = true -> build_obj_into buf kes = buf ++ epl (EObj kes).
Proof. intros H. unfold build_obj_into. rewrite (write_entry_spec _ H). reflexivity. Qed.

(* ---- entries that are the raw pieces of values ---- *)
(* what the iterators hand out for an element x of a valid container, and what the editors push back *)
Definition raw_of (x : value) : entry := ERaw (ent x) (payload x).

Lemma raw_item x : entry_item (raw_of x) = (ent x, payload x). Proof. reflexivity. Qed.
Lemma raw_ok x : wf_size x = true -> entry_okb (raw_of x) = true.
Proof. intros H. cbn [raw_of entry_okb snd]. rewrite (ent_len x H). apply N.eqb_refl. Qed.

Lemma flat_words_raw (l : list value) :
  flat_map (fun it => be32 (je_encoded (fst it))) (map entry_item (map raw_of l))
  = flat_map (fun it => be32 (fst it)) (map enc_item l).
Proof.
  induction l as [|x r IH]; cbn [map flat_map]; [reflexivity|]. rewrite IH. unfold raw_of. cbn [entry_item fst]. rewrite ent_word. reflexivity.
Qed.
Lemma flat_pl_raw (l : list value) :
  flat_map snd (map entry_item (map raw_of l)) = flat_map snd (map enc_item l).
Proof. induction l as [|x r IH]; cbn [map flat_map]; [reflexivity|]. rewrite IH. reflexivity. Qed.

(* an array builder filled with the raw pieces of l denotes payload (VArr l) *)
Lemma epl_arr_raw (l : list value) : epl (EArr (map raw_of l)) = payload (VArr l).
Proof.
  unfold epl, payload. cbn [entry_item enc_item snd]. rewrite flat_words_raw, flat_pl_raw.
  unfold lenN. rewrite map_length. reflexivity.
Qed.
Lemma arr_raw_ok (l : list value) : wf_size (VArr l) = true -> entry_okb (EArr (map raw_of l)) = true.
Proof.
  intros H. cbn [entry_okb]. apply andb_true_iff. split.
  - change (snd (entry_item (EArr (map raw_of l)))) with (epl (EArr (map raw_of l))). rewrite epl_arr_raw.
    cbn [wf_size] in H. apply andb_true_iff in H. destruct H as [H _]. apply andb_true_iff in H. destruct H as [_ H].
    apply N.ltb_lt in H. apply N.ltb_lt. unfold payload. lia.
  - apply forallb_forall. intros e He. apply in_map_iff in He. destruct He as [x [<- Hx]].
    apply raw_ok. pose proof (wf_size_arr l H) as Hall. rewrite Forall_forall in Hall. auto.
Qed.
Theorem build_arr_raw (l : list value) buf : wf_size (VArr l) = true ->
  build_arr_into buf (map raw_of l) = buf ++ enc (VArr l).
Proof. intros H. rewrite build_arr_into_spec by (apply arr_raw_ok; exact H). rewrite epl_arr_raw. reflexivity. Qed.

(* an object builder whose map holds the raw pieces of the members of o denotes payload (VObj o) *)
Definition raw_members (o : list (list N * value)) : list (list N * entry) := map (fun kv => (fst kv, raw_of (snd kv))) o.
Lemma epl_obj_raw (o : list (list N * value)) : epl (EObj (raw_members o)) = payload (VObj o).
Proof.
  unfold epl, payload, raw_members. cbn [entry_item enc_item snd].
  rewrite !map_map. cbn [snd fst].
  replace (lenN (map (fun kv : list N * value => (fst kv, raw_of (snd kv))) o)) with (lenN o) by (unfold lenN; rewrite map_length; reflexivity).
  f_equal. rewrite !flat_map_map. cbn [fst snd].
  f_equal. f_equal.
  induction o as [|kv r IH]; cbn [flat_map]; [reflexivity|]. rewrite IH. unfold raw_of. cbn [entry_item fst]. rewrite ent_word. reflexivity.
Qed.
Lemma obj_raw_ok (o : list (list N * value)) : wf_size (VObj o) = true -> entry_okb (EObj (raw_members o)) = true.
Proof.
  intros H. cbn [entry_okb]. apply andb_true_iff. split.
  - change (snd (entry_item (EObj (raw_members o)))) with (epl (EObj (raw_members o))). rewrite epl_obj_raw.
    cbn [wf_size] in H. apply andb_true_iff in H. destruct H as [H _]. apply andb_true_iff in H. destruct H as [_ H].
    apply N.ltb_lt in H. apply N.ltb_lt. unfold payload. lia.
  - apply forallb_forall. intros e He. unfold raw_members in He. apply in_map_iff in He. destruct He as [kv [<- Hx]].
    cbn [snd]. apply raw_ok. destruct (wf_size_obj o H) as [Hall _]. rewrite Forall_forall in Hall. auto.
Qed.
Theorem build_obj_raw (o : list (list N * value)) buf : wf_size (VObj o) = true ->
  build_obj_into buf (raw_members o) = buf ++ enc (VObj o).
Proof. intros H. rewrite build_obj_into_spec by (apply obj_raw_ok; exact H). rewrite epl_obj_raw. reflexivity. Qed.

(* pushing into the object builder is insertion into the ordered map *)
Lemma raw_members_insert k x (o : list (list N * value)) :
  obj_push (raw_members o) k (raw_of x) = raw_members (assoc_insert k x o).
Proof.
  unfold obj_push, raw_members. induction o as [|[k' x'] r IH]; cbn [assoc_insert map fst snd]; [reflexivity|].
  destruct (bytes_cmp k k'); cbn [map fst snd]; try reflexivity. rewrite IH. reflexivity.
Qed.
