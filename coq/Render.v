(* Render.v — to_string / to_pretty_string on trees (view-level mirror of container_to_string /
   scalar_to_string / escape_scalar_string).  The float printer is a parameter: ryu is modelled, not verified. *)
From Coq Require Import List NArith ZArith Bool.
Import ListNotations.
From JB Require Import Constants Bytes Num Value.
Open Scope N_scope.

Definition hex_digit (n : N) : N := if n <? 10 then 48 + n else 87 + n.   (* lower case *)

(* escape_scalar_string: the generated table; after the fix the remaining control characters become \u00xx *)
Definition escape_byte (b : N) : list N :=
  match find (fun p => fst p =? b) ESCAPE_TABLE with
  | Some p => snd p
  | None => if ESCAPE_GENERIC_CONTROL && (b <? 32) then [92; 117; 48; 48; hex_digit (b / 16); hex_digit (b mod 16)] else [b]
  end.
Definition escape_string (s : list N) : list N := 34 :: flat_map escape_byte s ++ [34].

Section Render.
  Variable print_float : N -> list N.

  Definition number_text (n : num) : list N :=
    match n with
    | NInt z => dec_Z z
    | NUInt u => dec_digits u
    | NFloat b => print_float b
    end.

  Definition indent (k : nat) : list N := repeat 32 k.

  Fixpoint render (pretty : bool) (ind : nat) (v : value) : list N :=
    match v with
    | VNull => [110; 117; 108; 108]
    | VBool true => [116; 114; 117; 101]
    | VBool false => [102; 97; 108; 115; 101]
    | VNum n => number_text n
    | VStr s => escape_string s
    | VArr l =>
        let sep := if pretty then [44; 10] else [44] in
        let items := (fix go (first : bool) (l : list value) : list N :=
                        match l with
                        | [] => []
                        | x :: r => (if first then [] else sep)
                                      ++ (if pretty then indent (ind + 2) else [])
                                      ++ render pretty (ind + 2) x ++ go false r
                        end) true l in
        (if pretty then [91; 10] else [91]) ++ items ++ (if pretty then 10 :: indent ind else []) ++ [93]
    | VObj o =>
        let sep := if pretty then [44; 10] else [44] in
        let items := (fix go (first : bool) (l : list (list N * value)) : list N :=
                        match l with
                        | [] => []
                        | (k, x) :: r => (if first then [] else sep)
                                           ++ (if pretty then indent (ind + 2) else [])
                                           ++ escape_string k ++ (if pretty then [58; 32] else [58])
                                           ++ render pretty (ind + 2) x ++ go false r
                        end) true o in
        (if pretty then [123; 10] else [123]) ++ items ++ (if pretty then 10 :: indent ind else []) ++ [125]
    end.

  Definition to_string_t (v : value) : list N := render false 0 v.
  Definition to_pretty_string_t (v : value) : list N := render true 0 v.
End Render.

(* the placeholder printer used by the correspondence (the harness rewrites float tokens the same way):
   F + 16 lower-case hex digits of the pattern; ryu's spellings for the non-finite values *)
Fixpoint hex_fixed (k : nat) (n : N) : list N :=
  match k with O => [] | S k' => hex_fixed k' (n / 16) ++ [hex_digit (n mod 16)] end.
Definition float_placeholder (b : N) : list N :=
  if f_is_nan b then [78; 97; 78]
  else if f_is_inf b then (if f_sign b then [45; 105; 110; 102] else [105; 110; 102])
  else 70 :: hex_fixed 16 b.
