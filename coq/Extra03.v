(* C03, the clause "re-encoding [the parsed rendering] to the identical JSONB bytes whenever the original stores its
   non-negative integers unsigned".
   `unsigned_ints v`: no Int64 number with a value >= 0 anywhere in v (every non-negative integer is stored as UInt64).
   Then the text reader's result `unsign v` IS v, so encoding it gives the bytes of v; at byte level (what to_string /
   to_pretty_string print for `enc v`, read back and encoded with to_vec) the bytes are `enc v` again: the decoder's
   representation changes (normalise: NaN payloads; Int64 0 cannot occur here) do not change the encoding. *)
From Coq Require Import List NArith ZArith Bool Lia.
Import ListNotations.
From JB Require Import Constants Bytes Num Value Codec Order Render JsonText SerdeProofs TextRoundtrip CodecProofs RoundtripProofs
  DispatchProofs TreeWf WalkProofs ContainWalkProofs JsonGrammar JsonGrammarProofs RenderWalk RenderWalkProofs RenderRfc.
Open Scope N_scope.
Set Default Timeout 30.

Definition unsigned_num (n : num) : bool := match n with NInt z => (z <? 0)%Z | _ => true end.
Fixpoint unsigned_ints (v : value) : bool :=
  match v with
  | VNum n => unsigned_num n
  | VArr l => forallb unsigned_ints l
  | VObj o => forallb (fun kv => unsigned_ints (snd kv)) o
  | _ => true
  end.

Lemma unsigned_num_fix n : unsigned_num n = true -> unsign_num n = n.
Proof. destruct n as [z|u|b]; cbn [unsigned_num unsign_num]; intros H; [rewrite H|..]; reflexivity. Qed.

Theorem unsigned_ints_unsign v : unsigned_ints v = true -> unsign v = v.
Proof.
  induction v as [|b|s|n|l IH|o IH] using value_ind2; cbn [unsigned_ints unsign]; intros H; try reflexivity.
  - rewrite (unsigned_num_fix n H). reflexivity.
  - f_equal. rewrite forallb_forall in H. rewrite Forall_forall in IH.
    rewrite <- (map_id l) at 2. apply map_ext_in. intros x Hx. apply IH; [exact Hx|apply H; exact Hx].
  - f_equal. rewrite forallb_forall in H. rewrite Forall_forall in IH.
    rewrite <- (map_id o) at 2. apply map_ext_in. intros [k x] Hx. cbn [fst snd]. f_equal. apply (IH (k, x) Hx). apply (H (k, x) Hx).
Qed.

(* the converse: the hypothesis is exactly "the reader's representation is the stored one" *)
Theorem unsign_fix_unsigned_ints v : unsign v = v -> unsigned_ints v = true.
Proof.
  induction v as [|b|s|n|l IH|o IH] using value_ind2; cbn [unsigned_ints unsign]; intros H; try reflexivity.
  - destruct n as [z|u|b]; cbn [unsigned_num unsign_num] in *; try reflexivity.
    destruct (z <? 0)%Z; [reflexivity|discriminate].
  - injection H as H. rewrite forallb_forall. rewrite Forall_forall in IH. intros x Hx. apply IH; [exact Hx|].
    induction l as [|y l IHl]; [destruct Hx|]. cbn [map] in H. injection H as H1 H2. destruct Hx as [<-|Hx]; [exact H1|].
    apply IHl; [intros z Hz; apply IH; right; exact Hz|exact H2|exact Hx].
  - injection H as H. rewrite forallb_forall. rewrite Forall_forall in IH. intros x Hx. apply IH; [exact Hx|].
    induction o as [|y o IHo]; [destruct Hx|]. cbn [map] in H. injection H as H1 H2. destruct Hx as [<-|Hx].
    + destruct y as [k y]. cbn [fst snd] in *. congruence.
    + apply IHo; [intros z Hz; apply IH; right; exact Hz|exact H2|exact Hx].
Qed.

Lemma unsigned_num_normalise n : unsigned_num n = true -> unsigned_num (normalise_num n) = true.
Proof.
  destruct n as [z|u|b]; cbn [unsigned_num normalise_num]; intros H; try reflexivity.
  - destruct (z =? 0)%Z; [reflexivity|exact H].
  - destruct (f_is_nan b); reflexivity.
Qed.
Lemma unsigned_ints_normalise v : unsigned_ints v = true -> unsigned_ints (normalise v) = true.
Proof.
  induction v as [|b|s|n|l IH|o IH] using value_ind2; cbn [unsigned_ints normalise]; intros H; try reflexivity.
  - apply unsigned_num_normalise. exact H.
  - rewrite forallb_forall in *. rewrite Forall_forall in IH. intros y Hy. apply in_map_iff in Hy. destruct Hy as (x & <- & Hx).
    apply IH; [exact Hx|apply H; exact Hx].
  - rewrite forallb_forall in *. rewrite Forall_forall in IH. intros y Hy. apply in_map_iff in Hy. destruct Hy as (x & <- & Hx).
    cbn [snd]. apply (IH x Hx). apply (H x Hx).
Qed.

(* ---- tree level: the value the library's reader makes of either rendering of v, encoded, is `enc v` byte for byte.
   Hypotheses: v is a document (wf_shape), within the format's field widths (wf_size), every float that occurs is printed
   as an RFC number token denoting it (the float printer ryu is a parameter; no NaN / infinity has such a text). *)
Theorem reencode_parsed_rendering pf pretty v d :
  wf_shape v = true -> wf_size v = true -> (forall b, In b (floats_of v) -> rfc_float_text pf b) ->
  unsigned_ints v = true ->
  parse_value (render pf pretty 0 v) = Ok d -> d = v /\ to_vec d = enc v.
Proof.
  intros Hw Hs Hf Hu Hp. rewrite (rendering_parses_back pf pretty v Hw Hf) in Hp. injection Hp as <-.
  rewrite (unsigned_ints_unsign v Hu). split; [reflexivity|apply to_vec_is_layout; exact Hs].
Qed.

(* without the hypothesis on the integers the bytes differ exactly when an Int64 >= 0 occurs: then d <> v (still equal
   under compare) *)
Theorem reencode_parsed_rendering_any pf pretty v d :
  wf_shape v = true -> (forall b, In b (floats_of v) -> rfc_float_text pf b) ->
  parse_value (render pf pretty 0 v) = Ok d -> d = unsign v /\ cmp_value d v = Eq /\ (d = v <-> unsigned_ints v = true).
Proof.
  intros Hw Hf Hp. rewrite (rendering_parses_back pf pretty v Hw Hf) in Hp. injection Hp as <-.
  split; [reflexivity|]. split; [apply unsign_equal|]. split; [apply unsign_fix_unsigned_ints|apply unsigned_ints_unsign].
Qed.

(* ---- byte level: to_string / to_pretty_string on the encoding of a valid document, the printed text read back by
   parse_value, the result encoded by to_vec: the original bytes *)
Theorem reencode_walker_rendering pf v : wfb v = true -> top_ok v -> finite_numbers v = true ->
  (forall b, In b (floats_of v) -> rfc_float_text pf b) -> unsigned_ints v = true ->
  exists tc tp dc dp,
    to_string_w' pf (enc v) = Ok tc /\ to_pretty_string_w' pf (enc v) = Ok tp /\
    parse_value tc = Ok dc /\ parse_value tp = Ok dp /\ to_vec dc = enc v /\ to_vec dp = enc v.
Proof.
  intros Hw Ht Hfin Hf Hu.
  destruct (renderings_rfc pf v Hw Ht Hfin Hf) as (tc & tp & E1 & E2 & _ & _ & _ & P1 & P2).
  assert (D : to_vec (denoted v) = enc v).
  { unfold denoted. rewrite (unsigned_ints_unsign _ (unsigned_ints_normalise v Hu)).
    rewrite to_vec_is_layout by (rewrite wf_size_normalise; apply wfb_size; exact Hw). apply enc_normalise. }
  exists tc, tp, (denoted v), (denoted v). repeat split; assumption.
Qed.

(* not vacuous: a nested document with a negative Int64, unsigned integers, a float (1.5 printed "1.5"), a string with
   escapes; and the hypothesis matters: with Int64 5 in place of UInt64 5 the re-encoded bytes differ *)
Definition x03_doc : value :=
  VObj [([97], VArr [VNum (NFloat 4609434218613702656); VStr [10; 34]; VNum (NInt (-5)%Z); VNum (NUInt 5)]); ([98], VObj [])].
Definition x03_pf : N -> list N := fun _ => [49; 46; 53].
Example reencode_example :
  wfb x03_doc = true /\ unsigned_ints x03_doc = true /\
  (do t <- to_pretty_string_w' x03_pf (enc x03_doc); do d <- parse_value t; Ok (to_vec d)) = Ok (enc x03_doc) /\
  unsigned_ints (VArr [VNum (NInt 5)]) = false /\
  (do t <- to_string_w' x03_pf (enc (VArr [VNum (NInt 5)])); do d <- parse_value t; Ok (to_vec d)) = Ok (enc (VArr [VNum (NUInt 5)])) /\
  enc (VArr [VNum (NUInt 5)]) <> enc (VArr [VNum (NInt 5)]).
Proof. vm_compute. repeat split; try reflexivity. discriminate. Qed.
