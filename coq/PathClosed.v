(* PathClosed.v — the never-panics chain of C08, closed: from the PARSER to the byte selector.
   PathImage.parse_image: every accepted JSONPath text gives an AST of the parser's shape (`shape_path`);
   here: every AST of that shape satisfies the hypotheses of the never-panics theorems (EvalProofs.path_ok, structural, no depth
   bound); hence evaluating ANY accepted path on the encoding of ANY well-formed document — select / exists / predicate_match
   and the public get_by_path* / path_exists / path_match, on a JSONB or a JSON text argument — ends in a result or an error. *)
From Coq Require Import List NArith ZArith Bool Lia.
Import ListNotations.
From JB Require Import Constants Bytes Utf8 Num Value Codec TreeOps Path PathInd PathSem PathParse PathSafe PathImage EvalProofs
  Dispatch SelWalk SelWalkProofs.
From JB Require TextBinProofs.
Open Scope N_scope.
Set Default Timeout 60.

Lemma shape_inner_step p : shape_inner p = true -> inner_step p = true.
Proof. destruct p; try discriminate; reflexivity. Qed.
Lemma shape_inners_steps l : forallb shape_inner l = true -> forallb inner_step l = true.
Proof.
  induction l as [|p l IH]; [reflexivity|]. cbn [forallb]. intros H. apply andb_true_iff in H. destruct H as [H1 H2].
  rewrite (shape_inner_step p H1), (IH H2). reflexivity.
Qed.
Lemma shape_operand_ok rp e : shape_operand rp e = true -> operand_ok e = true.
Proof.
  destruct e as [l|v| | | |]; try discriminate; [|reflexivity]. destruct l as [|p l]; [discriminate|].
  destruct p; try discriminate; cbn [shape_operand operand_ok]; intros H.
  - apply shape_inners_steps. exact H.
  - apply andb_true_iff in H. apply shape_inners_steps. apply H.
Qed.
Lemma shape_inner_step_ok p : shape_inner p = true -> step_ok p = true.
Proof. destruct p; try discriminate; reflexivity. Qed.

(* every expression / step of the parser's shape satisfies the never-panics conditions *)
Lemma shape_ok :
  (forall e rp, shape_expr rp e -> expr_ok e = true) /\ (forall p, shape_step p -> step_ok p = true).
Proof.
  apply (expr_path_ind (fun e => forall rp, shape_expr rp e -> expr_ok e = true) (fun p => shape_step p -> step_ok p = true));
    try (intros; match goal with Hs : shape_step _ |- _ => inversion Hs as [? Hi|]; subst; try discriminate Hi end; reflexivity).
  - intros l _ rp Hs. inversion Hs.
  - intros v rp Hs. inversion Hs.
  - intros op l r IHl IHr rp Hs. inversion Hs as [? ? ? ? Hop H1 H2|? ? ? ? Hop H1 H2| | |]; subst.
    + destruct op; try discriminate Hop; cbn [expr_ok]; rewrite (IHl rp H1), (IHr rp H2); reflexivity.
    + destruct op; try discriminate Hop; cbn [expr_ok]; rewrite (shape_operand_ok rp l H1), (shape_operand_ok rp r H2); reflexivity.
  - intros op x _ rp Hs. reflexivity.
  - intros op l r _ _ rp Hs. reflexivity.
  - intros l IH rp Hs. inversion Hs as [| | | |? hd l' Hhd HF]; subst. inversion IH as [|? ? _ IHl]; subst.
    assert (G : forallb step_ok l' = true).
    { apply forallb_forall. intros p Hp. rewrite Forall_forall in HF, IHl. apply IHl; [exact Hp|apply HF; exact Hp]. }
    destruct Hhd as [-> | ->]; exact G.
  - intros e IH Hs. inversion Hs as [? Hi|? He]; subst; [discriminate Hi|]. exact (IH false He).
Qed.
Lemma shape_steps_ok l : Forall shape_step l -> forallb step_ok l = true.
Proof. intros H. apply forallb_forall. intros p Hp. rewrite Forall_forall in H. apply (proj2 shape_ok). apply H. exact Hp. Qed.

Theorem shape_path_ok ps : shape_path ps -> path_ok false ps.
Proof.
  intros H. destruct ps as [|p l]; [reflexivity|].
  assert (U : Forall shape_step (p :: l) -> forallb step_ok (p :: l) = true) by apply shape_steps_ok.
  destruct p as [| | | |s|s|s|a|e|e]; try (exact (U H)).
  - exact (shape_steps_ok l H).
  - exfalso. inversion H as [|? ? Hp _]; subst. inversion Hp as [? Hi|]; subst. discriminate Hi.
  - destruct l as [|q l'].
    + exact (proj1 shape_ok e true H).
    + exfalso. change (Forall shape_step (PPredicate e :: q :: l')) in H. inversion H as [|? ? Hp _]; subst.
      inversion Hp as [? Hi|]; subst. discriminate Hi.
Qed.

(* every accepted path satisfies the hypotheses of C08_bytes_never_panics / C08_evaluation_never_panics *)
Theorem parse_path_ok bs ps : parse_json_path bs = Ok ps -> path_ok false ps.
Proof. intros H. apply shape_path_ok. exact (parse_image bs ps H). Qed.

(* ---- the closed statements ---- *)
Section Accepted.
  Variables (bs : list N) (ps : list path).
  Hypothesis Hparse : parse_json_path bs = Ok ps.

  Theorem accepted_find_positions_np root : find_positions root None ps <> Panic.
  Proof. apply find_positions_np. exact (parse_path_ok bs ps Hparse). Qed.
  Theorem accepted_select_t_np root m buf : select_t root ps m buf <> Panic.
  Proof.
    unfold select_t. pose proof (accepted_find_positions_np root) as NP.
    destruct (find_positions root None ps); cbn [bind]; [|discriminate|contradiction]. destruct (is_predicate ps); discriminate.
  Qed.
  Theorem accepted_exists_t_np root : exists_t root ps <> Panic.
  Proof.
    unfold exists_t. destruct (is_predicate ps); [discriminate|]. pose proof (accepted_find_positions_np root) as NP.
    destruct (find_positions root None ps); cbn [bind]; [discriminate|discriminate|contradiction].
  Qed.
  Theorem accepted_predicate_match_t_np root : predicate_match_t root ps <> Panic.
  Proof.
    unfold predicate_match_t. destruct (negb (is_predicate ps)); [discriminate|]. pose proof (accepted_find_positions_np root) as NP.
    destruct (find_positions root None ps); cbn [bind]; [discriminate|discriminate|contradiction].
  Qed.

  (* the selector on the bytes of any well-formed document *)
  Theorem accepted_select_w_np v m buf : wfb v = true -> select_w (enc v) ps m buf <> Panic.
  Proof. intros W. rewrite (select_w_enc v ps m buf W). apply accepted_select_t_np. Qed.
  Theorem accepted_sel_exists_w_np v : wfb v = true -> sel_exists_w (enc v) ps <> Panic.
  Proof. intros W. rewrite (sel_exists_w_enc v ps W). apply accepted_exists_t_np. Qed.
  Theorem accepted_sel_predicate_match_w_np v : wfb v = true -> sel_predicate_match_w (enc v) ps <> Panic.
  Proof. intros W. rewrite (sel_predicate_match_w_enc v ps W). apply accepted_predicate_match_t_np. Qed.

  (* the public functions: the argument t is the encoding of v or a JSON text that reads as v (TextBinProofs.stands_for) *)
  Theorem accepted_get_by_path_np md t v buf : wfb v = true -> TextBinProofs.stands_for t v -> get_by_path_gen_w md t ps buf <> Panic.
  Proof. intros W S. rewrite (TextBinProofs.get_by_path_gen_forms md t v ps buf W S). apply accepted_select_t_np. Qed.
  Theorem accepted_path_exists_np t v : wfb v = true -> TextBinProofs.stands_for t v -> path_exists_w t ps <> Panic.
  Proof. intros W S. rewrite (TextBinProofs.path_exists_forms t v ps W S). apply accepted_exists_t_np. Qed.
  Theorem accepted_path_match_np t v : wfb v = true -> TextBinProofs.stands_for t v -> path_match_w t ps <> Panic.
  Proof. intros W S. rewrite (TextBinProofs.path_match_forms t v ps W S). apply accepted_predicate_match_t_np. Qed.
End Accepted.

(* not vacuous: an accepted text with a filter, && / ||, exists and a nested filter *)
Example accepted_example :
  let text := [36;63;40;64;46;97;32;61;61;32;49;32;38;38;32;64;46;98;32;60;62;32;34;115;34;32;38;38;32;
               101;120;105;115;116;115;40;36;46;99;91;108;97;115;116;32;45;32;49;32;116;111;32;76;65;83;84;93;41;41] in
  exists ps, parse_json_path text = Ok ps /\ path_ok false ps.
Proof. eexists. split; [vm_compute; reflexivity|]. vm_compute. reflexivity. Qed.
