(* SelWalkProofs.v — the offset-faithful selector of SelWalk.v agrees with the tree evaluator of PathSem.v on every
   canonical encoding (C08, C15, C17). *)
From Coq Require Import List NArith ZArith Bool Lia.
Import ListNotations.
From JB Require Import Constants Bytes Utf8 Num NumProofs Value Codec Order OrderProofs CodecProofs RoundtripProofs DispatchProofs
  TreeOps Path PathInd PathSem Dispatch Walk WalkProofs CompareWalk CompareWalkProofs SelWalk.
From JB Require TreeWf ModeProofs EvalProofs I32.
Open Scope N_scope.
Set Default Timeout 120.

(* ---------------------------------------------------------------- outcomes related pointwise *)
Definition res_rel {A B} (R : A -> B -> Prop) (a : res A) (b : res B) : Prop :=
  match a, b with
  | Ok x, Ok y => R x y
  | Err e, Err e' => e = e'
  | Panic, Panic => True
  | _, _ => False
  end.

Lemma res_rel_bind {A B C D} (R : A -> B -> Prop) (S : C -> D -> Prop) a b f g :
  res_rel R a b -> (forall x y, R x y -> res_rel S (f x) (g y)) -> res_rel S (bind a f) (bind b g).
Proof. destruct a, b; cbn [res_rel bind]; intros H K; try contradiction; auto. Qed.

Lemma res_rel_eq {A} (a b : res A) : res_rel eq a b -> a = b.
Proof. destruct a, b; cbn [res_rel]; intros H; try contradiction; congruence. Qed.
Lemma res_rel_refl {A} (a : res A) : res_rel eq a a.
Proof. destruct a; cbn [res_rel]; auto. Qed.

Lemma flat_map_res_rel {A B C D} (R : A -> B -> Prop) (S : C -> D -> Prop) f g l l' :
  Forall2 R l l' -> (forall x y, R x y -> res_rel (Forall2 S) (f x) (g y)) ->
  res_rel (Forall2 S) (flat_map_res f l) (flat_map_res g l').
Proof.
  intros HF K. induction HF as [|x y l l' Hxy HF IH]; cbn [flat_map_res]; [constructor|].
  apply (res_rel_bind (Forall2 S)); [apply K; exact Hxy|]. intros a b Hab.
  apply (res_rel_bind (Forall2 S)); [exact IH|]. intros a2 b2 Hab2. cbn [res_rel]. apply Forall2_app; assumption.
Qed.
Lemma filter_res_rel {A B} (R : A -> B -> Prop) f g l l' :
  Forall2 R l l' -> (forall x y, R x y -> res_rel eq (f x) (g y)) ->
  res_rel (Forall2 R) (filter_res f l) (filter_res g l').
Proof.
  intros HF K. induction HF as [|x y l l' Hxy HF IH]; cbn [filter_res]; [constructor|].
  apply (res_rel_bind eq); [apply K; exact Hxy|]. intros a b <-.
  apply (res_rel_bind (Forall2 R)); [exact IH|]. intros a2 b2 Hab2. cbn [res_rel]. destruct a; [constructor|]; assumption.
Qed.

(* ---------------------------------------------------------------- a position denotes a sub-value *)
(* the offsets of the position delimit exactly the payload of x inside the buffer (and, for a scalar position, the
   type is the entry type of x).  x is well-formed and in the form the decoder yields (normalise x = x). *)
Definition den (bs : list N) (p : position) (x : value) : Prop :=
  wfb x = true /\ normalise x = x /\
  match p with
  | PosC off len => is_container x = true /\ placed bs x off /\ len = lenN (payload x)
  | PosS ty off len => is_container x = false /\ ty = tag_of x /\ placed bs x off /\ len = lenN (payload x)
  end.

Lemma mkpos_den bs x off : wfb x = true -> normalise x = x -> placed bs x off -> den bs (mkpos (word x) off) x.
Proof.
  intros Hw Hn Hp. pose proof (wfb_size x Hw) as Hs. unfold mkpos, den.
  rewrite (word_type x Hs), (word_len x Hs). destruct (tag_tests x) as (_ & _ & _ & _ & _ & Hc). rewrite Hc.
  split; [exact Hw|]. split; [exact Hn|].
  destruct x; cbn [is_container is_scalar negb]; repeat split; auto.
Qed.

(* lists *)
Lemma nth_opt_app_len {A} (d : list A) x t : nth_opt (d ++ x :: t) (length d) = Some x.
Proof. induction d as [|y d IH]; cbn [nth_opt app length]; [reflexivity|exact IH]. Qed.
Lemma firstn_app_len {A} (d t : list A) : firstn (length d) (d ++ t) = d.
Proof. rewrite firstn_app, Nat.sub_diag, firstn_all. cbn [firstn]. apply app_nil_r. Qed.
Lemma map_split {A B} (f : A -> B) : forall dv o x tv, map f o = dv ++ x :: tv ->
  exists d kx t, o = d ++ kx :: t /\ map f d = dv /\ f kx = x /\ map f t = tv.
Proof.
  induction dv as [|y dv IH]; intros o x tv H; destruct o as [|a o]; cbn [map app] in H; try discriminate H.
  - injection H as H1 H2. exists [], a, o. repeat split; assumption.
  - injection H as H1 H2. destruct (IH o x tv H2) as (d & kx & t & E1 & E2 & E3 & E4).
    exists (a :: d), kx, t. repeat split; [rewrite E1; reflexivity|cbn [map]; rewrite H1, E2; reflexivity|exact E3|exact E4].
Qed.
Lemma map_id_Forall {A} (f : A -> A) l : map f l = l -> Forall (fun x => f x = x) l.
Proof. induction l as [|x l IH]; cbn [map]; intros H; [constructor|]. injection H as H1 H2. constructor; auto. Qed.

Definition good (x : value) : Prop := wfb x = true /\ normalise x = x.
Lemma good_arr l : good (VArr l) -> Forall good l /\ lenN l < 536870912 /\ Forall (fun v => wf_size v = true) l.
Proof.
  intros [Hw Hn]. destruct (wf_arr l Hw) as [Ha Hl]. cbn [normalise] in Hn. injection Hn as Hn. apply map_id_Forall in Hn.
  split; [|split; [exact Hl|]].
  - rewrite Forall_forall in *. intros x Hx. split; auto.
  - eapply Forall_impl; [|exact Ha]. intros v. apply wfb_size.
Qed.
Lemma good_obj o : good (VObj o) -> Forall good (vals o) /\ lenN o < 536870912 /\ obj_ok o.
Proof.
  intros [Hw Hn]. destruct (obj_ok_of_wf o Hw) as [Ho Hl]. destruct (wf_obj o Hw) as (Ha & _ & _).
  cbn [normalise] in Hn. injection Hn as Hn. apply map_id_Forall in Hn.
  split; [|split; assumption].
  unfold vals. rewrite Forall_map. rewrite Forall_forall in *. intros kv Hkv. split; [apply (Ha kv Hkv)|].
  specialize (Hn kv Hkv). destruct kv as [k x]. cbn [fst snd] in *. injection Hn as Hn. exact Hn.
Qed.

(* where the elements of an array / the member values of an object live *)
Lemma arr_placed bs l off d x t : placed bs (VArr l) off -> l = d ++ x :: t ->
  placed bs x (off + 4 + 4 * lenN l + sum_len d).
Proof.
  intros Hp El. pose proof (placed_elem bs l off (length d) x Hp) as P.
  rewrite El in P at 1. rewrite nth_opt_app_len in P. specialize (P eq_refl).
  rewrite El in P at 2. rewrite firstn_app_len in P. exact P.
Qed.
Lemma obj_placed bs o off dv x tv : placed bs (VObj o) off -> vals o = dv ++ x :: tv ->
  placed bs x (off + 4 + 8 * lenN o + sum_keys o + sum_len dv).
Proof.
  intros Hp Ev. unfold vals in Ev. destruct (map_split snd dv o x tv Ev) as (d & [k x'] & t & Eo & E1 & E2 & _).
  cbn [snd] in E2. subst x'. rewrite <- E1. apply (placed_val bs o off d k x t Hp Eo).
Qed.

(* the loop that turns value entry words into positions *)
Lemma val_positions_den bs base vs :
  (forall d x t, vs = d ++ x :: t -> placed bs x (base + sum_len d)) -> Forall good vs ->
  forall todo done, vs = done ++ todo -> Forall2 (den bs) (val_positions (map word todo) (base + sum_len done)) todo.
Proof.
  intros Hloc Hg. induction todo as [|x todo IH]; intros done E; cbn [map val_positions]; [constructor|].
  assert (Hx : good x) by (rewrite E in Hg; apply Forall_app in Hg; destruct Hg as [_ Hg]; inversion Hg; assumption).
  destruct Hx as [Hw Hn]. constructor.
  - apply mkpos_den; auto. apply (Hloc done x todo E).
  - rewrite (word_len x (wfb_size x Hw)).
    specialize (IH (done ++ [x])). rewrite sum_len_app in IH. cbn [sum_len fold_right] in IH.
    replace (base + sum_len done + lenN (payload x)) with (base + (sum_len done + (lenN (payload x) + 0))) by lia.
    apply IH. rewrite E, <- app_assoc. reflexivity.
Qed.

(* ---------------------------------------------------------------- reads on a container that sits at `off` *)
Lemma hdr_at_arr bs l off : placed bs (VArr l) off -> lenN l < 536870912 -> hdr_at bs off = Ok (arr_hdr l).
Proof.
  intros Hp Hn. unfold hdr_at. rewrite (rd_hdr_arr bs l off Hp Hn).
  destruct Hp as (A & B & -> & ->). rewrite from_ok_in by reflexivity. reflexivity.
Qed.
Lemma hdr_at_obj bs o off : placed bs (VObj o) off -> lenN o < 536870912 -> hdr_at bs off = Ok (obj_hdr o).
Proof.
  intros Hp Hn. unfold hdr_at. rewrite (rd_hdr_obj bs o off Hp Hn).
  destruct Hp as (A & B & -> & ->). rewrite from_ok_in by reflexivity. reflexivity.
Qed.
Lemma rd_arr_words bs l off : placed bs (VArr l) off -> Forall (fun v => wf_size v = true) l ->
  rd_words_res bs (lenN l) (off + 4) = Ok (map word l).
Proof.
  intros (A & B & -> & ->) Hl. unfold rd_words_res. rewrite payload_arr.
  replace (A ++ (be32 (arr_hdr l) ++ flat_map be32 (map word l) ++ flat_map payload l) ++ B)
    with ((A ++ be32 (arr_hdr l)) ++ flat_map be32 (map word l) ++ (flat_map payload l ++ B)) by (rewrite <- !app_assoc; reflexivity).
  pose proof (rd_words_words (A ++ be32 (arr_hdr l)) (map word l) (flat_map payload l ++ B) (words_of_values_ok l Hl)
                (map word l) [] [] ltac:(rewrite app_nil_r; reflexivity)) as R.
  rewrite lenN_nil, N.mul_0_r, N.add_0_r, N.add_0_l, lenN_map, lenN_app, lenN_be32 in R.
  rewrite R; [reflexivity|]. rewrite !app_length, length_flat_words, !map_length. lia.
Qed.
Lemma rd_vws bs o off : placed bs (VObj o) off -> obj_ok o ->
  rd_words_res bs (lenN o) (off + 4 + 4 * lenN o) = Ok (vws o).
Proof.
  intros (A & B & -> & ->) Ho. unfold rd_words_res. rewrite obj_regroup.
  pose proof (rd_words_words (A ++ be32 (obj_hdr o)) (kws o ++ vws o) (keys_bytes o ++ flat_map payload (vals o) ++ B)
                (obj_words_ok o Ho) (vws o) (kws o) [] ltac:(rewrite app_nil_r; reflexivity)) as R.
  (* rd_words_words counts from |done|; the selector counts from 0: shift the counter *)
  assert (Shift : forall fuel bs i len joff k, rd_words fuel bs (i + k) (len + k) joff = rd_words fuel bs i len joff).
  { induction fuel as [|f IH]; intros bs0 i len joff k; cbn [rd_words]; [reflexivity|].
    replace (i + k <? len + k) with (i <? len) by (destruct (i <? len) eqn:E1, (i + k <? len + k) eqn:E2; try reflexivity;
      [apply N.ltb_lt in E1; apply N.ltb_ge in E2; lia|apply N.ltb_ge in E1; apply N.ltb_lt in E2; lia]).
    destruct (i <? len); [|reflexivity]. destruct (read_u32 bs0 joff); [|reflexivity].
    replace (i + k + 1) with (i + 1 + k) by lia. rewrite IH. reflexivity. }
  rewrite len_kws, len_vws, lenN_app, lenN_be32 in R.
  specialize (Shift (S (length ((A ++ be32 (obj_hdr o)) ++ flat_map be32 (kws o ++ vws o) ++ keys_bytes o ++ flat_map payload (vals o) ++ B)))
                ((A ++ be32 (obj_hdr o)) ++ flat_map be32 (kws o ++ vws o) ++ keys_bytes o ++ flat_map payload (vals o) ++ B)
                0 (lenN o) (lenN A + 4 + 4 * lenN o) (lenN o)).
  rewrite N.add_0_l in Shift. rewrite <- Shift, R; [reflexivity|].
  rewrite !app_length, length_flat_words, !app_length. unfold kws, vws. rewrite !map_length. lia.
Qed.

Lemma len_pos_nonempty {A} (l : list A) : (lenN l =? 0) = match l with [] => true | _ => false end.
Proof. destruct l; [reflexivity|]. rewrite lenN_cons. apply N.eqb_neq. lia. Qed.

(* ---------------------------------------------------------------- the step selectors on a denoting container position *)
Lemma select_array_values_den bs off len x : den bs (PosC off len) x ->
  res_rel (Forall2 (den bs)) (select_array_values_w bs off len) (Ok (match x with VArr l => l | _ => [x] end)).
Proof.
  intros D. pose proof D as (Hw & Hn & Hc & Hp & Hlen). unfold select_array_values_w, SAV_OFF.
  destruct x as [| | | |l|o]; try discriminate Hc.
  - destruct (good_arr l (conj Hw Hn)) as (Hg & Hl & Hs).
    rewrite (hdr_at_arr bs l off Hp Hl). cbn [bind]. destruct (arr_hdr_facts l Hl) as (_ & -> & ->).
    rewrite N.eqb_refl. cbn [negb]. rewrite (rd_arr_words bs l off Hp Hs). cbn [bind res_rel].
    pose proof (val_positions_den bs (off + 4 + lenN l * 4) l) as V.
    specialize (V ltac:(intros d x t E; replace (off + 4 + lenN l * 4) with (off + 4 + 4 * lenN l) by lia; apply (arr_placed bs l off d x t Hp E)) Hg l [] eq_refl).
    cbn [sum_len fold_right] in V. rewrite N.add_0_r in V. exact V.
  - destruct (good_obj o (conj Hw Hn)) as (Hg & Hl & Ho).
    rewrite (hdr_at_obj bs o off Hp Hl). cbn [bind]. destruct (obj_hdr_facts o Hl) as (_ & -> & _).
    change (OBJECT_CONTAINER_TAG =? ARRAY_CONTAINER_TAG) with false. cbn [negb res_rel]. constructor; [exact D|constructor].
Qed.

Lemma select_object_values_den bs off len x : den bs (PosC off len) x ->
  res_rel (Forall2 (den bs)) (select_object_values_w bs off) (Ok (match x with VObj o => map snd o | _ => [] end)).
Proof.
  intros D. pose proof D as (Hw & Hn & Hc & Hp & Hlen). unfold select_object_values_w, SOV_OFF.
  destruct x as [| | | |l|o]; try discriminate Hc.
  - destruct (good_arr l (conj Hw Hn)) as (Hg & Hl & Hs).
    rewrite (hdr_at_arr bs l off Hp Hl). cbn [bind]. destruct (arr_hdr_facts l Hl) as (_ & -> & _).
    change (ARRAY_CONTAINER_TAG =? OBJECT_CONTAINER_TAG) with false. cbn [negb orb res_rel]. constructor.
  - destruct (good_obj o (conj Hw Hn)) as (Hg & Hl & Ho).
    rewrite (hdr_at_obj bs o off Hp Hl). cbn [bind]. destruct (obj_hdr_facts o Hl) as (_ & -> & ->).
    rewrite N.eqb_refl. cbn [negb orb]. rewrite len_pos_nonempty.
    destruct o as [|kv0 o0]; [cbn [res_rel map]; constructor|]. set (o := kv0 :: o0) in *.
    rewrite (rd_kws bs o off Hp Ho). cbn [bind]. rewrite (rd_vws bs o off Hp Ho). cbn [bind res_rel].
    rewrite (sum_je_len_kws o Ho).
    pose proof (val_positions_den bs (off + 4 + lenN o * 8 + sum_keys o) (vals o)) as V.
    specialize (V ltac:(intros d x t E; replace (off + 4 + lenN o * 8) with (off + 4 + 8 * lenN o) by lia; apply (obj_placed bs o off d x t Hp E)) Hg (vals o) [] eq_refl).
    cbn [sum_len fold_right] in V. rewrite N.add_0_r in V. unfold vals in V. rewrite map_map in V. exact V.
Qed.

(* ---------------------------------------------------------------- member by name *)
Fixpoint find_idx (name : list N) (o : list (list N * value)) (i : N) : option N :=
  match o with [] => None | (k, _) :: r => if bytes_eqb name k then Some i else find_idx name r (i + 1) end.
Lemma find_idx_ge name : forall o i j, find_idx name o i = Some j -> i <= j.
Proof.
  induction o as [|[k x] o IH]; intros i j H; cbn [find_idx] in H; [discriminate H|].
  destruct (bytes_eqb name k); [injection H as <-; lia|]. specialize (IH _ _ H). lia.
Qed.
Lemma bytes_eqb_len a b : bytes_eqb a b = true -> lenN a = lenN b.
Proof. rewrite bytes_eqb_cmp. destruct (bytes_cmp a b) eqn:E; try discriminate. apply bytes_cmp_eq in E. subst b. reflexivity. Qed.

Lemma name_scan_found bs name : forall kws i off j, name_scan bs name kws i off (Some j) = Ok (off + sum_je_len kws, Some j).
Proof.
  induction kws as [|kw kws IH]; intros i off j; cbn [name_scan sum_je_len fold_right]; [rewrite N.add_0_r; reflexivity|].
  rewrite orb_true_r. rewrite IH. fold (sum_je_len kws). f_equal. f_equal. lia.
Qed.
Lemma obj_ok_app a b : obj_ok (a ++ b) -> obj_ok a /\ obj_ok b.
Proof. unfold obj_ok. apply Forall_app. Qed.

Lemma name_scan_obj bs o off name : placed bs (VObj o) off -> obj_ok o ->
  forall todo done, o = done ++ todo ->
  name_scan bs name (kws todo) (lenN done) (off + 4 + 8 * lenN o + sum_keys done) None
  = Ok (off + 4 + 8 * lenN o + sum_keys o, find_idx name todo (lenN done)).
Proof.
  intros Hp Ho. induction todo as [|[k x] todo IH]; intros done Eo; cbn [kws map name_scan find_idx].
  - rewrite app_nil_r in Eo. subst done. reflexivity.
  - fold (kws todo). cbn [fst].
    assert (Ho2 : obj_ok ((k, x) :: todo)) by (rewrite Eo in Ho; apply obj_ok_app in Ho; apply Ho).
    assert (Hk : lenN k < 268435456) by (inversion Ho2 as [|? ? [_ Hk] _]; exact Hk).
    assert (Ho3 : obj_ok todo) by (inversion Ho2; assumption).
    rewrite (key_word_len k Hk).
    assert (Next : name_scan bs name (kws todo) (lenN done + 1) (off + 4 + 8 * lenN o + sum_keys done + lenN k) None
                   = Ok (off + 4 + 8 * lenN o + sum_keys o, find_idx name todo (lenN done + 1))).
    { specialize (IH (done ++ [(k, x)])). rewrite lenN_app, lenN_cons, lenN_nil, sum_keys_app in IH.
      cbn [sum_keys fold_right fst] in IH.
      replace (lenN done + (1 + 0)) with (lenN done + 1) in IH by lia.
      replace (off + 4 + 8 * lenN o + (sum_keys done + (lenN k + 0))) with (off + 4 + 8 * lenN o + sum_keys done + lenN k) in IH by lia.
      apply IH. rewrite Eo, <- app_assoc. reflexivity. }
    destruct (lenN name =? lenN k) eqn:EL; cbn [negb orb].
    + destruct (placed_key bs o off done k x todo Hp Eo) as (A' & B' & Eb & LA).
      assert (F : from_ok bs (off + 4 + 8 * lenN o + sum_keys done) = Ok tt) by (rewrite Eb; apply from_ok_in; rewrite LA; reflexivity).
      assert (S1 : slice bs (off + 4 + 8 * lenN o + sum_keys done) (lenN k) = Some k)
        by (rewrite Eb; apply slice_mid'; [rewrite LA; reflexivity|reflexivity]).
      rewrite F, S1. cbn [bind]. destruct (bytes_eqb name k); [|exact Next].
      rewrite name_scan_found. rewrite (sum_je_len_kws todo Ho3). f_equal. f_equal.
      rewrite Eo, sum_keys_app. cbn [sum_keys fold_right fst]. fold (sum_keys todo). lia.
    + assert (Hne : bytes_eqb name k = false).
      { destruct (bytes_eqb name k) eqn:E; [|reflexivity]. apply bytes_eqb_len in E. apply N.eqb_neq in EL. contradiction. }
      rewrite Hne. exact Next.
Qed.

Lemma pick_val_obj bs o base name :
  (forall d k x t, o = d ++ (k, x) :: t -> placed bs x (base + sum_len (vals d))) -> Forall good (vals o) ->
  forall todo done, o = done ++ todo ->
  match find_idx name todo (lenN done) with
  | Some idx => exists x, assoc_lookup name todo = Some x /\
                  Forall2 (den bs) (pick_val (vws todo) (lenN done) idx (base + sum_len (vals done))) [x]
  | None => assoc_lookup name todo = None
  end.
Proof.
  intros Hloc Hg. induction todo as [|[k y] todo IH]; intros done Eo; cbn [find_idx assoc_lookup vws map pick_val]; [reflexivity|].
  fold (vws todo). cbn [snd].
  assert (Hy : good y).
  { rewrite Eo in Hg. unfold vals in Hg. rewrite map_app in Hg. apply Forall_app in Hg. destruct Hg as [_ Hg]. inversion Hg; assumption. }
  destruct (bytes_eqb name k).
  - exists y. split; [reflexivity|]. rewrite N.eqb_refl. constructor; [|constructor].
    destruct Hy as [Hw Hn]. apply mkpos_den; auto. apply (Hloc done k y todo Eo).
  - specialize (IH (done ++ [(k, y)])). rewrite lenN_app, lenN_cons, lenN_nil in IH.
    replace (lenN done + (1 + 0)) with (lenN done + 1) in IH by lia.
    specialize (IH ltac:(rewrite Eo, <- app_assoc; reflexivity)).
    destruct (find_idx name todo (lenN done + 1)) as [idx|] eqn:F; [|exact IH].
    destruct IH as (x & Hx & HF). exists x. split; [exact Hx|].
    pose proof (find_idx_ge name todo _ _ F) as G.
    assert (E : (lenN done =? idx) = false) by (apply N.eqb_neq; lia). rewrite E.
    destruct Hy as [Hw Hn]. rewrite (word_len y (wfb_size y Hw)).
    unfold vals in HF. rewrite map_app, sum_len_app in HF. cbn [map snd sum_len fold_right] in HF. fold (vals done) in HF.
    replace (base + sum_len (vals done) + lenN (payload y)) with (base + (sum_len (vals done) + (lenN (payload y) + 0))) by lia.
    exact HF.
Qed.

Lemma select_by_name_den bs off len x name : den bs (PosC off len) x ->
  res_rel (Forall2 (den bs)) (select_by_name_w bs off name)
          (Ok (match x with VObj o => match assoc_lookup name o with Some y => [y] | None => [] end | _ => [] end)).
Proof.
  intros D. pose proof D as (Hw & Hn & Hc & Hp & Hlen). unfold select_by_name_w, SBN_OFF.
  destruct x as [| | | |l|o]; try discriminate Hc.
  - destruct (good_arr l (conj Hw Hn)) as (Hg & Hl & Hs).
    rewrite (hdr_at_arr bs l off Hp Hl). cbn [bind]. destruct (arr_hdr_facts l Hl) as (_ & -> & _).
    change (ARRAY_CONTAINER_TAG =? OBJECT_CONTAINER_TAG) with false. cbn [negb orb res_rel]. constructor.
  - destruct (good_obj o (conj Hw Hn)) as (Hg & Hl & Ho).
    rewrite (hdr_at_obj bs o off Hp Hl). cbn [bind]. destruct (obj_hdr_facts o Hl) as (_ & -> & ->).
    rewrite N.eqb_refl. cbn [negb orb]. rewrite len_pos_nonempty.
    destruct o as [|kv0 o0]; [cbn [res_rel assoc_lookup]; constructor|]. set (o := kv0 :: o0) in *.
    rewrite (rd_kws bs o off Hp Ho). cbn [bind]. rewrite (rd_vws bs o off Hp Ho). cbn [bind].
    pose proof (name_scan_obj bs o off name Hp Ho o [] eq_refl) as S. cbn [sum_keys fold_right] in S.
    rewrite lenN_nil, N.add_0_r in S. replace (off + 4 + lenN o * 8) with (off + 4 + 8 * lenN o) by lia.
    rewrite S. cbn [bind].
    pose proof (pick_val_obj bs o (off + 4 + 8 * lenN o + sum_keys o) name
                  (fun d k y t E => placed_val bs o off d k y t Hp E) Hg o [] eq_refl) as P.
    cbn [vals map sum_len fold_right] in P. rewrite lenN_nil, N.add_0_r in P.
    destruct (find_idx name o 0) as [idx|].
    + destruct P as (y & -> & HF). cbn [res_rel]. exact HF.
    + rewrite P. cbn [res_rel]. constructor.
Qed.

(* ---------------------------------------------------------------- elements by index *)
Lemma offsets_nth : forall (l : list value), Forall (fun v => wf_size v = true) l -> forall k base x, nth_opt l k = Some x ->
  nth_opt (offsets_of (map word l) base) k = Some (base + sum_len (firstn k l)) /\ nth_opt (map word l) k = Some (word x).
Proof.
  induction l as [|y l IH]; intros Hl k base x H; [destruct k; discriminate H|].
  inversion Hl as [|? ? Hy Hl']; subst. destruct k as [|k]; cbn [nth_opt map offsets_of firstn sum_len fold_right] in *.
  - injection H as <-. rewrite N.add_0_r. split; reflexivity.
  - destruct (IH Hl' k (base + je_len (word y)) x H) as [E1 E2]. rewrite E1, E2. split; [|reflexivity].
    rewrite (word_len y Hy). fold (sum_len (firstn k l)). f_equal. lia.
Qed.
Lemma nth_opt_lt {A} : forall (l : list A) k, (k < length l)%nat -> exists x, nth_opt l k = Some x.
Proof.
  induction l as [|y l IH]; intros k H; cbn [length] in H; [lia|]. destruct k as [|k]; cbn [nth_opt]; [exists y; reflexivity|].
  apply IH. lia.
Qed.

Lemma pick_indices_den bs l base : (forall d x t, l = d ++ x :: t -> placed bs x (base + sum_len d)) -> Forall good l ->
  forall idxs, Forall (fun k => (k < length l)%nat) idxs ->
  res_rel (Forall2 (den bs)) (pick_indices (map word l) (offsets_of (map word l) base) idxs)
          (Ok (flat_map (fun k => match nth_opt l k with Some x => [x] | None => [] end) idxs)).
Proof.
  intros Hloc Hg.
  assert (Hs : Forall (fun v => wf_size v = true) l) by (eapply Forall_impl; [|exact Hg]; intros v [Hv _]; apply wfb_size; exact Hv).
  induction idxs as [|k idxs IH]; intros Hk; cbn [pick_indices flat_map]; [constructor|].
  inversion Hk as [|? ? Hk1 Hk2]; subst. destruct (nth_opt_lt l k Hk1) as (x & Ex).
  destruct (offsets_nth l Hs k base x Ex) as [E1 E2]. rewrite E1, E2, Ex.
  specialize (IH Hk2). destruct (pick_indices (map word l) (offsets_of (map word l) base) idxs) as [rest| |]; cbn [res_rel bind] in *; try contradiction; try exact IH.
  constructor; [|exact IH].
  destruct (nth_opt_split l k x Ex) as (pre & post & El & _ & Ef). rewrite Ef.
  assert (Hx : good x) by (rewrite El in Hg; apply Forall_app in Hg; destruct Hg as [_ Hg]; inversion Hg; assumption).
  destruct Hx as [Hw Hn]. apply mkpos_den; auto. apply (Hloc pre x post El).
Qed.

Lemma range_from_bounds : forall c a k, In k (range_from a c) -> (a <= k < a + c)%nat.
Proof.
  induction c as [|c IH]; intros a k H; cbn [range_from In] in H; [contradiction|].
  destruct H as [<-|H]; [lia|]. specialize (IH _ _ H). lia.
Qed.
Lemma index_positions_lt len a k : (0 < len)%Z -> In k (index_positions len a) -> (Z.of_nat k < len)%Z.
Proof.
  intros Hlen. destruct a as [i|s e]; cbn [index_positions].
  - (* the generated guard of convert_index *)
    destruct (CI_INRANGE (resolve_index i len) len) eqn:E; [|intros []].
    apply I32.CI_INRANGE_in_bounds in E. intros [<-|[]]. lia.
  - (* the generated guard and clamping of convert_slice *)
    destruct (CS_EMPTY (resolve_start s len) (resolve_end e len) len) eqn:E; [intros []|].
    pose proof (I32.CS_in_bounds _ _ _ Hlen E) as B.
    intros H. apply range_from_bounds in H. lia.
Qed.
Lemma index_empty len a : index_nonempty len a = false -> index_positions len a = [].
Proof.
  destruct a as [i|s e]; cbn [index_nonempty index_positions]; intros H; [rewrite H; reflexivity|].
  apply negb_false_iff in H. rewrite H. reflexivity.
Qed.
Lemma indices_empty len ixs : existsb (index_nonempty len) ixs = false -> flat_map (index_positions len) ixs = [].
Proof.
  induction ixs as [|a ixs IH]; cbn [existsb flat_map]; intros H; [reflexivity|].
  apply orb_false_iff in H. destruct H as [H1 H2]. rewrite (index_empty len a H1), (IH H2). reflexivity.
Qed.
Lemma lenZ_lenN {A} (l : list A) : Z.of_N (lenN l) = lenZ l.
Proof. unfold lenZ, lenN. apply nat_N_Z. Qed.

Lemma select_by_indices_den bs off len x ixs : den bs (PosC off len) x ->
  res_rel (Forall2 (den bs)) (select_by_indices_w bs off ixs)
          (Ok (match x with VArr l => select_indices l ixs | _ => [] end)).
Proof.
  intros D. pose proof D as (Hw & Hn & Hc & Hp & Hlen). unfold select_by_indices_w, SBI_OFF.
  destruct x as [| | | |l|o]; try discriminate Hc.
  - destruct (good_arr l (conj Hw Hn)) as (Hg & Hl & Hs).
    rewrite (hdr_at_arr bs l off Hp Hl). cbn [bind]. destruct (arr_hdr_facts l Hl) as (_ & -> & ->).
    rewrite N.eqb_refl. cbn [negb orb]. rewrite len_pos_nonempty.
    destruct l as [|y0 l0]; [cbn [res_rel select_indices]; constructor|]. set (l := y0 :: l0) in *.
    rewrite lenZ_lenN. unfold select_indices. change (match l with [] => [] | _ :: _ => ?a end) with a.
    destruct (existsb (index_nonempty (lenZ l)) ixs) eqn:EX; cbn [negb].
    2:{ rewrite (indices_empty _ _ EX). cbn [flat_map res_rel]. constructor. }
    rewrite (rd_arr_words bs l off Hp Hs). cbn [bind].
    apply (pick_indices_den bs l (off + 4 + lenN l * 4)); [|exact Hg|].
    + intros d x t E. replace (off + 4 + lenN l * 4) with (off + 4 + 4 * lenN l) by lia. apply (arr_placed bs l off d x t Hp E).
    + apply Forall_forall. intros k Hk. apply in_flat_map in Hk. destruct Hk as (a & _ & Hk).
      apply index_positions_lt in Hk; [unfold lenZ in Hk; lia|]. unfold lenZ, l. cbn [length]. lia.
  - destruct (good_obj o (conj Hw Hn)) as (Hg & Hl & Ho).
    rewrite (hdr_at_obj bs o off Hp Hl). cbn [bind]. destruct (obj_hdr_facts o Hl) as (_ & -> & _).
    change (OBJECT_CONTAINER_TAG =? ARRAY_CONTAINER_TAG) with false. cbn [negb orb res_rel]. constructor.
Qed.

(* ---------------------------------------------------------------- one step on one position = select_step on the value *)
Theorem step_pos_den bs p pos x : den bs pos x ->
  res_rel (Forall2 (den bs)) (step_pos_w bs p pos) (select_step p x).
Proof.
  intros D. pose proof D as (Hw & Hn & Hm). unfold step_pos_w, select_step. destruct pos as [off len|ty off len].
  - destruct Hm as (Hc & _). rewrite Hc. unfold select_path_w.
    destruct p as [| | | |n|n|n|ixs|e|e]; try exact I.
    + apply (select_object_values_den bs off len x D).
    + apply (select_array_values_den bs off len x D).
    + apply (select_by_name_den bs off len x n D).
    + apply (select_by_name_den bs off len x n D).
    + apply (select_by_name_den bs off len x n D).
    + apply (select_by_indices_den bs off len x ixs D).
  - destruct Hm as (Hc & _). rewrite Hc.
    destruct p; cbn [res_rel]; try constructor; try exact D; constructor.
Qed.

(* ---------------------------------------------------------------- the result writers (C15 / C17) *)
Lemma placed_slice bs x off : placed bs x off -> slice_p bs off (lenN (payload x)) = Ok (payload x).
Proof. intros (A & B & -> & ->). apply slice_p_in; reflexivity. Qed.

Lemma scalar_entry_word x : wf_size x = true -> N.lor (tag_of x) (u32 (lenN (payload x))) = word x.
Proof. intros H. rewrite (word_eq x H). rewrite u32_small; [reflexivity|]. pose proof (payload_small x H). lia. Qed.

Lemma empty_payload (p : list N) : (0 <? lenN p) = false -> p = [].
Proof. intros E. apply N.ltb_ge in E. destruct p; [reflexivity|rewrite lenN_cons in E; lia]. Qed.

(* build_values copies out the complete document of every denoted item and pushes the running ends *)
Theorem build_values_w_den bs poses items : Forall2 (den bs) poses items ->
  forall data offs, build_values_w bs poses data offs = Ok (build_values data items offs).
Proof.
  induction 1 as [|pos x poses items D HF IH]; intros data offs; cbn [build_values_w build_values]; [reflexivity|].
  destruct D as (Hw & Hn & Hm). pose proof (wfb_size x Hw) as Hs. destruct pos as [off len|ty off len].
  - destruct Hm as (Hc & Hp & ->). rewrite (placed_slice bs x off Hp). cbn [bind].
    rewrite <- (container_doc x Hc). apply IH.
  - destruct Hm as (Hc & -> & Hp & ->). rewrite (scalar_entry_word x Hs).
    assert (E : (if 0 <? lenN (payload x)
                 then do p <- slice_p bs off (lenN (payload x)); Ok ((data ++ be32 SCALAR_CONTAINER_TAG ++ be32 (word x)) ++ p)
                 else Ok (data ++ be32 SCALAR_CONTAINER_TAG ++ be32 (word x))) = Ok (data ++ enc x)).
    { rewrite (scalar_doc x Hc). destruct (0 <? lenN (payload x)) eqn:E0.
      - rewrite (placed_slice bs x off Hp). cbn [bind]. rewrite <- !app_assoc. reflexivity.
      - rewrite (empty_payload _ E0), app_nil_r. reflexivity. }
    rewrite E. cbn [bind]. apply IH.
Qed.

(* the loop of build_scalar_array: entry slots patched one by one, payloads appended behind *)
Lemma array_loop_w_den bs poses items : Forall2 (den bs) poses items ->
  forall pre dw dp,
    array_loop_w bs poses (pre ++ dw ++ repeat 0 (4 * length poses) ++ dp) (length (pre ++ dw))
    = Ok (pre ++ dw ++ flat_map be32 (map word items) ++ dp ++ flat_map payload items).
Proof.
  induction 1 as [|pos x poses items D HF IH]; intros pre dw dp.
  - cbn [array_loop_w length repeat map flat_map app]. rewrite Nat.mul_0_r. cbn [repeat app]. rewrite app_nil_r. reflexivity.
  - destruct D as (Hw & Hn & Hm). pose proof (wfb_size x Hw) as Hs. cbn [array_loop_w]. change (N.to_nat BSA_JSTEP) with 4%nat.
    assert (E : match pos with
                | PosC off len => do p <- slice_p bs off len; Ok ((pre ++ dw ++ repeat 0 (4 * length (pos :: poses)) ++ dp) ++ p, N.lor CONTAINER_TAG (u32 len))
                | PosS ty off len => do p <- (if 0 <? len then slice_p bs off len else Ok []); Ok ((pre ++ dw ++ repeat 0 (4 * length (pos :: poses)) ++ dp) ++ p, N.lor ty (u32 len))
                end = Ok ((pre ++ dw ++ repeat 0 (4 * length (pos :: poses)) ++ dp) ++ payload x, word x)).
    { destruct pos as [off len|ty off len].
      - destruct Hm as (Hc & Hp & ->). rewrite (placed_slice bs x off Hp). cbn [bind].
        replace CONTAINER_TAG with (tag_of x) by (destruct x; try discriminate Hc; reflexivity).
        rewrite (scalar_entry_word x Hs). reflexivity.
      - destruct Hm as (Hc & -> & Hp & ->). rewrite (scalar_entry_word x Hs).
        assert (E : (if 0 <? lenN (payload x) then slice_p bs off (lenN (payload x)) else Ok []) = Ok (payload x)).
        { destruct (0 <? lenN (payload x)) eqn:E0; [apply (placed_slice bs x off Hp)|rewrite (empty_payload _ E0); reflexivity]. }
        rewrite E. reflexivity. }
    rewrite E. cbn [bind]. clear E.
    replace (4 * length (pos :: poses))%nat with (4 + 4 * length poses)%nat by (cbn [length]; lia).
    rewrite repeat_app.
    replace ((pre ++ dw ++ (repeat 0 4 ++ repeat 0 (4 * length poses)) ++ dp) ++ payload x)
      with ((pre ++ dw) ++ repeat 0 4 ++ (repeat 0 (4 * length poses) ++ dp ++ payload x))
      by (repeat rewrite <- app_assoc; reflexivity).
    rewrite patch_app by reflexivity.
    specialize (IH pre (dw ++ be32 (word x)) (dp ++ payload x)).
    replace ((pre ++ dw) ++ be32 (word x) ++ repeat 0 (4 * length poses) ++ dp ++ payload x)
      with (pre ++ (dw ++ be32 (word x)) ++ repeat 0 (4 * length poses) ++ dp ++ payload x)
      by (repeat rewrite <- app_assoc; reflexivity).
    replace (length (pre ++ dw) + 4)%nat with (length (pre ++ dw ++ be32 (word x)))
      by (rewrite !app_length, be32_len; lia).
    rewrite IH. cbn [map flat_map]. repeat rewrite <- app_assoc. reflexivity.
Qed.
Lemma Forall2_lenN {A B} (R : A -> B -> Prop) l l' : Forall2 R l l' -> lenN l = lenN l'.
Proof. induction 1 as [|x y l l' _ _ IH]; [reflexivity|]. rewrite !lenN_cons, IH. reflexivity. Qed.

(* build_scalar_array writes exactly the encoding of the array of the denoted items *)
Theorem build_scalar_array_w_den bs poses items : Forall2 (den bs) poses items ->
  forall data, build_scalar_array_w bs poses data = Ok (build_array_items data items).
Proof.
  intros HF data. unfold build_scalar_array_w, build_array_items.
  match goal with |- context [repeat 0 (?n - ?j)] =>
    replace (n - j)%nat with (4 * length poses)%nat by (unfold BSA_RESERVE, lenN; lia) end.
  pose proof (array_loop_w_den bs poses items HF (data ++ be32 (N.lor ARRAY_CONTAINER_TAG (u32 (lenN poses)))) [] []) as L.
  cbn [app] in L. rewrite !app_nil_r in L. rewrite L. cbn [bind].
  change (enc (VArr items)) with (payload (VArr items)). rewrite payload_arr. unfold arr_hdr, header_word.
  rewrite (Forall2_lenN _ _ _ HF), <- !app_assoc. reflexivity.
Qed.

(* ---------------------------------------------------------------- the frontier walks *)
Section WalkRel.
  Variable bs : list N.
  Variable few : position -> expr -> res bool.
  Variable fet : value -> expr -> res bool.

  Lemma walk_rel : forall ps fr frv,
    steps_all (fun e => forall pos x, den bs pos x -> res_rel eq (few pos e) (fet x e)) ps ->
    Forall2 (den bs) fr frv ->
    res_rel (Forall2 (den bs)) (walk_w bs few ps fr) (walk fet ps frv).
  Proof.
    induction ps as [|p ps IH]; intros fr frv Hfe HF; cbn [walk_w walk]; [exact HF|].
    apply steps_all_cons in Hfe. destruct Hfe as [Hp Hfe].
    assert (Step : res_rel (Forall2 (den bs)) (do fr' <- flat_map_res (step_pos_w bs p) fr; walk_w bs few ps fr')
                                               (do fr' <- flat_map_res (select_step p) frv; walk fet ps fr')).
    { apply (res_rel_bind (Forall2 (den bs))); [|intros a b Hab; apply IH; [exact Hfe|exact Hab]].
      apply (flat_map_res_rel (den bs)); [exact HF|]. intros pos x D. apply step_pos_den. exact D. }
    assert (Filt : forall e, In e (step_exprs p) ->
                     res_rel (Forall2 (den bs)) (do fr' <- filter_res (fun pos => few pos e) fr; walk_w bs few ps fr')
                                                (do fr' <- filter_res (fun pos => fet pos e) frv; walk fet ps fr')).
    { intros e He. apply (res_rel_bind (Forall2 (den bs))); [|intros a b Hab; apply IH; [exact Hfe|exact Hab]].
      apply (filter_res_rel (den bs)); [exact HF|]. intros pos x D. apply (Hp e He). exact D. }
    destruct p; try exact Step; try (apply Filt; left; reflexivity); apply IH; assumption.
  Qed.
End WalkRel.

Lemma walk_operand_rel bs : forall ps fr frv, Forall2 (den bs) fr frv ->
  res_rel (Forall2 (den bs)) (walk_operand_w bs ps fr) (walk_operand ps frv).
Proof.
  induction ps as [|p ps IH]; intros fr frv HF; cbn [walk_operand_w walk_operand]; [exact HF|].
  assert (Step : res_rel (Forall2 (den bs)) (do fr' <- flat_map_res (step_pos_w bs p) fr; walk_operand_w bs ps fr')
                                             (do fr' <- flat_map_res (select_step p) frv; walk_operand ps fr')).
  { apply (res_rel_bind (Forall2 (den bs))); [|intros a b Hab; apply IH; exact Hab].
    apply (flat_map_res_rel (den bs)); [exact HF|]. intros pos x D. apply step_pos_den. exact D. }
  destruct p; try exact Step; exact I.
Qed.

(* convert_expr_val: the payload of a scalar position read back as a PathValue *)
Lemma pvalues_of_den bs fr items : Forall2 (den bs) fr items ->
  pvalues_of bs fr = Ok (flat_map (fun x => match scalar_pvalue x with Some v => [v] | None => [] end) items).
Proof.
  induction 1 as [|pos x fr items D HF IH]; cbn [pvalues_of flat_map]; [reflexivity|].
  destruct D as (Hw & Hn & Hm). destruct pos as [off len|ty off len].
  - destruct Hm as (Hc & _). rewrite IH. destruct x; try discriminate Hc; reflexivity.
  - destruct Hm as (Hc & -> & Hp & ->). destruct (tag_tests x) as (T1 & T2 & T3 & T4 & T5 & _).
    rewrite T1, T2, T3, T4, T5, IH. pose proof (placed_slice bs x off Hp) as S.
    destruct x as [|[]|s|n|l|o]; try discriminate Hc; try reflexivity.
    + rewrite S. reflexivity.
    + rewrite S. cbn [bind]. change (payload (VNum n)) with (compact_encode n).
      assert (R : num_in_range n = true) by (unfold wfb in Hw; apply andb_true_iff in Hw; apply Hw).
      rewrite (num_roundtrip n R). cbn [normalise] in Hn. injection Hn as Hn. rewrite Hn. reflexivity.
Qed.

(* root_position on a canonical encoding denotes the document *)
Lemma root_position_den root : good root -> den (enc root) (root_position_w (enc root)) root.
Proof.
  intros [Hw Hn]. pose proof (wfb_size root Hw) as Hs. unfold root_position_w. destruct (is_container root) eqn:Hc.
  - assert (R : exists h, read_u32 (enc root) 0 = Some h /\ (hdr_type h =? SCALAR_CONTAINER_TAG) = false).
    { rewrite (container_doc root Hc). change 0 with (lenN (@nil N)). replace (payload root) with ([] ++ payload root ++ []) by (rewrite app_nil_r; reflexivity).
      destruct root as [| | | |l|o]; try discriminate Hc.
      - destruct (wf_arr l Hw) as [_ Hl]. exists (arr_hdr l). rewrite (read_hdr_arr [] l [] Hl). destruct (arr_hdr_facts l Hl) as (_ & -> & _). split; reflexivity.
      - destruct (wf_obj o Hw) as (_ & Hl & _). exists (obj_hdr o). rewrite (read_hdr_obj [] o [] Hl). destruct (obj_hdr_facts o Hl) as (_ & -> & _). split; reflexivity. }
    destruct R as (h & -> & ->). split; [exact Hw|]. split; [exact Hn|]. split; [exact Hc|]. split; [apply placed_container_doc; exact Hc|].
    rewrite (container_doc root Hc). reflexivity.
  - rewrite (scalar_hdr root Hc). change (hdr_type SCALAR_CONTAINER_TAG =? SCALAR_CONTAINER_TAG) with true. cbv iota.
    assert (R : read_u32 (enc root) 4 = Some (word root)).
    { rewrite (scalar_doc root Hc). change 4 with (lenN (be32 SCALAR_CONTAINER_TAG)). apply read_u32_mid. apply word_bound. exact Hs. }
    rewrite R, (word_type root Hs), (word_len root Hs). destruct (tag_tests root) as (_ & _ & _ & _ & _ & T). rewrite T.
    assert (Ec : match root with VArr _ | VObj _ => true | _ => false end = false) by (destruct root; try discriminate Hc; reflexivity).
    rewrite Ec. cbn [negb]. split; [exact Hw|]. split; [exact Hn|]. split; [exact Hc|]. split; [reflexivity|]. split; [apply placed_scalar_doc; exact Hc|reflexivity].
Qed.

Section OnRoot.
  Variable root : value.
  Hypothesis Hroot : good root.
  Let bs := enc root.

  Lemma expr_values_rel pos x e : den bs pos x -> res_rel eq (expr_values_w bs pos e) (expr_values root x e).
  Proof.
    intros D. destruct e as [ps|v| | | |]; cbn [expr_values_w expr_values]; try exact I; [|reflexivity].
    apply (res_rel_bind (Forall2 (den bs))).
    - apply walk_operand_rel. constructor; [|constructor].
      pose proof (root_position_den root Hroot) as R. destruct ps as [|[] r]; try exact R; exact D.
    - intros fr frv HF. rewrite (pvalues_of_den bs fr frv HF). reflexivity.
  Qed.

  Definition cur_rel (c : option position) (cv : option value) : Prop :=
    match c, cv with Some p, Some x => den bs p x | None, None => True | _, _ => False end.

  Lemma find_positions_with_rel few fet cur curv ps : cur_rel cur curv ->
    steps_all (fun e => forall pos x, den bs pos x -> res_rel eq (few pos e) (fet x e)) ps ->
    res_rel (Forall2 (den bs)) (find_positions_with_w few bs cur ps) (find_positions_with fet root curv ps).
  Proof.
    intros Hc Hfe. unfold find_positions_with_w, find_positions_with. apply (res_rel_bind (den bs)).
    - pose proof (root_position_den root Hroot) as R. destruct ps as [|[] r]; try exact R.
      destruct cur, curv; cbn [cur_rel] in Hc; try contradiction; exact Hc.
    - intros st stv Hst. apply (walk_rel bs _ _ _ _ _ Hfe). constructor; [exact Hst|constructor].
  Qed.

  (* filter_expr / find_positions on positions = filter_expr / find_positions on the denoted values, for every path
     and every expression (of any size and nesting): results, errors and panics alike *)
  Theorem filter_expr_rel : forall e pos x, den bs pos x -> res_rel eq (filter_expr_w bs pos e) (filter_expr root x e).
  Proof.
    induction e as [ps IH|v|op l r IHl IHr|op y IHy|op l r IHl IHr|ps IH] using expr_ind_steps; intros pos x D;
      cbn [filter_expr_w filter_expr]; try reflexivity.
    - assert (Cmp : res_rel eq
                (do a <- expr_values_w bs pos l; do b <- expr_values_w bs pos r; exists_res (fun u => exists_res (fun w => compare_value op u w) b) a)
                (do a <- expr_values root x l; do b <- expr_values root x r; exists_res (fun u => exists_res (fun w => compare_value op u w) b) a)).
      { rewrite (res_rel_eq _ _ (expr_values_rel pos x l D)), (res_rel_eq _ _ (expr_values_rel pos x r D)). apply res_rel_refl. }
      destruct op; try apply Cmp;
        (apply (res_rel_bind eq); [apply IHl; exact D|]; intros a ? <-;
         apply (res_rel_bind eq); [apply IHr; exact D|]; intros b ? <-; reflexivity).
    - apply (res_rel_bind (Forall2 (den bs))); [apply find_positions_with_rel; [exact D|exact IH]|].
      intros fr frv HF. cbn [res_rel]. destruct HF; reflexivity.
  Qed.
  Theorem find_positions_rel cur curv ps : cur_rel cur curv ->
    res_rel (Forall2 (den bs)) (find_positions_w bs cur ps) (find_positions root curv ps).
  Proof.
    intros Hc. apply find_positions_with_rel; [exact Hc|]. apply steps_all_intro. intros e pos x D. apply filter_expr_rel. exact D.
  Qed.
  Theorem find_filter_rel :
    (forall cur curv ps, cur_rel cur curv ->
       res_rel (Forall2 (den bs)) (find_positions_w bs cur ps) (find_positions root curv ps)) /\
    (forall pos x e, den bs pos x -> res_rel eq (filter_expr_w bs pos e) (filter_expr root x e)).
  Proof. split; [exact find_positions_rel|intros pos x e D; apply filter_expr_rel; exact D]. Qed.
End OnRoot.

(* ---------------------------------------------------------------- normalised documents *)
Lemma normalise_num_idem n : normalise_num (normalise_num n) = normalise_num n.
Proof.
  destruct n as [z|u|b]; cbn [normalise_num]; [| reflexivity |].
  - destruct (z =? 0)%Z eqn:E; cbn [normalise_num]; [reflexivity|rewrite E; reflexivity].
  - destruct (f_is_nan b) eqn:E; cbn [normalise_num]; [change (f_is_nan F_NAN) with true; reflexivity|rewrite E; reflexivity].
Qed.
Lemma normalise_idem v : normalise (normalise v) = normalise v.
Proof.
  induction v as [|b|s|n|l IH|o IH] using value_ind2; cbn [normalise]; try reflexivity.
  - rewrite normalise_num_idem. reflexivity.
  - f_equal. rewrite map_map. apply map_ext_in. intros x Hx. rewrite Forall_forall in IH. apply IH. exact Hx.
  - f_equal. rewrite map_map. apply map_ext_in. intros kv Hkv. cbn [fst snd]. rewrite Forall_forall in IH. rewrite (IH kv Hkv). reflexivity.
Qed.
Lemma forallb_map_ext {A} (p : A -> bool) (f : A -> A) l : Forall (fun x => p (f x) = p x) l -> forallb p (map f l) = forallb p l.
Proof. induction 1 as [|x l Hx _ IH]; cbn [map forallb]; [reflexivity|]. rewrite Hx, IH. reflexivity. Qed.
Lemma wf_size_normalise v : wf_size (normalise v) = wf_size v.
Proof.
  induction v as [|b|s|n|l IH|o IH] using value_ind2; try reflexivity.
  - change (normalise (VArr l)) with (VArr (map normalise l)). cbn [wf_size].
    change (VArr (map normalise l)) with (normalise (VArr l)). rewrite enc_item_normalise, lenN_map.
    rewrite (forallb_map_ext wf_size normalise l IH). reflexivity.
  - change (normalise (VObj o)) with (VObj (map (fun kv => (fst kv, normalise (snd kv))) o)). cbn [wf_size].
    change (VObj (map (fun kv => (fst kv, normalise (snd kv))) o)) with (normalise (VObj o)). rewrite enc_item_normalise, lenN_map.
    rewrite (forallb_map_ext (fun kv : list N * value => (lenN (fst kv) <? 268435456) && wf_size (snd kv)) (fun kv => (fst kv, normalise (snd kv))) o).
    + reflexivity.
    + eapply Forall_impl; [|exact IH]. intros kv H. cbn [fst snd]. rewrite H. reflexivity.
Qed.
Lemma good_normalise v : wfb v = true -> good (normalise v).
Proof.
  intros H. unfold wfb in H. apply andb_true_iff in H. destruct H as [H1 H2]. split; [|apply normalise_idem].
  unfold wfb. rewrite (TreeWf.wf_normalise v H1), wf_size_normalise, H2. reflexivity.
Qed.

Lemma Forall2_firstn {A B} (R : A -> B -> Prop) n : forall l l', Forall2 R l l' -> Forall2 R (firstn n l) (firstn n l').
Proof. induction n as [|n IH]; intros l l' H; [constructor|]. destruct H; cbn [firstn]; constructor; auto. Qed.
Lemma Forall2_len {A B} (R : A -> B -> Prop) l l' : Forall2 R l l' -> length l = length l'.
Proof. induction 1; cbn [length]; congruence. Qed.

(* ---------------------------------------------------------------- the theorems *)
Section Final.
  Variable root : value.
  Hypothesis Hroot : good root.

  Theorem find_positions_w_good ps :
    res_rel (Forall2 (den (enc root))) (find_positions_w (enc root) None ps) (find_positions root None ps).
  Proof. apply (find_positions_rel root Hroot None None ps). exact I. Qed.

  Theorem select_w_good ps m buf : select_w (enc root) ps m buf = select_t root ps m buf.
  Proof.
    unfold select_w, select_t. pose proof (find_positions_w_good ps) as R.
    destruct (find_positions_w (enc root) None ps) as [poses|e|], (find_positions root None ps) as [items|e'|];
      cbn [res_rel] in R; try contradiction; cbn [bind]; [|congruence|reflexivity].
    destruct (is_predicate ps).
    - unfold build_predicate_result_w. destruct R; cbn [enc enc_item fst snd]; rewrite app_nil_r; reflexivity.
    - destruct m.
      + rewrite (build_values_w_den _ _ _ (Forall2_firstn _ 1 _ _ R)). reflexivity.
      + rewrite (build_scalar_array_w_den _ _ _ R). reflexivity.
      + rewrite (build_values_w_den _ _ _ R). reflexivity.
      + rewrite (Forall2_len _ _ _ R). destruct (1 <? length items)%nat.
        * rewrite (build_scalar_array_w_den _ _ _ R). reflexivity.
        * rewrite (build_values_w_den _ _ _ R). reflexivity.
  Qed.

  Theorem sel_exists_w_good ps : sel_exists_w (enc root) ps = exists_t root ps.
  Proof.
    unfold sel_exists_w, exists_t. destruct (is_predicate ps); [reflexivity|]. pose proof (find_positions_w_good ps) as R.
    destruct (find_positions_w (enc root) None ps) as [poses|e|], (find_positions root None ps) as [items|e'|];
      cbn [res_rel] in R; try contradiction; cbn [bind]; [|congruence|reflexivity].
    destruct R; reflexivity.
  Qed.

  Theorem sel_predicate_match_w_good ps : sel_predicate_match_w (enc root) ps = predicate_match_t root ps.
  Proof.
    unfold sel_predicate_match_w, predicate_match_t. destruct (negb (is_predicate ps)); [reflexivity|]. pose proof (find_positions_w_good ps) as R.
    destruct (find_positions_w (enc root) None ps) as [poses|e|], (find_positions root None ps) as [items|e'|];
      cbn [res_rel] in R; try contradiction; cbn [bind]; [|congruence|reflexivity].
    destruct R; reflexivity.
  Qed.
End Final.

(* on the encoding of ANY well-formed value the selector answers as the tree evaluator does on the decoded document
   (normalise v: what parse_jsonb (enc v) returns) — every path, every expression, every mode; errors and panics of
   the tree evaluator are reproduced exactly, so no restriction to the parser's image is needed *)
Theorem select_w_enc v ps m buf : wfb v = true -> select_w (enc v) ps m buf = select_t (normalise v) ps m buf.
Proof. intros H. rewrite <- (enc_normalise v). apply select_w_good. apply good_normalise. exact H. Qed.
Theorem sel_exists_w_enc v ps : wfb v = true -> sel_exists_w (enc v) ps = exists_t (normalise v) ps.
Proof. intros H. rewrite <- (enc_normalise v). apply sel_exists_w_good. apply good_normalise. exact H. Qed.
Theorem sel_predicate_match_w_enc v ps : wfb v = true -> sel_predicate_match_w (enc v) ps = predicate_match_t (normalise v) ps.
Proof. intros H. rewrite <- (enc_normalise v). apply sel_predicate_match_w_good. apply good_normalise. exact H. Qed.

(* the walker model and the view-level model of Dispatch.v agree on encodings *)
Theorem select_w_m v ps m buf : wfb v = true -> select_w (enc v) ps m buf = select_m (enc v) ps m buf.
Proof. intros H. unfold select_m. rewrite (parse_jsonb_enc v H). cbn [bind]. apply select_w_enc. exact H. Qed.
Theorem sel_exists_w_m v ps : wfb v = true -> sel_exists_w (enc v) ps = sel_exists_m (enc v) ps.
Proof. intros H. unfold sel_exists_m. rewrite (parse_jsonb_enc v H). cbn [bind]. apply sel_exists_w_enc. exact H. Qed.
Theorem sel_predicate_match_w_m v ps : wfb v = true -> sel_predicate_match_w (enc v) ps = sel_predicate_match_m (enc v) ps.
Proof. intros H. unfold sel_predicate_match_m. rewrite (parse_jsonb_enc v H). cbn [bind]. apply sel_predicate_match_w_enc. exact H. Qed.

(* the public functions *)
Theorem get_by_path_gen_w_enc md v ps buf : wfb v = true -> top_ok v ->
  get_by_path_gen_w md (enc v) ps buf = select_t (normalise v) ps md buf.
Proof. intros H T. unfold get_by_path_gen_w. rewrite (is_jsonb_enc v H T). apply select_w_enc. exact H. Qed.
Theorem path_exists_w_enc v ps : wfb v = true -> top_ok v -> path_exists_w (enc v) ps = exists_t (normalise v) ps.
Proof. intros H T. unfold path_exists_w. rewrite (is_jsonb_enc v H T). apply sel_exists_w_enc. exact H. Qed.
Theorem path_match_w_enc v ps : wfb v = true -> top_ok v -> path_match_w (enc v) ps = predicate_match_t (normalise v) ps.
Proof. intros H T. unfold path_match_w. rewrite (is_jsonb_enc v H T). apply sel_predicate_match_w_enc. exact H. Qed.

(* no error and no panic on paths of the parser's image whose steps are plain: from the tree-level theorem *)
Theorem select_w_frame v ps m pre : wfb v = true ->
  select_w (enc v) ps m pre = ModeProofs.shift_result pre (select_w (enc v) ps m []).
Proof. intros H. rewrite !(select_w_enc v ps m _ H). apply ModeProofs.select_frame. Qed.

(* ---------------------------------------------------------------- consequences at byte level *)
(* on paths of the parser's image (EvalProofs.step_ok / expr_ok) the selector never panics on an encoding *)
Theorem select_w_never_panics v ps m buf : wfb v = true ->
  EvalProofs.path_ok false ps -> select_w (enc v) ps m buf <> Panic.
Proof.
  intros H Hp. rewrite (select_w_enc v ps m buf H). unfold select_t.
  pose proof (EvalProofs.find_positions_np (normalise v) None ps Hp) as NP'.
  destruct (find_positions (normalise v) None ps); cbn [bind]; [|discriminate|contradiction].
  destruct (is_predicate ps); discriminate.
Qed.

Section BytesModes.
  Variables (v : value) (ps : list path) (items : list value).
  Hypothesis Hwf : wfb v = true.
  Hypothesis Hsel : find_positions (normalise v) None ps = Ok items.
  Hypothesis Hnp : is_predicate ps = false.
  Lemma select_w_first_is_head buf :
    select_w (enc v) ps MFirst buf = Ok (match items with [] => (buf, []) | x :: _ => (buf ++ enc x, [lenN buf + lenN (enc x)]) end).
  Proof. rewrite (select_w_enc v ps MFirst buf Hwf). apply (ModeProofs.first_is_head (normalise v) ps items Hsel Hnp). Qed.
  Lemma select_w_array_holds_all buf :
    select_w (enc v) ps MArray buf = Ok (buf ++ enc (VArr items), [lenN buf + lenN (enc (VArr items))]).
  Proof. rewrite (select_w_enc v ps MArray buf Hwf). apply (ModeProofs.array_holds_all (normalise v) ps items Hsel Hnp). Qed.
  Lemma select_w_mixed buf :
    select_w (enc v) ps MMixed buf = if (1 <? length items)%nat then select_w (enc v) ps MArray buf else select_w (enc v) ps MAll buf.
  Proof. rewrite !(select_w_enc v ps _ buf Hwf). apply (ModeProofs.mixed_def (normalise v) ps items Hsel Hnp). Qed.
  Lemma sel_exists_w_iff_nonempty : sel_exists_w (enc v) ps = Ok (negb (match items with [] => true | _ => false end)).
  Proof. rewrite (sel_exists_w_enc v ps Hwf). apply (ModeProofs.exists_iff_nonempty (normalise v) ps items Hsel Hnp). Qed.
  Lemma select_w_offsets_delimit :
    exists data offs, select_w (enc v) ps MAll [] = Ok (data, offs) /\ ModeProofs.cut data 0 offs = map enc items.
  Proof. rewrite (select_w_enc v ps MAll [] Hwf). apply (ModeProofs.offsets_delimit (normalise v) ps items Hsel Hnp). Qed.
End BytesModes.

(* the public walker functions and the view-level ones of Dispatch.v agree on encodings *)
Theorem get_by_path_gen_w_m md v ps buf : wfb v = true -> top_ok v ->
  get_by_path_gen_w md (enc v) ps buf = get_by_path_gen md (enc v) ps buf.
Proof. intros H T. unfold get_by_path_gen_w, get_by_path_gen. rewrite (is_jsonb_enc v H T). apply select_w_m. exact H. Qed.
Theorem path_exists_w_m v ps : wfb v = true -> top_ok v -> path_exists_w (enc v) ps = path_exists_m (enc v) ps.
Proof. intros H T. unfold path_exists_w, path_exists_m. rewrite (is_jsonb_enc v H T). apply sel_exists_w_m. exact H. Qed.
Theorem path_match_w_m v ps : wfb v = true -> top_ok v -> path_match_w (enc v) ps = path_match_m (enc v) ps.
Proof.
  intros H T. unfold path_match_w, path_match_m. rewrite (doc_of_enc v H T), (is_jsonb_enc v H T). cbn [bind].
  apply sel_predicate_match_w_enc. exact H.
Qed.
