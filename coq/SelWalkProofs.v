(* SelWalkProofs.v — the offset-faithful selector of SelWalk.v agrees with the tree evaluator of PathSem.v on every
   canonical encoding (C08, C15, C17). *)
From Coq Require Import List NArith ZArith Bool Lia.
Import ListNotations.
From JB Require Import Constants Bytes Utf8 Num NumProofs Value Codec Order OrderProofs CodecProofs RoundtripProofs DispatchProofs
  TreeOps Path PathSem Dispatch Walk WalkProofs CompareWalk CompareWalkProofs SelWalk.
Open Scope N_scope.
Set Default Timeout 120.
