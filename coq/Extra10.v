(* C10 additions: (a) what from_slice returns -- also through the text fallback -- has UTF-8 strings and keys;
   (b) the recursion fuel of the decoder model is never the reason for an answer, on ANY input. *)
From Coq Require Import List NArith ZArith Bool Lia.
Import ListNotations.
From JB Require Import Constants Bytes Utf8 Num NumProofs Value Codec JsonText DecodeProofs Dispatch DecodeMore
  JsonGrammar JsonGrammarProofs.
Open Scope N_scope.
Set Default Timeout 60.

(* ================================================================ (a) strings of the text reader's result *)
Lemma members_ok_of_list ms : forallb (fun kv => utf8_valid (fst kv) && strings_utf8 (snd kv)) ms = true ->
  members_ok (assoc_of_list ms) = true.
Proof.
  unfold assoc_of_list. assert (G : forall acc, members_ok acc = true ->
    forallb (fun kv => utf8_valid (fst kv) && strings_utf8 (snd kv)) ms = true ->
    members_ok (fold_left (fun acc kv => assoc_insert (fst kv) (snd kv) acc) ms acc) = true).
  { induction ms as [|[k x] ms IH]; intros acc Ha H; cbn [fold_left]; [exact Ha|].
    cbn [forallb fst snd] in H. apply andb_true_iff in H. destruct H as [H1 H2]. apply andb_true_iff in H1. destruct H1 as [Hk Hx].
    apply IH; [|exact H2]. apply assoc_insert_ok; assumption. }
  apply G. reflexivity.
Qed.

Lemma jstring_utf8 t s : jstring t s -> utf8_valid s = true.
Proof. intros H. destruct H as [b s _ Hu]. exact Hu. Qed.
Lemma jkey_utf8 t k : jkey t k -> utf8_valid k = true.
Proof. intros H. destruct H as [w1 t k w2 _ Hs _]. eapply jstring_utf8; eauto. Qed.

Theorem jtext_strings_utf8_mut :
  (forall t v, jvalue t v -> strings_utf8 v = true) /\
  (forall t v, jelement t v -> strings_utf8 v = true) /\
  (forall t l, jelements t l -> forallb strings_utf8 l = true) /\
  (forall t ms, jmembers t ms -> forallb (fun kv => utf8_valid (fst kv) && strings_utf8 (snd kv)) ms = true).
Proof.
  apply jvalue_mutind; intros; cbn [strings_utf8 forallb fst snd]; try reflexivity; try assumption.
  - eapply jstring_utf8; eauto.
  - apply members_ok_of_list. assumption.
  - rewrite H0. reflexivity.
  - rewrite H0, H2. reflexivity.
  - rewrite (jkey_utf8 _ _ H), H1. reflexivity.
  - rewrite (jkey_utf8 _ _ H), H1, H3. reflexivity.
Qed.

Theorem parse_value_utf8 bs v : parse_value bs = Ok v -> strings_utf8 v = true.
Proof. intros H. apply grammar_sound in H. exact (proj1 (proj2 jtext_strings_utf8_mut) _ _ H). Qed.

Theorem from_slice_utf8 bs v : from_slice bs = Ok v -> strings_utf8 v = true.
Proof.
  unfold from_slice. destruct (parse_jsonb bs) as [d| |] eqn:E.
  - intros H. injection H as <-. eapply parse_jsonb_utf8; eauto.
  - apply parse_value_utf8.
  - discriminate.
Qed.

(* ================================================================ (b) the decoder's fuel *)
Lemma num_decode_not_fuel : forall bs, num_decode bs <> Err EFuel.
Proof.
  intros [|ty rest]; cbn [num_decode]; [discriminate|].
  repeat match goal with
         | |- context [if ?c then _ else _] => destruct c
         | |- context [match ?l with O => _ | S _ => _ end] => destruct l
         end; discriminate.
Qed.
(* every read moves the cursor forward: what is handed back is no longer than what was handed in *)
Lemma rd32_len bs w r : rd32 bs = Some (w, r) -> length bs = (4 + length r)%nat.
Proof. destruct bs as [|a [|b [|c [|d rest]]]]; cbn [rd32]; try discriminate. intros H. injection H as _ <-. reflexivity. Qed.
Lemma rd_jentries_len n : forall bs ws r, rd_jentries n bs = Some (ws, r) -> (length r <= length bs)%nat.
Proof.
  induction n as [|n IH]; intros bs ws r H; cbn [rd_jentries] in H.
  - injection H as _ <-. lia.
  - destruct (rd32 bs) as [[w rest]|] eqn:E; [|discriminate].
    destruct (rd_jentries n rest) as [[ws' r']|] eqn:E2; [|discriminate]. injection H as _ <-.
    apply rd32_len in E. apply IH in E2. lia.
Qed.
Lemma take_len len bs s r : take len bs = Some (s, r) -> (length r <= length bs)%nat.
Proof. intros H. apply take_split in H. subst bs. rewrite app_length. lia. Qed.

Section ListsLen.
  Variable f : N -> list N -> res (value * list N).
  Hypothesis Hlen : forall w bs v r, f w bs = Ok (v, r) -> (length r <= length bs)%nat.
  Lemma dec_list_len jes : forall bs vs r, dec_list f jes bs = Ok (vs, r) -> (length r <= length bs)%nat.
  Proof.
    induction jes as [|j jes IH]; intros bs vs r H; cbn [dec_list] in H.
    - injection H as _ <-. lia.
    - destruct (f j bs) as [[v bs']| |] eqn:E; cbn [bind] in H; try discriminate.
      destruct (dec_list f jes bs') as [[vs' bs'']| |] eqn:E2; cbn [bind] in H; try discriminate.
      injection H as _ <-. apply Hlen in E. apply IH in E2. lia.
  Qed.
  Lemma dec_members_len keys : forall jes bs acc ms r, dec_members f keys jes bs acc = Ok (ms, r) -> (length r <= length bs)%nat.
  Proof.
    induction keys as [|k keys IH]; intros jes bs acc ms r H; cbn [dec_members] in H.
    - injection H as _ <-. lia.
    - destruct jes as [|j jes]; [discriminate|]. destruct k; try discriminate.
      destruct (f j bs) as [[v bs']| |] eqn:E; cbn [bind] in H; try discriminate.
      apply Hlen in E. apply IH in H. lia.
  Qed.
End ListsLen.
Section Lists.
  Variable f : N -> list N -> res (value * list N).
  Variable bound : nat.
  Hypothesis Hlen : forall w bs v r, f w bs = Ok (v, r) -> (length r <= length bs)%nat.
  Hypothesis Hfuel : forall w bs, (length bs <= bound)%nat -> f w bs <> Err EFuel.
  Lemma dec_list_fuel jes : forall bs, (length bs <= bound)%nat -> dec_list f jes bs <> Err EFuel.
  Proof.
    induction jes as [|j jes IH]; intros bs Hb; cbn [dec_list]; [discriminate|].
    destruct (f j bs) as [[v bs']|e|] eqn:E; cbn [bind]; try discriminate.
    - destruct (dec_list f jes bs') as [[vs' bs'']|e|] eqn:E2; cbn [bind]; try discriminate.
      intros H. injection H as ->. apply Hlen in E. revert E2. apply IH. lia.
    - intros H. injection H as ->. revert E. apply Hfuel. exact Hb.
  Qed.
  Lemma dec_members_fuel keys : forall jes bs acc, (length bs <= bound)%nat -> dec_members f keys jes bs acc <> Err EFuel.
  Proof.
    induction keys as [|k keys IH]; intros jes bs acc Hb; cbn [dec_members]; [discriminate|].
    destruct jes as [|j jes]; [discriminate|]. destruct k; try discriminate.
    destruct (f j bs) as [[v bs']|e|] eqn:E; cbn [bind]; try discriminate.
    - apply Hlen in E. apply IH. lia.
    - intros H. injection H as ->. revert E. apply Hfuel. exact Hb.
  Qed.
End Lists.

Theorem decode_len fuel :
  (forall w bs v r, decode_scalar fuel w bs = Ok (v, r) -> (length r <= length bs)%nat) /\
  (forall bs v r, decode_jsonb fuel bs = Ok (v, r) -> (length r <= length bs)%nat).
Proof.
  induction fuel as [|fuel [IHs IHj]]; split; intros until r; cbn [decode_scalar decode_jsonb]; try discriminate.
  - destruct (je_type w =? NULL_TAG); [intros H; injection H as _ <-; lia|].
    destruct (je_type w =? TRUE_TAG); [intros H; injection H as _ <-; lia|].
    destruct (je_type w =? FALSE_TAG); [intros H; injection H as _ <-; lia|].
    destruct (je_type w =? STRING_TAG).
    { destruct (take (je_len w) bs) as [[s rest]|] eqn:E; [|discriminate]. destruct (utf8_valid s); [|discriminate].
      intros H; injection H as _ <-. eapply take_len; eauto. }
    destruct (je_type w =? NUMBER_TAG).
    { destruct (take (je_len w) bs) as [[s rest]|] eqn:E; [|discriminate]. destruct (num_decode s); cbn [bind]; try discriminate.
      intros H; injection H as _ <-. eapply take_len; eauto. }
    destruct (je_type w =? CONTAINER_TAG); [|discriminate]. apply IHj.
  - destruct (rd32 bs) as [[hdr rest]|] eqn:E; [|discriminate]. apply rd32_len in E.
    destruct (hdr_type hdr =? SCALAR_CONTAINER_TAG).
    { destruct (negb (hdr =? SCALAR_CONTAINER_TAG)); [discriminate|].
      destruct (rd32 rest) as [[w rest']|] eqn:E2; [|discriminate]. apply rd32_len in E2. intros H. apply IHs in H. lia. }
    destruct (hdr_type hdr =? ARRAY_CONTAINER_TAG).
    { destruct (lenN rest <? 4 * hdr_len hdr); [discriminate|].
      destruct (rd_jentries (N.to_nat (hdr_len hdr)) rest) as [[jes rest']|] eqn:EJ; [|discriminate]. apply rd_jentries_len in EJ.
      destruct (dec_list (decode_scalar fuel) jes rest') as [[vs r0]| |] eqn:ED; cbn [bind]; try discriminate.
      apply (dec_list_len _ IHs) in ED. intros H; injection H as _ <-. lia. }
    destruct (hdr_type hdr =? OBJECT_CONTAINER_TAG); [|discriminate].
    destruct (lenN rest <? 8 * hdr_len hdr); [discriminate|].
    destruct (rd_jentries (2 * N.to_nat (hdr_len hdr)) rest) as [[jes rest']|] eqn:EJ; [|discriminate]. apply rd_jentries_len in EJ.
    destruct (dec_list (decode_scalar fuel) (firstn (N.to_nat (hdr_len hdr)) jes) rest') as [[keys r0]| |] eqn:ED; cbn [bind]; try discriminate.
    apply (dec_list_len _ IHs) in ED.
    destruct (dec_members (decode_scalar fuel) keys (skipn (N.to_nat (hdr_len hdr)) jes) r0 []) as [[ms r1]| |] eqn:EM; cbn [bind]; try discriminate.
    apply (dec_members_len _ IHs) in EM. intros H; injection H as _ <-. lia.
Qed.

(* a nested container starts at least 4 bytes after its parent's header and costs two units of fuel (decode_jsonb, then
   decode_scalar for its entry): half the remaining length, plus one, is always enough *)
Theorem decode_fuel_enough fuel :
  (forall w bs, (length bs + 3 <= 2 * fuel)%nat -> decode_scalar fuel w bs <> Err EFuel) /\
  (forall bs, (length bs + 1 <= 2 * fuel)%nat -> decode_jsonb fuel bs <> Err EFuel).
Proof.
  induction fuel as [|fuel [IHs IHj]]; split; intros until 1; try lia; cbn [decode_scalar decode_jsonb].
  - destruct (je_type w =? NULL_TAG); [discriminate|].
    destruct (je_type w =? TRUE_TAG); [discriminate|].
    destruct (je_type w =? FALSE_TAG); [discriminate|].
    destruct (je_type w =? STRING_TAG).
    { destruct (take (je_len w) bs) as [[s rest]|]; [|discriminate]. destruct (utf8_valid s); discriminate. }
    destruct (je_type w =? NUMBER_TAG).
    { destruct (take (je_len w) bs) as [[s rest]|]; [|discriminate].
      destruct (num_decode s) as [n|e|] eqn:E; cbn [bind]; try discriminate.
      intros H'. injection H' as ->. revert E. apply num_decode_not_fuel. }
    destruct (je_type w =? CONTAINER_TAG); [|discriminate]. apply IHj. lia.
  - destruct (rd32 bs) as [[hdr rest]|] eqn:E; [|discriminate]. apply rd32_len in E.
    assert (IHs' : forall w bs0, (length bs0 <= length rest)%nat -> decode_scalar fuel w bs0 <> Err EFuel).
    { intros w bs0 Hb. apply IHs. lia. }
    destruct (hdr_type hdr =? SCALAR_CONTAINER_TAG).
    { destruct (negb (hdr =? SCALAR_CONTAINER_TAG)); [discriminate|].
      destruct (rd32 rest) as [[w rest']|] eqn:E2; [|discriminate]. apply rd32_len in E2. apply IHs'. lia. }
    destruct (hdr_type hdr =? ARRAY_CONTAINER_TAG).
    { destruct (lenN rest <? 4 * hdr_len hdr); [discriminate|].
      destruct (rd_jentries (N.to_nat (hdr_len hdr)) rest) as [[jes rest']|] eqn:EJ; [|discriminate]. apply rd_jentries_len in EJ.
      destruct (dec_list (decode_scalar fuel) jes rest') as [[vs r0]|e|] eqn:ED; cbn [bind]; try discriminate.
      intros H'. injection H' as ->. revert ED. apply (dec_list_fuel _ (length rest) (proj1 (decode_len fuel)) IHs'). exact EJ. }
    destruct (hdr_type hdr =? OBJECT_CONTAINER_TAG); [|discriminate].
    destruct (lenN rest <? 8 * hdr_len hdr); [discriminate|].
    destruct (rd_jentries (2 * N.to_nat (hdr_len hdr)) rest) as [[jes rest']|] eqn:EJ; [|discriminate]. apply rd_jentries_len in EJ.
    destruct (dec_list (decode_scalar fuel) (firstn (N.to_nat (hdr_len hdr)) jes) rest') as [[keys r0]|e|] eqn:ED; cbn [bind]; try discriminate.
    + apply (dec_list_len _ (proj1 (decode_len fuel))) in ED.
      destruct (dec_members (decode_scalar fuel) keys (skipn (N.to_nat (hdr_len hdr)) jes) r0 []) as [[ms r1]|e|] eqn:EM; cbn [bind]; try discriminate.
      intros H'. injection H' as ->. revert EM. apply (dec_members_fuel _ (length rest) (proj1 (decode_len fuel)) IHs'). lia.
    + intros H'. injection H' as ->. revert ED. apply (dec_list_fuel _ (length rest) (proj1 (decode_len fuel)) IHs'). exact EJ.
Qed.

Theorem parse_jsonb_not_fuel bs : parse_jsonb bs <> Err EFuel.
Proof.
  unfold parse_jsonb. destruct (lenN bs <? 4); [discriminate|].
  destruct (decode_jsonb (S (length bs)) bs) as [[v r]|e|] eqn:E; cbn [bind]; try discriminate.
  intros H. injection H as ->. revert E. apply (proj2 (decode_fuel_enough _)). lia.
Qed.

(* a proper prefix of an encoding is rejected by a genuine error of the decoder, not by the model's fuel *)
Theorem prefix_rejected_not_fuel v p : wfb v = true -> proper_prefix p (enc v) ->
  (exists e, parse_jsonb p = Err e /\ e <> EFuel) /\ from_slice p = Err EOther.
Proof.
  intros Hwf Hp. destruct (parse_jsonb_prefix_rejected v p Hwf Hp) as [e He]. split.
  - exists e. split; [exact He|]. intros ->. exact (parse_jsonb_not_fuel p He).
  - destruct Hp as (x & _ & E). unfold from_slice. rewrite He. eapply parse_value_prefix_rejected; eauto.
Qed.
