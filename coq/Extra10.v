(* C10 additions: (a) what from_slice returns -- also through the text fallback -- has UTF-8 strings and keys;
   (b) the recursion fuel of the decoder model is never the reason for an answer, on ANY input. *)
From Coq Require Import List NArith ZArith Bool Lia.
Import ListNotations.
From JB Require Import Constants Bytes Utf8 Num NumProofs Value Codec JsonText DecodeProofs Dispatch DecodeMore
  JsonGrammar JsonGrammarProofs.
Open Scope N_scope.
Set Default Timeout 60.

(* ================================================================ (a) strings of the text reader's result *)
Lemma members_ok_of_list ms : forallb (fun kv => utf8_valid (fst kv) && strings_utf8 (snd kv)) ms = true ->
  members_ok (assoc_of_list ms) = true.
Proof.
  unfold assoc_of_list. assert (G : forall acc, members_ok acc = true ->
    forallb (fun kv => utf8_valid (fst kv) && strings_utf8 (snd kv)) ms = true ->
    members_ok (fold_left (fun acc kv => assoc_insert (fst kv) (snd kv) acc) ms acc) = true).
  { induction ms as [|[k x] ms IH]; intros acc Ha H; cbn [fold_left]; [exact Ha|].
    cbn [forallb fst snd] in H. apply andb_true_iff in H. destruct H as [H1 H2]. apply andb_true_iff in H1. destruct H1 as [Hk Hx].
    apply IH; [|exact H2]. apply assoc_insert_ok; assumption. }
  apply G. reflexivity.
Qed.

Lemma jstring_utf8 t s : jstring t s -> utf8_valid s = true.
Proof. intros H. destruct H as [b s _ Hu]. exact Hu. Qed.
Lemma jkey_utf8 t k : jkey t k -> utf8_valid k = true.
Proof. intros H. destruct H as [w1 t k w2 _ Hs _]. eapply jstring_utf8; eauto. Qed.

Theorem jtext_strings_utf8_mut :
  (forall t v, jvalue t v -> strings_utf8 v = true) /\
  (forall t v, jelement t v -> strings_utf8 v = true) /\
  (forall t l, jelements t l -> forallb strings_utf8 l = true) /\
  (forall t ms, jmembers t ms -> forallb (fun kv => utf8_valid (fst kv) && strings_utf8 (snd kv)) ms = true).
Proof.
  apply jvalue_mutind; intros; cbn [strings_utf8 forallb fst snd]; try reflexivity; try assumption.
  - eapply jstring_utf8; eauto.
  - apply members_ok_of_list. assumption.
  - rewrite H0. reflexivity.
  - rewrite H0, H2. reflexivity.
  - rewrite (jkey_utf8 _ _ H), H1. reflexivity.
  - rewrite (jkey_utf8 _ _ H), H1, H3. reflexivity.
Qed.

Theorem parse_value_utf8 bs v : parse_value bs = Ok v -> strings_utf8 v = true.
Proof. intros H. apply grammar_sound in H. exact (proj1 (proj2 jtext_strings_utf8_mut) _ _ H). Qed.

Theorem from_slice_utf8 bs v : from_slice bs = Ok v -> strings_utf8 v = true.
Proof.
  unfold from_slice. destruct (parse_jsonb bs) as [d| |] eqn:E.
  - intros H. injection H as <-. eapply parse_jsonb_utf8; eauto.
  - apply parse_value_utf8.
  - discriminate.
Qed.

(* ================================================================ (b) the decoder's fuel *)
Lemma num_decode_not_fuel : forall bs, num_decode bs <> Err EFuel.
Proof.
  intros [|ty rest]; cbn [num_decode]; [discriminate|].
  repeat match goal with
         | |- context [if ?c then _ else _] => destruct c
         | |- context [match ?l with O => _ | S _ => _ end] => destruct l
         end; discriminate.
Qed.
(* every read moves the cursor forward: what is handed back is no longer than what was handed in *)
Lemma rd32_len bs w r : rd32 bs = Some (w, r) -> length bs = (4 + length r)%nat.
Proof. destruct bs as [|a [|b [|c [|d rest]]]]; cbn [rd32]; try discriminate. intros H. injection H as _ <-. reflexivity. Qed.
Lemma rd_jentries_len n : forall bs ws r, rd_jentries n bs = Some (ws, r) -> (length r <= length bs)%nat.
Proof.
  induction n as [|n IH]; intros bs ws r H; cbn [rd_jentries] in H.
  - injection H as _ <-. lia.
  - destruct (rd32 bs) as [[w rest]|] eqn:E; [|discriminate].
    destruct (rd_jentries n rest) as [[ws' r']|] eqn:E2; [|discriminate]. injection H as _ <-.
    apply rd32_len in E. apply IH in E2. lia.
Qed.
Lemma take_len len bs s r : take len bs = Some (s, r) -> (length r <= length bs)%nat.
Proof. intros H. apply take_split in H. subst bs. rewrite app_length. lia. Qed.

Section ListsLen.
  Variable f : N -> list N -> res (value * list N).
  Hypothesis Hlen : forall w bs v r, f w bs = Ok (v, r) -> (length r <= length bs)%nat.
  Lemma dec_list_len jes : forall bs vs r, dec_list f jes bs = Ok (vs, r) -> (length r <= length bs)%nat.
  Proof.
    induction jes as [|j jes IH]; intros bs vs r H; cbn [dec_list] in H.
    - injection H as _ <-. lia.
    - destruct (f j bs) as [[v bs']| |] eqn:E; cbn [bind] in H; try discriminate.
      destruct (dec_list f jes bs') as [[vs' bs'']| |] eqn:E2; cbn [bind] in H; try discriminate.
      injection H as _ <-. apply Hlen in E. apply IH in E2. lia.
  Qed.
  Lemma dec_members_len keys : forall jes bs acc ms r, dec_members f keys jes bs acc = Ok (ms, r) -> (length r <= length bs)%nat.
  Proof.
    induction keys as [|k keys IH]; intros jes bs acc ms r H; cbn [dec_members] in H.
    - injection H as _ <-. lia.
    - destruct jes as [|j jes]; [discriminate|]. destruct k; try discriminate.
      destruct (f j bs) as [[v bs']| |] eqn:E; cbn [bind] in H; try discriminate.
      apply Hlen in E. apply IH in H. lia.
  Qed.
End ListsLen.
Section Lists.
  Variable f : N -> list N -> res (value * list N).
  Variable bound : nat.
  Hypothesis Hlen : forall w bs v r, f w bs = Ok (v, r) -> (length r <= length bs)%nat.
  Hypothesis Hfuel : forall w bs, (length bs <= bound)%nat -> f w bs <> Err EFuel.
  Lemma dec_list_fuel jes : forall bs, (length bs <= bound)%nat -> dec_list f jes bs <> Err EFuel.
  Proof.
    induction jes as [|j jes IH]; intros bs Hb; cbn [dec_list]; [discriminate|].
    destruct (f j bs) as [[v bs']|e|] eqn:E; cbn [bind]; try discriminate.
    - destruct (dec_list f jes bs') as [[vs' bs'']|e|] eqn:E2; cbn [bind]; try discriminate.
      intros H. injection H as ->. apply Hlen in E. revert E2. apply IH. lia.
    - intros H. injection H as ->. revert E. apply Hfuel. exact Hb.
  Qed.
  Lemma dec_members_fuel keys : forall jes bs acc, (length bs <= bound)%nat -> dec_members f keys jes bs acc <> Err EFuel.
  Proof.
    induction keys as [|k keys IH]; intros jes bs acc Hb; cbn [dec_members]; [discriminate|].
    destruct jes as [|j jes]; [discriminate|]. destruct k; try discriminate.
    destruct (f j bs) as [[v bs']|e|] eqn:E; cbn [bind]; try discriminate.
    - apply Hlen in E. apply IH. lia.
    - intros H. injection H as ->. revert E. apply Hfuel. exact Hb.
  Qed.
End Lists.

Theorem decode_len fuel :
  (forall w bs v r, decode_scalar fuel w bs = Ok (v, r) -> (length r <= length bs)%nat) /\
  (forall bs v r, decode_jsonb fuel bs = Ok (v, r) -> (length r <= length bs)%nat).
Proof.
  induction fuel as [|fuel [IHs IHj]]; split; intros until r; cbn [decode_scalar decode_jsonb]; try discriminate.
  - destruct (je_type w =? NULL_TAG); [intros H; injection H as _ <-; lia|].
    destruct (je_type w =? TRUE_TAG); [intros H; injection H as _ <-; lia|].
    destruct (je_type w =? FALSE_TAG); [intros H; injection H as _ <-; lia|].
    destruct (je_type w =? STRING_TAG).
    { destruct (take (je_len w) bs) as [[s rest]|] eqn:E; [|discriminate]. destruct (utf8_valid s); [|discriminate].
      intros H; injection H as _ <-. eapply take_len; eauto. }
    destruct (je_type w =? NUMBER_TAG).
    { destruct (take (je_len w) bs) as [[s rest]|] eqn:E; [|discriminate]. destruct (num_decode s); cbn [bind]; try discriminate.
      intros H; injection H as _ <-. eapply take_len; eauto. }
    destruct (je_type w =? CONTAINER_TAG); [|discriminate]. apply IHj.
  - destruct (rd32 bs) as [[hdr rest]|] eqn:E; [|discriminate]. apply rd32_len in E.
    destruct (hdr_type hdr =? SCALAR_CONTAINER_TAG).
    { destruct (negb (hdr =? SCALAR_CONTAINER_TAG)); [discriminate|].
      destruct (rd32 rest) as [[w rest']|] eqn:E2; [|discriminate]. apply rd32_len in E2. intros H. apply IHs in H. lia. }
    destruct (hdr_type hdr =? ARRAY_CONTAINER_TAG).
    { destruct (lenN rest <? 4 * hdr_len hdr); [discriminate|].
      destruct (rd_jentries (N.to_nat (hdr_len hdr)) rest) as [[jes rest']|] eqn:EJ; [|discriminate]. apply rd_jentries_len in EJ.
      destruct (dec_list (decode_scalar fuel) jes rest') as [[vs r0]| |] eqn:ED; cbn [bind]; try discriminate.
      apply (dec_list_len _ IHs) in ED. intros H; injection H as _ <-. lia. }
    destruct (hdr_type hdr =? OBJECT_CONTAINER_TAG); [|discriminate].
    destruct (lenN rest <? 8 * hdr_len hdr); [discriminate|].
    destruct (rd_jentries (2 * N.to_nat (hdr_len hdr)) rest) as [[jes rest']|] eqn:EJ; [|discriminate]. apply rd_jentries_len in EJ.
    destruct (dec_list (decode_scalar fuel) (firstn (N.to_nat (hdr_len hdr)) jes) rest') as [[keys r0]| |] eqn:ED; cbn [bind]; try discriminate.
    apply (dec_list_len _ IHs) in ED.
    destruct (dec_members (decode_scalar fuel) keys (skipn (N.to_nat (hdr_len hdr)) jes) r0 []) as [[ms r1]| |] eqn:EM; cbn [bind]; try discriminate.
    apply (dec_members_len _ IHs) in EM. intros H; injection H as _ <-. lia.
Qed.

(* a nested container starts at least 4 bytes after its parent's header and costs two units of fuel (decode_jsonb, then
   decode_scalar for its entry): half the remaining length, plus one, is always enough *)
Theorem decode_fuel_enough fuel :
  (forall w bs, (length bs + 3 <= 2 * fuel)%nat -> decode_scalar fuel w bs <> Err EFuel) /\
  (forall bs, (length bs + 1 <= 2 * fuel)%nat -> decode_jsonb fuel bs <> Err EFuel).
Proof.
  induction fuel as [|fuel [IHs IHj]]; split; intros until 1; try lia; cbn [decode_scalar decode_jsonb].
  - destruct (je_type w =? NULL_TAG); [discriminate|].
    destruct (je_type w =? TRUE_TAG); [discriminate|].
    destruct (je_type w =? FALSE_TAG); [discriminate|].
    destruct (je_type w =? STRING_TAG).
    { destruct (take (je_len w) bs) as [[s rest]|]; [|discriminate]. destruct (utf8_valid s); discriminate. }
    destruct (je_type w =? NUMBER_TAG).
    { destruct (take (je_len w) bs) as [[s rest]|]; [|discriminate].
      destruct (num_decode s) as [n|e|] eqn:E; cbn [bind]; try discriminate.
      intros H'. injection H' as ->. revert E. apply num_decode_not_fuel. }
    destruct (je_type w =? CONTAINER_TAG); [|discriminate]. apply IHj. lia.
  - destruct (rd32 bs) as [[hdr rest]|] eqn:E; [|discriminate]. apply rd32_len in E.
    assert (IHs' : forall w bs0, (length bs0 <= length rest)%nat -> decode_scalar fuel w bs0 <> Err EFuel).
    { intros w bs0 Hb. apply IHs. lia. }
    destruct (hdr_type hdr =? SCALAR_CONTAINER_TAG).
    { destruct (negb (hdr =? SCALAR_CONTAINER_TAG)); [discriminate|].
      destruct (rd32 rest) as [[w rest']|] eqn:E2; [|discriminate]. apply rd32_len in E2. apply IHs'. lia. }
    destruct (hdr_type hdr =? ARRAY_CONTAINER_TAG).
    { destruct (lenN rest <? 4 * hdr_len hdr); [discriminate|].
      destruct (rd_jentries (N.to_nat (hdr_len hdr)) rest) as [[jes rest']|] eqn:EJ; [|discriminate]. apply rd_jentries_len in EJ.
      destruct (dec_list (decode_scalar fuel) jes rest') as [[vs r0]|e|] eqn:ED; cbn [bind]; try discriminate.
      intros H'. injection H' as ->. revert ED. apply (dec_list_fuel _ (length rest) (proj1 (decode_len fuel)) IHs'). exact EJ. }
    destruct (hdr_type hdr =? OBJECT_CONTAINER_TAG); [|discriminate].
    destruct (lenN rest <? 8 * hdr_len hdr); [discriminate|].
    destruct (rd_jentries (2 * N.to_nat (hdr_len hdr)) rest) as [[jes rest']|] eqn:EJ; [|discriminate]. apply rd_jentries_len in EJ.
    destruct (dec_list (decode_scalar fuel) (firstn (N.to_nat (hdr_len hdr)) jes) rest') as [[keys r0]|e|] eqn:ED; cbn [bind]; try discriminate.
    + apply (dec_list_len _ (proj1 (decode_len fuel))) in ED.
      destruct (dec_members (decode_scalar fuel) keys (skipn (N.to_nat (hdr_len hdr)) jes) r0 []) as [[ms r1]|e|] eqn:EM; cbn [bind]; try discriminate.
      intros H'. injection H' as ->. revert EM. apply (dec_members_fuel _ (length rest) (proj1 (decode_len fuel)) IHs'). lia.
    + intros H'. injection H' as ->. revert ED. apply (dec_list_fuel _ (length rest) (proj1 (decode_len fuel)) IHs'). exact EJ.
Qed.

Theorem parse_jsonb_not_fuel bs : parse_jsonb bs <> Err EFuel.
Proof.
  unfold parse_jsonb. destruct (lenN bs <? 4); [discriminate|].
  destruct (decode_jsonb (S (length bs)) bs) as [[v r]|e|] eqn:E; cbn [bind]; try discriminate.
  intros H. injection H as ->. revert E. apply (proj2 (decode_fuel_enough _)). lia.
Qed.

(* a proper prefix of an encoding is rejected by a genuine error of the decoder, not by the model's fuel *)
Theorem prefix_rejected_not_fuel v p : wfb v = true -> proper_prefix p (enc v) ->
  (exists e, parse_jsonb p = Err e /\ e <> EFuel) /\ from_slice p = Err EOther.
Proof.
  intros Hwf Hp. destruct (parse_jsonb_prefix_rejected v p Hwf Hp) as [e He]. split.
  - exists e. split; [exact He|]. intros ->. exact (parse_jsonb_not_fuel p He).
  - destruct Hp as (x & _ & E). unfold from_slice. rewrite He. eapply parse_value_prefix_rejected; eauto.
Qed.

(* ================================================================ (c) the text reader's fuel, hence from_slice's *)
(* parse_value runs parse_json_value with fuel S (length bs) (nesting and the element / member loops) and parse_string with
   fuel S (length data): every value consumes at least one byte (parse_json_value_sound: a value's text is not empty),
   every escape at least one, so neither fuel is ever the reason for an answer *)
Lemma jvalue_nonempty t v : jvalue t v -> t <> [].
Proof.
  intros H. destruct H; try discriminate.
  - destruct H as [neg ids tf fd te e Hi Hf He]. destruct neg; cbn [app]; [discriminate|]. destruct Hi; discriminate.
  - destruct H. discriminate.
Qed.

(* a successful value parse consumes at least one byte *)
Lemma pv_consumes fuel bs v rest : parse_json_value fuel bs = Ok (v, rest) -> (length rest < length bs)%nat.
Proof.
  intros H. destruct (parse_json_value_sound fuel _ _ _ H) as (w & t & -> & _ & Hv). apply jvalue_nonempty in Hv.
  rewrite !app_length. destruct t; [contradiction|]. cbn [length]. lia.
Qed.
Lemma skip_len bs : (length (skip_unused bs) <= length bs)%nat.
Proof. destruct (skip_sound bs) as (w & E & _). rewrite E at 2. rewrite app_length. lia. Qed.

(* the string reader *)
Lemma read_unicode_digits_len data n r : read_unicode_digits data = Ok (n, r) -> (length r <= length data)%nat.
Proof.
  unfold read_unicode_digits. destruct data as [|x d]; [discriminate|]. destruct (x =? 123).
  - destruct (length d <? 4)%nat; [discriminate|]. destruct (skipn 4 d) as [|y r3] eqn:E; [discriminate|].
    destruct (y =? 125); [|discriminate]. intros H. injection H as _ <-.
    assert (L : length (skipn 4 d) = S (length r3)) by (rewrite E; reflexivity). rewrite skipn_length in L. cbn [length]. lia.
  - destruct (length (x :: d) <? 4)%nat; [discriminate|]. pose proof (skipn_length 4 (x :: d)) as SL. intros H. injection H as _ <-. cbn [skipn length] in *. lia.
Qed.
Lemma parse_escaped_len data r chunk : parse_escaped_string data = Ok (r, chunk) -> (length r < length data)%nat.
Proof.
  unfold parse_escaped_string. destruct data as [|b d]; [discriminate|]. cbn [length].
  repeat match goal with |- context [if ?c =? ?k then _ else _] => destruct (c =? k); [intros H; injection H as <- _; lia|] end.
  destruct (b =? 117); [|discriminate].
  destruct (read_unicode_digits d) as [[numbers r1]| |] eqn:R1; cbn [bind]; try discriminate. apply read_unicode_digits_len in R1.
  destruct (decode_hex_escape numbers 0) as [hex|]; [|discriminate].
  destruct ((56320 <=? hex) && (hex <=? 57343)); [intros H; injection H as <- _; lia|].
  destruct ((55296 <=? hex) && (hex <=? 56319)); [|intros H; injection H as <- _; lia].
  destruct r1 as [|a r1']; [intros H; injection H as <- _; cbn [length] in *; lia|].
  destruct (N.eq_dec a 92) as [->|Na].
  2:{ destruct a as [|p]; [intros H; injection H as <- _; lia|]. do 7 (destruct p; try (intros H; injection H as <- _; lia)). exfalso; apply Na; reflexivity. }
  destruct r1' as [|b2 r2]; [intros H; injection H as <- _; cbn [length] in *; lia|].
  destruct (N.eq_dec b2 117) as [->|Nb].
  2:{ destruct b2 as [|p]; [intros H; injection H as <- _; lia|]. do 7 (destruct p; try (intros H; injection H as <- _; lia)). exfalso; apply Nb; reflexivity. }
  destruct (read_unicode_digits r2) as [[lower r3]| |] eqn:R2; cbn [bind]; try discriminate. apply read_unicode_digits_len in R2.
  cbn [length] in R1.
  destruct (decode_hex_escape lower 0) as [n2|]; [|discriminate].
  destruct ((56320 <=? n2) && (n2 <=? 57343)); intros H; injection H as <- _; lia.
Qed.
Lemma parse_string_fuel_nf fuel : forall data buf, (length data < fuel)%nat -> parse_string_fuel fuel data buf <> Err EFuel.
Proof.
  induction fuel as [|f IH]; intros data buf L; [lia|]. cbn [parse_string_fuel].
  destruct data as [|b r]; [destruct (utf8_valid buf); discriminate|]. cbn [length] in L.
  destruct (b =? 92).
  - destruct (parse_escaped_string r) as [[r' chunk]|e|] eqn:P; cbn [bind]; try discriminate.
    + apply parse_escaped_len in P. apply IH. lia.
    + intros H. injection H as ->. revert P. unfold parse_escaped_string. destruct r as [|x d]; [discriminate|].
      repeat match goal with |- context [if ?c =? ?k then _ else _] => destruct (c =? k); [discriminate|] end.
      destruct (x =? 117); [|discriminate].
      assert (RU : forall dd, read_unicode_digits dd <> Err EFuel).
      { intros dd. unfold read_unicode_digits. destruct dd as [|y d']; [discriminate|]. destruct (y =? 123).
        - destruct (length d' <? 4)%nat; [discriminate|]. destruct (skipn 4 d') as [|z r3]; [discriminate|]. destruct (z =? 125); discriminate.
        - destruct (length (y :: d') <? 4)%nat; discriminate. }
      destruct (read_unicode_digits d) as [[numbers r1]|e|] eqn:R1; cbn [bind]; try discriminate.
      2:{ intros H. injection H as ->. exact (RU d R1). }
      destruct (decode_hex_escape numbers 0) as [hex|]; [|discriminate].
      destruct ((56320 <=? hex) && (hex <=? 57343)); [discriminate|].
      destruct ((55296 <=? hex) && (hex <=? 56319)); [|discriminate].
      destruct r1 as [|a r1']; [discriminate|].
      destruct (N.eq_dec a 92) as [->|Na].
      2:{ destruct a as [|p]; [discriminate|]. do 7 (destruct p; try discriminate). exfalso; apply Na; reflexivity. }
      destruct r1' as [|b2 r2]; [discriminate|].
      destruct (N.eq_dec b2 117) as [->|Nb].
      2:{ destruct b2 as [|p]; [discriminate|]. do 7 (destruct p; try discriminate). exfalso; apply Nb; reflexivity. }
      destruct (read_unicode_digits r2) as [[lower r3]|e|] eqn:R2; cbn [bind]; try discriminate.
      2:{ intros H. injection H as ->. exact (RU r2 R2). }
      destruct (decode_hex_escape lower 0) as [n2|]; [|discriminate].
      destruct ((56320 <=? n2) && (n2 <=? 57343)); discriminate.
  - apply IH. lia.
Qed.

Lemma parse_json_string_nf bs : parse_json_string bs <> Err EFuel.
Proof.
  unfold parse_json_string. destruct (scan_string (S (length bs)) bs [] 0) as [[[data esc] rest]|] eqn:E; [|discriminate].
  destruct esc; [destruct (utf8_valid data); discriminate|].
  unfold parse_string. destruct (parse_string_fuel (S (length data)) data []) as [s|e|] eqn:P; cbn [bind]; try discriminate.
  intros H. injection H as ->. revert P. apply parse_string_fuel_nf. lia.
Qed.

Lemma parse_json_number_nf bs : parse_json_number bs <> Err EFuel.
Proof.
  unfold parse_json_number.
  repeat match goal with
         | |- context [let '(_, _) := ?x in _] => destruct x
         | |- context [match ?x with _ => _ end] => destruct x; cbn [bind]; try discriminate
         end.
Qed.

Section LoopsNf.
  Variable pv : list N -> res (value * list N).
  Variable bound : nat.
  Hypothesis Hlen : forall bs v rest, pv bs = Ok (v, rest) -> (length rest < length bs)%nat.
  Hypothesis Hnf : forall bs, (length bs <= bound)%nat -> pv bs <> Err EFuel.

  Lemma arr_loop_nf k : forall first acc bs, (length bs < k)%nat -> (length bs <= bound)%nat -> arr_loop pv k first acc bs <> Err EFuel.
  Proof.
    induction k as [|k IH]; intros first acc bs Lk Lb; [lia|]. cbn [arr_loop].
    pose proof (skip_len bs) as SL. destruct (skip_unused bs) as [|c r]; [discriminate|]. cbn [length] in SL.
    destruct (c =? 93); [discriminate|].
    assert (G : forall bs', (length bs' <= length (c :: r))%nat ->
              (do (v, bs'') <- pv bs'; arr_loop pv k false (v :: acc) bs'') <> Err EFuel).
    { intros bs' Lb'. cbn [length] in Lb'. destruct (pv bs') as [[v bs'']|e|] eqn:P; cbn [bind]; try discriminate.
      - apply Hlen in P. apply IH; lia.
      - intros H. injection H as ->. revert P. apply Hnf. lia. }
    destruct first; [apply G; lia|]. destruct (c =? 44); [apply G; cbn [length]; lia|discriminate].
  Qed.

  Lemma obj_loop_nf k : forall first acc bs, (length bs < k)%nat -> (length bs <= bound)%nat -> obj_loop pv k first acc bs <> Err EFuel.
  Proof.
    induction k as [|k IH]; intros first acc bs Lk Lb; [lia|]. cbn [obj_loop].
    pose proof (skip_len bs) as SL. destruct (skip_unused bs) as [|c r]; [discriminate|]. cbn [length] in SL.
    destruct (c =? 125); [discriminate|].
    assert (G : forall bs', (length bs' <= length (c :: r))%nat ->
              (do (key, bs1) <- pv bs';
               match key with
               | VStr ks => match skip_unused bs1 with
                            | 58 :: bs2 => do (v, bs3) <- pv bs2; obj_loop pv k false (assoc_insert ks v acc) bs3
                            | _ => Err EOther end
               | _ => Err EOther end) <> Err EFuel).
    { intros bs' Lb'. cbn [length] in Lb'. destruct (pv bs') as [[key bs1]|e|] eqn:P; cbn [bind]; try discriminate.
      - apply Hlen in P. destruct key; try discriminate.
        pose proof (skip_len bs1) as SL1. destruct (skip_unused bs1) as [|c2 bs2]; [discriminate|]. cbn [length] in SL1.
        destruct c2 as [|p]; [discriminate|]. do 6 (destruct p as [p|p|]; try discriminate).
        destruct (pv bs2) as [[v bs3]|e|] eqn:P2; cbn [bind]; try discriminate.
        + apply Hlen in P2. apply IH; lia.
        + intros H. injection H as ->. revert P2. apply Hnf. lia.
      - intros H. injection H as ->. revert P. apply Hnf. lia. }
    destruct first; [apply G; lia|]. destruct (c =? 44); [apply G; cbn [length]; lia|discriminate].
  Qed.
End LoopsNf.

Theorem parse_json_value_nf fuel : forall bs, (length bs < fuel)%nat -> parse_json_value fuel bs <> Err EFuel.
Proof.
  induction fuel as [|f IH]; intros bs L; [lia|]. cbn [parse_json_value].
  pose proof (skip_len bs) as SL. destruct (skip_unused bs) as [|c r]; [discriminate|]. cbn [length] in SL.
  destruct (c =? 110); [destruct (expect _ r); discriminate|].
  destruct (c =? 116); [destruct (expect _ r); discriminate|].
  destruct (c =? 102); [destruct (expect _ r); discriminate|].
  destruct (is_digit c || (c =? 45)); [apply parse_json_number_nf|].
  destruct (c =? 34).
  { destruct (parse_json_string r) as [[s r']|e|] eqn:P; cbn [bind]; try discriminate.
    intros H. injection H as ->. exact (parse_json_string_nf r P). }
  assert (IH' : forall bs0, (length bs0 <= length r)%nat -> parse_json_value f bs0 <> Err EFuel) by (intros bs0 L0; apply IH; lia).
  destruct (c =? 91); [apply (arr_loop_nf _ (length r) (pv_consumes f) IH'); lia|].
  destruct (c =? 123); [apply (obj_loop_nf _ (length r) (pv_consumes f) IH'); lia|discriminate].
Qed.

Theorem parse_value_not_fuel bs : parse_value bs <> Err EFuel.
Proof.
  unfold parse_value. destruct (parse_json_value (S (length bs)) bs) as [[v rest]|e|] eqn:P; cbn [bind]; try discriminate.
  - destruct (skip_unused rest); discriminate.
  - intros H. injection H as ->. revert P. apply parse_json_value_nf. lia.
Qed.

Theorem from_slice_not_fuel bs : from_slice bs <> Err EFuel.
Proof. unfold from_slice. destruct (parse_jsonb bs); [discriminate|apply parse_value_not_fuel|discriminate]. Qed.
