(* JsonGrammarProofs.v — the parser model (JsonText.v) accepts exactly the language of JsonGrammar.v, with its meaning:
     completeness  jtext t v -> parse_value t = Ok v
     soundness     parse_value bs = Ok v -> jtext bs v
   Layout: whitespace, hex digits, the two string passes, numbers, values (arrays / objects), top level. *)
From Coq Require Import List NArith ZArith Bool Lia.
Import ListNotations.
From JB Require Import Constants Bytes Utf8 Num Value Decimal JsonText TextProofs OrderProofs TextRoundtrip JsonGrammar.
Open Scope N_scope.
Set Default Timeout 60.

(* case analysis of a byte against the literals of a pattern: after it every `match a with <literal> => .. end` computes *)
Ltac kill_lit a :=
  destruct a as [|a]; [try reflexivity|];
  do 8 (try (destruct a as [a|a|]; try reflexivity)).

(* ================================================================== whitespace *)
Definition token_start (rest : list N) : Prop :=
  match rest with [] => True | c :: _ => is_ws c = false /\ c <> 92 end.

Lemma skip_fuel_complete w : jws w -> forall fuel rest, token_start rest -> (length w < fuel)%nat ->
  skip_unused_fuel fuel (w ++ rest) = rest.
Proof.
  induction 1 as [|c w Hc Hw IH|w Hw IH|x w Hx Hw IH|w Hw IH]; intros fuel rest Hr Hf;
    (destruct fuel as [|fuel]; [cbn [length] in Hf; lia|]); cbn [length] in Hf.
  - cbn [app]. destruct rest as [|c r]; [reflexivity|]. destruct Hr as [H1 H2]. cbn [skip_unused_fuel]. rewrite H1.
    apply N.eqb_neq in H2. rewrite H2. reflexivity.
  - cbn [app skip_unused_fuel]. replace (is_ws c) with true by (destruct Hc as [->|[->|[->| ->]]]; reflexivity).
    apply IH; [exact Hr|lia].
  - cbn [app skip_unused_fuel]. change (is_ws 12) with true. cbv iota. apply IH; [exact Hr|lia].
  - cbn [app skip_unused_fuel]. change (is_ws 92) with false. change (92 =? 92) with true. cbv iota.
    replace ((x =? 110) || (x =? 114) || (x =? 116)) with true by (destruct Hx as [->|[->| ->]]; reflexivity).
    apply IH; [exact Hr|lia].
  - cbn [app skip_unused_fuel]. change (is_ws 92) with false. change (92 =? 92) with true.
    change ((120 =? 110) || (120 =? 114) || (120 =? 116)) with false. cbv iota. apply IH; [exact Hr|lia].
Qed.

Lemma skip_complete w rest : jws w -> token_start rest -> skip_unused (w ++ rest) = rest.
Proof. intros Hw Hr. unfold skip_unused. apply skip_fuel_complete; [exact Hw|exact Hr|rewrite app_length; lia]. Qed.
Lemma skip_complete_end w : jws w -> skip_unused w = [].
Proof. intros Hw. pose proof (skip_complete w [] Hw I) as E. rewrite app_nil_r in E. exact E. Qed.

Lemma is_ws_jws c w : is_ws c = true -> jws w -> jws (c :: w).
Proof.
  unfold is_ws. intros H Hw. repeat (apply orb_true_iff in H; destruct H as [H|H]); apply N.eqb_eq in H; subst c;
    first [apply WS_form_feed; exact Hw | apply WS_rfc; [tauto|exact Hw]].
Qed.

(* the four-byte pattern of skip_unused, as a test *)
Lemma x0C_cases (r : list N) :
  (exists r3, r = 120 :: 48 :: 67 :: r3) \/
  (forall (A : Type) (f : list N -> A) (g : A), match r with 120 :: 48 :: 67 :: r3 => f r3 | _ => g end = g).
Proof.
  destruct r as [|a r]; [right; reflexivity|].
  destruct (N.eq_dec a 120) as [->|Na]; [|right; intros A f g; kill_lit a; exfalso; apply Na; reflexivity].
  destruct r as [|b r]; [right; reflexivity|].
  destruct (N.eq_dec b 48) as [->|Nb]; [|right; intros A f g; kill_lit b; exfalso; apply Nb; reflexivity].
  destruct r as [|c r]; [right; reflexivity|].
  destruct (N.eq_dec c 67) as [->|Nc]; [|right; intros A f g; kill_lit c; exfalso; apply Nc; reflexivity].
  left. exists r. reflexivity.
Qed.

Lemma skip_fuel_sound fuel : forall bs, exists w, bs = w ++ skip_unused_fuel fuel bs /\ jws w.
Proof.
  induction fuel as [|fuel IH]; intros bs; [exists []; split; [reflexivity|constructor]|].
  destruct bs as [|c r]; [exists []; split; [reflexivity|constructor]|]. cbn [skip_unused_fuel].
  destruct (is_ws c) eqn:Ec.
  - destruct (IH r) as (w & E & Hw). exists (c :: w). split; [cbn [app]; rewrite <- E; reflexivity|apply is_ws_jws; assumption].
  - destruct (c =? 92) eqn:E92; [|exists []; split; [reflexivity|constructor]].
    apply N.eqb_eq in E92. subst c. destruct r as [|x r1]; [exists []; split; [reflexivity|constructor]|].
    destruct ((x =? 110) || (x =? 114) || (x =? 116)) eqn:Ex.
    + destruct (IH r1) as (w & E & Hw). exists (92 :: x :: w). split; [cbn [app]; rewrite <- E; reflexivity|].
      apply WS_escaped; [|exact Hw]. repeat (apply orb_true_iff in Ex; destruct Ex as [Ex|Ex]); apply N.eqb_eq in Ex; tauto.
    + destruct (x0C_cases (x :: r1)) as [(r3 & E3)|E3].
      * injection E3 as -> ->. cbv iota. destruct (IH r3) as (w & E & Hw). exists (92 :: 120 :: 48 :: 67 :: w).
        split; [cbn [app]; rewrite <- E; reflexivity|apply WS_escaped_form_feed; exact Hw].
      * rewrite E3. exists []. split; [reflexivity|constructor].
Qed.
Lemma skip_sound bs : exists w, bs = w ++ skip_unused bs /\ jws w.
Proof. apply skip_fuel_sound. Qed.

Lemma jws_app w1 w2 : jws w1 -> jws w2 -> jws (w1 ++ w2).
Proof.
  induction 1; intros H2; cbn [app];
    [exact H2|apply WS_rfc; auto|apply WS_form_feed; auto|apply WS_escaped; auto|apply WS_escaped_form_feed; auto].
Qed.

(* ================================================================== hex digits *)
Lemma nth_opt_beyond {A} (l : list A) : forall n, (length l <= n)%nat -> nth_opt l n = None.
Proof. induction l as [|x l IH]; intros n H; [destruct n; reflexivity|]. destruct n; cbn [length] in H; [lia|]. cbn [nth_opt]. apply IH. lia. Qed.

Definition opt_eqb (a b : option N) : bool :=
  match a, b with Some x, Some y => x =? y | None, None => true | _, _ => false end.
Lemma hex_table_check : forallb (fun c => opt_eqb (hex_val c) (hexdigit c)) (map N.of_nat (seq 0 256)) = true.
Proof. vm_compute. reflexivity. Qed.

Lemma hex_val_hexdigit c : hex_val c = hexdigit c.
Proof.
  destruct (N.lt_ge_cases c 256) as [Hc|Hc].
  - pose proof hex_table_check as T. rewrite forallb_forall in T. specialize (T c (in_seq_N c 0 256 ltac:(lia) ltac:(cbn; lia))).
    unfold opt_eqb in T. destruct (hex_val c), (hexdigit c); try discriminate; [apply N.eqb_eq in T; subst; reflexivity|reflexivity].
  - unfold hex_val. rewrite nth_opt_beyond by (change (length HEX_TABLE) with 256%nat; lia).
    unfold hexdigit.
    replace ((48 <=? c) && (c <=? 57)) with false by (symmetry; apply andb_false_iff; right; apply N.leb_gt; lia).
    replace ((65 <=? c) && (c <=? 70)) with false by (symmetry; apply andb_false_iff; right; apply N.leb_gt; lia).
    replace ((97 <=? c) && (c <=? 102)) with false by (symmetry; apply andb_false_iff; right; apply N.leb_gt; lia).
    reflexivity.
Qed.

Lemma hex4_decode d n : hex4 d = Some n <-> (length d = 4%nat /\ decode_hex_escape d 0 = Some n).
Proof.
  split.
  - intros H. do 4 (destruct d as [|? d]; [discriminate H|]). destruct d; [|discriminate H]. split; [reflexivity|].
    cbn [hex4] in H. cbn [decode_hex_escape]. rewrite !hex_val_hexdigit.
    destruct (hexdigit n0); [|discriminate H]. destruct (hexdigit n1); [|discriminate H].
    destruct (hexdigit n2); [|discriminate H]. destruct (hexdigit n3); [|discriminate H].
    rewrite N.mul_0_l, N.add_0_l. exact H.
  - intros [Hl H]. do 4 (destruct d as [|? d]; [discriminate Hl|]). destruct d; [|discriminate Hl].
    cbn [hex4]. cbn [decode_hex_escape] in H. rewrite !hex_val_hexdigit in H.
    destruct (hexdigit n0); [|discriminate H]. destruct (hexdigit n1); [|discriminate H].
    destruct (hexdigit n2); [|discriminate H]. destruct (hexdigit n3); [|discriminate H].
    rewrite N.mul_0_l, N.add_0_l in H. exact H.
Qed.

Lemma hex4_head d n : hex4 d = Some n -> hd 0 d <> 123.
Proof.
  intros H. do 4 (destruct d as [|? d]; [discriminate H|]). cbn [hd]. intros ->. destruct d; discriminate H.
Qed.

(* ================================================================== the second pass, one escape *)
(* parse_escaped_string after the 'u', cut into named pieces (same term: pes_u is by reflexivity) *)
Definition second_escape (numbers r2 : list N) (hex : N) : res (list N * list N) :=
  do (lower, r3) <- read_unicode_digits r2;
  match decode_hex_escape lower 0 with
  | None => Err EOther
  | Some n2 =>
      if (56320 <=? n2) && (n2 <=? 57343) then
        Ok (r3, utf8_encode (((hex - 55296) * 1024 + (n2 - 56320)) + 65536))
      else Ok (r3, invalid_unicode numbers ++ invalid_unicode lower)
  end.
Definition after_high (numbers r1 : list N) (hex : N) : res (list N * list N) :=
  match r1 with
  | 92 :: 117 :: r2 => second_escape numbers r2 hex
  | _ => Ok (r1, invalid_unicode numbers)
  end.
Definition after_u (r : list N) : res (list N * list N) :=
  do (numbers, r1) <- read_unicode_digits r;
  match decode_hex_escape numbers 0 with
  | None => Err EOther
  | Some hex =>
      if (56320 <=? hex) && (hex <=? 57343) then Ok (r1, invalid_unicode numbers)
      else if (55296 <=? hex) && (hex <=? 56319) then after_high numbers r1 hex
      else Ok (r1, utf8_encode hex)
  end.
Lemma pes_u r : parse_escaped_string (117 :: r) = after_u r.
Proof. reflexivity. Qed.

Lemma after_high_eq numbers r1 hex :
  after_high numbers r1 hex =
  if starts_u_escape r1 then second_escape numbers (skipn 2 r1) hex else Ok (r1, invalid_unicode numbers).
Proof.
  unfold after_high, starts_u_escape. destruct r1 as [|a r1]; [reflexivity|].
  destruct (N.eqb_spec a 92) as [->|Na].
  - destruct r1 as [|b r2]; [reflexivity|]. destruct (N.eqb_spec b 117) as [->|Nb]; [reflexivity|].
    cbn [andb]. kill_lit b. exfalso; apply Nb; reflexivity.
  - destruct r1 as [|b r2]; cbn [andb]; kill_lit a; exfalso; apply Na; reflexivity.
Qed.

(* what the parser reads for one well-formed \u escape *)
Lemma uescape_read e d n : uescape e d n ->
  exists e', e = 92 :: 117 :: e' /\ (forall t, read_unicode_digits (e' ++ t) = Ok (d, t)) /\ decode_hex_escape d 0 = Some n.
Proof.
  intros [d0 n0 H|d0 n0 H]; pose proof (proj1 (hex4_decode _ _) H) as [Hl Hd].
  - exists d0. split; [reflexivity|]. split; [|exact Hd]. intros t. apply read_digits_u4; [exact Hl|eapply hex4_head; eauto].
  - exists (123 :: d0 ++ [125]). split; [reflexivity|]. split; [|exact Hd]. intros t.
    do 4 (destruct d0 as [|? d0]; [discriminate Hl|]). destruct d0; [|discriminate Hl]. reflexivity.
Qed.

Lemma high_not_low n : is_high n = true -> is_low n = false.
Proof. unfold is_high, is_low. intros H. apply andb_true_iff in H. destruct H as [H1 H2]. apply N.leb_le in H2. apply andb_false_iff. left. apply N.leb_gt. lia. Qed.

(* ---- completeness: each production of jstring_body is what one step of the second pass computes *)
Lemma pes_short x b t : short_escape x = Some b -> parse_escaped_string (x :: t) = Ok (t, [b]).
Proof.
  unfold short_escape. intros H. cbn [parse_escaped_string].
  repeat match type of H with
         | (if ?c =? ?k then _ else _) = _ => destruct (N.eqb_spec c k) as [->|?]; [injection H as <-; reflexivity|]
         end.
  discriminate H.
Qed.

Lemma after_u_unicode e' d n t : (forall t, read_unicode_digits (e' ++ t) = Ok (d, t)) -> decode_hex_escape d 0 = Some n ->
  is_high n = false -> is_low n = false -> after_u (e' ++ t) = Ok (t, utf8_encode n).
Proof.
  intros R D H L. unfold after_u. rewrite R. cbn [bind]. rewrite D. fold (is_low n). fold (is_high n). rewrite H, L. reflexivity.
Qed.
Lemma after_u_low e' d n t : (forall t, read_unicode_digits (e' ++ t) = Ok (d, t)) -> decode_hex_escape d 0 = Some n ->
  is_low n = true -> after_u (e' ++ t) = Ok (t, kept_literally d).
Proof. intros R D L. unfold after_u. rewrite R. cbn [bind]. rewrite D. fold (is_low n). rewrite L. reflexivity. Qed.
Lemma after_u_high e' d n t : (forall t, read_unicode_digits (e' ++ t) = Ok (d, t)) -> decode_hex_escape d 0 = Some n ->
  is_high n = true -> after_u (e' ++ t) = after_high d t n.
Proof.
  intros R D H. unfold after_u. rewrite R. cbn [bind]. rewrite D. fold (is_low n). fold (is_high n).
  rewrite (high_not_low n H), H. reflexivity.
Qed.
Lemma second_escape_eq numbers hex e' d n t : (forall t, read_unicode_digits (e' ++ t) = Ok (d, t)) -> decode_hex_escape d 0 = Some n ->
  second_escape numbers (e' ++ t) hex =
  if is_low n then Ok (t, utf8_encode (pair_code_point hex n)) else Ok (t, kept_literally numbers ++ kept_literally d).
Proof.
  intros R D. unfold second_escape. rewrite R. cbn [bind]. rewrite D. fold (is_low n).
  destruct (is_low n); [|reflexivity]. unfold pair_code_point. do 3 f_equal. lia.
Qed.

Ltac len_in H := repeat (progress cbn [length app] in H || rewrite app_length in H).
(* ---- the second pass on a whole body *)
Lemma parse_string_complete body s : jstring_body body s -> forall fuel buf, (length body < fuel)%nat ->
  parse_string_fuel fuel body buf = if utf8_valid (buf ++ s) then Ok (buf ++ s) else Err EOther.
Proof.
  induction 1 as [|c t s N34 N92 Hb IH|x b t s Hx Hb IH|e d n t s U NH NL Hb IH|e1 d1 hi e2 d2 lo t s U1 H1 U2 L2 Hb IH
                  |e d n t s U L Hb IH|e d n t s U H NU Hb IH|e1 d1 hi e2 d2 x t s U1 H1 U2 NL2 Hb IH];
    intros fuel buf Hf; (destruct fuel as [|fuel]; [cbn [length] in Hf; lia|]).
  - cbn [parse_string_fuel]. rewrite app_nil_r. reflexivity.
  - cbn [parse_string_fuel]. apply N.eqb_neq in N92. rewrite N92. rewrite IH by (cbn [length] in Hf; lia).
    rewrite <- app_assoc. reflexivity.
  - cbn [parse_string_fuel]. change (92 =? 92) with true. cbv iota. rewrite (pes_short x b t Hx). cbn [bind].
    rewrite IH by (cbn [length] in Hf; lia). rewrite <- app_assoc. reflexivity.
  - destruct (uescape_read e d n U) as (e' & -> & R & D). cbn [app parse_string_fuel]. change (92 =? 92) with true. cbv iota.
    rewrite pes_u, (after_u_unicode e' d n t R D NH NL). cbn [bind].
    rewrite IH by (len_in Hf; lia). rewrite <- app_assoc. reflexivity.
  - destruct (uescape_read e1 d1 hi U1) as (e1' & -> & R1 & D1). destruct (uescape_read e2 d2 lo U2) as (e2' & -> & R2 & D2).
    cbn [app parse_string_fuel]. change (92 =? 92) with true. cbv iota.
    rewrite pes_u, (after_u_high e1' d1 hi _ R1 D1 H1), after_high_eq. cbn [starts_u_escape skipn]. change ((92 =? 92) && (117 =? 117)) with true. cbv iota.
    rewrite (second_escape_eq d1 hi e2' d2 lo t R2 D2), L2. cbn [bind].
    rewrite IH by (len_in Hf; lia). rewrite <- app_assoc. reflexivity.
  - destruct (uescape_read e d n U) as (e' & -> & R & D). cbn [app parse_string_fuel]. change (92 =? 92) with true. cbv iota.
    rewrite pes_u, (after_u_low e' d n t R D L). cbn [bind].
    rewrite IH by (len_in Hf; lia). rewrite <- app_assoc. reflexivity.
  - destruct (uescape_read e d n U) as (e' & -> & R & D). cbn [app parse_string_fuel]. change (92 =? 92) with true. cbv iota.
    rewrite pes_u, (after_u_high e' d n t R D H), after_high_eq, NU. cbn [bind].
    rewrite IH by (len_in Hf; lia). rewrite <- app_assoc. reflexivity.
  - destruct (uescape_read e1 d1 hi U1) as (e1' & -> & R1 & D1). destruct (uescape_read e2 d2 x U2) as (e2' & -> & R2 & D2).
    cbn [app parse_string_fuel]. change (92 =? 92) with true. cbv iota.
    rewrite pes_u, (after_u_high e1' d1 hi _ R1 D1 H1), after_high_eq. cbn [starts_u_escape skipn]. change ((92 =? 92) && (117 =? 117)) with true. cbv iota.
    rewrite (second_escape_eq d1 hi e2' d2 x t R2 D2), NL2. cbn [bind].
    rewrite IH by (len_in Hf; lia). rewrite <- !app_assoc. reflexivity.
Qed.

(* ================================================================== the first pass *)
(* the token shapes the blind first pass steps over (esc_ok of TextProofs, plus: a plain byte is not a quote) *)
Inductive scanned : list N -> Prop :=
| sc_nil : scanned []
| sc_plain c r : c <> 92 -> c <> 34 -> scanned r -> scanned (c :: r)
| sc_short n r : n <> 117 -> scanned r -> scanned (92 :: n :: r)
| sc_u4 d r : length d = 4%nat -> hd 0 d <> 123 -> scanned r -> scanned (92 :: 117 :: d ++ r)
| sc_u6 d r : length d = 5%nat -> scanned r -> scanned (92 :: 117 :: 123 :: d ++ r).

Lemma uescape_scanned e d n r : uescape e d n -> scanned r -> scanned (e ++ r).
Proof.
  intros [d0 n0 H|d0 n0 H] Hr; pose proof (proj1 (hex4_decode _ _) H) as [Hl _].
  - cbn [app]. apply sc_u4; [exact Hl|eapply hex4_head; eauto|exact Hr].
  - cbn [app]. apply (sc_u6 (d0 ++ [125]) r); [rewrite app_length; cbn [length]; lia|exact Hr].
Qed.
Lemma short_escape_not_u x b : short_escape x = Some b -> x <> 117.
Proof. intros H ->. discriminate H. Qed.

Lemma body_scanned body s : jstring_body body s -> scanned body.
Proof.
  induction 1; try rewrite app_assoc; try (constructor; assumption).
  - apply sc_short; [eapply short_escape_not_u; eauto|assumption].
  - eapply uescape_scanned; eauto.
  - rewrite <- app_assoc. eapply uescape_scanned; eauto. eapply uescape_scanned; eauto.
  - eapply uescape_scanned; eauto.
  - eapply uescape_scanned; eauto.
  - rewrite <- app_assoc. eapply uescape_scanned; eauto. eapply uescape_scanned; eauto.
Qed.

Lemma scan_complete body : scanned body -> forall fuel acc esc rest, (length body < fuel)%nat ->
  exists k, scan_string fuel (body ++ 34 :: rest) acc esc = Some (rev acc ++ body, (esc + k)%nat, rest) /\
            (k = 0%nat -> Forall (fun c => c <> 92) body).
Proof.
  induction 1 as [|c r N92 N34 Hr IH|n r Nu Hr IH|d r Hl Hh Hr IH|d r Hl Hr IH]; intros fuel acc esc rest Hf;
    (destruct fuel as [|fuel]; [cbn [length] in Hf; lia|]).
  - exists 0%nat. cbn [app scan_string]. change (34 =? 92) with false. change (34 =? 34) with true. cbv iota.
    rewrite app_nil_r, Nat.add_0_r. split; [reflexivity|constructor].
  - cbn [app scan_string]. apply N.eqb_neq in N92. apply N.eqb_neq in N34. rewrite N92, N34.
    destruct (IH fuel (c :: acc) esc rest ltac:(cbn [length] in Hf; lia)) as (k & E & K). exists k. rewrite E.
    cbn [rev]. rewrite <- app_assoc. split; [reflexivity|]. intros K0. constructor; [apply N.eqb_neq; exact N92|auto].
  - cbn [app scan_string]. change (92 =? 92) with true. cbv iota. apply N.eqb_neq in Nu. rewrite Nu.
    destruct (IH fuel (n :: 92 :: acc) (S esc) rest ltac:(cbn [length] in Hf; lia)) as (k & E & K). exists (S k). rewrite E.
    cbn [rev]. rewrite <- !app_assoc. cbn [app]. split; [do 2 f_equal; f_equal; lia|intros; discriminate].
  - do 4 (destruct d as [|? d]; [discriminate Hl|]). destruct d; [|discriminate Hl]. cbn [hd] in Hh. apply N.eqb_neq in Hh.
    cbn [app scan_string]. change (92 =? 92) with true. change (117 =? 117) with true. cbv iota. rewrite Hh. cbn [skipn firstn rev app].
    destruct (IH fuel (n2 :: n1 :: n0 :: n :: 117 :: 92 :: acc) (S esc) rest ltac:(cbn [length app] in Hf; lia)) as (k & E & K). exists (S k). rewrite E.
    cbn [rev]. rewrite <- !app_assoc. cbn [app]. split; [do 2 f_equal; f_equal; lia|intros; discriminate].
  - do 5 (destruct d as [|? d]; [discriminate Hl|]). destruct d; [|discriminate Hl].
    cbn [app scan_string]. change (92 =? 92) with true. change (117 =? 117) with true. change (123 =? 123) with true. cbv iota. cbn [skipn firstn rev app].
    destruct (IH fuel (n3 :: n2 :: n1 :: n0 :: n :: 123 :: 117 :: 92 :: acc) (S esc) rest ltac:(cbn [length app] in Hf; lia)) as (k & E & K). exists (S k). rewrite E.
    cbn [rev]. rewrite <- !app_assoc. cbn [app]. split; [do 2 f_equal; f_equal; lia|intros; discriminate].
Qed.

Lemma uescape_head e d n : uescape e d n -> exists e', e = 92 :: e'.
Proof. intros [? ? ?|? ? ?]; eexists; reflexivity. Qed.
Lemma body_without_escapes body s : jstring_body body s -> Forall (fun c => c <> 92) body -> body = s.
Proof.
  induction 1 as [|c t s N34 N92 Hb IH|x b t s Hx Hb IH|e d n t s U NH NL Hb IH|e1 d1 hi e2 d2 lo t s U1 H1 U2 L2 Hb IH
                  |e d n t s U L Hb IH|e d n t s U H NU Hb IH|e1 d1 hi e2 d2 x t s U1 H1 U2 NL2 Hb IH]; intros F;
    try reflexivity;
    try (match goal with U : uescape ?e _ _ |- (?e ++ _) = _ => destruct (uescape_head _ _ _ U) as (e' & ->) end;
         inversion F as [|? ? F1 _]; exfalso; apply F1; reflexivity).
  - inversion F; subst. f_equal. auto.
  - inversion F as [|? ? F1 _]. exfalso; apply F1; reflexivity.
Qed.

(* a string literal of the grammar, after its opening quote *)
Theorem string_complete b s rest : jstring_body b s -> utf8_valid s = true -> parse_json_string (b ++ 34 :: rest) = Ok (s, rest).
Proof.
  intros Hb Hu. unfold parse_json_string.
  destruct (scan_complete b (body_scanned b s Hb) (S (length (b ++ 34 :: rest))) [] 0%nat rest ltac:(rewrite app_length; lia)) as (k & E & K).
  rewrite E. cbn [rev app Nat.add]. destruct k as [|k].
  - rewrite (body_without_escapes b s Hb (K eq_refl)), Hu. reflexivity.
  - unfold parse_string. rewrite (parse_string_complete b s Hb) by lia. cbn [app]. rewrite Hu. reflexivity.
Qed.

(* ---- soundness of the first pass: it stops at the first quote that is not inside one of its tokens *)
Lemma scan_sound fuel : forall bs acc esc data e rest,
  scan_string fuel bs acc esc = Some (data, e, rest) ->
  exists body, data = rev acc ++ body /\ bs = body ++ 34 :: rest /\ scanned body /\ (esc <= e)%nat /\
               (e = esc -> Forall (fun c => c <> 92) body).
Proof.
  induction fuel as [|fuel IH]; intros bs acc esc data e rest H; cbn [scan_string] in H; [discriminate|].
  destruct bs as [|c r]; [discriminate|].
  destruct (c =? 92) eqn:Ec.
  - apply N.eqb_eq in Ec. subst c. destruct r as [|n r']; [discriminate|].
    destruct (n =? 117) eqn:En.
    + apply N.eqb_eq in En. subst n. destruct r' as [|m r'']; [discriminate|].
      set (k := if m =? 123 then 6%nat else 4%nat) in *.
      destruct (Nat.le_gt_cases k (length (m :: r''))) as [Hk|Hk].
      * apply IH in H. destruct H as (body & Hd & Hbs & Hb & Hle & _).
        rewrite rev_app_distr, rev_involutive in Hd. cbn [rev] in Hd. rewrite <- !app_assoc in Hd. cbn [app] in Hd.
        exists (92 :: 117 :: firstn k (m :: r'') ++ body). split; [exact Hd|].
        split; [cbn [app]; rewrite <- app_assoc, <- Hbs, firstn_skipn; reflexivity|].
        split; [|split; [lia|intros; lia]].
        unfold k in *. destruct (m =? 123) eqn:Em.
        -- apply N.eqb_eq in Em. subst m. change 6%nat with (S 5). rewrite firstn_cons. cbn [app]. apply sc_u6; [|exact Hb].
           rewrite firstn_length. cbn [length] in Hk. lia.
        -- apply sc_u4; [rewrite firstn_length; lia| |exact Hb]. change 4%nat with (S 3). rewrite firstn_cons. cbn [hd]. apply N.eqb_neq. exact Em.
      * rewrite skipn_all2 in H by lia. destruct fuel; cbn [scan_string] in H; discriminate.
    + apply IH in H. destruct H as (body & Hd & Hbs & Hb & Hle & _). cbn [rev] in Hd. rewrite <- !app_assoc in Hd. cbn [app] in Hd.
      exists (92 :: n :: body). split; [exact Hd|]. split; [cbn [app]; rewrite <- Hbs; reflexivity|].
      split; [apply sc_short; [apply N.eqb_neq; exact En|exact Hb]|]. split; [lia|intros; lia].
  - destruct (c =? 34) eqn:Eq.
    + apply N.eqb_eq in Eq. inversion H; subst. exists []. rewrite app_nil_r. repeat split; [constructor|lia|constructor].
    + apply IH in H. destruct H as (body & Hd & Hbs & Hb & Hle & Hne). cbn [rev] in Hd. rewrite <- app_assoc in Hd. cbn [app] in Hd.
      exists (c :: body). split; [exact Hd|]. split; [cbn [app]; rewrite <- Hbs; reflexivity|].
      split; [apply sc_plain; [apply N.eqb_neq; exact Ec|apply N.eqb_neq; exact Eq|exact Hb]|]. split; [exact Hle|].
      intros E. constructor; [apply N.eqb_neq; exact Ec|auto].
Qed.

Lemma plain_body body : scanned body -> Forall (fun c => c <> 92) body -> jstring_body body body.
Proof.
  induction 1 as [|c r N92 N34 Hr IH|n r Nu Hr IH|d r Hl Hh Hr IH|d r Hl Hr IH]; intros F;
    try (inversion F as [|? ? F1 _]; exfalso; apply F1; reflexivity).
  - constructor.
  - inversion F; subst. apply B_raw; auto.
Qed.

(* ---- soundness of the second pass *)
Lemma scanned_u_inv r : scanned (92 :: 117 :: r) ->
  (exists d r0, r = d ++ r0 /\ length d = 4%nat /\ hd 0 d <> 123 /\ scanned r0) \/
  (exists d r0, r = 123 :: d ++ r0 /\ length d = 5%nat /\ scanned r0).
Proof.
  intros H. inversion H; subst.
  - exfalso; auto.
  - exfalso; auto.
  - left. eauto 10.
  - right. eauto 10.
Qed.

Lemma read_sound r numbers r1 n : scanned (92 :: 117 :: r) -> read_unicode_digits r = Ok (numbers, r1) ->
  decode_hex_escape numbers 0 = Some n ->
  exists e', r = e' ++ r1 /\ uescape (92 :: 117 :: e') numbers n /\ scanned r1.
Proof.
  intros S R D. destruct (scanned_u_inv r S) as [(d & r0 & -> & Hl & Hh & S0)|(d & r0 & -> & Hl & S0)].
  - rewrite (read_digits_u4 d r0 Hl Hh) in R. injection R as <- <-. exists d. split; [reflexivity|]. split; [|exact S0].
    apply U_plain. apply hex4_decode. split; assumption.
  - do 5 (destruct d as [|? d]; [discriminate Hl|]). destruct d; [|discriminate Hl].
    cbn [read_unicode_digits app] in R. change (123 =? 123) with true in R. cbv iota in R.
    cbn [length Nat.ltb Nat.leb firstn skipn] in R.
    destruct (n4 =? 125) eqn:E5; [|discriminate R]. apply N.eqb_eq in E5. subst n4. injection R as <- <-.
    exists (123 :: [n0; n1; n2; n3] ++ [125]). split; [reflexivity|]. split; [|exact S0].
    apply (U_braced [n0; n1; n2; n3]). apply hex4_decode. split; [reflexivity|exact D].
Qed.

Lemma starts_u_cases r1 : starts_u_escape r1 = false \/ exists r2, r1 = 92 :: 117 :: r2.
Proof.
  destruct r1 as [|a [|b r2]]; [left; reflexivity|left; reflexivity|]. cbn [starts_u_escape].
  destruct (N.eqb_spec a 92) as [->|]; [|left; reflexivity]. destruct (N.eqb_spec b 117) as [->|]; [|left; reflexivity].
  right. eauto.
Qed.

Lemma after_u_sound r r' chunk : scanned (92 :: 117 :: r) -> after_u r = Ok (r', chunk) ->
  scanned r' /\ forall s, jstring_body r' s -> jstring_body (92 :: 117 :: r) (chunk ++ s).
Proof.
  intros S H. unfold after_u in H.
  destruct (read_unicode_digits r) as [[numbers r1]| |] eqn:R; try discriminate H. cbn [bind] in H.
  destruct (decode_hex_escape numbers 0) as [hex|] eqn:D; [|discriminate H].
  destruct (read_sound r numbers r1 hex S R D) as (e' & -> & U & S1).
  fold (is_low hex) in H. fold (is_high hex) in H.
  destruct (is_low hex) eqn:L.
  - injection H as <- <-. split; [exact S1|]. intros s Hs. apply (B_lone_low _ _ _ _ _ U L Hs).
  - destruct (is_high hex) eqn:Hh.
    + rewrite after_high_eq in H. destruct (starts_u_cases r1) as [NU|(r2 & ->)].
      * rewrite NU in H. injection H as <- <-. split; [exact S1|]. intros s Hs. apply (B_lone_high _ _ _ _ _ U Hh NU Hs).
      * cbn [starts_u_escape skipn] in H. change ((92 =? 92) && (117 =? 117)) with true in H. cbv iota in H.
        unfold second_escape in H.
        destruct (read_unicode_digits r2) as [[lower r3]| |] eqn:R2; try discriminate H. cbn [bind] in H.
        destruct (decode_hex_escape lower 0) as [n2|] eqn:D2; [|discriminate H].
        destruct (read_sound r2 lower r3 n2 S1 R2 D2) as (e2' & -> & U2 & S3).
        fold (is_low n2) in H.
        assert (A : forall X, 92 :: 117 :: e' ++ 92 :: 117 :: e2' ++ X = (92 :: 117 :: e') ++ (92 :: 117 :: e2') ++ X) by (intros; reflexivity).
        destruct (is_low n2) eqn:L2.
        -- injection H as <- <-. split; [exact S3|]. intros s Hs. rewrite A.
           replace (((hex - 55296) * 1024 + (n2 - 56320)) + 65536) with (pair_code_point hex n2) by (unfold pair_code_point; lia).
           apply (B_pair _ _ _ _ _ _ _ _ U Hh U2 L2 Hs).
        -- injection H as <- <-. split; [exact S3|]. intros s Hs. rewrite A. cbn [app]. rewrite <- app_assoc.
           change (jstring_body ((92 :: 117 :: e') ++ (92 :: 117 :: e2') ++ r3) (kept_literally numbers ++ kept_literally lower ++ s)).
           apply (DEV_B_high_then_not_low _ _ _ _ _ _ _ _ U Hh U2 L2 Hs).
    + injection H as <- <-. split; [exact S1|]. intros s Hs. apply (B_unicode _ _ _ _ _ U Hh L Hs).
Qed.

Lemma escape_sound r r' chunk : scanned (92 :: r) -> parse_escaped_string r = Ok (r', chunk) ->
  scanned r' /\ forall s, jstring_body r' s -> jstring_body (92 :: r) (chunk ++ s).
Proof.
  intros S H. destruct r as [|x t]; [discriminate H|].
  destruct (N.eq_dec x 117) as [->|Nu]; [rewrite pes_u in H; apply after_u_sound; assumption|].
  assert (St : scanned t).
  { inversion S; subst; try assumption; exfalso; auto. }
  cbn [parse_escaped_string] in H.
  repeat match type of H with
         | (if ?c =? ?k then _ else _) = _ =>
             destruct (N.eqb_spec c k) as [->|?];
             [first [exfalso; apply Nu; reflexivity
                    |injection H as <- <-; split; [exact St|]; intros s Hs; apply B_short; [reflexivity|exact Hs]]|]
         end.
  discriminate H.
Qed.

Lemma parse_string_sound fuel : forall data buf s, scanned data -> parse_string_fuel fuel data buf = Ok s ->
  exists s', s = buf ++ s' /\ jstring_body data s' /\ utf8_valid s = true.
Proof.
  induction fuel as [|fuel IH]; intros data buf s S H; cbn [parse_string_fuel] in H; [discriminate H|].
  destruct data as [|b r].
  - destruct (utf8_valid buf) eqn:V; [|discriminate H]. injection H as <-. exists []. rewrite app_nil_r. repeat split; [constructor|exact V].
  - destruct (b =? 92) eqn:Eb.
    + apply N.eqb_eq in Eb. subst b.
      destruct (parse_escaped_string r) as [[r' chunk]| |] eqn:P; try discriminate H. cbn [bind] in H.
      destruct (escape_sound r r' chunk S P) as (S' & J).
      destruct (IH r' (buf ++ chunk) s S' H) as (s' & -> & Hs & V). exists (chunk ++ s').
      split; [rewrite app_assoc; reflexivity|]. split; [apply J; exact Hs|exact V].
    + assert (Sr : scanned r /\ b <> 34).
      { inversion S; subst; try (rewrite N.eqb_refl in Eb; discriminate Eb). split; assumption. }
      destruct (IH r (buf ++ [b]) s (proj1 Sr) H) as (s' & -> & Hs & V). exists (b :: s').
      split; [rewrite <- app_assoc; reflexivity|]. split; [|exact V].
      apply B_raw; [exact (proj2 Sr)|apply N.eqb_neq; exact Eb|exact Hs].
Qed.

Theorem string_sound bs s rest : parse_json_string bs = Ok (s, rest) ->
  exists b, bs = b ++ 34 :: rest /\ jstring_body b s /\ utf8_valid s = true.
Proof.
  unfold parse_json_string. intros H.
  destruct (scan_string (S (length bs)) bs [] 0) as [[[data esc] rest0]|] eqn:E; [|discriminate H].
  destruct (scan_sound _ _ _ _ _ _ _ E) as (body & Hd & Hbs & Sb & _ & F). cbn [rev app] in Hd. subst data.
  destruct esc as [|esc].
  - destruct (utf8_valid body) eqn:V; [|discriminate H]. injection H as <- <-.
    exists body. split; [exact Hbs|]. split; [apply plain_body; [exact Sb|apply F; reflexivity]|exact V].
  - unfold parse_string in H. destruct (parse_string_fuel (S (length body)) body []) as [s0| |] eqn:P; try discriminate H.
    cbn [bind] in H. injection H as <- <-.
    destruct (parse_string_sound _ _ _ _ Sb P) as (s' & E' & Hs & V). cbn [app] in E'. subst s'.
    exists body. split; [exact Hbs|]. split; [exact Hs|exact V].
Qed.

(* ================================================================== numbers *)
(* parse_json_number cut into its four lexing steps and the classification (same term: parse_json_number_eq is by reflexivity) *)
Definition lex_sign (bs : list N) : bool * list N :=
  match bs with c :: r => if c =? 45 then (true, r) else (false, bs) | [] => (false, bs) end.
Definition lex_int (bs1 : list N) : res (list N * list N) :=
  match bs1 with
  | [] => Err EOther
  | d :: r =>
      if d =? 48 then
        match r with
        | c :: _ => if is_digit c then Err EOther else Ok ([48], r)
        | [] => Ok ([48], r)
        end
      else let '(ds, r') := take_digits bs1 [] in
           match ds with [] => Err EOther | _ => Ok (ds, r') end
  end.
Definition lex_frac (bs2 : list N) : res (option (list N) * list N) :=
  match bs2 with
  | c :: r =>
      if c =? 46 then
        match r with
        | [] => Err EOther
        | _ => let '(ds, r') := take_digits r [] in
               match ds with [] => Err EOther | _ => Ok (Some ds, r') end
        end
      else Ok (None, bs2)
  | [] => Ok (None, bs2)
  end.
Definition lex_exp (bs3 : list N) : res (option (bool * list N) * list N) :=
  match bs3 with
  | c :: r =>
      if (c =? 69) || (c =? 101) then
        let '(eneg, r1) := match r with
                           | s :: r' => if s =? 43 then (false, r') else if s =? 45 then (true, r') else (false, r)
                           | [] => (false, r) end in
        match r1 with
        | [] => Err EOther
        | _ => let '(ds, r') := take_digits r1 [] in
               match ds with [] => Err EOther | _ => Ok (Some (eneg, ds), r') end
        end
      else Ok (None, bs3)
  | [] => Ok (None, bs3)
  end.
Definition classify (negative : bool) (ids : list N) (fds : option (list N)) (ex : option (bool * list N)) (bs4 : list N)
  : res (value * list N) :=
  let iv := digits_val ids 0 in
  let as_float :=
    let fd := match fds with Some d => d | None => [] end in
    let m10 := digits_val fd iv in
    let e := match ex with
             | Some (eneg, ds) => let x := digits_val ds 0 in if eneg then (- x)%Z else x
             | None => 0%Z end in
    VNum (NFloat (round_dec negative m10 (e - Z.of_nat (length fd)))) in
  match fds, ex with
  | None, None =>
      if negative then
        (if (iv <=? two63)%Z then Ok (VNum (NInt (- iv)), bs4) else Ok (as_float, bs4))
      else
        (if (iv <? Z.of_N two64)%Z then Ok (VNum (NUInt (Z.to_N iv)), bs4) else Ok (as_float, bs4))
  | _, _ => Ok (as_float, bs4)
  end.
Lemma parse_json_number_eq bs :
  parse_json_number bs =
  let '(negative, bs1) := lex_sign bs in
  do (ids, bs2) <- lex_int bs1; do (fds, bs3) <- lex_frac bs2; do (ex, bs4) <- lex_exp bs3; classify negative ids fds ex bs4.
Proof. reflexivity. Qed.

(* ---- digit runs *)
Lemma take_digits_sound bs : forall acc ds r, take_digits bs acc = (ds, r) ->
  exists ds', ds = rev acc ++ ds' /\ bs = ds' ++ r /\ digits ds' /\ no_digit_next r.
Proof.
  induction bs as [|c bs IH]; intros acc ds r H; cbn [take_digits] in H.
  - injection H as <- <-. exists []. rewrite app_nil_r. repeat split. constructor.
  - destruct (is_digit c) eqn:Ec.
    + destruct (IH _ _ _ H) as (ds' & E1 & E2 & D & Nx). exists (c :: ds'). cbn [rev] in E1. rewrite <- app_assoc in E1.
      split; [exact E1|]. split; [cbn [app]; rewrite <- E2; reflexivity|]. split; [constructor; assumption|exact Nx].
    + injection H as <- <-. exists []. rewrite app_nil_r. repeat split; [constructor|exact Ec].
Qed.
Lemma take_digits_from bs ds r : take_digits bs [] = (ds, r) -> bs = ds ++ r /\ digits ds /\ no_digit_next r.
Proof. intros H. destruct (take_digits_sound bs [] ds r H) as (ds' & E & E2 & D & Nx). cbn [rev app] in E. subst ds'. auto. Qed.

Lemma digit_not c k : is_digit c = true -> (k < 48 \/ 57 < k) -> (c =? k) = false.
Proof. unfold is_digit. intros H K. apply andb_true_iff in H. destruct H as [H1 H2]. apply N.leb_le in H1. apply N.leb_le in H2. apply N.eqb_neq. lia. Qed.

(* ---- the sign *)
Lemma jint_head ids : jint ids -> exists d r, ids = d :: r /\ is_digit d = true.
Proof. intros [|d ds Hd _ _]; eexists; eexists; split; reflexivity || assumption. Qed.

(* ---- the integer part *)
Lemma lex_int_complete ids rest : jint ids -> no_digit_next rest -> lex_int (ids ++ rest) = Ok (ids, rest).
Proof.
  intros [|d ds Hd N48 Hds] Hr.
  - cbn [app lex_int]. change (48 =? 48) with true. cbv iota. destruct rest as [|c r]; [reflexivity|]. cbn in Hr. rewrite Hr. reflexivity.
  - cbn [app lex_int]. apply N.eqb_neq in N48. rewrite N48.
    change (d :: ds ++ rest) with ((d :: ds) ++ rest).
    rewrite (take_digits_stop (d :: ds) rest ltac:(constructor; assumption) Hr []). reflexivity.
Qed.
Lemma lex_int_sound bs ids r : lex_int bs = Ok (ids, r) -> bs = ids ++ r /\ jint ids /\ no_digit_next r.
Proof.
  unfold lex_int. destruct bs as [|d bs]; [discriminate|].
  destruct (d =? 48) eqn:E48.
  - apply N.eqb_eq in E48. subst d. destruct bs as [|c bs'].
    + intros H. injection H as <- <-. repeat split. constructor.
    + destruct (is_digit c) eqn:Ec; [discriminate|]. intros H. injection H as <- <-. repeat split; [constructor|exact Ec].
  - destruct (take_digits (d :: bs) []) as [ds r'] eqn:T. destruct (take_digits_from _ _ _ T) as (E & D & Nx).
    destruct ds as [|d0 ds]; [discriminate|]. intros H. injection H as <- <-. split; [exact E|]. split; [|exact Nx].
    cbn [app] in E. injection E as -> _. inversion D; subst. apply Int_nonzero; [assumption|apply N.eqb_neq; exact E48|assumption].
Qed.

(* ---- the fraction *)
Definition frac_opt (tf fd : list N) : option (list N) := match tf with [] => None | _ => Some fd end.
Lemma lex_frac_complete tf fd rest : jfrac tf fd -> no_digit_next rest -> (tf = [] -> match rest with c :: _ => c <> 46 | [] => True end) ->
  lex_frac (tf ++ rest) = Ok (frac_opt tf fd, rest).
Proof.
  intros [|fd0 Hne Hd] Hr H46.
  - cbn [app frac_opt]. unfold lex_frac. destruct rest as [|c r]; [reflexivity|]. specialize (H46 eq_refl). apply N.eqb_neq in H46. rewrite H46. reflexivity.
  - cbn [app frac_opt lex_frac]. change (46 =? 46) with true. cbv iota.
    rewrite (take_digits_stop fd0 rest Hd Hr []). cbn [rev app].
    destruct fd0 as [|f0 fr]; [contradiction Hne; reflexivity|]. reflexivity.
Qed.
Lemma lex_frac_sound bs o r : lex_frac bs = Ok (o, r) -> exists tf fd, bs = tf ++ r /\ jfrac tf fd /\ o = frac_opt tf fd.
Proof.
  unfold lex_frac. destruct bs as [|c bs]; [intros H; injection H as <- <-; exists [], []; repeat split; constructor|].
  destruct (c =? 46) eqn:E46; [|intros H; injection H as <- <-; exists [], []; repeat split; constructor].
  apply N.eqb_eq in E46. subst c. destruct bs as [|c0 bs0]; [discriminate|].
  destruct (take_digits (c0 :: bs0) []) as [ds r'] eqn:T. destruct (take_digits_from _ _ _ T) as (E & D & Nx).
  destruct ds as [|d0 ds]; [discriminate|]. intros H. injection H as <- <-.
  exists (46 :: d0 :: ds), (d0 :: ds). rewrite E. repeat split. apply Frac_some; [discriminate|exact D].
Qed.

(* ---- the exponent *)
Lemma lex_exp_none rest : match rest with c :: _ => c <> 69 /\ c <> 101 | [] => True end -> lex_exp rest = Ok (None, rest).
Proof.
  destruct rest as [|c r]; [reflexivity|]. intros [H1 H2]. unfold lex_exp. apply N.eqb_neq in H1. apply N.eqb_neq in H2. rewrite H1, H2. reflexivity.
Qed.
Lemma lex_exp_some e sg neg ed rest : e = 69 \/ e = 101 -> jsign sg neg -> ed <> [] -> digits ed -> no_digit_next rest ->
  lex_exp (e :: sg ++ ed ++ rest) = Ok (Some (neg, ed), rest).
Proof.
  intros He Hs Hne Hd Hr. unfold lex_exp.
  replace ((e =? 69) || (e =? 101)) with true by (destruct He as [-> | ->]; reflexivity).
  destruct ed as [|d0 ed]; [contradiction Hne; reflexivity|]. inversion Hd as [|? ? Hd0 Hd']; subst.
  destruct Hs; cbn [app].
  - rewrite (digit_not d0 43 Hd0 ltac:(lia)), (digit_not d0 45 Hd0 ltac:(lia)).
    change (d0 :: ed ++ rest) with ((d0 :: ed) ++ rest). rewrite (take_digits_stop (d0 :: ed) rest Hd Hr []). reflexivity.
  - change (43 =? 43) with true. cbv iota.
    change (d0 :: ed ++ rest) with ((d0 :: ed) ++ rest). rewrite (take_digits_stop (d0 :: ed) rest Hd Hr []). reflexivity.
  - change (45 =? 43) with false. change (45 =? 45) with true. cbv iota.
    change (d0 :: ed ++ rest) with ((d0 :: ed) ++ rest). rewrite (take_digits_stop (d0 :: ed) rest Hd Hr []). reflexivity.
Qed.
Lemma lex_exp_sound bs ex r : lex_exp bs = Ok (ex, r) ->
  (ex = None /\ bs = r) \/
  (exists e sg neg ed, ex = Some (neg, ed) /\ bs = e :: sg ++ ed ++ r /\ (e = 69 \/ e = 101) /\ jsign sg neg /\ ed <> [] /\ digits ed).
Proof.
  unfold lex_exp. destruct bs as [|c bs]; [intros H; injection H as <- <-; left; split; reflexivity|].
  destruct ((c =? 69) || (c =? 101)) eqn:Ec; [|intros H; injection H as <- <-; left; split; reflexivity].
  assert (He : c = 69 \/ c = 101) by (apply orb_true_iff in Ec; destruct Ec as [Ec|Ec]; apply N.eqb_eq in Ec; auto).
  clear Ec. intros H. right.
  set (sr := match bs with
             | s :: r' => if s =? 43 then (false, r') else if s =? 45 then (true, r') else (false, bs)
             | [] => (false, bs) end) in H.
  assert (Hsr : exists sg, bs = sg ++ snd sr /\ jsign sg (fst sr)).
  { unfold sr. destruct bs as [|s bs']; [exists []; split; [reflexivity|constructor]|].
    destruct (s =? 43) eqn:E43; [apply N.eqb_eq in E43; subst s; exists [43]; split; [reflexivity|constructor]|].
    destruct (s =? 45) eqn:E45; [apply N.eqb_eq in E45; subst s; exists [45]; split; [reflexivity|constructor]|].
    exists []; split; [reflexivity|constructor]. }
  destruct sr as [eneg r1]. destruct Hsr as (sg & Ebs & Hs). cbn [fst snd] in Ebs, Hs.
  destruct r1 as [|c1 r1]; [discriminate|].
  destruct (take_digits (c1 :: r1) []) as [ds r'] eqn:T. destruct (take_digits_from _ _ _ T) as (E & D & Nx).
  destruct ds as [|d0 ds]; [discriminate|]. injection H as <- <-.
  exists c, sg, eneg, (d0 :: ds). rewrite Ebs, E. repeat split; [exact He|exact Hs|discriminate|exact D].
Qed.

(* ---- classification *)
Lemma classify_int neg ids rest :
  classify neg ids None None rest = Ok (VNum (number_value neg ids [] [] [] 0%Z), rest).
Proof.
  unfold classify, number_value, nearest_double. cbn [digits_val length Z.of_nat]. rewrite app_nil_r.
  destruct neg; [destruct (digits_val ids 0 <=? two63)%Z|destruct (digits_val ids 0 <? Z.of_N two64)%Z]; reflexivity.
Qed.
Lemma classify_float neg ids tf fd (ex : option (bool * list N)) te (e : Z) rest : jfrac tf fd ->
  (ex = None /\ te = [] /\ e = 0%Z) \/ (exists e0 sg eneg ed, ex = Some (eneg, ed) /\ te = e0 :: sg ++ ed /\ e = if eneg then (- digits_val ed 0)%Z else digits_val ed 0) ->
  tf <> [] \/ te <> [] ->
  classify neg ids (frac_opt tf fd) ex rest = Ok (VNum (number_value neg ids tf te fd e), rest).
Proof.
  intros Hf Hex Hne. unfold classify, number_value, nearest_double. rewrite digits_val_app.
  destruct Hf as [|fd0 Hn Hd]; cbn [frac_opt].
  - destruct Hex as [(-> & -> & ->)|(e0 & sg & eneg & ed & -> & -> & ->)]; [destruct Hne as [Hne|Hne]; contradiction Hne; reflexivity|].
    cbn [digits_val]. reflexivity.
  - destruct Hex as [(-> & -> & ->)|(e0 & sg & eneg & ed & -> & -> & ->)]; reflexivity.
Qed.

(* ---- the whole token *)
Theorem number_complete t n rest : jnumber t n -> ends_number rest -> parse_json_number (t ++ rest) = Ok (VNum n, rest).
Proof.
  intros [neg ids tf fd te e Hi Hf He] Hr. pose proof (ends_number_tests rest Hr) as T.
  rewrite parse_json_number_eq.
  assert (S1 : lex_sign (((if neg then [45] else []) ++ ids ++ tf ++ te) ++ rest) = (neg, ids ++ tf ++ te ++ rest)).
  { rewrite <- !app_assoc. destruct neg; [reflexivity|]. cbn [app]. destruct (jint_head ids Hi) as (d & r & -> & Hd).
    cbn [app lex_sign]. rewrite (digit_not d 45 Hd ltac:(lia)). reflexivity. }
  rewrite S1. clear S1.
  assert (Nr : no_digit_next rest) by (destruct rest; [exact I|apply T]).
  assert (Ne : no_digit_next (te ++ rest)) by (destruct He as [|e0 sg eneg ed [-> | ->] _ _ _]; [exact Nr|reflexivity|reflexivity]).
  assert (Nf : no_digit_next (tf ++ te ++ rest)) by (destruct Hf; [exact Ne|reflexivity]).
  rewrite (lex_int_complete ids _ Hi Nf). cbn [bind].
  rewrite (lex_frac_complete tf fd _ Hf Ne). 2:{
    intros _. destruct He as [|e0 sg eneg ed [-> | ->] _ _ _]; cbn [app]; [|discriminate|discriminate].
    destruct rest as [|c r]; [exact I|]. destruct Hr as (_ & H46 & _). exact H46. }
  cbn [bind].
  destruct He as [|e0 sg eneg ed He0 Hs Hne Hd].
  - cbn [app]. rewrite lex_exp_none by (destruct rest as [|c r]; [exact I|]; destruct Hr as (_ & _ & H1 & H2); split; assumption).
    cbn [bind]. destruct Hf as [|fd0 Hn Hd0].
    + cbn [frac_opt]. apply classify_int.
    + apply classify_float; [constructor; assumption|left; auto|left; discriminate].
  - cbn [app]. rewrite <- app_assoc. rewrite (lex_exp_some e0 sg eneg ed rest He0 Hs Hne Hd Nr). cbn [bind].
    apply classify_float; [exact Hf|right; eauto 10|right; discriminate].
Qed.

Theorem number_sound bs v rest : parse_json_number bs = Ok (v, rest) -> exists t n, bs = t ++ rest /\ v = VNum n /\ jnumber t n.
Proof.
  rewrite parse_json_number_eq. destruct (lex_sign bs) as [neg bs1] eqn:S1.
  assert (Es : bs = (if neg then [45] else []) ++ bs1).
  { unfold lex_sign in S1. destruct bs as [|c r]; [injection S1 as <- <-; reflexivity|].
    destruct (c =? 45) eqn:E45; injection S1 as <- <-; [apply N.eqb_eq in E45; subst c|]; reflexivity. }
  destruct (lex_int bs1) as [[ids bs2]| |] eqn:L1; try discriminate. cbn [bind].
  destruct (lex_frac bs2) as [[fds bs3]| |] eqn:L2; try discriminate. cbn [bind].
  destruct (lex_exp bs3) as [[ex bs4]| |] eqn:L3; try discriminate. cbn [bind].
  destruct (lex_int_sound _ _ _ L1) as (E1 & Hi & _).
  destruct (lex_frac_sound _ _ _ L2) as (tf & fd & E2 & Hf & ->).
  intros H.
  destruct (lex_exp_sound _ _ _ L3) as [(-> & E3)|(e0 & sg & eneg & ed & -> & E3 & He0 & Hs & Hne & Hd)].
  - subst bs4.
    assert (C : classify neg ids (frac_opt tf fd) None bs3 = Ok (VNum (number_value neg ids tf [] fd 0%Z), bs3)).
    { destruct Hf as [|fd0 Hn Hd0]; [apply classify_int|]. apply classify_float; [constructor; assumption|left; auto|left; discriminate]. }
    rewrite C in H. injection H as <- <-.
    exists ((if neg then [45] else []) ++ ids ++ tf ++ []), (number_value neg ids tf [] fd 0%Z).
    split; [rewrite Es, E1, E2, app_nil_r, <- !app_assoc; reflexivity|]. split; [reflexivity|]. apply Number; [exact Hi|exact Hf|constructor].
  - rewrite (classify_float neg ids tf fd (Some (eneg, ed)) (e0 :: sg ++ ed) (if eneg then (- digits_val ed 0)%Z else digits_val ed 0) bs4 Hf) in H;
      [|right; eauto 10|right; discriminate].
    injection H as <- <-.
    exists ((if neg then [45] else []) ++ ids ++ tf ++ e0 :: sg ++ ed), (number_value neg ids tf (e0 :: sg ++ ed) fd (if eneg then (- digits_val ed 0)%Z else digits_val ed 0)).
    split; [rewrite Es, E1, E2, E3, <- !app_assoc; cbn [app]; rewrite <- !app_assoc; reflexivity|]. split; [reflexivity|].
    apply Number; [exact Hi|exact Hf|apply Exp_some; assumption].
Qed.

(* ================================================================== values: what a value starts with, what may follow it *)
Definition delim (X : list N) : Prop := match X with [] => True | c :: _ => c = 44 \/ c = 93 \/ c = 125 end.
Lemma delim_token_start X : delim X -> token_start X.
Proof. destruct X as [|c r]; [trivial|]. intros [-> | [-> | ->]]; split; (reflexivity || discriminate). Qed.
Lemma jws_head w : jws w -> match w with [] => True | c :: _ => c = 32 \/ c = 9 \/ c = 10 \/ c = 13 \/ c = 12 \/ c = 92 end.
Proof. intros [|c w0 Hc _|w0 _|x w0 _ _|w0 _]; tauto. Qed.
Lemma ends_number_after w X : jws w -> delim X -> ends_number (w ++ X).
Proof.
  intros Hw HX. pose proof (jws_head w Hw) as H. destruct w as [|c w0].
  - cbn [app]. destruct X as [|c r]; [exact I|]. destruct HX as [-> | [-> | ->]]; repeat split; (reflexivity || discriminate).
  - cbn [app ends_number]. destruct H as [-> | [-> | [-> | [-> | [-> | ->]]]]]; repeat split; (reflexivity || discriminate).
Qed.

Definition value_start (c : N) : Prop := is_ws c = false /\ c <> 92 /\ c <> 93 /\ c <> 125 /\ c <> 44 /\ c <> 58.
Lemma digit_value_start d : is_digit d = true -> value_start d.
Proof.
  intros H. unfold value_start, is_ws. rewrite !(digit_not d) by (assumption || lia). split; [reflexivity|].
  repeat split; apply N.eqb_neq; apply digit_not; (assumption || lia).
Qed.
Lemma number_head t n : jnumber t n -> exists c r, t = c :: r /\ (is_digit c = true \/ c = 45).
Proof.
  intros [neg ids tf fd te e Hi _ _]. destruct neg; cbn [app]; [eauto|].
  destruct (jint_head ids Hi) as (d & r & -> & Hd). cbn [app]. eauto.
Qed.
Lemma value_head t v : jvalue t v -> exists c r, t = c :: r /\ value_start c.
Proof.
  intros [| | |t0 n Hn|t0 s Hs|w Hw|t0 l Hl|w Hw|t0 ms Hm];
    try (eexists; eexists; split; [reflexivity|repeat split; (reflexivity || discriminate)]).
  - destruct (number_head _ _ Hn) as (c & r & -> & Hc). exists c, r. split; [reflexivity|].
    destruct Hc as [Hd| ->]; [apply digit_value_start; exact Hd|repeat split; (reflexivity || discriminate)].
  - destruct Hs. eexists; eexists; split; [reflexivity|repeat split; (reflexivity || discriminate)].
Qed.
Lemma value_start_token c r : value_start c -> token_start (c :: r).
Proof. intros (H1 & H2 & _). split; assumption. Qed.
Lemma value_nonempty t v : jvalue t v -> (0 < length t)%nat.
Proof. intros H. destruct (value_head t v H) as (c & r & -> & _). cbn [length]. lia. Qed.

(* ---- dispatch of parse_json_value on the first byte after the skipped ones *)
Lemma pv_number f w c r : jws w -> is_digit c = true \/ c = 45 -> parse_json_value (S f) (w ++ c :: r) = parse_json_number (c :: r).
Proof.
  intros Hw Hc. cbn [parse_json_value].
  assert (T : token_start (c :: r)).
  { destruct Hc as [Hd| ->]; [apply value_start_token, digit_value_start; exact Hd|split; [reflexivity|discriminate]]. }
  rewrite (skip_complete w (c :: r) Hw T).
  destruct Hc as [Hd| ->]; [|reflexivity].
  rewrite (digit_not c 110 Hd), (digit_not c 116 Hd), (digit_not c 102 Hd), Hd by lia. reflexivity.
Qed.
Lemma pv_string f w r : jws w -> parse_json_value (S f) (w ++ 34 :: r) = (do (s, r') <- parse_json_string r; Ok (VStr s, r')).
Proof. intros Hw. cbn [parse_json_value]. rewrite (skip_complete w (34 :: r) Hw) by (split; [reflexivity|discriminate]). reflexivity. Qed.
Lemma pv_array f w r : jws w -> parse_json_value (S f) (w ++ 91 :: r) = arr_loop (parse_json_value f) f true [] r.
Proof. intros Hw. cbn [parse_json_value]. rewrite (skip_complete w (91 :: r) Hw) by (split; [reflexivity|discriminate]). reflexivity. Qed.
Lemma pv_object f w r : jws w -> parse_json_value (S f) (w ++ 123 :: r) = obj_loop (parse_json_value f) f true [] r.
Proof. intros Hw. cbn [parse_json_value]. rewrite (skip_complete w (123 :: r) Hw) by (split; [reflexivity|discriminate]). reflexivity. Qed.

Lemma string_value_complete fuel w t s rest : jws w -> jstring t s -> (0 < fuel)%nat ->
  parse_json_value fuel (w ++ t ++ rest) = Ok (VStr s, rest).
Proof.
  intros Hw [b s0 Hb Hu] Hf. destruct fuel as [|f]; [lia|]. cbn [app]. rewrite pv_string by exact Hw.
  rewrite <- app_assoc. cbn [app]. rewrite (string_complete b s0 rest Hb Hu). reflexivity.
Qed.

(* ---- one turn of the array loop and of the object loop *)
Section LoopSteps.
  Variable pv : list N -> res (value * list N).
  Lemma arr_step_end k first acc w rest : jws w -> arr_loop pv (S k) first acc (w ++ 93 :: rest) = Ok (VArr (rev acc), rest).
  Proof. intros Hw. cbn [arr_loop]. rewrite (skip_complete w (93 :: rest) Hw) by (split; [reflexivity|discriminate]). reflexivity. Qed.
  Lemma arr_step_first k acc w1 c r v bs'' : jws w1 -> value_start c -> pv (c :: r) = Ok (v, bs'') ->
    arr_loop pv (S k) true acc (w1 ++ c :: r) = arr_loop pv k false (v :: acc) bs''.
  Proof.
    intros Hw Hc P. cbn [arr_loop]. rewrite (skip_complete w1 (c :: r) Hw (value_start_token c r Hc)).
    destruct Hc as (_ & _ & N93 & _). apply N.eqb_neq in N93. rewrite N93, P. reflexivity.
  Qed.
  Lemma arr_step_next k acc w0 r v bs'' : jws w0 -> pv r = Ok (v, bs'') ->
    arr_loop pv (S k) false acc (w0 ++ 44 :: r) = arr_loop pv k false (v :: acc) bs''.
  Proof. intros Hw P. cbn [arr_loop]. rewrite (skip_complete w0 (44 :: r) Hw) by (split; [reflexivity|discriminate]). change (44 =? 93) with false. change (44 =? 44) with true. cbv iota. rewrite P. reflexivity. Qed.

  Lemma obj_step_end k first acc w rest : jws w -> obj_loop pv (S k) first acc (w ++ 125 :: rest) = Ok (VObj acc, rest).
  Proof. intros Hw. cbn [obj_loop]. rewrite (skip_complete w (125 :: rest) Hw) by (split; [reflexivity|discriminate]). reflexivity. Qed.
  Lemma obj_step_first k acc w1 c r ks w2 bs2 v bs3 : jws w1 -> value_start c -> pv (c :: r) = Ok (VStr ks, w2 ++ 58 :: bs2) -> jws w2 ->
    pv bs2 = Ok (v, bs3) -> obj_loop pv (S k) true acc (w1 ++ c :: r) = obj_loop pv k false (assoc_insert ks v acc) bs3.
  Proof.
    intros Hw Hc P Hw2 P2. cbn [obj_loop]. rewrite (skip_complete w1 (c :: r) Hw (value_start_token c r Hc)).
    destruct Hc as (_ & _ & _ & N125 & _). apply N.eqb_neq in N125. rewrite N125, P. cbn [bind].
    rewrite (skip_complete w2 (58 :: bs2) Hw2) by (split; [reflexivity|discriminate]). rewrite P2. reflexivity.
  Qed.
  Lemma obj_step_next k acc w0 r ks w2 bs2 v bs3 : jws w0 -> pv r = Ok (VStr ks, w2 ++ 58 :: bs2) -> jws w2 ->
    pv bs2 = Ok (v, bs3) -> obj_loop pv (S k) false acc (w0 ++ 44 :: r) = obj_loop pv k false (assoc_insert ks v acc) bs3.
  Proof.
    intros Hw P Hw2 P2. cbn [obj_loop]. rewrite (skip_complete w0 (44 :: r) Hw) by (split; [reflexivity|discriminate]).
    change (44 =? 125) with false. change (44 =? 44) with true. cbv iota. rewrite P. cbn [bind].
    rewrite (skip_complete w2 (58 :: bs2) Hw2) by (split; [reflexivity|discriminate]). rewrite P2. reflexivity.
  Qed.
End LoopSteps.

(* ================================================================== completeness for values *)
Scheme jvalue_min := Minimality for jvalue Sort Prop
  with jelement_min := Minimality for jelement Sort Prop
  with jelements_min := Minimality for jelements Sort Prop
  with jmembers_min := Minimality for jmembers Sort Prop.
Combined Scheme jvalue_mutind from jvalue_min, jelement_min, jelements_min, jmembers_min.


Definition ins (o : list (list N * value)) (kv : list N * value) := assoc_insert (fst kv) (snd kv) o.

(* the parser reads a value of the grammar, after any insignificant bytes, whatever delimiter follows;
   fuel: more than the length of the value's text *)
Definition PV (t : list N) (v : value) : Prop :=
  forall fuel w rest, jws w -> ends_number rest -> (length t < fuel)%nat -> parse_json_value fuel (w ++ t ++ rest) = Ok (v, rest).
Definition PE (te : list N) (v : value) : Prop :=
  exists w1 t w2, te = w1 ++ t ++ w2 /\ jws w1 /\ jws w2 /\ jvalue t v /\ PV t v.
Definition PEs (ts : list N) (l : list value) : Prop :=
  forall f k acc rest, (length ts < f)%nat -> (length ts < k)%nat ->
    arr_loop (parse_json_value f) k true acc (ts ++ 93 :: rest) = Ok (VArr (rev acc ++ l), rest) /\
    forall w0, jws w0 -> arr_loop (parse_json_value f) k false acc (w0 ++ 44 :: ts ++ 93 :: rest) = Ok (VArr (rev acc ++ l), rest).
Definition PMs (ts : list N) (ms : list (list N * value)) : Prop :=
  forall f k acc rest, (length ts < f)%nat -> (length ts < k)%nat ->
    obj_loop (parse_json_value f) k true acc (ts ++ 125 :: rest) = Ok (VObj (fold_left ins ms acc), rest) /\
    forall w0, jws w0 -> obj_loop (parse_json_value f) k false acc (w0 ++ 44 :: ts ++ 125 :: rest) = Ok (VObj (fold_left ins ms acc), rest).

(* one element, then whatever the loop does with what follows it *)
Lemma elem_turn f k acc w1 t v w2 X : PV t v -> jvalue t v -> jws w1 -> jws w2 -> delim X -> (length t < f)%nat ->
  arr_loop (parse_json_value f) (S k) true acc (w1 ++ t ++ w2 ++ X) = arr_loop (parse_json_value f) k false (v :: acc) (w2 ++ X) /\
  forall w0, jws w0 -> arr_loop (parse_json_value f) (S k) false acc (w0 ++ 44 :: w1 ++ t ++ w2 ++ X) = arr_loop (parse_json_value f) k false (v :: acc) (w2 ++ X).
Proof.
  intros P Hv H1 H2 HX Hf. pose proof (ends_number_after w2 X H2 HX) as En. split.
  - destruct (value_head t v Hv) as (c & r & E & Hc).
    pose proof (P f [] (w2 ++ X) WS_none En Hf) as Q. cbn [app] in Q. rewrite E in *. cbn [app] in *.
    apply arr_step_first; assumption.
  - intros w0 H0. apply arr_step_next; [exact H0|]. apply P; assumption.
Qed.

Lemma memb_turn f k acc w1 tk key w2 w3 t v w4 X : PV t v -> jstring tk key -> jws w1 -> jws w2 -> jws w3 -> jws w4 -> delim X ->
  (length t < f)%nat ->
  obj_loop (parse_json_value f) (S k) true acc (w1 ++ tk ++ w2 ++ 58 :: w3 ++ t ++ w4 ++ X)
    = obj_loop (parse_json_value f) k false (assoc_insert key v acc) (w4 ++ X) /\
  forall w0, jws w0 -> obj_loop (parse_json_value f) (S k) false acc (w0 ++ 44 :: w1 ++ tk ++ w2 ++ 58 :: w3 ++ t ++ w4 ++ X)
    = obj_loop (parse_json_value f) k false (assoc_insert key v acc) (w4 ++ X).
Proof.
  intros P Hk H1 H2 H3 H4 HX Hf. pose proof (ends_number_after w4 X H4 HX) as En.
  assert (F0 : (0 < f)%nat) by lia.
  pose proof (P f w3 (w4 ++ X) H3 En Hf) as PVv. split.
  - pose proof (string_value_complete f [] tk key (w2 ++ 58 :: w3 ++ t ++ w4 ++ X) WS_none Hk F0) as Q. cbn [app] in Q.
    destruct Hk as [b s Hb Hu]. cbn [app] in *.
    eapply obj_step_first; [exact H1|repeat split; (reflexivity || discriminate)|exact Q|exact H2|exact PVv].
  - intros w0 H0. eapply obj_step_next; [exact H0| |exact H2|exact PVv].
    apply string_value_complete; assumption.
Qed.

Theorem grammar_complete_mut :
  (forall t v, jvalue t v -> PV t v) /\ (forall t v, jelement t v -> PE t v) /\
  (forall t l, jelements t l -> PEs t l) /\ (forall t ms, jmembers t ms -> PMs t ms).
Proof.
  apply jvalue_mutind.
  - (* null *) intros fuel w rest Hw _ Hf. destruct fuel as [|f]; [cbn [length] in Hf; lia|]. cbn [app parse_json_value].
    rewrite (skip_complete w _ Hw) by (split; [reflexivity|discriminate]). reflexivity.
  - intros fuel w rest Hw _ Hf. destruct fuel as [|f]; [cbn [length] in Hf; lia|]. cbn [app parse_json_value].
    rewrite (skip_complete w _ Hw) by (split; [reflexivity|discriminate]). reflexivity.
  - intros fuel w rest Hw _ Hf. destruct fuel as [|f]; [cbn [length] in Hf; lia|]. cbn [app parse_json_value].
    rewrite (skip_complete w _ Hw) by (split; [reflexivity|discriminate]). reflexivity.
  - (* number *) intros t n Hn fuel w rest Hw Hr Hf. destruct fuel as [|f]; [lia|].
    pose proof (number_complete t n rest Hn Hr) as Q. destruct (number_head t n Hn) as (c & r & -> & Hc). cbn [app] in *.
    rewrite pv_number by assumption. exact Q.
  - (* string *) intros t s Hs fuel w rest Hw _ Hf. apply string_value_complete; [exact Hw|exact Hs|lia].
  - (* [] *) intros w0 H0 fuel w rest Hw _ Hf. destruct fuel as [|f]; [lia|]. len_in Hf. cbn [app]. rewrite pv_array by exact Hw.
    destruct f as [|f]; [lia|]. rewrite <- app_assoc. cbn [app]. apply arr_step_end. exact H0.
  - (* array *) intros t l _ IH fuel w rest Hw _ Hf. destruct fuel as [|f]; [lia|]. len_in Hf. cbn [app]. rewrite pv_array by exact Hw.
    rewrite <- app_assoc. cbn [app]. apply (IH f f [] rest); lia.
  - (* {} *) intros w0 H0 fuel w rest Hw _ Hf. destruct fuel as [|f]; [lia|]. len_in Hf. cbn [app]. rewrite pv_object by exact Hw.
    destruct f as [|f]; [lia|]. rewrite <- app_assoc. cbn [app]. apply obj_step_end. exact H0.
  - (* object *) intros t ms _ IH fuel w rest Hw _ Hf. destruct fuel as [|f]; [lia|]. len_in Hf. cbn [app]. rewrite pv_object by exact Hw.
    rewrite <- app_assoc. cbn [app]. apply (IH f f [] rest); lia.
  - (* element *) intros w1 t v w2 H1 Hv P H2. exists w1, t, w2. auto.
  - (* one element *) intros te v _ (w1 & t & w2 & -> & H1 & H2 & Hv & P) f k acc rest Hf Hk. len_in Hf. len_in Hk.
    pose proof (value_nonempty t v Hv) as Ht.
    destruct k as [|k]; [lia|]. destruct k as [|k]; [lia|].
    destruct (elem_turn f (S k) acc w1 t v w2 (93 :: rest) P Hv H1 H2 ltac:(right; left; reflexivity) ltac:(lia)) as [T1 T2].
    rewrite <- !app_assoc. split.
    + rewrite T1, arr_step_end by exact H2. cbn [rev]. reflexivity.
    + intros w0 H0. rewrite T2 by exact H0. rewrite arr_step_end by exact H2. cbn [rev]. reflexivity.
  - (* more elements *) intros te v ts l _ (w1 & t & w2 & -> & H1 & H2 & Hv & P) _ IH f k acc rest Hf Hk. len_in Hf. len_in Hk.
    destruct k as [|k]; [lia|].
    destruct (IH f k (v :: acc) rest ltac:(lia) ltac:(lia)) as [_ IH2]. specialize (IH2 w2 H2).
    replace (((w1 ++ t ++ w2) ++ 44 :: ts) ++ 93 :: rest) with (w1 ++ t ++ w2 ++ 44 :: ts ++ 93 :: rest)
      by (rewrite <- !app_assoc; cbn [app]; reflexivity).
    destruct (elem_turn f k acc w1 t v w2 (44 :: ts ++ 93 :: rest) P Hv H1 H2 ltac:(left; reflexivity) ltac:(lia)) as [T1 T2].
    split.
    + rewrite T1, IH2. cbn [rev]. rewrite <- app_assoc. reflexivity.
    + intros w0 H0. rewrite T2 by exact H0. rewrite IH2. cbn [rev]. rewrite <- app_assoc. reflexivity.
  - (* one member *) intros tk key tv v Hk _ (w3 & t & w4 & -> & H3 & H4 & Hv & P) f k acc rest Hf Hkk.
    destruct Hk as [w1 ts key w2 H1 Hs H2]. len_in Hf. len_in Hkk.
    pose proof (value_nonempty t v Hv) as Ht.
    destruct k as [|k]; [lia|]. destruct k as [|k]; [lia|].
    replace (((w1 ++ ts ++ w2) ++ 58 :: w3 ++ t ++ w4) ++ 125 :: rest) with (w1 ++ ts ++ w2 ++ 58 :: w3 ++ t ++ w4 ++ 125 :: rest)
      by (rewrite <- !app_assoc; cbn [app]; rewrite <- !app_assoc; reflexivity).
    destruct (memb_turn f (S k) acc w1 ts key w2 w3 t v w4 (125 :: rest) P Hs H1 H2 H3 H4 ltac:(right; right; reflexivity) ltac:(lia)) as [T1 T2].
    split.
    + rewrite T1, obj_step_end by exact H4. reflexivity.
    + intros w0 H0. rewrite T2 by exact H0. rewrite obj_step_end by exact H4. reflexivity.
  - (* more members *) intros tk key tv v ts ms Hk _ (w3 & t & w4 & -> & H3 & H4 & Hv & P) _ IH f k acc rest Hf Hkk.
    destruct Hk as [w1 tks key w2 H1 Hs H2]. len_in Hf. len_in Hkk.
    destruct k as [|k]; [lia|].
    destruct (IH f k (assoc_insert key v acc) rest ltac:(lia) ltac:(lia)) as [_ IH2]. specialize (IH2 w4 H4).
    replace (((w1 ++ tks ++ w2) ++ 58 :: (w3 ++ t ++ w4) ++ 44 :: ts) ++ 125 :: rest)
      with (w1 ++ tks ++ w2 ++ 58 :: w3 ++ t ++ w4 ++ 44 :: ts ++ 125 :: rest)
      by (rewrite <- !app_assoc; cbn [app]; rewrite <- !app_assoc; cbn [app]; reflexivity).
    destruct (memb_turn f k acc w1 tks key w2 w3 t v w4 (44 :: ts ++ 125 :: rest) P Hs H1 H2 H3 H4 ltac:(left; reflexivity) ltac:(lia)) as [T1 T2].
    split.
    + rewrite T1, IH2. reflexivity.
    + intros w0 H0. rewrite T2 by exact H0. rewrite IH2. reflexivity.
Qed.

(* C02, completeness: every text of the documented language is accepted and yields the value it denotes *)
Theorem grammar_complete t v : jtext t v -> parse_value t = Ok v.
Proof.
  intros H. destruct (proj1 (proj2 grammar_complete_mut) t v H) as (w1 & t0 & w2 & -> & H1 & H2 & Hv & P).
  unfold parse_value.
  pose proof (P (S (length (w1 ++ t0 ++ w2))) w1 w2 H1) as Q.
  pose proof (ends_number_after w2 [] H2 I) as En. rewrite app_nil_r in En.
  rewrite Q by (try exact En; rewrite !app_length; lia). cbn [bind]. rewrite (skip_complete_end w2 H2). reflexivity.
Qed.

(* ================================================================== soundness for values *)
Lemma expect_sound lit : forall bs r, expect lit bs = Some r -> bs = lit ++ r.
Proof.
  induction lit as [|c lit IH]; intros bs r H; cbn [expect] in H; [injection H as ->; reflexivity|].
  destruct bs as [|b bs]; [discriminate H|]. destruct (b =? c) eqn:E; [|discriminate H]. apply N.eqb_eq in E. subst b.
  cbn [app]. f_equal. apply IH. exact H.
Qed.

(* what follows an element inside an array, up to the closing bracket: insignificant bytes, then nothing or a comma and more elements *)
Inductive arr_tail : list N -> list value -> Prop :=
| at_end w : jws w -> arr_tail w []
| at_more w ts l : jws w -> jelements ts l -> arr_tail (w ++ 44 :: ts) l.
Lemma elements_of_tail w1 t v X l : jws w1 -> jvalue t v -> arr_tail X l -> jelements (w1 ++ t ++ X) (v :: l).
Proof.
  intros H1 Hv [w Hw|w ts l0 Hw Hl].
  - apply Es_one. apply Elem; assumption.
  - replace (w1 ++ t ++ w ++ 44 :: ts) with ((w1 ++ t ++ w) ++ 44 :: ts) by (rewrite <- !app_assoc; reflexivity).
    apply Es_cons; [apply Elem; assumption|exact Hl].
Qed.
Inductive obj_tail : list N -> list (list N * value) -> Prop :=
| ot_end w : jws w -> obj_tail w []
| ot_more w ts ms : jws w -> jmembers ts ms -> obj_tail (w ++ 44 :: ts) ms.
Lemma members_of_tail tk k w3 t v X ms : jkey tk k -> jws w3 -> jvalue t v -> obj_tail X ms ->
  jmembers (tk ++ 58 :: w3 ++ t ++ X) ((k, v) :: ms).
Proof.
  intros Hk H3 Hv [w Hw|w ts ms0 Hw Hm].
  - apply Ms_one; [exact Hk|apply Elem; assumption].
  - replace (tk ++ 58 :: w3 ++ t ++ w ++ 44 :: ts) with (tk ++ 58 :: (w3 ++ t ++ w) ++ 44 :: ts) by (rewrite <- !app_assoc; reflexivity).
    apply Ms_cons; [exact Hk|apply Elem; assumption|exact Hm].
Qed.

(* the element parser only reads values of the grammar *)
Definition SV (pv : list N -> res (value * list N)) : Prop :=
  forall bs v rest, pv bs = Ok (v, rest) -> exists w t, bs = w ++ t ++ rest /\ jws w /\ jvalue t v.

Lemma members_prepend w X ms : jws w -> jmembers X ms -> jmembers (w ++ X) ms.
Proof.
  intros Hw [tk k tv v Hk He|tk k tv v ts ms0 Hk He Hm]; destruct Hk as [w1 t k w2 H1 Hs H2].
  - replace (w ++ (w1 ++ t ++ w2) ++ 58 :: tv) with (((w ++ w1) ++ t ++ w2) ++ 58 :: tv) by (rewrite <- !app_assoc; reflexivity).
    apply Ms_one; [apply Key; [apply jws_app; assumption|exact Hs|exact H2]|exact He].
  - replace (w ++ (w1 ++ t ++ w2) ++ 58 :: tv ++ 44 :: ts) with (((w ++ w1) ++ t ++ w2) ++ 58 :: tv ++ 44 :: ts) by (rewrite <- !app_assoc; reflexivity).
    apply Ms_cons; [apply Key; [apply jws_app; assumption|exact Hs|exact H2]|exact He|exact Hm].
Qed.

Section LoopSound.
  Variable pv : list N -> res (value * list N).
  Hypothesis Hpv : SV pv.

  Lemma arr_loop_sound_false k : forall acc bs v rest, arr_loop pv k false acc bs = Ok (v, rest) ->
    exists X l, bs = X ++ 93 :: rest /\ arr_tail X l /\ v = VArr (rev acc ++ l).
  Proof.
    induction k as [|k IH]; intros acc bs v rest H; cbn [arr_loop] in H; [discriminate H|].
    destruct (skip_sound bs) as (w & Ebs & Hw). destruct (skip_unused bs) as [|c r]; [discriminate H|].
    destruct (c =? 93) eqn:E93.
    - apply N.eqb_eq in E93. subst c. injection H as <- <-. exists w, []. rewrite app_nil_r. repeat split; [exact Ebs|constructor; exact Hw].
    - destruct (c =? 44) eqn:E44; [|discriminate H]. apply N.eqb_eq in E44. subst c.
      destruct (pv r) as [[v1 bs'']| |] eqn:P; try discriminate H. cbn [bind] in H.
      destruct (Hpv _ _ _ P) as (w1 & t & -> & H1 & Hv).
      destruct (IH _ _ _ _ H) as (X & l & -> & HX & ->).
      exists (w ++ 44 :: w1 ++ t ++ X), (v1 :: l).
      split; [rewrite Ebs, <- !app_assoc; cbn [app]; rewrite <- !app_assoc; reflexivity|].
      split; [apply at_more; [exact Hw|apply elements_of_tail; assumption]|]. cbn [rev]. rewrite <- app_assoc. reflexivity.
  Qed.
  Lemma arr_loop_sound_true k acc bs v rest : arr_loop pv k true acc bs = Ok (v, rest) ->
    exists X, bs = X ++ 93 :: rest /\ ((jws X /\ v = VArr (rev acc)) \/ exists l, jelements X l /\ v = VArr (rev acc ++ l)).
  Proof.
    destruct k as [|k]; intros H; cbn [arr_loop] in H; [discriminate H|].
    destruct (skip_sound bs) as (w & Ebs & Hw). destruct (skip_unused bs) as [|c r]; [discriminate H|].
    destruct (c =? 93) eqn:E93.
    - apply N.eqb_eq in E93. subst c. injection H as <- <-. exists w. split; [exact Ebs|left; auto].
    - destruct (pv (c :: r)) as [[v1 bs'']| |] eqn:P; try discriminate H. cbn [bind] in H.
      destruct (Hpv _ _ _ P) as (w1 & t & E & H1 & Hv).
      destruct (arr_loop_sound_false _ _ _ _ _ H) as (X & l & -> & HX & ->).
      exists ((w ++ w1) ++ t ++ X). split; [rewrite Ebs, E, <- !app_assoc; reflexivity|]. right. exists (v1 :: l).
      split; [apply elements_of_tail; [apply jws_app; assumption|exact Hv|exact HX]|]. cbn [rev]. rewrite <- app_assoc. reflexivity.
  Qed.

  (* one member and the rest of the loop *)
  Definition member_body (k' : nat) (acc : list (list N * value)) (bs' : list N) : res (value * list N) :=
    do (key, bs1) <- pv bs';
    match key with
    | VStr ks =>
        match skip_unused bs1 with
        | 58 :: bs2 => do (v, bs3) <- pv bs2; obj_loop pv k' false (assoc_insert ks v acc) bs3
        | _ => Err EOther
        end
    | _ => Err EOther
    end.
  Lemma obj_loop_eq k' first acc bs :
    obj_loop pv (S k') first acc bs =
    match skip_unused bs with
    | [] => Err EOther
    | c :: r =>
        if c =? 125 then Ok (VObj acc, r)
        else match (if first then Some (c :: r) else if c =? 44 then Some r else None) with
             | None => Err EOther
             | Some bs' => member_body k' acc bs'
             end
    end.
  Proof. reflexivity. Qed.

  Definition obj_false_sound (k : nat) : Prop := forall acc bs v rest, obj_loop pv k false acc bs = Ok (v, rest) ->
    exists X ms, bs = X ++ 125 :: rest /\ obj_tail X ms /\ v = VObj (fold_left ins ms acc).
  Lemma member_sound k' acc bs' v rest : obj_false_sound k' -> member_body k' acc bs' = Ok (v, rest) ->
    exists X ms, bs' = X ++ 125 :: rest /\ jmembers X ms /\ v = VObj (fold_left ins ms acc).
  Proof.
    intros IH H. unfold member_body in H.
    destruct (pv bs') as [[key bs1]| |] eqn:P; try discriminate H. cbn [bind] in H.
    destruct key as [| |ks| | |]; try discriminate H.
    destruct (Hpv _ _ _ P) as (w1 & tk & -> & H1 & Hk). inversion Hk as [| | | |t0 s0 Hs| | | |]; subst.
    destruct (skip_sound bs1) as (w2 & E1 & H2). destruct (skip_unused bs1) as [|c2 bs2]; [discriminate H|].
    destruct c2 as [|p]; [discriminate H|]. do 6 (destruct p as [p|p|]; try discriminate H).
    destruct (pv bs2) as [[v1 bs3]| |] eqn:P2; try discriminate H. cbn [bind] in H.
    destruct (Hpv _ _ _ P2) as (w3 & t & -> & H3 & Hv).
    destruct (IH _ _ _ _ H) as (X & ms & -> & HX & ->).
    exists ((w1 ++ tk ++ w2) ++ 58 :: w3 ++ t ++ X), ((ks, v1) :: ms).
    split; [rewrite E1, <- !app_assoc; cbn [app]; rewrite <- !app_assoc; reflexivity|].
    split; [apply members_of_tail; [apply Key; assumption|exact H3|exact Hv|exact HX]|reflexivity].
  Qed.
  Lemma obj_loop_sound_false k : obj_false_sound k.
  Proof.
    induction k as [|k IH]; intros acc bs v rest H; [discriminate H|]. rewrite obj_loop_eq in H.
    destruct (skip_sound bs) as (w & Ebs & Hw). destruct (skip_unused bs) as [|c r]; [discriminate H|].
    destruct (c =? 125) eqn:E125.
    - apply N.eqb_eq in E125. subst c. injection H as <- <-. exists w, []. repeat split; [exact Ebs|constructor; exact Hw].
    - destruct (c =? 44) eqn:E44; [|discriminate H]. apply N.eqb_eq in E44. subst c.
      destruct (member_sound _ _ _ _ _ IH H) as (X & ms & -> & Hm & ->).
      exists (w ++ 44 :: X), ms. split; [rewrite Ebs, <- app_assoc; reflexivity|]. split; [apply ot_more; assumption|reflexivity].
  Qed.
  Lemma obj_loop_sound_true k acc bs v rest : obj_loop pv k true acc bs = Ok (v, rest) ->
    exists X, bs = X ++ 125 :: rest /\ ((jws X /\ v = VObj acc) \/ exists ms, jmembers X ms /\ v = VObj (fold_left ins ms acc)).
  Proof.
    destruct k as [|k]; intros H; [discriminate H|]. rewrite obj_loop_eq in H.
    destruct (skip_sound bs) as (w & Ebs & Hw). destruct (skip_unused bs) as [|c r]; [discriminate H|].
    destruct (c =? 125) eqn:E125.
    - apply N.eqb_eq in E125. subst c. injection H as <- <-. exists w. split; [exact Ebs|left; auto].
    - destruct (member_sound _ _ _ _ _ (obj_loop_sound_false k) H) as (X & ms & E & Hm & ->).
      exists (w ++ X). split; [rewrite Ebs, E, <- app_assoc; reflexivity|]. right. exists ms.
      split; [apply members_prepend; assumption|reflexivity].
  Qed.
End LoopSound.

Theorem parse_json_value_sound fuel : SV (parse_json_value fuel).
Proof.
  induction fuel as [|f IH]; intros bs v rest H; cbn [parse_json_value] in H; [discriminate H|].
  destruct (skip_sound bs) as (w & Ebs & Hw). destruct (skip_unused bs) as [|c r]; [discriminate H|].
  exists w.
  destruct (c =? 110) eqn:E1.
  { apply N.eqb_eq in E1. subst c. destruct (expect [117; 108; 108] r) as [r'|] eqn:X; [|discriminate H]. injection H as <- <-.
    apply expect_sound in X. subst r. exists [110; 117; 108; 108]. repeat split; [exact Ebs|exact Hw|constructor]. }
  destruct (c =? 116) eqn:E2.
  { apply N.eqb_eq in E2. subst c. destruct (expect [114; 117; 101] r) as [r'|] eqn:X; [|discriminate H]. injection H as <- <-.
    apply expect_sound in X. subst r. exists [116; 114; 117; 101]. repeat split; [exact Ebs|exact Hw|constructor]. }
  destruct (c =? 102) eqn:E3.
  { apply N.eqb_eq in E3. subst c. destruct (expect [97; 108; 115; 101] r) as [r'|] eqn:X; [|discriminate H]. injection H as <- <-.
    apply expect_sound in X. subst r. exists [102; 97; 108; 115; 101]. repeat split; [exact Ebs|exact Hw|constructor]. }
  destruct (is_digit c || (c =? 45)) eqn:E4.
  { destruct (number_sound _ _ _ H) as (t & n & E & -> & Hn). exists t. rewrite <- E. repeat split; [exact Ebs|exact Hw|apply V_number; exact Hn]. }
  destruct (c =? 34) eqn:E5.
  { apply N.eqb_eq in E5. subst c. destruct (parse_json_string r) as [[s r']| |] eqn:P; try discriminate H. cbn [bind] in H. injection H as <- <-.
    destruct (string_sound _ _ _ P) as (b & -> & Hb & Hu). exists (34 :: b ++ [34]).
    split; [rewrite Ebs; cbn [app]; rewrite <- app_assoc; reflexivity|]. split; [exact Hw|]. apply V_string. apply Str; assumption. }
  destruct (c =? 91) eqn:E6.
  { apply N.eqb_eq in E6. subst c. destruct (arr_loop_sound_true _ IH _ _ _ _ _ H) as (X & -> & [(HX & ->)|(l & Hl & ->)]);
      exists (91 :: X ++ [93]); (split; [rewrite Ebs; cbn [app]; rewrite <- app_assoc; reflexivity|]); (split; [exact Hw|]).
    - apply V_empty_array. exact HX.
    - apply V_array. exact Hl. }
  destruct (c =? 123) eqn:E7; [|discriminate H].
  apply N.eqb_eq in E7. subst c. destruct (obj_loop_sound_true _ IH _ _ _ _ _ H) as (X & -> & [(HX & ->)|(ms & Hm & ->)]);
    exists (123 :: X ++ [125]); (split; [rewrite Ebs; cbn [app]; rewrite <- app_assoc; reflexivity|]); (split; [exact Hw|]).
  - apply V_empty_object. exact HX.
  - apply V_object. exact Hm.
Qed.

(* C02, soundness: whatever the parser accepts is a text of the documented language, and the value is the one it denotes *)
Theorem grammar_sound bs v : parse_value bs = Ok v -> jtext bs v.
Proof.
  unfold parse_value. intros H. destruct (parse_json_value (S (length bs)) bs) as [[v0 rest]| |] eqn:P; try discriminate H.
  cbn [bind] in H. destruct (skip_sound rest) as (w2 & E2 & H2). destruct (skip_unused rest); [|discriminate H]. injection H as <-.
  rewrite app_nil_r in E2. subst w2. destruct (parse_json_value_sound _ _ _ _ P) as (w & t & -> & Hw & Hv).
  apply Elem; assumption.
Qed.

(* the parser accepts exactly the documented language, with its meaning *)
Corollary grammar_exact bs v : parse_value bs = Ok v <-> jtext bs v.
Proof. split; [apply grammar_sound|apply grammar_complete]. Qed.
(* the meaning of a text is unique *)
Corollary jtext_functional t v1 v2 : jtext t v1 -> jtext t v2 -> v1 = v2.
Proof. intros H1 H2. apply grammar_complete in H1. apply grammar_complete in H2. congruence. Qed.

(* ================================================================== the UTF-8 side condition of jstring *)
(* RFC 8259 asks for the TEXT to be UTF-8; jstring asks for the DENOTED string to be UTF-8.  For the bytes between the
   quotes the two are the same condition: escapes are ASCII in the text and whole valid sequences in the meaning. *)
Lemma sub_rng lo hi c : 128 <= lo -> hi <= 191 -> cont c = false -> in_rng lo hi c = false.
Proof.
  unfold cont, in_rng. intros H1 H2 H. apply andb_false_iff in H. apply andb_false_iff.
  destruct H as [H|H]; [left|right]; apply N.leb_gt in H; apply N.leb_gt; lia.
Qed.

(* a byte that is not a continuation byte starts a new character: validity splits there *)
Lemma utf8_boundary_n c r : cont c = false -> forall n seg, (length seg <= n)%nat ->
  utf8_valid (seg ++ c :: r) = utf8_valid seg && utf8_valid (c :: r).
Proof.
  intros Hc. induction n as [|n IH]; intros seg Hl.
  - destruct seg; [reflexivity|cbn [length] in Hl; lia].
  - destruct seg as [|b0 s0]; [reflexivity|]. cbn [length] in Hl.
    assert (R1 : in_rng 160 191 c = false) by (apply sub_rng; [lia|lia|exact Hc]).
    assert (R2 : in_rng 128 159 c = false) by (apply sub_rng; [lia|lia|exact Hc]).
    assert (R3 : in_rng 144 191 c = false) by (apply sub_rng; [lia|lia|exact Hc]).
    assert (R4 : in_rng 128 143 c = false) by (apply sub_rng; [lia|lia|exact Hc]).
    change ((b0 :: s0) ++ c :: r) with (b0 :: (s0 ++ c :: r)).
    cbn [utf8_valid]. destruct (b0 <? 128); [apply IH; lia|].
    destruct (in_rng 194 223 b0).
    { destruct s0 as [|b1 s1]; [cbn [app]; rewrite Hc; reflexivity|]. cbn [app length] in *.
      rewrite IH by lia. rewrite andb_assoc. reflexivity. }
    destruct (in_rng 224 239 b0).
    { destruct s0 as [|b1 [|b2 s2]]; cbn [app length] in *.
      - destruct r; [reflexivity|]. destruct (b0 =? 224); [rewrite R1; reflexivity|]. destruct (b0 =? 237); [rewrite R2; reflexivity|rewrite Hc; reflexivity].
      - rewrite Hc, andb_false_r. reflexivity.
      - rewrite IH by lia. rewrite !andb_assoc. reflexivity. }
    destruct (in_rng 240 244 b0); [|reflexivity].
    destruct s0 as [|b1 [|b2 [|b3 s3]]]; cbn [app length] in *.
    + destruct r as [|? [|? ?]]; try reflexivity. destruct (b0 =? 240); [rewrite R3; reflexivity|]. destruct (b0 =? 244); [rewrite R4; reflexivity|rewrite Hc; reflexivity].
    + destruct r; [reflexivity|]. rewrite Hc, andb_false_r. reflexivity.
    + rewrite Hc, !andb_false_r. reflexivity.
    + rewrite IH by lia. rewrite !andb_assoc. reflexivity.
Qed.
Lemma utf8_boundary seg c r : cont c = false -> utf8_valid (seg ++ c :: r) = utf8_valid seg && utf8_valid (c :: r).
Proof. intros Hc. apply (utf8_boundary_n c r Hc (length seg)). lia. Qed.

Lemma ascii_not_cont c : c < 128 -> cont c = false.
Proof. intros H. unfold cont, in_rng. apply andb_false_iff. left. apply N.leb_gt. lia. Qed.
Lemma utf8_ascii_prefix e t : Forall (fun c => c < 128) e -> utf8_valid (e ++ t) = utf8_valid t.
Proof.
  induction 1 as [|c e Hc _ IH]; [reflexivity|]. cbn [app utf8_valid].
  replace (c <? 128) with true by (symmetry; apply N.ltb_lt; exact Hc). exact IH.
Qed.

Ltac Zify.zify_post_hook ::= Z.div_mod_to_equations.
Ltac dec_bool :=
  repeat match goal with
  | |- context [?a <? ?b] => first [replace (a <? b) with true by (symmetry; apply N.ltb_lt; lia) | replace (a <? b) with false by (symmetry; apply N.ltb_ge; lia)]
  | |- context [?a <=? ?b] => first [replace (a <=? b) with true by (symmetry; apply N.leb_le; lia) | replace (a <=? b) with false by (symmetry; apply N.leb_gt; lia)]
  | |- context [?a =? ?b] => first [replace (a =? b) with true by (symmetry; apply N.eqb_eq; lia) | replace (a =? b) with false by (symmetry; apply N.eqb_neq; lia)]
  end.

(* the encoding of a scalar value is one whole valid sequence, and starts with a byte that is not a continuation byte *)
Lemma utf8_encode_chunk n r : n < 1114112 -> (n < 55296 \/ 57343 < n) ->
  utf8_valid (utf8_encode n ++ r) = utf8_valid r /\ exists c0 ch, utf8_encode n = c0 :: ch /\ cont c0 = false.
Proof.
  intros Hn Hs. unfold utf8_encode.
  destruct (N.ltb_spec n 128) as [H1|H1].
  { split; [cbn [app utf8_valid]; dec_bool; reflexivity|]. eexists; eexists; split; [reflexivity|]. unfold cont, in_rng. dec_bool. reflexivity. }
  destruct (N.ltb_spec n 2048) as [H2|H2].
  { split; [|eexists; eexists; split; [reflexivity|]; unfold cont, in_rng; dec_bool; reflexivity].
    cbn [app utf8_valid]. unfold cont, in_rng. dec_bool. reflexivity. }
  destruct (N.ltb_spec n 65536) as [H3|H3].
  { split; [|eexists; eexists; split; [reflexivity|]; unfold cont, in_rng; dec_bool; reflexivity].
    cbn [app utf8_valid]. unfold cont, in_rng.
    destruct (N.eqb_spec (224 + n / 4096) 224) as [E|E]; [dec_bool; reflexivity|].
    destruct (N.eqb_spec (224 + n / 4096) 237) as [E2|E2]; dec_bool; reflexivity. }
  split; [|eexists; eexists; split; [reflexivity|]; unfold cont, in_rng; dec_bool; reflexivity].
  cbn [app utf8_valid]. unfold cont, in_rng.
  destruct (N.eqb_spec (240 + n / 262144) 240) as [E|E]; [dec_bool; reflexivity|].
  destruct (N.eqb_spec (240 + n / 262144) 244) as [E2|E2]; dec_bool; reflexivity.
Qed.
Ltac Zify.zify_post_hook ::= idtac.

Lemma hexdigit_bound c x : hexdigit c = Some x -> x < 16 /\ c < 128.
Proof.
  unfold hexdigit. intros H.
  destruct ((48 <=? c) && (c <=? 57)) eqn:E1; [injection H as <-; apply andb_true_iff in E1; destruct E1 as [A B]; apply N.leb_le in A; apply N.leb_le in B; lia|].
  destruct ((65 <=? c) && (c <=? 70)) eqn:E2; [injection H as <-; apply andb_true_iff in E2; destruct E2 as [A B]; apply N.leb_le in A; apply N.leb_le in B; lia|].
  destruct ((97 <=? c) && (c <=? 102)) eqn:E3; [injection H as <-; apply andb_true_iff in E3; destruct E3 as [A B]; apply N.leb_le in A; apply N.leb_le in B; lia|].
  discriminate H.
Qed.
Lemma hex4_bound d n : hex4 d = Some n -> n < 65536 /\ Forall (fun c => c < 128) d.
Proof.
  intros H. do 4 (destruct d as [|? d]; [discriminate H|]). destruct d; [|discriminate H]. cbn [hex4] in H.
  destruct (hexdigit n0) eqn:E0; [|discriminate H]. destruct (hexdigit n1) eqn:E1; [|discriminate H].
  destruct (hexdigit n2) eqn:E2; [|discriminate H]. destruct (hexdigit n3) eqn:E3; [|discriminate H].
  apply hexdigit_bound in E0, E1, E2, E3. injection H as <-. split; [lia|]. repeat constructor; tauto.
Qed.
Lemma uescape_ascii e d n : uescape e d n -> Forall (fun c => c < 128) e /\ Forall (fun c => c < 128) d /\ n < 65536 /\ e <> [].
Proof.
  intros [d0 n0 H|d0 n0 H]; destruct (hex4_bound _ _ H) as [Hn Hd]; (split; [|split; [exact Hd|split; [exact Hn|discriminate]]]).
  - constructor; [lia|]. constructor; [lia|]. exact Hd.
  - constructor; [lia|]. constructor; [lia|]. constructor; [lia|]. apply Forall_app. split; [exact Hd|]. constructor; [lia|constructor].
Qed.
Lemma short_escape_ascii x b : short_escape x = Some b -> x < 128 /\ b < 128.
Proof.
  unfold short_escape. intros H.
  repeat match type of H with (if ?c =? ?k then _ else _) = _ => destruct (N.eqb_spec c k) as [->|?]; [injection H as <-; split; reflexivity|] end.
  discriminate H.
Qed.
Lemma pair_range hi lo : is_high hi = true -> is_low lo = true -> 65536 <= pair_code_point hi lo < 1114112.
Proof.
  unfold is_high, is_low, pair_code_point. intros H L. apply andb_true_iff in H. apply andb_true_iff in L.
  destruct H as [H1 H2]. destruct L as [L1 L2]. apply N.leb_le in H1, H2, L1, L2. lia.
Qed.

Lemma escape_step E t C s seg : Forall (fun c => c < 128) E -> E <> [] ->
  (exists c0 C', C = c0 :: C' /\ cont c0 = false) -> (forall r, utf8_valid (C ++ r) = utf8_valid r) ->
  utf8_valid t = utf8_valid s -> utf8_valid (seg ++ E ++ t) = utf8_valid (seg ++ C ++ s).
Proof.
  intros HE Hne (c0 & C' & -> & Hc) HC IH. destruct E as [|e0 E']; [contradiction Hne; reflexivity|].
  cbn [app]. rewrite (utf8_boundary seg e0), (utf8_boundary seg c0) by (try exact Hc; apply ascii_not_cont; inversion HE; assumption).
  change (e0 :: E' ++ t) with ((e0 :: E') ++ t). rewrite (utf8_ascii_prefix _ t HE).
  change (c0 :: C' ++ s) with ((c0 :: C') ++ s). rewrite HC, IH. reflexivity.
Qed.
Lemma ascii_chunk C : Forall (fun c => c < 128) C -> C <> [] ->
  (exists c0 C', C = c0 :: C' /\ cont c0 = false) /\ (forall r, utf8_valid (C ++ r) = utf8_valid r).
Proof.
  intros H Hne. split; [|intros r; apply utf8_ascii_prefix; exact H].
  destruct C as [|c0 C']; [contradiction Hne; reflexivity|]. exists c0, C'. split; [reflexivity|]. apply ascii_not_cont. inversion H; assumption.
Qed.
Lemma kept_ascii d : Forall (fun c => c < 128) d -> Forall (fun c => c < 128) (kept_literally d) /\ kept_literally d <> [].
Proof. intros H. split; [|discriminate]. constructor; [lia|]. constructor; [lia|exact H]. Qed.

(* the bytes between the quotes are UTF-8 exactly when the string they denote is *)
Lemma body_utf8_seg b s : jstring_body b s -> forall seg, utf8_valid (seg ++ b) = utf8_valid (seg ++ s).
Proof.
  induction 1 as [|c t s N34 N92 Hb IH|x b t s Hx Hb IH|e d n t s U NH NL Hb IH|e1 d1 hi e2 d2 lo t s U1 H1 U2 L2 Hb IH
                  |e d n t s U L Hb IH|e d n t s U H NU Hb IH|e1 d1 hi e2 d2 x t s U1 H1 U2 NL2 Hb IH]; intros seg.
  - reflexivity.
  - change (seg ++ c :: t) with (seg ++ [c] ++ t). change (seg ++ c :: s) with (seg ++ [c] ++ s). rewrite !app_assoc. apply IH.
  - destruct (short_escape_ascii x b Hx) as [Ax Ab].
    destruct (ascii_chunk [b] ltac:(constructor; [exact Ab|constructor]) ltac:(discriminate)) as [C1 C2].
    apply (escape_step [92; x] t [b] s seg); [constructor; [lia|constructor; [exact Ax|constructor]]|discriminate|exact C1|exact C2|apply (IH [])].
  - destruct (uescape_ascii e d n U) as (Ae & Ad & Hn & Ne).
    assert (NS : n < 55296 \/ 57343 < n).
    { unfold is_high, is_low in NH, NL. apply andb_false_iff in NH. apply andb_false_iff in NL.
      destruct NH as [A|A]; destruct NL as [B|B]; try apply N.leb_gt in A; try apply N.leb_gt in B; lia. }
    apply (escape_step e t (utf8_encode n) s seg); [exact Ae|exact Ne| | |apply (IH [])].
    + apply (utf8_encode_chunk n [] ltac:(lia) NS).
    + intros r. apply (utf8_encode_chunk n r ltac:(lia) NS).
  - destruct (uescape_ascii e1 d1 hi U1) as (Ae1 & _ & _ & Ne1). destruct (uescape_ascii e2 d2 lo U2) as (Ae2 & _ & _ & _).
    pose proof (pair_range hi lo H1 L2) as PR. rewrite (app_assoc e1 e2 t).
    apply (escape_step (e1 ++ e2) t (utf8_encode (pair_code_point hi lo)) s seg);
      [apply Forall_app; split; assumption|destruct e1; [contradiction Ne1; reflexivity|discriminate]| | |apply (IH [])].
    + apply (utf8_encode_chunk (pair_code_point hi lo) [] ltac:(lia) ltac:(lia)).
    + intros r. apply (utf8_encode_chunk (pair_code_point hi lo) r ltac:(lia) ltac:(lia)).
  - destruct (uescape_ascii e d n U) as (Ae & Ad & Hn & Ne). destruct (kept_ascii d Ad) as [K1 K2]. destruct (ascii_chunk _ K1 K2) as [C1 C2].
    apply (escape_step e t (kept_literally d) s seg); [exact Ae|exact Ne|exact C1|exact C2|apply (IH [])].
  - destruct (uescape_ascii e d n U) as (Ae & Ad & Hn & Ne). destruct (kept_ascii d Ad) as [K1 K2]. destruct (ascii_chunk _ K1 K2) as [C1 C2].
    apply (escape_step e t (kept_literally d) s seg); [exact Ae|exact Ne|exact C1|exact C2|apply (IH [])].
  - destruct (uescape_ascii e1 d1 hi U1) as (Ae1 & Ad1 & _ & Ne1). destruct (uescape_ascii e2 d2 x U2) as (Ae2 & Ad2 & _ & _).
    destruct (kept_ascii d1 Ad1) as [K1 K2]. destruct (kept_ascii d2 Ad2) as [K3 K4].
    assert (KA : Forall (fun c => c < 128) (kept_literally d1 ++ kept_literally d2)) by (apply Forall_app; split; assumption).
    destruct (ascii_chunk _ KA ltac:(discriminate)) as [C1 C2].
    rewrite (app_assoc e1 e2 t), (app_assoc (kept_literally d1) (kept_literally d2) s).
    apply (escape_step (e1 ++ e2) t _ s seg);
      [apply Forall_app; split; assumption|destruct e1; [contradiction Ne1; reflexivity|discriminate]|exact C1|exact C2|apply (IH [])].
Qed.
Theorem body_utf8 b s : jstring_body b s -> utf8_valid b = utf8_valid s.
Proof. intros H. apply (body_utf8_seg b s H []). Qed.

(* hence a string literal may equally be required to be UTF-8 in the text, as RFC 8259 does *)
Corollary jstring_utf8_in_text b s : jstring_body b s -> (utf8_valid b = true <-> utf8_valid s = true).
Proof. intros H. rewrite (body_utf8 b s H). tauto. Qed.


(* ================================================================== what "inserted in order into a map" means: the last duplicate wins *)
Lemma bytes_eqb_eq a b : bytes_eqb a b = true <-> a = b.
Proof. unfold bytes_eqb. rewrite <- bytes_cmp_eq. destruct (bytes_cmp a b); split; congruence. Qed.

Lemma lookup_insert k k' (v : value) l :
  assoc_lookup k (assoc_insert k' v l) = if bytes_eqb k k' then Some v else assoc_lookup k l.
Proof.
  induction l as [|[k'' v''] r IH]; cbn [assoc_insert assoc_lookup]; [reflexivity|].
  destruct (bytes_cmp k' k'') eqn:C; cbn [assoc_lookup].
  - apply bytes_cmp_eq in C. subst k''. destruct (bytes_eqb k k'); reflexivity.
  - reflexivity.
  - rewrite IH. destruct (bytes_eqb k k'') eqn:E1; [|reflexivity]. destruct (bytes_eqb k k') eqn:E2; [|reflexivity].
    apply bytes_eqb_eq in E1. apply bytes_eqb_eq in E2. subst. rewrite bytes_refl in C. discriminate C.
Qed.

Theorem object_last_duplicate_wins ms k : assoc_lookup k (assoc_of_list ms) = last_binding k ms.
Proof.
  unfold assoc_of_list, last_binding.
  assert (G : forall acc r, assoc_lookup k acc = r ->
            assoc_lookup k (fold_left (fun acc kv => assoc_insert (fst kv) (snd kv) acc) ms acc)
            = fold_left (fun r kv => if bytes_eqb k (fst kv) then Some (snd kv) else r) ms r).
  { induction ms as [|[k1 v1] ms IH]; intros acc r H; cbn [fold_left fst snd]; [exact H|].
    apply IH. rewrite lookup_insert, H. reflexivity. }
  apply G. reflexivity.
Qed.

(* ================================================================== RFC 8259 alone is part of the documented language *)
Lemma rfc_ws_jws w : rfc_ws w -> jws w.
Proof. induction 1; [constructor|apply WS_rfc; assumption]. Qed.
Lemma rfc_body_jbody b s : rfc_string_body b s -> jstring_body b s.
Proof.
  induction 1 as [|c t s _ N34 N92 _ IH|x b t s Hx _ IH|d n t s Hd NH NL _ IH|d1 hi d2 lo t s H1 Hh H2 Hl _ IH].
  - constructor.
  - apply B_raw; assumption.
  - apply B_short; assumption.
  - apply (B_unicode (92 :: 117 :: d) d n t s); [apply U_plain; exact Hd|exact NH|exact NL|exact IH].
  - apply (B_pair (92 :: 117 :: d1) d1 hi (92 :: 117 :: d2) d2 lo t s); [apply U_plain; exact H1|exact Hh|apply U_plain; exact H2|exact Hl|exact IH].
Qed.
Lemma rfc_string_jstring t s : rfc_string t s -> jstring t s.
Proof.
  intros [b s0 Hb Hu]. pose proof (rfc_body_jbody b s0 Hb) as J. apply Str; [exact J|]. rewrite <- (body_utf8 b s0 J). exact Hu.
Qed.
Lemma rfc_key_jkey t k : rfc_key t k -> jkey t k.
Proof. intros [w1 t0 k0 w2 H1 Hs H2]. apply Key; [apply rfc_ws_jws; exact H1|apply rfc_string_jstring; exact Hs|apply rfc_ws_jws; exact H2]. Qed.

Scheme rfc_value_min := Minimality for rfc_value Sort Prop
  with rfc_element_min := Minimality for rfc_element Sort Prop
  with rfc_elements_min := Minimality for rfc_elements Sort Prop
  with rfc_members_min := Minimality for rfc_members Sort Prop.
Combined Scheme rfc_mutind from rfc_value_min, rfc_element_min, rfc_elements_min, rfc_members_min.

Lemma rfc_included :
  (forall t v, rfc_value t v -> jvalue t v) /\ (forall t v, rfc_element t v -> jelement t v) /\
  (forall t l, rfc_elements t l -> jelements t l) /\ (forall t ms, rfc_members t ms -> jmembers t ms).
Proof.
  apply rfc_mutind; intros.
  - constructor.
  - constructor.
  - constructor.
  - apply V_number; assumption.
  - apply V_string. apply rfc_string_jstring; assumption.
  - apply V_empty_array. apply rfc_ws_jws; assumption.
  - apply V_array; assumption.
  - apply V_empty_object. apply rfc_ws_jws; assumption.
  - apply V_object; assumption.
  - apply Elem; [apply rfc_ws_jws; assumption|assumption|apply rfc_ws_jws; assumption].
  - apply Es_one; assumption.
  - apply Es_cons; assumption.
  - apply Ms_one; [apply rfc_key_jkey; assumption|assumption].
  - apply Ms_cons; [apply rfc_key_jkey; assumption|assumption|assumption].
Qed.
Theorem rfc_text_jtext t v : rfc_text t v -> jtext t v.
Proof. apply (proj1 (proj2 rfc_included)). Qed.
(* every RFC 8259 document is accepted and yields the value it denotes *)
Theorem rfc_complete t v : rfc_text t v -> parse_value t = Ok v.
Proof. intros H. apply grammar_complete, rfc_text_jtext, H. Qed.

(* ================================================================== a text that parses is valid UTF-8 *)
Lemma utf8_valid_app_n : forall n a b, (length a <= n)%nat -> utf8_valid a = true -> utf8_valid (a ++ b) = utf8_valid b.
Proof.
  induction n as [|n IH]; intros a b Hl Hv.
  - destruct a; [reflexivity|cbn [length] in Hl; lia].
  - destruct a as [|b0 r]; [reflexivity|]. cbn [length] in Hl. cbn [app utf8_valid] in *.
    destruct (b0 <? 128); [apply IH; [lia|exact Hv]|].
    destruct (in_rng 194 223 b0).
    { destruct r as [|b1 r1]; [discriminate Hv|]. cbn [app length] in *. apply andb_true_iff in Hv. destruct Hv as [H1 H2].
      rewrite H1. cbn [andb]. apply IH; [lia|exact H2]. }
    destruct (in_rng 224 239 b0).
    { destruct r as [|b1 [|b2 r2]]; try discriminate Hv. cbn [app length] in *.
      apply andb_true_iff in Hv. destruct Hv as [H1 H2]. rewrite H1. cbn [andb]. apply IH; [lia|exact H2]. }
    destruct (in_rng 240 244 b0); [|discriminate Hv].
    destruct r as [|b1 [|b2 [|b3 r3]]]; try discriminate Hv. cbn [app length] in *.
    apply andb_true_iff in Hv. destruct Hv as [H1 H2]. rewrite H1. cbn [andb]. apply IH; [lia|exact H2].
Qed.
Lemma utf8_valid_app a b : utf8_valid a = true -> utf8_valid b = true -> utf8_valid (a ++ b) = true.
Proof. intros Ha Hb. rewrite (utf8_valid_app_n (length a) a b (le_n _) Ha). exact Hb. Qed.
Lemma utf8_ascii e : Forall (fun c => c < 128) e -> utf8_valid e = true.
Proof. intros H. rewrite <- (app_nil_r e), (utf8_ascii_prefix e [] H). reflexivity. Qed.
Lemma utf8_cons_ascii c t : c < 128 -> utf8_valid t = true -> utf8_valid (c :: t) = true.
Proof. intros Hc Ht. cbn [utf8_valid]. replace (c <? 128) with true by (symmetry; apply N.ltb_lt; exact Hc). exact Ht. Qed.

Lemma jws_utf8 w : jws w -> utf8_valid w = true.
Proof.
  induction 1 as [|c w Hc _ IH|w _ IH|x w Hx _ IH|w _ IH].
  - reflexivity.
  - apply utf8_cons_ascii; [lia|exact IH].
  - apply utf8_cons_ascii; [lia|exact IH].
  - apply utf8_cons_ascii; [lia|]. apply utf8_cons_ascii; [lia|exact IH].
  - repeat (apply utf8_cons_ascii; [lia|]). exact IH.
Qed.
Lemma digits_ascii ds : digits ds -> Forall (fun c => c < 128) ds.
Proof.
  unfold digits. apply Forall_impl. intros c H. unfold is_digit in H. apply andb_true_iff in H. destruct H as [_ H].
  apply N.leb_le in H. lia.
Qed.
Lemma jnumber_utf8 t n : jnumber t n -> utf8_valid t = true.
Proof.
  intros H. apply utf8_ascii. destruct H as [neg ids tf fd te e Hi Hf He].
  apply Forall_app; split; [|apply Forall_app; split; [|apply Forall_app; split]].
  - destruct neg; repeat constructor.
  - destruct Hi as [|d ds Hd _ Hds]; [repeat constructor|]. apply (digits_ascii (d :: ds)). constructor; assumption.
  - destruct Hf as [|fd _ Hd]; [constructor|]. constructor; [lia|apply digits_ascii; exact Hd].
  - destruct He as [|e sg neg' ed He Hs _ Hd]; [constructor|]. constructor; [lia|]. apply Forall_app. split.
    + destruct Hs; repeat constructor.
    + apply digits_ascii; exact Hd.
Qed.
Lemma jstring_utf8 t s : jstring t s -> utf8_valid t = true.
Proof.
  intros [b s' Hb Hs]. apply utf8_cons_ascii; [lia|]. apply utf8_valid_app; [|reflexivity].
  rewrite (body_utf8 b s' Hb). exact Hs.
Qed.
Lemma jkey_utf8 t k : jkey t k -> utf8_valid t = true.
Proof.
  intros [w1 t' k' w2 H1 Hs H2]. apply utf8_valid_app; [apply jws_utf8; exact H1|].
  apply utf8_valid_app; [apply (jstring_utf8 _ _ Hs)|apply jws_utf8; exact H2].
Qed.

Lemma grammar_utf8_mut :
  (forall t v, jvalue t v -> utf8_valid t = true) /\ (forall t v, jelement t v -> utf8_valid t = true) /\
  (forall t l, jelements t l -> utf8_valid t = true) /\ (forall t ms, jmembers t ms -> utf8_valid t = true).
Proof.
  apply jvalue_mutind.
  - reflexivity.
  - reflexivity.
  - reflexivity.
  - intros t n H. apply (jnumber_utf8 t n H).
  - intros t s H. apply (jstring_utf8 t s H).
  - intros w Hw. apply utf8_cons_ascii; [lia|]. apply utf8_valid_app; [apply jws_utf8; exact Hw|reflexivity].
  - intros t l _ IH. apply utf8_cons_ascii; [lia|]. apply utf8_valid_app; [exact IH|reflexivity].
  - intros w Hw. apply utf8_cons_ascii; [lia|]. apply utf8_valid_app; [apply jws_utf8; exact Hw|reflexivity].
  - intros t ms _ IH. apply utf8_cons_ascii; [lia|]. apply utf8_valid_app; [exact IH|reflexivity].
  - intros w1 t v w2 H1 _ IH H2. apply utf8_valid_app; [apply jws_utf8; exact H1|].
    apply utf8_valid_app; [exact IH|apply jws_utf8; exact H2].
  - intros t v _ IH. exact IH.
  - intros t v ts l _ IH1 _ IH2. apply utf8_valid_app; [exact IH1|]. apply utf8_cons_ascii; [lia|exact IH2].
  - intros tk k tv v Hk _ IH. apply utf8_valid_app; [apply (jkey_utf8 _ _ Hk)|]. apply utf8_cons_ascii; [lia|exact IH].
  - intros tk k tv v ts ms Hk _ IH1 _ IH2. apply utf8_valid_app; [apply (jkey_utf8 _ _ Hk)|]. apply utf8_cons_ascii; [lia|].
    apply utf8_valid_app; [exact IH1|]. apply utf8_cons_ascii; [lia|exact IH2].
Qed.
(* the whole text, not only its strings: white space, punctuation, numbers and literals are ASCII, a string literal is
   UTF-8 between its quotes exactly when the string it denotes is (body_utf8), and the parser checks the latter *)
Theorem jtext_utf8 t v : jtext t v -> utf8_valid t = true.
Proof. apply (proj1 (proj2 grammar_utf8_mut)). Qed.
Theorem parsed_text_is_utf8 t v : parse_value t = Ok v -> utf8_valid t = true.
Proof. intros H. apply (jtext_utf8 t v), grammar_sound, H. Qed.
