(* PathGrammar.v — the documented SQL/JSONPath language of the crate, as a declarative grammar with denotations.
   Written from README.md (section SQL/JSONPath, table of operators), the doc comments of src/jsonpath/path.rs, the
   accepted / rejected expressions of tests/it/jsonpath_parser.rs and the text of property C09 — not from the parser model:
     "Every expression of the documented path language, written with any legal spacing, keyword case and either quoting
      style for names, is accepted and yields the intended structure: steps in order, index lists, ranges and `last`
      offsets, literals of every JSON scalar kind including negative, fractional and exponent numbers and the empty
      string, and operators with && binding tighter than ||."
   Choices (each confirmed on the real crate, see Props/C09.v and the final report):
   * spacing = any run of space / tab / LF / CR, allowed before every step, around every operator, comma, `to`, the sign
     of a `last` offset, between `?` and `(`, and inside every pair of brackets and parentheses; NOT between `.` / `:` and
     the name, nor inside `.*`, `&&`, `||` or a comparison operator (tests: `$[*].book.price ? (@ == 10)` is accepted).
   * keyword case: `last` and `to` in any letter case (tag_no_case); `null` `true` `false` `exists` in lower case only.
   * quoting styles for names: bare (`.name`) or a JSON string literal in double quotes (`."name"`, `["name"]`); single
     quotes are not part of the language (tests: `$['1','2',]` is rejected).
   Productions whose name starts with X_ are accepted beyond the documentation.
   Definitions only; the inclusion theorems are in PathGrammarProofs.v. *)
From Coq Require Import List NArith ZArith Bool.
Import ListNotations.
From JB Require Import Constants Bytes Utf8 Num Value Decimal TreeOps Path JsonGrammar KeyPathGrammar.
Open Scope N_scope.

(* ------------------------------------------------------------------ keywords *)
(* t spells the lower-case word `word` in some letter case *)
Definition keyword (word t : list N) : Prop := map ascii_lower t = word.
Definition KW_LAST : list N := [108; 97; 115; 116].
Definition KW_TO : list N := [116; 111].
Definition KW_NAN : list N := [110; 97; 110].
Definition KW_INF : list N := [105; 110; 102].
Definition KW_EXISTS : list N := [101; 120; 105; 115; 116; 115].

(* ------------------------------------------------------------------ array indices *)
(* README: `[<pos>, ..]`, `[last - <pos>, ..]`, `[<pos1> to <pos2>, ..]`; path.rs: "0-based n-th element", "last",
   "last minus a number".  Positions and offsets are read as signed_int (KeyPathGrammar): beyond the documentation a
   position may carry a sign (a negative position selects nothing, it is not counted from the end), and the number
   after `last -` may itself be signed. *)
Inductive index_text : list N -> index -> Prop :=
| IX_position t i : signed_int t i -> in_i32 i -> index_text t (IIndex i)
| IX_last k : keyword KW_LAST k -> index_text k (ILast 0)
| IX_last_minus k w1 w2 t v : keyword KW_LAST k -> pws w1 -> pws w2 -> signed_int t v -> in_i32 (- v) ->
    index_text (k ++ w1 ++ 45 :: w2 ++ t) (ILast (- v))
(* beyond the documentation: an offset past the last element *)
| X_IX_last_plus k w1 w2 t v : keyword KW_LAST k -> pws w1 -> pws w2 -> signed_int t v -> in_i32 v ->
    index_text (k ++ w1 ++ 43 :: w2 ++ t) (ILast v).

Inductive array_index_text : list N -> array_index -> Prop :=
| AX_single t i : index_text t i -> array_index_text t (AIndex i)
| AX_range t1 s w1 k w2 t2 e : index_text t1 s -> pws w1 -> keyword KW_TO k -> pws w2 -> index_text t2 e ->
    array_index_text (t1 ++ w1 ++ k ++ w2 ++ t2) (ASlice s e).

(* item *( "," item ), each with any spacing around it, at least one *)
Inductive comma_list {A : Type} (item : list N -> A -> Prop) : list N -> list A -> Prop :=
| CL_one w1 t a w2 : pws w1 -> item t a -> pws w2 -> comma_list item (w1 ++ t ++ w2) [a]
| CL_cons w1 t a w2 ts l : pws w1 -> item t a -> pws w2 -> comma_list item ts l ->
    comma_list item (w1 ++ t ++ w2 ++ 44 :: ts) (a :: l).
Definition index_list_text : list N -> list array_index -> Prop := comma_list array_index_text.

(* ------------------------------------------------------------------ steps *)
(* README: .*  .<name>  :<name>  ["<name>"]  [*]  [<pos>, ..];  path.rs: the name can also be written as a string
   literal, allowing the name to contain special characters.
   A bare name is KeyPathGrammar.bare_name (any run of name characters, possibly starting with a digit; beyond the
   documentation it may contain backslash escapes, see X_NB_.. there); a quoted name is a JSON string literal. *)
Inductive step_text : list N -> path -> Prop :=
| ST_dot_wildcard : step_text [46; 42] PDotWild
| ST_bracket_wildcard w1 w2 : pws w1 -> pws w2 -> step_text (91 :: w1 ++ 42 :: w2 ++ [93]) PBracketWild
| ST_dot_name t s : bare_name t s -> step_text (46 :: t) (PDotField s)
| ST_dot_quoted t s : quoted_name t s -> step_text (46 :: t) (PDotField s)
| ST_colon_name t s : bare_name t s -> step_text (58 :: t) (PColonField s)
| ST_colon_quoted t s : quoted_name t s -> step_text (58 :: t) (PColonField s)
| ST_bracket_name w1 t s w2 : pws w1 -> quoted_name t s -> pws w2 -> step_text (91 :: w1 ++ t ++ w2 ++ [93]) (PObjectField s)
| ST_indices t l : index_list_text t l -> step_text (91 :: t ++ [93]) (PIndices l).

(* a run of items, each preceded by any spacing *)
Inductive spaced {A : Type} (item : list N -> A -> Prop) : list N -> list A -> Prop :=
| SP_nil : spaced item [] []
| SP_cons w t a ts l : pws w -> item t a -> spaced item ts l -> spaced item (w ++ t ++ ts) (a :: l).

(* the steps that may follow `$` or `@` in an operand of an expression: no filter among them *)
Definition steps_text : list N -> list path -> Prop := spaced step_text.

(* ------------------------------------------------------------------ literals *)
(* numbers.  mantissa text, its integer digits, its fraction digits, whether it has a point *)
Inductive mantissa : list N -> list N -> list N -> bool -> Prop :=
| M_int ids : ids <> [] -> digits ids -> mantissa ids ids [] false
| M_frac ids fds : ids <> [] -> digits ids -> fds <> [] -> digits fds -> mantissa (ids ++ 46 :: fds) ids fds true
(* beyond JSON: nothing after, or nothing before, the point *)
| X_M_no_fraction ids : ids <> [] -> digits ids -> mantissa (ids ++ [46]) ids [] true
| X_M_no_integer fds : fds <> [] -> digits fds -> mantissa (46 :: fds) [] fds true.

(* the double nearest to (-1)^neg * ids.fds * 10^e (Decimal.round_dec: ties to even, infinities beyond the range) *)
Definition nearest (neg : bool) (ids fds : list N) (e : Z) : num :=
  NFloat (round_dec neg (digits_val fds (digits_val ids 0)) (e - Z.of_nat (length fds))).

(* an integer spelling (no point, no exponent) that fits the integer type its sign selects is not read as a double *)
Definition exact_integer (sg : list N) (ids : list N) (pt : bool) (te : list N) : Prop :=
  pt = false /\ te = [] /\
  ((sg = [] /\ (digits_val ids 0 < Z.of_N two64)%Z) \/ (sg = [45] /\ (digits_val ids 0 <= two63)%Z)
   \/ (sg = [43] /\ (digits_val ids 0 < two63)%Z)).

Inductive number_text : list N -> num -> Prop :=
(* digits without a sign, below 2^64: an unsigned integer (leading zeros are accepted, beyond JSON) *)
| N_unsigned ds : ds <> [] -> digits ds -> (digits_val ds 0 < Z.of_N two64)%Z -> number_text ds (NUInt (Z.to_N (digits_val ds 0)))
(* a minus sign and digits, down to -2^63: a signed integer (`-0` is the signed integer 0) *)
| N_negative ds : ds <> [] -> digits ds -> (digits_val ds 0 <= two63)%Z -> number_text (45 :: ds) (NInt (- digits_val ds 0))
(* beyond JSON: a plus sign; the integer is then a signed one *)
| X_N_plus ds : ds <> [] -> digits ds -> (digits_val ds 0 < two63)%Z -> number_text (43 :: ds) (NInt (digits_val ds 0))
(* every other number: the nearest double (fractions, exponents, integers out of range) *)
| N_double sg neg m ids fds pt te e : jsign sg neg -> mantissa m ids fds pt -> jexp te e -> ~ exact_integer sg ids pt te ->
    number_text (sg ++ m ++ te) (nearest neg ids fds e)
(* beyond the documentation: the words nan and inf in any letter case (no sign) *)
| X_N_nan t : keyword KW_NAN t -> number_text t (NFloat F_NAN)
| X_N_inf t : keyword KW_INF t -> number_text t (NFloat F_INF)
(* and (since the fix e1187a7 of the crate) a minus sign directly followed by the word inf in any letter case: negative
   infinity.  No README line documents it (hence X_), but it is the text Display prints for a literal that overflows
   downwards (`-1e999`), so the language is closed under printing on these literals.  Neither `-infinity`, `- inf` nor
   `-nan` / `+inf` / `+nan` is a literal. *)
| X_N_neg_inf t : keyword KW_INF t -> number_text (45 :: t) (NFloat F_NEG_INF).

Inductive literal_text : list N -> pvalue -> Prop :=
| L_null : literal_text [110; 117; 108; 108] PVNull
| L_true : literal_text [116; 114; 117; 101] (PVBool true)
| L_false : literal_text [102; 97; 108; 115; 101] (PVBool false)
| L_number t n : number_text t n -> literal_text t (PVNum n)
| L_string t s : quoted_name t s -> literal_text t (PVStr s).          (* a JSON string literal; "" is the empty string *)

(* ------------------------------------------------------------------ operators *)
Inductive compare_op : list N -> binop -> Prop :=
| C_eq : compare_op [61; 61] OEq | C_ne : compare_op [33; 61] ONe | C_ne_sql : compare_op [60; 62] ONe
| C_lt : compare_op [60] OLt | C_le : compare_op [60; 61] OLe | C_gt : compare_op [62] OGt | C_ge : compare_op [62; 61] OGe.
Inductive arith_op : list N -> barith -> Prop :=
| A_add : arith_op [43] BAdd | A_sub : arith_op [45] BSub | A_mul : arith_op [42] BMul | A_div : arith_op [47] BDiv
| A_mod : arith_op [37] BMod.
Inductive sign_op : list N -> uarith -> Prop := S_plus : sign_op [43] UAdd | S_minus : sign_op [45] USub.

(* ------------------------------------------------------------------ expressions *)
(* an operand: a path from the root, a path from the current element (inside a filter only: `@ > 10` at the top level
   is rejected, tests), or a literal.  current_allowed = false at the top level (a predicate), true inside ?( ). *)
Inductive operand_text (current_allowed : bool) : list N -> expr -> Prop :=
| OP_root ts ps : steps_text ts ps -> operand_text current_allowed (36 :: ts) (EPaths (PRoot :: ps))
| OP_current ts ps : current_allowed = true -> steps_text ts ps -> operand_text current_allowed (64 :: ts) (EPaths (PCurrent :: ps))
| OP_literal t v : literal_text t v -> operand_text current_allowed t (EValue v).

(* x1 op x2 op x3 ... nested to the left *)
Fixpoint left_nested (op : binop) (x : expr) (l : list expr) : expr :=
  match l with [] => x | y :: r => left_nested op (EBin op x y) r end.

(* an expression has three levels: || , && (binds tighter), and the atoms: comparison, arithmetic, signed operand,
   parenthesised expression, exists( path ).  A bare operand is not an expression (`$?(@.a)` is rejected). *)
Inductive atom_text : bool -> list N -> expr -> Prop :=
| AT_compare c tl l w1 o op w2 tr r : operand_text c tl l -> pws w1 -> compare_op o op -> pws w2 -> operand_text c tr r ->
    atom_text c (tl ++ w1 ++ o ++ w2 ++ tr) (EBin op l r)
| AT_arith c tl l w1 o op w2 tr r : operand_text c tl l -> pws w1 -> arith_op o op -> pws w2 -> operand_text c tr r ->
    atom_text c (tl ++ w1 ++ o ++ w2 ++ tr) (EArithB op l r)
| AT_signed c o op w tx x : sign_op o op -> pws w -> operand_text c tx x -> atom_text c (o ++ w ++ tx) (EArithU op x)
| AT_paren c w1 t e w2 : pws w1 -> or_text c t e -> pws w2 -> atom_text c (40 :: w1 ++ t ++ w2 ++ [41]) e
(* exists( $ or @ followed by steps and filters ); beyond the documentation `@` is accepted here at the top level too *)
| AT_exists c w1 w2 r p ts ps w3 : pws w1 -> pws w2 -> (r = 36 /\ p = PRoot \/ r = 64 /\ p = PCurrent) -> fsteps_text ts ps -> pws w3 ->
    atom_text c (KW_EXISTS ++ w1 ++ 40 :: w2 ++ r :: ts ++ w3 ++ [41]) (EExists (p :: ps))
with and_text : bool -> list N -> expr -> Prop :=
| AND c t x ts l : atom_text c t x -> and_tail c ts l -> and_text c (t ++ ts) (left_nested OAnd x l)
with and_tail : bool -> list N -> list expr -> Prop :=
| ANDT_nil c : and_tail c [] []
| ANDT_cons c w1 w2 t x ts l : pws w1 -> pws w2 -> atom_text c t x -> and_tail c ts l ->
    and_tail c (w1 ++ [38; 38] ++ w2 ++ t ++ ts) (x :: l)
with or_text : bool -> list N -> expr -> Prop :=
| OR c t x ts l : and_text c t x -> or_tail c ts l -> or_text c (t ++ ts) (left_nested OOr x l)
with or_tail : bool -> list N -> list expr -> Prop :=
| ORT_nil c : or_tail c [] []
| ORT_cons c w1 w2 t x ts l : pws w1 -> pws w2 -> and_text c t x -> or_tail c ts l ->
    or_tail c (w1 ++ [124; 124] ++ w2 ++ t ++ ts) (x :: l)
(* a step of a path proper: one of the steps above, or a filter ?( expression ) whose operands may start with @ *)
with fstep_text : list N -> path -> Prop :=
| FS_step t p : step_text t p -> fstep_text t p
| FS_filter w1 w2 t e w3 : pws w1 -> pws w2 -> or_text true t e -> pws w3 ->
    fstep_text (63 :: w1 ++ 40 :: w2 ++ t ++ w3 ++ [41]) (PFilter e)
with fsteps_text : list N -> list path -> Prop :=
| FSS_nil : fsteps_text [] []
| FSS_cons w t p ts ps : pws w -> fstep_text t p -> fsteps_text ts ps -> fsteps_text (w ++ t ++ ts) (p :: ps).

(* ------------------------------------------------------------------ whole paths *)
(* the forms documented with a leading `$`, and the standalone predicate *)
Inductive jp_rooted_text : list N -> list path -> Prop :=
| JP_path w0 ts ps w1 : pws w0 -> fsteps_text ts ps -> pws w1 -> jp_rooted_text (w0 ++ 36 :: ts ++ w1) (PRoot :: ps)
| JP_predicate w0 t e w1 : pws w0 -> or_text false t e -> pws w1 -> jp_rooted_text (w0 ++ t ++ w1) [PPredicate e].

(* "compatible with Snowflake query syntax" (parser.rs, tests `k1.k2:k3`, `[1][2]`, `["k1"]["k2"]`, `k1["k2"][1]`): the
   leading `$` may be omitted, and then the first field name does not need its period.  As a special case the empty
   text is the empty path. *)
Inductive jp_unrooted_text : list N -> list path -> Prop :=
| JP_steps w0 ts ps w1 : pws w0 -> fsteps_text ts ps -> pws w1 -> jp_unrooted_text (w0 ++ ts ++ w1) ps
| JP_named w0 t s ts ps w1 : pws w0 -> bare_name t s -> fsteps_text ts ps -> pws w1 ->
    jp_unrooted_text (w0 ++ t ++ ts ++ w1) (PDotField s :: ps).

Definition jp_text (t : list N) (ps : list path) : Prop := jp_rooted_text t ps \/ jp_unrooted_text t ps.

(* What the documentation does not say about the unrooted forms, and the parser decides (PathGrammarProofs.v, C09.v):
   a text is first tried as a predicate, so an unrooted path that starts like a literal is read differently or rejected:
   `5.* .5` is the predicate 5.0 * 0.5, and `5.e`, `1e.a`, `.5e` (a number with a dangling exponent) are rejected.
   starts_like_an_expression is the simple syntactic test outside which completeness of the unrooted forms is proved:
   the first byte is a digit, one of n t f N i I e (null true false nan inf exists), or a point followed by a digit. *)
Definition starts_like_an_expression (t : list N) : Prop :=
  match t with
  | c :: r => is_digit c = true \/ In c [110; 116; 102; 78; 105; 73; 101] \/
              (c = 46 /\ match r with d :: _ => is_digit d = true | [] => False end)
  | [] => False
  end.
