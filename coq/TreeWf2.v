(* TreeWf2.v — the chain invariant of TreeWf.v extended to the key-path operations and object_keys (C07). *)
From Coq Require Import List NArith ZArith Bool Lia.
Import ListNotations.
From JB Require Import Constants Bytes Utf8 Num Value Codec TreeOps SetOps OrderProofs RoundtripProofs TreeWf.
Open Scope N_scope.
Set Default Timeout 300.

Lemma wf_nthZ l i x : forallb wf_shape l = true -> nthZ l i = Some x -> wf_shape x = true.
Proof.
  unfold nthZ. destruct ((i <? 0) || (lenZ l <=? i))%Z; [discriminate|]. intros H E. rewrite forallb_forall in H. apply H.
  revert E. generalize (Z.to_nat i). clear. induction l as [|y l IH]; intros [|n] E; cbn [nth_opt] in E; try discriminate.
  - injection E as ->. left. reflexivity.
  - right. eapply IH. exact E.
Qed.

Lemma wf_get_by_keypath : forall ks v x, wf_shape v = true -> get_by_keypath_t v ks = Some x -> wf_shape x = true.
Proof.
  induction ks as [|k r IH]; intros v x Hv H; cbn [get_by_keypath_t] in H; [injection H as <-; exact Hv|].
  destruct k as [i|n|n], v as [|b|s|nm|l|o]; try discriminate H.
  - cbn [wf_shape] in Hv. destruct (GBK_T_REJECT _ _); [discriminate H|].
    destruct (nthZ l _) as [y|] eqn:E; [|discriminate H]. apply (IH y x); [eapply wf_nthZ; eauto|exact H].
  - destruct (assoc_lookup n o) as [y|] eqn:E; [|discriminate H]. apply (IH y x); [|exact H].
    cbn [wf_shape] in Hv. apply andb_true_iff in Hv. destruct Hv as [_ M]. apply (members_values o y M). apply (lookup_member n o y E).
  - destruct (assoc_lookup n o) as [y|] eqn:E; [|discriminate H]. apply (IH y x); [|exact H].
    cbn [wf_shape] in Hv. apply andb_true_iff in Hv. destruct Hv as [_ M]. apply (members_values o y M). apply (lookup_member n o y E).
Qed.

Lemma forallb_replace_nth {A} (p : A -> bool) l n x : forallb p l = true -> p x = true -> forallb p (replace_nth l n x) = true.
Proof.
  revert n. induction l as [|y l IH]; intros [|n] H Hx; cbn [replace_nth forallb] in *; try reflexivity;
    apply andb_true_iff in H; destruct H as [H1 H2]; apply andb_true_iff; split; auto.
Qed.

(* replacing the value of a member keeps the keys, hence the order and uniqueness *)
Lemma keys_assoc_replace {V} k (x : V) o : map fst (assoc_replace k x o) = map fst o.
Proof. unfold assoc_replace. rewrite map_map. apply map_ext. intros kv. destruct (bytes_eqb k (fst kv)); reflexivity. Qed.
Lemma keys_sorted_fst {V W} (a : list (list N * V)) (b : list (list N * W)) : map fst a = map fst b -> keys_sorted a = keys_sorted b.
Proof.
  revert b. induction a as [|[k v] a IH]; intros [|[k' w] b] E; cbn [map] in E; try discriminate E; [reflexivity|].
  injection E as -> E. cbn [keys_sorted]. destruct a as [|[k2 v2] a2], b as [|[k2' w2] b2]; cbn [map] in E; try discriminate E; [reflexivity|].
  injection E as E2 E3. rewrite (IH ((k2', w2) :: b2)) by (cbn [map fst]; rewrite E2, E3; reflexivity). rewrite E2. reflexivity.
Qed.
Lemma members_assoc_replace k x o : forallb member_ok o = true -> wf_shape x = true -> forallb member_ok (assoc_replace k x o) = true.
Proof.
  intros M Hx. unfold assoc_replace. rewrite forallb_forall in *. intros kv Hin. apply in_map_iff in Hin. destruct Hin as (kv0 & <- & Hin0).
  specialize (M kv0 Hin0). destruct (bytes_eqb k (fst kv0)); [|exact M].
  unfold member_ok in *. cbn [fst snd]. apply andb_true_iff in M. destruct M as [M1 _]. rewrite M1, Hx. reflexivity.
Qed.

Lemma wf_del_keypath fuel : forall v ks v', wf_shape v = true -> del_keypath fuel v ks = Some v' -> wf_shape v' = true.
Proof.
  induction fuel as [|f IH]; intros v ks v' Hv H; cbn [del_keypath] in H; [discriminate H|].
  destruct v as [|b|s|nm|l|o]; try discriminate H; destruct ks as [|k r]; try discriminate H; destruct k as [i|n|n]; try discriminate H.
  - cbn [wf_shape] in Hv. destruct (DKP_T_SKIP _ _); [discriminate H|].
    destruct r as [|k2 r2].
    + injection H as <-. cbn [wf_shape]. apply forallb_remove_nth. exact Hv.
    + destruct (nth_opt l _) as [x|] eqn:E; [|discriminate H]. destruct (is_container x); [|discriminate H].
      destruct (del_keypath f x (k2 :: r2)) as [x'|] eqn:E2; [|discriminate H]. injection H as <-. cbn [wf_shape].
      apply forallb_replace_nth; [exact Hv|]. apply (IH x (k2 :: r2) x'); [|exact E2].
      rewrite forallb_forall in Hv. apply Hv. revert E. generalize (Z.to_nat (DKP_T_RESOLVE i (lenZ l))). clear.
      induction l as [|y l IHl]; intros [|m] E; cbn [nth_opt] in E; try discriminate; [injection E as ->; left; reflexivity|right; eapply IHl; exact E].
  - cbn [wf_shape] in Hv. pose proof Hv as Hv0. apply andb_true_iff in Hv. destruct Hv as [S M]. fold member_ok in M.
    change (forallb (fun kv : list N * value => bytes_okb (fst kv) && utf8_valid (fst kv) && wf_shape (snd kv)) o) with (forallb member_ok o) in M.
    destruct r as [|k2 r2].
    + injection H as <-. apply (wf_delete_by_name (VObj o) n); [exact Hv0|reflexivity].
    + destruct (assoc_lookup n o) as [x|] eqn:E; [|injection H as <-; exact Hv0].
      destruct (is_container x); [|discriminate H]. destruct (del_keypath f x (k2 :: r2)) as [x'|] eqn:E2; [|discriminate H]. injection H as <-.
      assert (Hx' : wf_shape x' = true) by (apply (IH x (k2 :: r2) x'); [apply (members_values o x M); apply (lookup_member n o x E)|exact E2]).
      cbn [wf_shape]. apply andb_true_iff. split.
      * rewrite (keys_sorted_fst (assoc_replace n x' o) o (keys_assoc_replace n x' o)). exact S.
      * apply (members_assoc_replace n x' o M Hx').
  - cbn [wf_shape] in Hv. pose proof Hv as Hv0. apply andb_true_iff in Hv. destruct Hv as [S M]. fold member_ok in M.
    change (forallb (fun kv : list N * value => bytes_okb (fst kv) && utf8_valid (fst kv) && wf_shape (snd kv)) o) with (forallb member_ok o) in M.
    destruct r as [|k2 r2].
    + injection H as <-. apply (wf_delete_by_name (VObj o) n); [exact Hv0|reflexivity].
    + destruct (assoc_lookup n o) as [x|] eqn:E; [|injection H as <-; exact Hv0].
      destruct (is_container x); [|discriminate H]. destruct (del_keypath f x (k2 :: r2)) as [x'|] eqn:E2; [|discriminate H]. injection H as <-.
      assert (Hx' : wf_shape x' = true) by (apply (IH x (k2 :: r2) x'); [apply (members_values o x M); apply (lookup_member n o x E)|exact E2]).
      cbn [wf_shape]. apply andb_true_iff. split.
      * rewrite (keys_sorted_fst (assoc_replace n x' o) o (keys_assoc_replace n x' o)). exact S.
      * apply (members_assoc_replace n x' o M Hx').
Qed.

Lemma wf_delete_by_keypath v ks r : wf_shape v = true -> delete_by_keypath_t v ks = Ok r -> wf_shape r = true.
Proof.
  intros Hv H. unfold delete_by_keypath_t in H. destruct v as [|b|s|nm|l|o]; try discriminate H.
  - destruct (del_keypath _ _ _) as [v'|] eqn:E; injection H as <-; [eapply wf_del_keypath; eauto|exact Hv].
  - destruct (del_keypath _ _ _) as [v'|] eqn:E; injection H as <-; [eapply wf_del_keypath; eauto|exact Hv].
Qed.

Lemma wf_object_keys v k : wf_shape v = true -> object_keys_t v = Some k -> wf_shape k = true.
Proof.
  intros Hv H. destruct v as [|b|s|nm|l|o]; try discriminate H. injection H as <-. cbn [wf_shape] in *.
  apply andb_true_iff in Hv. destruct Hv as [_ M]. rewrite forallb_forall in *. intros x Hx. apply in_map_iff in Hx.
  destruct Hx as (kv & <- & Hin). specialize (M kv Hin). cbn [wf_shape]. apply andb_true_iff in M. apply M.
Qed.

(* ---- the extended operation language ---- *)
Inductive op2 :=
| OBase (o : op)
| OGetByKeypath (a : nat) (ks : list keypath)
| ODeleteByKeypath (a : nat) (ks : list keypath)
| OObjectKeys (a : nat).

Definition step_doc2 (regs : list value) (o : op2) : option value :=
  match o with
  | OBase b => step_doc regs b
  | OGetByKeypath a ks => get_by_keypath_t (reg regs a) ks
  | ODeleteByKeypath a ks => match delete_by_keypath_t (reg regs a) ks with Ok r => Some r | _ => None end
  | OObjectKeys a => object_keys_t (reg regs a)
  end.
Definition step2 (regs : list value) (o : op2) : list value :=
  match step_doc2 regs o with Some d => regs ++ [d] | None => regs end.
Definition run2 (regs : list value) (ops : list op2) : list value := fold_left step2 ops regs.

Lemma step_doc2_wf regs o d : Inv regs -> step_doc2 regs o = Some d -> wf_shape d = true.
Proof.
  intros HI H. destruct o as [b|a ks|a ks|a]; cbn [step_doc2] in H.
  - eapply step_doc_wf; eauto.
  - eapply wf_get_by_keypath; [|exact H]. apply reg_wf. exact HI.
  - destruct (delete_by_keypath_t _ _) eqn:E; try discriminate. injection H as <-. eapply wf_delete_by_keypath; [|exact E]. apply reg_wf. exact HI.
  - eapply wf_object_keys; [|exact H]. apply reg_wf. exact HI.
Qed.
Lemma step2_inv regs o : Inv regs -> Inv (step2 regs o).
Proof.
  intros H. unfold step2. destruct (step_doc2 regs o) as [d|] eqn:E; [|exact H].
  apply Forall_app. split; [exact H|]. constructor; [|constructor]. eapply step_doc2_wf; eauto.
Qed.
Theorem chain2_inv ops : forall regs, Inv regs -> Inv (run2 regs ops).
Proof. induction ops as [|o ops IH]; intros regs H; cbn [run2 fold_left]; [exact H|]. apply IH. apply step2_inv. exact H. Qed.
