(* PathParseFuel.v — the recursion fuel of the JSONPath parser model is never decisive (C09).
   PathParse.v threads a fuel through the mutual recursion expr_or / path (parentheses, exists(...), filters); parse_json_path
   starts it at S (length input) and every nesting level consumes at least one byte, so it cannot run out before the input
   does.  Proved here for EVERY input (accepted or not): with any two fuels above the length of the input the parsers give
   the same answer (`fuel_stable`), hence parse_json_path is the parser at ANY fuel above the input length
   (`parse_json_path_any_fuel`).  The proof needs that every parser of the model returns a rest no longer than its input
   (`shr_*`), and that the combinators only consult their recursive arguments on such rests (`*_ext`). *)
From Coq Require Import List NArith ZArith Bool Lia.
Import ListNotations.
From JB Require Import Constants Bytes Utf8 Num Value Decimal JsonText TreeOps Path PathParse.
Open Scope N_scope.
Set Default Timeout 120.

(* ---------------------------------------------------------------- "the rest is no longer than n" *)
Definition le_res {A} (n : nat) (p : pres A) : Prop := match p with POk r _ => (length r <= n)%nat | _ => True end.
Notation shr f := (forall bs, le_res (length bs) (f bs)).

Lemma le_mono {A} n m (p : pres A) : le_res n p -> (n <= m)%nat -> le_res m p.
Proof. destruct p; cbn [le_res]; auto. lia. Qed.
Lemma le_bind {A B} n (p : pres A) (f : list N -> A -> pres B) :
  le_res n p -> (forall r a, (length r <= n)%nat -> le_res n (f r a)) -> le_res n (pbind p f).
Proof. destruct p; cbn [le_res pbind]; auto. Qed.
Lemma le_map {A B} n (g : A -> B) (p : pres A) : le_res n p -> le_res n (pmap g p).
Proof. destruct p; cbn [le_res pmap pbind]; auto. Qed.
Lemma le_alt {A} n (p : pres A) q : le_res n p -> le_res n (q tt) -> le_res n (palt p q).
Proof. destruct p; cbn [le_res palt]; auto. Qed.
Lemma ms_le x : (length (multispace0 x) <= length x)%nat.
Proof. induction x as [|c r IH]; [apply le_n|]. cbn [multispace0]. destruct (is_space c); cbn [length] in *; lia. Qed.

Ltac ms_facts :=
  repeat match goal with
    | |- context [multispace0 ?x] =>
        lazymatch goal with _ : (length (multispace0 x) <= length x)%nat |- _ => fail | _ => pose proof (ms_le x) end
    | _ : context [multispace0 ?x] |- _ =>
        lazymatch goal with _ : (length (multispace0 x) <= length x)%nat |- _ => fail | _ => pose proof (ms_le x) end
    end.

(* ---------------------------------------------------------------- the primitives *)
Lemma shr_pchar c : shr (pchar c).
Proof. intros bs. unfold pchar. destruct bs as [|b r]; [exact I|]. destruct (b =? c); cbn [le_res length]; auto. Qed.
Lemma pchar_lt c bs r u : pchar c bs = POk r u -> (length r < length bs)%nat.
Proof. unfold pchar. destruct bs as [|b x]; [discriminate|]. destruct (b =? c); [|discriminate]. intros H. inversion H. cbn [length]. lia. Qed.
Lemma shr_ptag lit : shr (ptag lit).
Proof.
  induction lit as [|c l IH]; intros bs; cbn [ptag]; [cbn [le_res]; lia|]. destruct bs as [|b r]; [exact I|].
  destruct (b =? c); [|exact I]. apply (le_mono (length r)); [apply IH|cbn [length]; lia].
Qed.
Lemma ptag_lt c l : forall bs r u, ptag (c :: l) bs = POk r u -> (length r < length bs)%nat.
Proof.
  intros bs r u. cbn [ptag]. destruct bs as [|b x]; [discriminate|]. destruct (b =? c); [|discriminate]. intros H.
  pose proof (shr_ptag l x) as L. rewrite H in L. cbn [le_res length] in *. lia.
Qed.
Lemma shr_ptag_nc lit : shr (ptag_no_case lit).
Proof.
  induction lit as [|c l IH]; intros bs; cbn [ptag_no_case]; [cbn [le_res]; lia|]. destruct bs as [|b r]; [exact I|].
  destruct (_ =? _); [|exact I]. apply (le_mono (length r)); [apply IH|cbn [length]; lia].
Qed.
Lemma le_int_digits neg lo hi : forall bs acc any, le_res (length bs) (int_digits neg lo hi bs acc any).
Proof.
  induction bs as [|b r IH]; intros acc any; cbn [int_digits]; [destruct any; cbn [le_res length]; auto|].
  destruct (is_digit b); [|destruct any; cbn [le_res]; auto]. destruct (_ || _)%bool; [exact I|].
  apply (le_mono (length r)); [apply IH|cbn [length]; lia].
Qed.
Lemma shr_pint lo hi : shr (pint lo hi).
Proof.
  intros bs. unfold pint. destruct bs as [|b r]; [apply le_int_digits|].
  assert (T : le_res (length (b :: r)) (int_digits false lo hi r 0 false) /\ le_res (length (b :: r)) (int_digits true lo hi r 0 false))
    by (split; (apply (le_mono (length r)); [apply le_int_digits|cbn [length]; lia])).
  destruct T as [T1 T2]. destruct (b =? 43); [exact T1|]. destruct (b =? 45); [exact T2|]. apply le_int_digits.
Qed.
Lemma shr_pi32 : shr pi32. Proof. apply shr_pint. Qed.
Lemma shr_pi64 : shr pi64. Proof. apply shr_pint. Qed.
Lemma shr_pu64 : shr pu64. Proof. intros bs. apply le_int_digits. Qed.

Lemma take_digits_le : forall bs acc, (length (snd (take_digits bs acc)) <= length bs)%nat.
Proof.
  induction bs as [|c r IH]; intros acc; cbn [take_digits]; [apply le_n|]. destruct (is_digit c); [|apply le_n].
  specialize (IH (c :: acc)). cbn [length]. lia.
Qed.
Definition sign_split (bs : list N) : bool * list N :=
  match bs with 43 :: r => (false, r) | 45 :: r => (true, r) | _ => (false, bs) end.
Lemma sign_split_le bs : (length (snd (sign_split bs)) <= length bs)%nat.
Proof.
  unfold sign_split. destruct bs as [|b r]; [apply le_n|]. destruct b as [|p]; [apply le_n|].
  do 6 (destruct p; try apply le_n); cbn [snd length]; lia.
Qed.
Lemma shr_float_parts : shr float_parts.
Proof.
  intros bs. unfold float_parts. fold (sign_split bs). pose proof (sign_split_le bs) as L1.
  destruct (sign_split bs) as [neg bs1]. cbn [snd] in L1.
  pose proof (take_digits_le bs1 []) as L2. destruct (take_digits bs1 []) as [ids bs2]. cbn [snd] in L2.
  apply le_bind.
  - destruct ids as [|i0 ids].
    + destruct bs2 as [|c r]; [exact I|]. destruct c as [|p]; [exact I|]. do 6 (destruct p; try exact I).
      pose proof (take_digits_le r []) as L3. destruct (take_digits r []) as [fds r']. cbn [snd] in L3.
      destruct fds; [exact I|]. cbn [le_res length] in *. lia.
    + destruct bs2 as [|c r]; [cbn [le_res length]; lia|]. destruct c as [|p]; [cbn [le_res length] in *; lia|].
      do 6 (destruct p; try (cbn [le_res length] in *; lia)).
      pose proof (take_digits_le r []) as L3. destruct (take_digits r []) as [fds r']. cbn [snd] in L3. cbn [le_res length] in *. lia.
  - intros bs3 m L3. destruct bs3 as [|c r]; [cbn [le_res length]; lia|].
    destruct ((c =? 101) || (c =? 69))%bool; [|cbn [le_res]; exact L3].
    fold (sign_split r). pose proof (sign_split_le r) as L4. destruct (sign_split r) as [eneg r1]. cbn [snd] in L4.
    pose proof (take_digits_le r1 []) as L5. destruct (take_digits r1 []) as [eds r2]. cbn [snd] in L5.
    destruct eds; [exact I|]. cbn [le_res length] in *. lia.
Qed.
Lemma shr_pdouble : shr pdouble.
Proof.
  intros bs. unfold pdouble. repeat (apply le_alt; [apply le_map|]); try apply le_map;
    first [apply shr_float_parts|apply shr_ptag_nc].
Qed.

Lemma skipn_le {A} k (l : list A) : (length (skipn k l) <= length l)%nat.
Proof. rewrite skipn_length. lia. Qed.
Lemma check_escaped_le bs consumed rest : check_escaped bs = Some (consumed, rest) -> (length rest < length bs)%nat.
Proof.
  unfold check_escaped. destruct bs as [|b0 [|b1 r]]; try discriminate. destruct (b1 =? 117).
  - destruct r as [|c2 r1]; [discriminate|]. destruct r1 as [|c3 [|c4 [|c5 r']]]; try discriminate.
    remember (c2 :: c3 :: c4 :: c5 :: r') as R eqn:ER. destruct (c2 =? 123).
    + destruct (6 <=? length R)%nat; [|discriminate]. intros H. injection H as _ <-. apply (Nat.le_lt_trans _ (length R)); [apply (skipn_le 6 R)|cbn [length]; lia].
    + intros H. injection H as _ <-. apply (Nat.le_lt_trans _ (length R)); [apply (skipn_le 4 R)|cbn [length]; lia].
  - intros H. injection H as _ <-. cbn [length]. lia.
Qed.
Lemma scan_name_le stop : forall fuel bs acc esc data e rest st,
  scan_name fuel stop bs acc esc = Some (data, e, rest, st) -> (length rest <= length bs)%nat.
Proof.
  induction fuel as [|f IH]; intros bs acc esc data e rest st H; cbn [scan_name] in H; [discriminate|].
  destruct bs as [|c r]; [inversion H; apply le_n|]. destruct (c =? 92).
  - destruct (check_escaped (c :: r)) as [[consumed rest']|] eqn:E; [|discriminate].
    apply check_escaped_le in E. apply IH in H. lia.
  - destruct (stop c); [inversion H; apply le_n|]. apply IH in H. cbn [length]. lia.
Qed.
Lemma shr_raw_string : shr raw_string.
Proof.
  intros bs. unfold raw_string. destruct (scan_name (S (length bs)) is_delim bs [] 0) as [[[[data esc] rest] st]|] eqn:E; [|exact I].
  apply scan_name_le in E. destruct data; [exact I|]. destruct esc; [destruct (utf8_valid _); [exact E|exact I]|].
  destruct (parse_string _); cbn [res_to_pres le_res]; auto.
Qed.
Lemma shr_pstring : shr pstring.
Proof.
  intros bs. unfold pstring. destruct bs as [|q body]; [exact I|]. destruct q as [|p]; [exact I|]. do 6 (destruct p; try exact I).
  destruct (scan_name (S (length body)) (fun c => c =? 34) body [] 0) as [[[[data esc] rest] st]|] eqn:E; [|exact I].
  apply scan_name_le in E. destruct (negb st); [exact I|].
  assert (T : (length (tl rest) <= S (length body))%nat) by (destruct rest; cbn [tl length] in *; lia).
  destruct esc; [destruct (utf8_valid _); [exact T|exact I]|]. destruct (parse_string _); cbn [res_to_pres le_res length]; auto.
Qed.

(* ---------------------------------------------------------------- combinators *)
Section Comb.
  Context {A : Type} (f : list N -> pres A) (Hf : shr f).
  Lemma le_many0 : forall fuel bs acc, le_res (length bs) (many0 f fuel bs acc).
  Proof.
    induction fuel as [|k IH]; intros bs acc; cbn [many0]; [exact I|]. pose proof (Hf bs) as L.
    destruct (f bs) as [r a| | |]; cbn [le_res] in *; auto. destruct (_ =? _)%nat; [exact I|].
    apply (le_mono (length r)); [apply IH|exact L].
  Qed.
  Variable sep : list N -> pres unit.
  Hypothesis Hsep : shr sep.
  Lemma le_sep_loop : forall fuel bs acc, le_res (length bs) (sep_loop f sep fuel bs acc).
  Proof.
    induction fuel as [|k IH]; intros bs acc; cbn [sep_loop]; [exact I|]. pose proof (Hsep bs) as L1.
    destruct (sep bs) as [r1 u| | |]; cbn [le_res] in *; auto. destruct (_ =? _)%nat; [exact I|]. pose proof (Hf r1) as L2.
    destruct (f r1) as [r2 a| | |]; cbn [le_res] in *; auto. apply (le_mono (length r2)); [apply IH|lia].
  Qed.
  Lemma shr_separated_list1 : shr (separated_list1 f sep).
  Proof.
    intros bs. unfold separated_list1. apply le_bind; [apply Hf|]. intros r a L. apply (le_mono (length r)); [apply le_sep_loop|exact L].
  Qed.
  Lemma shr_ws_around : shr (ws_around f).
  Proof.
    intros bs. unfold ws_around. apply le_bind; [apply (le_mono (length (multispace0 bs))); [apply Hf|apply ms_le]|].
    intros r a L. cbn [le_res]. pose proof (ms_le r). lia.
  Qed.
End Comb.

#[local] Hint Resolve shr_pchar shr_ptag shr_ptag_nc shr_pi32 shr_pi64 shr_pu64 shr_pdouble shr_raw_string shr_pstring : le.

(* a leaf parser applied to some intermediate rest x, where x is no longer than n *)
Ltac le_leaf := (eapply le_mono; [solve [auto with le]|ms_facts; cbn [length] in *; lia]).
Ltac le_tac :=
  repeat match goal with
    | |- le_res _ (pbind _ _) => apply le_bind; [|intros ? ? ?]
    | |- le_res _ (palt _ _) => apply le_alt
    | |- le_res _ (pmap _ _) => apply le_map
    | |- le_res _ (POk _ _) => cbn [le_res]; ms_facts; cbn [length] in *; lia
    | |- le_res _ PErr => exact I
    | |- le_res _ (if ?c then _ else _) => destruct c
    | |- le_res _ (match ?x with Some _ => _ | None => _ end) => destruct x
    | |- le_res _ _ => le_leaf
    end.

Lemma shr_pindex : shr pindex.
Proof. intros bs. unfold pindex, LAST. le_tac. Qed.
#[local] Hint Resolve shr_pindex : le.
Lemma shr_parray_index : shr parray_index.
Proof. intros bs. unfold parray_index. le_tac. Qed.
#[local] Hint Resolve shr_parray_index : le.
Lemma shr_ws_parray_index : shr (ws_around parray_index).
Proof. apply shr_ws_around. apply shr_parray_index. Qed.
Lemma shr_array_indices : shr array_indices.
Proof.
  intros bs. unfold array_indices. apply le_bind; [le_leaf|]. intros r1 _ L1. apply le_bind.
  - eapply le_mono; [apply (shr_separated_list1 _ shr_ws_parray_index _ (shr_pchar 44))|exact L1].
  - intros r2 l L2. le_tac.
Qed.
#[local] Hint Resolve shr_array_indices : le.
Lemma shr_inner_path : shr inner_path.
Proof. intros bs. unfold inner_path, bracket_wildcard, colon_field, dot_field, field_after, object_field. le_tac. Qed.
Lemma shr_ws_inner_path : shr (ws_around inner_path).
Proof. apply shr_ws_around. apply shr_inner_path. Qed.
Lemma shr_path_value : shr path_value.
Proof. intros bs. unfold path_value. le_tac. Qed.
#[local] Hint Resolve shr_path_value : le.
Lemma shr_expr_paths rp : shr (expr_paths rp).
Proof.
  intros bs. unfold expr_paths. apply le_bind; [le_tac|]. intros r1 pre L1. apply le_bind.
  - eapply le_mono; [apply (le_many0 _ shr_ws_inner_path)|exact L1].
  - intros r2 ps L2. le_tac.
Qed.
Lemma shr_inner_expr rp : shr (inner_expr rp).
Proof. intros bs. unfold inner_expr. apply le_alt; apply le_map; [apply shr_expr_paths|apply shr_path_value]. Qed.
Lemma shr_ws_inner_expr rp : shr (ws_around (inner_expr rp)).
Proof. apply shr_ws_around. apply shr_inner_expr. Qed.
Lemma shr_pop : shr pop. Proof. intros bs. unfold pop. le_tac. Qed.
Lemma shr_punary : shr punary. Proof. intros bs. unfold punary. le_tac. Qed.
Lemma shr_pbarith : shr pbarith. Proof. intros bs. unfold pbarith. le_tac. Qed.
#[local] Hint Resolve shr_ws_inner_expr shr_pop shr_punary shr_pbarith : le.

(* ---------------------------------------------------------------- the expression parsers return no longer rests either *)
Section ShrExprs.
  Variable rp : bool.
  Variable pr : list N -> pres path.
  Variable er : list N -> pres expr.
  Hypothesis Hpr : shr pr.
  Hypothesis Her : shr er.
  Lemma shr_exists_paths : shr (exists_paths pr).
  Proof.
    intros bs. unfold exists_paths. apply le_bind; [le_tac|]. intros r1 pre L1. apply le_bind.
    - eapply le_mono; [apply (le_many0 _ Hpr)|exact L1].
    - intros r2 ps L2. le_tac.
  Qed.
  Lemma shr_pexists : shr (pexists pr).
  Proof.
    intros bs. unfold pexists. apply le_bind; [le_leaf|]. intros r1 _ L1. apply le_bind; [le_leaf|]. intros r2 _ L2.
    apply le_bind; [eapply le_mono; [apply shr_exists_paths|ms_facts; lia]|]. intros r3 ps L3. le_tac.
  Qed.
  Lemma shr_expr_atom : shr (expr_atom rp pr er).
  Proof.
    intros bs. unfold expr_atom. repeat apply le_alt; try apply shr_pexists.
    - le_tac.
    - le_tac.
    - le_tac.
    - apply le_bind; [le_leaf|]. intros r1 _ L1. apply le_bind; [eapply le_mono; [apply Her|ms_facts; lia]|]. intros r2 e L2. le_tac.
  Qed.
  Definition and_sep (b : list N) : pres unit := pdo (r, _) <- ptag [38; 38] (multispace0 b); POk (multispace0 r) tt.
  Definition or_sep (b : list N) : pres unit := pdo (r, _) <- ptag [124; 124] (multispace0 b); POk (multispace0 r) tt.
  Lemma shr_and_sep : shr and_sep.
  Proof. intros b. unfold and_sep. le_tac. Qed.
  Lemma shr_or_sep : shr or_sep.
  Proof. intros b. unfold or_sep. le_tac. Qed.
  Lemma shr_expr_and : shr (expr_and rp pr er).
  Proof. intros bs. unfold expr_and. apply le_map. apply (shr_separated_list1 _ shr_expr_atom and_sep shr_and_sep). Qed.
  Lemma shr_expr_or : shr (expr_or rp pr er).
  Proof. intros bs. unfold expr_or. apply le_map. apply (shr_separated_list1 _ shr_expr_and or_sep shr_or_sep). Qed.
End ShrExprs.

Lemma shr_fuel : forall f, (forall rp, shr (expr_or_fuel f rp)) /\ shr (path_fuel f).
Proof.
  induction f as [|f [IHe IHp]]; [split; intros; exact I|]. split.
  - intros rp bs. cbn [expr_or_fuel]. apply shr_expr_or; [exact IHp|apply IHe].
  - intros bs. cbn [path_fuel]. apply le_alt; [apply shr_ws_inner_path|]. apply shr_ws_around. intros b.
    apply le_bind; [le_leaf|]. intros r1 _ L1. apply le_bind; [le_leaf|]. intros r2 _ L2.
    apply le_bind; [eapply le_mono; [apply IHe|ms_facts; lia]|]. intros r3 e L3. le_tac.
Qed.

(* ---------------------------------------------------------------- the combinators consult their arguments on such rests only *)
Section Ext.
  Context {A : Type} (f g : list N -> pres A).
  Hypothesis Hf : shr f.
  Lemma many0_ext : forall fuel bs acc, (forall x, (length x <= length bs)%nat -> f x = g x) -> many0 f fuel bs acc = many0 g fuel bs acc.
  Proof.
    induction fuel as [|k IH]; intros bs acc H; cbn [many0]; [reflexivity|]. rewrite <- (H bs (le_n _)). pose proof (Hf bs) as L.
    destruct (f bs) as [r a| | |]; try reflexivity. cbn [le_res] in L. destruct (_ =? _)%nat; [reflexivity|].
    apply IH. intros x Hx. apply H. lia.
  Qed.
  Variable sep : list N -> pres unit.
  Hypothesis Hsep : shr sep.
  Lemma sep_loop_ext : forall fuel bs acc, (forall x, (length x <= length bs)%nat -> f x = g x) ->
    sep_loop f sep fuel bs acc = sep_loop g sep fuel bs acc.
  Proof.
    induction fuel as [|k IH]; intros bs acc H; cbn [sep_loop]; [reflexivity|]. pose proof (Hsep bs) as L1.
    destruct (sep bs) as [r1 u| | |]; try reflexivity. cbn [le_res] in L1. destruct (_ =? _)%nat; [reflexivity|].
    rewrite <- (H r1 L1). pose proof (Hf r1) as L2. destruct (f r1) as [r2 a| | |]; try reflexivity. cbn [le_res] in L2.
    apply IH. intros x Hx. apply H. lia.
  Qed.
  Lemma separated_list1_ext bs : (forall x, (length x <= length bs)%nat -> f x = g x) ->
    separated_list1 f sep bs = separated_list1 g sep bs.
  Proof.
    intros H. unfold separated_list1. rewrite <- (H bs (le_n _)). pose proof (Hf bs) as L.
    destruct (f bs) as [r a| | |]; try reflexivity. cbn [le_res pbind] in *. apply sep_loop_ext. intros x Hx. apply H. lia.
  Qed.
End Ext.

Section ExtExprs.
  Variable rp : bool.
  Variables pr1 pr2 : list N -> pres path.
  Variables er1 er2 : list N -> pres expr.
  Hypothesis Hpr : shr pr1.
  Hypothesis Her : shr er1.

  Lemma exists_paths_ext bs : (forall y, (length y <= length bs)%nat -> pr1 y = pr2 y) -> exists_paths pr1 bs = exists_paths pr2 bs.
  Proof.
    intros H. unfold exists_paths.
    assert (L : le_res (length bs) (palt (pmap (fun _ => PRoot) (pchar 36 bs)) (fun _ => pmap (fun _ => PCurrent) (pchar 64 bs)))) by le_tac.
    destruct (palt _ _) as [r1 pre| | |]; try reflexivity. cbn [le_res pbind] in *.
    rewrite (many0_ext pr1 pr2 Hpr (S (length r1)) r1 []); [reflexivity|]. intros x Hx. apply H. lia.
  Qed.
  Lemma pexists_ext bs : (forall y, (length y < length bs)%nat -> pr1 y = pr2 y) -> pexists pr1 bs = pexists pr2 bs.
  Proof.
    intros H. unfold pexists. destruct (ptag [101; 120; 105; 115; 116; 115] bs) as [r1 u| | |] eqn:E1; try reflexivity.
    apply ptag_lt in E1. cbn [pbind]. pose proof (shr_pchar 40 (multispace0 r1)) as L2.
    destruct (pchar 40 (multispace0 r1)) as [r2 u2| | |]; try reflexivity. cbn [le_res pbind] in *.
    rewrite (exists_paths_ext (multispace0 r2)); [reflexivity|]. intros y Hy. apply H. ms_facts. lia.
  Qed.
  Lemma expr_atom_ext bs : (forall y, (length y < length bs)%nat -> pr1 y = pr2 y) -> (forall y, (length y < length bs)%nat -> er1 y = er2 y) ->
    expr_atom rp pr1 er1 bs = expr_atom rp pr2 er2 bs.
  Proof.
    intros H1 H2. unfold expr_atom. rewrite (pexists_ext bs H1).
    assert (E : (pdo (r1, _) <- pchar 40 bs; pdo (r2, e) <- er1 (multispace0 r1); pdo (r3, _) <- pchar 41 (multispace0 r2); POk r3 e)
              = (pdo (r1, _) <- pchar 40 bs; pdo (r2, e) <- er2 (multispace0 r1); pdo (r3, _) <- pchar 41 (multispace0 r2); POk r3 e)).
    { destruct (pchar 40 bs) as [r1 u| | |] eqn:E1; try reflexivity. apply pchar_lt in E1. cbn [pbind].
      rewrite (H2 (multispace0 r1)); [reflexivity|]. ms_facts. lia. }
    rewrite E. reflexivity.
  Qed.
End ExtExprs.

Lemma expr_and_ext rp pr1 pr2 er1 er2 bs : shr pr1 -> shr er1 ->
  (forall y, (length y < length bs)%nat -> pr1 y = pr2 y) -> (forall y, (length y < length bs)%nat -> er1 y = er2 y) ->
  expr_and rp pr1 er1 bs = expr_and rp pr2 er2 bs.
Proof.
  intros Hpr Her H1 H2. unfold expr_and. f_equal.
  apply (separated_list1_ext _ _ (shr_expr_atom rp pr1 er1 Hpr Her) (and_sep) shr_and_sep).
  intros x Hx. apply expr_atom_ext; try assumption; intros y Hy; [apply H1|apply H2]; lia.
Qed.
Lemma expr_or_ext rp pr1 pr2 er1 er2 bs : shr pr1 -> shr er1 ->
  (forall y, (length y < length bs)%nat -> pr1 y = pr2 y) -> (forall y, (length y < length bs)%nat -> er1 y = er2 y) ->
  expr_or rp pr1 er1 bs = expr_or rp pr2 er2 bs.
Proof.
  intros Hpr Her H1 H2. unfold expr_or. f_equal.
  apply (separated_list1_ext _ _ (shr_expr_and rp pr1 er1 Hpr Her) (or_sep) shr_or_sep).
  intros x Hx. apply expr_and_ext; try assumption; intros y Hy; [apply H1|apply H2]; lia.
Qed.

(* ---------------------------------------------------------------- the theorem *)
(* any two fuels above the length of the input give the same answer — an accepted result, or the same rejection *)
Theorem fuel_stable : forall f1 f2 bs, (length bs < f1)%nat -> (length bs < f2)%nat ->
  (forall rp, expr_or_fuel f1 rp bs = expr_or_fuel f2 rp bs) /\ path_fuel f1 bs = path_fuel f2 bs.
Proof.
  induction f1 as [|f1 IH]; intros f2 bs H1 H2; [lia|]. destruct f2 as [|f2]; [lia|]. split.
  - intros rp. cbn [expr_or_fuel]. apply expr_or_ext.
    + apply (proj2 (shr_fuel f1)).
    + apply (proj1 (shr_fuel f1)).
    + intros y Hy. apply (IH f2 y); lia.
    + intros y Hy. apply (proj1 (IH f2 y ltac:(lia) ltac:(lia))).
  - cbn [path_fuel]. f_equal.
    assert (E : forall b, (length b <= length bs)%nat ->
              (pdo (r1, _) <- pchar 63 b; pdo (r2, _) <- pchar 40 (multispace0 r1); pdo (r3, e) <- expr_or_fuel f1 false (multispace0 r2);
               pdo (r4, _) <- pchar 41 (multispace0 r3); POk r4 (PFilter e))
            = (pdo (r1, _) <- pchar 63 b; pdo (r2, _) <- pchar 40 (multispace0 r1); pdo (r3, e) <- expr_or_fuel f2 false (multispace0 r2);
               pdo (r4, _) <- pchar 41 (multispace0 r3); POk r4 (PFilter e))).
    { intros b Hb. destruct (pchar 63 b) as [r1 u| | |] eqn:E1; try reflexivity. apply pchar_lt in E1. cbn [pbind].
      destruct (pchar 40 (multispace0 r1)) as [r2 u2| | |] eqn:E2; try reflexivity. apply pchar_lt in E2. cbn [pbind].
      rewrite (proj1 (IH f2 (multispace0 r2) ltac:(ms_facts; lia) ltac:(ms_facts; lia)) false). reflexivity. }
    unfold ws_around. rewrite (E (multispace0 bs) (ms_le bs)). reflexivity.
Qed.

Lemma shr_pre_path : shr pre_path.
Proof.
  intros bs. unfold pre_path. apply le_alt; apply le_map; [apply shr_pchar|]. apply (shr_ws_around _ shr_raw_string).
Qed.

Theorem json_path_fuel_stable f bs : (length bs < f)%nat -> json_path_fuel f bs = json_path_fuel (S (length bs)) bs.
Proof.
  intros Hf. unfold json_path_fuel. cbv zeta. pose proof (ms_le bs) as L0. set (bs0 := multispace0 bs) in *. f_equal.
  assert (E1 : ws_around (expr_or_fuel f true) bs0 = ws_around (expr_or_fuel (S (length bs)) true) bs0).
  { unfold ws_around. rewrite (proj1 (fuel_stable f (S (length bs)) (multispace0 bs0) ltac:(ms_facts; lia) ltac:(ms_facts; lia)) true). reflexivity. }
  rewrite E1.
  assert (M : forall r1, (length r1 <= length bs0)%nat ->
            many0 (path_fuel f) (S (length r1)) r1 [] = many0 (path_fuel (S (length bs))) (S (length r1)) r1 []).
  { intros r1 L1. apply (many0_ext _ _ (proj2 (shr_fuel f))). intros x Hx. apply (proj2 (fuel_stable f (S (length bs)) x ltac:(lia) ltac:(lia))). }
  pose proof (shr_pre_path bs0) as Lp.
  destruct (pre_path bs0) as [r p| | |]; cbn [le_res] in Lp; try reflexivity.
  - rewrite (M r Lp). reflexivity.
  - rewrite (M bs0 (le_n _)). reflexivity.
Qed.

(* parse_json_path is the parser at ANY fuel above the length of its input: the fuel S (length bs) it is defined with never
   decides an answer — not an acceptance, not a rejection *)
Theorem parse_json_path_any_fuel f bs : (length bs < f)%nat ->
  parse_json_path bs = match json_path_fuel f bs with
                       | POk [] ps => Ok ps
                       | POk _ _ => Err EOther
                       | PErr | PFail => Err EOther
                       | PPanic => Panic
                       end.
Proof. intros H. unfold parse_json_path. rewrite (json_path_fuel_stable f bs H). reflexivity. Qed.
