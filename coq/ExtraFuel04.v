(* ExtraFuel04.v — the recursion fuel of the comparison walker (CompareWalk.v) is never the reason for an answer, on
   ARBITRARY pairs of buffers (binary or text, well-formed or not).
     compare_scalar_w (fuel S (length L + length R), one unit per nesting level): the payload offset `lo` of a nested
       container has passed `from_ok L lo` (lo <= length L) and is at least 4 larger than the header offset of its
       parent, so  lo <= lenN L < lo + fuel  is an invariant;
     arr_loop_w (its own fuel S (length L), one unit per element): every round reads an entry word of L 4 bytes further
       on, so  lb + joff <= lenN L + 4 < lb + joff + 4 * fuel  is an invariant;
     obj_loop_w recurses on the key entry words already read (no fuel).
   The text branches of compare_w parse, re-encode (to_vec) and call compare_b on the new buffers: the lemma for
   compare_b is for all L R, and a parser error (whatever it is) is turned into an ordering, never propagated. *)
From Coq Require Import List NArith ZArith Bool Lia.
Import ListNotations.
From JB Require Import Constants Bytes Utf8 Num Value Codec JsonText Order Walk CodecProofs WalkProofs
  RenderWalkProofs ContainWalkProofs CompareWalk.
Open Scope N_scope.
Set Default Timeout 120.

Arguments N.lor : simpl never.
Arguments N.land : simpl never.
Arguments N.add : simpl never.
Arguments N.mul : simpl never.
Arguments N.sub : simpl never.
Arguments N.ltb : simpl never.
Arguments N.leb : simpl never.
Arguments N.eqb : simpl never.
Arguments be32 : simpl never.
Arguments read_u32 : simpl never.
Arguments slice : simpl never.

Lemma rd_nf bs off : nf (rd bs off).
Proof. unfold rd. destruct (read_u32 bs off); [apply nf_ok|apply nf_other]. Qed.
Lemma rd_ok bs off w : rd bs off = Ok w -> off + 4 <= lenN bs.
Proof. unfold rd. destruct (read_u32 bs off) eqn:E; [intros _; exact (read_u32_bound _ _ _ E)|discriminate]. Qed.
Lemma from_ok_nf bs off : nf (from_ok bs off).
Proof. unfold from_ok. destruct (off <=? lenN bs); [apply nf_ok|apply nf_panic]. Qed.
Lemma from_ok_le bs off u : from_ok bs off = Ok u -> off <= lenN bs.
Proof. unfold from_ok. destruct (off <=? lenN bs) eqn:E; [intros _; apply N.leb_le; exact E|discriminate]. Qed.
Lemma slice_p_nf bs off len : nf (slice_p bs off len).
Proof. unfold slice_p. destruct (slice bs off len); [apply nf_ok|apply nf_panic]. Qed.
Lemma rd_words_res_nf bs len joff : nf (rd_words_res bs len joff).
Proof. unfold rd_words_res. destruct (rd_words _ _ _ _ _); [apply nf_ok|apply nf_other]. Qed.

Section InnerNf.
  Variable L R : list N.
  Variable sc : N -> N -> N -> N -> res comparison.
  Variable lb : N.
  (* the element / key / member comparison is asked at payload offsets of L that are in bounds and not before lb *)
  Hypothesis Hsc : forall lw lo rw ro, lb <= lo -> lo <= lenN L -> nf (sc lw lo rw ro).

  Lemma arr_loop_w_nf : forall fuel i len joff rb lvo rvo llen rlen,
    lb + joff <= lenN L + 4 -> lenN L + 4 < lb + joff + 4 * N.of_nat fuel ->
    nf (arr_loop_w L R sc fuel i len joff lb rb lvo rvo llen rlen).
  Proof.
    induction fuel as [|f IH]; intros i len joff rb lvo rvo llen rlen H1 H2; [lia|]. cbn [arr_loop_w].
    destruct (i <? len); [|apply nf_ok].
    apply nf_bind; [apply rd_nf|]. intros lw Elw. apply rd_ok in Elw.
    apply nf_bind; [apply rd_nf|]. intros rw _.
    apply nf_bind; [apply from_ok_nf|]. intros u Ef. apply from_ok_le in Ef.
    apply nf_bind; [apply from_ok_nf|]. intros u' _.
    apply nf_bind; [apply Hsc; [lia|exact Ef]|]. intros o _.
    destruct o; [|apply nf_ok|apply nf_ok]. apply IH; unfold CMA_JSTEP; lia.
  Qed.

  Lemma obj_loop_w_nf : forall lkws rkws ljo rjo rb lko rko lvo rvo llen rlen,
    nf (obj_loop_w L R sc lkws rkws ljo rjo lb rb lko rko lvo rvo llen rlen).
  Proof.
    induction lkws as [|lk lks IH]; intros rkws ljo rjo rb lko rko lvo rvo llen rlen; [cbn [obj_loop_w]; apply nf_ok|].
    destruct rkws as [|rk rks]; [cbn [obj_loop_w]; apply nf_ok|]. cbn [obj_loop_w].
    apply nf_bind; [apply from_ok_nf|]. intros u Ef. apply from_ok_le in Ef.
    apply nf_bind; [apply from_ok_nf|]. intros u' _.
    apply nf_bind; [apply Hsc; [lia|exact Ef]|]. intros ko _.
    destruct ko; [|apply nf_ok|apply nf_ok].
    apply nf_bind; [apply rd_nf|]. intros lw _.
    apply nf_bind; [apply rd_nf|]. intros rw _.
    apply nf_bind; [apply from_ok_nf|]. intros u2 Ef2. apply from_ok_le in Ef2.
    apply nf_bind; [apply from_ok_nf|]. intros u3 _.
    apply nf_bind; [apply Hsc; [lia|exact Ef2]|]. intros vo _.
    destruct vo; [|apply nf_ok|apply nf_ok]. apply IH.
  Qed.

  Lemma compare_array_w_nf lh rh rb : 4 <= lb -> lb <= lenN L -> nf (compare_array_w L R sc lh lb rh rb).
  Proof. intros H0 H. unfold compare_array_w. cbv zeta. apply arr_loop_w_nf; unfold CMA_JOFF, lenN in *; lia. Qed.
  Lemma compare_object_w_nf lh rh rb : nf (compare_object_w L R sc lh lb rh rb).
  Proof.
    unfold compare_object_w. cbv zeta. apply nf_bind; [apply rd_words_res_nf|]. intros lkws _.
    apply nf_bind; [apply rd_words_res_nf|]. intros rkws _. apply obj_loop_w_nf.
  Qed.
End InnerNf.

Lemma compare_container_w_nf L R sc lo ro :
  (forall lw lo' rw ro', lo + 4 <= lo' -> lo' <= lenN L -> nf (sc lw lo' rw ro')) ->
  nf (compare_container_w L R sc lo ro).
Proof.
  intros Hsc. unfold compare_container_w.
  apply nf_bind; [apply rd_nf|]. intros lh Elh. apply rd_ok in Elh.
  apply nf_bind; [apply rd_nf|]. intros rh _. cbv zeta.
  repeat match goal with |- nf (if ?c then _ else _) => destruct c end;
    try apply nf_ok; try apply nf_other.
  - apply compare_array_w_nf; unfold CMP_ARR_LSKIP; [intros; apply Hsc; lia|lia|lia].
  - apply compare_object_w_nf. unfold CMP_OBJ_LSKIP. exact Hsc.
Qed.

(* one unit of fuel per nesting level; the payload offset grows by at least 4 per level and stays in bounds *)
Theorem compare_scalar_w_fuel : forall fuel L R lw lo rw ro, lo <= lenN L -> lenN L < lo + N.of_nat fuel ->
  compare_scalar_w fuel L R lw lo rw ro <> Err EFuel.
Proof.
  induction fuel as [|f IH]; intros L R lw lo rw ro H1 H2; [lia|].
  change (nf (compare_scalar_w (S f) L R lw lo rw ro)). cbn [compare_scalar_w]. cbv zeta.
  destruct (negb (jlevel lw =? jlevel rw)); [apply nf_ok|].
  destruct ((je_type lw =? NULL_TAG) && (je_type rw =? NULL_TAG)); [apply nf_ok|].
  destruct ((je_type lw =? CONTAINER_TAG) && (je_type rw =? CONTAINER_TAG)).
  { apply compare_container_w_nf. intros lw' lo' rw' ro' A B. apply IH; lia. }
  destruct ((je_type lw =? STRING_TAG) && (je_type rw =? STRING_TAG)).
  { apply nf_bind; [apply slice_p_nf|]. intros a _. apply nf_bind; [apply slice_p_nf|]. intros b _. apply nf_ok. }
  destruct ((je_type lw =? NUMBER_TAG) && (je_type rw =? NUMBER_TAG)).
  { apply nf_bind; [apply slice_p_nf|]. intros a _. apply nf_bind; [apply num_decode_not_fuel|]. intros x _.
    apply nf_bind; [apply slice_p_nf|]. intros b _. apply nf_bind; [apply num_decode_not_fuel|]. intros y _. apply nf_ok. }
  destruct ((je_type lw =? TRUE_TAG) && (je_type rw =? TRUE_TAG)); [apply nf_ok|].
  destruct ((je_type lw =? FALSE_TAG) && (je_type rw =? FALSE_TAG)); [apply nf_ok|apply nf_other].
Qed.

(* compare, binary branch: any two buffers *)
Theorem compare_b_not_fuel L R : compare_b L R <> Err EFuel.
Proof.
  change (nf (compare_b L R)). unfold compare_b.
  apply nf_bind; [apply rd_nf|]. intros lh Elh. apply rd_ok in Elh.
  apply nf_bind; [apply rd_nf|]. intros rh _. cbv zeta beta.
  assert (Hsc : forall lw lo rw ro, 4 <= lo -> lo <= lenN L ->
                nf (compare_scalar_w (S (length L + length R)) L R lw lo rw ro)).
  { intros lw lo rw ro A B. apply compare_scalar_w_fuel; [exact B|unfold lenN in *; lia]. }
  repeat match goal with |- nf (if ?c then _ else _) => destruct c end;
    try apply nf_ok; try apply nf_other.
  - apply nf_bind; [apply rd_nf|]. intros lw _. apply nf_bind; [apply rd_nf|]. intros rw _.
    apply nf_bind; [apply from_ok_nf|]. intros u Ef. apply from_ok_le in Ef.
    apply nf_bind; [apply from_ok_nf|]. intros u' _. unfold CPR_SC_LSKIP in *. apply Hsc; [lia|exact Ef].
  - unfold CPR_ARR_LSKIP. apply compare_array_w_nf; [exact Hsc|lia|lia].
  - unfold CPR_OBJ_LSKIP. apply compare_object_w_nf. exact Hsc.
  - apply nf_bind; [apply rd_nf|]. intros lw _. apply nf_ok.
  - apply nf_bind; [apply rd_nf|]. intros rw _. apply nf_ok.
Qed.

(* the public function *)
Theorem compare_w_not_fuel : forall l r, compare_w l r <> Err EFuel.
Proof.
  intros l r. change (nf (compare_w l r)). unfold compare_w.
  destruct (is_jsonb l), (is_jsonb r).
  - apply compare_b_not_fuel.
  - destruct (parse_value r); [apply compare_b_not_fuel|apply nf_ok|apply nf_panic].
  - destruct (parse_value l); [apply compare_b_not_fuel|apply nf_ok|apply nf_panic].
  - destruct (parse_value l), (parse_value r); try apply nf_ok; try apply nf_panic. apply compare_b_not_fuel.
Qed.
Print Assumptions compare_w_not_fuel.

(* corrupt buffers: the walker answers, and the answer is not the fuel *)
Definition fuel04_doc := enc (VArr [VObj [([97], VArr [VNull; VStr [98;99]])]; VBool true]).
Example fuel04_ok : compare_w fuel04_doc fuel04_doc = Ok Eq.
Proof. vm_compute. reflexivity. Qed.
(* truncated on the left: an entry word of the nested array cannot be read *)
Example fuel04_truncated_left : compare_w (firstn 30 fuel04_doc) fuel04_doc = Err EOther.
Proof. vm_compute. reflexivity. Qed.
(* truncated on the right: &right[off..] out of bounds *)
Example fuel04_truncated_right : compare_w fuel04_doc (firstn 21 fuel04_doc) = Panic.
Proof. vm_compute. reflexivity. Qed.
(* both element counts replaced by 2^29 - 1: the loop runs until an offset leaves the buffer, not until the count *)
Example fuel04_huge_count :
  compare_w (128 :: 255 :: 255 :: 255 :: skipn 4 fuel04_doc) (128 :: 255 :: 255 :: 255 :: skipn 4 fuel04_doc) = Panic.
Proof. vm_compute. reflexivity. Qed.
(* header type of the nested array replaced by an unknown one *)
Example fuel04_bad_nested : compare_w (firstn 25 fuel04_doc ++ 0 :: skipn 26 fuel04_doc) fuel04_doc = Err EOther.
Proof. vm_compute. reflexivity. Qed.
(* text that does not parse against a binary value; text that parses against a truncated binary value *)
Example fuel04_text_bad : compare_w [91; 91] fuel04_doc = Ok Lt.
Proof. vm_compute. reflexivity. Qed.
Example fuel04_text_vs_truncated : compare_w [91; 49; 93] (firstn 13 fuel04_doc) = Ok Lt.
Proof. vm_compute. reflexivity. Qed.
