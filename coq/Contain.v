(* Contain.v — containment (PostgreSQL @>), mirror of contains_value; after the fix contains_jsonb uses the
   same numeric equality, so one tree function models both branches. *)
From Coq Require Import List NArith ZArith Bool.
Import ListNotations.
From JB Require Import Constants Bytes Num Value.
Open Scope N_scope.

Definition same_variant (a b : value) : bool :=
  match a, b with
  | VNull, VNull | VBool _, VBool _ | VStr _, VStr _ | VNum _, VNum _ | VArr _, VArr _ | VObj _, VObj _ => true
  | _, _ => false
  end.

(* contains_t b a: does a contain b?  (structural recursion on the right-hand document) *)
Fixpoint contained_in (b a : value) {struct b} : bool :=
  match a, is_scalar b with
  | VArr la, true => existsb (fun x => value_eqb x b) la
  | _, _ =>
      if negb (same_variant a b) then false else
      match b with
      | VObj rb =>
          match a with
          | VObj la =>
              (length rb <=? length la)%nat &&
              forallb (fun kv =>
                         match assoc_lookup (fst kv) la with
                         | Some lv => same_variant lv (snd kv) &&
                                      (if is_scalar lv then value_eqb lv (snd kv) else contained_in (snd kv) lv)
                         | None => false
                         end) rb
          | _ => false
          end
      | VArr rb =>
          match a with
          | VArr la =>
              forallb (fun rv =>
                         if is_scalar rv then existsb (fun x => value_eqb x rv) la
                         else existsb (fun lv => is_container lv && contained_in rv lv) la) rb
          | _ => false
          end
      | _ => value_eqb a b
      end
  end.
Definition contains_t (a b : value) : bool := contained_in b a.
