(* CastWalkProofs.v — the offset-faithful scalar accessors, casts and traverse_check_string of CastWalk.v return the
   tree answer on every canonical encoding (C05): on `enc v`, v well-formed, the header word, the entry word and the
   payload slice are where the readers look for them, nothing fails and nothing panics. *)
From Coq Require Import List NArith ZArith Bool Lia.
Import ListNotations.
From JB Require Import Constants Bytes Utf8 Num NumProofs Value Codec Decimal Order TreeOps JsonText Dispatch CodecProofs
  RoundtripProofs DispatchProofs Walk WalkProofs CastWalk.
Open Scope N_scope.
Set Default Timeout 120.

(* ---------------------------------------------------------------- the three reads on a scalar document *)
Lemma scalar_doc v : is_container v = false -> enc v = be32 SCALAR_CONTAINER_TAG ++ be32 (word v) ++ payload v.
Proof. intros Hs. destruct v; try discriminate Hs; reflexivity. Qed.

Lemma read_u32_mid' A w B off : off = lenN A -> w < 4294967296 -> read_u32 (A ++ be32 w ++ B) off = Some w.
Proof. intros ->. apply read_u32_mid. Qed.

Lemma scalar_word v : wf_size v = true -> is_container v = false -> read_u32 (enc v) 4 = Some (word v).
Proof.
  intros Hsz Hs. rewrite (scalar_doc v Hs). apply read_u32_mid'; [reflexivity|apply word_bound; exact Hsz].
Qed.

Lemma scalar_payload v : is_container v = false -> slice (enc v) 8 (lenN (payload v)) = Some (payload v).
Proof.
  intros Hs. rewrite (scalar_doc v Hs).
  replace (be32 SCALAR_CONTAINER_TAG ++ be32 (word v) ++ payload v)
    with ((be32 SCALAR_CONTAINER_TAG ++ be32 (word v)) ++ payload v ++ []) by (rewrite app_nil_r, <- app_assoc; reflexivity).
  apply slice_mid'; [rewrite lenN_app, !lenN_be32; reflexivity|reflexivity].
Qed.

Lemma hdr_type_scalar : (hdr_type SCALAR_CONTAINER_TAG =? SCALAR_CONTAINER_TAG) = true.
Proof. vm_compute. reflexivity. Qed.

Lemma scalar_entry_scalar v : wf_size v = true -> is_container v = false -> scalar_entry (enc v) = Some (word v).
Proof.
  intros Hsz Hs. unfold scalar_entry. rewrite (scalar_hdr v Hs), hdr_type_scalar. apply scalar_word; assumption.
Qed.

(* the header word of a container document *)
Lemma container_hdr v : wfb v = true -> is_container v = true ->
  exists h, read_u32 (enc v) 0 = Some h /\
            hdr_type h = match v with VArr _ => ARRAY_CONTAINER_TAG | _ => OBJECT_CONTAINER_TAG end.
Proof.
  intros Hwf Hc. destruct v as [|b|s|n|l|o]; try discriminate Hc.
  - destruct (wf_arr l Hwf) as [_ Hn]. exists (arr_hdr l).
    assert (Ebs : enc (VArr l) = [] ++ payload (VArr l) ++ []) by (rewrite app_nil_r; reflexivity).
    rewrite Ebs. change 0 with (lenN (@nil N)). rewrite (read_hdr_arr [] l [] Hn).
    destruct (arr_hdr_facts l Hn) as (_ & HT & _). split; [reflexivity|exact HT].
  - destruct (obj_ok_of_wf o Hwf) as [_ Hn]. exists (obj_hdr o).
    assert (Ebs : enc (VObj o) = [] ++ payload (VObj o) ++ []) by (rewrite app_nil_r; reflexivity).
    rewrite Ebs. change 0 with (lenN (@nil N)). rewrite (read_hdr_obj [] o [] Hn).
    destruct (obj_hdr_facts o Hn) as (_ & HT & _). split; [reflexivity|exact HT].
Qed.

Lemma scalar_entry_container v : wfb v = true -> is_container v = true -> scalar_entry (enc v) = None.
Proof.
  intros Hwf Hc. destruct (container_hdr v Hwf Hc) as (h & Hr & Ht). unfold scalar_entry. rewrite Hr, Ht.
  destruct v; try discriminate Hc; reflexivity.
Qed.

(* as_null / as_bool compare the whole word: for the three tags without payload that is the tag test *)
Lemma word_is_tag v T : wf_size v = true -> In T [NULL_TAG; TRUE_TAG; FALSE_TAG] -> (word v =? T) = (tag_of v =? T).
Proof.
  intros Hsz HT.
  assert (JT : je_type T = T) by (cbn [In] in HT; destruct HT as [<-|[<-|[<-|[]]]]; vm_compute; reflexivity).
  destruct (tag_of v =? T) eqn:E.
  - apply N.eqb_eq in E. apply N.eqb_eq. rewrite <- E.
    destruct v as [|[]|s|n|l|o]; try reflexivity; cbn [tag_of] in E; subst T; cbn [In] in HT;
      destruct HT as [H|[H|[H|[]]]]; vm_compute in H; discriminate H.
  - destruct (word v =? T) eqn:E2; [|reflexivity]. apply N.eqb_eq in E2.
    pose proof (word_type v Hsz) as W. rewrite E2, JT in W. rewrite W, N.eqb_refl in E. discriminate E.
Qed.

Section Casts.
  Variable v : value.
  Hypothesis Hwf : wfb v = true.
  Let Hsz : wf_size v = true. Proof. apply wfb_size. exact Hwf. Qed.
  Let d := normalise v.

  Lemma as_null_b_enc : as_null_b (enc v) = Ok (match d with VNull => true | _ => false end).
  Proof.
    unfold as_null_b, d. destruct (is_container v) eqn:Ec.
    - rewrite (scalar_entry_container v Hwf Ec). destruct v; try discriminate Ec; reflexivity.
    - rewrite (scalar_entry_scalar v Hsz Ec), (word_is_tag v NULL_TAG Hsz) by (cbn [In]; auto).
      destruct (tag_tests v) as (H & _). rewrite H. destruct v; reflexivity.
  Qed.

  Lemma as_bool_b_enc : as_bool_b (enc v) = Ok (as_bool_t d).
  Proof.
    unfold as_bool_b, d. destruct (is_container v) eqn:Ec.
    - rewrite (scalar_entry_container v Hwf Ec). destruct v; try discriminate Ec; reflexivity.
    - rewrite (scalar_entry_scalar v Hsz Ec).
      rewrite (word_is_tag v FALSE_TAG Hsz), (word_is_tag v TRUE_TAG Hsz) by (cbn [In]; auto).
      destruct (tag_tests v) as (_ & H1 & H2 & _). rewrite H1, H2. destruct v as [|[]| | | |]; reflexivity.
  Qed.

  Lemma as_number_b_enc : as_number_b (enc v) = Ok (as_number_t d).
  Proof.
    unfold as_number_b, d. destruct (is_container v) eqn:Ec.
    - rewrite (scalar_entry_container v Hwf Ec). destruct v; try discriminate Ec; reflexivity.
    - rewrite (scalar_entry_scalar v Hsz Ec), (word_type v Hsz), (word_len v Hsz).
      destruct (tag_tests v) as (_ & _ & _ & _ & H & _). rewrite H.
      destruct v as [|b|s|n|l|o]; try reflexivity.
      rewrite (scalar_payload (VNum n) eq_refl). unfold payload. cbn [enc_item snd].
      assert (Hr : num_in_range n = true).
      { unfold wfb in Hwf. apply andb_true_iff in Hwf. destruct Hwf as [H1 _]. exact H1. }
      rewrite (num_roundtrip n Hr). reflexivity.
  Qed.

  Lemma as_str_b_enc : as_str_b (enc v) = Ok (as_str_t d).
  Proof.
    unfold as_str_b, d. destruct (is_container v) eqn:Ec.
    - rewrite (scalar_entry_container v Hwf Ec). destruct v; try discriminate Ec; reflexivity.
    - rewrite (scalar_entry_scalar v Hsz Ec), (word_type v Hsz), (word_len v Hsz).
      destruct (tag_tests v) as (_ & _ & _ & H & _). rewrite H.
      destruct v as [|b|s|n|l|o]; try reflexivity.
      rewrite (scalar_payload (VStr s) eq_refl). reflexivity.
  Qed.

  Lemma as_i64_b_enc : as_i64_b (enc v) = Ok (as_i64_t d).
  Proof. unfold as_i64_b. rewrite as_number_b_enc. unfold d. destruct v; reflexivity. Qed.
  Lemma as_u64_b_enc : as_u64_b (enc v) = Ok (as_u64_t d).
  Proof. unfold as_u64_b. rewrite as_number_b_enc. unfold d. destruct v; reflexivity. Qed.
  Lemma as_f64_b_enc : as_f64_b (enc v) = Ok (as_f64_t d).
  Proof. unfold as_f64_b. rewrite as_number_b_enc. unfold d. destruct v; reflexivity. Qed.

  Lemma is_array_b_enc : is_array_b (enc v) = Ok (match d with VArr _ => true | _ => false end).
  Proof.
    unfold is_array_b, hdr_or_default, d. destruct (is_container v) eqn:Ec.
    - destruct (container_hdr v Hwf Ec) as (h & -> & ->). destruct v; try discriminate Ec; reflexivity.
    - rewrite (scalar_hdr v Ec). destruct v; try discriminate Ec; reflexivity.
  Qed.
  Lemma is_object_b_enc : is_object_b (enc v) = Ok (match d with VObj _ => true | _ => false end).
  Proof.
    unfold is_object_b, hdr_or_default, d. destruct (is_container v) eqn:Ec.
    - destruct (container_hdr v Hwf Ec) as (h & -> & ->). destruct v; try discriminate Ec; reflexivity.
    - rewrite (scalar_hdr v Ec). destruct v; try discriminate Ec; reflexivity.
  Qed.

  Lemma type_of_b_enc : type_of_b (enc v) = Ok (type_of_t d).
  Proof.
    unfold type_of_b, d. destruct (is_container v) eqn:Ec.
    - destruct (container_hdr v Hwf Ec) as (h & -> & ->). destruct v; try discriminate Ec; reflexivity.
    - rewrite (scalar_hdr v Ec), hdr_type_scalar, (scalar_word v Hsz Ec), (word_type v Hsz).
      destruct (tag_tests v) as (H1 & H2 & H3 & H4 & H5 & _). rewrite H1, H2, H3, H4, H5.
      destruct v as [|[]| | | |]; try discriminate Ec; reflexivity.
  Qed.

  (* the casts: the as_* answers in the order the code asks for them *)
  Lemma to_bool_b_enc : to_bool_b (enc v) = of_cast (to_bool_t d).
  Proof.
    unfold to_bool_b. rewrite as_bool_b_enc, as_str_b_enc. unfold d.
    destruct v as [|b|s|n|l|o]; reflexivity.
  Qed.
  Lemma to_i64_b_enc : to_i64_b (enc v) = of_cast (to_i64_t d).
  Proof.
    unfold to_i64_b. rewrite as_i64_b_enc, as_bool_b_enc, as_str_b_enc. unfold d.
    destruct v as [|b|s|n|l|o]; try reflexivity.
    unfold to_i64_t, as_i64_t. cbn [normalise bind]. destruct (as_i64 (normalise_num n)); reflexivity.
  Qed.
  Lemma to_u64_b_enc : to_u64_b (enc v) = of_cast (to_u64_t d).
  Proof.
    unfold to_u64_b. rewrite as_u64_b_enc, as_bool_b_enc, as_str_b_enc. unfold d.
    destruct v as [|b|s|n|l|o]; try reflexivity.
    unfold to_u64_t, as_u64_t. cbn [normalise bind]. destruct (as_u64 (normalise_num n)); reflexivity.
  Qed.
  Lemma to_f64_b_enc : to_f64_b (enc v) = of_cast (to_f64_t d).
  Proof.
    unfold to_f64_b. rewrite as_f64_b_enc, as_bool_b_enc, as_str_b_enc. unfold d.
    destruct v as [|b|s|n|l|o]; reflexivity.
  Qed.
  Lemma to_str_b_enc : to_str_b (enc v) = of_cast (to_str_t d).
  Proof.
    unfold to_str_b. rewrite as_str_b_enc, as_bool_b_enc, as_number_b_enc. unfold d.
    destruct v as [|b|s|n|l|o]; reflexivity.
  Qed.
End Casts.

(* the public functions on encodings *)
Section CastsW.
  Variable v : value.
  Hypothesis Hwf : wfb v = true.
  Hypothesis Htop : top_ok v.
  Let Hj : is_jsonb (enc v) = true. Proof. apply is_jsonb_enc; assumption. Qed.
  Let d := normalise v.
  Lemma type_of_w_enc : type_of_w (enc v) = Ok (type_of_t d).
  Proof. unfold type_of_w. rewrite Hj. apply type_of_b_enc. exact Hwf. Qed.
  Lemma as_null_w_enc : as_null_w (enc v) = Ok (match d with VNull => true | _ => false end).
  Proof. unfold as_null_w. rewrite Hj. apply as_null_b_enc. exact Hwf. Qed.
  Lemma as_bool_w_enc : as_bool_w (enc v) = Ok (as_bool_t d).
  Proof. unfold as_bool_w. rewrite Hj. apply as_bool_b_enc. exact Hwf. Qed.
  Lemma as_number_w_enc : as_number_w (enc v) = Ok (as_number_t d).
  Proof. unfold as_number_w. rewrite Hj. apply as_number_b_enc. exact Hwf. Qed.
  Lemma as_i64_w_enc : as_i64_w (enc v) = Ok (as_i64_t d).
  Proof. unfold as_i64_w. rewrite Hj. apply as_i64_b_enc. exact Hwf. Qed.
  Lemma as_u64_w_enc : as_u64_w (enc v) = Ok (as_u64_t d).
  Proof. unfold as_u64_w. rewrite Hj. apply as_u64_b_enc. exact Hwf. Qed.
  Lemma as_f64_w_enc : as_f64_w (enc v) = Ok (as_f64_t d).
  Proof. unfold as_f64_w. rewrite Hj. apply as_f64_b_enc. exact Hwf. Qed.
  Lemma as_str_w_enc : as_str_w (enc v) = Ok (as_str_t d).
  Proof. unfold as_str_w. rewrite Hj. apply as_str_b_enc. exact Hwf. Qed.
  Lemma is_array_w_enc : is_array_w (enc v) = Ok (match d with VArr _ => true | _ => false end).
  Proof. unfold is_array_w. rewrite Hj. apply is_array_b_enc. exact Hwf. Qed.
  Lemma is_object_w_enc : is_object_w (enc v) = Ok (match d with VObj _ => true | _ => false end).
  Proof. unfold is_object_w. rewrite Hj. apply is_object_b_enc. exact Hwf. Qed.
  Lemma to_bool_w_enc : to_bool_w (enc v) = of_cast (to_bool_t d).
  Proof. unfold to_bool_w. rewrite Hj. apply to_bool_b_enc. exact Hwf. Qed.
  Lemma to_i64_w_enc : to_i64_w (enc v) = of_cast (to_i64_t d).
  Proof. unfold to_i64_w. rewrite Hj. apply to_i64_b_enc. exact Hwf. Qed.
  Lemma to_u64_w_enc : to_u64_w (enc v) = of_cast (to_u64_t d).
  Proof. unfold to_u64_w. rewrite Hj. apply to_u64_b_enc. exact Hwf. Qed.
  Lemma to_f64_w_enc : to_f64_w (enc v) = of_cast (to_f64_t d).
  Proof. unfold to_f64_w. rewrite Hj. apply to_f64_b_enc. exact Hwf. Qed.
  Lemma to_str_w_enc : to_str_w (enc v) = of_cast (to_str_t d).
  Proof. unfold to_str_w. rewrite Hj. apply to_str_b_enc. exact Hwf. Qed.
End CastsW.

(* ================================================================ traverse_check_string *)
(* A container as the walker sees it: a header word, one entry word per item, the items' payloads.  The items of an
   array are its elements; the items of an object are its keys (string entries, exactly like string values) followed
   by its values.  A scalar document is the same shape with the scalar header and the value as its single item. *)
Definition items_of (v : value) : list value :=
  match v with
  | VArr l => l
  | VObj o => map (fun kv => VStr (fst kv)) o ++ map snd o
  | _ => []
  end.
Definition chdr (v : value) : N := match v with VArr l => arr_hdr l | VObj o => obj_hdr o | _ => 0 end.

(* a string among the items satisfies the callback *)
Definition direct_hit (f : list N -> bool) (xs : list value) : bool :=
  existsb (fun x => match x with VStr s => f s | _ => false end) xs.

(* the offsets pushed for the containers among the items, the first payload being at |base| *)
Fixpoint kid_offs (base : N) (xs : list value) : list N :=
  match xs with
  | [] => []
  | x :: r => (if is_container x then [base] else []) ++ kid_offs (base + lenN (payload x)) r
  end.

(* the payload of x is in the buffer at offset off *)
Definition located (bs : list N) (off : N) (x : value) : Prop :=
  exists A' B', bs = A' ++ payload x ++ B' /\ lenN A' = off.

Lemma container_layout v : wfb v = true -> is_container v = true ->
  payload v = be32 (chdr v) ++ flat_map be32 (map word (items_of v)) ++ flat_map payload (items_of v) /\
  chdr v < 4294967296 /\
  tcs_size (chdr v) = Ok (lenN (items_of v)) /\
  Forall (fun x => wf_size x = true) (items_of v) /\
  Forall (fun x => wfb x = true) (filter is_container (items_of v)).
Proof.
  intros Hwf Hc. destruct v as [|b|s|n|l|o]; try discriminate Hc; cbn [items_of chdr].
  - destruct (wf_arr l Hwf) as [Hall Hn]. destruct (arr_hdr_facts l Hn) as (Hb & HT & HL).
    split; [apply payload_arr|]. split; [exact Hb|]. split; [|split].
    + unfold tcs_size. rewrite HT, HL. reflexivity.
    + eapply Forall_impl; [|exact Hall]. intros x. apply wfb_size.
    + rewrite Forall_forall in *. intros x Hx. apply filter_In in Hx. apply Hall. apply Hx.
  - destruct (wf_obj o Hwf) as (Hall & Hn & _). destruct (obj_hdr_facts o Hn) as (Hb & HT & HL).
    split; [|split; [exact Hb|split; [|split]]].
    + rewrite payload_obj. unfold kws, vws, vals, keys_bytes. f_equal.
      rewrite !map_app, !map_map, !flat_map_app, !flat_map_map, <- !app_assoc. reflexivity.
    + unfold tcs_size. rewrite HT, HL. rewrite lenN_app, !lenN_map.
      change (OBJECT_CONTAINER_TAG =? SCALAR_CONTAINER_TAG) with false.
      change (OBJECT_CONTAINER_TAG =? ARRAY_CONTAINER_TAG) with false. rewrite N.eqb_refl. f_equal. lia.
    + apply Forall_app. split; rewrite Forall_map; (eapply Forall_impl; [|exact Hall]); intros kv (H1 & _ & H3); cbn [fst snd].
      * cbn [wf_size]. apply N.ltb_lt. exact H3.
      * apply wfb_size. exact H1.
    + rewrite Forall_forall in *. intros x Hx. apply filter_In in Hx. destruct Hx as [Hin Hcx].
      apply in_app_or in Hin. destruct Hin as [Hin|Hin]; apply in_map_iff in Hin; destruct Hin as (kv & <- & Hkv).
      * discriminate Hcx.
      * apply (Hall kv Hkv).
Qed.

(* the `for _ in 0..size` loop over the entry words of a node *)
Lemma tcs_entries_node f A hdr xs B : Forall (fun x => wf_size x = true) xs ->
  forall todo done, xs = done ++ todo -> forall fuel back, (length todo < fuel)%nat ->
  tcs_entries fuel f (A ++ be32 hdr ++ flat_map be32 (map word xs) ++ flat_map payload xs ++ B)
              (lenN done) (lenN xs) (lenN A + 4 + 4 * lenN done) (lenN A + 4 + 4 * lenN xs + sum_len done) back
  = if direct_hit f todo then Ok (inl true)
    else Ok (inr (rev (kid_offs (lenN A + 4 + 4 * lenN xs + sum_len done) todo) ++ back)).
Proof.
  intros Hxs. set (bs := A ++ be32 hdr ++ flat_map be32 (map word xs) ++ flat_map payload xs ++ B).
  induction todo as [|t todo IH]; intros done Exs fuel back Hf;
    (destruct fuel as [|fuel]; [cbn [length] in Hf; lia|]); cbn [tcs_entries].
  - rewrite app_nil_r in Exs. subst done. rewrite N.ltb_irrefl. reflexivity.
  - assert (L : lenN done <? lenN xs = true) by (apply N.ltb_lt; rewrite Exs, lenN_app, lenN_cons; lia).
    rewrite L.
    assert (Ht : wf_size t = true) by (rewrite Exs in Hxs; apply Forall_app in Hxs; destruct Hxs as [_ Hxs]; inversion Hxs; assumption).
    assert (R : read_u32 bs (lenN A + 4 + 4 * lenN done) = Some (word t)).
    { unfold bs.
      replace (A ++ be32 hdr ++ flat_map be32 (map word xs) ++ flat_map payload xs ++ B)
        with ((A ++ be32 hdr) ++ flat_map be32 (map word xs) ++ (flat_map payload xs ++ B)) by (rewrite <- !app_assoc; reflexivity).
      apply (read_word_at _ (map word xs) _ (map word done) (word t) (map word todo)).
      - apply words_of_values_ok. exact Hxs.
      - rewrite Exs, map_app. reflexivity.
      - rewrite lenN_app, lenN_be32, lenN_map. reflexivity. }
    rewrite R, (word_type t Ht), (word_len t Ht).
    (* the rest of the loop, whatever the back list is *)
    assert (IH' : forall back',
      tcs_entries fuel f bs (lenN done + 1) (lenN xs) (lenN A + 4 + 4 * lenN done + 4)
                  (lenN A + 4 + 4 * lenN xs + sum_len done + lenN (payload t)) back'
      = if direct_hit f todo then Ok (inl true)
        else Ok (inr (rev (kid_offs (lenN A + 4 + 4 * lenN xs + sum_len done + lenN (payload t)) todo) ++ back'))).
    { intros back'. specialize (IH (done ++ [t])). rewrite lenN_app, lenN_cons, lenN_nil, sum_len_app in IH.
      cbn [sum_len fold_right] in IH.
      replace (lenN done + 1) with (lenN done + (1 + 0)) by lia.
      replace (lenN A + 4 + 4 * lenN done + 4) with (lenN A + 4 + 4 * (lenN done + (1 + 0))) by lia.
      replace (lenN A + 4 + 4 * lenN xs + sum_len done + lenN (payload t))
        with (lenN A + 4 + 4 * lenN xs + (sum_len done + (lenN (payload t) + 0))) by lia.
      apply IH; [rewrite Exs, <- app_assoc; reflexivity|cbn [length] in Hf; lia]. }
    destruct (tag_tests t) as (_ & _ & _ & Hs & _ & Hc). rewrite Hc, Hs.
    destruct t as [|b0|s0|n0|l0|o0]; cbn [direct_hit existsb kid_offs is_container is_scalar negb app orb];
      fold (direct_hit f todo); try (rewrite IH'; reflexivity).
    + (* a string: the callback sees its bytes *)
      assert (S1 : slice bs (lenN A + 4 + 4 * lenN xs + sum_len done) (lenN (payload (VStr s0))) = Some s0).
      { assert (P : flat_map payload xs = flat_map payload done ++ payload (VStr s0) ++ flat_map payload todo)
          by (rewrite Exs; apply payloads_split).
        unfold bs. rewrite P.
        replace (A ++ be32 hdr ++ flat_map be32 (map word xs) ++ (flat_map payload done ++ payload (VStr s0) ++ flat_map payload todo) ++ B)
          with ((A ++ be32 hdr ++ flat_map be32 (map word xs) ++ flat_map payload done) ++ s0 ++ (flat_map payload todo ++ B))
          by (rewrite <- !app_assoc; reflexivity).
        apply slice_mid'; [|reflexivity].
        rewrite !lenN_app, lenN_be32, len_flat_words, lenN_map, len_flat_payload. lia. }
      rewrite S1. destruct (f s0); [reflexivity|]. rewrite IH'. reflexivity.
    + rewrite IH'. destruct (direct_hit f todo); [reflexivity|]. cbn [rev]. rewrite <- app_assoc. reflexivity.
    + rewrite IH'. destruct (direct_hit f todo); [reflexivity|]. cbn [rev]. rewrite <- app_assoc. reflexivity.
Qed.

(* every offset pushed is the offset of the payload of the container it was pushed for *)
Lemma kid_offs_located A hdr xs B :
  forall todo done, xs = done ++ todo ->
  Forall2 (located (A ++ be32 hdr ++ flat_map be32 (map word xs) ++ flat_map payload xs ++ B))
          (kid_offs (lenN A + 4 + 4 * lenN xs + sum_len done) todo) (filter is_container todo).
Proof.
  induction todo as [|t todo IH]; intros done Exs; cbn [kid_offs filter]; [constructor|].
  assert (IH' : Forall2 (located (A ++ be32 hdr ++ flat_map be32 (map word xs) ++ flat_map payload xs ++ B))
                  (kid_offs (lenN A + 4 + 4 * lenN xs + sum_len done + lenN (payload t)) todo) (filter is_container todo)).
  { specialize (IH (done ++ [t])). rewrite sum_len_app in IH. cbn [sum_len fold_right] in IH.
    replace (lenN A + 4 + 4 * lenN xs + sum_len done + lenN (payload t))
      with (lenN A + 4 + 4 * lenN xs + (sum_len done + (lenN (payload t) + 0))) by lia.
    apply IH. rewrite Exs, <- app_assoc. reflexivity. }
  destruct (is_container t); cbn [app]; [|exact IH'].
  constructor; [|exact IH'].
  exists (A ++ be32 hdr ++ flat_map be32 (map word xs) ++ flat_map payload done), (flat_map payload todo ++ B). split.
  - assert (P : flat_map payload xs = flat_map payload done ++ payload t ++ flat_map payload todo)
      by (rewrite Exs; apply payloads_split).
    rewrite P, <- !app_assoc. reflexivity.
  - rewrite !lenN_app, lenN_be32, len_flat_words, lenN_map, len_flat_payload. lia.
Qed.

Definition kid_ok (k : value) : Prop := wfb k = true /\ is_container k = true.

Lemma direct_hit_app f a b : direct_hit f (a ++ b) = direct_hit f a || direct_hit f b.
Proof. apply existsb_app. Qed.

(* one pass over the front list: every container queued at this level *)
Lemma tcs_front_ok f bs : forall front ks, Forall2 (located bs) front ks -> Forall kid_ok ks ->
  forall back, exists offs',
    Forall2 (located bs) offs' (filter is_container (flat_map items_of ks)) /\
    tcs_front f bs front back
    = if direct_hit f (flat_map items_of ks) then Ok (inl true) else Ok (inr (rev offs' ++ back)).
Proof.
  induction 1 as [|off k front ks Hloc Hrest IH]; intros Hks back.
  - exists []. split; [constructor|]. reflexivity.
  - inversion Hks as [|? ? [Hwf Hc] Hks']; subst.
    destruct (container_layout k Hwf Hc) as (Epay & Hb & Hsize & Hsz & _).
    destruct Hloc as (A & B & Ebs & EA).
    set (xs := items_of k) in *.
    assert (Ebs' : bs = A ++ be32 (chdr k) ++ flat_map be32 (map word xs) ++ flat_map payload xs ++ B)
      by (rewrite Ebs, Epay, <- !app_assoc; reflexivity).
    cbn [tcs_front flat_map]. fold xs.
    assert (R : read_u32 bs off = Some (chdr k)) by (rewrite Ebs'; apply read_u32_mid'; [symmetry; exact EA|exact Hb]).
    rewrite R, Hsize. cbn [bind].
    assert (Hf : (length xs < S (length bs))%nat).
    { rewrite Ebs'. rewrite !app_length, length_flat_words, map_length. lia. }
    pose proof (tcs_entries_node f A (chdr k) xs B Hsz xs [] eq_refl (S (length bs)) back) as E.
    rewrite <- Ebs' in E. specialize (E Hf).
    cbn [sum_len fold_right] in E. rewrite lenN_nil, N.mul_0_r, !N.add_0_r, EA in E. rewrite E. clear E.
    pose proof (kid_offs_located A (chdr k) xs B xs [] eq_refl) as K.
    rewrite <- Ebs' in K. cbn [sum_len fold_right] in K. rewrite N.add_0_r, EA in K.
    set (ko := kid_offs (off + 4 + 4 * lenN xs) xs) in *.
    destruct (IH Hks' (rev ko ++ back)) as (offs & Hoffs & Hrun).
    exists (ko ++ offs). split.
    + rewrite filter_app. apply Forall2_app; assumption.
    + rewrite direct_hit_app. destruct (direct_hit f xs); cbn [bind orb]; [reflexivity|].
      rewrite Hrun, rev_app_distr, <- app_assoc. reflexivity.
Qed.

(* ---- the tree side: the strings of a level are the strings among its items and the strings below *)
Lemma strings_split f xs :
  existsb f (flat_map all_strings xs)
  = direct_hit f xs || existsb f (flat_map all_strings (filter is_container xs)).
Proof.
  induction xs as [|x xs IH]; [reflexivity|].
  cbn [flat_map filter]. rewrite existsb_app, IH. unfold direct_hit at 2. cbn [existsb]. fold (direct_hit f xs).
  destruct x as [|b|s|n|l|o]; cbn [is_container is_scalar negb all_strings existsb orb flat_map];
    try reflexivity.
  - destruct (f s); reflexivity.
  - rewrite existsb_app. destruct (existsb f (flat_map all_strings l)), (direct_hit f xs); reflexivity.
  - rewrite existsb_app.
    destruct (existsb f (flat_map (fun kv : list N * value => fst kv :: all_strings (snd kv)) o)), (direct_hit f xs); reflexivity.
Qed.

Lemma obj_strings_split f (o : list (list N * value)) :
  existsb f (flat_map (fun kv => fst kv :: all_strings (snd kv)) o)
  = existsb f (flat_map (fun kv => [fst kv]) o) || existsb f (flat_map (fun kv => all_strings (snd kv)) o).
Proof.
  induction o as [|[k x] o IH]; [reflexivity|].
  cbn [flat_map fst snd all_strings app existsb]. rewrite !existsb_app, IH.
  match goal with |- ?a || (?b || (?c || ?e)) = (?a || ?c) || (?b || ?e) => destruct a, b, c, e; reflexivity end.
Qed.

Lemma strings_of_container f k : is_container k = true ->
  existsb f (all_strings k) = existsb f (flat_map all_strings (items_of k)).
Proof.
  destruct k as [|b|s|n|l|o]; try discriminate; intros _; cbn [all_strings items_of]; [reflexivity|].
  rewrite flat_map_app, existsb_app, !flat_map_map. exact (obj_strings_split f o).
Qed.

Lemma strings_level f ks : Forall kid_ok ks ->
  existsb f (flat_map all_strings ks)
  = direct_hit f (flat_map items_of ks) || existsb f (flat_map all_strings (filter is_container (flat_map items_of ks))).
Proof.
  intros Hks. rewrite <- strings_split.
  induction Hks as [|k ks [_ Hc] _ IH]; [reflexivity|].
  cbn [flat_map]. rewrite flat_map_app, !existsb_app, IH, (strings_of_container f k Hc). reflexivity.
Qed.

(* ---- depth: what bounds the number of levels *)
Definition maxdepth (ks : list value) : nat := fold_right (fun x acc => Nat.max (depth x) acc) 0%nat ks.

Lemma maxdepth_in ks x : In x ks -> (depth x <= maxdepth ks)%nat.
Proof. apply fold_max_le. Qed.
Lemma maxdepth_lt ks d : (0 < d)%nat -> (forall x, In x ks -> (depth x < d)%nat) -> (maxdepth ks < d)%nat.
Proof.
  intros Hd. induction ks as [|k ks IH]; intros H; cbn [maxdepth fold_right]; [exact Hd|].
  fold (maxdepth ks). pose proof (H k (or_introl eq_refl)). specialize (IH (fun x Hx => H x (or_intror Hx))). lia.
Qed.
Lemma item_depth k x : In x (items_of k) -> is_container x = true -> (depth x < depth k)%nat.
Proof.
  destruct k as [|b|s|n|l|o]; cbn [items_of]; try (intros []).
  - intros Hin _. cbn [depth]. pose proof (fold_max_le l x Hin). lia.
  - intros Hin Hc. apply in_app_or in Hin. destruct Hin as [Hin|Hin]; apply in_map_iff in Hin; destruct Hin as (kv & <- & Hkv).
    + discriminate Hc.
    + cbn [depth]. pose proof (fold_max_le_obj o kv Hkv). lia.
Qed.
Lemma depth_pos v : (0 < depth v)%nat.
Proof. destruct v; cbn [depth]; lia. Qed.

Lemma next_level_ok ks : Forall kid_ok ks -> Forall kid_ok (filter is_container (flat_map items_of ks)).
Proof.
  intros Hks. rewrite Forall_forall in *. intros x Hx. apply filter_In in Hx. destruct Hx as [Hin Hc].
  apply in_flat_map in Hin. destruct Hin as (k & Hk & Hxk). destruct (Hks k Hk) as [Hwf Hck].
  destruct (container_layout k Hwf Hck) as (_ & _ & _ & _ & Hkids). rewrite Forall_forall in Hkids.
  split; [|exact Hc]. apply Hkids. apply filter_In. split; assumption.
Qed.
Lemma next_level_depth ks : ks <> [] -> (maxdepth (filter is_container (flat_map items_of ks)) < maxdepth ks)%nat.
Proof.
  intros Hne. apply maxdepth_lt.
  - destruct ks as [|k ks]; [contradiction Hne; reflexivity|].
    pose proof (maxdepth_in (k :: ks) k (or_introl eq_refl)). pose proof (depth_pos k). lia.
  - intros x Hx. apply filter_In in Hx. destruct Hx as [Hin Hc].
    apply in_flat_map in Hin. destruct Hin as (k & Hk & Hxk).
    pose proof (item_depth k x Hxk Hc). pose proof (maxdepth_in ks k Hk). lia.
Qed.

(* the whole walk from a level on *)
Lemma tcs_run_ok f bs : forall fuel front ks, Forall2 (located bs) front ks -> Forall kid_ok ks ->
  (maxdepth ks < fuel)%nat ->
  tcs_run fuel f bs front = Ok (existsb f (flat_map all_strings ks)).
Proof.
  induction fuel as [|fuel IH]; intros front ks Hloc Hks Hd; [lia|].
  destruct Hloc as [|off k front ks Hk Hrest]; [reflexivity|].
  cbn [tcs_run].
  destruct (tcs_front_ok f bs (off :: front) (k :: ks) (Forall2_cons _ _ Hk Hrest) Hks []) as (offs & Hoffs & Hrun).
  rewrite Hrun. rewrite (strings_level f (k :: ks) Hks).
  destruct (direct_hit f (flat_map items_of (k :: ks))); [reflexivity|]. cbn [bind orb]. rewrite rev_append_rev, !app_nil_r, rev_involutive.
  apply IH; [exact Hoffs|apply next_level_ok; exact Hks|].
  pose proof (next_level_depth (k :: ks) ltac:(discriminate)). lia.
Qed.

Theorem traverse_check_string_b_enc v f : wfb v = true ->
  traverse_check_string_b (enc v) f = Ok (traverse_check_string_t' v f).
Proof.
  intros Hwf. unfold traverse_check_string_b, traverse_check_string_t'.
  destruct (is_container v) eqn:Ec.
  - assert (Ebs : enc v = [] ++ payload v ++ []) by (rewrite app_nil_r; destruct v; try discriminate Ec; reflexivity).
    rewrite (tcs_run_ok f (enc v) _ [0] [v]).
    + cbn [flat_map]. rewrite app_nil_r. reflexivity.
    + constructor; [|constructor]. exists [], []. split; [exact Ebs|reflexivity].
    + constructor; [split; assumption|constructor].
    + cbn [maxdepth fold_right]. pose proof (depth_bound v).
      assert (length (enc v) = length (payload v)) by (rewrite Ebs, app_nil_r; reflexivity). lia.
  - (* a scalar document: one node with the scalar header and the value as its only item *)
    assert (Hsz : wf_size v = true) by (apply wfb_size; exact Hwf).
    assert (Ebs : enc v = [] ++ be32 SCALAR_CONTAINER_TAG ++ flat_map be32 (map word [v]) ++ flat_map payload [v] ++ [])
      by (cbn [map flat_map app]; rewrite !app_nil_r; apply scalar_doc; exact Ec).
    cbn [tcs_run tcs_front]. rewrite (scalar_hdr v Ec).
    replace (tcs_size SCALAR_CONTAINER_TAG) with (@Ok N 1) by (vm_compute; reflexivity). cbn [bind].
    pose proof (tcs_entries_node f [] SCALAR_CONTAINER_TAG [v] [] (Forall_cons _ Hsz (Forall_nil _)) [v] [] eq_refl
                  (S (length (enc v))) []) as E.
    rewrite <- Ebs in E. cbn [sum_len fold_right length] in E.
    change (lenN (@nil value)) with 0 in E. change (lenN (@nil N)) with 0 in E. change (lenN [v]) with 1 in E.
    assert (Hlen : (8 <= length (enc v))%nat) by (rewrite (scalar_doc v Ec), !app_length, !be32_len; lia).
    specialize (E ltac:(lia)).
    replace (0 + 4 + 4 * 0) with (0 + 4) in E by reflexivity.
    replace (0 + 4 + 4 * 1 + 0) with (0 + 4 + 4 * 1) in E by reflexivity.
    rewrite E. clear E.
    destruct v as [|b|s|n|l|o]; try discriminate Ec; cbn [direct_hit existsb all_strings kid_offs is_container is_scalar negb app orb];
      try reflexivity.
    destruct (f s); reflexivity.
Qed.

Theorem traverse_check_string_w_enc v needle : wfb v = true -> top_ok v ->
  traverse_check_string_w (enc v) needle = Ok (traverse_check_string_t v needle).
Proof.
  intros Hwf Htop. unfold traverse_check_string_w. rewrite (is_jsonb_enc v Hwf Htop).
  apply traverse_check_string_b_enc. exact Hwf.
Qed.

(* ================================================================ the fuels are never the reason for an answer *)
(* On EVERY buffer (not only encodings) traverse_check_string_b ends with a boolean or a panic: the fuel of the entry
   loop and the fuel of the level loop are never used up, so the model has no behaviour the code does not have. *)
Lemma read_u32_some bs off w : read_u32 bs off = Some w -> off + 4 <= lenN bs.
Proof.
  unfold read_u32, slice. destruct (off + 4 <=? lenN bs) eqn:E; [intros _; apply N.leb_le; exact E|discriminate].
Qed.

Definition no_err {A} (r : res A) : Prop := match r with Err _ => False | _ => True end.

Lemma tcs_entries_inv f bs lb : forall fuel i size joff voff back,
  joff <= lenN bs -> lenN bs + 4 < joff + 4 * N.of_nat fuel ->
  (i < size -> lb <= voff) -> Forall (fun o => lb <= o) back ->
  match tcs_entries fuel f bs i size joff voff back with
  | Ok (inr back') => Forall (fun o => lb <= o) back'
  | Ok (inl _) => True
  | Err _ => False
  | Panic => True
  end.
Proof.
  induction fuel as [|fuel IH]; intros i size joff voff back Hj Hf Hv Hb; [lia|].
  cbn [tcs_entries]. destruct (i <? size) eqn:Ei; [|exact Hb]. apply N.ltb_lt in Ei.
  destruct (read_u32 bs joff) as [e|] eqn:Er; [|exact I].
  pose proof (read_u32_some bs joff e Er) as Hr. specialize (Hv Ei).
  assert (Hf' : lenN bs + 4 < joff + 4 + 4 * N.of_nat fuel) by lia.
  destruct (je_type e =? CONTAINER_TAG).
  - apply IH; [exact Hr|exact Hf'|intros _; lia|].
    constructor; [exact Hv|exact Hb].
  - destruct (je_type e =? STRING_TAG).
    + destruct (slice bs voff (je_len e)) as [s|]; [|exact I].
      destruct (f s); [exact I|]. apply IH; [exact Hr|exact Hf'|intros _; lia|exact Hb].
    + apply IH; [exact Hr|exact Hf'|intros _; lia|exact Hb].
Qed.

Lemma tcs_size_no_err hdr : no_err (tcs_size hdr).
Proof.
  unfold tcs_size. destruct (hdr_type hdr =? SCALAR_CONTAINER_TAG); [exact I|].
  destruct (hdr_type hdr =? ARRAY_CONTAINER_TAG); [exact I|]. destruct (hdr_type hdr =? OBJECT_CONTAINER_TAG); exact I.
Qed.

Lemma tcs_front_inv f bs lb : forall front back,
  Forall (fun o => lb <= o) front -> Forall (fun o => lb + 8 <= o) back ->
  match tcs_front f bs front back with
  | Ok (inr back') => Forall (fun o => lb + 8 <= o) back' /\ (front <> [] -> lb + 4 <= lenN bs)
  | Ok (inl _) => True
  | Err _ => False
  | Panic => True
  end.
Proof.
  induction front as [|o front IH]; intros back Hfr Hb; cbn [tcs_front].
  - split; [exact Hb|]. intros H. contradiction H. reflexivity.
  - inversion Hfr as [|? ? Ho Hfr']; subst.
    destruct (read_u32 bs o) as [hdr|] eqn:Er; [|exact I].
    pose proof (read_u32_some bs o hdr Er) as Hr.
    pose proof (tcs_size_no_err hdr) as Hs. destruct (tcs_size hdr) as [size|e|]; [|contradiction Hs|exact I].
    cbn [bind].
    pose proof (tcs_entries_inv f bs (lb + 8) (S (length bs)) 0 size (o + 4) (o + 4 + 4 * size) back) as E.
    assert (H1 : o + 4 <= lenN bs) by exact Hr.
    assert (H2 : lenN bs + 4 < o + 4 + 4 * N.of_nat (S (length bs))) by (unfold lenN; lia).
    specialize (E H1 H2 ltac:(lia) Hb).
    destruct (tcs_entries (S (length bs)) f bs 0 size (o + 4) (o + 4 + 4 * size) back) as [[b|back']|e|]; cbn [bind];
      [exact I| |exact E|exact I].
    specialize (IH back' Hfr' E).
    destruct (tcs_front f bs front back') as [[b|back'']|e|]; [exact I| |exact IH|exact I].
    split; [apply IH|]. intros _. lia.
Qed.

Lemma tcs_run_no_err f bs : forall fuel lb front,
  Forall (fun o => lb <= o) front -> lb <= lenN bs + 4 -> lenN bs + 12 < lb + 8 * N.of_nat fuel ->
  no_err (tcs_run fuel f bs front).
Proof.
  induction fuel as [|fuel IH]; intros lb front Hfr Hlb Hf; [lia|].
  cbn [tcs_run]. destruct front as [|o front]; [exact I|].
  pose proof (tcs_front_inv f bs lb (o :: front) [] Hfr (Forall_nil _)) as F.
  destruct (tcs_front f bs (o :: front) []) as [[b|back]|e|]; cbn [bind]; [exact I| |contradiction F|exact I].
  destruct F as [Hback Hlen]. specialize (Hlen ltac:(discriminate)).
  apply (IH (lb + 8)); [rewrite rev_append_rev, app_nil_r; apply Forall_rev; exact Hback|lia|lia].
Qed.

Theorem traverse_check_string_b_no_err bs f : no_err (traverse_check_string_b bs f).
Proof.
  unfold traverse_check_string_b. apply (tcs_run_no_err f bs _ 0).
  - constructor; [lia|constructor].
  - lia.
  - unfold lenN. lia.
Qed.

Corollary traverse_check_string_b_total bs f :
  (exists b, traverse_check_string_b bs f = Ok b) \/ traverse_check_string_b bs f = Panic.
Proof.
  pose proof (traverse_check_string_b_no_err bs f) as H.
  destruct (traverse_check_string_b bs f) as [b|e|]; [left; exists b; reflexivity|contradiction H|right; reflexivity].
Qed.
