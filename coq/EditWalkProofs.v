(* EditWalkProofs.v — placeholder, filled below *)
From JB Require Import EditWalk.
