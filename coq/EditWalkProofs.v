(* EditWalkProofs.v — the byte editors of EditWalk.v on encodings of well-formed values append exactly the encoding of
   the tree-level edit (TreeOps.v) to the caller's buffer, whatever that buffer holds; errors are the tree-level errors and
   append nothing; no panic.  (C06, C17) *)
From Coq Require Import List NArith ZArith Bool Lia.
Import ListNotations.
From JB Require Import Constants Bytes Utf8 Num Value Codec Order OrderProofs CodecProofs RoundtripProofs TreeOps JsonText
  Dispatch DispatchProofs Walk WalkProofs Iter IterProofs Builder BuilderProofs TreeWf EditWalk I32.
From JB Require Import BufSt EditStProofs.
Open Scope N_scope.
Set Default Timeout 120.

Arguments N.lor : simpl never.
Arguments N.land : simpl never.
Arguments N.add : simpl never.
Arguments N.mul : simpl never.
Arguments N.sub : simpl never.
Arguments N.ltb : simpl never.
Arguments N.leb : simpl never.
Arguments N.eqb : simpl never.
Arguments be32 : simpl never.
Arguments u32 : simpl never.
Arguments read_u32 : simpl never.
Arguments slice : simpl never.
Arguments slice_from : simpl never.

(* ---------------------------------------------------------------- lists *)
Lemma split_at_firstn_skipn {A} (l : list A) : forall n, split_at l n = (firstn (N.to_nat n) l, skipn (N.to_nat n) l).
Proof.
  induction l as [|x r IH]; intros n; cbn [split_at].
  - rewrite firstn_nil, skipn_nil. reflexivity.
  - destruct (n =? 0) eqn:E.
    + apply N.eqb_eq in E. subst n. reflexivity.
    + apply N.eqb_neq in E. rewrite IH.
      replace (N.to_nat n) with (S (N.to_nat (n - 1))) by lia. reflexivity.
Qed.
Lemma remove_at_nth {A} (l : list A) : forall n, remove_at l n = remove_nth l (N.to_nat n).
Proof.
  induction l as [|x r IH]; intros n; cbn [remove_at remove_nth]; [reflexivity|].
  destruct (n =? 0) eqn:E.
  - apply N.eqb_eq in E. subst n. reflexivity.
  - apply N.eqb_neq in E. replace (N.to_nat n) with (S (N.to_nat (n - 1))) by lia. rewrite IH. reflexivity.
Qed.
Lemma remove_nth_map {A B} (f : A -> B) (l : list A) : forall n, remove_nth (map f l) n = map f (remove_nth l n).
Proof.
  induction l as [|x r IH]; intros n; cbn [map remove_nth]; [reflexivity|].
  destruct n as [|n]; [reflexivity|]. cbn [map]. rewrite IH. reflexivity.
Qed.
Lemma filter_map_comm {A B} (f : B -> bool) (g : A -> B) (l : list A) :
  filter f (map g l) = map g (filter (fun x => f (g x)) l).
Proof.
  induction l as [|x r IH]; cbn [map filter]; [reflexivity|]. rewrite IH. destruct (f (g x)); reflexivity.
Qed.

Lemma slice_from_app (A B : list N) : slice_from (A ++ B) (lenN A) = Some B.
Proof.
  unfold slice_from. rewrite lenN_app.
  assert (E : lenN A <=? lenN A + lenN B = true) by (apply N.leb_le; lia). rewrite E.
  rewrite to_nat_lenN, skipn_app, skipn_all, Nat.sub_diag. reflexivity.
Qed.

(* ---------------------------------------------------------------- what a complete document looks like to the editors *)
Definition item_of (x : value) : je * list N := (ent x, payload x).
Definition mitem_of (kv : list N * value) : list N * (je * list N) := (fst kv, item_of (snd kv)).
(* the header word the editors read at offset 0 *)
Definition doc_hdr (x : value) : N :=
  match x with VArr l => arr_hdr l | VObj o => obj_hdr o | _ => SCALAR_CONTAINER_TAG end.
Definition doc_type (x : value) : N :=
  match x with VArr _ => ARRAY_CONTAINER_TAG | VObj _ => OBJECT_CONTAINER_TAG | _ => SCALAR_CONTAINER_TAG end.

Lemma raw_entry_item x : raw_entry (item_of x) = raw_of x. Proof. reflexivity. Qed.
Lemma map_raw_entry (l : list value) : map raw_entry (map item_of l) = map raw_of l.
Proof. rewrite map_map. reflexivity. Qed.

Lemma wf_size_count_arr l : wf_size (VArr l) = true -> lenN l < 536870912.
Proof.
  cbn [wf_size]. intros H. apply andb_true_iff in H. destruct H as [H _]. apply andb_true_iff in H. destruct H as [H _].
  apply N.ltb_lt. exact H.
Qed.
Lemma wf_size_count_obj o : wf_size (VObj o) = true -> lenN o < 536870912.
Proof.
  cbn [wf_size]. intros H. apply andb_true_iff in H. destruct H as [H _]. apply andb_true_iff in H. destruct H as [H _].
  apply N.ltb_lt. exact H.
Qed.

Lemma scalar_enc x : is_container x = false -> enc x = be32 SCALAR_CONTAINER_TAG ++ be32 (word x) ++ payload x.
Proof. destruct x; intros H; try discriminate H; reflexivity. Qed.
Lemma container_enc x : is_container x = true -> enc x = payload x.
Proof. destruct x; intros H; try discriminate H; reflexivity. Qed.

Lemma rd_enc x : wf_size x = true -> rd (enc x) 0 = Ok (doc_hdr x).
Proof.
  intros H. unfold rd. destruct x as [|b|s|n|l|o];
    try (rewrite scalar_hdr by reflexivity; reflexivity).
  - pose proof (read_hdr_arr [] l [] (wf_size_count_arr l H)) as R. cbn [app] in R. rewrite app_nil_r in R.
    change (lenN (@nil N)) with 0 in R. change (enc (VArr l)) with (payload (VArr l)). rewrite R. reflexivity.
  - pose proof (read_hdr_obj [] o [] (wf_size_count_obj o H)) as R. cbn [app] in R. rewrite app_nil_r in R.
    change (lenN (@nil N)) with 0 in R. change (enc (VObj o)) with (payload (VObj o)). rewrite R. reflexivity.
Qed.
Lemma doc_hdr_type x : wf_size x = true -> hdr_type (doc_hdr x) = doc_type x.
Proof.
  intros H. destruct x as [|b|s|n|l|o]; try reflexivity.
  - destruct (arr_hdr_facts l (wf_size_count_arr l H)) as (_ & E & _). exact E.
  - destruct (obj_hdr_facts o (wf_size_count_obj o H)) as (_ & E & _). exact E.
Qed.
Lemma doc_hdr_len_arr l : wf_size (VArr l) = true -> hdr_len (arr_hdr l) = lenN l.
Proof. intros H. destruct (arr_hdr_facts l (wf_size_count_arr l H)) as (_ & _ & E). exact E. Qed.

(* a scalar document pushed as one element: (decode_jentry(read_u32(v, 4)?), &v[8..]) *)
Lemma scalar_item_enc x : is_container x = false -> wf_size x = true -> scalar_item (enc x) = Ok (item_of x).
Proof.
  intros Hc H. unfold scalar_item, rd. rewrite (scalar_enc x Hc).
  pose proof (read_u32_mid (be32 SCALAR_CONTAINER_TAG) (word x) (payload x) (word_bound x H)) as R.
  change (lenN (be32 SCALAR_CONTAINER_TAG)) with 4 in R. rewrite R. cbn [of_option bind].
  pose proof (slice_from_app (be32 SCALAR_CONTAINER_TAG ++ be32 (word x)) (payload x)) as S.
  rewrite <- app_assoc in S. change (lenN (be32 SCALAR_CONTAINER_TAG ++ be32 (word x))) with 8 in S. rewrite S.
  cbn [or_panic bind]. rewrite (decode_je_word x H). reflexivity.
Qed.
(* a container document pushed as one element: (make_container_jentry(v.len()), v) *)
Lemma container_item_enc x : is_container x = true -> container_item (enc x) = item_of x.
Proof. destruct x; intros H; try discriminate H; reflexivity. Qed.

(* ---------------------------------------------------------------- iterators on complete container documents *)
Lemma arr_items_enc l : wf_size (VArr l) = true -> arr_items (enc (VArr l)) (arr_hdr l) = Ok (map item_of l).
Proof.
  intros H. pose proof (arr_items_arr l [] (wf_size_arr l H) (wf_size_count_arr l H)) as E.
  rewrite app_nil_r in E. exact E.
Qed.
Lemma obj_ok_of_size o : wf_size (VObj o) = true -> obj_ok o.
Proof.
  intros H. destruct (wf_size_obj o H) as [Hv Hk]. unfold obj_ok. apply Forall_forall. intros kv Hin.
  rewrite Forall_forall in Hv, Hk. split; [apply Hv; exact Hin|apply Hk; exact Hin].
Qed.
Lemma obj_items_enc o : wf_size (VObj o) = true -> obj_items (enc (VObj o)) (obj_hdr o) = Ok (map mitem_of o).
Proof.
  intros H. pose proof (obj_items_obj o [] (obj_ok_of_size o H) (wf_size_count_obj o H)) as E.
  rewrite app_nil_r in E. exact E.
Qed.

(* ---------------------------------------------------------------- builders filled with raw pieces *)
Lemma build_items l buf : wf_size (VArr l) = true ->
  build_arr_into buf (map raw_entry (map item_of l)) = buf ++ enc (VArr l).
Proof. intros H. rewrite map_raw_entry. apply build_arr_raw. exact H. Qed.

(* pushing the members of o, in order, into a builder that holds acc *)
Lemma push_members_raw (o : list (list N * value)) : forall acc,
  push_members (raw_members acc) (map mitem_of o)
  = raw_members (fold_left (fun a kv => assoc_insert (fst kv) (snd kv) a) o acc).
Proof.
  unfold push_members. induction o as [|[k x] o IH]; intros acc; cbn [map fold_left]; [reflexivity|].
  change (fst (mitem_of (k, x))) with k. change (snd (mitem_of (k, x))) with (item_of x). cbn [fst snd].
  rewrite raw_entry_item, raw_members_insert. apply IH.
Qed.

(* inserting strictly increasing keys, all above the ones present, appends them *)
Lemma fold_insert_sorted {V} (o : list (list N * V)) : forall acc,
  strongly_sorted o ->
  Forall (fun a => Forall (fun kv => bytes_cmp (fst a) (fst kv) = Lt) o) acc ->
  fold_left (fun a kv => assoc_insert (fst kv) (snd kv) a) o acc = acc ++ o.
Proof.
  induction o as [|[k v] o IH]; intros acc HS HA; cbn [fold_left fst snd].
  - rewrite app_nil_r. reflexivity.
  - destruct HS as [HS1 HS2]. rewrite assoc_insert_append.
    + rewrite IH; [rewrite <- app_assoc; reflexivity|exact HS2|].
      apply Forall_app. split.
      * eapply Forall_impl; [|exact HA]. intros a Ha. inversion Ha; subst. assumption.
      * constructor; [exact HS1|constructor].
    + eapply Forall_impl; [|exact HA]. intros a Ha. inversion Ha as [|? ? Hak _]; subst. cbn [fst] in Hak.
      rewrite bytes_antisym, Hak. reflexivity.
Qed.
Lemma assoc_of_sorted {V} (o : list (list N * V)) : keys_sorted o = true -> assoc_of_list o = o.
Proof.
  intros H. unfold assoc_of_list. rewrite fold_insert_sorted; [reflexivity|apply keys_sorted_strong; exact H|constructor].
Qed.

Lemma wfb_sorted o : wfb (VObj o) = true -> keys_sorted o = true.
Proof.
  unfold wfb. intros H. apply andb_true_iff in H. destruct H as [H _]. apply wf_obj_iff in H. destruct H as [H _]. exact H.
Qed.

(* ---------------------------------------------------------------- concat *)
Lemma single_item_enc x : wf_size x = true -> (forall l, x <> VArr l) ->
  single_item (enc x) (doc_type x) = Ok (item_of x).
Proof.
  intros H Hna. unfold single_item. destruct x as [|b|s|n|l|o];
    try (change (doc_type _ =? OBJECT_CONTAINER_TAG) with false; cbv iota; apply scalar_item_enc; [reflexivity|exact H]).
  - exfalso. apply (Hna l). reflexivity.
  - change (doc_type (VObj o) =? OBJECT_CONTAINER_TAG) with true. cbv iota. rewrite container_item_enc by reflexivity. reflexivity.
Qed.

Lemma tag_oo : (OBJECT_CONTAINER_TAG =? OBJECT_CONTAINER_TAG) = true. Proof. reflexivity. Qed.
Lemma tag_oa : (OBJECT_CONTAINER_TAG =? ARRAY_CONTAINER_TAG) = false. Proof. reflexivity. Qed.
Lemma tag_ao : (ARRAY_CONTAINER_TAG =? OBJECT_CONTAINER_TAG) = false. Proof. reflexivity. Qed.
Lemma tag_aa : (ARRAY_CONTAINER_TAG =? ARRAY_CONTAINER_TAG) = true. Proof. reflexivity. Qed.
Lemma tag_so : (SCALAR_CONTAINER_TAG =? OBJECT_CONTAINER_TAG) = false. Proof. reflexivity. Qed.
Lemma tag_sa : (SCALAR_CONTAINER_TAG =? ARRAY_CONTAINER_TAG) = false. Proof. reflexivity. Qed.
Lemma tag_ss : (SCALAR_CONTAINER_TAG =? SCALAR_CONTAINER_TAG) = true. Proof. reflexivity. Qed.
Lemma tag_os : (OBJECT_CONTAINER_TAG =? SCALAR_CONTAINER_TAG) = false. Proof. reflexivity. Qed.
Lemma tag_as : (ARRAY_CONTAINER_TAG =? SCALAR_CONTAINER_TAG) = false. Proof. reflexivity. Qed.
Ltac tags := rewrite ?tag_oo, ?tag_oa, ?tag_ao, ?tag_aa, ?tag_so, ?tag_sa, ?tag_ss, ?tag_os, ?tag_as; cbn [andb orb negb].

(* the scalar shapes of concat_t *)
Lemma concat_t_sa a r : is_container a = false -> concat_t a (VArr r) = VArr (a :: r).
Proof. destruct a; intros H; try discriminate H; reflexivity. Qed.
Lemma concat_t_as l b : is_container b = false -> concat_t (VArr l) b = VArr (l ++ [b]).
Proof. destruct b; intros H; try discriminate H; reflexivity. Qed.
Lemma concat_t_ss a b : is_container a = false -> is_container b = false -> concat_t a b = VArr [a; b].
Proof. destruct a; intros Ha; try discriminate Ha; destruct b; intros Hb; try discriminate Hb; reflexivity. Qed.
Lemma concat_t_so a o : is_container a = false -> concat_t a (VObj o) = VArr [a; VObj o].
Proof. destruct a; intros H; try discriminate H; reflexivity. Qed.
Lemma concat_t_os o b : is_container b = false -> concat_t (VObj o) b = VArr [VObj o; b].
Proof. destruct b; intros H; try discriminate H; reflexivity. Qed.

Theorem concat_b_enc a b buf : wfb a = true -> wfb b = true -> wf_size (concat_t a b) = true ->
  concat_b (enc a) (enc b) buf = Ok (buf ++ enc (concat_t a b)).
Proof.
  intros Wa Wb Hr. pose proof (wfb_size a Wa) as Ha. pose proof (wfb_size b Wb) as Hb.
  rewrite ?concat_b_eq. rewrite (rd_enc a Ha), (rd_enc b Hb). cbn [bind].
  rewrite (doc_hdr_type a Ha), (doc_hdr_type b Hb).
  assert (Ca : (exists l, a = VArr l) \/ (exists o, a = VObj o) \/ is_container a = false)
    by (destruct a; eauto).
  assert (Cb : (exists l, b = VArr l) \/ (exists o, b = VObj o) \/ is_container b = false)
    by (destruct b; eauto).
  destruct Ca as [[l ->]|[[l ->]|Sa]]; destruct Cb as [[r ->]|[[r ->]|Sb]].
  - (* array, array *)
    cbn [doc_type doc_hdr]. tags. rewrite (arr_items_enc l Ha), (arr_items_enc r Hb). cbn [bind].
    rewrite <- map_app. rewrite build_items by exact Hr. reflexivity.
  - (* array, object *)
    cbn [doc_type doc_hdr]. tags. rewrite (arr_items_enc l Ha). cbn [bind].
    pose proof (single_item_enc (VObj r) Hb) as S. cbn [doc_type] in S. rewrite S by discriminate. cbn [bind].
    change [item_of (VObj r)] with (map item_of [VObj r]). rewrite <- map_app. rewrite build_items by exact Hr. reflexivity.
  - (* array, scalar *)
    cbn [doc_type doc_hdr]. rewrite (concat_t_as l b Sb) in *.
    assert (Tb : doc_type b = SCALAR_CONTAINER_TAG) by (destruct b; try discriminate Sb; reflexivity).
    pose proof (single_item_enc b Hb) as S. rewrite Tb in *. tags.
    rewrite (arr_items_enc l Ha). cbn [bind]. rewrite S by (intros ? ->; discriminate Sb). cbn [bind].
    change [item_of b] with (map item_of [b]). rewrite <- map_app. rewrite build_items by exact Hr. reflexivity.
  - (* object, array *)
    cbn [doc_type doc_hdr]. tags.
    pose proof (single_item_enc (VObj l) Ha) as S. cbn [doc_type] in S. rewrite S by discriminate. cbn [bind].
    rewrite (arr_items_enc r Hb). cbn [bind].
    change (item_of (VObj l) :: map item_of r) with (map item_of (VObj l :: r)). rewrite build_items by exact Hr. reflexivity.
  - (* object, object *)
    cbn [doc_type doc_hdr]. tags. rewrite (obj_items_enc l Ha), (obj_items_enc r Hb). cbn [bind].
    change (@nil (list N * entry)) with (raw_members []). rewrite !push_members_raw.
    fold (@assoc_of_list value l). rewrite (assoc_of_sorted l (wfb_sorted l Wa)).
    cbn [concat_t] in Hr. rewrite (build_obj_raw _ buf Hr). reflexivity.
  - (* object, scalar *)
    cbn [doc_type doc_hdr]. rewrite (concat_t_os l b Sb) in *.
    assert (Tb : doc_type b = SCALAR_CONTAINER_TAG) by (destruct b; try discriminate Sb; reflexivity).
    pose proof (single_item_enc b Hb) as S. rewrite Tb in *. tags.
    pose proof (single_item_enc (VObj l) Ha) as S'. cbn [doc_type] in S'. rewrite S' by discriminate. cbn [bind].
    rewrite S by (intros ? ->; discriminate Sb). cbn [bind].
    change [item_of (VObj l); item_of b] with (map item_of [VObj l; b]). rewrite build_items by exact Hr. reflexivity.
  - (* scalar, array *)
    cbn [doc_type doc_hdr]. rewrite (concat_t_sa a r Sa) in *.
    assert (Ta : doc_type a = SCALAR_CONTAINER_TAG) by (destruct a; try discriminate Sa; reflexivity).
    pose proof (single_item_enc a Ha) as S. rewrite Ta in *. tags.
    rewrite S by (intros ? ->; discriminate Sa). cbn [bind]. rewrite (arr_items_enc r Hb). cbn [bind].
    change (item_of a :: map item_of r) with (map item_of (a :: r)). rewrite build_items by exact Hr. reflexivity.
  - (* scalar, object *)
    cbn [doc_type doc_hdr]. rewrite (concat_t_so a r Sa) in *.
    assert (Ta : doc_type a = SCALAR_CONTAINER_TAG) by (destruct a; try discriminate Sa; reflexivity).
    pose proof (single_item_enc a Ha) as S. rewrite Ta in *. tags.
    pose proof (single_item_enc (VObj r) Hb) as S'. cbn [doc_type] in S'.
    rewrite S by (intros ? ->; discriminate Sa). cbn [bind]. rewrite S' by discriminate. cbn [bind].
    change [item_of a; item_of (VObj r)] with (map item_of [a; VObj r]). rewrite build_items by exact Hr. reflexivity.
  - (* scalar, scalar *)
    rewrite (concat_t_ss a b Sa Sb) in *.
    assert (Ta : doc_type a = SCALAR_CONTAINER_TAG) by (destruct a; try discriminate Sa; reflexivity).
    assert (Tb : doc_type b = SCALAR_CONTAINER_TAG) by (destruct b; try discriminate Sb; reflexivity).
    pose proof (single_item_enc a Ha) as S. pose proof (single_item_enc b Hb) as S'. rewrite Ta, Tb in *. tags.
    rewrite S by (intros ? ->; discriminate Sa). cbn [bind]. rewrite S' by (intros ? ->; discriminate Sb). cbn [bind].
    change [item_of a; item_of b] with (map item_of [a; b]). rewrite build_items by exact Hr. reflexivity.
Qed.

Theorem concat_w_enc a b buf : wfb a = true -> top_ok a -> wfb b = true -> top_ok b -> wf_size (concat_t a b) = true ->
  concat_w (enc a) (enc b) buf = Ok (buf ++ enc (concat_t a b)).
Proof.
  intros Wa Ta Wb Tb Hr. rewrite ?concat_w_eq. rewrite (is_jsonb_enc a Wa Ta), (is_jsonb_enc b Wb Tb). cbn [negb orb].
  apply concat_b_enc; assumption.
Qed.

(* ---------------------------------------------------------------- size bounds survive deletions *)
Lemma len_payload_arr l : lenN (payload (VArr l)) = 4 + 4 * lenN l + sum_len l.
Proof. rewrite payload_arr, !lenN_app, lenN_be32, len_flat_words, lenN_map, len_flat_payload. lia. Qed.
Lemma len_payload_obj o : lenN (payload (VObj o)) = 4 + 8 * lenN o + sum_keys o + sum_len (vals o).
Proof.
  rewrite payload_obj, !lenN_app, lenN_be32, len_flat_words, lenN_app, len_kws, len_vws, len_keys_bytes, len_flat_payload. lia.
Qed.

Lemma wf_size_arr_intro l : lenN l < 536870912 -> lenN (payload (VArr l)) < 268435456 ->
  Forall (fun v => wf_size v = true) l -> wf_size (VArr l) = true.
Proof.
  intros H1 H2 H3. cbn [wf_size]. fold (payload (VArr l)).
  apply andb_true_iff. split; [apply andb_true_iff; split; apply N.ltb_lt; assumption|].
  apply forallb_forall. rewrite Forall_forall in H3. exact H3.
Qed.
Lemma wf_size_arr_payload l : wf_size (VArr l) = true -> lenN (payload (VArr l)) < 268435456.
Proof. apply (payload_small (VArr l)). Qed.

Lemma wf_size_arr_sub l l' : wf_size (VArr l) = true ->
  lenN l' <= lenN l -> sum_len l' <= sum_len l -> (forall x, In x l' -> In x l) -> wf_size (VArr l') = true.
Proof.
  intros H Hn Hs Hin. pose proof (wf_size_count_arr l H) as C. pose proof (wf_size_arr_payload l H) as P.
  pose proof (wf_size_arr l H) as F. rewrite len_payload_arr in P.
  apply wf_size_arr_intro; [lia|rewrite len_payload_arr; lia|].
  apply Forall_forall. intros x Hx. rewrite Forall_forall in F. apply F. apply Hin. exact Hx.
Qed.

Lemma lenN_filter_le {A} (f : A -> bool) (l : list A) : lenN (filter f l) <= lenN l.
Proof.
  induction l as [|x r IH]; cbn [filter]; [lia|]. destruct (f x); rewrite ?lenN_cons; lia.
Qed.
Lemma sum_len_filter_le f (l : list value) : sum_len (filter f l) <= sum_len l.
Proof.
  induction l as [|x r IH]; cbn [filter]; [lia|]. destruct (f x); cbn [sum_len fold_right]; fold (sum_len r); fold (sum_len (filter f r)); lia.
Qed.
Lemma wf_size_filter_arr f l : wf_size (VArr l) = true -> wf_size (VArr (filter f l)) = true.
Proof.
  intros H. apply (wf_size_arr_sub l _ H); [apply lenN_filter_le|apply sum_len_filter_le|].
  intros x Hx. apply filter_In in Hx. tauto.
Qed.

Lemma lenN_remove_nth_le {A} (l : list A) : forall n, lenN (remove_nth l n) <= lenN l.
Proof.
  induction l as [|x r IH]; intros n; cbn [remove_nth]; [lia|]. destruct n as [|n]; rewrite ?lenN_cons; [lia|]. specialize (IH n). lia.
Qed.
Lemma sum_len_remove_nth_le (l : list value) : forall n, sum_len (remove_nth l n) <= sum_len l.
Proof.
  induction l as [|x r IH]; intros n; cbn [remove_nth]; [lia|]. destruct n as [|n]; cbn [sum_len fold_right]; fold (sum_len r).
  - lia.
  - fold (sum_len (remove_nth r n)). specialize (IH n). lia.
Qed.
Lemma In_remove_nth {A} (l : list A) : forall n x, In x (remove_nth l n) -> In x l.
Proof.
  induction l as [|y r IH]; intros n x; cbn [remove_nth]; [tauto|]. destruct n as [|n]; cbn [In]; [tauto|].
  intros [E|H]; [left; exact E|right; apply (IH n); exact H].
Qed.
Lemma wf_size_remove_nth l n : wf_size (VArr l) = true -> wf_size (VArr (remove_nth l n)) = true.
Proof.
  intros H. apply (wf_size_arr_sub l _ H); [apply lenN_remove_nth_le|apply sum_len_remove_nth_le|apply In_remove_nth].
Qed.

Lemma wf_size_obj_intro o : lenN o < 536870912 -> lenN (payload (VObj o)) < 268435456 ->
  Forall (fun kv => wf_size (snd kv) = true) o -> Forall (fun kv => lenN (fst kv) < 268435456) o -> wf_size (VObj o) = true.
Proof.
  intros H1 H2 H3 H4. cbn [wf_size]. fold (payload (VObj o)).
  apply andb_true_iff. split; [apply andb_true_iff; split; apply N.ltb_lt; assumption|].
  apply forallb_forall. rewrite Forall_forall in H3, H4. intros kv Hin. apply andb_true_iff. split.
  - apply N.ltb_lt. apply H4. exact Hin.
  - apply H3. exact Hin.
Qed.
Lemma sum_keys_filter_le f (o : list (list N * value)) : sum_keys (filter f o) <= sum_keys o.
Proof.
  induction o as [|x r IH]; cbn [filter]; [lia|]. destruct (f x); cbn [sum_keys fold_right]; fold (sum_keys r); fold (sum_keys (filter f r)); lia.
Qed.
Lemma sum_vals_filter_le f (o : list (list N * value)) : sum_len (vals (filter f o)) <= sum_len (vals o).
Proof.
  induction o as [|x r IH]; cbn [filter]; [lia|]. unfold vals in *. destruct (f x); cbn [map sum_len fold_right];
    fold (sum_len (map snd r)); fold (sum_len (map snd (filter f r))); lia.
Qed.
Lemma wf_size_filter_obj f o : wf_size (VObj o) = true -> wf_size (VObj (filter f o)) = true.
Proof.
  intros H. pose proof (wf_size_count_obj o H) as C. pose proof (payload_small (VObj o) H) as P.
  destruct (wf_size_obj o H) as [F1 F2]. rewrite len_payload_obj in P.
  pose proof (lenN_filter_le f o). pose proof (sum_keys_filter_le f o). pose proof (sum_vals_filter_le f o).
  apply wf_size_obj_intro; [lia|rewrite len_payload_obj; lia| |];
    apply Forall_forall; intros kv Hin; apply filter_In in Hin; destruct Hin as [Hin _];
    [rewrite Forall_forall in F1; apply F1|rewrite Forall_forall in F2; apply F2]; exact Hin.
Qed.

(* ---------------------------------------------------------------- delete_by_name *)
Lemma bytes_eqb_sym a b : bytes_eqb a b = bytes_eqb b a.
Proof. rewrite !bytes_eqb_cmp, (bytes_antisym a b). destruct (bytes_cmp b a); reflexivity. Qed.

Lemma name_matches_item name x : name_matches name (item_of x) = str_is name x.
Proof. destruct x as [|[]|s|n|l|o]; reflexivity. Qed.

Theorem delete_by_name_b_enc v name buf : wfb v = true ->
  delete_by_name_b (enc v) name buf = res_map (fun x => buf ++ enc x) (delete_by_name_t v name).
Proof.
  intros W. pose proof (wfb_size v W) as H. rewrite ?delete_by_name_b_eq. rewrite (rd_enc v H). cbn [bind].
  rewrite (doc_hdr_type v H). destruct v as [|b|s|n|l|o]; try reflexivity.
  - cbn [doc_type doc_hdr delete_by_name_t res_map]. tags. rewrite (arr_items_enc l H). cbn [bind].
    rewrite filter_map_comm.
    rewrite (filter_ext (fun x => negb (name_matches name (item_of x))) (fun x => negb (str_is name x)))
      by (intros x; rewrite name_matches_item; reflexivity).
    rewrite build_items by (apply wf_size_filter_arr; exact H). reflexivity.
  - cbn [doc_type doc_hdr delete_by_name_t res_map]. tags. rewrite (obj_items_enc o H). cbn [bind].
    rewrite filter_map_comm.
    rewrite (filter_ext (fun x => negb (bytes_eqb (fst (mitem_of x)) name)) (fun kv => negb (bytes_eqb name (fst kv))))
      by (intros x; rewrite bytes_eqb_sym; reflexivity).
    fold (assoc_remove name o).
    change (@nil (list N * entry)) with (raw_members []). rewrite push_members_raw.
    fold (@assoc_of_list value (assoc_remove name o)).
    rewrite assoc_of_sorted by (apply sorted_iff; apply strong_filter; apply sorted_iff; apply (wfb_sorted o W)).
    rewrite build_obj_raw by (apply wf_size_filter_obj; exact H). reflexivity.
Qed.

Theorem delete_by_name_w_enc v name buf : wfb v = true -> top_ok v ->
  delete_by_name_w (enc v) name buf = res_map (fun x => buf ++ enc x) (delete_by_name_t v name).
Proof. intros W T. rewrite ?delete_by_name_w_eq. rewrite (is_jsonb_enc v W T). apply delete_by_name_b_enc. exact W. Qed.

(* ---------------------------------------------------------------- delete_by_index *)
Lemma lenZ_lenN {A} (l : list A) : Z.of_N (lenN l) = lenZ l.
Proof. unfold lenN, lenZ. apply nat_N_Z. Qed.

Theorem delete_by_index_b_enc v i buf : wfb v = true ->
  delete_by_index_b (enc v) i buf = res_map (fun x => buf ++ enc x) (delete_by_index_t v i).
Proof.
  intros W. pose proof (wfb_size v W) as H. rewrite ?delete_by_index_b_eq. rewrite (rd_enc v H). cbn [bind].
  rewrite (doc_hdr_type v H). destruct v as [|b|s|n|l|o]; try reflexivity.
  cbn [doc_type doc_hdr delete_by_index_t]. tags. rewrite (doc_hdr_len_arr l H), lenZ_lenN.
  (* the byte branch resolves and tests the position by the same function as the text branch (I32.v, on the generated formulas) *)
  rewrite <- DBI_RESOLVE_text_eq_bytes, DBI_KEEP_text_eq_bytes.
  set (j := DBI_T_RESOLVE i (lenZ l)).
  destruct (DBI_B_SKIP j (lenZ l)) eqn:E; cbn [negb]; [reflexivity|].
  rewrite (arr_items_enc l H). cbn [bind res_map].
  rewrite remove_at_nth, remove_nth_map, Z_N_nat.
  rewrite build_items by (apply wf_size_remove_nth; exact H). reflexivity.
Qed.

Theorem delete_by_index_w_enc v i buf : wfb v = true -> top_ok v ->
  delete_by_index_w (enc v) i buf = res_map (fun x => buf ++ enc x) (delete_by_index_t v i).
Proof. intros W T. rewrite ?delete_by_index_w_eq. rewrite (is_jsonb_enc v W T). apply delete_by_index_b_enc. exact W. Qed.

(* ---------------------------------------------------------------- array_insert *)
(* the new value as one element: ARRAY | OBJECT => container item, _ => scalar item *)
Lemma new_item_enc x : wf_size x = true ->
  (if (doc_type x =? ARRAY_CONTAINER_TAG) || (doc_type x =? OBJECT_CONTAINER_TAG) then Ok (container_item (enc x))
   else scalar_item (enc x)) = Ok (item_of x).
Proof.
  intros H. destruct x as [|b|s|n|l|o]; cbn [doc_type]; tags;
    try (apply scalar_item_enc; [reflexivity|exact H]);
    rewrite container_item_enc by reflexivity; reflexivity.
Qed.

(* the items array_insert_jsonb collects from the base document, and the length it computes *)
Definition base_items (v : value) : list value := match v with VArr l => l | other => [other] end.

Theorem array_insert_b_enc v pos x buf : wfb v = true -> wfb x = true -> wf_size (array_insert_t v pos x) = true ->
  array_insert_b (enc v) pos (enc x) buf = Ok (buf ++ enc (array_insert_t v pos x)).
Proof.
  intros W Wx Hr. pose proof (wfb_size v W) as H. pose proof (wfb_size x Wx) as Hx.
  rewrite ?array_insert_b_eq. rewrite (rd_enc v H). cbn [bind]. rewrite (doc_hdr_type v H).
  set (len := if doc_type v =? ARRAY_CONTAINER_TAG then Z.of_N (hdr_len (doc_hdr v)) else AI_NONARRAY_LEN).
  assert (Elen : len = lenZ (base_items v)).
  { unfold len. destruct v as [|b|s|n|l|o]; cbn [doc_type base_items]; tags; try reflexivity.
    cbn [doc_hdr]. rewrite (doc_hdr_len_arr l H). apply lenZ_lenN. }
  assert (Eitems : (if doc_type v =? ARRAY_CONTAINER_TAG then arr_items (enc v) (doc_hdr v)
                    else if doc_type v =? OBJECT_CONTAINER_TAG then Ok [container_item (enc v)]
                    else do it <- scalar_item (enc v); Ok [it]) = Ok (map item_of (base_items v))).
  { destruct v as [|b|s|n|l|o]; cbn [doc_type base_items doc_hdr]; tags;
      try (rewrite scalar_item_enc by (try reflexivity; exact H); reflexivity).
    - apply (arr_items_enc l H).
    - rewrite container_item_enc by reflexivity. reflexivity. }
  rewrite Eitems. cbn [bind]. rewrite Elen.
  rewrite split_at_firstn_skipn. rewrite (rd_enc x Hx). cbn [bind]. rewrite (doc_hdr_type x Hx), (new_item_enc x Hx). cbn [bind].
  rewrite Z_N_nat. rewrite firstn_map, skipn_map.
  change (item_of x :: map item_of (skipn (Z.to_nat (AI_CLAMP (AI_RESOLVE pos (lenZ (base_items v))) (lenZ (base_items v)))) (base_items v)))
    with (map item_of (x :: skipn (Z.to_nat (AI_CLAMP (AI_RESOLVE pos (lenZ (base_items v))) (lenZ (base_items v)))) (base_items v))).
  rewrite <- map_app.
  assert (Et : array_insert_t v pos x = VArr (firstn (Z.to_nat (AI_CLAMP (AI_RESOLVE pos (lenZ (base_items v))) (lenZ (base_items v)))) (base_items v)
                 ++ x :: skipn (Z.to_nat (AI_CLAMP (AI_RESOLVE pos (lenZ (base_items v))) (lenZ (base_items v)))) (base_items v)))
    by (unfold array_insert_t, base_items; reflexivity).
  rewrite Et in *. rewrite build_items by exact Hr. reflexivity.
Qed.

Theorem array_insert_w_enc v pos x buf : wfb v = true -> top_ok v -> wfb x = true -> top_ok x ->
  wf_size (array_insert_t v pos x) = true ->
  array_insert_w (enc v) pos (enc x) buf = Ok (buf ++ enc (array_insert_t v pos x)).
Proof.
  intros W T Wx Tx Hr. rewrite ?array_insert_w_eq. rewrite (is_jsonb_enc v W T), (is_jsonb_enc x Wx Tx).
  apply array_insert_b_enc; assumption.
Qed.

(* ---------------------------------------------------------------- build_array / build_object *)
(* what the per-item match computes for a complete document: the four entry bytes and the bytes appended to `data` *)
Lemma item_pieces_enc x : wf_size x = true -> item_pieces (enc x) = Ok (be32 (word x), payload x).
Proof.
  intros H. unfold item_pieces. rewrite (rd_enc x H). cbn [bind]. rewrite (doc_hdr_type x H).
  assert (C : is_container x = true \/ is_container x = false) by (destruct (is_container x); auto).
  destruct C as [C|C].
  - destruct x as [|b|s|n|l|o]; try discriminate C; cbn [doc_type]; tags; reflexivity.
  - assert (T : doc_type x = SCALAR_CONTAINER_TAG) by (destruct x; try discriminate C; reflexivity).
    rewrite T. tags. rewrite (scalar_enc x C).
    pose proof (slice_mid (be32 SCALAR_CONTAINER_TAG) (be32 (word x)) (payload x)) as S1.
    change (lenN (be32 SCALAR_CONTAINER_TAG)) with 4 in S1. change (lenN (be32 (word x))) with 4 in S1. rewrite S1.
    cbn [or_panic bind].
    pose proof (slice_from_app (be32 SCALAR_CONTAINER_TAG ++ be32 (word x)) (payload x)) as S2.
    rewrite <- app_assoc in S2. change (lenN (be32 SCALAR_CONTAINER_TAG ++ be32 (word x))) with 8 in S2. rewrite S2.
    reflexivity.
Qed.

Lemma ba_loop_enc vs : Forall (fun v => wf_size v = true) vs -> forall buf data len,
  ba_loop (map enc vs) buf data len
  = (buf ++ flat_map be32 (map word vs), Ok (data ++ flat_map payload vs, len + lenN vs)).
Proof.
  induction vs as [|x r IH]; intros Hall buf data len; cbn [map ba_loop flat_map].
  - rewrite !app_nil_r. change (lenN (@nil value)) with 0. rewrite N.add_0_r. reflexivity.
  - inversion Hall as [|? ? Hx Hr]; subst. rewrite (item_pieces_enc x Hx). rewrite (IH Hr).
    rewrite <- !app_assoc, lenN_cons. f_equal. f_equal. f_equal. lia.
Qed.

Theorem build_array_st_enc vs buf : Forall (fun v => wf_size v = true) vs ->
  build_array_st (map enc vs) buf = (buf ++ enc (build_array_t vs), Ok tt).
Proof.
  intros Hall. unfold build_array_st. rewrite (ba_loop_enc vs Hall). rewrite <- app_assoc.
  rewrite patch_app by reflexivity. rewrite N.add_0_l. cbn [app build_array_t].
  change (enc (build_array_t vs)) with (payload (VArr vs)). rewrite payload_arr. unfold arr_hdr.
  rewrite <- !app_assoc. reflexivity.
Qed.
Theorem build_array_w_enc vs buf : Forall (fun v => wf_size v = true) vs ->
  build_array_w (map enc vs) buf = Ok (buf ++ enc (build_array_t vs)).
Proof. intros Hall. unfold build_array_w. rewrite (build_array_st_enc vs buf Hall). reflexivity. Qed.

(* the ordered map of the members: encoding the values commutes with building the map *)
Definition enc_member (kv : list N * value) : list N * list N := (fst kv, enc (snd kv)).
Lemma combine_enc ks : forall vs, combine ks (map enc vs) = map enc_member (combine ks vs).
Proof.
  induction ks as [|k ks IH]; intros vs; [reflexivity|]. destruct vs as [|x vs]; [reflexivity|].
  cbn [map combine]. rewrite IH. reflexivity.
Qed.
Lemma assoc_insert_enc k x (l : list (list N * value)) :
  assoc_insert k (enc x) (map enc_member l) = map enc_member (assoc_insert k x l).
Proof.
  induction l as [|[k' x'] r IH]; cbn [map assoc_insert enc_member fst snd]; [reflexivity|].
  destruct (bytes_cmp k k'); cbn [map enc_member fst snd]; try reflexivity.
  fold (enc_member (k', x')). f_equal. exact IH.
Qed.
Lemma fold_insert_enc (l : list (list N * value)) : forall acc,
  fold_left (fun a kv => assoc_insert (fst kv) (snd kv) a) (map enc_member l) (map enc_member acc)
  = map enc_member (fold_left (fun a kv => assoc_insert (fst kv) (snd kv) a) l acc).
Proof.
  induction l as [|[k x] r IH]; intros acc; cbn [map fold_left]; [reflexivity|].
  cbn [enc_member fst snd]. rewrite assoc_insert_enc. apply IH.
Qed.
Lemma assoc_of_list_enc (l : list (list N * value)) : assoc_of_list (map enc_member l) = map enc_member (assoc_of_list l).
Proof. unfold assoc_of_list. apply (fold_insert_enc l []). Qed.

Lemma Forall_assoc_insert {V} (Q : list N * V -> Prop) k v l : Q (k, v) -> Forall Q l -> Forall Q (assoc_insert k v l).
Proof.
  intros Hq. induction l as [|[k' v'] r IH]; intros Hl; cbn [assoc_insert]; [constructor; [exact Hq|constructor]|].
  inversion Hl as [|? ? H1 H2]; subst.
  destruct (bytes_cmp k k'); [constructor; assumption|constructor; assumption|constructor; [exact H1|apply IH; exact H2]].
Qed.
Lemma Forall_fold_insert {V} (Q : list N * V -> Prop) (l : list (list N * V)) : forall acc,
  Forall Q l -> Forall Q acc -> Forall Q (fold_left (fun a kv => assoc_insert (fst kv) (snd kv) a) l acc).
Proof.
  induction l as [|[k v] r IH]; intros acc Hl Ha; cbn [fold_left fst snd]; [exact Ha|].
  inversion Hl as [|? ? H1 H2]; subst. apply IH; [exact H2|apply Forall_assoc_insert; assumption].
Qed.
Lemma Forall_combine_snd {A B} (P : B -> Prop) (ks : list A) : forall vs, Forall P vs -> Forall (fun kv => P (snd kv)) (combine ks vs).
Proof.
  induction ks as [|k ks IH]; intros vs H; [constructor|]. destruct vs as [|x vs]; [constructor|].
  inversion H as [|? ? H1 H2]; subst. cbn [combine]. constructor; [exact H1|apply IH; exact H2].
Qed.

Lemma bo_loop_enc o : Forall (fun kv => wf_size (snd kv) = true) o -> forall buf kd vd vj len,
  bo_loop (map enc_member o) buf kd vd vj len
  = (buf ++ flat_map be32 (kws o),
     Ok (kd ++ keys_bytes o, vd ++ flat_map payload (vals o), vj ++ flat_map be32 (vws o), len + lenN o)).
Proof.
  induction o as [|[k x] r IH]; intros Hall buf kd vd vj len; cbn [map bo_loop kws vws vals keys_bytes flat_map].
  - rewrite !app_nil_r. change (lenN (@nil (list N * value))) with 0. rewrite N.add_0_r. reflexivity.
  - inversion Hall as [|? ? Hx Hr]; subst. cbn [snd] in Hx. cbn [enc_member fst snd].
    rewrite (item_pieces_enc x Hx). fold (kws r) (vws r) (vals r) (keys_bytes r). rewrite (IH Hr).
    rewrite <- !app_assoc, lenN_cons. unfold key_word. f_equal. f_equal. f_equal. lia.
Qed.

Theorem build_object_st_enc ks vs buf : Forall (fun v => wf_size v = true) vs ->
  build_object_st ks (map enc vs) buf = (buf ++ enc (build_object_t (combine ks vs)), Ok tt).
Proof.
  intros Hall. unfold build_object_st, build_object_kv_st. rewrite combine_enc, assoc_of_list_enc.
  set (o := assoc_of_list (combine ks vs)).
  assert (Ho : Forall (fun kv => wf_size (snd kv) = true) o).
  { unfold o, assoc_of_list. apply Forall_fold_insert; [|constructor]. apply (Forall_combine_snd (fun v => wf_size v = true) ks vs Hall). }
  rewrite (bo_loop_enc o Ho). rewrite <- app_assoc. rewrite patch_app by reflexivity. rewrite N.add_0_l. cbn [app].
  change (enc (build_object_t (combine ks vs))) with (payload (VObj o)). rewrite payload_obj. unfold obj_hdr.
  rewrite flat_map_app, <- !app_assoc. reflexivity.
Qed.
Theorem build_object_w_enc ks vs buf : Forall (fun v => wf_size v = true) vs ->
  build_object_w ks (map enc vs) buf = Ok (buf ++ enc (build_object_t (combine ks vs))).
Proof. intros Hall. unfold build_object_w. rewrite (build_object_st_enc ks vs buf Hall). reflexivity. Qed.

(* ---------------------------------------------------------------- C17: only appended to *)
Lemma res_map_app_frame {A} (f : A -> list N) (buf : list N) (r : res A) :
  res_map (fun x => buf ++ f x) r = res_map (app buf) (res_map (fun x => [] ++ f x) r).
Proof. destruct r; reflexivity. Qed.

Theorem editors_append_bytes buf :
  (forall a b, wfb a = true -> top_ok a -> wfb b = true -> top_ok b -> wf_size (concat_t a b) = true ->
     concat_w (enc a) (enc b) buf = res_map (app buf) (concat_w (enc a) (enc b) [])) /\
  (forall v name, wfb v = true -> top_ok v ->
     delete_by_name_w (enc v) name buf = res_map (app buf) (delete_by_name_w (enc v) name [])) /\
  (forall v i, wfb v = true -> top_ok v ->
     delete_by_index_w (enc v) i buf = res_map (app buf) (delete_by_index_w (enc v) i [])) /\
  (forall v pos x, wfb v = true -> top_ok v -> wfb x = true -> top_ok x -> wf_size (array_insert_t v pos x) = true ->
     array_insert_w (enc v) pos (enc x) buf = res_map (app buf) (array_insert_w (enc v) pos (enc x) [])) /\
  (forall vs, Forall (fun v => wf_size v = true) vs ->
     build_array_w (map enc vs) buf = res_map (app buf) (build_array_w (map enc vs) [])) /\
  (forall ks vs, Forall (fun v => wf_size v = true) vs ->
     build_object_w ks (map enc vs) buf = res_map (app buf) (build_object_w ks (map enc vs) [])).
Proof.
  repeat split.
  - intros a b Wa Ta Wb Tb Hr. rewrite !concat_w_enc by assumption. reflexivity.
  - intros v name W T. rewrite !delete_by_name_w_enc by assumption. apply res_map_app_frame.
  - intros v i W T. rewrite !delete_by_index_w_enc by assumption. apply res_map_app_frame.
  - intros v pos x W T Wx Tx Hr. rewrite !array_insert_w_enc by assumption. reflexivity.
  - intros vs H. rewrite !build_array_w_enc by assumption. reflexivity.
  - intros ks vs H. rewrite !build_object_w_enc by assumption. reflexivity.
Qed.
