(* PathImage.v — the shapes of AST the JSONPath parser can produce (C09). `shape_path` is PathSafe.safe_path with every
   condition on names, literals and numbers removed; `parse_image` shows that every accepted input gives a path of
   that shape, so the class of the round-trip theorem (PathRoundtrip.v) leaves out no tree shape the parser produces:
   what it leaves out is stated by leaf conditions only (there is no depth bound: printer and class are structural). *)
From Coq Require Import List NArith ZArith Bool Lia.
Import ListNotations.
From JB Require Import Constants Bytes Utf8 Num Value Decimal JsonText TreeOps Path PathInd PathParse PathSafe PathRoundtrip.
Open Scope N_scope.
Set Default Timeout 120.

Definition shape_inner (p : path) : bool :=
  match p with
  | PDotWild | PBracketWild | PDotField _ | PColonField _ | PObjectField _ => true
  | PIndices l => negb (is_nil l)
  | _ => false
  end.
Definition shape_operand (rp : bool) (e : expr) : bool :=
  match e with
  | EPaths (PRoot :: l) => forallb shape_inner l
  | EPaths (PCurrent :: l) => negb rp && forallb shape_inner l
  | EValue _ => true
  | _ => false
  end.
Inductive shape_step : path -> Prop :=
| ss_inner p : shape_inner p = true -> shape_step p
| ss_filter e : shape_expr false e -> shape_step (PFilter e)
with shape_expr : bool -> expr -> Prop :=
| se_logic rp op l r : is_cmp op = false -> shape_expr rp l -> shape_expr rp r -> shape_expr rp (EBin op l r)
| se_cmp rp op l r : is_cmp op = true -> shape_operand rp l = true -> shape_operand rp r = true -> shape_expr rp (EBin op l r)
| se_arith rp op l r : shape_operand rp l = true -> shape_operand rp r = true -> shape_expr rp (EArithB op l r)
| se_unary rp op x : shape_operand rp x = true -> shape_expr rp (EArithU op x)
| se_exists rp hd l : hd = PRoot \/ hd = PCurrent -> Forall shape_step l -> shape_expr rp (EExists (hd :: l)).
Definition shape_path (ps : list path) : Prop :=
  match ps with
  | [PPredicate e] => shape_expr true e
  | PRoot :: l => Forall shape_step l
  | l => Forall shape_step l
  end.

(* ---------------------------------------------------------------- "every successful result satisfies Q" *)
Definition pall {A} (Q : A -> Prop) (p : pres A) : Prop := match p with POk _ a => Q a | _ => True end.
Lemma pall_triv {A} (Q : A -> Prop) p : (forall a, Q a) -> pall Q p.
Proof. intros H. destruct p; cbn; auto. Qed.
Lemma pall_mono {A} (P Q : A -> Prop) p : (forall a, P a -> Q a) -> pall P p -> pall Q p.
Proof. intros H. destruct p; cbn; auto. Qed.
Lemma pall_bind {A B} (P : A -> Prop) (Q : B -> Prop) p f : pall P p -> (forall r a, P a -> pall Q (f r a)) -> pall Q (pbind p f).
Proof. intros H1 H2. destruct p; cbn in *; auto. Qed.
Lemma pall_bind0 {A B} (Q : B -> Prop) (p : pres A) f : (forall r a, pall Q (f r a)) -> pall Q (pbind p f).
Proof. intros H. destruct p; cbn in *; auto. Qed.
Lemma pall_alt {A} (Q : A -> Prop) p q : pall Q p -> pall Q (q tt) -> pall Q (palt p q).
Proof. intros H1 H2. destruct p; cbn in *; auto. Qed.
Lemma pall_map {A B} (Q : B -> Prop) (g : A -> B) p : pall (fun a => Q (g a)) p -> pall Q (pmap g p).
Proof. intros H. destruct p; cbn in *; auto. Qed.
Lemma pall_ok {A} (Q : A -> Prop) r a : Q a -> pall Q (POk r a).
Proof. auto. Qed.

Section Comb.
  Context {A : Type} (f : list N -> pres A) (Q : A -> Prop) (Hf : forall bs, pall Q (f bs)).
  Lemma many0_all fuel : forall bs acc, Forall Q acc -> pall (Forall Q) (many0 f fuel bs acc).
  Proof.
    induction fuel as [|k IH]; intros bs acc Ha; cbn [many0]; [exact I|].
    pose proof (Hf bs) as H. destruct (f bs) as [r a| | |]; cbn [pall] in *; auto.
    - destruct (_ =? _)%nat; [exact I|]. apply IH. constructor; assumption.
    - apply Forall_rev. exact Ha.
  Qed.
  Variable sep : list N -> pres unit.
  Lemma sep_loop_all fuel : forall bs acc, Forall Q acc -> acc <> [] ->
    pall (fun l => Forall Q l /\ l <> []) (sep_loop f sep fuel bs acc).
  Proof.
    assert (R : forall acc, Forall Q acc -> acc <> [] -> Forall Q (rev acc) /\ rev acc <> []).
    { intros acc Ha Hn. split; [apply Forall_rev; exact Ha|]. intros E. apply Hn. rewrite <- (rev_involutive acc), E. reflexivity. }
    induction fuel as [|k IH]; intros bs acc Ha Hn; cbn [sep_loop]; [exact I|].
    destruct (sep bs) as [r1 u| | |]; cbn [pall]; auto.
    destruct (_ =? _)%nat; [exact I|].
    pose proof (Hf r1) as H. destruct (f r1) as [r2 a| | |]; cbn [pall] in *; auto.
    apply IH; [constructor; assumption|discriminate].
  Qed.
  Lemma separated_list1_all bs : pall (fun l => Forall Q l /\ l <> []) (separated_list1 f sep bs).
  Proof.
    unfold separated_list1. apply (pall_bind Q); [apply Hf|]. intros r a Ha. apply sep_loop_all; [constructor; [exact Ha|constructor]|discriminate].
  Qed.
  Lemma ws_around_all bs : pall Q (ws_around f bs).
  Proof. unfold ws_around. apply (pall_bind Q); [apply Hf|]. intros r a Ha. exact Ha. Qed.
End Comb.

Lemma Forall_forallb {A} (g : A -> bool) l : Forall (fun a => g a = true) l -> forallb g l = true.
Proof. intros H. apply forallb_forall. rewrite Forall_forall in H. exact H. Qed.

(* ---------------------------------------------------------------- steps and operands *)
Lemma array_indices_all bs : pall (fun l => l <> []) (array_indices bs).
Proof.
  unfold array_indices. apply pall_bind0. intros r1 _.
  apply (pall_bind (fun l => Forall (fun _ : array_index => True) l /\ l <> [])).
  - apply separated_list1_all. intros. apply pall_triv. auto.
  - intros r2 l [_ Hl]. apply pall_bind0. intros r3 _. exact Hl.
Qed.
Lemma inner_path_all bs : pall (fun p => shape_inner p = true) (inner_path bs).
Proof.
  unfold inner_path. repeat apply pall_alt; apply pall_map; try (apply pall_triv; reflexivity).
  apply (pall_mono (fun l => l <> [])); [|apply array_indices_all]. intros l Hl. destruct l; [contradiction Hl; reflexivity|reflexivity].
Qed.
Lemma expr_paths_all rp bs : pall (fun l => shape_operand rp (EPaths l) = true) (expr_paths rp bs).
Proof.
  unfold expr_paths. apply (pall_bind (fun pre => pre = PRoot \/ (pre = PCurrent /\ rp = false))).
  - apply pall_alt; [apply pall_map, pall_triv; tauto|]. destruct rp; [exact I|]. apply pall_map, pall_triv; tauto.
  - intros r1 pre Hpre. apply (pall_bind (Forall (fun p => shape_inner p = true))).
    + apply many0_all; [|constructor]. intros. apply ws_around_all. apply inner_path_all.
    + intros r2 ps Hps. apply Forall_forallb in Hps. cbn [pall shape_operand].
      destruct Hpre as [-> | [-> ->]]; [exact Hps|rewrite Hps; reflexivity].
Qed.
Lemma inner_expr_all rp bs : pall (fun e => shape_operand rp e = true) (inner_expr rp bs).
Proof.
  unfold inner_expr. apply pall_alt; apply pall_map; [apply expr_paths_all|apply pall_triv; reflexivity].
Qed.

(* ---------------------------------------------------------------- expressions *)
Lemma fold_bin_shape rp op l : is_cmp op = false -> Forall (shape_expr rp) l -> l <> [] -> shape_expr rp (fold_bin op l).
Proof.
  intros Hop HF Hne. destruct l as [|x r]; [contradiction Hne; reflexivity|]. cbn [fold_bin].
  inversion HF as [|? ? Hx Hr]; subst. clear HF Hne. revert x Hx. induction Hr as [|y r Hy _ IH]; intros x Hx; cbn [fold_left]; [exact Hx|].
  apply IH. apply se_logic; assumption.
Qed.

Section Exprs.
  Variable rp : bool.
  Variable path_rec : list N -> pres path.
  Variable expr_or_rec : list N -> pres expr.
  Hypothesis Hpath : forall bs, pall shape_step (path_rec bs).
  Hypothesis Hor : forall bs, pall (shape_expr rp) (expr_or_rec bs).

  Lemma pexists_all bs : pall (shape_expr rp) (pexists path_rec bs).
  Proof.
    unfold pexists, exists_paths. do 2 (apply pall_bind0; intros ? _).
    apply (pall_bind (fun ps => exists hd l, ps = hd :: l /\ (hd = PRoot \/ hd = PCurrent) /\ Forall shape_step l)).
    - apply (pall_bind (fun pre => pre = PRoot \/ pre = PCurrent)).
      + apply pall_alt; apply pall_map, pall_triv; tauto.
      + intros r1 pre Hpre. apply (pall_bind (Forall shape_step)); [apply many0_all; [exact Hpath|constructor]|].
        intros r2 ps Hps. cbn [pall]. exists pre, ps. auto.
    - intros r3 ps (hd & l & -> & Hhd & Hl). apply pall_bind0. intros r4 _. cbn [pall]. apply se_exists; assumption.
  Qed.

  Lemma expr_atom_all bs : pall (shape_expr rp) (expr_atom rp path_rec expr_or_rec bs).
  Proof.
    unfold expr_atom. repeat apply pall_alt.
    - apply (pall_bind (fun e => shape_operand rp e = true)); [apply ws_around_all, inner_expr_all|]. intros r1 l Hl.
      apply pall_bind0. intros r2 o.
      apply (pall_bind (fun e => shape_operand rp e = true)); [apply ws_around_all, inner_expr_all|]. intros r3 r Hr.
      cbn [pall]. apply se_arith; assumption.
    - apply (pall_bind (fun e => shape_operand rp e = true)); [apply ws_around_all, inner_expr_all|]. intros r1 l Hl.
      apply (pall_bind (fun o => is_cmp o = true)).
      + unfold pop. repeat apply pall_alt; apply pall_map, pall_triv; reflexivity.
      + intros r2 o Ho.
        apply (pall_bind (fun e => shape_operand rp e = true)); [apply ws_around_all, inner_expr_all|]. intros r3 r Hr.
        cbn [pall]. apply se_cmp; assumption.
    - apply pall_bind0. intros r1 o.
      apply (pall_bind (fun e => shape_operand rp e = true)); [apply ws_around_all, inner_expr_all|]. intros r2 x Hx.
      cbn [pall]. apply se_unary; assumption.
    - apply pall_bind0. intros r1 _. apply (pall_bind (shape_expr rp)); [apply Hor|]. intros r2 e He.
      apply pall_bind0. intros r3 _. exact He.
    - apply pexists_all.
  Qed.
  Lemma expr_and_all bs : pall (shape_expr rp) (expr_and rp path_rec expr_or_rec bs).
  Proof.
    unfold expr_and. apply pall_map.
    apply (pall_mono (fun l => Forall (shape_expr rp) l /\ l <> [])); [|apply separated_list1_all; exact expr_atom_all].
    intros l [H1 H2]. apply fold_bin_shape; [reflexivity|assumption|assumption].
  Qed.
  Lemma expr_or_all bs : pall (shape_expr rp) (expr_or rp path_rec expr_or_rec bs).
  Proof.
    unfold expr_or. apply pall_map.
    apply (pall_mono (fun l => Forall (shape_expr rp) l /\ l <> [])); [|apply separated_list1_all; exact expr_and_all].
    intros l [H1 H2]. apply fold_bin_shape; [reflexivity|assumption|assumption].
  Qed.
End Exprs.

Lemma fuel_all fuel :
  (forall rp bs, pall (shape_expr rp) (expr_or_fuel fuel rp bs)) /\ (forall bs, pall shape_step (path_fuel fuel bs)).
Proof.
  induction fuel as [|f [IHe IHp]]; split; intros; cbn [expr_or_fuel path_fuel]; try exact I.
  - apply expr_or_all; [exact IHp|apply IHe].
  - apply pall_alt.
    + apply ws_around_all. intros b. apply (pall_mono (fun p => shape_inner p = true)); [apply ss_inner|apply inner_path_all].
    + apply ws_around_all. intros b. do 2 (apply pall_bind0; intros ? _).
      apply (pall_bind (shape_expr false)); [apply IHe|]. intros r3 e He. apply pall_bind0. intros r4 _. cbn [pall]. apply ss_filter. exact He.
Qed.

Lemma steps_shape_path ps : Forall shape_step ps -> shape_path ps.
Proof.
  intros H. destruct ps as [|p l]; [exact H|]. inversion H as [|? ? Hp Hl]; subst.
  destruct p; try exact H; [exact Hl|]. inversion Hp as [? Hi|]; subst. discriminate Hi.
Qed.

Lemma json_path_all fuel bs : pall shape_path (json_path_fuel fuel bs).
Proof.
  unfold json_path_fuel. cbv zeta. apply (pall_bind shape_path); [|intros r ps Hps; exact Hps].
  apply pall_alt.
  - apply pall_map. apply ws_around_all. intros b. apply (proj1 (fuel_all fuel)).
  - assert (Hpre : pall (fun p => p = PRoot \/ exists s, p = PDotField s) (pre_path (multispace0 bs))).
    { unfold pre_path. apply pall_alt; apply pall_map, pall_triv; [tauto|intros s; right; exists s; reflexivity]. }
    assert (Hm : forall r1, pall (Forall shape_step) (many0 (path_fuel fuel) (S (length r1)) r1 []))
      by (intros r1; apply many0_all; [apply (proj2 (fuel_all fuel))|constructor]).
    destruct (pre_path (multispace0 bs)) as [r p| | |]; cbn [pall] in Hpre; try exact I.
    + apply (pall_bind (Forall shape_step)); [apply Hm|]. intros r2 ps Hps. cbn [pall].
      destruct Hpre as [-> | (s & ->)]; [exact Hps|]. apply steps_shape_path. constructor; [apply ss_inner; reflexivity|exact Hps].
    + apply (pall_bind (Forall shape_step)); [apply Hm|]. intros r2 ps Hps. cbn [pall]. apply steps_shape_path. exact Hps.
Qed.

(* every accepted input gives a path of the parser's shape *)
Theorem parse_image bs ps : parse_json_path bs = Ok ps -> shape_path ps.
Proof.
  unfold parse_json_path. pose proof (json_path_all (S (length bs)) bs) as H.
  destruct (json_path_fuel (S (length bs)) bs) as [r l| | |]; try discriminate.
  destruct r; [|discriminate]. intros E. inversion E. subst. exact H.
Qed.

(* and the class of the round-trip theorem consists of such shapes *)
Section SafeShape.
  Variable okf : N -> bool.
  Lemma safe_inner_shape p : safe_inner p = true -> shape_inner p = true.
  Proof. destruct p; try discriminate; try reflexivity. cbn [safe_inner shape_inner]. intros H. apply andb_true_iff in H. apply H. Qed.
  Lemma safe_inners_shape l : forallb safe_inner l = true -> forallb shape_inner l = true.
  Proof.
    induction l as [|p l IH]; [reflexivity|]. cbn [forallb]. intros H. apply andb_true_iff in H. destruct H as [H1 H2].
    rewrite (safe_inner_shape p H1), (IH H2). reflexivity.
  Qed.
  Lemma safe_operand_shape rp e : safe_operand okf rp e = true -> shape_operand rp e = true.
  Proof.
    destruct e as [l|v| | | |]; try discriminate; [|reflexivity]. destruct l as [|p l]; [discriminate|].
    destruct p; try discriminate; cbn [safe_operand shape_operand]; intros H.
    - apply safe_inners_shape. exact H.
    - apply andb_true_iff in H. destruct H as [H1 H2]. rewrite H1, (safe_inners_shape l H2). reflexivity.
  Qed.
  Lemma safe_shape :
    (forall e rp, safe_expr okf rp e = true -> shape_expr rp e) /\ (forall p, safe_step okf p = true -> shape_step p).
  Proof.
    apply (expr_path_ind (fun e => forall rp, safe_expr okf rp e = true -> shape_expr rp e)
                         (fun p => safe_step okf p = true -> shape_step p));
      try (intros; apply ss_inner, safe_inner_shape; assumption);
      try (intros; match goal with H : safe_step okf _ = true |- _ => discriminate H end).
    - intros l _ rp H. discriminate H.
    - intros v rp H. discriminate H.
    - intros op l r IHl IHr rp H. rewrite safe_expr_S in H. destruct (is_cmp op) eqn:Ec.
      + apply andb_true_iff in H. destruct H as [Hl Hr].
        apply se_cmp; [exact Ec|apply safe_operand_shape; exact Hl|apply safe_operand_shape; exact Hr].
      + apply andb_true_iff in H. destruct H as [Hl Hr]. apply se_logic; [exact Ec|apply IHl; exact Hl|apply IHr; exact Hr].
    - intros op x _ rp H. rewrite safe_expr_S in H. apply andb_true_iff in H. destruct H as [_ Hx]. apply se_unary. apply safe_operand_shape. exact Hx.
    - intros op l r _ _ rp H. rewrite safe_expr_S in H. apply andb_true_iff in H. destruct H as [Hl Hr].
      apply se_arith; apply safe_operand_shape; assumption.
    - intros l IH rp H. rewrite safe_expr_S in H. destruct l as [|hd l]; [discriminate H|].
      assert (G : (hd = PRoot \/ hd = PCurrent) /\ forallb (safe_step okf) l = true).
      { destruct hd; try discriminate H; (split; [tauto|exact H]). }
      destruct G as [G1 G2]. apply se_exists; [exact G1|]. apply Forall_forall. intros p Hp.
      inversion IH as [|? ? _ IHl]; subst. rewrite Forall_forall in IHl. apply IHl; [exact Hp|].
      rewrite forallb_forall in G2. apply G2. exact Hp.
    - intros e IH H. rewrite safe_step_S in H. apply ss_filter. apply IH. exact H.
  Qed.
  Lemma safe_steps_shape l : forallb (safe_step okf) l = true -> Forall shape_step l.
  Proof. intros H. apply Forall_forall. intros p Hp. apply (proj2 safe_shape). rewrite forallb_forall in H. apply H. exact Hp. Qed.
  Theorem safe_path_shape ps : safe_path okf ps = true -> shape_path ps.
  Proof.
    intros H. destruct ps as [|p l]; [constructor|].
    assert (U : p <> PRoot -> (forall e, p <> PPredicate e) -> shape_path (p :: l)).
    { intros N1 N2. rewrite (safe_path_unrooted okf p l N1 N2) in H. apply andb_true_iff in H. destruct H as [H _].
      apply steps_shape_path. apply safe_steps_shape. exact H. }
    destruct p; try (apply U; discriminate).
    - rewrite safe_path_root in H. apply safe_steps_shape. exact H.
    - destruct l as [|q l'].
      + rewrite safe_path_pred in H. apply (proj1 safe_shape). exact H.
      + rewrite safe_path_pred_more in H. discriminate H.
  Qed.
End SafeShape.

(* ---------------------------------------------------------------- shape + leaf conditions = the class of the theorem *)
Section LeafSafe.
  Variable okf : N -> bool.
  Lemma leaf_expr_S e :
    leaf_expr okf e =
    match e with
    | EBin op l r => if is_cmp op then leaf_operand okf l && leaf_operand okf r
                     else leaf_expr okf l && leaf_expr okf r
    | EArithB _ l r => leaf_operand okf l && leaf_operand okf r
    | EArithU _ x => is_paths x && leaf_operand okf x
    | EExists l => forallb (leaf_step okf) l
    | _ => true
    end.
  Proof. destruct e; reflexivity. Qed.
  Lemma leaf_step_S p : leaf_step okf p = match p with PFilter e => leaf_expr okf e | _ => leaf_inner p end.
  Proof. reflexivity. Qed.

  Lemma leaf_inner_safe p : shape_inner p = true -> leaf_inner p = true -> safe_inner p = true.
  Proof.
    destruct p; try discriminate; cbn [shape_inner leaf_inner safe_inner]; intros H1 H2; try assumption; try reflexivity.
    rewrite H1, H2. reflexivity.
  Qed.
  Lemma leaf_inners_safe l : forallb shape_inner l = true -> forallb leaf_inner l = true -> forallb safe_inner l = true.
  Proof.
    induction l as [|p l IH]; [reflexivity|]. cbn [forallb]. intros H1 H2.
    apply andb_true_iff in H1. destruct H1 as [A1 A2]. apply andb_true_iff in H2. destruct H2 as [B1 B2].
    rewrite (leaf_inner_safe p A1 B1), (IH A2 B2). reflexivity.
  Qed.
  Lemma leaf_operand_safe rp e : shape_operand rp e = true -> leaf_operand okf e = true -> safe_operand okf rp e = true.
  Proof.
    destruct e as [l|v| | | |]; try discriminate; [|intros _ H; exact H].
    destruct l as [|p l]; [discriminate|]. destruct p; try discriminate; cbn [shape_operand leaf_operand safe_operand forallb leaf_inner andb]; intros H1 H2.
    - apply leaf_inners_safe; assumption.
    - apply andb_true_iff in H1. destruct H1 as [A1 A2]. rewrite A1, (leaf_inners_safe l A2 H2). reflexivity.
  Qed.

  Lemma leaf_shape_safe_all :
    (forall e rp, shape_expr rp e -> leaf_expr okf e = true -> safe_expr okf rp e = true) /\
    (forall p, shape_step p -> leaf_step okf p = true -> safe_step okf p = true).
  Proof.
    apply (expr_path_ind (fun e => forall rp, shape_expr rp e -> leaf_expr okf e = true -> safe_expr okf rp e = true)
                         (fun p => shape_step p -> leaf_step okf p = true -> safe_step okf p = true));
      try (intros; match goal with Hs : shape_step _ |- _ => inversion Hs as [? Hi|]; subst; try discriminate Hi end;
           rewrite safe_step_S; apply leaf_inner_safe; assumption).
    - intros l _ rp Hs. inversion Hs.
    - intros v rp Hs. inversion Hs.
    - intros op l r IHl IHr rp Hs Hl. rewrite leaf_expr_S in Hl. rewrite safe_expr_S.
      inversion Hs as [? ? ? ? Hop H1 H2|? ? ? ? Hop H1 H2| | |]; subst; rewrite Hop in *.
      + apply andb_true_iff in Hl. destruct Hl as [L1 L2]. rewrite (IHl rp H1 L1), (IHr rp H2 L2). reflexivity.
      + apply andb_true_iff in Hl. destruct Hl as [L1 L2].
        rewrite (leaf_operand_safe rp l H1 L1), (leaf_operand_safe rp r H2 L2). reflexivity.
    - intros op x _ rp Hs Hl. rewrite leaf_expr_S in Hl. rewrite safe_expr_S. inversion Hs as [| | |? ? ? H1|]; subst.
      apply andb_true_iff in Hl. destruct Hl as [L1 L2]. rewrite L1, (leaf_operand_safe rp x H1 L2). reflexivity.
    - intros op l r _ _ rp Hs Hl. rewrite leaf_expr_S in Hl. rewrite safe_expr_S. inversion Hs as [| |? ? ? ? H1 H2| |]; subst.
      apply andb_true_iff in Hl. destruct Hl as [L1 L2].
      rewrite (leaf_operand_safe rp l H1 L1), (leaf_operand_safe rp r H2 L2). reflexivity.
    - intros l IH rp Hs Hl. rewrite leaf_expr_S in Hl. rewrite safe_expr_S. inversion Hs as [| | | |? hd l' Hhd HF]; subst.
      cbn [forallb] in Hl. apply andb_true_iff in Hl. destruct Hl as [_ L1].
      inversion IH as [|? ? _ IHl]; subst.
      assert (G : forallb (safe_step okf) l' = true).
      { apply forallb_forall. intros p Hp. rewrite Forall_forall in HF, IHl. rewrite forallb_forall in L1.
        apply IHl; [exact Hp|apply HF; exact Hp|apply L1; exact Hp]. }
      destruct Hhd as [-> | ->]; exact G.
    - intros e IH Hs Hl. rewrite leaf_step_S in Hl. rewrite safe_step_S. inversion Hs as [? Hi|? He]; subst; [discriminate Hi|].
      apply IH; assumption.
  Qed.

  Lemma leaf_path_unrooted p l : p <> PRoot -> (forall e, p <> PPredicate e) ->
    leaf_path okf (p :: l) = forallb (leaf_step okf) (p :: l) && first_ok (p :: l).
  Proof. intros H1 H2. destruct p; try reflexivity; [contradiction H1; reflexivity|]. destruct (H2 e eq_refl). Qed.
  Lemma leaf_path_root l : leaf_path okf (PRoot :: l) = forallb (leaf_step okf) l.
  Proof. reflexivity. Qed.
  Lemma leaf_path_pred e : leaf_path okf [PPredicate e] = leaf_expr okf e.
  Proof. reflexivity. Qed.

  Lemma leaf_steps_safe l : Forall shape_step l -> forallb (leaf_step okf) l = true -> forallb (safe_step okf) l = true.
  Proof.
    intros HF HL. apply forallb_forall. intros p Hp. rewrite Forall_forall in HF. rewrite forallb_forall in HL.
    apply (proj2 leaf_shape_safe_all); [apply HF|apply HL]; exact Hp.
  Qed.

  Theorem leaf_shape_safe ps : shape_path ps -> leaf_path okf ps = true -> safe_path okf ps = true.
  Proof.
    intros Hs Hl. destruct ps as [|p l]; [reflexivity|].
    assert (U : p <> PRoot -> (forall e, p <> PPredicate e) -> safe_path okf (p :: l) = true).
    { intros N1 N2. rewrite (safe_path_unrooted okf p l N1 N2). rewrite (leaf_path_unrooted p l N1 N2) in Hl.
      apply andb_true_iff in Hl. destruct Hl as [L1 L2]. rewrite L2, andb_true_r.
      apply leaf_steps_safe; [|exact L1]. destruct p; try exact Hs; [contradiction N1; reflexivity|destruct (N2 e eq_refl)]. }
    destruct p; try (apply U; discriminate).
    - rewrite safe_path_root. rewrite leaf_path_root in Hl. apply leaf_steps_safe; assumption.
    - destruct l as [|q l'].
      + rewrite safe_path_pred. rewrite leaf_path_pred in Hl. apply (proj1 leaf_shape_safe_all); assumption.
      + exfalso. change (Forall shape_step (PPredicate e :: q :: l')) in Hs. inversion Hs as [|? ? Hp _]; subst.
        inversion Hp as [? Hi|]; subst. discriminate Hi.
  Qed.
End LeafSafe.

(* C09 in the words of the property: an ACCEPTED path whose names and literals need no quoting or escaping prints to a
   text that parses back to the same structure *)
Theorem accepted_path_roundtrip pf okf : (forall b, okf b = true -> path_float_reads_back pf b) ->
  forall bs ps, parse_json_path bs = Ok ps -> leaf_path okf ps = true -> parse_json_path (show_json_path pf ps) = Ok ps.
Proof.
  intros Hfl bs ps Hp Hl. apply (path_roundtrip_floats pf okf Hfl). apply leaf_shape_safe; [exact (parse_image bs ps Hp)|exact Hl].
Qed.

(* the same with float literals, as far as the printing of floats is modelled: the three non-finite doubles, printed inf,
   -inf, NaN as the crate prints them (Render.float_placeholder).  Since the fix e1187a7 of the crate (`-inf` is read) negative
   infinity is among them: before it, an accepted literal overflowing downwards (`-1e999`) printed as a text that was rejected. *)
Theorem accepted_path_roundtrip_nonfinite bs ps : parse_json_path bs = Ok ps -> leaf_path nonfinite_floats ps = true ->
  parse_json_path (show_json_path Render.float_placeholder ps) = Ok ps.
Proof. apply (accepted_path_roundtrip Render.float_placeholder nonfinite_floats). exact path_float_reads_back_nonfinite. Qed.

(* $.a > -1e999 is accepted as a comparison with negative infinity, printed as $.a > -inf, and that is read back *)
Example neg_inf_literal_roundtrip :
  let text := [36; 46; 97; 32; 62; 32; 45; 49; 101; 57; 57; 57] in
  let ps := [PPredicate (EBin OGt (EPaths [PRoot; PDotField [97]]) (EValue (PVNum (NFloat F_NEG_INF))))] in
  parse_json_path text = Ok ps /\ leaf_path nonfinite_floats ps = true /\
  show_json_path Render.float_placeholder ps = [36; 46; 97; 32; 62; 32; 45; 105; 110; 102] /\
  parse_json_path (show_json_path Render.float_placeholder ps) = Ok ps.
Proof.
  intros text ps. assert (P : parse_json_path text = Ok ps) by (vm_compute; reflexivity).
  assert (L : leaf_path nonfinite_floats ps = true) by (vm_compute; reflexivity).
  split; [exact P|]. split; [exact L|]. split; [vm_compute; reflexivity|]. exact (accepted_path_roundtrip_nonfinite text ps P L).
Qed.
