(* EditStProofs.v — the editors as state functions over the caller's buffer (BufSt.v; EditWalk.v, EditWalk2.v,
   SetWalk.v) and their views.
   1. `view` of a state function computed step by step: the `_b` / `_w` functions (views) satisfy the equations that
      used to be their definitions (a chain of `do` over the same reads, ending in `Ok (build_into buf ..)`); the
      refinement proofs (EditWalkProofs.v, EditWalk2Proofs.v, SetWalkProofs.v, ...) start from these equations.
   2. `quiet m`: whenever m does not return Ok, the buffer is as it was on entry.  Proved for every editor on ANY input
      bytes by walking over its body: every step before the last is `spure`, the last is the write.  (Not true of
      build_array / build_object, which write as they go: EditFrame.v says what they leave.)
   3. `framed m`: the buffer as left is the buffer on entry followed by what the call leaves when started on the empty
      buffer, and the outcome does not depend on the buffer -- on any input, in all three outcomes. *)
From Coq Require Import List NArith ZArith Bool Lia.
Import ListNotations.
From JB Require Import Constants Bytes Utf8 Num Value Codec TreeOps JsonText Dispatch Walk Iter Builder BuilderProofs
  BuilderFrame BufSt EditWalk EditWalk2.
From JB Require SetWalk.
Open Scope N_scope.
Set Default Timeout 120.

Arguments N.lor : simpl never.
Arguments N.land : simpl never.
Arguments N.eqb : simpl never.
Arguments be32 : simpl never.
Arguments u32 : simpl never.
Arguments read_u32 : simpl never.

(* ================================================================ view, step by step *)
Lemma view_bind_pure {A} (r : res A) (k : A -> stm unit) buf :
  view (sbind (spure r) k buf) = bind r (fun x => view (k x buf)).
Proof. destruct r; reflexivity. Qed.
Lemma view_write f buf : view (swrite f buf) = Ok (f buf).
Proof. reflexivity. Qed.
Lemma view_pure_err e buf : view (spure (Err e) buf) = Err e.
Proof. reflexivity. Qed.
Lemma view_write_value v buf : view (write_value v buf) = Ok (buf ++ enc v).
Proof. reflexivity. Qed.

Ltac stv_step :=
  match goal with
  | |- view (sbind (spure (of_option ?e ?o)) _ _) = _ =>
      rewrite view_bind_pure; destruct o; cbn [of_option bind]; try reflexivity
  | |- view (sbind (spure ?r) _ _) = _ => rewrite view_bind_pure; destruct r; cbn [bind]; try reflexivity
  | |- view ((if ?c then _ else _) _) = _ => destruct c; try reflexivity
  | |- view (match ?x with _ => _ end _) = _ => destruct x; try reflexivity
  | |- view (swrite _ _) = _ => reflexivity
  | |- view (write_value _ _) = _ => reflexivity
  | |- view (spure _ _) = _ => reflexivity
  end.
Ltac stv := repeat stv_step.

(* ---------------------------------------------------------------- EditWalk.v *)
Lemma concat_b_eq l r buf : concat_b l r buf =
  (do lh <- rd l 0;
  do rh <- rd r 0;
  let lt := hdr_type lh in
  let rt := hdr_type rh in
  if (lt =? OBJECT_CONTAINER_TAG) && (rt =? OBJECT_CONTAINER_TAG) then
    do li <- obj_items l lh;
    do ri <- obj_items r rh;
    Ok (build_obj_into buf (push_members (push_members [] li) ri))
  else if (lt =? ARRAY_CONTAINER_TAG) && (rt =? ARRAY_CONTAINER_TAG) then
    do li <- arr_items l lh;
    do ri <- arr_items r rh;
    Ok (build_arr_into buf (map raw_entry (li ++ ri)))
  else if rt =? ARRAY_CONTAINER_TAG then
    do le <- single_item l lt;
    do ri <- arr_items r rh;
    Ok (build_arr_into buf (map raw_entry (le :: ri)))
  else if lt =? ARRAY_CONTAINER_TAG then
    do li <- arr_items l lh;
    do re <- single_item r rt;
    Ok (build_arr_into buf (map raw_entry (li ++ [re])))
  else
    do le <- single_item l lt;
    do re <- single_item r rt;
    Ok (build_arr_into buf (map raw_entry [le; re]))).
Proof. unfold concat_b, concat_b_st. cbv zeta. stv. Qed.

Lemma concat_w_eq l r buf : concat_w l r buf =
  if negb (is_jsonb l) || negb (is_jsonb r) then concat_m l r buf else concat_b l r buf.
Proof.
  unfold concat_w, concat_st, concat_m. destruct (negb (is_jsonb l) || negb (is_jsonb r)); [|reflexivity].
  unfold append_enc. stv.
Qed.

Lemma delete_by_name_b_eq bs name buf : delete_by_name_b bs name buf =
  (do hdr <- rd bs 0;
  let ty := hdr_type hdr in
  if ty =? OBJECT_CONTAINER_TAG then
    do items <- obj_items bs hdr;
    Ok (build_obj_into buf (push_members [] (filter (fun it => negb (bytes_eqb (fst it) name)) items)))
  else if ty =? ARRAY_CONTAINER_TAG then
    do items <- arr_items bs hdr;
    Ok (build_arr_into buf (map raw_entry (filter (fun it => negb (name_matches name it)) items)))
  else Err EInvalidJsonType).
Proof. unfold delete_by_name_b, delete_by_name_b_st. cbv zeta. stv. Qed.

Lemma delete_by_name_w_eq bs name buf : delete_by_name_w bs name buf =
  if is_jsonb bs then delete_by_name_b bs name buf else delete_by_name_m bs name buf.
Proof.
  unfold delete_by_name_w, delete_by_name_st, delete_by_name_m, doc_of. destruct (is_jsonb bs); [reflexivity|].
  unfold append_enc. stv.
Qed.

Lemma delete_by_index_b_eq bs i buf : delete_by_index_b bs i buf =
  (do hdr <- rd bs 0;
  if hdr_type hdr =? ARRAY_CONTAINER_TAG then
    let len := Z.of_N (hdr_len hdr) in
    let index := DBI_B_RESOLVE i len in
    if DBI_B_SKIP index len then Ok (buf ++ bs)
    else
      do items <- arr_items bs hdr;
      Ok (build_arr_into buf (map raw_entry (remove_at items (Z.to_N index))))
  else Err EInvalidJsonType).
Proof. unfold delete_by_index_b, delete_by_index_b_st. cbv zeta. stv. Qed.

Lemma delete_by_index_w_eq bs i buf : delete_by_index_w bs i buf =
  if is_jsonb bs then delete_by_index_b bs i buf else delete_by_index_m bs i buf.
Proof.
  unfold delete_by_index_w, delete_by_index_st, delete_by_index_m, doc_of. destruct (is_jsonb bs); [reflexivity|].
  unfold append_enc. stv.
Qed.

Lemma array_insert_b_eq bs pos nv buf : array_insert_b bs pos nv buf =
  (do hdr <- rd bs 0;
  let ty := hdr_type hdr in
  let len := if ty =? ARRAY_CONTAINER_TAG then Z.of_N (hdr_len hdr) else AI_NONARRAY_LEN in
  let idx := AI_CLAMP (AI_RESOLVE pos len) len in
  do items <- (if ty =? ARRAY_CONTAINER_TAG then arr_items bs hdr
               else if ty =? OBJECT_CONTAINER_TAG then Ok [container_item bs]
               else do it <- scalar_item bs; Ok [it]);
  let '(before, after) := split_at items (Z.to_N idx) in
  do nh <- rd nv 0;
  let nt := hdr_type nh in
  do ni <- (if (nt =? ARRAY_CONTAINER_TAG) || (nt =? OBJECT_CONTAINER_TAG) then Ok (container_item nv)
            else scalar_item nv);
  Ok (build_arr_into buf (map raw_entry (before ++ ni :: after)))).
Proof. unfold array_insert_b, array_insert_b_st. cbv zeta. stv. Qed.

Lemma array_insert_w_eq bs pos nv buf : array_insert_w bs pos nv buf =
  if is_jsonb bs then
    if is_jsonb nv then array_insert_b bs pos nv buf
    else do x <- parse_value nv; array_insert_b bs pos (to_vec x) buf
  else
    do v <- parse_value bs;
    if is_jsonb nv then array_insert_b (to_vec v) pos nv buf
    else do x <- parse_value nv; array_insert_b (to_vec v) pos (to_vec x) buf.
Proof. unfold array_insert_w, array_insert_st, array_insert_b. stv. Qed.

(* ---------------------------------------------------------------- EditWalk2.v *)
Lemma object_insert_b_eq value new_key new_value upd buf : object_insert_b value new_key new_value upd buf =
  match read_u32 value 0 with
  | None => Err EOther
  | Some header =>
      if negb (hdr_type header =? OBJECT_CONTAINER_TAG) then Err EInvalidObject else
      do pos <- iterate_object_keys value header (ins_key_step new_key upd) (fun st => Ok (snd st, false)) (O, O);
      let '(idx, dup) := pos in
      do r1 <- push_n value idx (ItNew (hdr_len header)) [];
      let '(b1, it1) := r1 in
      do e <- new_value_entry new_value;
      let b2 := obj_push b1 new_key e in
      do it2 <- (if dup then do r <- ent_next value it1; Ok (snd r) else Ok it1);
      do b3 <- ent_rest value it2 (fun b key j item => Ok (inl (obj_push b key (ERaw j item)))) (fun b => Ok b) b2;
      Ok (build_obj_into buf b3)
  end.
Proof. unfold object_insert_b, object_insert_b_st. cbv zeta. stv. Qed.

Lemma object_insert_w_eq bs key nv upd buf : object_insert_w bs key nv upd buf =
  (do vb <- as_jsonb bs;
  do nb <- as_jsonb nv;
  object_insert_b vb key nb upd buf).
Proof. unfold object_insert_w, object_insert_st, object_insert_b. stv. Qed.

Lemma object_filter_b_eq keep value buf : object_filter_b keep value buf =
  match read_u32 value 0 with
  | None => Err EOther
  | Some header =>
      if negb (hdr_type header =? OBJECT_CONTAINER_TAG) then Err EInvalidObject else
      do b <- iterate_object_entries value header
                (fun b key j item => if keep key then Ok (inl (obj_push b key (ERaw j item))) else Ok (inl b))
                (fun b => Ok b) [];
      Ok (build_obj_into buf b)
  end.
Proof. unfold object_filter_b, object_filter_b_st. stv. Qed.

Lemma object_delete_b_eq value ks buf : object_delete_b value ks buf = object_filter_b (fun k => negb (mem_key k ks)) value buf.
Proof. reflexivity. Qed.
Lemma object_pick_b_eq value ks buf : object_pick_b value ks buf = object_filter_b (fun k => mem_key k ks) value buf.
Proof. reflexivity. Qed.
Lemma object_delete_w_eq bs ks buf : object_delete_w bs ks buf = (do vb <- as_jsonb bs; object_delete_b vb ks buf).
Proof. unfold object_delete_w, object_delete_st, object_delete_b. stv. Qed.
Lemma object_pick_w_eq bs ks buf : object_pick_w bs ks buf = (do vb <- as_jsonb bs; object_pick_b vb ks buf).
Proof. unfold object_pick_w, object_pick_st, object_pick_b. stv. Qed.

Lemma strip_nulls_b_eq value buf : strip_nulls_b value buf =
  match read_u32 value 0 with
  | None => Err EOther
  | Some header =>
      if hdr_type header =? OBJECT_CONTAINER_TAG then
        do b <- strip_obj (strip_item (length value)) header value; Ok (build_obj_into buf b)
      else if hdr_type header =? ARRAY_CONTAINER_TAG then
        do es <- strip_arr (strip_item (length value)) header value; Ok (build_arr_into buf es)
      else Ok (buf ++ value)
  end.
Proof. unfold strip_nulls_b, strip_nulls_b_st. stv. Qed.

Lemma strip_nulls_w_eq bs buf : strip_nulls_w bs buf =
  if is_jsonb bs then strip_nulls_b bs buf else strip_nulls_m bs buf.
Proof.
  unfold strip_nulls_w, strip_nulls_st, strip_nulls_m, doc_of. destruct (is_jsonb bs); [reflexivity|].
  unfold append_enc. stv.
Qed.

Lemma delete_by_keypath_b_eq value ks buf : delete_by_keypath_b value ks buf =
  match read_u32 value 0 with
  | None => Err EOther
  | Some header =>
      if hdr_type header =? ARRAY_CONTAINER_TAG then
        do o <- del_arr (del_item (length ks)) value header ks;
        match o with
        | Some (es, _) => Ok (build_arr_into buf es)
        | None => Ok (buf ++ value)
        end
      else if hdr_type header =? OBJECT_CONTAINER_TAG then
        do o <- del_obj (del_item (length ks)) value header ks;
        match o with
        | Some (b, _) => Ok (build_obj_into buf b)
        | None => Ok (buf ++ value)
        end
      else Err EInvalidJsonType
  end.
Proof. unfold delete_by_keypath_b, delete_by_keypath_b_st. stv. Qed.

Lemma delete_by_keypath_w_eq bs ks buf : delete_by_keypath_w bs ks buf =
  if is_jsonb bs then delete_by_keypath_b bs ks buf else delete_by_keypath_m bs ks buf.
Proof.
  unfold delete_by_keypath_w, delete_by_keypath_st, delete_by_keypath_m, doc_of. destruct (is_jsonb bs); [reflexivity|].
  unfold append_enc. stv.
Qed.

(* ---------------------------------------------------------------- SetWalk.v *)
Import SetWalk.
Lemma array_distinct_b_eq bs buf : array_distinct_b bs buf =
  match read_u32 bs 0 with
  | None => Err EOther
  | Some hdr =>
      do es <- (if hdr_type hdr =? ARRAY_CONTAINER_TAG then
                  iterate_array bs hdr
                    (fun (st : list ikey * list entry) j p =>
                       if iset_mem (j, p) (fst st) then Ok (inl st)
                       else Ok (inl ((j, p) :: fst st, snd st ++ [ERaw j p])))
                    (fun st => Ok (snd st)) ([], [])
                else do k <- SetWalk.single_item bs hdr; Ok [SetWalk.raw_entry k]);
      Ok (build_arr_into buf es)
  end.
Proof. unfold array_distinct_b, array_distinct_b_st. stv. Qed.

Lemma array_intersection_b_eq bs1 bs2 buf : array_intersection_b bs1 bs2 buf =
  match read_u32 bs1 0 with None => Err EOther | Some h1 =>
  match read_u32 bs2 0 with None => Err EOther | Some h2 =>
  do m <- count_items bs2 h2;
  do es <- (if hdr_type h1 =? ARRAY_CONTAINER_TAG then
              iterate_array bs1 h1
                (fun (st : list (ikey * N) * list entry) j p =>
                   match imap_take (j, p) (fst st) with
                   | Some m' => Ok (inl (m', snd st ++ [ERaw j p]))
                   | None => Ok (inl st)
                   end)
                (fun st => Ok (snd st)) (m, [])
            else do k <- SetWalk.single_item bs1 h1; Ok (if imap_has k m then [SetWalk.raw_entry k] else []));
  Ok (build_arr_into buf es)
  end end.
Proof. unfold array_intersection_b, array_intersection_b_st. stv. Qed.

Lemma array_except_b_eq bs1 bs2 buf : array_except_b bs1 bs2 buf =
  match read_u32 bs1 0 with None => Err EOther | Some h1 =>
  match read_u32 bs2 0 with None => Err EOther | Some h2 =>
  do m <- count_items bs2 h2;
  do es <- (if hdr_type h1 =? ARRAY_CONTAINER_TAG then
              iterate_array bs1 h1
                (fun (st : list (ikey * N) * list entry) j p =>
                   match imap_take (j, p) (fst st) with
                   | Some m' => Ok (inl (m', snd st))
                   | None => Ok (inl (fst st, snd st ++ [ERaw j p]))
                   end)
                (fun st => Ok (snd st)) (m, [])
            else do k <- SetWalk.single_item bs1 h1; Ok (if imap_has k m then [] else [SetWalk.raw_entry k]));
  Ok (build_arr_into buf es)
  end end.
Proof. unfold array_except_b, array_except_b_st. stv. Qed.

Lemma array_distinct_w_eq bs buf : array_distinct_w bs buf = (do b <- SetWalk.as_jsonb bs; array_distinct_b b buf).
Proof. unfold array_distinct_w, array_distinct_st, array_distinct_b. stv. Qed.
Lemma array_intersection_w_eq l r buf : array_intersection_w l r buf =
  (do a <- SetWalk.as_jsonb l; do b <- SetWalk.as_jsonb r; array_intersection_b a b buf).
Proof. unfold array_intersection_w, array_intersection_st, array_intersection_b. stv. Qed.
Lemma array_except_w_eq l r buf : array_except_w l r buf =
  (do a <- SetWalk.as_jsonb l; do b <- SetWalk.as_jsonb r; array_except_b a b buf).
Proof. unfold array_except_w, array_except_st, array_except_b. stv. Qed.

(* ================================================================ quiet: no Ok, no write *)
(* M10 (second review) -- what these lemmas are worth.  `quiet` (and `err_leaves` / `framed` below) hold BY THE SHAPE of the
   `_st` bodies: every step before the single `swrite` is an `spure`, so an outcome other than Ok can only arise before anything
   is written; quiet_tac checks exactly that shape, nothing about the Rust code.  What ties this shape to the code is not a
   theorem but the correspondence: on Err the driver prints the MODEL's buffer next to the crate's, for every editor and every
   generated case (malformed streams included), so a Rust function that pushed bytes before failing would differ from its `_st`
   model.  build_array / build_object are the functions that do write as they go; their `_st` bodies say so (EditFrame.v). *)
Definition quiet {A} (m : stm A) : Prop :=
  forall buf, match snd (m buf) with Ok _ => True | _ => fst (m buf) = buf end.

Lemma quiet_pure {A} (r : res A) : quiet (spure r).
Proof. intros buf. cbn. destruct r; auto. Qed.
Lemma quiet_write f : quiet (swrite f).
Proof. intros buf. exact I. Qed.
Lemma quiet_write_value v : quiet (write_value v).
Proof. intros buf. exact I. Qed.
Lemma quiet_bind_pure {A B} (r : res A) (k : A -> stm B) : (forall x, quiet (k x)) -> quiet (sbind (spure r) k).
Proof. intros H buf. unfold sbind, spure. destruct r as [x|e|]; [apply H|reflexivity|reflexivity]. Qed.

Ltac quiet_step :=
  match goal with
  | |- quiet (sbind (spure _) _) => apply quiet_bind_pure; intros ?
  | |- quiet (spure _) => apply quiet_pure
  | |- quiet (swrite _) => apply quiet_write
  | |- quiet (write_value _) => apply quiet_write_value
  | |- quiet (if ?c then _ else _) => destruct c
  | |- quiet (match ?x with _ => _ end) => destruct x
  end.
Ltac quiet_tac := repeat quiet_step.

(* what `quiet` says, in the two forms used below *)
Lemma quiet_err {A} (m : stm A) : quiet m -> forall buf e, snd (m buf) = Err e -> fst (m buf) = buf.
Proof. intros H buf e E. specialize (H buf). rewrite E in H. exact H. Qed.
Lemma quiet_panic {A} (m : stm A) : quiet m -> forall buf, snd (m buf) = Panic -> fst (m buf) = buf.
Proof. intros H buf E. specialize (H buf). rewrite E in H. exact H. Qed.

(* ---- every editor, ANY input bytes *)
Lemma concat_b_st_quiet l r : quiet (concat_b_st l r).
Proof. unfold concat_b_st. cbv zeta. quiet_tac. Qed.
Theorem concat_st_quiet l r : quiet (concat_st l r).
Proof. unfold concat_st. quiet_tac. apply concat_b_st_quiet. Qed.

Lemma delete_by_name_b_st_quiet bs name : quiet (delete_by_name_b_st bs name).
Proof. unfold delete_by_name_b_st. cbv zeta. quiet_tac. Qed.
Theorem delete_by_name_st_quiet bs name : quiet (delete_by_name_st bs name).
Proof. unfold delete_by_name_st. quiet_tac. apply delete_by_name_b_st_quiet. Qed.

Lemma delete_by_index_b_st_quiet bs i : quiet (delete_by_index_b_st bs i).
Proof. unfold delete_by_index_b_st. cbv zeta. quiet_tac. Qed.
Theorem delete_by_index_st_quiet bs i : quiet (delete_by_index_st bs i).
Proof. unfold delete_by_index_st. quiet_tac. apply delete_by_index_b_st_quiet. Qed.

Lemma array_insert_b_st_quiet bs pos nv : quiet (array_insert_b_st bs pos nv).
Proof. unfold array_insert_b_st. cbv zeta. quiet_tac. Qed.
Theorem array_insert_st_quiet bs pos nv : quiet (array_insert_st bs pos nv).
Proof. unfold array_insert_st. quiet_tac; apply array_insert_b_st_quiet. Qed.

Lemma object_insert_b_st_quiet value key nv upd : quiet (object_insert_b_st value key nv upd).
Proof. unfold object_insert_b_st. cbv zeta. quiet_tac. Qed.
Theorem object_insert_st_quiet bs key nv upd : quiet (object_insert_st bs key nv upd).
Proof. unfold object_insert_st. quiet_tac. apply object_insert_b_st_quiet. Qed.

Lemma object_filter_b_st_quiet keep value : quiet (object_filter_b_st keep value).
Proof. unfold object_filter_b_st. quiet_tac. Qed.
Theorem object_delete_st_quiet bs ks : quiet (object_delete_st bs ks).
Proof. unfold object_delete_st, object_delete_b_st. quiet_tac. apply object_filter_b_st_quiet. Qed.
Theorem object_pick_st_quiet bs ks : quiet (object_pick_st bs ks).
Proof. unfold object_pick_st, object_pick_b_st. quiet_tac. apply object_filter_b_st_quiet. Qed.

Lemma strip_nulls_b_st_quiet value : quiet (strip_nulls_b_st value).
Proof. unfold strip_nulls_b_st. quiet_tac. Qed.
Theorem strip_nulls_st_quiet bs : quiet (strip_nulls_st bs).
Proof. unfold strip_nulls_st. quiet_tac. apply strip_nulls_b_st_quiet. Qed.

Lemma delete_by_keypath_b_st_quiet value ks : quiet (delete_by_keypath_b_st value ks).
Proof. unfold delete_by_keypath_b_st. quiet_tac. Qed.
Theorem delete_by_keypath_st_quiet bs ks : quiet (delete_by_keypath_st bs ks).
Proof. unfold delete_by_keypath_st. quiet_tac. apply delete_by_keypath_b_st_quiet. Qed.

Lemma array_distinct_b_st_quiet bs : quiet (array_distinct_b_st bs).
Proof. unfold array_distinct_b_st. quiet_tac. Qed.
Theorem array_distinct_st_quiet bs : quiet (array_distinct_st bs).
Proof. unfold array_distinct_st. quiet_tac. apply array_distinct_b_st_quiet. Qed.
Lemma array_intersection_b_st_quiet a b : quiet (array_intersection_b_st a b).
Proof. unfold array_intersection_b_st. quiet_tac. Qed.
Theorem array_intersection_st_quiet l r : quiet (array_intersection_st l r).
Proof. unfold array_intersection_st. quiet_tac. apply array_intersection_b_st_quiet. Qed.
Lemma array_except_b_st_quiet a b : quiet (array_except_b_st a b).
Proof. unfold array_except_b_st. quiet_tac. Qed.
Theorem array_except_st_quiet l r : quiet (array_except_st l r).
Proof. unfold array_except_st. quiet_tac. apply array_except_b_st_quiet. Qed.

(* ================================================================ framed: the prefix stays, in every outcome *)
Definition framed {A} (m : stm A) : Prop := forall buf, m buf = (buf ++ fst (m []), snd (m [])).

Lemma framed_pure {A} (r : res A) : framed (spure r).
Proof. intros buf. unfold spure. cbn [fst snd]. rewrite app_nil_r. reflexivity. Qed.
Lemma framed_write_arr es : framed (swrite (fun buf => build_arr_into buf es)).
Proof. intros buf. unfold swrite. cbn [fst snd]. rewrite (build_arr_into_frame buf es). reflexivity. Qed.
Lemma framed_write_obj kes : framed (swrite (fun buf => build_obj_into buf kes)).
Proof. intros buf. unfold swrite. cbn [fst snd]. rewrite (build_obj_into_frame buf kes). reflexivity. Qed.
Lemma framed_write_app x : framed (swrite (fun buf => buf ++ x)).
Proof. intros buf. reflexivity. Qed.
Lemma framed_write_value v : framed (write_value v).
Proof. intros buf. reflexivity. Qed.
Lemma framed_bind_pure {A B} (r : res A) (k : A -> stm B) : (forall x, framed (k x)) -> framed (sbind (spure r) k).
Proof.
  intros H buf. unfold sbind, spure. destruct r as [x|e|]; [apply H| |]; cbn [fst snd]; rewrite app_nil_r; reflexivity.
Qed.
(* the general sequencing rule (not needed by the editors, whose only write is the last step; build_array /
   build_object are loops of it) *)
Lemma framed_bind {A B} (m : stm A) (k : A -> stm B) : framed m -> (forall x, framed (k x)) -> framed (sbind m k).
Proof.
  intros Hm Hk buf. unfold sbind. rewrite (Hm buf). destruct (m []) as [t [a|e|]]; cbn [fst snd]; try reflexivity.
  rewrite (Hk a (buf ++ t)), (Hk a t). cbn [fst snd]. rewrite app_assoc. reflexivity.
Qed.

Ltac framed_step :=
  match goal with
  | |- framed (sbind (spure _) _) => apply framed_bind_pure; intros ?
  | |- framed (spure _) => apply framed_pure
  | |- framed (swrite (fun buf => build_arr_into buf _)) => apply framed_write_arr
  | |- framed (swrite (fun buf => build_obj_into buf _)) => apply framed_write_obj
  | |- framed (swrite (fun buf => buf ++ _)) => apply framed_write_app
  | |- framed (write_value _) => apply framed_write_value
  | |- framed (if ?c then _ else _) => destruct c
  | |- framed (match ?x with _ => _ end) => destruct x
  end.
Ltac framed_tac := repeat framed_step.

Lemma concat_b_st_framed l r : framed (concat_b_st l r).
Proof. unfold concat_b_st. cbv zeta. framed_tac. Qed.
Theorem concat_st_framed l r : framed (concat_st l r).
Proof. unfold concat_st. framed_tac. apply concat_b_st_framed. Qed.

Lemma delete_by_name_b_st_framed bs name : framed (delete_by_name_b_st bs name).
Proof. unfold delete_by_name_b_st. cbv zeta. framed_tac. Qed.
Theorem delete_by_name_st_framed bs name : framed (delete_by_name_st bs name).
Proof. unfold delete_by_name_st. framed_tac. apply delete_by_name_b_st_framed. Qed.

Lemma delete_by_index_b_st_framed bs i : framed (delete_by_index_b_st bs i).
Proof. unfold delete_by_index_b_st. cbv zeta. framed_tac. Qed.
Theorem delete_by_index_st_framed bs i : framed (delete_by_index_st bs i).
Proof. unfold delete_by_index_st. framed_tac. apply delete_by_index_b_st_framed. Qed.

Lemma array_insert_b_st_framed bs pos nv : framed (array_insert_b_st bs pos nv).
Proof. unfold array_insert_b_st. cbv zeta. framed_tac. Qed.
Theorem array_insert_st_framed bs pos nv : framed (array_insert_st bs pos nv).
Proof. unfold array_insert_st. framed_tac; apply array_insert_b_st_framed. Qed.

Lemma object_insert_b_st_framed value key nv upd : framed (object_insert_b_st value key nv upd).
Proof. unfold object_insert_b_st. cbv zeta. framed_tac. Qed.
Theorem object_insert_st_framed bs key nv upd : framed (object_insert_st bs key nv upd).
Proof. unfold object_insert_st. framed_tac. apply object_insert_b_st_framed. Qed.

Lemma object_filter_b_st_framed keep value : framed (object_filter_b_st keep value).
Proof. unfold object_filter_b_st. framed_tac. Qed.
Theorem object_delete_st_framed bs ks : framed (object_delete_st bs ks).
Proof. unfold object_delete_st, object_delete_b_st. framed_tac. apply object_filter_b_st_framed. Qed.
Theorem object_pick_st_framed bs ks : framed (object_pick_st bs ks).
Proof. unfold object_pick_st, object_pick_b_st. framed_tac. apply object_filter_b_st_framed. Qed.

Lemma strip_nulls_b_st_framed value : framed (strip_nulls_b_st value).
Proof. unfold strip_nulls_b_st. framed_tac. Qed.
Theorem strip_nulls_st_framed bs : framed (strip_nulls_st bs).
Proof. unfold strip_nulls_st. framed_tac. apply strip_nulls_b_st_framed. Qed.

Lemma delete_by_keypath_b_st_framed value ks : framed (delete_by_keypath_b_st value ks).
Proof. unfold delete_by_keypath_b_st. framed_tac. Qed.
Theorem delete_by_keypath_st_framed bs ks : framed (delete_by_keypath_st bs ks).
Proof. unfold delete_by_keypath_st. framed_tac. apply delete_by_keypath_b_st_framed. Qed.

Lemma array_distinct_b_st_framed bs : framed (array_distinct_b_st bs).
Proof. unfold array_distinct_b_st. framed_tac. Qed.
Theorem array_distinct_st_framed bs : framed (array_distinct_st bs).
Proof. unfold array_distinct_st. framed_tac. apply array_distinct_b_st_framed. Qed.
Lemma array_intersection_b_st_framed a b : framed (array_intersection_b_st a b).
Proof. unfold array_intersection_b_st. framed_tac. Qed.
Theorem array_intersection_st_framed l r : framed (array_intersection_st l r).
Proof. unfold array_intersection_st. framed_tac. apply array_intersection_b_st_framed. Qed.
Lemma array_except_b_st_framed a b : framed (array_except_b_st a b).
Proof. unfold array_except_b_st. framed_tac. Qed.
Theorem array_except_st_framed l r : framed (array_except_st l r).
Proof. unfold array_except_st. framed_tac. apply array_except_b_st_framed. Qed.

(* ---- from the state function to its view *)
Lemma view_framed (m : stm unit) : framed m -> forall buf, view (m buf) = res_map (app buf) (view (m [])).
Proof. intros H buf. rewrite (H buf). destruct (m []) as [t [[]|e|]]; reflexivity. Qed.

(* ---- from the view to the state function: a quiet function whose view is known is known *)
Definition st_spec (buf : list N) (r : res value) : list N * res unit :=
  match r with
  | Ok y => (buf ++ enc y, Ok tt)
  | Err e => (buf, Err e)
  | Panic => (buf, Panic)
  end.
Lemma st_of_view (m : stm unit) buf (r : res value) :
  quiet m -> view (m buf) = res_map (fun y => buf ++ enc y) r -> m buf = st_spec buf r.
Proof.
  intros Q V. specialize (Q buf). destruct (m buf) as [b [[]|e|]]; destruct r as [y|e'|]; cbn in *; try discriminate.
  - injection V as ->. reflexivity.
  - injection V as ->. subst b. reflexivity.
  - subst b. reflexivity.
Qed.
