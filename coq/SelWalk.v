(* SelWalk.v — offset-faithful model of src/jsonpath/selector.rs: the selector never decodes the document, it keeps
   a frontier of byte positions into the root buffer (Position::Container((offset, length)) /
   Position::Scalar((type, offset, length))) and computes payload offsets from header and entry words.
   Same buffer, same absolute offsets, same reads:
     decode_header(&root[off..])?        = `from_ok` (the index expression panics past the end) then `rd` (Err on short input)
     decode_jentries(rest, n)?           = rd_words with fuel S (length bs) (nom's `count` reads entry by entry and fails at
                                           the end of the input; no count read from the buffer becomes a unary number)
     &root[off..off + len]               = Panic when out of bounds
     unwrap / unreachable! / expect      = Panic
   The frontier VecDeque (pop_front / push_back, `len` times) is the list of positions in order; a step maps every
   position to the positions it pushes, an error ends the walk at once.  filter_expr recurses structurally on the
   expression: there is no recursion fuel, a path of any length and nesting is evaluated in full.  PathSem.v is the same evaluator with positions
   replaced by the values they denote; SelWalkProofs.v proves the two agree on every canonical encoding.
   Executable definitions only. *)
From Coq Require Import List NArith ZArith Bool.
Import ListNotations.
From JB Require Import Constants Bytes Utf8 Num Value Codec TreeOps JsonText Path PathSem Dispatch Walk CompareWalk.
Open Scope N_scope.

(* enum Position *)
Inductive position :=
| PosC (off len : N)            (* Container((offset, length)) *)
| PosS (ty off len : N).        (* Scalar((type, offset, length)) *)

(* decode_header(&root[off..])?: the header word at off *)
Definition hdr_at (bs : list N) (off : N) : res N := do _ <- from_ok bs off; rd bs off.

(* the position an entry word and the running payload offset stand for *)
Definition mkpos (w off : N) : position :=
  if je_type w =? CONTAINER_TAG then PosC off (je_len w) else PosS (je_type w) off (je_len w).

(* root_position: a scalar document is a scalar position at offset 8, anything else the whole buffer *)
Definition root_position_w (bs : list N) : position :=
  match read_u32 bs 0 with
  | Some h =>
      if hdr_type h =? SCALAR_CONTAINER_TAG then
        match read_u32 bs 4 with
        | Some w => if negb (je_type w =? CONTAINER_TAG) then PosS (je_type w) 8 (je_len w) else PosC 0 (lenN bs)
        | None => PosC 0 (lenN bs)
        end
      else PosC 0 (lenN bs)
  | None => PosC 0 (lenN bs)
  end.

(* for (jty, jlength) in val_jentries { push; offset += jlength } *)
Fixpoint val_positions (ws : list N) (off : N) : list position :=
  match ws with
  | [] => []
  | w :: r => mkpos w off :: val_positions r (off + je_len w)
  end.

(* select_object_values *)
Definition select_object_values_w (bs : list N) (off : N) : res (list position) :=
  do h <- hdr_at bs off;
  let len := hdr_len h in
  if negb (hdr_type h =? OBJECT_CONTAINER_TAG) || (len =? 0) then Ok [] else
  do kws <- rd_words_res bs len (off + 4);
  do vws <- rd_words_res bs len (off + 4 + 4 * len);
  Ok (val_positions vws (SOV_OFF off len + sum_je_len kws)).      (* generated from select_object_values *)

(* select_array_values: a non-array passes through as it is (lax mode) *)
Definition select_array_values_w (bs : list N) (off length : N) : res (list position) :=
  do h <- hdr_at bs off;
  if negb (hdr_type h =? ARRAY_CONTAINER_TAG) then Ok [PosC off length] else
  let len := hdr_len h in
  do vws <- rd_words_res bs len (off + 4);
  Ok (val_positions vws (SAV_OFF off len)).                       (* generated from select_array_values *)

(* select_by_name, first loop: every key entry advances the offset; a key of the right length is sliced and compared
   until one is found.  (final offset, index of the first key equal to name) *)
Fixpoint name_scan (bs name : list N) (kws : list N) (i off : N) (found : option N) : res (N * option N) :=
  match kws with
  | [] => Ok (off, found)
  | kw :: r =>
      let jlen := je_len kw in
      if negb (lenN name =? jlen) || (match found with Some _ => true | None => false end)
      then name_scan bs name r (i + 1) (off + jlen) found
      else
        do _ <- from_ok bs off;                              (* &root[offset..] *)
        match slice bs off jlen with
        | None => Err EOther                                 (* take(jlength)? *)
        | Some key => name_scan bs name r (i + 1) (off + jlen) (if bytes_eqb name key then Some i else None)
        end
  end.
(* second loop: skip the values before idx, push the one at idx, break *)
Fixpoint pick_val (vws : list N) (i idx off : N) : list position :=
  match vws with
  | [] => []
  | w :: r => if i =? idx then [mkpos w off] else pick_val r (i + 1) idx (off + je_len w)
  end.
Definition select_by_name_w (bs : list N) (off : N) (name : list N) : res (list position) :=
  do h <- hdr_at bs off;
  let len := hdr_len h in
  if negb (hdr_type h =? OBJECT_CONTAINER_TAG) || (len =? 0) then Ok [] else
  do kws <- rd_words_res bs len (off + 4);
  do vws <- rd_words_res bs len (off + 4 + 4 * len);
  do (voff, found) <- name_scan bs name kws 0 (SBN_OFF off len) None;      (* generated from select_by_name *)
  match found with
  | None => Ok []
  | Some idx => Ok (pick_val vws 0 idx voff)
  end.

(* convert_index / convert_slice say Some(non-empty) exactly when: *)
Definition index_nonempty (len : Z) (a : array_index) : bool :=
  match a with
  | AIndex i => let j := resolve_index i len in CI_INRANGE j len
  | ASlice s e =>
      let s' := resolve_start s len in let e' := resolve_end e len in
      negb (CS_EMPTY s' e' len)
  end.
(* offsets.push(offset); offset += jlength *)
Fixpoint offsets_of (ws : list N) (off : N) : list N :=
  match ws with [] => [] | w :: r => off :: offsets_of r (off + je_len w) end.
(* for i in val_indices { offsets[i]; jentries[i]; push } *)
Fixpoint pick_indices (ws offs : list N) (idxs : list nat) : res (list position) :=
  match idxs with
  | [] => Ok []
  | k :: r =>
      match nth_opt offs k, nth_opt ws k with
      | Some o, Some w => do rest <- pick_indices ws offs r; Ok (mkpos w o :: rest)
      | _, _ => Panic
      end
  end.
(* select_by_indices: the indices are resolved against the count of the header (length as i32: the count has 29 bits;
   the sums are computed in i64, I32.v); when none is in range nothing is read.  The index list is only materialised
   after the entry words were read, i.e. when the count is at most a quarter of the buffer. *)
Definition select_by_indices_w (bs : list N) (off : N) (ixs : list array_index) : res (list position) :=
  do h <- hdr_at bs off;
  let len := hdr_len h in
  if negb (hdr_type h =? ARRAY_CONTAINER_TAG) || (len =? 0) then Ok [] else
  if negb (existsb (index_nonempty (Z.of_N len)) ixs) then Ok [] else
  do ws <- rd_words_res bs len (off + 4);
  pick_indices ws (offsets_of ws (SBI_OFF off len)) (flat_map (index_positions (Z.of_N len)) ixs).   (* SBI_OFF: generated *)

(* select_path *)
Definition select_path_w (bs : list N) (off length : N) (p : path) : res (list position) :=
  match p with
  | PDotWild => select_object_values_w bs off
  | PBracketWild => select_array_values_w bs off length
  | PDotField n | PColonField n | PObjectField n => select_by_name_w bs off n
  | PIndices ixs => select_by_indices_w bs off ixs
  | _ => Panic                                           (* unreachable!() *)
  end.
(* one frontier position under one step *)
Definition step_pos_w (bs : list N) (p : path) (pos : position) : res (list position) :=
  match pos with
  | PosC off len => select_path_w bs off len p
  | PosS _ _ _ => match p with PBracketWild => Ok [pos] | _ => Ok [] end
  end.

(* the frontier loop of find_positions *)
Section WalkW.
  Variable bs : list N.
  Variable fe : position -> expr -> res bool.        (* filter_expr at this root *)
  Fixpoint walk_w (ps : list path) (frontier : list position) : res (list position) :=
    match ps with
    | [] => Ok frontier
    | p :: r =>
        match p with
        | PRoot | PCurrent => walk_w r frontier
        | PFilter e | PPredicate e => do fr <- filter_res (fun pos => fe pos e) frontier; walk_w r fr
        | _ => do fr <- flat_map_res (step_pos_w bs p) frontier; walk_w r fr
        end
    end.
End WalkW.
(* the loop of convert_expr_val *)
Fixpoint walk_operand_w (bs : list N) (ps : list path) (frontier : list position) : res (list position) :=
  match ps with
  | [] => Ok frontier
  | p :: r =>
      match p with
      | PRoot | PCurrent | PFilter _ | PPredicate _ => Panic
      | _ => do fr <- flat_map_res (step_pos_w bs p) frontier; walk_operand_w bs r fr
      end
  end.

(* the PathValue of a scalar position (container positions are skipped) *)
Fixpoint pvalues_of (bs : list N) (poses : list position) : res (list pvalue) :=
  match poses with
  | [] => Ok []
  | PosC _ _ :: r => pvalues_of bs r
  | PosS ty off len :: r =>
      do v <- (if ty =? NULL_TAG then Ok PVNull
               else if ty =? TRUE_TAG then Ok (PVBool true)
               else if ty =? FALSE_TAG then Ok (PVBool false)
               else if ty =? NUMBER_TAG then do p <- slice_p bs off len; do n <- num_decode p; Ok (PVNum n)
               else if ty =? STRING_TAG then do s <- slice_p bs off len; Ok (PVStr s)
               else Panic);                                (* unreachable!() *)
      do vs <- pvalues_of bs r;
      Ok (v :: vs)
  end.
(* convert_expr_val *)
Definition expr_values_w (bs : list N) (pos : position) (e : expr) : res (list pvalue) :=
  match e with
  | EValue v => Ok [v]
  | EPaths ps =>
      let start := match ps with PCurrent :: _ => pos | _ => root_position_w bs end in
      do fr <- walk_operand_w bs (tl ps) [start];
      pvalues_of bs fr
  | _ => Panic
  end.

Definition find_positions_with_w (fe : position -> expr -> res bool) (bs : list N) (current : option position) (ps : list path)
  : res (list position) :=
  do start <- match ps with
              | PCurrent :: _ => match current with Some c => Ok c | None => Panic end
              | _ => Ok (root_position_w bs) end;
  walk_w bs fe ps [start].
(* filter_expr / eval_exists: structural on the expression, as in PathSem.v (no fuel) *)
Fixpoint filter_expr_w (bs : list N) (pos : position) (e : expr) {struct e} : res bool :=
  match e with
  | EBin OOr l r => do a <- filter_expr_w bs pos l; do b <- filter_expr_w bs pos r; Ok (a || b)
  | EBin OAnd l r => do a <- filter_expr_w bs pos l; do b <- filter_expr_w bs pos r; Ok (a && b)
  | EBin op l r =>
      do a <- expr_values_w bs pos l;
      do b <- expr_values_w bs pos r;
      exists_res (fun x => exists_res (fun y => compare_value op x y) b) a
  | EExists ps =>
      do fr <- find_positions_with_w (fun pos' e' => filter_expr_w bs pos' e') bs (Some pos) ps;
      Ok (match fr with [] => false | _ => true end)
  | _ => Err EOther
  end.
Definition find_positions_w (bs : list N) (current : option position) (ps : list path) : res (list position) :=
  find_positions_with_w (fun pos e => filter_expr_w bs pos e) bs current ps.

(* ---- the result writers ---- *)
(* build_values: each position is copied out as a complete document, the running end is pushed *)
Fixpoint build_values_w (bs : list N) (poses : list position) (data offs : list N) : res (list N * list N) :=
  match poses with
  | [] => Ok (data, offs)
  | PosC off len :: r =>
      do p <- slice_p bs off len;
      let data' := data ++ p in
      build_values_w bs r data' (offs ++ [lenN data'])
  | PosS ty off len :: r =>
      let hd := data ++ be32 SCALAR_CONTAINER_TAG ++ be32 (N.lor ty (u32 len)) in
      do data' <- (if 0 <? len then do p <- slice_p bs off len; Ok (hd ++ p) else Ok hd);
      build_values_w bs r data' (offs ++ [lenN data'])
  end.
(* build_scalar_array, literally: header, `len` zeroed entry slots reserved (data.resize), then for every position the
   payload is appended at the end and the entry word is written into its slot (data[jentry_offset + i] = b) *)
Fixpoint array_loop_w (bs : list N) (poses : list position) (data : list N) (joff : nat) : res (list N) :=
  match poses with
  | [] => Ok data
  | pos :: r =>
      do (data1, jentry) <-
        match pos with
        | PosC off len => do p <- slice_p bs off len; Ok (data ++ p, N.lor CONTAINER_TAG (u32 len))
        | PosS ty off len => do p <- (if 0 <? len then slice_p bs off len else Ok []); Ok (data ++ p, N.lor ty (u32 len))
        end;
      array_loop_w bs r (patch data1 joff (be32 jentry)) (joff + N.to_nat BSA_JSTEP)      (* jentry_offset += ..: generated *)
  end.
Definition build_scalar_array_w (bs : list N) (poses : list position) (data : list N) : res (list N * list N) :=
  let data1 := data ++ be32 (N.lor ARRAY_CONTAINER_TAG (u32 (lenN poses))) in
  let joff := length data1 in
  (* data.resize(BSA_RESERVE jentry_offset len, 0): the new length is generated from the source, the zeros appended are the difference *)
  do data' <- array_loop_w bs poses (data1 ++ repeat 0 (N.to_nat (BSA_RESERVE (N.of_nat joff) (lenN poses)) - joff)) joff;
  Ok (data', [lenN data']).
(* build_predicate_result *)
Definition build_predicate_result_w (poses : list position) (data : list N) : list N :=
  data ++ be32 SCALAR_CONTAINER_TAG ++ be32 (match poses with [] => FALSE_TAG | _ => TRUE_TAG end).

(* ---- Selector::select / exists / predicate_match ---- *)
Definition select_w (bs : list N) (ps : list path) (m : mode) (buf : list N) : res (list N * list N) :=
  do poses <- find_positions_w bs None ps;
  if is_predicate ps then Ok (build_predicate_result_w poses buf, [])
  else
    match m with
    | MAll => build_values_w bs poses buf []
    | MFirst => build_values_w bs (firstn 1 poses) buf []
    | MArray => build_scalar_array_w bs poses buf
    | MMixed => if (1 <? length poses)%nat then build_scalar_array_w bs poses buf else build_values_w bs poses buf []
    end.
Definition sel_exists_w (bs : list N) (ps : list path) : res bool :=
  if is_predicate ps then Ok true
  else do poses <- find_positions_w bs None ps; Ok (match poses with [] => false | _ => true end).
Definition sel_predicate_match_w (bs : list N) (ps : list path) : res bool :=
  if negb (is_predicate ps) then Err EInvalidPredicate
  else do poses <- find_positions_w bs None ps; Ok (match poses with [] => false | _ => true end).

(* ---- functions.rs: is_jsonb, then the selector on the buffer; for a JSON text argument the value is parsed, encoded
   (`parse_value(value)?.to_vec()` / `if let Ok(val) = parse_value(value)`) and the SAME byte selector runs on those bytes ---- *)
Definition get_by_path_gen_w (m : mode) (bs : list N) (ps : list path) (buf : list N) : res (list N * list N) :=
  if is_jsonb bs then select_w bs ps m buf
  else match parse_value bs with
       | Ok v => select_w (to_vec v) ps m buf
       | Err _ => Ok (buf, [])
       | Panic => Panic
       end.
Definition get_by_path_w := get_by_path_gen_w MMixed.
Definition get_by_path_first_w := get_by_path_gen_w MFirst.
Definition get_by_path_array_w := get_by_path_gen_w MArray.
Definition path_exists_w (bs : list N) (ps : list path) : res bool :=
  if is_jsonb bs then sel_exists_w bs ps
  else match parse_value bs with Ok v => sel_exists_w (to_vec v) ps | Err _ => Ok false | Panic => Panic end.
Definition path_match_w (bs : list N) (ps : list path) : res bool :=
  if is_jsonb bs then sel_predicate_match_w bs ps
  else do v <- parse_value bs; sel_predicate_match_w (to_vec v) ps.
