(* SelSt.v — the selector's output as explicit state (C17 for selections).
   `Selector::select(&self, root, data: &mut Vec<u8>, offsets: &mut Vec<u64>) -> Result<(), Error>` (and get_by_path /
   get_by_path_first / get_by_path_array, which hand their `data` / `offsets` on) write into the caller's two vectors as they
   go: build_values pushes item by item and one offset per item, build_scalar_array writes the header, reserves the entry
   slots, appends payloads and patches the slots, then pushes one offset.  A model of type `... -> res (data * offsets)` cannot
   say what an `Err` return leaves in the vectors.  Here the body is a computation over the pair
       sstm A = (data, offsets) -> (data, offsets) * res A      (the state AS LEFT, and the outcome)
   with the same order of effects as the Rust code:
     select:  let mut poses = self.find_positions(root, None, paths)?;      -- no write before this `?`
              then exactly one writer; the writers contain NO `?` that can fail (write_u32 into a Vec) — their only exits are
              Ok and the panic of an index expression `&root[offset..offset + length]` on a corrupt root.
   SelStProofs.v: an Err outcome leaves both vectors as they were (on ANY root bytes); on Ok the state is what the view
   `select_w` of SelWalk.v returns, the offsets appended to the caller's.  After a Panic the vectors are not observable (the
   harness catches the unwind); the model keeps whatever the steps before left.  Executable definitions only. *)
From Coq Require Import List NArith ZArith Bool.
Import ListNotations.
From JB Require Import Constants Bytes Utf8 Num Value Codec TreeOps JsonText Path PathSem Dispatch Walk CompareWalk SelWalk.
Open Scope N_scope.

Definition sstate : Type := (list N * list N)%type.          (* data, offsets *)
Definition sstm (A : Type) : Type := sstate -> sstate * res A.

Definition ss_ret {A} (a : A) : sstm A := fun s => (s, Ok a).
Definition ss_pure {A} (r : res A) : sstm A := fun s => (s, r).          (* a statement in which data / offsets do not occur *)
Definition ss_bind {A B} (m : sstm A) (k : A -> sstm B) : sstm B :=
  fun s => match m s with
           | (s', Ok a) => k a s'
           | (s', Err e) => (s', Err e)
           | (s', Panic) => (s', Panic)
           end.
Notation "'ssdo' x <- e ; f" := (ss_bind e (fun x => f)) (at level 200, x pattern, e at level 100, f at level 200).
(* data.extend_from_slice(..) / data.write_u32(..) *)
Definition push_data (bytes : list N) : sstm unit := fun s => ((fst s ++ bytes, snd s), Ok tt).
(* any other update of data (resize, data[i] = b) *)
Definition upd_data (f : list N -> list N) : sstm unit := fun s => ((f (fst s), snd s), Ok tt).
(* offsets.push(data.len() as u64) *)
Definition push_offset : sstm unit := fun s => ((fst s, snd s ++ [lenN (fst s)]), Ok tt).
(* data.len() *)
Definition data_len : sstm nat := fun s => (s, Ok (length (fst s))).

(* &root[offset..offset + length]: the panic of the index expression happens before anything of that slice is written *)
Definition push_slice (bs : list N) (off len : N) : sstm unit :=
  ssdo p <- ss_pure (slice_p bs off len); push_data p.

(* build_values *)
Fixpoint build_values_st (bs : list N) (poses : list position) : sstm unit :=
  match poses with
  | [] => ss_ret tt
  | PosC off len :: r =>
      ssdo _ <- push_slice bs off len;
      ssdo _ <- push_offset;
      build_values_st bs r
  | PosS ty off len :: r =>
      ssdo _ <- push_data (be32 SCALAR_CONTAINER_TAG);
      ssdo _ <- push_data (be32 (N.lor ty (u32 len)));
      ssdo _ <- (if 0 <? len then push_slice bs off len else ss_ret tt);
      ssdo _ <- push_offset;
      build_values_st bs r
  end.

(* build_scalar_array *)
Fixpoint array_loop_st (bs : list N) (poses : list position) (joff : nat) : sstm unit :=
  match poses with
  | [] => ss_ret tt
  | pos :: r =>
      ssdo jentry <- match pos with
                     | PosC off len => ssdo _ <- push_slice bs off len; ss_ret (N.lor CONTAINER_TAG (u32 len))
                     | PosS ty off len => ssdo _ <- (if 0 <? len then push_slice bs off len else ss_ret tt); ss_ret (N.lor ty (u32 len))
                     end;
      ssdo _ <- upd_data (fun d => patch d joff (be32 jentry));            (* data[jentry_offset + i] = b *)
      array_loop_st bs r (joff + N.to_nat BSA_JSTEP)
  end.
Definition build_scalar_array_st (bs : list N) (poses : list position) : sstm unit :=
  ssdo _ <- push_data (be32 (N.lor ARRAY_CONTAINER_TAG (u32 (lenN poses))));
  ssdo joff <- data_len;
  ssdo _ <- upd_data (fun d => d ++ repeat 0 (N.to_nat (BSA_RESERVE (N.of_nat joff) (lenN poses)) - joff));     (* data.resize *)
  ssdo _ <- array_loop_st bs poses joff;
  push_offset.
(* build_predicate_result: the boolean document, no offset *)
Definition build_predicate_result_st (poses : list position) : sstm unit :=
  ssdo _ <- push_data (be32 SCALAR_CONTAINER_TAG);
  push_data (be32 (match poses with [] => FALSE_TAG | _ => TRUE_TAG end)).

(* Selector::select *)
Definition select_st (bs : list N) (ps : list path) (m : mode) : sstm unit :=
  ssdo poses <- ss_pure (find_positions_w bs None ps);
  if is_predicate ps then build_predicate_result_st poses
  else
    match m with
    | MAll => build_values_st bs poses
    | MFirst => build_values_st bs (firstn 1 poses)
    | MArray => build_scalar_array_st bs poses
    | MMixed => if (1 <? length poses)%nat then build_scalar_array_st bs poses else build_values_st bs poses
    end.

(* get_by_path / get_by_path_first / get_by_path_array *)
Definition get_by_path_gen_st (m : mode) (bs : list N) (ps : list path) : sstm unit :=
  if is_jsonb bs then select_st bs ps m
  else match parse_value bs with
       | Ok v => select_st (to_vec v) ps m
       | Err _ => ss_ret tt
       | Panic => ss_pure Panic
       end.
Definition get_by_path_st := get_by_path_gen_st MMixed.
Definition get_by_path_first_st := get_by_path_gen_st MFirst.
Definition get_by_path_array_st := get_by_path_gen_st MArray.
