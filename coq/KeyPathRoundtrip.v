(* KeyPathRoundtrip.v — printing a key path and parsing the printout gives the same elements (C16), for every list
   of elements whose names need no escapes. *)
From Coq Require Import List NArith ZArith Bool Lia.
Import ListNotations.
From JB Require Import Constants Bytes Utf8 Num Value Decimal JsonText TreeOps Path PathParse TextRoundtrip.
Open Scope N_scope.
Set Default Timeout 300.

(* ---------------------------------------------------------------- what follows an element *)
Definition stop (rest : list N) : Prop := exists c r, rest = c :: r /\ (c = 44 \/ c = 125).
Lemma stop_facts rest : stop rest -> no_digit_next rest /\ multispace0 rest = rest /\
  exists c r, rest = c :: r /\ is_delim c = true /\ c <> 92.
Proof.
  intros (c & r & -> & Hc). destruct Hc as [-> | ->]; (split; [reflexivity|split; [reflexivity|]]); eexists; eexists; (split; [reflexivity|split; [reflexivity|discriminate]]).
Qed.

(* ---------------------------------------------------------------- signed integers *)
Fixpoint ndigits_val (ds : list N) (acc : Z) : Z :=
  match ds with [] => acc | d :: r => ndigits_val r (acc * 10 - (Z.of_N d - 48)) end.
Lemma ndigits_val_neg ds : forall a, ndigits_val ds (- a) = (- digits_val ds a)%Z.
Proof. induction ds as [|d ds IH]; intros a; cbn [ndigits_val digits_val]; [reflexivity|]. rewrite <- IH. f_equal. lia. Qed.

Lemma digit_range d : is_digit d = true -> (0 <= Z.of_N d - 48 <= 9)%Z.
Proof. unfold is_digit. intros H. apply andb_true_iff in H. destruct H as [H1 H2]. apply N.leb_le in H1. apply N.leb_le in H2. lia. Qed.
Lemma digits_val_ge ds : digit_list ds -> forall a, (0 <= a)%Z -> (a <= digits_val ds a)%Z.
Proof.
  induction 1 as [|d ds Hd _ IH]; intros a Ha; cbn [digits_val]; [lia|].
  pose proof (digit_range d Hd). specialize (IH (a * 10 + (Z.of_N d - 48))%Z ltac:(lia)). lia.
Qed.

Lemma int_digits_pos lo hi ds rest : digit_list ds -> no_digit_next rest -> (lo <= 0)%Z ->
  forall acc any, (0 <= acc)%Z -> (digits_val ds acc <= hi)%Z -> (ds <> [] \/ any = true) ->
  int_digits false lo hi (ds ++ rest) acc any = POk rest (digits_val ds acc).
Proof.
  intros Hd Hr Hlo. induction Hd as [|d ds Hdd Hds IH]; intros acc any Ha Hhi Hne.
  - destruct Hne as [Hne | ->]; [contradiction Hne; reflexivity|]. cbn [app digits_val].
    destruct rest as [|c r]; [reflexivity|]. cbn [int_digits]. cbn in Hr. rewrite Hr. reflexivity.
  - cbn [app int_digits digits_val]. rewrite Hdd. cbv zeta.
    pose proof (digit_range d Hdd) as R. cbn [digits_val] in Hhi.
    pose proof (digits_val_ge ds Hds (acc * 10 + (Z.of_N d - 48))%Z ltac:(lia)) as G.
    replace ((acc * 10 + (Z.of_N d - 48) <? lo) || (hi <? acc * 10 + (Z.of_N d - 48)))%Z with false
      by (symmetry; apply orb_false_iff; split; [apply Z.ltb_ge|apply Z.ltb_ge]; lia).
    apply IH; [lia|exact Hhi|right; reflexivity].
Qed.
Lemma int_digits_neg lo hi ds rest : digit_list ds -> no_digit_next rest -> (0 <= hi)%Z ->
  forall acc any, (acc <= 0)%Z -> (lo <= ndigits_val ds acc)%Z -> (ds <> [] \/ any = true) ->
  int_digits true lo hi (ds ++ rest) acc any = POk rest (ndigits_val ds acc).
Proof.
  intros Hd Hr Hhi. induction Hd as [|d ds Hdd Hds IH]; intros acc any Ha Hlo Hne.
  - destruct Hne as [Hne | ->]; [contradiction Hne; reflexivity|]. cbn [app ndigits_val].
    destruct rest as [|c r]; [reflexivity|]. cbn [int_digits]. cbn in Hr. rewrite Hr. reflexivity.
  - cbn [app int_digits ndigits_val]. rewrite Hdd. cbv zeta.
    pose proof (digit_range d Hdd) as R. cbn [ndigits_val] in Hlo.
    assert (G : (ndigits_val ds (acc * 10 - (Z.of_N d - 48)) <= acc * 10 - (Z.of_N d - 48))%Z).
    { replace (acc * 10 - (Z.of_N d - 48))%Z with (- (- acc * 10 + (Z.of_N d - 48)))%Z by lia. rewrite ndigits_val_neg.
      pose proof (digits_val_ge ds Hds (- acc * 10 + (Z.of_N d - 48))%Z ltac:(lia)). lia. }
    replace ((acc * 10 - (Z.of_N d - 48) <? lo) || (hi <? acc * 10 - (Z.of_N d - 48)))%Z with false
      by (symmetry; apply orb_false_iff; split; [apply Z.ltb_ge|apply Z.ltb_ge]; lia).
    apply IH; [lia|exact Hlo|right; reflexivity].
Qed.

Lemma digit_not_sign d : is_digit d = true -> (d =? 43) = false /\ (d =? 45) = false.
Proof. unfold is_digit. intros H. apply andb_true_iff in H. destruct H as [H1 _]. apply N.leb_le in H1. split; apply N.eqb_neq; lia. Qed.

Lemma pi32_roundtrip i rest : (-2147483648 <= i <= 2147483647)%Z -> no_digit_next rest -> pi32 (dec_Z i ++ rest) = POk rest i.
Proof.
  intros Hi Hr. unfold pi32, pint, dec_Z.
  destruct (i <? 0)%Z eqn:E; [apply Z.ltb_lt in E|apply Z.ltb_ge in E].
  - cbn [app]. change (45 =? 43) with false. change (45 =? 45) with true. cbv iota.
    assert (Hn : Z.to_N (- i) < two64) by (unfold two64; lia).
    destruct (dec_digits_spec _ Hn) as (Hd & Hv & _ & Hp).
    rewrite (int_digits_neg (-2147483648) 2147483647 _ rest Hd Hr ltac:(lia) 0%Z false ltac:(lia)).
    + f_equal. change 0%Z with (- 0)%Z at 1. rewrite ndigits_val_neg, Hv. lia.
    + change 0%Z with (- 0)%Z. rewrite ndigits_val_neg, Hv. lia.
    + left. destruct Hp as (d & r & -> & _); [lia|discriminate].
  - assert (Hn : Z.to_N i < two64) by (unfold two64; lia).
    destruct (dec_digits_spec _ Hn) as (Hd & Hv & _ & _).
    destruct (dec_digits_cons _ Hn) as (d & r & Ed & Hdd). destruct (digit_not_sign d Hdd) as [S1 S2].
    rewrite Ed in *. cbn [app]. rewrite S1, S2.
    change (d :: r ++ rest) with ((d :: r) ++ rest).
    rewrite (int_digits_pos (-2147483648) 2147483647 _ rest Hd Hr ltac:(lia) 0%Z false ltac:(lia)).
    + f_equal. rewrite Hv. lia.
    + rewrite Hv. lia.
    + left. discriminate.
Qed.

(* ---------------------------------------------------------------- names *)
Definition plain_byte (stopf : N -> bool) (b : N) : Prop := stopf b = false /\ b <> 92.

Lemma scan_name_plain stopf s : Forall (plain_byte stopf) s -> forall fuel acc esc c rest, (length s < fuel)%nat ->
  stopf c = true -> c <> 92 ->
  scan_name fuel stopf (s ++ c :: rest) acc esc = Some (rev acc ++ s, esc, c :: rest, true).
Proof.
  induction 1 as [|b s [Hb1 Hb2] _ IH]; intros fuel acc esc c rest Hf Hc H92; (destruct fuel as [|fuel]; [cbn [length] in Hf; lia|]); cbn [app scan_name].
  - apply N.eqb_neq in H92. rewrite H92, Hc, app_nil_r. reflexivity.
  - apply N.eqb_neq in Hb2. rewrite Hb2, Hb1. rewrite IH by (cbn [length] in Hf; lia || assumption). cbn [rev]. rewrite <- app_assoc. reflexivity.
Qed.

Definition safe_quoted (s : list N) : Prop := Forall (plain_byte (fun c => c =? 34)) s /\ utf8_valid s = true.
Definition safe_name (s : list N) : Prop :=
  s <> [] /\ Forall (plain_byte is_delim) s /\ utf8_valid s = true /\ (match s with c :: _ => is_digit c = false | [] => True end).

Lemma pstring_roundtrip s rest : safe_quoted s -> pstring (34 :: s ++ 34 :: rest) = POk rest s.
Proof.
  intros [Hs Hu]. unfold pstring.
  rewrite (scan_name_plain _ s Hs) by (try (rewrite app_length; cbn [length]; lia); reflexivity || discriminate).
  cbn [rev app negb tl]. rewrite Hu. reflexivity.
Qed.
Lemma raw_string_roundtrip s c rest : safe_name s -> is_delim c = true -> c <> 92 -> raw_string (s ++ c :: rest) = POk (c :: rest) s.
Proof.
  intros (Hne & Hs & Hu & _) Hc H92. unfold raw_string.
  rewrite (scan_name_plain _ s Hs) by (try (rewrite app_length; cbn [length]; lia); assumption).
  cbn [rev app]. destruct s as [|b s]; [contradiction Hne; reflexivity|]. rewrite Hu. reflexivity.
Qed.

(* ---------------------------------------------------------------- one element *)
Definition safe_kp (k : keypath) : Prop :=
  match k with
  | KIndex i => (-2147483648 <= i <= 2147483647)%Z
  | KName s => safe_name s
  | KQuoted s => safe_quoted s
  end.

Lemma name_head s : safe_name s -> exists b r, s = b :: r /\ is_digit b = false /\ is_delim b = false /\ b <> 92 /\ is_space b = false.
Proof.
  intros (Hne & Hs & _ & Hd). destruct s as [|b r]; [contradiction Hne; reflexivity|]. exists b, r. split; [reflexivity|].
  inversion Hs as [|? ? [H1 H2] _]. subst. split; [exact Hd|]. split; [exact H1|]. split; [exact H2|].
  unfold is_space. unfold is_delim in H1.
  assert (forall x, In x RAW_STRING_DELIMS -> (b =? x) = false).
  { intros x Hx. destruct (b =? x) eqn:E; [|reflexivity]. apply N.eqb_eq in E. subst x.
    assert (existsb (N.eqb b) RAW_STRING_DELIMS = true) by (apply existsb_exists; exists b; split; [exact Hx|apply N.eqb_refl]). congruence. }
  rewrite !H by (cbn; tauto). reflexivity.
Qed.

Lemma int_digits_nondigit neg lo hi b r : is_digit b = false -> int_digits neg lo hi (b :: r) 0 false = PErr.
Proof. intros H. cbn [int_digits]. rewrite H. reflexivity. Qed.

Lemma key_path_roundtrip k rest : safe_kp k -> stop rest -> key_path (show_keypath k ++ rest) = POk rest k.
Proof.
  intros Hk Hst. destruct (stop_facts rest Hst) as (Hnd & Hms & c & r & -> & Hdel & H92).
  unfold key_path. destruct k as [i|s|s]; cbn [show_keypath safe_kp] in *.
  - rewrite (pi32_roundtrip i _ Hk Hnd). reflexivity.
  - destruct (name_head s Hk) as (b & r0 & -> & Hd & Hdl & Hb92 & _).
    assert (Hsign : (b =? 43) = false /\ (b =? 45) = false).
    { unfold is_delim in Hdl. split; (destruct (b =? _) eqn:E; [|reflexivity]; apply N.eqb_eq in E; subst b; vm_compute in Hdl; discriminate Hdl). }
    destruct Hsign as [S1 S2].
    cbn [app]. unfold pi32, pint. rewrite S1, S2. rewrite (int_digits_nondigit _ _ _ b _ Hd). cbn [pmap pbind palt].
    assert (Q : pstring (b :: r0 ++ c :: r) = PErr).
    { unfold pstring. destruct (b =? 34) eqn:E; [apply N.eqb_eq in E; subst b; vm_compute in Hdl; discriminate Hdl|].
      destruct b as [|p]; [reflexivity|]. do 7 (try (destruct p as [p|p|]; try reflexivity)); discriminate E. }
    rewrite Q. cbn [pmap pbind palt]. rewrite Hd.
    change (b :: r0 ++ c :: r) with ((b :: r0) ++ c :: r). rewrite (raw_string_roundtrip _ c r Hk Hdel H92). reflexivity.
  - cbn [app]. unfold pi32, pint. change (34 =? 43) with false. change (34 =? 45) with false. cbv iota.
    rewrite (int_digits_nondigit _ _ _ 34 _ eq_refl). cbn [pmap pbind palt].
    rewrite <- app_assoc. cbn [app]. rewrite (pstring_roundtrip s (c :: r) Hk). reflexivity.
Qed.

(* ---------------------------------------------------------------- the list *)
Lemma show_head k : safe_kp k -> exists b r, show_keypath k = b :: r /\ is_space b = false.
Proof.
  intros Hk. destruct k as [i|s|s]; cbn [show_keypath safe_kp] in *.
  - unfold dec_Z. destruct (i <? 0)%Z; [eexists; eexists; split; reflexivity|].
    assert (Hn : Z.to_N i < two64) by (unfold two64; lia).
    destruct (dec_digits_cons _ Hn) as (d & r & -> & Hdd). exists d, r. split; [reflexivity|].
    unfold is_digit in Hdd. apply andb_true_iff in Hdd. destruct Hdd as [H1 H2]. apply N.leb_le in H1.
    unfold is_space. repeat (apply orb_false_iff; split); apply N.eqb_neq; lia.
  - destruct (name_head s Hk) as (b & r & -> & _ & _ & _ & Hsp). exists b, r. split; [reflexivity|exact Hsp].
  - eexists; eexists; split; reflexivity.
Qed.

Lemma ws_key_path k rest : safe_kp k -> stop rest -> ws_around key_path (show_keypath k ++ rest) = POk rest k.
Proof.
  intros Hk Hst. unfold ws_around. destruct (show_head k Hk) as (b & r & E & Hsp).
  assert (M : multispace0 (show_keypath k ++ rest) = show_keypath k ++ rest) by (rewrite E; cbn [app multispace0]; rewrite Hsp; reflexivity).
  rewrite M, (key_path_roundtrip k rest Hk Hst). cbn [pbind]. destruct (stop_facts rest Hst) as (_ & -> & _). reflexivity.
Qed.

Lemma join_cons2 sep x y r : join sep (x :: y :: r) = x ++ sep ++ join sep (y :: r).
Proof. reflexivity. Qed.

Lemma length_neq_succ {A} (r : list A) c : (length r =? length (c :: r))%nat = false.
Proof. apply Nat.eqb_neq. cbn [length]. lia. Qed.

(* the loop of separated_list1 over the remaining ",element" pairs *)
Lemma sep_loop_roundtrip tail : stop (125 :: tail) -> forall todo acc fuel, (length todo < fuel)%nat -> Forall safe_kp todo ->
  sep_loop (ws_around key_path) (pchar 44) fuel
           (flat_map (fun k => 44 :: show_keypath k) todo ++ 125 :: tail) acc
  = POk (125 :: tail) (rev acc ++ todo).
Proof.
  intros Hst. induction todo as [|k r IH]; intros acc fuel Hf HF; (destruct fuel as [|fuel]; [cbn [length] in Hf; lia|]); cbn [flat_map app sep_loop].
  - cbn [pchar]. change (125 =? 44) with false. cbv iota. rewrite app_nil_r. reflexivity.
  - cbn [pchar]. change (44 =? 44) with true. cbv iota. rewrite length_neq_succ.
    inversion HF as [|? ? Hk HF']; subst.
    rewrite <- app_assoc.
    assert (Hs : stop (flat_map (fun k0 => 44 :: show_keypath k0) r ++ 125 :: tail)).
    { destruct r as [|k2 r2]; cbn [flat_map app]; eexists; eexists; (split; [reflexivity|]); [right|left]; reflexivity. }
    rewrite (ws_key_path k _ Hk Hs).
    rewrite IH by (cbn [length] in Hf; try lia; exact HF'). cbn [rev]. rewrite <- app_assoc. reflexivity.
Qed.

Lemma join_flat k r : join [44] (map show_keypath (k :: r)) = show_keypath k ++ flat_map (fun k0 => 44 :: show_keypath k0) r.
Proof.
  revert k. induction r as [|k2 r IH]; intros k; [cbn [map join flat_map]; rewrite app_nil_r; reflexivity|].
  cbn [map]. rewrite join_cons2. cbn [flat_map app]. f_equal. f_equal. apply (IH k2).
Qed.

Lemma show_len k : safe_kp k -> (1 <= length (show_keypath k))%nat.
Proof. intros Hk. destruct (show_head k Hk) as (b & r & -> & _). cbn [length]. lia. Qed.
Lemma flat_len r : Forall safe_kp r -> (length r <= length (flat_map (fun k0 => 44%N :: show_keypath k0) r))%nat.
Proof. induction 1 as [|k r Hk _ IH]; [cbn; lia|]. cbn [flat_map length]. rewrite app_length. cbn [length]. lia. Qed.

(* C16: print, then parse *)
Theorem key_paths_roundtrip ks : Forall safe_kp ks -> parse_key_paths (show_key_paths ks) = Ok ks.
Proof.
  intros HF. unfold parse_key_paths, show_key_paths. destruct ks as [|k r].
  - vm_compute. reflexivity.
  - rewrite join_flat. inversion HF as [|? ? Hk HF']; subst.
    unfold key_paths. cbn [app multispace0]. change (is_space 123) with false. cbv iota.
    cbn [pchar]. change (123 =? 123) with true. cbv iota. cbn [pbind].
    unfold separated_list1. rewrite <- app_assoc.
    assert (Hs : stop (flat_map (fun k0 => 44 :: show_keypath k0) r ++ [125])).
    { destruct r as [|k2 r2]; cbn [flat_map app]; eexists; eexists; (split; [reflexivity|]); [right|left]; reflexivity. }
    rewrite (ws_key_path k _ Hk Hs). cbn [pbind].
    rewrite (sep_loop_roundtrip [] ltac:(eexists; eexists; split; [reflexivity|right; reflexivity]) r [k]).
    + cbn [rev app pbind palt pchar]. change (125 =? 125) with true. cbv iota. cbn [pbind multispace0]. reflexivity.
    + rewrite app_length. cbn [length]. pose proof (flat_len r HF'). lia.
    + exact HF'.
Qed.

(* the hypothesis is satisfiable: { -7, name, "quoted name", 0 } *)
Example key_paths_roundtrip_example :
  Forall safe_kp [KIndex (-7); KName [110; 97; 109; 101]; KQuoted [113; 32; 110]; KIndex 0].
Proof.
  repeat constructor; cbn; try lia; try discriminate; try reflexivity.
Qed.
