(* SerdeRfc.v — C19, first sentence: "converting JSONB bytes (or the value tree) to a serde_json value gives the same
   document an independent strict parser reads from its text rendering: same structure, strings, member sets, and each
   number as the same u64, i64 or f64".

   The independent strict parser is the declarative RFC 8259 grammar `rfc_text t d` (JsonGrammar.v): the text t denotes
   the document d.  `sj_of_value d` is the serde_json value a parser holding d hands out -- serde_json's own
   classification of numbers: a non-negative integer that fits u64 is PosInt (u64), a negative one that fits i64 is
   NegInt (i64), everything else a Float (f64); arrays element by element; objects member by member in key order.  It is
   a total structural map, written without reference to `to_serde` (Serde.v), which mirrors functions.rs / from.rs.

   Theorems: the conversion of a finite document v is `sj_of_value` of the document its rendering denotes
   (RenderRfc: `rfc_text (render pf pretty 0 v) (unsign v)`), at tree level and for the byte walker on `enc v`. *)
From Coq Require Import List NArith ZArith Bool Lia.
Import ListNotations.
From JB Require Import Constants Bytes Utf8 Num Value Codec Order Render Serde SerdeProofs JsonGrammar JsonGrammarProofs
  RenderRfc DispatchProofs TreeWf RenderWalk RenderWalkProofs SerdeWalk SerdeWalkProofs.
Open Scope N_scope.
Set Default Timeout 60.

(* ---------------------------------------------------------------- the reader's side *)
Definition sj_num_of (n : num) : snum :=
  match n with
  | NUInt u => SPos u                                         (* fits u64 *)
  | NInt z => if (z <? 0)%Z then SNeg z else SPos (Z.to_N z)   (* negative: i64; non-negative: u64 *)
  | NFloat b => SFloat b                                      (* everything else: f64 *)
  end.
Fixpoint sj_of_value (v : value) : sj :=
  match v with
  | VNull => SNull
  | VBool b => SBool b
  | VStr s => SStr s
  | VNum n => SNum (sj_num_of n)
  | VArr l => SArr (map sj_of_value l)
  | VObj o => SObj (map (fun kv => (fst kv, sj_of_value (snd kv))) o)
  end.

(* the two spellings of a non-negative integer are the same serde number *)
Lemma sj_num_unsign n : sj_num_of (unsign_num n) = sj_num_of n.
Proof. destruct n as [z|u|b]; cbn [unsign_num sj_num_of]; try reflexivity. destruct (z <? 0)%Z eqn:E; cbn [sj_num_of]; [rewrite E|]; reflexivity. Qed.
Lemma sj_of_unsign v : sj_of_value (unsign v) = sj_of_value v.
Proof.
  induction v as [|b|s|n|l IH|o IH] using value_ind2; cbn [unsign sj_of_value]; try reflexivity.
  - rewrite sj_num_unsign. reflexivity.
  - f_equal. rewrite map_map. induction IH as [|x xs Hx _ IHl]; cbn [map]; [reflexivity|]. rewrite Hx, IHl. reflexivity.
  - f_equal. rewrite map_map. cbn [fst snd]. induction IH as [|[k x] xs Hx _ IHl]; cbn [map fst snd] in *; [reflexivity|]. rewrite Hx, IHl. reflexivity.
Qed.

(* ---------------------------------------------------------------- the conversion, tree level *)
Lemma finite_arr_elem l x : finite_numbers (VArr l) = true -> In x l -> finite_numbers x = true.
Proof.
  unfold finite_numbers. cbn [floats_of]. rewrite !forallb_forall. intros H Hin b Hb. apply H.
  apply in_flat_map. exists x. split; assumption.
Qed.
Lemma finite_obj_elem (o : list (list N * value)) kv : finite_numbers (VObj o) = true -> In kv o -> finite_numbers (snd kv) = true.
Proof.
  unfold finite_numbers. cbn [floats_of]. rewrite !forallb_forall. intros H Hin b Hb. apply H.
  apply in_flat_map. exists kv. split; assumption.
Qed.

(* any finite document, whatever its shape: no error, and the result is the reader's value; the failure outcome `e`
   (Err for to_serde_json, a panic for From<Value>) is never taken *)
Theorem to_serde_is_sj_of_value e v : finite_numbers v = true -> to_serde e v = Ok (sj_of_value v).
Proof.
  induction v as [|b|s|n|l IH|o IH] using value_ind2; intros Hf; try reflexivity.
  - destruct n as [z|u|b]; cbn [to_serde sj_of_value sj_num_of]; try reflexivity.
    unfold finite_numbers in Hf. cbn [floats_of forallb] in Hf. unfold finite_float in Hf.
    rewrite andb_true_r in Hf. apply andb_true_iff in Hf. destruct Hf as [Hn Hi].
    apply negb_true_iff in Hn. apply negb_true_iff in Hi.
    unfold snum_of_f64. rewrite Hn, Hi. reflexivity.
  - rewrite to_serde_arr. cbn [sj_of_value].
    assert (E : ser_list e l = Ok (map sj_of_value l)).
    { assert (Hall : forall x, In x l -> finite_numbers x = true) by (intros x Hx; apply (finite_arr_elem l x Hf Hx)).
      clear Hf. induction IH as [|x xs Hx _ IHl]; cbn [ser_list map]; [reflexivity|].
      rewrite (Hx (Hall x (or_introl eq_refl))). cbn [bind]. rewrite IHl by (intros y Hy; apply Hall; right; exact Hy). reflexivity. }
    rewrite E. reflexivity.
  - rewrite to_serde_obj. cbn [sj_of_value].
    assert (E : ser_members e o = Ok (map (fun kv => (fst kv, sj_of_value (snd kv))) o)).
    { assert (Hall : forall kv, In kv o -> finite_numbers (snd kv) = true) by (intros kv Hkv; apply (finite_obj_elem o kv Hf Hkv)).
      clear Hf. induction IH as [|[k x] xs Hx _ IHl]; cbn [ser_members map fst snd] in *; [reflexivity|].
      rewrite (Hx (Hall (k, x) (or_introl eq_refl))). cbn [bind]. rewrite IHl by (intros y Hy; apply Hall; right; exact Hy). reflexivity. }
    rewrite E. reflexivity.
Qed.

(* as the task states it: the conversion is the reader's value of the document the rendering denotes *)
Theorem to_serde_json_t_rfc v : wf_shape v = true -> finite_numbers v = true ->
  to_serde_json_t v = Ok (sj_of_value (unsign v)).
Proof. intros _ Hf. unfold to_serde_json_t. rewrite sj_of_unsign. apply to_serde_is_sj_of_value. exact Hf. Qed.

Theorem value_to_serde_rfc v : wf_shape v = true -> finite_numbers v = true ->
  value_to_serde v = Ok (sj_of_value (unsign v)).
Proof. intros _ Hf. unfold value_to_serde. rewrite sj_of_unsign. apply to_serde_is_sj_of_value. exact Hf. Qed.

(* a text denotes at most one document (the grammar is functional: it is included in the function parse_value) *)
Lemma rfc_text_functional t d d' : rfc_text t d -> rfc_text t d' -> d = d'.
Proof. intros H1 H2. apply rfc_complete in H1. apply rfc_complete in H2. congruence. Qed.

(* the value tree: the text the library renders (compact or pretty) is an RFC 8259 text of a document d, ANY reading d'
   of that text by the grammar is that d, and the serde_json conversion of v is the reader's value of d *)
Theorem serde_value_is_what_the_rendering_denotes_t pf pretty v :
  wf_shape v = true -> finite_numbers v = true -> (forall b, In b (floats_of v) -> rfc_float_text pf b) ->
  exists d, rfc_text (render pf pretty 0 v) d /\ cmp_value d v = Eq /\
            to_serde_json_t v = Ok (sj_of_value d) /\ value_to_serde v = Ok (sj_of_value d) /\
            forall d', rfc_text (render pf pretty 0 v) d' -> to_serde_json_t v = Ok (sj_of_value d').
Proof.
  intros Hw Hf Hpf. destruct (rendering_is_rfc8259 pf pretty v Hw Hf Hpf) as [R E].
  exists (unsign v). split; [exact R|]. split; [exact E|]. split; [apply to_serde_json_t_rfc; assumption|].
  split; [apply value_to_serde_rfc; assumption|].
  intros d' R'. rewrite <- (rfc_text_functional _ _ _ R R'). apply to_serde_json_t_rfc; assumption.
Qed.

(* ---------------------------------------------------------------- the byte walkers on enc v *)
Lemma finite_normalise v : finite_numbers v = true -> finite_numbers (normalise v) = true.
Proof. intros Hf. unfold finite_numbers. rewrite (floats_normalise v (finite_not_nan v Hf)). exact Hf. Qed.

Theorem to_serde_json_w_rfc v : wfb v = true -> top_ok v -> finite_numbers v = true ->
  to_serde_json_w (enc v) = Ok (sj_of_value (denoted v)).
Proof.
  intros Hw Ht Hf. rewrite (to_serde_json_w_enc_norm v Hw Ht). unfold denoted.
  apply to_serde_json_t_rfc; [apply wf_normalise; apply wfb_shape; exact Hw|apply finite_normalise; exact Hf].
Qed.

(* JSONB bytes: to_string / to_pretty_string of enc v print RFC 8259 texts tc, tp of one document d equal to v, and
   to_serde_json of the same bytes returns the reader's value of d -- for any reading d' of either text *)
Theorem serde_value_is_what_the_rendering_denotes pf v :
  wfb v = true -> top_ok v -> finite_numbers v = true -> (forall b, In b (floats_of v) -> rfc_float_text pf b) ->
  exists tc tp d,
    to_string_w' pf (enc v) = Ok tc /\ to_pretty_string_w' pf (enc v) = Ok tp /\
    rfc_text tc d /\ rfc_text tp d /\ cmp_value d v = Eq /\
    to_serde_json_w (enc v) = Ok (sj_of_value d) /\
    (forall d', rfc_text tc d' \/ rfc_text tp d' -> to_serde_json_w (enc v) = Ok (sj_of_value d')).
Proof.
  intros Hw Ht Hf Hpf. destruct (renderings_rfc pf v Hw Ht Hf Hpf) as (tc & tp & E1 & E2 & R1 & R2 & Eq & _ & _).
  exists tc, tp, (denoted v). repeat split; try assumption; [apply to_serde_json_w_rfc; assumption|].
  intros d' [R'|R']; [rewrite <- (rfc_text_functional _ _ _ R1 R')|rewrite <- (rfc_text_functional _ _ _ R2 R')];
    apply to_serde_json_w_rfc; assumption.
Qed.

(* ---------------------------------------------------------------- L5: the number classification, stated by VALUE *)
(* sj_num_of above is written out from the property text ("each number as the same u64, i64 or f64") and happens to be the
   same case analysis as Serde.snum_of_i64 on signed integers.  Independently of both: a number that is an integer (either
   integer variant, int_of_num) is PosInt of that integer when it is non-negative -- whichever variant held it -- and NegInt of
   it when negative; a float is that float.  This specification has exactly one solution, sj_num_of. *)
Definition int_of_num (n : num) : option Z :=
  match n with NInt z => Some z | NUInt u => Some (Z.of_N u) | NFloat _ => None end.
Definition same_number (n : num) (s : snum) : Prop :=
  match s with
  | SPos u => int_of_num n = Some (Z.of_N u)
  | SNeg z => int_of_num n = Some z /\ (z < 0)%Z
  | SFloat b => n = NFloat b
  end.
Theorem sj_num_of_same_number n : same_number n (sj_num_of n).
Proof.
  destruct n as [z|u|b]; cbn [sj_num_of same_number int_of_num]; try reflexivity.
  destruct (z <? 0)%Z eqn:E; cbn [same_number int_of_num].
  - split; [reflexivity|apply Z.ltb_lt; exact E].
  - apply Z.ltb_ge in E. rewrite Z2N.id by exact E. reflexivity.
Qed.
Theorem same_number_unique n s : same_number n s -> s = sj_num_of n.
Proof.
  destruct s as [u|z|b]; cbn [same_number]; destruct n as [z'|u'|b']; cbn [int_of_num sj_num_of]; try discriminate.
  - intros H. injection H as ->. replace (Z.of_N u <? 0)%Z with false by (symmetry; apply Z.ltb_ge; apply N2Z.is_nonneg).
    rewrite N2Z.id. reflexivity.
  - intros H. injection H as H. apply N2Z.inj in H. subst. reflexivity.
  - intros [H L]. injection H as ->. apply Z.ltb_lt in L. rewrite L. reflexivity.
  - intros [H L]. injection H as <-. pose proof (N2Z.is_nonneg u'). exfalso. apply (Z.lt_irrefl 0). apply (Z.le_lt_trans _ _ _ H L).
  - intros [H _]. discriminate H.
  - intros H. injection H as ->. reflexivity.
Qed.
