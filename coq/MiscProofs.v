(* MiscProofs.v — smaller facts used by several property files: escape table, value equality, containment on
   scalars, set functions over an abstract equivalence, comparable-key refutations, dispatch totality. *)
From Coq Require Import List NArith ZArith Bool Lia Permutation.
Import ListNotations.
From JB Require Import Constants Bytes Utf8 Num NumProofs Value Codec Decimal JsonText TextProofs DecodeProofs Order OrderProofs
  TreeOps Contain SetOps CmpKey Render Serde Path PathSem Dispatch.
Open Scope N_scope.
Set Default Timeout 120.

(* ---- rendering: the escape table (C03) ---- *)
Lemma control_characters_escaped :
  forall b, In b (map N.of_nat (seq 0 32)) -> hd 0 (escape_byte b) = 92 /\ (1 < length (escape_byte b))%nat.
Proof.
  assert (H : forallb (fun b => (hd 0 (escape_byte b) =? 92) && (1 <? length (escape_byte b))%nat) (map N.of_nat (seq 0 32)) = true)
    by (vm_compute; reflexivity).
  intros b Hb. rewrite forallb_forall in H. specialize (H b Hb). apply andb_true_iff in H. destruct H as [H1 H2].
  split; [apply N.eqb_eq; exact H1 | apply Nat.ltb_lt; exact H2].
Qed.
Lemma quote_backslash_escaped : escape_byte 34 = [92; 34] /\ escape_byte 92 = [92; 92].
Proof. split; vm_compute; reflexivity. Qed.
(* bytes that need no escape are copied *)
Lemma other_bytes_copied :
  forall b, In b (map N.of_nat (seq 32 224)) -> b <> 34 -> b <> 92 -> escape_byte b = [b].
Proof.
  assert (H : forallb (fun b => (b =? 34) || (b =? 92) || match escape_byte b with [c] => c =? b | _ => false end)
                      (map N.of_nat (seq 32 224)) = true) by (vm_compute; reflexivity).
  intros b Hb N1 N2. rewrite forallb_forall in H. specialize (H b Hb).
  apply N.eqb_neq in N1, N2. rewrite N1, N2 in H. cbn [orb] in H.
  destruct (escape_byte b) as [|c [|? ?]]; try discriminate. apply N.eqb_eq in H. subst. reflexivity.
Qed.

(* ---- value equality is reflexive; scalar containment is compare-equality (C12) ---- *)
Lemma value_eqb_refl v : value_eqb v v = true.
Proof. apply cmp_value_eq_iff. apply cmp_value_refl. Qed.
Lemma contains_scalars a b : is_scalar a = true -> is_scalar b = true ->
  (contains_t a b = true <-> cmp_value a b = Eq).
Proof.
  intros Sa Sb. rewrite cmp_value_eq_iff. unfold contains_t.
  destruct a as [|[]| | | |], b as [|[]| | | |]; try discriminate Sa; try discriminate Sb; cbn; split; intros H; try exact H; try discriminate.
Qed.
(* a top-level array contains a bare scalar equal to one of its elements *)
Lemma contains_array_scalar l b : is_scalar b = true ->
  contains_t (VArr l) b = existsb (fun x => value_eqb x b) l.
Proof. intros Sb. unfold contains_t. destruct b; try discriminate Sb; reflexivity. Qed.

(* ---- set functions over an arbitrary decidable equivalence (C13) ---- *)
Section Sets.
  Context {A : Type} (eqb : A -> A -> bool).
  Hypothesis eqb_refl : forall x, eqb x x = true.
  Hypothesis eqb_sym : forall x y, eqb x y = eqb y x.
  Hypothesis eqb_trans : forall x y z, eqb x y = true -> eqb y z = true -> eqb x z = true.

  Fixpoint g_take_one (x : A) (m : list A) : option (list A) :=
    match m with
    | [] => None
    | y :: r => if eqb x y then Some r else match g_take_one x r with Some r' => Some (y :: r') | None => None end
    end.
  Fixpoint g_inter (l m : list A) : list A :=
    match l with [] => [] | x :: r => match g_take_one x m with Some m' => x :: g_inter r m' | None => g_inter r m end end.
  Fixpoint g_except (l m : list A) : list A :=
    match l with [] => [] | x :: r => match g_take_one x m with Some m' => g_except r m' | None => x :: g_except r m end end.
  Fixpoint g_distinct (seen l : list A) : list A :=
    match l with [] => [] | x :: r => if existsb (eqb x) seen then g_distinct seen r else x :: g_distinct (x :: seen) r end.

  (* intersection and except partition the first list *)
  Lemma inter_except_partition l : forall m, Permutation (g_inter l m ++ g_except l m) l.
  Proof.
    induction l as [|x r IH]; intros m; cbn [g_inter g_except]; [constructor|].
    destruct (g_take_one x m) as [m'|].
    - cbn [app]. constructor. apply IH.
    - apply Permutation_sym. apply Permutation_cons_app. apply Permutation_sym. apply IH.
  Qed.
  Lemma take_one_some_iff x m : (exists m', g_take_one x m = Some m') <-> existsb (eqb x) m = true.
  Proof.
    induction m as [|y r IH]; cbn [g_take_one existsb].
    - split; [intros [m' H]; discriminate|discriminate].
    - destruct (eqb x y); cbn [orb].
      + split; [reflexivity|eauto].
      + rewrite <- IH. split; intros [m' H].
        * destruct (g_take_one x r); [eauto|discriminate].
        * rewrite H. eauto.
  Qed.
  (* overlap is true exactly when the intersection is non-empty *)
  Lemma overlap_iff_inter l : forall m,
    existsb (fun x => existsb (eqb x) m) l = negb (match g_inter l m with [] => true | _ => false end).
  Proof.
    induction l as [|x r IH]; intros m; cbn [existsb g_inter]; [reflexivity|].
    destruct (g_take_one x m) as [m'|] eqn:E.
    - assert (existsb (eqb x) m = true) as -> by (apply take_one_some_iff; eauto). reflexivity.
    - assert (existsb (eqb x) m = false) as ->.
      { destruct (existsb (eqb x) m) eqn:E2; [|reflexivity]. apply take_one_some_iff in E2. destruct E2 as [m' E2]. congruence. }
      cbn [orb]. apply IH.
  Qed.
  (* the result of distinct has no two equivalent elements and none equivalent to a seen one *)
  Lemma distinct_fresh seen l x : existsb (eqb x) seen = true -> existsb (eqb x) (g_distinct seen l) = false.
  Proof.
    revert seen. induction l as [|y r IH]; intros seen Hs; cbn [g_distinct existsb]; [reflexivity|].
    destruct (existsb (eqb y) seen) eqn:Ey.
    - apply IH. exact Hs.
    - cbn [existsb]. destruct (eqb x y) eqn:Exy.
      + exfalso. assert (existsb (eqb y) seen = true); [|congruence].
        apply existsb_exists in Hs. destruct Hs as (s & Hin & Hxs). apply existsb_exists. exists s. split; [exact Hin|].
        apply (eqb_trans y x s); [rewrite eqb_sym; exact Exy|exact Hxs].
      + cbn [orb]. apply IH. cbn [existsb]. rewrite Hs. apply orb_true_r.
  Qed.
  (* running distinct on its own output changes nothing, whatever is already marked as seen, provided the
     seen elements are exactly the ones the first run had seen *)
  Lemma distinct_idem_gen l : forall seen, g_distinct seen (g_distinct seen l) = g_distinct seen l.
  Proof.
    induction l as [|x r IH]; intros seen; cbn [g_distinct]; [reflexivity|].
    destruct (existsb (eqb x) seen) eqn:E; [apply IH|].
    cbn [g_distinct]. rewrite E. f_equal. apply IH.
  Qed.
  Lemma distinct_idem l : g_distinct [] (g_distinct [] l) = g_distinct [] l.
  Proof. apply distinct_idem_gen. Qed.
  (* distinct keeps the first occurrence of each element: every element of the input is represented *)
  Lemma distinct_covers seen l x : In x l -> existsb (eqb x) seen = true \/ existsb (eqb x) (g_distinct seen l) = true.
  Proof.
    revert seen. induction l as [|y r IH]; intros seen Hin; [destruct Hin|].
    cbn [g_distinct]. destruct Hin as [->|Hin].
    - destruct (existsb (eqb x) seen) eqn:E; [left; reflexivity|right]. cbn [existsb]. rewrite eqb_refl. reflexivity.
    - destruct (existsb (eqb y) seen) eqn:E.
      + apply IH. exact Hin.
      + destruct (IH (y :: seen) Hin) as [H|H].
        * cbn [existsb] in H. apply orb_true_iff in H. destruct H as [H|H]; [|left; exact H].
          right. cbn [existsb]. rewrite H. reflexivity.
        * right. cbn [existsb]. rewrite H. apply orb_true_r.
  Qed.
End Sets.

(* the model's functions are the generic ones at item_eqb *)
Lemma take_one_generic x m : take_one x m = g_take_one item_eqb x m.
Proof. induction m as [|y r IH]; cbn; [reflexivity|]. rewrite IH. reflexivity. Qed.
Lemma inter_generic l : forall m, inter_acc l m = g_inter item_eqb l m.
Proof. induction l as [|x r IH]; intros m; cbn; [reflexivity|]. rewrite take_one_generic. destruct (g_take_one item_eqb x m); rewrite IH; reflexivity. Qed.
Lemma except_generic l : forall m, except_acc l m = g_except item_eqb l m.
Proof. induction l as [|x r IH]; intros m; cbn; [reflexivity|]. rewrite take_one_generic. destruct (g_take_one item_eqb x m); rewrite IH; reflexivity. Qed.
Lemma distinct_generic l : forall seen, distinct_acc seen l = g_distinct item_eqb seen l.
Proof. induction l as [|x r IH]; intros seen; cbn; [reflexivity|]. destruct (existsb (item_eqb x) seen); rewrite IH; reflexivity. Qed.

Lemma item_eqb_spec a b : item_eqb a b = true <-> enc_item a = enc_item b.
Proof.
  unfold item_eqb. rewrite andb_true_iff, N.eqb_eq. unfold bytes_eqb.
  destruct (bytes_cmp (snd (enc_item a)) (snd (enc_item b))) eqn:E.
  - apply bytes_cmp_eq in E. split; [intros [H _]|intros H; rewrite H; auto].
    destruct (enc_item a), (enc_item b); cbn in *; subst; reflexivity.
  - split; [intros [_ H]; discriminate|]. intros H. rewrite H in E. rewrite bytes_refl in E. discriminate.
  - split; [intros [_ H]; discriminate|]. intros H. rewrite H in E. rewrite bytes_refl in E. discriminate.
Qed.
Lemma item_eqb_refl x : item_eqb x x = true. Proof. apply item_eqb_spec. reflexivity. Qed.
Lemma item_eqb_sym x y : item_eqb x y = item_eqb y x.
Proof.
  destruct (item_eqb x y) eqn:E1, (item_eqb y x) eqn:E2; try reflexivity.
  - apply item_eqb_spec in E1. symmetry in E1. apply item_eqb_spec in E1. congruence.
  - apply item_eqb_spec in E2. symmetry in E2. apply item_eqb_spec in E2. congruence.
Qed.
Lemma item_eqb_trans x y z : item_eqb x y = true -> item_eqb y z = true -> item_eqb x z = true.
Proof. rewrite !item_eqb_spec. congruence. Qed.

Theorem set_partition a b :
  Permutation (items_of (array_intersection_t a b) ++ items_of (array_except_t a b)) (items_of a).
Proof. cbn [array_intersection_t array_except_t items_of]. rewrite inter_generic, except_generic. apply inter_except_partition. Qed.
Theorem set_overlap_iff a b :
  array_overlap_t a b = negb (match items_of (array_intersection_t a b) with [] => true | _ => false end).
Proof. cbn [array_intersection_t items_of]. unfold array_overlap_t. rewrite inter_generic. apply overlap_iff_inter. Qed.
Theorem set_distinct_idem v : array_distinct_t (array_distinct_t v) = array_distinct_t v.
Proof. unfold array_distinct_t. cbn [items_of]. rewrite !distinct_generic. f_equal. apply distinct_idem. Qed.
Theorem set_distinct_covers v x : In x (items_of v) -> existsb (item_eqb x) (items_of (array_distinct_t v)) = true.
Proof.
  intros H. cbn [array_distinct_t items_of]. rewrite distinct_generic.
  destruct (distinct_covers item_eqb item_eqb_refl [] (items_of v) x H) as [H1|H1]; [discriminate|exact H1].
Qed.
(* ---- the comparable key is not an order embedding (C14): two independent refutations ---- *)
Lemma key_refuted_big_int :
  comparable_key (VNum (NUInt 9007199254740992)) = comparable_key (VNum (NUInt 9007199254740993)) /\
  cmp_value (VNum (NUInt 9007199254740992)) (VNum (NUInt 9007199254740993)) = Lt.
Proof. split; vm_compute; reflexivity. Qed.
Lemma key_refuted_marker_collision :
  comparable_key (VArr [VStr [97]; VStr [98]]) = comparable_key (VArr [VStr [97; 1; 4; 98]]) /\
  cmp_value (VArr [VStr [97]; VStr [98]]) (VArr [VStr [97; 1; 4; 98]]) = Lt.
Proof. split; vm_compute; reflexivity. Qed.
(* the image of a double under the key transformation is monotone in the order of doubles (sign-magnitude to
   biased): stated on the two bit-pattern half-lines *)
Lemma f64_image_monotone_nonneg a b : f_sign a = false -> f_sign b = false -> a < b -> f64_image a < f64_image b.
Proof. unfold f64_image. intros -> -> H. lia. Qed.
Lemma f64_image_monotone_neg a b : f_sign a = true -> f_sign b = true -> a < 18446744073709551616 -> b < 18446744073709551616 ->
  a < b -> f64_image b < f64_image a.
Proof. unfold f64_image. intros -> -> Ha Hb H. lia. Qed.
Lemma f64_image_neg_below_nonneg a b : f_sign a = true -> f_sign b = false -> a < 18446744073709551616 ->
  f64_image a < f64_image b.
Proof. unfold f64_image, f_sign. intros Ha Hb H. rewrite Ha, Hb. apply N.leb_le in Ha. lia. Qed.

(* ---- dispatch ---- *)
Lemma from_slice_total bs : from_slice bs <> Panic.
Proof.
  unfold from_slice. pose proof (parse_jsonb_total bs). pose proof (parse_value_total bs).
  destruct (parse_jsonb bs); try discriminate; auto.
Qed.
Lemma doc_of_total bs : doc_of bs <> Panic.
Proof. unfold doc_of. destruct (is_jsonb bs); [apply parse_jsonb_total|apply parse_value_total]. Qed.
Lemma append_enc_frame buf r :
  append_enc buf r = match r with Ok v => Ok (buf ++ enc v) | Err e => Err e | Panic => Panic end.
Proof. destruct r; reflexivity. Qed.
(* a JSON text never starts with one of the three header bytes unless it starts with a space or is not JSON *)
Lemma text_first_byte_not_jsonb c r :
  In c [110; 116; 102; 34; 91; 123; 45; 48; 49; 50; 51; 52; 53; 54; 55; 56; 57; 9; 10; 13] -> is_jsonb (c :: r) = false.
Proof.
  intros H. cbn [In] in H. repeat (destruct H as [<-|H]; [vm_compute; reflexivity|]). destruct H.
Qed.
