(* SpecFloatLink.v — the integer -> double cast of the model (Num.round_ne) against the executable IEEE-754 specification of
   the Coq standard library (Coq.Floats.SpecFloat: the functions Flocq's BinarySingleNaN is built from, and the specification
   of Coq's primitive floats).  No real numbers, no Flocq: every theorem here is closed under the global context. *)
From Coq Require Import ZArith NArith Bool Lia ZifyBool.
From Coq Require Import Floats.SpecFloat.
From JB Require Import Num.
Set Default Timeout 60.
Ltac Zify.zify_post_hook ::= Z.div_mod_to_equations.
Open Scope Z_scope.

(* ---------- one-bit right shifts with round and sticky bits ---------- *)
Lemma shr_1_spec m r s :
  0 <= m -> shr_1 (Build_shr_record m r s) = Build_shr_record (m / 2) (Z.odd m) (r || s).
Proof.
  intros Hm. destruct m as [|[p|p|]|p]; try lia; cbn [shr_1].
  - reflexivity.
  - f_equal. rewrite Pos2Z.inj_xI. lia.
  - f_equal. rewrite Pos2Z.inj_xO. lia.
  - reflexivity.
Qed.

Lemma iter_pos_nat {A} (f : A -> A) p : forall x, iter_pos f p x = Nat.iter (Pos.to_nat p) f x.
Proof.
  assert (Hadd : forall a b (x : A), Nat.iter (a + b) f x = Nat.iter a f (Nat.iter b f x)).
  { induction a as [|a IH]; intros b x; [reflexivity|]. cbn [Nat.iter Nat.add nat_rect]. f_equal. apply IH. }
  assert (Hr : forall n (x : A), Nat.iter n f (f x) = f (Nat.iter n f x)).
  { induction n as [|n IH]; intros x; [reflexivity|]. cbn [Nat.iter nat_rect]. f_equal. apply IH. }
  induction p as [p IH|p IH|]; intros x; cbn [iter_pos].
  - rewrite !IH, Pos2Nat.inj_xI. rewrite <- Hadd. replace (S (2 * Pos.to_nat p))%nat with (S (Pos.to_nat p + Pos.to_nat p)) by lia.
    cbn [Nat.iter nat_rect]. fold (Nat.iter (Pos.to_nat p + Pos.to_nat p) f x). rewrite <- Hr. reflexivity.
  - rewrite !IH, Pos2Nat.inj_xO. rewrite <- Hadd. f_equal. lia.
  - reflexivity.
Qed.

(* after n >= 1 shifts of (m, 0, 0): quotient, the bit just shifted out, and whether anything below it was set *)
Lemma shr_iter_spec m n :
  0 <= m ->
  Nat.iter (S n) shr_1 (Build_shr_record m false false) =
  Build_shr_record (m / 2 ^ Z.of_nat (S n)) (Z.odd (m / 2 ^ Z.of_nat n)) (negb (m mod 2 ^ Z.of_nat n =? 0)).
Proof.
  intros Hm. induction n as [|n IH].
  - cbn [Nat.iter nat_rect]. rewrite shr_1_spec by exact Hm. change (2 ^ Z.of_nat 1) with 2. change (2 ^ Z.of_nat 0) with 1.
    rewrite Z.div_1_r, Z.mod_1_r. reflexivity.
  - change (Nat.iter (S (S n)) shr_1 ?x) with (shr_1 (Nat.iter (S n) shr_1 x)). rewrite IH.
    assert (HP : 0 < 2 ^ Z.of_nat n) by (apply Z.pow_pos_nonneg; lia).
    assert (E1 : 2 ^ Z.of_nat (S n) = 2 * 2 ^ Z.of_nat n) by (rewrite Nat2Z.inj_succ, Z.pow_succ_r by lia; reflexivity).
    assert (E2 : 2 ^ Z.of_nat (S (S n)) = 2 * 2 ^ Z.of_nat (S n)) by (rewrite (Nat2Z.inj_succ (S n)), Z.pow_succ_r by lia; reflexivity).
    rewrite shr_1_spec by (apply Z.div_pos; lia).
    f_equal.
    + rewrite E2, Z.div_div by lia. f_equal. lia.
    + rewrite E1. set (P := 2 ^ Z.of_nat n) in *. clearbody P.
      pose proof (Zmod_odd (m / P)) as Ho.
      destruct (Z.odd (m / P)); cbn [orb].
      * assert (m mod (2 * P) = P + m mod P); [|lia].
        symmetry. apply (Z.mod_unique_pos _ _ ((m / P) / 2)); [pose proof (Z.mod_pos_bound m P HP); lia|].
        pose proof (Z.div_mod m P). pose proof (Z.div_mod (m / P) 2). nia.
      * assert (m mod (2 * P) = m mod P); [|lia].
        symmetry. apply (Z.mod_unique_pos _ _ ((m / P) / 2)); [pose proof (Z.mod_pos_bound m P HP); lia|].
        pose proof (Z.div_mod m P). pose proof (Z.div_mod (m / P) 2). nia.
Qed.

Lemma digits2_size p : digits2_pos p = Pos.size p.
Proof. induction p as [p IH|p IH|]; cbn [digits2_pos Pos.size]; congruence. Qed.

Lemma Zdigits2_log2 m : 0 < m -> Zdigits2 m = Z.log2 m + 1.
Proof.
  intros Hm. destruct m as [|p|p]; try lia. cbn [Zdigits2].
  destruct p as [p|p|]; cbn [digits2_pos Z.log2]; rewrite ?digits2_size; lia.
Qed.

Lemma log2_52 m : 2 ^ 52 <= m < 2 ^ 53 -> Z.log2 m = 52.
Proof. intros H. apply Z.log2_unique; [lia|exact H]. Qed.

Notation fexp64 := (fexp 53 1024).
Lemma fexp64_eq e : fexp64 e = Z.max (e - 53) (-1074).
Proof. reflexivity. Qed.

Lemma shr_fexp_noshift m e :
  2 ^ 52 <= m < 2 ^ 53 -> -1074 <= e ->
  shr_fexp 53 1024 m e loc_Exact = (Build_shr_record m false false, e).
Proof.
  intros Hm He. unfold shr_fexp. rewrite Zdigits2_log2, log2_52, fexp64_eq by lia.
  replace (Z.max (52 + 1 + e - 53) (-1074) - e) with 0 by lia. reflexivity.
Qed.

Lemma shr_fexp_shift a sh :
  1 <= sh -> 2 ^ (52 + sh) <= a < 2 ^ (53 + sh) ->
  shr_fexp 53 1024 a 0 loc_Exact =
  (Build_shr_record (a / 2 ^ sh) (Z.odd (a / 2 ^ (sh - 1))) (negb (a mod 2 ^ (sh - 1) =? 0)), sh).
Proof.
  intros Hsh Ha. unfold shr_fexp.
  assert (Ha0 : 0 < a) by (assert (0 < 2 ^ (52 + sh)) by (apply Z.pow_pos_nonneg; lia); lia).
  rewrite Zdigits2_log2 by exact Ha0.
  rewrite (Z.log2_unique a (52 + sh)) by (try lia; replace (Z.succ (52 + sh)) with (53 + sh) by lia; exact Ha).
  rewrite fexp64_eq. replace (Z.max (52 + sh + 1 + 0 - 53) (-1074) - 0) with sh by lia.
  destruct sh as [|p|p]; try lia. cbn [shr shr_record_of_loc]. f_equal.
  rewrite iter_pos_nat.
  destruct (Pos.to_nat p) as [|n] eqn:En; [lia|].
  rewrite shr_iter_spec by lia. rewrite <- En, positive_nat_Z.
  replace (Z.of_nat n) with (Z.pos p - 1) by lia. reflexivity.
Qed.

Lemma shr_fexp_carry e :
  -1074 <= e -> shr_fexp 53 1024 (2 ^ 53) e loc_Exact = (Build_shr_record (2 ^ 52) false false, e + 1).
Proof.
  intros He. unfold shr_fexp. change (Zdigits2 (2 ^ 53)) with 54. rewrite fexp64_eq.
  replace (Z.max (54 + e - 53) (-1074) - e) with 1 by lia. reflexivity.
Qed.

(* remainder of a division by 2P from the division by P *)
Lemma mod_2P a P : 0 < P -> a mod (2 * P) = (if Z.odd (a / P) then P else 0) + a mod P.
Proof.
  intros HP. pose proof (Zmod_odd (a / P)) as Ho. pose proof (Z.mod_pos_bound a P HP).
  symmetry. apply (Z.mod_unique_pos _ _ ((a / P) / 2)).
  - destruct (Z.odd (a / P)); lia.
  - pose proof (Z.div_mod a P). pose proof (Z.div_mod (a / P) 2). destruct (Z.odd (a / P)); nia.
Qed.

(* rounding the shifted-out bits to nearest-even is the model's comparison of the remainder with one half *)
Lemma rne_loc a sh :
  0 <= a -> 1 <= sh ->
  let q := a / 2 ^ sh in let r := a mod 2 ^ sh in let half := 2 ^ (sh - 1) in
  round_nearest_even q (loc_of_shr_record (Build_shr_record q (Z.odd (a / half)) (negb (a mod half =? 0)))) =
  if (half <? r) || ((r =? half) && Z.odd q) then q + 1 else q.
Proof.
  intros Ha Hsh q r half.
  assert (HP : 0 < half) by (apply Z.pow_pos_nonneg; lia).
  assert (E : 2 ^ sh = 2 * half).
  { unfold half. replace sh with (Z.succ (sh - 1)) at 1 by lia. rewrite Z.pow_succ_r by lia. reflexivity. }
  assert (Hr : r = (if Z.odd (a / half) then half else 0) + a mod half) by (unfold r; rewrite E; apply mod_2P; exact HP).
  pose proof (Z.mod_pos_bound a half HP) as Hd.
  clearbody r q. cbn [loc_of_shr_record].
  destruct (Z.odd (a / half)); destruct (Z.eqb_spec (a mod half) 0) as [E0|E0]; cbn [negb round_nearest_even].
  - replace (half <? r) with false by lia. replace (r =? half) with true by lia. cbn [orb andb].
    rewrite <- Z.negb_odd. destruct (Z.odd q); reflexivity.
  - replace (half <? r) with true by lia. reflexivity.
  - replace (half <? r) with false by lia. replace (r =? half) with false by lia. reflexivity.
  - replace (half <? r) with false by lia. replace (r =? half) with false by lia. reflexivity.
Qed.

Lemma Zle_bool_true x y : x <= y -> Zle_bool x y = true.
Proof. intros H. apply Z.leb_le. exact H. Qed.

Lemma bra_exact s m e :
  2 ^ 52 <= m < 2 ^ 53 -> -1074 <= e <= 971 ->
  binary_round_aux 53 1024 s m e loc_Exact = S754_finite s (Z.to_pos m) e.
Proof.
  intros Hm He. unfold binary_round_aux. rewrite shr_fexp_noshift by lia.
  cbn [shr_m loc_of_shr_record round_nearest_even]. rewrite shr_fexp_noshift by lia. cbn [shr_m].
  destruct m as [|p|p]; try lia. rewrite Zle_bool_true by lia. reflexivity.
Qed.

Lemma bra_shift s a sh :
  1 <= sh <= 900 -> 2 ^ (52 + sh) <= a < 2 ^ (53 + sh) ->
  binary_round_aux 53 1024 s a 0 loc_Exact =
  let q := a / 2 ^ sh in let r := a mod 2 ^ sh in let half := 2 ^ (sh - 1) in
  let q1 := if (half <? r) || ((r =? half) && Z.odd q) then q + 1 else q in
  if q1 =? 2 ^ 53 then S754_finite s (Z.to_pos (2 ^ 52)) (sh + 1) else S754_finite s (Z.to_pos q1) sh.
Proof.
  intros Hsh Ha. unfold binary_round_aux. rewrite (shr_fexp_shift a sh) by lia. cbn [shr_m].
  assert (HS : 0 < 2 ^ sh) by (apply Z.pow_pos_nonneg; lia).
  assert (Ha0 : 0 <= a) by (assert (0 < 2 ^ (52 + sh)) by (apply Z.pow_pos_nonneg; lia); lia).
  rewrite (rne_loc a sh) by lia. cbv zeta.
  assert (Hq : 2 ^ 52 <= a / 2 ^ sh < 2 ^ 53).
  { rewrite !Z.pow_add_r in Ha by lia. split.
    - apply Z.div_le_lower_bound; lia.
    - apply Z.div_lt_upper_bound; lia. }
  set (q := a / 2 ^ sh) in *. set (c := (_ <? _) || _). clearbody q c.
  set (q1 := if c then q + 1 else q).
  assert (Hq1 : 2 ^ 52 <= q1 <= 2 ^ 53) by (unfold q1; destruct c; lia). clearbody q1.
  destruct (Z.eqb_spec q1 (2 ^ 53)) as [E|NE].
  - rewrite E, shr_fexp_carry by lia. cbn [shr_m]. rewrite Zle_bool_true by lia. reflexivity.
  - rewrite shr_fexp_noshift by lia. cbn [shr_m]. destruct q1 as [|p|p]; try lia.
    rewrite Zle_bool_true by lia. reflexivity.
Qed.

(* ---------- Num.round_ne ---------- *)
(* the (mantissa, exponent) pair inside Num.round_ne: |z| rounds to q * 2^(k' - 52), 2^52 <= q < 2^53 *)
Definition ne_qk (a : N) : N * N :=
  (let k := N.log2 a in
   if k <=? 52 then (a * 2 ^ (52 - k), k)
   else
     let sh := k - 52 in
     let q := a / 2 ^ sh in let r := a mod 2 ^ sh in let half := 2 ^ (sh - 1) in
     let q1 := if (half <? r) || ((r =? half) && N.odd q) then q + 1 else q in
     if q1 =? 2 * two52 then (two52, k + 1) else (q1, k))%N.

Lemma round_ne_qk z :
  round_ne z =
  if z =? 0 then 0%N
  else let '(q, k') := ne_qk (Z.to_N (Z.abs z)) in
       ((if (z <? 0)%Z then 9223372036854775808 else 0) + (1023 + k') * two52 + (q - two52))%N.
Proof. reflexivity. Qed.

Lemma N_log2_Z p : Z.of_N (N.log2 (N.pos p)) = Z.log2 (Z.pos p).
Proof. destruct p; reflexivity. Qed.

Lemma N_odd_Z n : N.odd n = Z.odd (Z.of_N n).
Proof. destruct n as [|[p|p|]]; reflexivity. Qed.

Theorem binary_round_model s p :
  Z.pos p < 2 ^ 64 ->
  binary_round 53 1024 s p 0 =
  let '(q, k') := ne_qk (N.pos p) in S754_finite s (Z.to_pos (Z.of_N q)) (Z.of_N k' - 52).
Proof.
  intros H64. unfold binary_round, ne_qk.
  pose proof (N_log2_Z p) as Hk. pose proof (Z.log2_spec (Z.pos p) eq_refl) as Hlog.
  pose proof (Z.log2_nonneg (Z.pos p)) as Hk0.
  change (Z.pos (digits2_pos p)) with (Zdigits2 (Z.pos p)). rewrite Zdigits2_log2 by lia.
  set (k := Z.log2 (Z.pos p)) in *. set (kN := N.log2 (N.pos p)) in *.
  assert (Hk63 : k <= 63).
  { apply Z.lt_succ_r. apply (Z.pow_lt_mono_r_iff 2); lia. }
  rewrite fexp64_eq. replace (Z.max (k + 1 + 0 - 53) (-1074)) with (k - 52) by lia.
  clearbody k kN. unfold shl_align.
  destruct (N.leb_spec kN 52) as [Hle|Hgt].
  - (* no bit is lost *)
    assert (Hp : 2 ^ (52 - k) * 2 ^ k = 2 ^ 52) by (rewrite <- Z.pow_add_r by lia; f_equal; lia).
    assert (Hp' : 2 ^ Z.succ k = 2 * 2 ^ k) by (apply Z.pow_succ_r; lia).
    assert (HP : 0 < 2 ^ (52 - k)) by (apply Z.pow_pos_nonneg; lia).
    assert (Hq : 2 ^ 52 <= 2 ^ (52 - k) * Z.pos p < 2 ^ 53).
    { change (2 ^ 53) with (2 * 2 ^ 52). rewrite <- Hp. nia. }
    assert (Hm : Z.of_N (N.pos p * 2 ^ (52 - kN)) = 2 ^ (52 - k) * Z.pos p).
    { rewrite N2Z.inj_mul, N2Z.inj_pow, N2Z.inj_sub, Hk by lia. cbn [Z.of_N]. lia. }
    rewrite Hm, Hk.
    destruct (k - 52 - 0) as [|d|d] eqn:Ed; try lia.
    + replace k with 52 in * by lia. change (2 ^ (52 - 52)) with 1 in *.
      rewrite bra_exact by lia. f_equal; lia.
    + assert (Hmz : Z.pos (shift_pos d p) = 2 ^ (52 - k) * Z.pos p).
      { rewrite shift_pos_correct, Z.pow_pos_fold. f_equal. f_equal. lia. }
      rewrite bra_exact by lia. rewrite Hmz. reflexivity.
  - (* k - 52 low bits are rounded away *)
    assert (Hsh : 1 <= k - 52 <= 11) by lia.
    destruct (k - 52 - 0) as [|d|d] eqn:Ed; try lia.
    rewrite (bra_shift s (Z.pos p) (k - 52)) by
      (try lia; replace (52 + (k - 52)) with k by lia; replace (53 + (k - 52)) with (Z.succ k) by lia; exact Hlog).
    cbv zeta.
    assert (HshN : Z.of_N (kN - 52) = k - 52) by lia.
    assert (E1 : Z.of_N (2 ^ (kN - 52)) = 2 ^ (k - 52)) by (rewrite N2Z.inj_pow, HshN; reflexivity).
    assert (E2 : Z.of_N (2 ^ (kN - 52 - 1)) = 2 ^ (k - 52 - 1)).
    { rewrite N2Z.inj_pow, N2Z.inj_sub, HshN by lia. reflexivity. }
    assert (E3 : Z.of_N (N.pos p / 2 ^ (kN - 52)) = Z.pos p / 2 ^ (k - 52)) by (rewrite N2Z.inj_div, E1; reflexivity).
    assert (E4 : Z.of_N (N.pos p mod 2 ^ (kN - 52)) = Z.pos p mod 2 ^ (k - 52)) by (rewrite N2Z.inj_mod, E1; reflexivity).
    rewrite N_odd_Z, E3.
    set (qN := (N.pos p / 2 ^ (kN - 52))%N) in *. set (rN := (N.pos p mod 2 ^ (kN - 52))%N) in *.
    set (hN := (2 ^ (kN - 52 - 1))%N) in *.
    set (q := Z.pos p / 2 ^ (k - 52)) in *. set (r := Z.pos p mod 2 ^ (k - 52)) in *. set (h := 2 ^ (k - 52 - 1)) in *.
    clearbody qN rN hN q r h.
    replace (hN <? rN)%N with (h <? r) by lia. replace (rN =? hN)%N with (r =? h) by lia.
    destruct ((h <? r) || (r =? h) && Z.odd q).
    + replace (qN + 1 =? 2 * two52)%N with (q + 1 =? 2 ^ 53) by (unfold two52; change (2 ^ 53) with 9007199254740992; lia).
      destruct (q + 1 =? 2 ^ 53).
      * f_equal. lia.
      * f_equal; lia.
    + replace (qN =? 2 * two52)%N with (q =? 2 ^ 53) by (unfold two52; change (2 ^ 53) with 9007199254740992; lia).
      destruct (q =? 2 ^ 53).
      * f_equal. lia.
      * f_equal; lia.
Qed.

Lemma ne_qk_bounds a :
  (0 < a < 2 ^ 64)%N ->
  (two52 <= fst (ne_qk a) < 2 * two52 /\ snd (ne_qk a) <= 64)%N.
Proof.
  intros [Ha0 Ha64]. unfold ne_qk.
  pose proof (N.log2_spec a Ha0) as Hk. set (kN := N.log2 a) in *. rewrite <- N.add_1_r in Hk.
  assert (Hk63 : (kN <= 63)%N).
  { apply N.lt_succ_r. rewrite <- N.add_1_r. apply (N.pow_lt_mono_r_iff 2); [lia|].
    change (63 + 1)%N with 64%N. lia. }
  clearbody kN. rewrite N.pow_add_r in Hk. change (2 ^ 1)%N with 2%N in Hk.
  destruct (N.leb_spec kN 52) as [Hle|Hgt]; cbn [fst snd].
  - assert (Hp : (2 ^ kN * 2 ^ (52 - kN) = two52)%N).
    { rewrite <- N.pow_add_r. replace (kN + (52 - kN))%N with 52%N by lia. reflexivity. }
    split; [|lia]. rewrite <- Hp. nia.
  - assert (Hp : (2 ^ kN = two52 * 2 ^ (kN - 52))%N).
    { change two52 with (2 ^ 52)%N. rewrite <- N.pow_add_r. f_equal. lia. }
    assert (Hd0 : (2 ^ (kN - 52) <> 0)%N) by (apply N.pow_nonzero; lia).
    set (dN := (2 ^ (kN - 52))%N) in *. clearbody dN.
    pose proof (N.div_mod' a dN) as Hdm. pose proof (N.mod_lt a dN Hd0) as Hr.
    set (q := (a / dN)%N) in *. set (r := (a mod dN)%N) in *. clearbody q r.
    rewrite Hp in Hk.
    assert (Hq : (two52 <= q < 2 * two52)%N) by (unfold two52 in *; nia).
    destruct (_ || _).
    + destruct (N.eqb_spec (q + 1) (2 * two52)); cbn [fst snd]; unfold two52 in *; lia.
    + destruct (N.eqb_spec q (2 * two52)); cbn [fst snd]; unfold two52 in *; lia.
Qed.

(* Flocq's bits_of_binary_float 52 11, read on a spec_float (the only NaN of spec_float as the canonical quiet NaN) *)
Definition bits_of_SF64 (x : spec_float) : Z :=
  let join (s : bool) (m e : Z) := ((if s then 2 ^ 11 else 0) + e) * 2 ^ 52 + m in
  match x with
  | S754_zero s => join s 0 0
  | S754_infinity s => join s 0 2047
  | S754_nan => join false (2 ^ 51) 2047
  | S754_finite s m e =>
      let mm := Z.pos m - 2 ^ 52 in
      if 0 <=? mm then join s mm (e + 1075) else join s (Z.pos m) 0
  end.

(* Statement 1 without axioms: the cast is SpecFloat.binary_normalize, the standard library's executable round-to-nearest-even *)
Theorem round_ne_is_specfloat z :
  - 2 ^ 63 <= z < 2 ^ 64 ->
  bits_of_SF64 (SpecFloat.binary_normalize 53 1024 z 0 false) = Z.of_N (round_ne z).
Proof.
  intros Hz. rewrite round_ne_qk.
  assert (H : forall s p, Z.pos p < 2 ^ 64 \/ (s = true /\ Z.pos p <= 2 ^ 63) ->
              bits_of_SF64 (binary_round 53 1024 s p 0) =
              Z.of_N (let '(q, k') := ne_qk (N.pos p) in
                      ((if s then 9223372036854775808 else 0) + (1023 + k') * two52 + (q - two52))%N)).
  { intros s p Hp. rewrite binary_round_model by (change (2 ^ 63) with 9223372036854775808 in Hp; change (2 ^ 64) with 18446744073709551616 in *; lia).
    assert (Hb : (0 < N.pos p < 2 ^ 64)%N).
    { change (2 ^ 64)%N with 18446744073709551616%N. change (2 ^ 63) with 9223372036854775808 in Hp.
      change (2 ^ 64) with 18446744073709551616 in Hp. lia. }
    pose proof (ne_qk_bounds (N.pos p) Hb) as [B1 B2].
    destruct (ne_qk (N.pos p)) as [q k']. cbn [fst snd] in B1, B2.
    unfold bits_of_SF64, two52 in *. change (2 ^ 52) with 4503599627370496. change (2 ^ 11) with 2048.
    rewrite Z2Pos.id by lia.
    replace (0 <=? Z.of_N q - 4503599627370496) with true by lia.
    destruct s; lia. }
  destruct z as [|p|p].
  - reflexivity.
  - cbn [binary_normalize Z.eqb Z.ltb Z.compare Z.abs Z.to_N]. apply H. lia.
  - cbn [binary_normalize Z.eqb Z.ltb Z.compare Z.abs Z.to_N]. apply H. right. split; [reflexivity|lia].
Qed.

Example round_ne_specfloat_examples :
  SpecFloat.binary_normalize 53 1024 (2 ^ 53 + 1) 0 false = S754_finite false 4503599627370496 1 /\
  SpecFloat.binary_normalize 53 1024 (2 ^ 53 + 3) 0 false = S754_finite false 4503599627370498 1 /\
  round_ne (2 ^ 53 + 1) = 4845873199050653696%N /\ round_ne (2 ^ 53 + 3) = 4845873199050653698%N.
Proof. vm_compute. repeat split. Qed.
