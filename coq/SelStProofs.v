(* SelStProofs.v — what a selection leaves in the caller's `data` / `offsets` vectors (C17), for the state functions of SelSt.v.
   On ANY root bytes, any path, any mode, any vectors:
     - the result writers (build_values, build_scalar_array, build_predicate_result) never return Err: their exits are Ok and the
       panic of an index expression;
     - so an Err of select / get_by_path* is an Err of find_positions, which runs before anything is written: BOTH VECTORS ARE
       LEFT AS THEY WERE;
     - on Ok the vectors are exactly what the view `select_w` (SelWalk.v, the function all C08 / C15 theorems are about)
       returns, the offsets appended to the caller's;
     - the outcome (Ok / which Err / Panic) is that of the view.
   On the encoding of a well-formed document the state is given in terms of the tree evaluator. *)
From Coq Require Import List NArith ZArith Bool Lia.
Import ListNotations.
From JB Require Import Constants Bytes Utf8 Num Value Codec TreeOps JsonText Path PathSem Dispatch Walk CompareWalk SelWalk SelSt
  ModeProofs SelWalkProofs.
Open Scope N_scope.
Set Default Timeout 60.

(* ---------------------------------------------------------------- the writers never return Err *)
Definition no_err {A} (m : sstm A) : Prop := forall s e, snd (m s) <> Err e.
Lemma no_err_ret {A} (a : A) : no_err (ss_ret a).
Proof. intros s e. discriminate. Qed.
Lemma no_err_push_data b : no_err (push_data b).
Proof. intros s e. discriminate. Qed.
Lemma no_err_upd_data f : no_err (upd_data f).
Proof. intros s e. discriminate. Qed.
Lemma no_err_push_offset : no_err push_offset.
Proof. intros s e. discriminate. Qed.
Lemma no_err_data_len : no_err data_len.
Proof. intros s e. discriminate. Qed.
Lemma no_err_bind {A B} (m : sstm A) (k : A -> sstm B) : no_err m -> (forall a, no_err (k a)) -> no_err (ss_bind m k).
Proof.
  intros Hm Hk s e. unfold ss_bind. pose proof (Hm s) as H. destruct (m s) as [s' [a|e'|]]; cbn [snd] in *.
  - apply Hk.
  - exfalso. exact (H e' eq_refl).
  - discriminate.
Qed.
Lemma no_err_push_slice bs off len : no_err (push_slice bs off len).
Proof.
  unfold push_slice. apply no_err_bind; [|intros p; apply no_err_push_data].
  intros s e. unfold ss_pure, slice_p, or_panic. cbn [snd]. destruct (slice bs off len); discriminate.
Qed.
Lemma no_err_if {A} (c : bool) (a b : sstm A) : no_err a -> no_err b -> no_err (if c then a else b).
Proof. destruct c; auto. Qed.
Lemma build_values_st_no_err bs : forall poses, no_err (build_values_st bs poses).
Proof.
  induction poses as [|pos r IH]; cbn [build_values_st]; [apply no_err_ret|]. destruct pos as [off len|ty off len].
  - apply no_err_bind; [apply no_err_push_slice|]. intros _. apply no_err_bind; [apply no_err_push_offset|]. intros _. exact IH.
  - apply no_err_bind; [apply no_err_push_data|]. intros _. apply no_err_bind; [apply no_err_push_data|]. intros _.
    apply no_err_bind; [apply no_err_if; [apply no_err_push_slice|apply no_err_ret]|]. intros _.
    apply no_err_bind; [apply no_err_push_offset|]. intros _. exact IH.
Qed.
Lemma array_loop_st_no_err bs : forall poses joff, no_err (array_loop_st bs poses joff).
Proof.
  induction poses as [|pos r IH]; intros joff; cbn [array_loop_st]; [apply no_err_ret|].
  apply no_err_bind; [|intros j; apply no_err_bind; [apply no_err_upd_data|intros _; apply IH]].
  destruct pos as [off len|ty off len].
  - apply no_err_bind; [apply no_err_push_slice|]. intros _. apply no_err_ret.
  - apply no_err_bind; [apply no_err_if; [apply no_err_push_slice|apply no_err_ret]|]. intros _. apply no_err_ret.
Qed.
Lemma build_scalar_array_st_no_err bs poses : no_err (build_scalar_array_st bs poses).
Proof.
  unfold build_scalar_array_st. apply no_err_bind; [apply no_err_push_data|]. intros _.
  apply no_err_bind; [apply no_err_data_len|]. intros joff. apply no_err_bind; [apply no_err_upd_data|]. intros _.
  apply no_err_bind; [apply array_loop_st_no_err|]. intros _. apply no_err_push_offset.
Qed.
Lemma build_predicate_result_st_no_err poses : no_err (build_predicate_result_st poses).
Proof. unfold build_predicate_result_st. apply no_err_bind; [apply no_err_push_data|]. intros _. apply no_err_push_data. Qed.
Theorem writers_never_err bs poses :
  no_err (build_values_st bs poses) /\ no_err (build_scalar_array_st bs poses) /\ no_err (build_predicate_result_st poses).
Proof. exact (conj (build_values_st_no_err bs poses) (conj (build_scalar_array_st_no_err bs poses) (build_predicate_result_st_no_err poses))). Qed.

(* ---------------------------------------------------------------- an Err return leaves both vectors as they were *)
Theorem select_st_err bs ps m s e : snd (select_st bs ps m s) = Err e ->
  fst (select_st bs ps m s) = s /\ find_positions_w bs None ps = Err e.
Proof.
  unfold select_st, ss_bind, ss_pure. destruct (find_positions_w bs None ps) as [poses|e'|]; cbn [fst snd].
  - intros H. exfalso. revert H.
    destruct (is_predicate ps); [apply build_predicate_result_st_no_err|].
    destruct m; try apply build_values_st_no_err; try apply build_scalar_array_st_no_err.
    destruct (1 <? length poses)%nat; [apply build_scalar_array_st_no_err|apply build_values_st_no_err].
  - intros H. injection H as ->. split; reflexivity.
  - discriminate.
Qed.
Theorem get_by_path_gen_st_err md bs ps s e : snd (get_by_path_gen_st md bs ps s) = Err e -> fst (get_by_path_gen_st md bs ps s) = s.
Proof.
  unfold get_by_path_gen_st. destruct (is_jsonb bs); [intros H; apply (select_st_err bs ps md s e H)|].
  destruct (parse_value bs) as [v|e'|]; [intros H; apply (select_st_err _ ps md s e H)|discriminate|discriminate].
Qed.

(* ---------------------------------------------------------------- the state functions and their views *)
(* "the state function does what the view says": Ok with the view's data and the offsets appended; the same Err with the
   state untouched; Panic when the view panics *)
Definition agrees (m : sstm unit) (view : list N -> res (list N * list N)) : Prop :=
  forall data o0,
    match view data with
    | Ok (d, o) => m (data, o0) = ((d, o0 ++ o), Ok tt)
    | Err e => m (data, o0) = ((data, o0), Err e)
    | Panic => snd (m (data, o0)) = Panic
    end.

Ltac st_unfold := unfold ss_bind, push_slice, ss_bind, ss_pure, push_data, push_offset, upd_data, ss_ret; cbn [fst snd].
Lemma slice_p_not_err bs off len e : slice_p bs off len <> Err e.
Proof. unfold slice_p, or_panic. destruct (slice bs off len); discriminate. Qed.

Lemma build_values_st_view bs : forall poses data o0 offs,
  match build_values_w bs poses data offs with
  | Ok (d, o) => build_values_st bs poses (data, o0 ++ offs) = ((d, o0 ++ o), Ok tt)
  | Err e => False
  | Panic => snd (build_values_st bs poses (data, o0 ++ offs)) = Panic
  end.
Proof.
  induction poses as [|pos r IH]; intros data o0 offs; cbn [build_values_w build_values_st]; [reflexivity|]. cbv zeta.
  destruct pos as [off len|ty off len].
  - st_unfold. pose proof (slice_p_not_err bs off len) as NE. destruct (slice_p bs off len) as [p|e|]; cbn [bind fst snd].
    + rewrite <- app_assoc. apply IH.
    + exfalso. exact (NE e eq_refl).
    + reflexivity.
  - st_unfold. destruct (0 <? len).
    + st_unfold. pose proof (slice_p_not_err bs off len) as NE. destruct (slice_p bs off len) as [p|e|]; cbn [bind fst snd].
      * rewrite <- (app_assoc o0). rewrite <- !app_assoc. apply IH.
      * exfalso. exact (NE e eq_refl).
      * reflexivity.
    + st_unfold. cbn [bind]. rewrite <- (app_assoc o0). rewrite <- !app_assoc. apply IH.
Qed.

Lemma array_loop_st_view bs : forall poses data joff o,
  match array_loop_w bs poses data joff with
  | Ok d => array_loop_st bs poses joff (data, o) = ((d, o), Ok tt)
  | Err e => False
  | Panic => snd (array_loop_st bs poses joff (data, o)) = Panic
  end.
Proof.
  induction poses as [|pos r IH]; intros data joff o; cbn [array_loop_w array_loop_st]; [reflexivity|].
  destruct pos as [off len|ty off len].
  - st_unfold. pose proof (slice_p_not_err bs off len) as NE. destruct (slice_p bs off len) as [p|e|]; cbn [bind fst snd].
    + apply IH.
    + exfalso. exact (NE e eq_refl).
    + reflexivity.
  - st_unfold. destruct (0 <? len).
    + st_unfold. pose proof (slice_p_not_err bs off len) as NE. destruct (slice_p bs off len) as [p|e|]; cbn [bind fst snd].
      * apply IH.
      * exfalso. exact (NE e eq_refl).
      * reflexivity.
    + st_unfold. cbn [bind]. rewrite app_nil_r. apply IH.
Qed.

Lemma build_scalar_array_st_view bs poses : agrees (build_scalar_array_st bs poses) (build_scalar_array_w bs poses).
Proof.
  intros data o0. unfold build_scalar_array_w, build_scalar_array_st. cbv zeta.
  unfold ss_bind, push_data, data_len, upd_data, push_offset. cbn [fst snd].
  match goal with |- context [array_loop_w bs poses ?D ?J] => pose proof (array_loop_st_view bs poses D J o0) as V;
    destruct (array_loop_w bs poses D J) as [d|e|] end; cbn [bind].
  - rewrite V. reflexivity.
  - contradiction.
  - destruct (array_loop_st _ _ _ _) as [s' [a|e|]]; cbn [snd] in V; try discriminate V. reflexivity.
Qed.

Definition writer_st (bs : list N) (ps : list path) (m : mode) (poses : list position) : sstm unit :=
  if is_predicate ps then build_predicate_result_st poses
  else
    match m with
    | MAll => build_values_st bs poses
    | MFirst => build_values_st bs (firstn 1 poses)
    | MArray => build_scalar_array_st bs poses
    | MMixed => if (1 <? length poses)%nat then build_scalar_array_st bs poses else build_values_st bs poses
    end.
Lemma select_st_unfold bs ps m s :
  select_st bs ps m s = match find_positions_w bs None ps with
                        | Ok poses => writer_st bs ps m poses s
                        | Err e => (s, Err e)
                        | Panic => (s, Panic)
                        end.
Proof. unfold select_st, ss_bind, ss_pure, writer_st. destruct (find_positions_w bs None ps); reflexivity. Qed.

Theorem select_st_view bs ps m : agrees (select_st bs ps m) (select_w bs ps m).
Proof.
  intros data o0. rewrite select_st_unfold. unfold select_w.
  destruct (find_positions_w bs None ps) as [poses|e|]; cbn [bind]; [|reflexivity|reflexivity].
  assert (BV : forall l, match build_values_w bs l data [] with
                         | Ok (d, o) => build_values_st bs l (data, o0) = ((d, o0 ++ o), Ok tt)
                         | Err _ => False
                         | Panic => snd (build_values_st bs l (data, o0)) = Panic end).
  { intros l. pose proof (build_values_st_view bs l data o0 []) as V. rewrite app_nil_r in V. exact V. }
  assert (BV' : forall l, match build_values_w bs l data [] with
                          | Ok (d, o) => build_values_st bs l (data, o0) = ((d, o0 ++ o), Ok tt)
                          | Err e => build_values_st bs l (data, o0) = ((data, o0), Err e)
                          | Panic => snd (build_values_st bs l (data, o0)) = Panic end).
  { intros l. specialize (BV l). destruct (build_values_w bs l data []) as [[d o]|e|]; [exact BV|contradiction|exact BV]. }
  unfold writer_st. destruct (is_predicate ps).
  - unfold build_predicate_result_st, build_predicate_result_w, ss_bind, push_data. cbn [fst snd].
    rewrite app_nil_r, <- app_assoc. reflexivity.
  - destruct m; try apply BV'; try apply build_scalar_array_st_view.
    destruct (1 <? length poses)%nat; [apply build_scalar_array_st_view|apply BV'].
Qed.

Theorem get_by_path_gen_st_view md bs ps : agrees (get_by_path_gen_st md bs ps) (get_by_path_gen_w md bs ps).
Proof.
  intros data o0. unfold get_by_path_gen_w, get_by_path_gen_st. destruct (is_jsonb bs); [apply select_st_view|].
  destruct (parse_value bs) as [v|e|]; [apply select_st_view| |reflexivity].
  unfold ss_ret. rewrite app_nil_r. reflexivity.
Qed.

(* the outcome of the state function is the outcome of the view *)
Corollary select_st_outcome bs ps m data o0 :
  snd (select_st bs ps m (data, o0)) = res_map (fun _ => tt) (select_w bs ps m data).
Proof.
  pose proof (select_st_view bs ps m data o0) as V. destruct (select_w bs ps m data) as [[d o]|e|]; cbn [res_map]; rewrite V; reflexivity.
Qed.

(* ---------------------------------------------------------------- on the encoding of a well-formed document *)
(* what is appended is what the tree evaluator selects (written into an empty buffer), behind the caller's bytes, the offsets
   shifted to positions in the caller's buffer and appended to the caller's offsets; an error leaves both as they were *)
Theorem select_st_enc v ps m data o0 : wfb v = true ->
  match select_t (normalise v) ps m [] with
  | Ok (d, o) => select_st (enc v) ps m (data, o0) = ((data ++ d, o0 ++ map (fun x => lenN data + x) o), Ok tt)
  | Err e => select_st (enc v) ps m (data, o0) = ((data, o0), Err e)
  | Panic => snd (select_st (enc v) ps m (data, o0)) = Panic
  end.
Proof.
  intros W. pose proof (select_st_view (enc v) ps m data o0) as V.
  rewrite (select_w_enc v ps m data W), (select_frame (normalise v) ps m data) in V.
  destruct (select_t (normalise v) ps m []) as [[d o]|e|]; cbn [shift_result] in V; exact V.
Qed.

(* not vacuous: a selection appended to vectors that already hold an earlier result, and a failing one (a filter that is not a
   condition) that leaves them untouched; a corrupt root on which a writer panics after the evaluation succeeded *)
Example select_st_example :
  let doc := VArr [VNum (NUInt 1); VStr [120]; VArr []] in
  select_st (enc doc) [PRoot; PBracketWild] MAll ([7; 7], [2]) =
    (([7; 7] ++ enc (VNum (NUInt 1)) ++ enc (VStr [120]) ++ enc (VArr []), [2; 12; 21; 25]), Ok tt) /\
  select_st (enc doc) [PRoot; PBracketWild; PFilter (EPaths [])] MAll ([7; 7], [2]) = (([7; 7], [2]), Err EOther) /\
  snd (select_st (firstn 20 (enc doc)) [PRoot; PBracketWild] MAll ([7; 7], [2])) = Panic.
Proof. vm_compute. repeat split; reflexivity. Qed.
