(* PathSemLaws.v — DECLARATIVE laws of the JSONPath step semantics (C08), stated independently of the code mirror PathSem.v:
   what an index, `last`, `last - k`, a slice, several indices, a wildcard, a field step, a filter, && / ||, exists(...) and a
   sequence of steps MEAN, in terms of nth_error / rev / firstn / skipn / filter / In.  PathSem.v (the evaluator the byte
   selector is proved equal to) is shown to satisfy them. *)
From Coq Require Import List NArith ZArith Bool Lia.
Import ListNotations.
From JB Require Import Constants Bytes Num Value Codec TreeOps Path PathInd PathSem.
Open Scope N_scope.
Set Default Timeout 60.

(* ---------------------------------------------------------------- lists *)
Lemma nth_opt_nth_error {A} (l : list A) : forall n, nth_opt l n = nth_error l n.
Proof. induction l as [|x l IH]; intros [|n]; cbn [nth_opt nth_error]; try reflexivity. apply IH. Qed.
Lemma nth_error_rev {A} (l : list A) : forall k, (k < length l)%nat -> nth_error (rev l) k = nth_error l (length l - S k).
Proof.
  induction l as [|x l IH]; intros k Hk; [cbn [length] in Hk; lia|]. cbn [rev length] in *.
  destruct (Nat.eq_dec k (length l)) as [->|Hne].
  - rewrite nth_error_app2 by (rewrite rev_length; lia). rewrite rev_length, !Nat.sub_diag. reflexivity.
  - rewrite nth_error_app1 by (rewrite rev_length; lia). rewrite IH by lia.
    replace (S (length l) - S k)%nat with (S (length l - S k)) by lia. reflexivity.
Qed.
(* the elements at positions lo, lo+1, .., lo+cnt-1 *)
Lemma pick_range {A} (l : list A) : forall cnt lo, (lo + cnt <= length l)%nat ->
  flat_map (fun k => match nth_opt l k with Some x => [x] | None => [] end) (range_from lo cnt) = firstn cnt (skipn lo l).
Proof.
  induction cnt as [|c IH]; intros lo H; [reflexivity|]. cbn [range_from flat_map].
  rewrite nth_opt_nth_error. destruct (nth_error l lo) as [x|] eqn:E; [|apply nth_error_None in E; lia].
  rewrite (IH (S lo)) by lia.
  assert (S : skipn lo l = x :: skipn (S lo) l).
  { clear IH H. revert lo E. induction l as [|y l IHl]; intros [|lo] E; cbn [nth_error skipn] in *; try discriminate E.
    - injection E as ->. reflexivity.
    - apply IHl. exact E. }
  rewrite S. reflexivity.
Qed.

(* ---------------------------------------------------------------- array indices *)
Lemma select_indices_one l a :
  select_indices l [a] = flat_map (fun k => match nth_opt l k with Some x => [x] | None => [] end) (index_positions (lenZ l) a).
Proof.
  destruct l as [|x l]; cbn [select_indices flat_map]; [|rewrite app_nil_r; reflexivity].
  generalize (index_positions (lenZ (@nil value)) a). intros ks. induction ks as [|k ks IH]; [reflexivity|]. cbn [flat_map].
  rewrite <- IH. destruct k; reflexivity.
Qed.

(* [i] with 0 <= i: the element at position i, nothing when there is none *)
Theorem index_law l i : (0 <= i)%Z ->
  select_indices l [AIndex (IIndex i)] = match nth_error l (Z.to_nat i) with Some x => [x] | None => [] end.
Proof.
  intros Hi. rewrite select_indices_one. cbn [index_positions resolve_index]. unfold CI_INRANGE, lenZ.
  destruct ((0 <=? i)%Z && (i <? Z.of_nat (length l))%Z) eqn:E.
  - cbn [flat_map]. rewrite app_nil_r, nth_opt_nth_error. reflexivity.
  - assert (N : nth_error l (Z.to_nat i) = None) by (apply nth_error_None; lia). rewrite N. reflexivity.
Qed.
(* a negative index selects nothing *)
Theorem negative_index_law l i : (i < 0)%Z -> select_indices l [AIndex (IIndex i)] = [].
Proof.
  intros Hi. rewrite select_indices_one. cbn [index_positions resolve_index]. unfold CI_INRANGE.
  destruct ((0 <=? i)%Z && (i <? lenZ l)%Z) eqn:E; [lia|reflexivity].
Qed.
(* [last - k], 0 <= k: the k-th element from the end (k = 0: the last one); [last + k], 0 < k: nothing *)
Theorem last_minus_law l k : (0 <= k)%Z ->
  select_indices l [AIndex (ILast (- k))] = match nth_error (rev l) (Z.to_nat k) with Some x => [x] | None => [] end.
Proof.
  intros Hk. rewrite select_indices_one. cbn [index_positions resolve_index]. unfold CI_INRANGE, CI_LAST, lenZ.
  destruct ((0 <=? Z.of_nat (length l) + - k - 1)%Z && (Z.of_nat (length l) + - k - 1 <? Z.of_nat (length l))%Z) eqn:E.
  - cbn [flat_map]. rewrite app_nil_r, nth_opt_nth_error. rewrite nth_error_rev by lia.
    replace (Z.to_nat (Z.of_nat (length l) + - k - 1)) with (length l - S (Z.to_nat k))%nat by lia. reflexivity.
  - assert (N : nth_error (rev l) (Z.to_nat k) = None) by (apply nth_error_None; rewrite rev_length; lia). rewrite N. reflexivity.
Qed.
Corollary last_law l : select_indices l [AIndex (ILast 0)] = match rev l with x :: _ => [x] | [] => [] end.
Proof. change (ILast 0) with (ILast (- 0)). rewrite (last_minus_law l 0 (Z.le_refl 0)). destruct (rev l); reflexivity. Qed.
Theorem last_plus_law l k : (0 < k)%Z -> select_indices l [AIndex (ILast k)] = [].
Proof.
  intros Hk. rewrite select_indices_one. cbn [index_positions resolve_index]. unfold CI_INRANGE, CI_LAST.
  destruct ((0 <=? lenZ l + k - 1)%Z && (lenZ l + k - 1 <? lenZ l)%Z) eqn:E; [lia|reflexivity].
Qed.

(* [s to e]: the bounds are resolved (`last + k` is position len - 1 + k) and clamped to the array; the selection is the
   sublist between them, both ends included — empty when the clamped range is empty *)
Definition bound (i : index) (len : Z) : Z := match i with IIndex z => z | ILast z => (len - 1 + z)%Z end.
Theorem slice_law l s e :
  let lo := Z.max 0 (bound s (lenZ l)) in
  let hi := Z.min (bound e (lenZ l)) (lenZ l - 1) in
  select_indices l [ASlice s e] = firstn (Z.to_nat (hi - lo + 1)) (skipn (Z.to_nat lo) l).
Proof.
  cbv zeta. rewrite select_indices_one. cbn [index_positions].
  assert (Es : resolve_start s (lenZ l) = bound s (lenZ l)) by (destruct s; cbn [resolve_start bound]; unfold CS_START_LAST; lia).
  assert (Ee : resolve_end e (lenZ l) = bound e (lenZ l)) by (destruct e; cbn [resolve_end bound]; unfold CS_END_LAST; lia).
  rewrite Es, Ee. generalize (bound s (lenZ l)) (bound e (lenZ l)). intros s' e'. unfold CS_EMPTY, CS_LO, CS_HI, lenZ.
  set (n := length l).
  destruct (((e' <? s') || (Z.of_nat n <=? s') || (e' <? 0))%Z) eqn:E.
  - cbn [flat_map].
    destruct (Z_lt_le_dec (Z.min e' (Z.of_nat n - 1) - Z.max 0 s' + 1) 1) as [Hle|Hgt].
    + replace (Z.to_nat (Z.min e' (Z.of_nat n - 1) - Z.max 0 s' + 1)) with 0%nat by lia. reflexivity.
    + rewrite skipn_all2 by (fold n; lia). rewrite firstn_nil. reflexivity.
  - rewrite pick_range.
    + f_equal; [|f_equal]; destruct (s' <? 0)%Z eqn:E1, (Z.of_nat n <=? e')%Z eqn:E2; lia.
    + fold n. destruct (s' <? 0)%Z eqn:E1, (Z.of_nat n <=? e')%Z eqn:E2; lia.
Qed.
(* several indices: the selections one after the other (with repetitions) *)
Theorem indices_concat_law l a r : select_indices l (a :: r) = select_indices l [a] ++ select_indices l r.
Proof.
  destruct l as [|x l]; [reflexivity|]. cbn [select_indices flat_map]. rewrite app_nil_r, flat_map_app. reflexivity.
Qed.

(* ---------------------------------------------------------------- one step on one item *)
(* [*]: the elements of an array in order; any other item (scalar or object) is passed through as it is (lax mode) *)
Theorem bracket_wildcard_law v :
  select_step PBracketWild v = Ok (match v with VArr l => l | _ => [v] end).
Proof. unfold select_step. destruct v; reflexivity. Qed.
(* .*: the member values of an object in key order; nothing for any other item *)
Theorem dot_wildcard_law v :
  select_step PDotWild v = Ok (match v with VObj o => map snd o | _ => [] end).
Proof. unfold select_step. destruct v; reflexivity. Qed.
(* .name / :name / ["name"]: the value of that member of an object; nothing when absent or when the item is not an object *)
Theorem field_law p n v : p = PDotField n \/ p = PColonField n \/ p = PObjectField n ->
  select_step p v = Ok (match v with VObj o => match assoc_lookup n o with Some x => [x] | None => [] end | _ => [] end).
Proof. intros [-> | [-> | ->]]; unfold select_step; destruct v; reflexivity. Qed.
(* [indices]: the selected elements of an array; nothing for any other item *)
Theorem indices_step_law ixs v :
  select_step (PIndices ixs) v = Ok (match v with VArr l => select_indices l ixs | _ => [] end).
Proof. unfold select_step. destruct v; reflexivity. Qed.

(* ---------------------------------------------------------------- sequences of steps *)
Definition plain_step (p : path) : bool :=
  match p with PRoot | PCurrent | PFilter _ | PPredicate _ => false | _ => true end.
(* a plain step maps every frontier item to what it selects there, in order *)
Theorem plain_step_law fe p fr : plain_step p = true -> walk fe [p] fr = flat_map_res (select_step p) fr.
Proof. destruct p; try discriminate; intros _; cbn [walk]; destruct (flat_map_res _ fr); reflexivity. Qed.
Theorem flat_map_res_ok {A B} (f : A -> res (list B)) (g : A -> list B) l : (forall x, In x l -> f x = Ok (g x)) ->
  flat_map_res f l = Ok (flat_map g l).
Proof.
  induction l as [|x l IH]; intros H; [reflexivity|]. cbn [flat_map_res flat_map]. rewrite (H x (or_introl eq_refl)). cbn [bind].
  rewrite IH by (intros y Hy; apply H; right; exact Hy). reflexivity.
Qed.
(* steps compose: the frontier after ps ++ qs is the frontier after qs started from the frontier after ps *)
Theorem steps_compose_law fe : forall ps qs fr, walk fe (ps ++ qs) fr = do m <- walk fe ps fr; walk fe qs m.
Proof.
  induction ps as [|p ps IH]; intros qs fr; [reflexivity|]. cbn [app walk].
  destruct p; try apply IH;
    match goal with |- bind ?g _ = _ => destruct g; cbn [bind]; try reflexivity; apply IH end.
Qed.
(* `$` and `@` inside a path do not move the frontier *)
Theorem root_current_law fe ps fr : walk fe (PRoot :: ps) fr = walk fe ps fr /\ walk fe (PCurrent :: ps) fr = walk fe ps fr.
Proof. split; reflexivity. Qed.

(* ---------------------------------------------------------------- filters *)
Lemma filter_res_ok {A} (f : A -> res bool) l out : filter_res f l = Ok out ->
  exists g, out = filter g l /\ forall x, In x l -> f x = Ok (g x).
Proof.
  intros H. exists (fun x => match f x with Ok b => b | _ => false end). revert out H.
  induction l as [|x l IH]; intros out H; cbn [filter_res] in H.
  - injection H as <-. split; [reflexivity|intros x []].
  - destruct (f x) as [k| |] eqn:E; cbn [bind] in H; try discriminate H.
    destruct (filter_res f l) as [b| |]; cbn [bind] in H; try discriminate H. injection H as <-.
    destruct (IH b eq_refl) as [E1 E2]. split.
    + cbn [filter]. rewrite E. destruct k; rewrite <- E1; reflexivity.
    + intros y [<- | Hy]; [rewrite E; reflexivity|apply E2; exact Hy].
Qed.
Lemma exists_res_true {A} (f : A -> res bool) l : (forall x, In x l -> exists b, f x = Ok b) ->
  (exists b, exists_res f l = Ok b) /\ (exists_res f l = Ok true <-> exists x, In x l /\ f x = Ok true).
Proof.
  induction l as [|x l IH]; intros H.
  - split; [exists false; reflexivity|]. split; [discriminate|intros (x & [] & _)].
  - cbn [exists_res]. destruct (H x (or_introl eq_refl)) as (b & Eb). rewrite Eb. cbn [bind].
    destruct (IH (fun y Hy => H y (or_intror Hy))) as [I1 I2]. destruct b.
    + split; [exists true; reflexivity|]. split; [intros _; exists x; split; [left; reflexivity|exact Eb]|reflexivity].
    + split; [exact I1|]. rewrite I2. split.
      * intros (y & Hy & Ey). exists y. split; [right; exact Hy|exact Ey].
      * intros (y & [<- | Hy] & Ey); [rewrite Eb in Ey; discriminate Ey|exists y; split; assumption].
Qed.

Definition cmp_op (op : binop) : Prop := op <> OAnd /\ op <> OOr.
Lemma compare_value_total op a b : cmp_op op -> exists k, compare_value op a b = Ok k.
Proof. intros [H1 H2]. destruct op; try contradiction; eexists; reflexivity. Qed.

(* a comparison holds at an item when SOME pair of values of its two operands satisfies it; the operand values are the
   scalar items the operand path selects from the current item (`@`) or from the root (`$`), or the literal *)
Definition cmp_holds (root : value) (op : binop) (l r : expr) (x : value) : Prop :=
  exists va vb a b, expr_values root x l = Ok va /\ expr_values root x r = Ok vb /\ In a va /\ In b vb /\ compare_value op a b = Ok true.
Theorem comparison_law root op l r x va vb : cmp_op op ->
  expr_values root x l = Ok va -> expr_values root x r = Ok vb ->
  (exists k, filter_expr root x (EBin op l r) = Ok k) /\
  (filter_expr root x (EBin op l r) = Ok true <-> exists a b, In a va /\ In b vb /\ compare_value op a b = Ok true).
Proof.
  intros Hop El Er.
  assert (E : filter_expr root x (EBin op l r) = exists_res (fun a => exists_res (fun b => compare_value op a b) vb) va).
  { destruct Hop as [H1 H2]. destruct op; try contradiction; cbn [filter_expr]; rewrite El, Er; reflexivity. }
  rewrite E.
  assert (In_total : forall a, In a va -> exists k, exists_res (fun b => compare_value op a b) vb = Ok k).
  { intros a _. apply (exists_res_true (fun b => compare_value op a b) vb). intros b _. apply compare_value_total. exact Hop. }
  destruct (exists_res_true _ va In_total) as [T1 T2]. split; [exact T1|]. rewrite T2. split.
  - intros (a & Ha & Ea). apply (exists_res_true (fun b => compare_value op a b) vb) in Ea; [|intros b _; apply compare_value_total; exact Hop].
    destruct Ea as (b & Hb & Eb). exists a, b. auto.
  - intros (a & b & Ha & Hb & Eb). exists a. split; [exact Ha|].
    apply (exists_res_true (fun b => compare_value op a b) vb); [intros b0 _; apply compare_value_total; exact Hop|]. exists b. auto.
Qed.

(* a filter step keeps, IN ORDER, exactly the frontier items at which its expression evaluates to true *)
Theorem filter_step_law fe e fr out : walk fe [PFilter e] fr = Ok out ->
  exists g, out = filter g fr /\ forall x, In x fr -> fe x e = Ok (g x).
Proof.
  cbn [walk]. intros H. destruct (filter_res (fun pos => fe pos e) fr) as [o| |] eqn:E; cbn [bind] in H; try discriminate H.
  injection H as <-. exact (filter_res_ok _ fr o E).
Qed.
(* for a comparison filter: exactly the items for which some pair of operand values satisfies the comparison *)
Theorem comparison_filter_law root op l r fr out : cmp_op op ->
  walk (fun pos e => filter_expr root pos e) [PFilter (EBin op l r)] fr = Ok out ->
  exists g, out = filter g fr /\ forall x, In x fr -> (g x = true <-> cmp_holds root op l r x).
Proof.
  intros Hop H. destruct (filter_step_law _ _ fr out H) as (g & Eo & Eg). exists g. split; [exact Eo|].
  intros x Hx. specialize (Eg x Hx). cbv beta in Eg.
  assert (V : exists va vb, expr_values root x l = Ok va /\ expr_values root x r = Ok vb).
  { destruct Hop as [H1 H2]. destruct op; try contradiction; cbn [filter_expr] in Eg;
      destruct (expr_values root x l) as [va| |]; cbn [bind] in Eg; try discriminate Eg;
      destruct (expr_values root x r) as [vb| |]; cbn [bind] in Eg; try discriminate Eg; exists va, vb; split; reflexivity. }
  destruct V as (va & vb & El & Er). destruct (comparison_law root op l r x va vb Hop El Er) as [_ C].
  split.
  - intros Hg. rewrite Hg in Eg. apply C in Eg. destruct Eg as (a & b & Ha & Hb & Ec). exists va, vb, a, b. auto.
  - intros (va' & vb' & a & b & El' & Er' & Ha & Hb & Ec). rewrite El in El'. rewrite Er in Er'. injection El' as <-. injection Er' as <-.
    assert (T : filter_expr root x (EBin op l r) = Ok true) by (apply C; exists a, b; auto). rewrite T in Eg. injection Eg as <-. reflexivity.
Qed.

(* && and || are the conjunction and the disjunction of the two results (both sides are evaluated: an error of either side is
   the error of the whole) *)
Theorem and_law root x l r : filter_expr root x (EBin OAnd l r) = do a <- filter_expr root x l; do b <- filter_expr root x r; Ok (a && b).
Proof. reflexivity. Qed.
Theorem or_law root x l r : filter_expr root x (EBin OOr l r) = do a <- filter_expr root x l; do b <- filter_expr root x r; Ok (a || b).
Proof. reflexivity. Qed.
Corollary and_or_values root x l r a b : filter_expr root x l = Ok a -> filter_expr root x r = Ok b ->
  filter_expr root x (EBin OAnd l r) = Ok (a && b) /\ filter_expr root x (EBin OOr l r) = Ok (a || b).
Proof. intros Ha Hb. rewrite and_law, or_law, Ha, Hb. split; reflexivity. Qed.

(* exists(p) holds at an item exactly when the path p, started at that item (`@`) or at the root (`$`), selects something *)
Theorem exists_law root x ps :
  filter_expr root x (EExists ps) = Ok true <-> exists items, find_positions root (Some x) ps = Ok items /\ items <> [].
Proof.
  change (filter_expr root x (EExists ps)) with (do fr <- find_positions root (Some x) ps; Ok (match fr with [] => false | _ => true end)).
  destruct (find_positions root (Some x) ps) as [fr| |]; cbn [bind].
  - split.
    + intros H. exists fr. split; [reflexivity|]. destruct fr; [discriminate H|discriminate].
    + intros (items & E & Hne). injection E as ->. destruct items; [contradiction Hne; reflexivity|reflexivity].
  - split; [discriminate|intros (items & E & _); discriminate E].
  - split; [discriminate|intros (items & E & _); discriminate E].
Qed.
(* arithmetic and bare operands are not conditions: an error, never a panic, never a value *)
Theorem non_condition_law root x e : match e with EBin _ _ _ | EExists _ => False | _ => True end -> filter_expr root x e = Err EOther.
Proof. destruct e; try contradiction; reflexivity. Qed.

(* ---------------------------------------------------------------- whole paths *)
(* a path starts at the root, or — inside exists(...) — at the current item when it begins with `@` *)
Theorem path_start_law root cur ps :
  find_positions root cur ps =
  do start <- match ps with PCurrent :: _ => match cur with Some c => Ok c | None => Panic end | _ => Ok root end;
  walk (fun pos e => filter_expr root pos e) ps [start].
Proof. reflexivity. Qed.

(* ---------------------------------------------------------------- not vacuous *)
Example laws_example :
  let l := [VNum (NUInt 10); VNum (NUInt 11); VNum (NUInt 12); VNum (NUInt 13)] in
  select_indices l [AIndex (IIndex 1)] = [VNum (NUInt 11)] /\
  select_indices l [AIndex (ILast 0)] = [VNum (NUInt 13)] /\
  select_indices l [AIndex (ILast (-1))] = [VNum (NUInt 12)] /\
  select_indices l [ASlice (IIndex 1) (ILast (-1))] = [VNum (NUInt 11); VNum (NUInt 12)] /\
  select_indices l [ASlice (IIndex (-5)) (IIndex 99)] = l /\
  select_indices l [ASlice (IIndex 3) (IIndex 1)] = [].
Proof. vm_compute. repeat split; reflexivity. Qed.
