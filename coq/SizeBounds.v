(* SizeBounds.v — size hypotheses on RESULTS replaced by bounds on the INPUTS (review item L6).
   The byte theorems of the growing editors (concat, array_insert, object_insert) assume `wf_size (result) = true`: a caller
   cannot check that without computing the result.  Here: sufficient conditions on the ARGUMENTS -- the lengths of the two
   encodings, which the caller holds --, and the byte theorems restated under them.
       lenN (enc a) + lenN (enc b) + 16 < 2^28        (2^28 = 268435456: the payload-length field of an entry word)
   The 16 covers the header word and the two entry words the result may add around scalar arguments. *)
From Coq Require Import List NArith ZArith Bool Lia.
Import ListNotations.
From JB Require Import Constants Bytes Num Value Codec TreeOps CodecProofs RoundtripProofs DispatchProofs WalkProofs EditWalk EditWalkProofs
  EditWalk2 EditWalk2Proofs.
Open Scope N_scope.
Set Default Timeout 60.
Arguments be32 : simpl never. Arguments N.ltb : simpl never. Arguments N.mul : simpl never. Arguments N.add : simpl never.

(* ---------------------------------------------------------------- the size of a container, from its parts *)
Definition msz (o : list (list N * value)) : N :=
  fold_right (fun kv a => 8 + lenN (fst kv) + lenN (payload (snd kv)) + a) 0 o.
Definition member_size_ok (kv : list N * value) : bool := (lenN (fst kv) <? 268435456) && wf_size (snd kv).

Lemma payload_len_arr l : lenN (payload (VArr l)) = 4 + 4 * lenN l + sum_len l.
Proof. rewrite payload_arr, !lenN_app, lenN_be32, len_flat_words, lenN_map, len_flat_payload. lia. Qed.
Lemma payload_len_obj o : lenN (payload (VObj o)) = 4 + msz o.
Proof.
  rewrite payload_obj, !lenN_app, lenN_be32, len_flat_words, lenN_app. unfold kws, vws, vals, keys_bytes. rewrite !lenN_map.
  assert (E : lenN (flat_map (fun kv : list N * value => fst kv) o) + lenN (flat_map payload (map snd o)) + 8 * lenN o = msz o).
  { induction o as [|[k x] r IH]; [reflexivity|]. cbn [flat_map map msz fold_right fst snd]. fold (msz r).
    rewrite !lenN_app, lenN_cons. lia. }
  lia.
Qed.
Lemma msz_count o : 8 * lenN o <= msz o.
Proof. induction o as [|kv r IH]; [cbn; lia|]. cbn [msz fold_right]. fold (msz r). rewrite lenN_cons. lia. Qed.

Lemma wf_size_arr_of l : forallb wf_size l = true -> 4 + 4 * lenN l + sum_len l < 268435456 -> wf_size (VArr l) = true.
Proof.
  intros Hf Hs. cbn [wf_size]. fold (payload (VArr l)). rewrite payload_len_arr, Hf.
  replace (lenN l <? 536870912) with true by (symmetry; apply N.ltb_lt; lia).
  replace (4 + 4 * lenN l + sum_len l <? 268435456) with true by (symmetry; apply N.ltb_lt; exact Hs). reflexivity.
Qed.
Lemma wf_size_obj_of o : forallb member_size_ok o = true -> 4 + msz o < 268435456 -> wf_size (VObj o) = true.
Proof.
  intros Hf Hs. cbn [wf_size]. fold (payload (VObj o)). rewrite payload_len_obj. unfold member_size_ok in Hf. rewrite Hf.
  pose proof (msz_count o).
  replace (lenN o <? 536870912) with true by (symmetry; apply N.ltb_lt; lia).
  replace (4 + msz o <? 268435456) with true by (symmetry; apply N.ltb_lt; exact Hs). reflexivity.
Qed.
Lemma wf_size_arr_inv l : wf_size (VArr l) = true -> forallb wf_size l = true.
Proof. cbn [wf_size]. intros H. apply andb_true_iff in H. apply H. Qed.
Lemma wf_size_obj_inv o : wf_size (VObj o) = true -> forallb member_size_ok o = true.
Proof. cbn [wf_size]. intros H. apply andb_true_iff in H. apply H. Qed.

(* the encoding is at least as long as the payload (a scalar document adds its header and entry word) *)
Lemma payload_le_enc v : lenN (payload v) <= lenN (enc v).
Proof. destruct v; unfold enc, payload; cbn [enc_item snd fst]; rewrite ?lenN_app, ?lenN_be32; lia. Qed.
Lemma enc_arr_len l : lenN (enc (VArr l)) = 4 + 4 * lenN l + sum_len l.
Proof. rewrite <- payload_len_arr. reflexivity. Qed.
Lemma enc_obj_len o : lenN (enc (VObj o)) = 4 + msz o.
Proof. rewrite <- payload_len_obj. reflexivity. Qed.

Lemma sum_len_cons x l : sum_len (x :: l) = lenN (payload x) + sum_len l.
Proof. reflexivity. Qed.
Lemma forallb_app' {A} (f : A -> bool) a b : forallb f a = true -> forallb f b = true -> forallb f (a ++ b) = true.
Proof. intros H1 H2. rewrite forallb_app, H1, H2. reflexivity. Qed.

(* ---------------------------------------------------------------- inserting a member *)
Lemma msz_insert k x o : msz (assoc_insert k x o) <= msz o + 8 + lenN k + lenN (payload x).
Proof.
  induction o as [|[k' x'] r IH]; cbn [assoc_insert]; [cbn [msz fold_right fst snd]; lia|].
  destruct (bytes_cmp k k'); cbn [msz fold_right fst snd]; fold (msz r); fold (msz (assoc_insert k x r)); lia.
Qed.
Lemma members_size_insert k x o : member_size_ok (k, x) = true -> forallb member_size_ok o = true ->
  forallb member_size_ok (assoc_insert k x o) = true.
Proof.
  intros Hk Ho. apply forallb_forall. intros kv Hin.
  assert (F : Forall (fun kv => member_size_ok kv = true) (assoc_insert k x o)).
  { apply Forall_assoc_insert; [exact Hk|]. apply Forall_forall. rewrite forallb_forall in Ho. exact Ho. }
  rewrite Forall_forall in F. apply F. exact Hin.
Qed.
Lemma merge_size (r : list (list N * value)) : forall l, forallb member_size_ok l = true -> forallb member_size_ok r = true ->
  forallb member_size_ok (fold_left (fun acc kv => assoc_insert (fst kv) (snd kv) acc) r l) = true /\
  msz (fold_left (fun acc kv => assoc_insert (fst kv) (snd kv) acc) r l) <= msz l + msz r.
Proof.
  induction r as [|[k x] r IH]; intros l Hl Hr; cbn [fold_left fst snd]; [split; [exact Hl|cbn [msz fold_right]; lia]|].
  cbn [forallb] in Hr. apply andb_true_iff in Hr. destruct Hr as [Hkx Hr].
  destruct (IH (assoc_insert k x l) (members_size_insert k x l Hkx Hl) Hr) as [I1 I2]. split; [exact I1|].
  pose proof (msz_insert k x l). cbn [msz fold_right fst snd]. fold (msz r). lia.
Qed.

(* ---------------------------------------------------------------- concat *)
Theorem concat_size_from_inputs a b : wf_size a = true -> wf_size b = true ->
  lenN (enc a) + lenN (enc b) + 16 < 268435456 -> wf_size (concat_t a b) = true.
Proof.
  intros Wa Wb H. pose proof (payload_le_enc a) as Pa. pose proof (payload_le_enc b) as Pb.
  assert (S1 : forall x, wf_size x = true -> forallb wf_size [x] = true) by (intros x Hx; cbn [forallb]; rewrite Hx; reflexivity).
  destruct a as [|ba|sa|na|la|oa]; destruct b as [|bb|sb|nb|lb|ob]; cbn [concat_t];
    try (apply wf_size_arr_of; [cbn [forallb]; rewrite ?Wa, ?Wb; reflexivity|cbn [sum_len fold_right]; rewrite ?lenN_cons; cbn [lenN length N.of_nat] in *; lia]).
  all: try (rewrite enc_arr_len in H; apply wf_size_arr_of;
            [first [apply forallb_app'; [apply wf_size_arr_inv; assumption|apply S1; assumption]
                   |cbn [forallb]; rewrite Wa; apply wf_size_arr_inv; assumption]
            |rewrite ?sum_len_app, ?sum_len_cons, ?lenN_app, ?lenN_cons; cbn [sum_len fold_right]; cbn [lenN length N.of_nat] in *; lia]).
  - (* array, array *) rewrite !enc_arr_len in H. apply wf_size_arr_of.
    + apply forallb_app'; apply wf_size_arr_inv; assumption.
    + rewrite sum_len_app, lenN_app. lia.
  - (* object, object *) rewrite !enc_obj_len in H.
    destruct (merge_size ob oa (wf_size_obj_inv _ Wa) (wf_size_obj_inv _ Wb)) as [M1 M2].
    apply wf_size_obj_of; [exact M1|lia].
Qed.

(* ---------------------------------------------------------------- array_insert *)
Theorem array_insert_size_from_inputs v pos x : wf_size v = true -> wf_size x = true ->
  lenN (enc v) + lenN (enc x) + 16 < 268435456 -> wf_size (array_insert_t v pos x) = true.
Proof.
  intros Wv Wx H. pose proof (payload_le_enc v) as Pv. pose proof (payload_le_enc x) as Px.
  unfold array_insert_t. cbv zeta.
  set (items := match v with VArr l => l | other => [other] end).
  assert (Hi : forallb wf_size items = true /\ 4 + 4 * lenN items + sum_len items <= lenN (enc v) + 8).
  { unfold items. destruct v as [| | | |l|o]; try (split; [cbn [forallb]; rewrite Wv; reflexivity|cbn [sum_len fold_right lenN length N.of_nat]; lia]).
    split; [apply wf_size_arr_inv; exact Wv|rewrite enc_arr_len; lia]. }
  destruct Hi as [Hf Hs]. set (j := Z.to_nat _).
  assert (E : sum_len (firstn j items ++ [x] ++ skipn j items) = sum_len items + lenN (payload x)).
  { rewrite !sum_len_app. cbn [sum_len fold_right]. rewrite <- (firstn_skipn j items) at 3. rewrite sum_len_app. fold (sum_len (firstn j items)).
    fold (sum_len (skipn j items)). lia. }
  assert (L : lenN (firstn j items ++ [x] ++ skipn j items) = lenN items + 1).
  { rewrite !lenN_app. rewrite <- (firstn_skipn j items) at 3. rewrite lenN_app. cbn [lenN length N.of_nat]. lia. }
  apply wf_size_arr_of.
  - rewrite <- (firstn_skipn j items), forallb_app in Hf. apply andb_true_iff in Hf. destruct Hf as [F1 F2].
    rewrite !forallb_app, F1, F2. cbn [forallb]. rewrite Wx. reflexivity.
  - rewrite E, L. lia.
Qed.

(* ---------------------------------------------------------------- object_insert *)
Theorem object_insert_size_from_inputs v k x u r : wf_size v = true -> wf_size x = true -> lenN k < 268435456 ->
  lenN (enc v) + lenN k + lenN (enc x) + 16 < 268435456 -> object_insert_t v k x u = Ok r -> wf_size r = true.
Proof.
  intros Wv Wx Hk H E. pose proof (payload_le_enc x) as Px. destruct v as [| | | | |o]; cbn [object_insert_t] in E; try discriminate E.
  assert (G : wf_size (VObj (assoc_insert k x o)) = true).
  { rewrite enc_obj_len in H. pose proof (msz_insert k x o). apply wf_size_obj_of; [|lia].
    apply members_size_insert; [|apply wf_size_obj_inv; exact Wv]. unfold member_size_ok. cbn [fst snd]. rewrite Wx.
    replace (lenN k <? 268435456) with true by (symmetry; apply N.ltb_lt; exact Hk). reflexivity. }
  destruct (assoc_lookup k o); [destruct u; [|discriminate E]|]; injection E as <-; exact G.
Qed.

(* ---------------------------------------------------------------- the byte theorems under input bounds *)
Theorem concat_w_enc_from_inputs a b buf : wfb a = true -> top_ok a -> wfb b = true -> top_ok b ->
  lenN (enc a) + lenN (enc b) + 16 < 268435456 ->
  concat_w (enc a) (enc b) buf = Ok (buf ++ enc (concat_t a b)).
Proof.
  intros Wa Ta Wb Tb H. apply concat_w_enc; try assumption. apply concat_size_from_inputs; [apply wfb_size; exact Wa|apply wfb_size; exact Wb|exact H].
Qed.
Theorem array_insert_w_enc_from_inputs v pos x buf : wfb v = true -> top_ok v -> wfb x = true -> top_ok x ->
  lenN (enc v) + lenN (enc x) + 16 < 268435456 ->
  array_insert_w (enc v) pos (enc x) buf = Ok (buf ++ enc (array_insert_t v pos x)).
Proof.
  intros Wv Tv Wx Tx H. apply array_insert_w_enc; try assumption.
  apply array_insert_size_from_inputs; [apply wfb_size; exact Wv|apply wfb_size; exact Wx|exact H].
Qed.
Theorem object_insert_w_enc_from_inputs v x key upd buf : wfb v = true -> top_ok v -> wfb x = true -> top_ok x ->
  lenN key < 268435456 -> lenN (enc v) + lenN key + lenN (enc x) + 16 < 268435456 ->
  object_insert_w (enc v) key (enc x) upd buf = res_map (fun y => buf ++ enc y) (object_insert_t v key x upd).
Proof.
  intros Wv Tv Wx Tx Hk H. apply object_insert_w_enc; try assumption. intros y E.
  apply (object_insert_size_from_inputs v key x upd y); [apply wfb_size; exact Wv|apply wfb_size; exact Wx|exact Hk|exact H|exact E].
Qed.

(* not vacuous: the bound is met by every small document, and the conclusions are the byte theorems of C06 *)
Example size_from_inputs_example :
  lenN (enc (VArr [VNum (NUInt 1)])) + lenN (enc (VObj [([97], VStr [98])])) + 16 < 268435456 /\
  wf_size (concat_t (VArr [VNum (NUInt 1)]) (VObj [([97], VStr [98])])) = true.
Proof. vm_compute. split; reflexivity. Qed.
