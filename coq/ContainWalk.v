(* ContainWalk.v — offset-faithful model of contains / contains_jsonb / scalar_payload_eq / array_contains of
   src/functions.rs (binary branch): nothing is decoded except number payloads; both headers are read, `right` is
   walked with the iterators of iterator.rs (Iter.v), keys are looked up in `left` with get_jentry_by_name (Walk.v),
   the value is sliced out of `left` with an index expression, scalar payloads are compared as bytes (numbers by
   value), containers recurse on (sub-slice, sub-slice).
     read_u32(..)?                 -> Err
     &left[a..b], &right[8..]      -> Panic when out of bounds
     an iterator's inner slice     -> Panic (Iter.v)
   The recursion is on fuel = S (length right): every recursive call gets a payload slice of `right` that starts at
   offset >= 8 of it, so it is strictly shorter; no count read from a buffer is used as fuel.
   Executable definitions only; ContainWalkProofs.v proves that on encodings the walker is contains_t. *)
From Coq Require Import List NArith ZArith Bool.
Import ListNotations.
From JB Require Import Constants Bytes Utf8 Num Value Codec JsonText Contain Dispatch Walk Iter.
Open Scope N_scope.

(* scalar_payload_eq: numbers by value when both payloads decode, raw bytes otherwise *)
Definition scalar_payload_eq_w (ty : N) (l r : list N) : bool :=
  if ty =? NUMBER_TAG then
    match num_decode l, num_decode r with
    | Ok x, Ok y => num_eqb x y
    | _, _ => bytes_eqb l r
    end
  else bytes_eqb l r.

(* array_contains: the Rust returns a plain bool; the only other outcome is a panic inside the array iterator *)
Definition array_contains_w (arr : list N) (hdr : N) (val : list N) (vje : je) : res bool :=
  iterate_array arr hdr
    (fun (_ : unit) j p =>
       if negb (fst j =? fst vje) then Ok (inl tt)
       else if scalar_payload_eq_w (fst vje) val p then Ok (inr true)
       else Ok (inl tt))
    (fun _ => Ok false) tt.

(* `for l_nested_val in l_nested { if contains_jsonb(l_nested_val, r_val)? { .. break } }` *)
Fixpoint nested_any (rec : list N -> res bool) (ls : list (list N)) : res bool :=
  match ls with
  | [] => Ok false
  | x :: r => do b <- rec x; if b then Ok true else nested_any rec r
  end.

(* the container-typed elements of left, collected eagerly (`.filter(..).map(..).collect()`) *)
Definition nested_of (l : list N) (lh : N) : res (list (list N)) :=
  do items <- arr_items l lh;
  Ok (map snd (filter (fun it : je * list N => fst (fst it) =? CONTAINER_TAG) items)).

(* one call of contains_jsonb; `rec` is contains_jsonb on (sub-slice of left, sub-slice of right) *)
Definition contains_step (rec : list N -> list N -> res bool) (l r : list N) : res bool :=
  match read_u32 l 0 with None => Err EOther | Some lh =>
  match read_u32 r 0 with None => Err EOther | Some rh =>
  let lt := hdr_type lh in let rt := hdr_type rh in
  (* special case for the left array and the right scalar *)
  if (lt =? ARRAY_CONTAINER_TAG) && (rt =? SCALAR_CONTAINER_TAG) then
    match read_u32 r 4 with
    | None => Err EOther
    | Some rw =>
        match slice_from r 8 with
        | None => Panic
        | Some rv => array_contains_w l lh rv (decode_je rw)
        end
    end
  else if negb (lt =? rt) then Ok false
  else if rt =? OBJECT_CONTAINER_TAG then
    if hdr_len lh <? hdr_len rh then Ok false else
    iterate_object_entries r rh
      (fun (_ : unit) rkey rje rval =>
         do o <- get_jentry_by_name_w l 0 lh rkey false;
         match o with
         | None => Ok (inr false)
         | Some (lenc, loff) =>
             if negb (je_type lenc =? fst rje) then Ok (inr false) else
             do lval <- slice_p l loff (je_len lenc);
             if negb (fst rje =? CONTAINER_TAG) then
               (if scalar_payload_eq_w (fst rje) lval rval then Ok (inl tt) else Ok (inr false))
             else
               do b <- rec lval rval;
               if b then Ok (inl tt) else Ok (inr false)
         end)
      (fun _ => Ok true) tt
  else if rt =? ARRAY_CONTAINER_TAG then
    iterate_array r rh
      (fun (_ : unit) rje rval =>
         if negb (fst rje =? CONTAINER_TAG) then
           do b <- array_contains_w l lh rval rje;
           if b then Ok (inl tt) else Ok (inr false)
         else
           do nested <- nested_of l lh;
           do b <- nested_any (fun lv => rec lv rval) nested;
           if b then Ok (inl tt) else Ok (inr false))
      (fun _ => Ok true) tt
  else
    match read_u32 l 4 with None => Err EOther | Some lw =>
    match read_u32 r 4 with None => Err EOther | Some rw =>
    if negb (je_type lw =? je_type rw) then Ok false else
    match slice_from l 8 with None => Panic | Some lv =>
    match slice_from r 8 with None => Panic | Some rv =>
    Ok (scalar_payload_eq_w (je_type lw) lv rv)
    end end end end
  end end.

Fixpoint contains_jsonb_w (fuel : nat) (l r : list N) : res bool :=
  match fuel with
  | O => Err EFuel
  | S f => contains_step (contains_jsonb_w f) l r
  end.

(* contains, binary branch: `contains_jsonb(left, right).unwrap_or(false)` *)
Definition contains_b (l r : list N) : res bool :=
  match contains_jsonb_w (S (length r)) l r with
  | Ok b => Ok b
  | Err _ => Ok false
  | Panic => Panic
  end.

(* the public function: the text branch is the one of Dispatch.contains_m *)
Definition contains_w (l r : list N) : res bool :=
  if negb (is_jsonb l) || negb (is_jsonb r) then
    match from_slice l, from_slice r with
    | Ok a, Ok b => Ok (contains_t a b)
    | Panic, _ | _, Panic => Panic
    | _, _ => Ok false
    end
  else contains_b l r.
