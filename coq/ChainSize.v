(* ChainSize.v — the size hypothesis of the byte-chain theorems (C07) discharged from the INPUTS.
   `sizes_ok regs ops` (ChainWalkProofs.v) speaks about every register the TREE run produces.  Here: a bound computed from
   the initial registers and the operation list alone, without running the chain,
       chain_budget regs ops  =  fold over ops of `op_bound`, starting from the largest encoding among the registers
   and the theorem   Inv regs -> chain_budget regs ops < 2^26 -> sizes_ok regs ops.
   The measure is the length of the encoding, `sz v = lenN (enc v)`.  Per operation: every document the operation adds
   has an encoding no longer than `op_grow o M`, when M bounds the encodings of all registers (M >= 8, the null document an
   absent register reads as).  An encoding shorter than 2^26 bytes is within every bound of the format (wf_size: payloads
   < 2^28, counts < 2^29; top_ok: top-level count < 2^24, since a container spends at least 4 bytes per element). *)
From Coq Require Import List NArith ZArith Bool Lia ZifyBool ZifyNat ZifyN.
Import ListNotations.
From JB Require Import Constants Bytes Utf8 Num Value Codec TreeOps SetOps Path PathSem Dispatch
  TreeWf TreeWf2 ChainWalk OrderProofs CodecProofs RoundtripProofs DispatchProofs WalkProofs SizeBounds ChainWalkProofs.
Open Scope N_scope.
Set Default Timeout 60.
Arguments N.land : simpl never. Arguments N.lor : simpl never. Arguments N.eqb : simpl never. Arguments N.ltb : simpl never.
Arguments N.leb : simpl never. Arguments N.add : simpl never. Arguments N.mul : simpl never. Arguments N.sub : simpl never.
Arguments N.max : simpl never.
Arguments be32 : simpl never. Arguments read_u32 : simpl never.

(* ================================================================ the measure *)
Definition sz (v : value) : N := lenN (enc v).
Definition pl (v : value) : N := lenN (payload v).
(* what a list of elements costs inside an array: an entry word and the payload, each *)
Definition acost (l : list value) : N := 4 * lenN l + sum_len l.

Lemma sz_arr l : sz (VArr l) = 4 + acost l.
Proof. unfold sz, acost. rewrite enc_arr_len. lia. Qed.
Lemma sz_obj o : sz (VObj o) = 4 + msz o.
Proof. unfold sz. apply enc_obj_len. Qed.
Lemma pl_arr l : pl (VArr l) = 4 + acost l.
Proof. unfold pl, acost. rewrite payload_len_arr. lia. Qed.
Lemma pl_obj o : pl (VObj o) = 4 + msz o.
Proof. unfold pl. apply payload_len_obj. Qed.
Lemma pl_le_sz v : pl v <= sz v.
Proof. apply payload_le_enc. Qed.
Lemma sz_le_pl v : sz v <= pl v + 8.
Proof. unfold sz, pl. destruct v; unfold enc, payload; cbn [enc_item snd fst]; rewrite ?lenN_app, ?lenN_be32; lia. Qed.
Lemma sz_container v : is_container v = true -> sz v = pl v.
Proof. destruct v; cbn; try discriminate; reflexivity. Qed.
Lemma sz_null : sz VNull = 8.
Proof. reflexivity. Qed.
Lemma pl_str s : pl (VStr s) = lenN s.
Proof. reflexivity. Qed.

Lemma acost_nil : acost [] = 0.
Proof. reflexivity. Qed.
Lemma acost_cons x l : acost (x :: l) = 4 + pl x + acost l.
Proof. unfold acost, pl. rewrite sum_len_cons, lenN_cons. lia. Qed.
Lemma acost_app a b : acost (a ++ b) = acost a + acost b.
Proof. unfold acost. rewrite sum_len_app, lenN_app. lia. Qed.
Lemma acost_filter f l : acost (filter f l) <= acost l.
Proof. induction l as [|x l IH]; [vm_compute; discriminate|]. cbn [filter]. destruct (f x); rewrite ?acost_cons; lia. Qed.
Lemma acost_split n l : acost (firstn n l) + acost (skipn n l) = acost l.
Proof. rewrite <- acost_app, firstn_skipn. reflexivity. Qed.
Lemma acost_remove_nth l : forall n, acost (remove_nth l n) <= acost l.
Proof. induction l as [|x l IH]; intros [|n]; cbn [remove_nth]; rewrite ?acost_cons; try lia. specialize (IH n). lia. Qed.
Lemma acost_in x l : In x l -> 4 + pl x <= acost l.
Proof. induction l as [|y l IH]; intros H; [destruct H|]. rewrite acost_cons. destruct H as [->|H]; [lia|]. specialize (IH H). lia. Qed.
Lemma nth_opt_in {A} (l : list A) : forall n x, nth_opt l n = Some x -> In x l.
Proof. induction l as [|y l IH]; intros [|n] x H; cbn [nth_opt] in H; try discriminate H; [injection H as ->; left; reflexivity|right; eapply IH; exact H]. Qed.
Lemma acost_map_le (f : value -> value) l : Forall (fun x => pl (f x) <= pl x) l -> acost (map f l) <= acost l.
Proof. induction 1 as [|x l H _ IH]; [vm_compute; discriminate|]. cbn [map]. rewrite !acost_cons. lia. Qed.
Lemma acost_replace_nth l x' : forall n x, nth_opt l n = Some x -> pl x' <= pl x -> acost (replace_nth l n x') <= acost l.
Proof.
  induction l as [|y l IH]; intros [|n] x H Hx; cbn [nth_opt replace_nth] in *; try discriminate H; rewrite ?acost_cons.
  - injection H as ->. lia.
  - specialize (IH n x H Hx). lia.
Qed.

Lemma msz_nil : msz [] = 0.
Proof. reflexivity. Qed.
Lemma msz_cons kv o : msz (kv :: o) = 8 + lenN (fst kv) + pl (snd kv) + msz o.
Proof. reflexivity. Qed.
Lemma msz_filter f o : msz (filter f o) <= msz o.
Proof. induction o as [|kv o IH]; [vm_compute; discriminate|]. cbn [filter]. destruct (f kv); rewrite ?msz_cons; lia. Qed.
Lemma msz_in kv o : In kv o -> 8 + lenN (fst kv) + pl (snd kv) <= msz o.
Proof. induction o as [|y o IH]; intros H; [destruct H|]. rewrite msz_cons. destruct H as [->|H]; [lia|]. specialize (IH H). lia. Qed.
Lemma msz_value x o : In x (map snd o) -> 8 + pl x <= msz o.
Proof. intros H. apply in_map_iff in H. destruct H as (kv & <- & H). pose proof (msz_in kv o H). lia. Qed.
Lemma acost_values o : acost (map snd o) <= msz o.
Proof. induction o as [|kv o IH]; [vm_compute; discriminate|]. cbn [map]. rewrite acost_cons, msz_cons. lia. Qed.
Lemma acost_keys (o : list (list N * value)) : acost (map (fun kv => VStr (fst kv)) o) <= msz o.
Proof. induction o as [|kv o IH]; [vm_compute; discriminate|]. cbn [map]. rewrite acost_cons, msz_cons, pl_str. lia. Qed.

(* ================================================================ a short encoding is within every bound of the format *)
Lemma pl_small_wf_size v : pl v < 268435456 -> wf_size v = true.
Proof.
  induction v as [| | s | |l IH|o IH] using value_ind2; intros H; try reflexivity.
  - cbn [wf_size]. rewrite pl_str in H. apply N.ltb_lt. exact H.
  - rewrite pl_arr in H. apply wf_size_arr_of; [|unfold acost in H; lia].
    apply forallb_forall. intros x Hx. rewrite Forall_forall in IH. apply (IH x Hx). pose proof (acost_in x l Hx). lia.
  - rewrite pl_obj in H. apply wf_size_obj_of; [|lia].
    apply forallb_forall. intros kv Hkv. rewrite Forall_forall in IH. pose proof (msz_in kv o Hkv) as Hm.
    unfold member_size_ok. rewrite (IH kv Hkv) by lia. rewrite andb_true_r. apply N.ltb_lt. lia.
Qed.

Definition SIZE_LIMIT : N := 67108864.     (* 2^26 *)

Theorem small_size_ok v : sz v < SIZE_LIMIT -> size_ok v.
Proof.
  unfold SIZE_LIMIT. intros H. pose proof (pl_le_sz v) as P. split; [apply pl_small_wf_size; lia|].
  unfold top_ok. destruct v as [| | | |l|o]; cbn [top_count]; try lia.
  - rewrite sz_arr in H. unfold acost in H. lia.
  - rewrite sz_obj in H. pose proof (msz_count o). lia.
Qed.

(* ================================================================ the operations, one by one *)
Lemma sz_child_arr x l : In x l -> sz x <= sz (VArr l).
Proof. intros H. pose proof (acost_in x l H). pose proof (sz_le_pl x). rewrite sz_arr. lia. Qed.
Lemma sz_child_obj x o : In x (map snd o) -> sz x <= sz (VObj o).
Proof. intros H. pose proof (msz_value x o H). pose proof (sz_le_pl x). rewrite sz_obj. lia. Qed.

Lemma msz_merge (r : list (list N * value)) : forall l,
  msz (fold_left (fun acc kv => assoc_insert (fst kv) (snd kv) acc) r l) <= msz l + msz r.
Proof.
  induction r as [|[k x] r IH]; intros l; cbn [fold_left fst snd]; [rewrite msz_nil; lia|].
  specialize (IH (assoc_insert k x l)). pose proof (msz_insert k x l). rewrite msz_cons. cbn [fst snd]. unfold pl. lia.
Qed.

Lemma sz_concat a b : sz (concat_t a b) <= sz a + sz b + 16.
Proof.
  pose proof (pl_le_sz a) as Pa. pose proof (pl_le_sz b) as Pb.
  destruct a as [|ba|sa|na|la|oa]; destruct b as [|bb|sb|nb|lb|ob]; cbn [concat_t];
    rewrite ?sz_arr, ?sz_obj, ?acost_app, ?acost_cons, ?acost_nil in *; try lia.
  pose proof (msz_merge ob oa). lia.
Qed.

Lemma sz_delete_by_name v name r : delete_by_name_t v name = Ok r -> sz r <= sz v.
Proof.
  destruct v as [| | | |l|o]; cbn [delete_by_name_t]; intros H; try discriminate H; injection H as <-.
  - rewrite !sz_arr. pose proof (acost_filter (fun x => negb (str_is name x)) l). lia.
  - rewrite !sz_obj. unfold assoc_remove. pose proof (msz_filter (fun kv => negb (bytes_eqb name (fst kv))) o). lia.
Qed.
Lemma sz_delete_by_index v i r : delete_by_index_t v i = Ok r -> sz r <= sz v.
Proof.
  destruct v as [| | | |l|o]; cbn [delete_by_index_t]; intros H; try discriminate H.
  destruct (DBI_T_KEEP _ _); injection H as <-; [|lia].
  rewrite !sz_arr. pose proof (acost_remove_nth l (Z.to_nat (DBI_T_RESOLVE i (lenZ l)))). lia.
Qed.

Lemma acost_items_of v : acost (items_of v) <= sz v + 4.
Proof.
  pose proof (pl_le_sz v). destruct v; cbn [items_of]; rewrite ?acost_cons, ?acost_nil; try lia. rewrite sz_arr. lia.
Qed.
Lemma sz_array_insert v pos x : sz (array_insert_t v pos x) <= sz v + sz x + 16.
Proof.
  unfold array_insert_t. cbv zeta. change (match v with VArr l => l | other => [other] end) with (items_of v).
  set (j := Z.to_nat _). rewrite sz_arr, !acost_app, acost_cons, acost_nil.
  pose proof (acost_split j (items_of v)). pose proof (acost_items_of v). pose proof (pl_le_sz x). lia.
Qed.
Lemma sz_object_insert v k x u r : object_insert_t v k x u = Ok r -> sz r <= sz v + sz x + lenN k + 8.
Proof.
  destruct v as [| | | | |o]; cbn [object_insert_t]; intros H; try discriminate H.
  assert (G : sz (VObj (assoc_insert k x o)) <= sz (VObj o) + sz x + lenN k + 8).
  { rewrite !sz_obj. pose proof (msz_insert k x o). pose proof (pl_le_sz x). unfold pl in *. lia. }
  destruct (assoc_lookup k o); [destruct u; [|discriminate H]|]; injection H as <-; exact G.
Qed.
Lemma sz_object_delete v ks r : object_delete_t v ks = Ok r -> sz r <= sz v.
Proof.
  destruct v as [| | | | |o]; cbn [object_delete_t]; intros H; try discriminate H; injection H as <-.
  rewrite !sz_obj. pose proof (msz_filter (fun kv => negb (mem_key (fst kv) ks)) o). lia.
Qed.
Lemma sz_object_pick v ks r : object_pick_t v ks = Ok r -> sz r <= sz v.
Proof.
  destruct v as [| | | | |o]; cbn [object_pick_t]; intros H; try discriminate H; injection H as <-.
  rewrite !sz_obj. pose proof (msz_filter (fun kv => mem_key (fst kv) ks) o). lia.
Qed.

Lemma msz_map_le (f : value -> value) o : Forall (fun kv => pl (f (snd kv)) <= pl (snd kv)) o ->
  msz (map (fun kv => (fst kv, f (snd kv))) o) <= msz o.
Proof. induction 1 as [|kv o H _ IH]; [vm_compute; discriminate|]. cbn [map]. rewrite !msz_cons. cbn [fst snd]. lia. Qed.
Lemma pl_strip_nulls v : pl (strip_nulls_t v) <= pl v.
Proof.
  induction v as [| | | |l IH|o IH] using value_ind2; cbn [strip_nulls_t]; try lia.
  - rewrite !pl_arr. pose proof (acost_map_le strip_nulls_t l IH). lia.
  - rewrite !pl_obj. pose proof (msz_map_le strip_nulls_t o IH).
    pose proof (msz_filter (fun kv : list N * value => match snd kv with VNull => false | _ => true end)
                           (map (fun kv => (fst kv, strip_nulls_t (snd kv))) o)). lia.
Qed.
Lemma sz_strip_nulls v : sz (strip_nulls_t v) <= sz v.
Proof.
  pose proof (pl_strip_nulls v) as H. destruct v as [| | | |l|o]; try (cbn [strip_nulls_t]; lia).
  - cbn [strip_nulls_t] in *. rewrite !pl_arr in H. rewrite !sz_arr. exact H.
  - cbn [strip_nulls_t] in *. rewrite !pl_obj in H. rewrite !sz_obj. exact H.
Qed.

Lemma sz_get_by_index v i x : get_by_index_t v i = Some x -> sz x <= sz v.
Proof.
  destruct v as [| | | |l|o]; cbn [get_by_index_t]; intros H; try discriminate H.
  destruct (lenN l <=? i); [discriminate H|]. apply sz_child_arr. eapply nth_opt_in; exact H.
Qed.
Lemma sz_get_by_name v name ic x : get_by_name_t v name ic = Some x -> sz x <= sz v.
Proof.
  destruct v as [| | | |l|o]; cbn [get_by_name_t]; intros H; try discriminate H. apply sz_child_obj.
  destruct (assoc_lookup name o) as [y|] eqn:E; [injection H as <-; eapply lookup_member; exact E|].
  destruct ic; [|discriminate H]. eapply first_ci_member; exact H.
Qed.
Lemma sz_get_by_keypath : forall ks v x, get_by_keypath_t v ks = Some x -> sz x <= sz v.
Proof.
  induction ks as [|k r IH]; intros v x H; cbn [get_by_keypath_t] in H; [injection H as <-; lia|].
  assert (Ho : forall n o, match assoc_lookup n o with Some y => get_by_keypath_t y r | None => None end = Some x -> sz x <= sz (VObj o)).
  { intros n o E. destruct (assoc_lookup n o) as [y|] eqn:L; [|discriminate E].
    pose proof (IH y x E). pose proof (sz_child_obj y o (lookup_member n o y L)). lia. }
  destruct k as [i|n|n]; destruct v as [| | | |l|o]; try discriminate H; try (apply (Ho n o H)).
  destruct (GBK_T_REJECT _ _); [discriminate H|].
  destruct (nthZ l _) as [y|] eqn:L; [|discriminate H]. pose proof (IH y x H).
  unfold nthZ in L. destruct (_ || _)%bool; [discriminate L|]. pose proof (sz_child_arr y l (nth_opt_in _ _ _ L)). lia.
Qed.
Lemma sz_object_keys v k : object_keys_t v = Some k -> sz k <= sz v.
Proof.
  destruct v as [| | | | |o]; cbn [object_keys_t]; intros H; try discriminate H; injection H as <-.
  rewrite sz_arr, sz_obj. pose proof (acost_keys o). lia.
Qed.

Lemma acost_distinct l : forall seen, acost (distinct_acc seen l) <= acost l.
Proof.
  induction l as [|x l IH]; intros seen; cbn [distinct_acc]; [lia|].
  destruct (existsb _ seen); rewrite ?acost_cons; [specialize (IH seen)|specialize (IH (x :: seen))]; lia.
Qed.
Lemma acost_inter l : forall m, acost (inter_acc l m) <= acost l.
Proof.
  induction l as [|x l IH]; intros m; cbn [inter_acc]; [lia|].
  destruct (take_one x m) as [m'|]; rewrite ?acost_cons; [specialize (IH m')|specialize (IH m)]; lia.
Qed.
Lemma acost_except l : forall m, acost (except_acc l m) <= acost l.
Proof.
  induction l as [|x l IH]; intros m; cbn [except_acc]; [lia|].
  destruct (take_one x m) as [m'|]; rewrite ?acost_cons; [specialize (IH m')|specialize (IH m)]; lia.
Qed.
Lemma sz_distinct v : sz (array_distinct_t v) <= sz v + 8.
Proof. unfold array_distinct_t. rewrite sz_arr. pose proof (acost_distinct (items_of v) []). pose proof (acost_items_of v). lia. Qed.
Lemma sz_intersection a b : sz (array_intersection_t a b) <= sz a + 8.
Proof. unfold array_intersection_t. rewrite sz_arr. pose proof (acost_inter (items_of a) (items_of b)). pose proof (acost_items_of a). lia. Qed.
Lemma sz_except a b : sz (array_except_t a b) <= sz a + 8.
Proof. unfold array_except_t. rewrite sz_arr. pose proof (acost_except (items_of a) (items_of b)). pose proof (acost_items_of a). lia. Qed.
Lemma sz_normalise v : sz (normalise v) = sz v.
Proof. unfold sz. rewrite enc_normalise. reflexivity. Qed.

(* ---- delete_by_keypath: below the top level a member is REPLACED; with unique keys only that member changes *)
Lemma assoc_replace_absent (n : list N) (x' : value) (o : list (list N * value)) :
  Forall (fun kv => bytes_eqb n (fst kv) = false) o -> assoc_replace n x' o = o.
Proof.
  induction 1 as [|kv o H _ IH]; [reflexivity|]. unfold assoc_replace in *. cbn [map]. rewrite H, IH. reflexivity.
Qed.
Lemma msz_assoc_replace n x x' o : strongly_sorted o -> assoc_lookup n o = Some x -> pl x' <= pl x ->
  msz (assoc_replace n x' o) <= msz o.
Proof.
  induction o as [|[k v] o IH]; intros S L Hx; cbn [assoc_lookup] in L; [discriminate L|].
  cbn [strongly_sorted] in S. destruct S as [S1 S2].
  change (assoc_replace n x' ((k, v) :: o)) with ((if bytes_eqb n k then (k, x') else (k, v)) :: assoc_replace n x' o).
  destruct (bytes_eqb n k) eqn:E.
  - injection L as ->. rewrite assoc_replace_absent; [rewrite !msz_cons; cbn [fst snd]; lia|].
    rewrite bytes_eqb_cmp in E. destruct (bytes_cmp n k) eqn:C; try discriminate E. apply bytes_cmp_eq in C. subst k.
    eapply Forall_impl; [|exact S1]. intros kv Hkv. cbn beta in Hkv. rewrite bytes_eqb_cmp, Hkv. reflexivity.
  - rewrite !msz_cons. cbn [fst snd]. specialize (IH S2 L Hx). lia.
Qed.

Lemma sz_del_keypath fuel : forall v ks v', wf_shape v = true -> del_keypath fuel v ks = Some v' -> sz v' <= sz v.
Proof.
  induction fuel as [|f IH]; intros v ks v' W H; cbn [del_keypath] in H; [discriminate H|].
  destruct v as [| | | |l|o]; try discriminate H.
  - destruct ks as [|[i|n|n] r]; try discriminate H.
    destruct (DKP_T_SKIP _ _); [discriminate H|]. set (j := Z.to_nat _) in *.
    destruct r as [|k2 r2].
    + injection H as <-. rewrite !sz_arr. pose proof (acost_remove_nth l j). lia.
    + destruct (nth_opt l j) as [x|] eqn:L; [|discriminate H].
      destruct (is_container x) eqn:C; [|discriminate H].
      destruct (del_keypath f x (k2 :: r2)) as [x'|] eqn:D; [|discriminate H]. injection H as <-.
      assert (Wx : wf_shape x = true) by (apply (forallb_nth wf_shape l j x); [apply wf_arr_iff; exact W|exact L]).
      pose proof (IH x _ x' Wx D) as Hs. rewrite (sz_container x C) in Hs. pose proof (pl_le_sz x').
      rewrite !sz_arr. pose proof (acost_replace_nth l x' j x L). lia.
  - apply wf_obj_iff in W. destruct W as [Ws Wm].
    assert (G : forall n r, match r with
                  | [] => Some (VObj (assoc_remove n o))
                  | _ :: _ => match assoc_lookup n o with
                              | Some x => if is_container x then match del_keypath f x r with Some x' => Some (VObj (assoc_replace n x' o)) | None => None end else None
                              | None => Some (VObj o) end
                  end = Some v' -> sz v' <= sz (VObj o)).
    { intros n r E. destruct r as [|k2 r2].
      - injection E as <-. rewrite !sz_obj. unfold assoc_remove. pose proof (msz_filter (fun kv => negb (bytes_eqb n (fst kv))) o). lia.
      - destruct (assoc_lookup n o) as [x|] eqn:L; [|injection E as <-; lia].
        destruct (is_container x) eqn:C; [|discriminate E].
        destruct (del_keypath f x (k2 :: r2)) as [x'|] eqn:D; [|discriminate E]. injection E as <-.
        assert (Wx : wf_shape x = true) by (apply (members_values o x Wm); eapply lookup_member; exact L).
        pose proof (IH x _ x' Wx D) as Hs. rewrite (sz_container x C) in Hs. pose proof (pl_le_sz x').
        rewrite !sz_obj. pose proof (msz_assoc_replace n x x' o (proj1 (sorted_iff o) Ws) L). lia. }
    destruct ks as [|[i|n|n] r]; try discriminate H; apply (G n r H).
Qed.
Lemma sz_delete_by_keypath v ks r : wf_shape v = true -> delete_by_keypath_t v ks = Ok r -> sz r <= sz v.
Proof.
  intros W H. unfold delete_by_keypath_t in H. destruct v as [| | | |l|o]; try discriminate H.
  - destruct (del_keypath _ _ ks) as [v'|] eqn:D; injection H as <-; [eapply sz_del_keypath; eassumption|lia].
  - destruct (del_keypath _ _ ks) as [v'|] eqn:D; injection H as <-; [eapply sz_del_keypath; eassumption|lia].
Qed.

(* ---- builders: the arguments are registers *)
Lemma acost_bounded M l : Forall (fun v => sz v <= M) l -> acost l <= lenN l * (4 + M).
Proof.
  induction 1 as [|x l H _ IH]; [vm_compute; discriminate|]. rewrite acost_cons, lenN_cons. pose proof (pl_le_sz x). lia.
Qed.
(* an object built from keys `ks` and values of encoded size at most M *)
Definition kcost (M : N) (ks : list (list N)) : N := fold_right (fun k a => 8 + lenN k + M + a) 0 ks.
Lemma msz_combine M ks : forall vs, Forall (fun v => sz v <= M) vs -> msz (combine ks vs) <= kcost M ks.
Proof.
  induction ks as [|k ks IH]; intros vs F; cbn [combine kcost fold_right]; [rewrite msz_nil; lia|].
  fold (kcost M ks). destruct vs as [|x vs]; [rewrite msz_nil; lia|]. inversion F as [|? ? Hx Hr]; subst.
  rewrite msz_cons. cbn [fst snd]. specialize (IH vs Hr). pose proof (pl_le_sz x). lia.
Qed.
Lemma sz_build_object M ks vs : Forall (fun v => sz v <= M) vs -> sz (build_object_t (combine ks vs)) <= 4 + kcost M ks.
Proof.
  intros F. unfold build_object_t, assoc_of_list. rewrite sz_obj. pose proof (msz_merge (combine ks vs) []).
  pose proof (msz_combine M ks vs F). rewrite msz_nil in *. lia.
Qed.

(* ================================================================ selections *)
(* the items a path selects, laid side by side in an array, cost at most `path_fan ps` times the root: a step replaces a
   position by some of its children (cheaper than the position), except that an index list `[i, j, k to l]` may repeat
   children: at most once per entry of the list *)
Definition step_fan (p : path) : N := match p with PIndices ixs => lenN ixs | _ => 1 end.
Definition path_fan (ps : list path) : N := fold_right (fun p a => step_fan p * a) 1 ps.

Definition pick (l : list value) (k : nat) : list value := match nth_opt l k with Some x => [x] | None => [] end.
Lemma acost_skipn_S l : forall n, acost (skipn (S n) l) <= acost (skipn n l).
Proof.
  induction l as [|y l IH]; intros n; [destruct n; cbn [skipn]; lia|].
  destruct n as [|n]; [cbn [skipn]; rewrite acost_cons; lia|]. change (skipn (S (S n)) (y :: l)) with (skipn (S n) l).
  change (skipn (S n) (y :: l)) with (skipn n l). apply IH.
Qed.
Lemma acost_skipn_nth l : forall n x, nth_opt l n = Some x -> acost (skipn n l) = 4 + pl x + acost (skipn (S n) l).
Proof.
  induction l as [|y l IH]; intros [|n] x H; cbn [nth_opt] in H; try discriminate H.
  - injection H as ->. cbn [skipn]. apply acost_cons.
  - change (skipn (S (S n)) (y :: l)) with (skipn (S n) l). change (skipn (S n) (y :: l)) with (skipn n l). apply IH. exact H.
Qed.
Lemma acost_range l : forall cnt lo, acost (flat_map (pick l) (range_from lo cnt)) <= acost (skipn lo l).
Proof.
  induction cnt as [|c IH]; intros lo; cbn [range_from flat_map]; [rewrite acost_nil; lia|].
  rewrite acost_app. specialize (IH (S lo)). unfold pick at 1. destruct (nth_opt l lo) as [x|] eqn:E.
  - rewrite (acost_skipn_nth l lo x E), acost_cons, acost_nil. lia.
  - pose proof (acost_skipn_S l lo). rewrite acost_nil. lia.
Qed.
Lemma acost_skipn_le l n : acost (skipn n l) <= acost l.
Proof. pose proof (acost_split n l). lia. Qed.
Lemma acost_index_positions l a : acost (flat_map (pick l) (index_positions (lenZ l) a)) <= acost l.
Proof.
  destruct a as [i|s e]; cbn [index_positions].
  - destruct (CI_INRANGE _ _); cbn [flat_map]; [|rewrite acost_nil; lia]. rewrite app_nil_r. unfold pick.
    destruct (nth_opt l _) as [x|] eqn:E; [|rewrite acost_nil; lia].
    rewrite acost_cons, acost_nil. pose proof (acost_in x l (nth_opt_in _ _ _ E)). lia.
  - cbv zeta. destruct (CS_EMPTY _ _ _); [cbn [flat_map]; rewrite acost_nil; lia|].
    etransitivity; [apply acost_range|apply acost_skipn_le].
Qed.
Lemma acost_select_indices l ixs : acost (select_indices l ixs) <= lenN ixs * acost l.
Proof.
  unfold select_indices. destruct l as [|x0 l0]; [rewrite acost_nil; lia|]. set (L := x0 :: l0).
  change (fun k => match nth_opt L k with Some x => [x] | None => [] end) with (pick L).
  induction ixs as [|a ixs IH]; cbn [flat_map]; [rewrite acost_nil; lia|].
  rewrite flat_map_app, acost_app, lenN_cons. pose proof (acost_index_positions L a). lia.
Qed.

Lemma acost_select_step p v l : select_step p v = Ok l -> acost l <= step_fan p * (4 + pl v).
Proof.
  unfold select_step. intros H. destruct (is_container v) eqn:C.
  - assert (Hlook : forall n o, acost (match assoc_lookup n o with Some x => [x] | None => [] end) <= 1 * (4 + pl (VObj o))).
    { intros n o. rewrite pl_obj. destruct (assoc_lookup n o) as [x|] eqn:E; [|rewrite acost_nil; lia].
      rewrite acost_cons, acost_nil. pose proof (msz_value x o (lookup_member n o x E)). lia. }
    destruct p; try discriminate H; injection H as <-; cbn [step_fan]; destruct v as [| | | |la|o]; try discriminate C;
      rewrite ?acost_nil; try lia; try apply Hlook.
    + rewrite pl_obj. pose proof (acost_values o). lia.
    + rewrite pl_arr. lia.
    + rewrite acost_cons, acost_nil. lia.
    + rewrite pl_arr. pose proof (acost_select_indices la l0). pose proof (N.mul_le_mono_l (acost la) (4 + (4 + acost la)) (lenN l0)). lia.
  - destruct p; injection H as <-; cbn [step_fan]; rewrite ?acost_cons, ?acost_nil; lia.
Qed.

Lemma acost_flat_map_res f c : (forall v l, f v = Ok l -> acost l <= c * (4 + pl v)) ->
  forall fr out, flat_map_res f fr = Ok out -> acost out <= c * acost fr.
Proof.
  intros Hf. induction fr as [|x r IH]; intros out E; cbn [flat_map_res] in E; [injection E as <-; rewrite acost_nil; lia|].
  destruct (f x) as [a| |] eqn:Ea; cbn [bind] in E; try discriminate E.
  destruct (flat_map_res f r) as [b| |] eqn:Eb; cbn [bind] in E; try discriminate E. injection E as <-.
  rewrite acost_app, acost_cons. pose proof (Hf x a Ea). pose proof (IH b eq_refl). lia.
Qed.
Lemma acost_filter_res (f : value -> res bool) : forall fr out, filter_res f fr = Ok out -> acost out <= acost fr.
Proof.
  induction fr as [|x r IH]; intros out E; cbn [filter_res] in E; [injection E as <-; lia|].
  destruct (f x) as [k| |]; cbn [bind] in E; try discriminate E.
  destruct (filter_res f r) as [b| |]; cbn [bind] in E; try discriminate E. injection E as <-.
  specialize (IH b eq_refl). destruct k; rewrite ?acost_cons; lia.
Qed.
Lemma acost_walk fe : forall ps fr out, walk fe ps fr = Ok out -> acost out <= path_fan ps * acost fr.
Proof.
  induction ps as [|p r IH]; intros fr out E; cbn [walk] in E; [injection E as <-; cbn [path_fan fold_right]; lia|].
  cbn [path_fan fold_right]. fold (path_fan r).
  assert (Hkeep : walk fe r fr = Ok out -> step_fan p = 1 -> acost out <= step_fan p * path_fan r * acost fr).
  { intros E' ->. specialize (IH fr out E'). lia. }
  assert (Hfilt : forall g, (do fr' <- filter_res g fr; walk fe r fr') = Ok out -> step_fan p = 1 ->
                            acost out <= step_fan p * path_fan r * acost fr).
  { intros g E' ->. destruct (filter_res g fr) as [fr'| |] eqn:Ef; cbn [bind] in E'; try discriminate E'.
    specialize (IH fr' out E'). pose proof (acost_filter_res g fr fr' Ef) as Hf. pose proof (N.mul_le_mono_l _ _ (path_fan r) Hf). lia. }
  assert (Hstep : (do fr' <- flat_map_res (select_step p) fr; walk fe r fr') = Ok out ->
                  acost out <= step_fan p * path_fan r * acost fr).
  { intros E'. destruct (flat_map_res (select_step p) fr) as [fr'| |] eqn:Ef; cbn [bind] in E'; try discriminate E'.
    specialize (IH fr' out E'). pose proof (acost_flat_map_res (select_step p) (step_fan p) (acost_select_step p) fr fr' Ef) as Hf.
    pose proof (N.mul_le_mono_l _ _ (path_fan r) Hf) as Hm.
    replace (step_fan p * path_fan r * acost fr) with (path_fan r * (step_fan p * acost fr)) by (rewrite N.mul_assoc, (N.mul_comm (path_fan r)); reflexivity). lia. }
  destruct p; first [apply (Hkeep E); reflexivity | apply (Hfilt _ E); reflexivity | apply (Hstep E)].
Qed.
Lemma acost_find_positions root ps items : find_positions root None ps = Ok items -> acost items <= path_fan ps * (4 + pl root).
Proof.
  unfold find_positions, find_positions_with. intros E.
  assert (G : walk (fun pos e => filter_expr root pos e) ps [root] = Ok items -> acost items <= path_fan ps * (4 + pl root)).
  { intros W. pose proof (acost_walk _ ps [root] items W) as H. rewrite acost_cons, acost_nil in H. lia. }
  destruct ps as [|p r]; cbn [bind] in E; [apply G; exact E|].
  destruct p; cbn [bind] in E; try discriminate E; apply G; exact E.
Qed.
Lemma in_firstn {A} (x : A) : forall n l, In x (firstn n l) -> In x l.
Proof.
  induction n as [|n IH]; intros [|y l] H; cbn [firstn] in H; try (destruct H; fail).
  destruct H as [->|H]; [left; reflexivity|right; apply IH; exact H].
Qed.
Lemma sz_mode_items m items d : In d (mode_items m items) -> sz d <= 4 + acost items.
Proof.
  assert (HI : forall x, In x items -> sz x <= 4 + acost items).
  { intros x Hx. pose proof (acost_in x items Hx). pose proof (sz_le_pl x). lia. }
  assert (HA : In d [VArr items] -> sz d <= 4 + acost items).
  { intros [<-|[]]. rewrite sz_arr. lia. }
  destruct m; cbn [mode_items]; intros H.
  - apply HI. eapply in_firstn; exact H.
  - apply HA; exact H.
  - apply HI; exact H.
  - destruct (1 <? length items)%nat; [apply HA|apply HI]; exact H.
Qed.
Lemma sz_select_items root ps m its d : select_items_t root ps m = Ok its -> In d its ->
  sz d <= 4 + path_fan ps * (4 + sz root).
Proof.
  unfold select_items_t. intros E Hd.
  destruct (find_positions root None ps) as [items| |] eqn:F; cbn [bind] in E; try discriminate E.
  destruct (is_predicate ps); injection E as <-; [destruct Hd|].
  pose proof (sz_mode_items m items d Hd). pose proof (acost_find_positions root ps items F). pose proof (pl_le_sz root).
  pose proof (N.mul_le_mono_l (4 + pl root) (4 + sz root) (path_fan ps)). lia.
Qed.

(* ================================================================ the budget *)
(* a bound on the encoded size of every document operation `o` adds, when M (>= 8) bounds every register *)
Definition base_grow (o : op) (M : N) : N :=
  match o with
  | OConcat _ _ | OArrayInsert _ _ _ => 2 * M + 16
  | OObjectInsert _ k _ _ => 2 * M + lenN k + 8
  | OBuildArray rs => 4 + lenN rs * (4 + M)
  | OBuildObject ks _ => 4 + kcost M ks
  | ODistinct _ | OIntersection _ _ | OExcept _ _ => M + 8
  | _ => M
  end.
Definition op_grow (o : op3) (M : N) : N :=
  match o with
  | OOp2 (OBase b) => base_grow b M
  | OOp2 _ => M
  | OSelect _ ps _ | OGetByPath _ ps _ => 4 + path_fan ps * (4 + M)
  end.
Definition op_bound (o : op3) (M : N) : N := N.max M (op_grow o M).
(* the largest encoding among the registers; 8 = the null document an absent register reads as *)
Definition max_sz (regs : list value) : N := fold_right (fun v a => N.max (sz v) a) 8 regs.
Definition chain_budget_from (M : N) (ops : list op3) : N := fold_left (fun M o => op_bound o M) ops M.
Definition chain_budget (regs : list value) (ops : list op3) : N := chain_budget_from (max_sz regs) ops.

Definition bounded (M : N) (regs : list value) : Prop := 8 <= M /\ Forall (fun v => sz v <= M) regs.

Lemma max_sz_bounded regs : bounded (max_sz regs) regs.
Proof.
  induction regs as [|v regs [I1 I2]]; [split; [cbn [max_sz fold_right]; lia|constructor]|].
  cbn [max_sz fold_right]. fold (max_sz regs). split; [lia|]. constructor; [lia|].
  eapply Forall_impl; [|exact I2]. cbn beta. intros; lia.
Qed.
Lemma reg_bounded M regs a : bounded M regs -> sz (reg regs a) <= M.
Proof.
  intros [H1 H2]. unfold reg. destruct (Nat.lt_ge_cases a (length regs)) as [L|L].
  - rewrite Forall_forall in H2. apply H2. apply nth_In. exact L.
  - rewrite nth_overflow by lia. rewrite sz_null. exact H1.
Qed.
Lemma regs_bounded M regs rs : bounded M regs -> Forall (fun v => sz v <= M) (map (reg regs) rs).
Proof. intros H. apply Forall_forall. intros x Hx. apply in_map_iff in Hx. destruct Hx as (a & <- & _). apply reg_bounded. exact H. Qed.

Lemma one_doc (P : value -> Prop) (r : option value) : (forall d, r = Some d -> P d) -> Forall P (match r with Some d => [d] | None => [] end).
Proof. intros H. destruct r as [d|]; [constructor; [apply H; reflexivity|constructor]|constructor]. Qed.

Lemma step_doc_bounded M regs o d : Inv regs -> bounded M regs -> step_doc regs o = Some d -> sz d <= base_grow o M.
Proof.
  intros HI HB H. assert (R : forall a, sz (reg regs a) <= M) by (intros a0; apply reg_bounded; exact HB).
  destruct o; cbn [step_doc base_grow] in *.
  - injection H as <-. pose proof (sz_concat (reg regs a) (reg regs b)). pose proof (R a). pose proof (R b). lia.
  - destruct (delete_by_name_t _ _) as [r| |] eqn:E; try discriminate H. injection H as <-. pose proof (sz_delete_by_name _ _ _ E). pose proof (R a). lia.
  - destruct (delete_by_index_t _ _) as [r| |] eqn:E; try discriminate H. injection H as <-. pose proof (sz_delete_by_index _ _ _ E). pose proof (R a). lia.
  - injection H as <-. pose proof (sz_array_insert (reg regs a) pos (reg regs b)). pose proof (R a). pose proof (R b). lia.
  - destruct (key_ok k); [|discriminate H]. destruct (object_insert_t _ _ _ _) as [r| |] eqn:E; try discriminate H. injection H as <-.
    pose proof (sz_object_insert _ _ _ _ _ E). pose proof (R a). pose proof (R b). lia.
  - destruct (object_delete_t _ _) as [r| |] eqn:E; try discriminate H. injection H as <-. pose proof (sz_object_delete _ _ _ E). pose proof (R a). lia.
  - destruct (object_pick_t _ _) as [r| |] eqn:E; try discriminate H. injection H as <-. pose proof (sz_object_pick _ _ _ E). pose proof (R a). lia.
  - injection H as <-. pose proof (sz_strip_nulls (reg regs a)). pose proof (R a). lia.
  - injection H as <-. unfold build_array_t. rewrite sz_arr. pose proof (acost_bounded M _ (regs_bounded M regs rs HB)) as A.
    rewrite lenN_map in A. lia.
  - destruct (forallb key_ok ks); [|discriminate H]. injection H as <-. apply sz_build_object. apply regs_bounded. exact HB.
  - pose proof (sz_get_by_index _ _ _ H). pose proof (R a). lia.
  - pose proof (sz_get_by_name _ _ _ _ H). pose proof (R a). lia.
  - injection H as <-. pose proof (sz_distinct (reg regs a)). pose proof (R a). lia.
  - injection H as <-. pose proof (sz_intersection (reg regs a) (reg regs b)). pose proof (R a). lia.
  - injection H as <-. pose proof (sz_except (reg regs a) (reg regs b)). pose proof (R a). lia.
  - injection H as <-. rewrite sz_normalise. apply R.
Qed.

Lemma step_docs3_bounded M regs o : Inv regs -> bounded M regs -> Forall (fun v => sz v <= op_grow o M) (step_docs3 regs o).
Proof.
  intros HI HB. assert (R : forall a, sz (reg regs a) <= M) by (intros a0; apply reg_bounded; exact HB).
  assert (HS : forall a ps m, Forall (fun v => sz v <= 4 + path_fan ps * (4 + M))
                               match select_items_t (normalise (reg regs a)) ps m with Ok l => l | _ => [] end).
  { intros a ps m. destruct (select_items_t _ ps m) as [l| |] eqn:E; try constructor. apply Forall_forall. intros d Hd.
    pose proof (sz_select_items _ ps m l d E Hd) as H. rewrite sz_normalise in H. pose proof (R a).
    pose proof (N.mul_le_mono_l (4 + sz (reg regs a)) (4 + M) (path_fan ps)). lia. }
  destruct o as [[b|a ks|a ks|a]|a ps m|a ps m]; cbn [step_docs3 step_doc2 op_grow]; try apply HS; apply one_doc; intros d H.
  - eapply step_doc_bounded; eassumption.
  - pose proof (sz_get_by_keypath _ _ _ H). pose proof (R a). lia.
  - destruct (delete_by_keypath_t _ _) as [r| |] eqn:E; try discriminate H. injection H as <-.
    pose proof (sz_delete_by_keypath _ _ _ (reg_wf regs a HI) E). pose proof (R a). lia.
  - pose proof (sz_object_keys _ _ H). pose proof (R a). lia.
Qed.

Lemma step3_bounded M regs o : Inv regs -> bounded M regs -> bounded (op_bound o M) (step3 regs o).
Proof.
  intros HI HB. pose proof (step_docs3_bounded M regs o HI HB) as HD. destruct HB as [H1 H2]. unfold op_bound, step3.
  split; [lia|]. apply Forall_app. split; (eapply Forall_impl; [|eassumption]); cbn beta; intros; lia.
Qed.
Lemma run3_bounded ops : forall M regs, Inv regs -> bounded M regs -> bounded (chain_budget_from M ops) (run3 regs ops).
Proof.
  induction ops as [|o ops IH]; intros M regs HI HB; cbn [run3 chain_budget_from fold_left]; [exact HB|].
  apply IH; [apply step3_inv; exact HI|apply step3_bounded; assumption].
Qed.

(* THE SUFFICIENT CONDITION ON THE INPUTS: the size hypothesis of the byte-chain theorems follows from a bound computed
   from the initial registers and the operation list, without running the chain *)
Theorem sizes_ok_from_budget regs ops : Inv regs -> chain_budget regs ops < SIZE_LIMIT -> sizes_ok regs ops.
Proof.
  intros HI HL. destruct (run3_bounded ops (max_sz regs) regs HI (max_sz_bounded regs)) as [_ HB].
  unfold sizes_ok. eapply Forall_impl; [|exact HB]. cbn beta. intros v Hv. apply small_size_ok. unfold chain_budget in HL. lia.
Qed.
(* in the form asked for: well-formed initial registers (shape and sizes) *)
Corollary sizes_ok_from_budget_wfb regs ops : Forall (fun v => wfb v = true) regs -> chain_budget regs ops < SIZE_LIMIT -> sizes_ok regs ops.
Proof.
  intros HW. apply sizes_ok_from_budget. unfold Inv. eapply Forall_impl; [|exact HW]. cbn beta. intros v H.
  unfold wfb in H. apply andb_true_iff in H. apply H.
Qed.

(* the budget is monotone along the chain: a prefix of the chain needs no more *)
Lemma chain_budget_from_le ops : forall M, M <= chain_budget_from M ops.
Proof.
  induction ops as [|o ops IH]; intros M; cbn [chain_budget_from fold_left]; [lia|].
  specialize (IH (op_bound o M)). unfold chain_budget_from in IH. unfold op_bound in *. lia.
Qed.

(* ================================================================ the byte-chain theorems from the inputs alone *)
Theorem run_b_enc_from_input_sizes ops regs : Inv regs -> chain_budget regs ops < SIZE_LIMIT ->
  run_b (map enc regs) ops = map enc (run3 regs ops).
Proof. intros HI HL. apply run_b_enc; [exact HI|apply sizes_ok_from_budget; assumption]. Qed.
Theorem run_bp_enc_from_input_sizes pre ops regs : Inv regs -> chain_budget regs ops < SIZE_LIMIT ->
  run_bp pre (map enc regs) ops = map enc (run3 regs ops).
Proof. intros HI HL. apply run_bp_enc; [exact HI|apply sizes_ok_from_budget; assumption]. Qed.
Theorem run_b_canonical_from_input_sizes ops regs : Inv regs -> chain_budget regs ops < SIZE_LIMIT ->
  Forall canonical (run_b (map enc regs) ops).
Proof. intros HI HL. apply run_b_canonical; [exact HI|apply sizes_ok_from_budget; assumption]. Qed.
(* every intermediate register file, and the vocabularies of TreeWf.v (`run`) and TreeWf2.v (`run2`) *)
Theorem run_b_enc_every_step_from_input_sizes ops1 ops2 regs : Inv regs -> chain_budget regs (ops1 ++ ops2) < SIZE_LIMIT ->
  run_b (map enc regs) ops1 = map enc (run3 regs ops1).
Proof. intros HI HL. eapply run_b_enc_every_step; [exact HI|apply sizes_ok_from_budget; eassumption]. Qed.
Theorem run_b_enc1_from_input_sizes ops regs : Inv regs -> chain_budget regs (map lift1 ops) < SIZE_LIMIT ->
  run_b (map enc regs) (map lift1 ops) = map enc (run regs ops).
Proof. intros HI HL. apply run_b_enc1; [exact HI|apply sizes_ok_from_budget; assumption]. Qed.
Theorem run_b_enc2_from_input_sizes ops regs : Inv regs -> chain_budget regs (map lift2 ops) < SIZE_LIMIT ->
  run_b (map enc regs) (map lift2 ops) = map enc (run2 regs ops).
Proof. intros HI HL. apply run_b_enc2; [exact HI|apply sizes_ok_from_budget; assumption]. Qed.
